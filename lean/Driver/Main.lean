/-
  `bitamodel`: one request per line on stdin, one answer per line on stdout.
  Every answer is computed by the executable definitions of the model (Bita/Model) or of the
  independent specifications (Bita/Spec) — the same definitions the theorems are about.
-/
import Bita.Model.Basic
import Bita.Model.Readers
import Bita.Spec.Runs
import Bita.Spec.Resume
import Bita.Model.Chunker
import Bita.Spec.Chunking
import Bita.Model.Output
import Bita.Spec.InPlace
import Driver.Proto

open Bita Driver

def showItem : Item → String
  | .chunk d => s!"c{digest d}"
  | .errHttp => "H"
  | .errEnd => "E"
  | .errIo => "I"
  | .errEof => "F"
  | .panic => "P"
  | .stall => "S"

def showReqs (rs : List (Nat × Nat)) : String :=
  joinWith "," (rs.map fun (o, s) => s!"{o}:{s}")

def showOut (o : Out) : String :=
  s!"items={joinWith "," (o.items.map showItem)} reqs={showReqs o.reqs}"

/-- `R` | `F<frags>` | `P<n>/<frags>/<c|e>` separated by `,`; frags separated by `.` -/
def parseResp (t : String) : Option Resp :=
  match t.toList with
  | ['R'] => some .refuse
  | 'F' :: rest => do some (.full (← parseNatList (String.ofList rest)))
  | 'P' :: rest =>
    match (String.ofList rest).splitOn "/" with
    | [n, fr, e] => do
      let n ← parseNat n
      let fr ← parseNatList fr
      if e = "c" then some (.part n fr true) else if e = "e" then some (.part n fr false) else none
    | _ => none
  | _ => none

def parseScript (s : String) : Option (List Resp) :=
  if s = "-" then some [] else (splitNE s ",").mapM parseResp

def parseReadEv (t : String) : Option ReadEv :=
  match t.toList with
  | ['p'] => some .pending
  | ['e'] => some .err
  | 'b' :: rest => do some (.bytes (← parseNat (String.ofList rest)))
  | _ => none

def parseReadScript (s : String) : Option (List ReadEv) :=
  if s = "-" then some [] else (splitNE s ",").mapM parseReadEv

/-- `R:bits:min:max:win` | `B:bits:min:max:win` | `F:n` -/
def parseConfig (s : String) : Option Config :=
  match s.splitOn ":" with
  | ["R", b, mn, mx, w] => do
    some (.rollsum ⟨← parseNat b, ← parseNat mn, ← parseNat mx, ← parseNat w⟩)
  | ["B", b, mn, mx, w] => do
    some (.buzhash ⟨← parseNat b, ← parseNat mn, ← parseNat mx, ← parseNat w⟩)
  | ["F", n] => do some (.fixed (← parseNat n))
  | _ => none

def parseRd (t : String) : Option Rd :=
  match t.toList with
  | ['p'] => some .pending
  | 'b' :: rest => do some (.bytes (← parseNat (String.ofList rest)))
  | _ => none

def parseRdScript (s : String) : Option (List Rd) :=
  if s = "-" then some [] else (splitNE s ",").mapM parseRd

def showChunks (cs : List (Nat × Nat)) : String :=
  joinWith "," (cs.map fun (o, l) => s!"{o}:{l}")

/-- bytes of abstract chunk `id` of length `size` (same function in the harness) -/
def chunkBytes (id size : Nat) : Bytes :=
  (List.range size).map fun j => UInt8.ofNat ((id * 37 + j * 11 + 5) % 256)

/-- a tiling given as a sequence of chunk ids; sizes come from the size table -/
def tilingIndex (sizes : List Nat) (ids : List Nat) : Index Nat :=
  (ids.foldl (fun (acc : Index Nat × Nat) id =>
    let sz := sizes.getD id 0
    (acc.1.addChunk id sz [acc.2], acc.2 + sz)) ([], 0)).1

def tilingBytes (sizes : List Nat) (ids : List Nat) : Bytes :=
  (ids.map fun id => chunkBytes id (sizes.getD id 0)).flatten

def showOp : ROp Nat → String
  | .copy k sz src dest => s!"C{k}.{sz}.{src}>{joinWith "+" (dest.map toString)}"
  | .store k sz src => s!"S{k}.{sz}.{src}"

def showIo : IoOp → String
  | .read o n => s!"R{o}.{n}"
  | .write o d => s!"W{o}.{digest d}"

/-- `C<id>.<size>.<src>><d1+d2..>` | `S<id>.<size>.<src>` -/
def parseOp (t : String) : Option (ROp Nat) :=
  match t.toList with
  | 'C' :: rest =>
    match (String.ofList rest).splitOn ">" with
    | [a, d] =>
      match a.splitOn "." with
      | [k, sz, src] => do
        some (.copy (← parseNat k) (← parseNat sz) (← parseNat src) (← if d = "-" then some [] else parseNatList d "+"))
      | _ => none
    | _ => none
  | 'S' :: rest =>
    match (String.ofList rest).splitOn "." with
    | [k, sz, src] => do some (.store (← parseNat k) (← parseNat sz) (← parseNat src))
    | _ => none
  | _ => none

def parseOps (s : String) : Option (List (ROp Nat)) :=
  if s = "-" then some [] else (splitNE s ",").mapM parseOp

def parseIds (s : String) : Option (List Nat) := if s = "-" then some [] else parseNatList s "."

def handle (toks : List String) : Option String :=
  match toks with
  -- reorder <sizes> <O ids> <N ids> : strip + ChunkIndex::reorder_ops
  | ["reorder", sizes, o, n] => do
    let sizes ← parseIds sizes
    let oix := tilingIndex sizes (← parseIds o)
    let nix := tilingIndex sizes (← parseIds n)
    let (target, cnt, tot) := oix.strip nix
    some s!"strip={cnt}.{tot} ops={joinWith "," ((reorderOps oix target).map showOp)}"
  -- plan-safe <sizes> <O ids> <N ids> <ops> : is this op list (the implementation's) a safe plan
  -- in the sense of Spec.InPlace.safePlan?
  | ["plan-safe", sizes, o, n, ops] => do
    let sizes ← parseIds sizes
    let content := fun id => chunkBytes id (sizes.getD id 0)
    some (toString (Spec.safePlan content (← parseIds o) (← parseIds n) (← parseOps ops)))
  -- exec <sizes> <O ids> <N ids> : CloneOutput::reorder_in_place on a file holding tiling O
  | ["exec", sizes, o, n] => do
    let sizes ← parseIds sizes
    let oids ← parseIds o
    let oix := tilingIndex sizes oids
    let nix := tilingIndex sizes (← parseIds n)
    let st : OutSt Nat := ⟨tilingBytes sizes oids, nix, []⟩
    match st.reorderInPlace oix with
    | none => some "io-error"
    | some (st', ret) =>
      let left := (st'.index.keys.toArray.qsort (· < ·)).toList
      some s!"ret={ret} left={joinWith "." (left.map toString)} file={digest st'.file} log={joinWith "," (st'.log.map showIo)}"
  -- chunk <config> <data> <read script> : model of the streaming chunker under that delivery
  | ["chunk", cfg, data, script] => do
    some (showChunks (chunkStream (← parseConfig cfg) (← parseData data) (← parseRdScript script)))
  -- chunk-spec <config> <data> : the pure rule (Spec.Chunking)
  | ["chunk-spec", cfg, data] => do
    some (showChunks (Spec.specChunks (← parseConfig cfg) (← parseData data)))
  -- http <retry> <datalen> <chunks> <script>      : model of HttpReader::read_chunks
  | ["http", retry, dlen, chunks, script] => do
    let data := pattern (← parseNat dlen)
    let o := httpReadChunks (fun off size => slice data off size) (← parseNat retry)
      (← parseScript script) (← parseChunks chunks)
    some (showOut o)
  -- http-spec ... : the run-level specification on the same input
  | ["http-spec", retry, dlen, chunks, script] => do
    let data := pattern (← parseNat dlen)
    let o := Spec.fetchAll data (← parseNat retry) (Spec.maximalRuns (← parseChunks chunks))
      (← parseScript script)
    some (showOut o)
  -- http-at <retry> <datalen> <offset> <size> <script> : HttpReader::read_at
  | ["http-at", retry, dlen, off, size, script] => do
    let data := pattern (← parseNat dlen)
    let (it, rq) := httpReadAt (fun off size => slice data off size) (← parseNat retry)
      (← parseNat off) (← parseNat size) (← parseScript script)
    some s!"item={showItem it} reqs={showReqs rq}"
  -- runs <chunks> : independent maximal-run decomposition, as range headers
  | ["runs", chunks] => do
    let rs := Spec.maximalRuns (← parseChunks chunks)
    some (joinWith "," (rs.map fun r => let (o, s) := Spec.runRequest r; rangeHeader o s))
  -- io <filelen> <chunks> <script> : IoReader::read_chunks
  | ["io", flen, chunks, script] => do
    let file := pattern (← parseNat flen)
    let its := ioReadChunks file (← parseChunks chunks) [] (← parseReadScript script)
    some s!"items={joinWith "," (its.map showItem)}"
  | ["io-at", flen, off, size, script] => do
    let file := pattern (← parseNat flen)
    some s!"item={showItem (ioReadAt file (← parseNat off) (← parseNat size) (← parseReadScript script))}"
  | _ => none

partial def loop (h : IO.FS.Stream) (out : IO.FS.Stream) : IO Unit := do
  let line ← h.getLine
  if line.isEmpty then return ()
  let toks := splitNE line.trimAscii.toString " "
  match handle toks with
  | some a => out.putStrLn a
  | none => out.putStrLn "bad-request"
  loop h out

def main : IO Unit := do
  let out ← IO.getStdout
  loop (← IO.getStdin) out
  out.flush
