/-
  `bitamodel`: one request per line on stdin, one answer per line on stdout.
  Every answer is computed by the executable definitions of the model (Bita/Model) or of the
  independent specifications (Bita/Spec) — the same definitions the theorems are about.
-/
import Bita.Model.Basic
import Bita.Model.Readers
import Bita.Spec.Runs
import Bita.Spec.Resume
import Bita.Model.Chunker
import Bita.Spec.Chunking
import Bita.Model.Output
import Bita.Spec.InPlace
import Bita.Model.Archive
import Bita.Model.Blake2b
import Bita.Model.Clone
import Bita.Model.ReaderEnv
import Bita.Model.Cli
import Bita.Model.Schedule
import Driver.Proto
import Driver.Opts

open Bita Driver

def showItem : Item → String
  | .chunk d => s!"c{digest d}"
  | .errHttp => "H"
  | .errEnd => "E"
  | .errIo => "I"
  | .errEof => "F"
  | .panic => "P"
  | .stall => "S"

def showReqs (rs : List (Nat × Nat)) : String :=
  joinWith "," (rs.map fun (o, s) => s!"{o}:{s}")

def showOut (o : Out) : String :=
  s!"items={joinWith "," (o.items.map showItem)} reqs={showReqs o.reqs}"

/-- `R` | `F<frags>` | `P<n>/<frags>/<c|e>` separated by `,`; frags separated by `.` -/
def parseResp (t : String) : Option Resp :=
  match t.toList with
  | ['R'] => some .refuse
  | 'F' :: rest => do some (.full (← parseNatList (String.ofList rest)))
  | 'P' :: rest =>
    match (String.ofList rest).splitOn "/" with
    | [n, fr, e] => do
      let n ← parseNat n
      let fr ← parseNatList fr
      if e = "c" then some (.part n fr true) else if e = "e" then some (.part n fr false) else none
    | _ => none
  | _ => none

def parseScript (s : String) : Option (List Resp) :=
  if s = "-" then some [] else (splitNE s ",").mapM parseResp

def parseReadEv (t : String) : Option ReadEv :=
  match t.toList with
  | ['p'] => some .pending
  | ['e'] => some .err
  | 'b' :: rest => do some (.bytes (← parseNat (String.ofList rest)))
  | _ => none

def parseReadScript (s : String) : Option (List ReadEv) :=
  if s = "-" then some [] else (splitNE s ",").mapM parseReadEv

/-- `R:bits:min:max:win` | `B:bits:min:max:win` | `F:n` -/
def parseConfig (s : String) : Option Config :=
  match s.splitOn ":" with
  | ["R", b, mn, mx, w] => do
    some (.rollsum ⟨← parseNat b, ← parseNat mn, ← parseNat mx, ← parseNat w⟩)
  | ["B", b, mn, mx, w] => do
    some (.buzhash ⟨← parseNat b, ← parseNat mn, ← parseNat mx, ← parseNat w⟩)
  | ["F", n] => do some (.fixed (← parseNat n))
  | _ => none

def parseRd (t : String) : Option Rd :=
  match t.toList with
  | ['p'] => some .pending
  | 'b' :: rest => do some (.bytes (← parseNat (String.ofList rest)))
  | _ => none

def parseRdScript (s : String) : Option (List Rd) :=
  if s = "-" then some [] else (splitNE s ",").mapM parseRd

def showChunks (cs : List (Nat × Nat)) : String :=
  joinWith "," (cs.map fun (o, l) => s!"{o}:{l}")

/-- bytes of abstract chunk `id` of length `size` (same function in the harness) -/
def chunkBytes (id size : Nat) : Bytes :=
  (List.range size).map fun j => UInt8.ofNat ((id * 37 + j * 11 + 5) % 256)

/-- a tiling given as a sequence of chunk ids; sizes come from the size table -/
def tilingIndex (sizes : List Nat) (ids : List Nat) : Index Nat :=
  (ids.foldl (fun (acc : Index Nat × Nat) id =>
    let sz := sizes.getD id 0
    (acc.1.addChunk id sz [acc.2], acc.2 + sz)) ([], 0)).1

def tilingBytes (sizes : List Nat) (ids : List Nat) : Bytes :=
  (ids.map fun id => chunkBytes id (sizes.getD id 0)).flatten

def showOp : ROp Nat → String
  | .copy k sz src dest => s!"C{k}.{sz}.{src}>{joinWith "+" (dest.map toString)}"
  | .store k sz src => s!"S{k}.{sz}.{src}"

def showIo : IoOp → String
  | .read o n => s!"R{o}.{n}"
  | .write o d => s!"W{o}.{digest d}"

/-- `C<id>.<size>.<src>><d1+d2..>` | `S<id>.<size>.<src>` -/
def parseOp (t : String) : Option (ROp Nat) :=
  match t.toList with
  | 'C' :: rest =>
    match (String.ofList rest).splitOn ">" with
    | [a, d] =>
      match a.splitOn "." with
      | [k, sz, src] => do
        some (.copy (← parseNat k) (← parseNat sz) (← parseNat src) (← if d = "-" then some [] else parseNatList d "+"))
      | _ => none
    | _ => none
  | 'S' :: rest =>
    match (String.ofList rest).splitOn "." with
    | [k, sz, src] => do some (.store (← parseNat k) (← parseNat sz) (← parseNat src))
    | _ => none
  | _ => none

def parseOps (s : String) : Option (List (ROp Nat)) :=
  if s = "-" then some [] else (splitNE s ",").mapM parseOp

/-! dictionary tokens: `v=<hex>;sc=<hex>;ts=<n>;cp=<b.mn.mx.w.hl.algo|->;cc=<c.l|->;ro=<n.n|->;cd=<hex:asz:aoff:ssz,..|->;md=<hex:hex,..|->` -/
def kvOf (s : String) : List (String × String) :=
  (splitNE s ";").filterMap fun t => match t.splitOn "=" with
    | [k, v] => some (k, v)
    | _ => none

def parseDict (s : String) : Option Proto.ChunkDictionary := do
  let kv := kvOf s
  let get (k : String) : String := ((kv.find? (·.1 = k)).map (·.2)).getD "-"
  let cp ← (if get "cp" = "-" then some none else do
    match ← parseNatList (get "cp") "." with
    | [b, mn, mx, w, hl, al] => some (some (⟨b, mn, mx, w, hl, al⟩ : Proto.ChunkerParameters))
    | _ => none)
  let cc ← (if get "cc" = "-" then some none else do
    match ← parseNatList (get "cc") "." with
    | [c, l] => some (some (⟨c, l⟩ : Proto.ChunkCompression))
    | _ => none)
  let cds ← (if get "cd" = "-" then some [] else (splitNE (get "cd") ",").mapM fun t =>
    match t.splitOn ":" with
    | [h, a, o, z] => do some (⟨← parseHex h, ← parseNat a, ← parseNat o, ← parseNat z⟩ : Proto.ChunkDescriptor)
    | _ => none)
  let md ← (if get "md" = "-" then some [] else (splitNE (get "md") ",").mapM fun t =>
    match t.splitOn ":" with
    | [k, v] => do some (← parseHex k, ← parseHex v)
    | _ => none)
  some { applicationVersion := ← parseHex (get "v"), sourceChecksum := ← parseHex (get "sc")
         sourceTotalSize := ← parseNat (get "ts"), chunkerParams := cp, chunkCompression := cc
         rebuildOrder := ← (if get "ro" = "-" then some [] else parseNatList (get "ro") ".")
         chunkDescriptors := cds, metadata := md }

def dots (ns : List Nat) : String := joinWith "." (ns.map toString)

def showDict (d : Proto.ChunkDictionary) : String :=
  let cp := match d.chunkerParams with
    | none => "-"
    | some p => dots [p.chunkFilterBits, p.minChunkSize, p.maxChunkSize, p.rollingHashWindowSize, p.chunkHashLength, p.chunkingAlgorithm]
  let cc := match d.chunkCompression with
    | none => "-"
    | some c => dots [c.compression, c.compressionLevel]
  let cd := joinWith "," (d.chunkDescriptors.map fun c => s!"{toHex c.checksum}:{c.archiveSize}:{c.archiveOffset}:{c.sourceSize}")
  let md := joinWith "," (d.metadata.map fun e => s!"{toHex e.1}:{toHex e.2}")
  s!"v={toHex d.applicationVersion};sc={toHex d.sourceChecksum};ts={d.sourceTotalSize};cp={cp};cc={cc};ro={dots d.rebuildOrder};cd={cd};md={md}"

def showConfig : Config → String
  | .rollsum f => s!"R:{f.bits}:{f.minSize}:{f.maxSize}:{f.window}"
  | .buzhash f => s!"B:{f.bits}:{f.minSize}:{f.maxSize}:{f.window}"
  | .fixed n => s!"F:{n}"

def showArchive (a : Archive) : String :=
  let cd := joinWith "," (a.chunks.map fun c => s!"{toHex c.checksum}:{c.archiveSize}:{c.archiveOffset}:{c.sourceSize}")
  let co := match a.compression with
    | none => "-"
    | some (c, l) => s!"{c}.{l}"
  let md := joinWith "," (a.metadata.map fun e => s!"{toHex e.1}:{toHex e.2}")
  s!"ok cfg={showConfig a.config} hl={a.hashLength} co={co} hs={a.headerSize} hc={toHex (a.headerChecksum.take 8)} cdo={a.chunkDataOffset} ts={a.sourceTotalSize} sc={toHex a.sourceChecksum} v={toHex a.version} ro={dots a.sourceOrder} cd={cd} md={md}"

def showOutcome {α : Type} (f : α → String) : Outcome α → String
  | .ok a => f a
  | .invalid _ => "invalid"
  | .readerErr => "reader-err"
  | .panic _ => "panic"
  | .abort _ => "abort"

def fileReader (file : Bytes) (off size : Nat) : Option Bytes :=
  if off + size ≤ file.length then some (slice file off size) else none

def parseIds (s : String) : Option (List Nat) := if s = "-" then some [] else parseNatList s "."

def handle (toks : List String) : Option String :=
  match toks with
  -- reorder <sizes> <O ids> <N ids> : strip + ChunkIndex::reorder_ops
  | ["reorder", sizes, o, n] => do
    let sizes ← parseIds sizes
    let oix := tilingIndex sizes (← parseIds o)
    let nix := tilingIndex sizes (← parseIds n)
    let (target, cnt, tot) := oix.strip nix
    some s!"strip={cnt}.{tot} ops={joinWith "," ((reorderOps oix target).map showOp)}"
  -- encode-dict <dict> : prost encoding of the dictionary
  | ["encode-dict", d] => do some (toHex (Proto.encodeDictionary (← parseDict d)))
  -- decode-dict <hex> : prost decoding
  | ["decode-dict", h] => do
    match Proto.decodeDictionary (← parseHex h) with
    | some d => some (showDict d)
    | none => some "error"
  -- header <dict> <offset|-> : header::build
  | ["header", d, off] => do
    let o ← (if off = "-" then some none else (parseNat off).map some)
    some (toHex (buildHeader Blake2b.hash (← parseDict d) o))
  -- try-init <hex archive> : Archive::try_init through the local reader (default features)
  | ["try-init", h] => do
    let file ← parseHex h
    some (showOutcome showArchive (tryInit Blake2b.hash [] (fileReader file)))
  -- banner <hex archive> : the arithmetic of print_archive on an accepted archive
  | ["banner", h] => do
    let file ← parseHex h
    match tryInit Blake2b.hash [] (fileReader file) with
    | .ok a => some (showOutcome (fun (r : Nat × Nat × Nat) => s!"ok avg={r.1} mask={r.2.1} mean={r.2.2} index={(a.sourceIndex.map (·.length)).getD 0}") a.banner)
    | o => some (showOutcome (fun _ => "ok") o)
  | ["banner-noindex", h] => do
    let file ← parseHex h
    match tryInit Blake2b.hash [] (fileReader file) with
    | .ok a => some (showOutcome (fun (r : Nat × Nat × Nat) => s!"ok avg={r.1} mask={r.2.1} mean={r.2.2} index=?") a.banner)
    | o => some (showOutcome (fun _ => "ok") o)
  -- compress <lib|cli> <config> <hashLen> <compr c.l|-> <md hex:hex,..|-> <data> <codec table hexraw:hexcomp,..|->
  -- : the archive the writer produces (digest, and the header checksum)
  | ["compress", writer, cfg, hl, co, md, data, table] => do
    let compr ← (if co = "-" then some none else do
      match ← parseNatList co "." with
      | [c, l] => some (some (c, l))
      | _ => none)
    let md ← (if md = "-" then some [] else (splitNE md ",").mapM fun t =>
      match t.splitOn ":" with
      | [k, v] => do some (← parseHex k, ← parseHex v)
      | _ => none)
    let tab ← (if table = "-" then some [] else (splitNE table ",").mapM fun t =>
      match t.splitOn ":" with
      | [k, v] => do some (← parseHex k, ← parseHex v)
      | _ => none)
    let comp := fun (c : Bytes) => ((tab.find? (·.1 = c)).map (·.2)).getD c
    let src ← parseData data
    let arch := createArchive Blake2b.hash writer comp ⟨← parseConfig cfg, ← parseNat hl, compr, md⟩ src
    some s!"archive={digest arch}"
  -- clone <opts: s?v?b?|-> <pin hex|-> <archive hex> <prior hex> <seeds hex,hex|-> <decomp table hexstored:hexraw,..|->
  | [cmd, o, pin, arch, prior, seeds, table] => do
    if cmd ≠ "clone" ∧ cmd ≠ "clone-ro" ∧ cmd ≠ "clone-rf" ∧ cmd ≠ "clone-w" then none
    let short := cmd = "clone-ro"     -- result and output only
    let noWrites := cmd = "clone-rf"  -- result, output and fetch list
    let opts : CloneOpts := { seedOutput := o.contains 's', verifyOutput := o.contains 'v', blockDev := o.contains 'b'
                              headerPin := ← (if pin = "-" then some none else if pin = "e" then some (some []) else (parseHex pin).map some) }
    let archive ← parseHex arch
    let seeds ← (if seeds = "-" then some [] else (splitNE seeds ",").mapM parseHex)
    let tab ← (if table = "-" then some [] else (splitNE table ",").mapM fun t =>
      match t.splitOn ":" with
      | [k, v] => do some (← parseHex k, ← parseHex v)
      | _ => none)
    let decomp := limitedDecomp fun (_ : Nat) (stored : Bytes) => (tab.find? (·.1 = stored)).map (·.2)
    -- flag `h`: through the remote reader, against an honest server without transfer failures; the
    -- answer then also lists every range request on the wire, in order
    let http := o.contains 'h'
    let env : HttpEnv := ⟨honestServe archive, 0, fun _ _ => [.full []], List.replicate (archive.length + 1) (.full [])⟩
    let prior ← parseHex prior
    let r := if http then Clone.run Blake2b.hash decomp [] env.readAt env.readChunks opts prior seeds
      else Clone.run Blake2b.hash decomp [] (honestReadAt archive) (honestReadChunks archive) opts prior seeds
    let wire := if http then s!" wire={joinWith "," ((r.requests.flatMap env.wire).map fun (o, s) => s!"{o}:{s}")}" else ""
    let res := match r.result with
      | .ok => "ok"
      | .err _ => "err"
      | .panic _ => "panic"
    let fetch := r.requests.filterMap fun q => match q with
      | .readChunks rs => some (joinWith "," (rs.map fun (o, s) => s!"{o}:{s}"))
      | _ => none
    if cmd = "clone-w" then
      some s!"result={res} out={digest r.output} writes={joinWith "," ((Spec.writesOf r.log).map fun (o, d) => s!"{o}.{digest d}")}"
    else
    some s!"result={res} out={digest r.output}{if short then "" else if noWrites then s!" fetch={joinWith "|" fetch}" else s!" writes={joinWith "," ((Spec.writesOf r.log).map fun (o, d) => s!"{o}.{digest d}")} fetch={joinWith "|" fetch}"}{wire}"
  -- cli-clone <output state> <flags> <archive kind> : one row of C14's table on a model file system
  | ["cli-clone", outState, flags, akind] => do
    let src : Bytes := pattern 700
    let junk := fun (n : Nat) => (pattern n).map (· + 101)     -- pre-existing content unrelated to the source
    let arch := createArchive Blake2b.hash "cli" id ⟨.fixed 100, 8, none, []⟩ src
    let hc := match tryInit Blake2b.hash [] (honestReadAt arch) with
      | .ok a => a.headerChecksum
      | _ => []
    let bad := arch.set 25 ((arch.getD 25 0) ^^^ 16)
    let hsz := match tryInit Blake2b.hash [] (honestReadAt arch) with
      | .ok a => a.headerSize
      | _ => 0
    let cut := arch.take (hsz - 32)       -- the file ends inside the header checksum
    let prior : Option Node :=
      if outState = "absent" then none
      else if outState = "regular-short" then some (.regular (junk 230))
      else if outState = "regular-long" then some (.regular (junk 1200))
      else if outState = "blockdev-big" then some (.blockdev (junk 764))
      else some (.blockdev (junk 690))
    let fs : Fs := [("a.cba", .regular arch), ("bad.cba", .regular bad), ("junk.cba", .regular (pattern 200)),
                    ("cut.cba", .regular cut)] ++
      (match prior with | some n => [("out", n)] | none => [])
    let apath := if akind = "corrupt-header" then "bad.cba" else if akind = "not-an-archive" then "junk.cba"
      else if akind = "cut-in-checksum" then "cut.cba" else "a.cba"
    let pin : Option Bytes :=
      if akind = "pin-mismatch" then some (hc.set 0 ((hc.getD 0 0) ^^^ 1))
      else if akind = "pin-prefix" then some (hc.take 4)
      else if akind = "pin-permuted" then some hc.reverse
      else if akind = "pin-overlong" then some (hc ++ [0])
      else if akind = "pin-ok" then some hc else none
    let c : CloneCmd := ⟨⟨flags = "force", flags = "seed-output", false⟩, pin, "out", apath, []⟩
    let r := Cli.clone Blake2b.hash (fun _ b _ => some b) c fs
    let after := r.fs.get "out"
    let verdict := if after = prior then "untouched"
      else match after with
        | some n => if n.data.take src.length = src then "source" else "other"
        | none => "other"
    some s!"result={if r.ok then "ok" else "refused"} output={verdict}"
  -- cli-compress <present|absent> <force|none>
  | ["cli-compress", exists_, force] => do
    let src : Bytes := pattern 300
    let prior : Option Node := if exists_ = "present" then some (.regular (pattern 100)) else none
    let fs : Fs := [("in", .regular src)] ++ (match prior with | some n => [("out.cba", n)] | none => [])
    let c : CompressCmd := ⟨⟨force = "force", false, false⟩, "in", "out.cba", tempPathOf "out.cba", ⟨.fixed 64, 64, none, []⟩⟩
    let r := Cli.compress Blake2b.hash id c fs
    some s!"result={if r.ok then "ok" else "refused"} output={if r.fs.get "out.cba" = prior then "untouched" else "archive"}"
  -- cli-clone-files <mode> : write intents on the output and number of other paths with a write intent
  | ["cli-clone-files", mode] => do
    let src : Bytes := pattern 700
    let arch := createArchive Blake2b.hash "cli" id ⟨.fixed 100, 8, none, []⟩ src
    let inPlace := mode = "in-place" ∨ mode = "in-place+seeds" ∨ mode = "blockdev"
    let hasOut := inPlace ∨ mode = "force"
    let fs : Fs := [("a.cba", .regular arch), ("s1", .regular (pattern 300)), ("s2", .regular (pattern 90))] ++
      (if hasOut then [("out", if mode = "blockdev" then Node.blockdev (pattern 900) else Node.regular (pattern 650))] else [])
    let seeds := if mode = "seeds" ∨ mode = "in-place+seeds" ∨ mode = "http+seed" then ["s1", "s2"] else []
    let c : CloneCmd := ⟨⟨mode = "force", inPlace, mode = "verify"⟩, none, "out", "a.cba", seeds⟩
    let r := Cli.clone Blake2b.hash (fun _ b _ => some b) c fs
    let intents := r.ops.filterMap fun op => match op with
      | .openWrite p fl => if p = "out" then some ("write-open:" ++ "|".intercalate ((fl.splitOn "|").toArray.qsort (· < ·)).toList) else none
      | _ => none
    let others := r.ops.filter fun op => match op with
      | .openRead _ => false
      | .openWrite p _ => p ≠ "out"
      | .write p => p ≠ "out"
      | .truncate p => p ≠ "out"
      | .unlink _ => true
    some s!"output={joinWith ";" intents} others={others.length}"
  -- cli-compress-files <plain|force|empty> [output path] : write intents per path; name of the temp file
  | "cli-compress-files" :: mode :: rest => do
    let out := rest.headD "out.cba"
    let fs : Fs := [("in", .regular (if mode = "empty" then [] else pattern 300))] ++
      (if mode = "force" then [(out, Node.regular [1])] else [])
    let tmp := tempPathOf out
    let c : CompressCmd := ⟨⟨mode = "force", false, false⟩, "in", out, tmp, ⟨.fixed 64, 64, none, []⟩⟩
    let r := Cli.compress Blake2b.hash id c fs
    let show_ (p : String) : String := joinWith ";" ((r.ops.filterMap fun op => match op with
      | .openWrite q fl => if q = p then some ("write-open:" ++ "|".intercalate ((fl.splitOn "|").toArray.qsort (· < ·)).toList) else none
      | .unlink q => if q = p then some "unlink" else none
      | _ => none).toArray.qsort (· < ·)).toList
    let others := r.ops.filter fun op => match op with
      | .openRead _ => false
      | .openWrite p _ => p ≠ out ∧ p ≠ tmp
      | .write p => p ≠ out ∧ p ≠ tmp
      | .truncate p => p ≠ out ∧ p ≠ tmp
      | .unlink p => p ≠ tmp
    let left := (r.fs.map (·.1)).filter fun p => p ≠ "in" ∧ p ≠ out
    some s!"output={show_ out} temp={show_ tmp} others={others.length} tmpname={(tmp.splitOn "/").getLastD ""} left={left.length}"
  -- plan-safe <sizes> <O ids> <N ids> <ops> : is this op list (the implementation's) a safe plan
  -- in the sense of Spec.InPlace.safePlan?
  | ["plan-safe", sizes, o, n, ops] => do
    let sizes ← parseIds sizes
    let content := fun id => chunkBytes id (sizes.getD id 0)
    some (toString (Spec.safePlan content (← parseIds o) (← parseIds n) (← parseOps ops)))
  -- exec <sizes> <O ids> <N ids> : CloneOutput::reorder_in_place on a file holding tiling O
  | ["exec", sizes, o, n] => do
    let sizes ← parseIds sizes
    let oids ← parseIds o
    let oix := tilingIndex sizes oids
    let nids ← parseIds n
    let nix := tilingIndex sizes nids
    let st : OutSt Nat := ⟨tilingBytes sizes oids, nix, []⟩
    match st.reorderInPlace oix with
    | none => some "io-error"
    | some (st', ret) =>
      let left := (st'.index.keys.toArray.qsort (· < ·)).toList
      -- then every source chunk is fed once, in source order
      let fin := nids.eraseDups.foldl (fun s id => (s.feed id (chunkBytes id (sizes.getD id 0))).1) st'
      some s!"ret={ret} left={joinWith "." (left.map toString)} file={digest fin.file} log={joinWith "," (fin.log.map showIo)}"
  -- hash <R|B> <window> <data> : the rolling hash driven as the chunker drives it (`init` until
  -- `init_done`, then `input`); the 32-bit sum after every byte, digested (all of them for short data)
  | ["hash", algo, window, data] => do
    let w ← parseNat window
    let h0 : Hasher := if algo = "R" then .roll (RollSum.new w) else .buz (BuzHash.new w)
    let bytes ← parseData data
    let (_, sums) := bytes.foldl (fun (acc : Hasher × List UInt32) b =>
      let h' := if acc.1.initDone then acc.1.input b else acc.1.init b
      (h', (UInt32.ofNat h'.sum.toNat) :: acc.2)) (h0, [])
    let sums := sums.reverse
    let le : Bytes := sums.flatMap fun (x : UInt32) => [x.toUInt8, (x >>> 8).toUInt8, (x >>> 16).toUInt8, (x >>> 24).toUInt8]
    let shown := if sums.length ≤ 24 then joinWith "," (sums.map fun x => toString x.toNat) else "-"
    some s!"sums={digest le} last={(sums.getLast?.map (·.toNat)).getD 0} all={shown}"
  -- chunk <config> <data> <read script> : model of the streaming chunker under that delivery
  | ["chunk", cfg, data, script] => do
    some (showChunks (chunkStream (← parseConfig cfg) (← parseData data) (← parseRdScript script)))
  -- chunk-spec <config> <data> : the pure rule (Spec.Chunking)
  | ["chunk-spec", cfg, data] => do
    some (showChunks (Spec.specChunks (← parseConfig cfg) (← parseData data)))
  -- http <retry> <datalen> <chunks> <script>      : model of HttpReader::read_chunks
  | ["http", retry, dlen, chunks, script] => do
    let data := pattern (← parseNat dlen)
    let o := httpReadChunks (fun off size => slice data off size) (← parseNat retry)
      (← parseScript script) (← parseChunks chunks)
    some (showOut o)
  -- http-x <surplus> <retry> <datalen> <chunks> <script> : a server that appends <surplus> bytes of 0xEE
  -- to every answer
  | ["http-x", extra, retry, dlen, chunks, script] => do
    let data := pattern (← parseNat dlen)
    let n ← parseNat extra
    let o := httpReadChunks (fun off size => slice data off size ++ List.replicate n 0xEE) (← parseNat retry)
      (← parseScript script) (← parseChunks chunks)
    some (showOut o)
  -- http-spec ... : the run-level specification on the same input
  | ["http-spec", retry, dlen, chunks, script] => do
    let data := pattern (← parseNat dlen)
    let o := Spec.fetchAll data (← parseNat retry) (Spec.maximalRuns (← parseChunks chunks))
      (← parseScript script)
    some (showOut o)
  -- http-at <retry> <datalen> <offset> <size> <script> : HttpReader::read_at
  | ["http-at", retry, dlen, off, size, script] => do
    let data := pattern (← parseNat dlen)
    let (it, rq) := httpReadAt (fun off size => slice data off size) (← parseNat retry)
      (← parseNat off) (← parseNat size) (← parseScript script)
    some s!"item={showItem it} reqs={showReqs rq}"
  -- runs <chunks> : independent maximal-run decomposition, as range headers
  | ["runs", chunks] => do
    let rs := Spec.maximalRuns (← parseChunks chunks)
    some (joinWith "," (rs.map fun r => let (o, s) := Spec.runRequest r; rangeHeader o s))
  -- io <filelen> <chunks> <script> : IoReader::read_chunks
  | ["io", flen, chunks, script] => do
    let file := pattern (← parseNat flen)
    let its := ioReadChunks file (← parseChunks chunks) [] (← parseReadScript script)
    some s!"items={joinWith "," (its.map showItem)}"
  | ["io-at", flen, off, size, script] => do
    let file := pattern (← parseNat flen)
    some s!"item={showItem (ioReadAt file (← parseNat off) (← parseNat size) (← parseReadScript script))}"
  | toks => handleOpts toks

partial def loop (h : IO.FS.Stream) (out : IO.FS.Stream) : IO Unit := do
  let line ← h.getLine
  if line.isEmpty then return ()
  let toks := splitNE line.trimAscii.toString " "
  match handle toks with
  | some a => out.putStrLn a
  | none => out.putStrLn "bad-request"
  loop h out

def main : IO Unit := do
  let out ← IO.getStdout
  loop (← IO.getStdin) out
  out.flush
