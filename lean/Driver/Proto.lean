/-
  Line protocol helpers for the model driver (parsing and canonical printing).
-/
import Bita.Model.Basic

namespace Driver
open Bita

def splitNE (s : String) (sep : String) : List String :=
  (s.splitOn sep).filter (· ≠ "")

def parseNat (s : String) : Option Nat := s.toNat?

def parseNatList (s : String) (sep : String := ".") : Option (List Nat) :=
  (splitNE s sep).mapM parseNat

/-- `o:s,o:s,...` ("-" for the empty list) -/
def parseChunks (s : String) : Option (List ChunkOffset) :=
  if s = "-" then some [] else
  (splitNE s ",").mapM fun t =>
    match t.splitOn ":" with
    | [o, z] => do some ⟨← parseNat o, ← parseNat z⟩
    | _ => none

def hexDigit (c : Char) : Option Nat :=
  if '0' ≤ c ∧ c ≤ '9' then some (c.toNat - '0'.toNat)
  else if 'a' ≤ c ∧ c ≤ 'f' then some (c.toNat - 'a'.toNat + 10)
  else if 'A' ≤ c ∧ c ≤ 'F' then some (c.toNat - 'A'.toNat + 10)
  else none

/-- hex string ("-" for empty) to bytes -/
def parseHex (s : String) : Option Bytes :=
  if s = "-" then some [] else
  let rec go : List Char → Bytes → Option Bytes
    | [], acc => some acc.reverse
    | [_], _ => none
    | a :: b :: rest, acc => do
      let x ← hexDigit a
      let y ← hexDigit b
      go rest (UInt8.ofNat (x * 16 + y) :: acc)
  go s.toList []

def hexOfNibble (n : Nat) : Char :=
  if n < 10 then Char.ofNat ('0'.toNat + n) else Char.ofNat ('a'.toNat + n - 10)

def toHex (b : Bytes) : String :=
  if b.isEmpty then "-" else
  String.ofList (b.foldr (fun x acc => hexOfNibble (x.toNat / 16) :: hexOfNibble (x.toNat % 16) :: acc) [])

/-- FNV-1a 32 bit, used to print long byte strings canonically. -/
def fnv1a (b : Bytes) : UInt32 :=
  b.foldl (fun h x => (h ^^^ x.toUInt32) * 16777619) 2166136261

/-- canonical rendering of a byte string: `<len>:<fnv1a>` -/
def digest (b : Bytes) : String := s!"{b.length}:{(fnv1a b).toNat}"

/-- The deterministic test pattern used as "archive/file content" by harness and driver:
byte i = (i*131 + (i/251)*17 + 7) mod 256. -/
def patternByte (i : Nat) : UInt8 := UInt8.ofNat ((i * 131 + (i / 251) * 17 + 7) % 256)

def pattern (len : Nat) : Bytes := (List.range len).map patternByte

def joinWith (sep : String) (xs : List String) : String :=
  if xs.isEmpty then "-" else sep.intercalate xs

end Driver

namespace Driver
open Bita

/-- 64-bit LCG shared with the harness: byte = top 8 bits of the state after each step. -/
def lcgBytes (seed : UInt64) (len : Nat) : Bytes :=
  let rec go (x : UInt64) : Nat → List UInt8 → List UInt8
    | 0, acc => acc.reverse
    | k + 1, acc =>
      let x' := x * 6364136223846793005 + 1442695040888963407
      go x' k ((x' >>> 56).toUInt8 :: acc)
  go seed len []

/-- data token: segments joined by `;` — `r<seed>:<len>` pseudo-random, `c<byte>:<len>` constant
run, `h<hex>` literal, `-` empty -/
def parseData (s : String) : Option Bytes :=
  if s = "-" then some [] else do
  let segs ← (splitNE s ";").mapM fun t =>
    match t.toList with
    | 'r' :: rest =>
      match (String.ofList rest).splitOn ":" with
      | [sd, ln] => do some (lcgBytes (UInt64.ofNat (← parseNat sd)) (← parseNat ln))
      | _ => none
    | 'c' :: rest =>
      match (String.ofList rest).splitOn ":" with
      | [b, ln] => do some (List.replicate (← parseNat ln) (UInt8.ofNat (← parseNat b)))
      | _ => none
    | 'h' :: rest => parseHex (String.ofList rest)
    | _ => none
  some segs.flatten

end Driver
