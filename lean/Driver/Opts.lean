/-
  Driver requests of the option layer (`Bita.Model.Options`): `opts-size`, `opts-pin`,
  `opts-compress`.  Texts travel as the hex of their UTF-8 bytes (`e` = empty text).
-/
import Bita.Model.Options
import Bita.Model.Sink
import Driver.Proto

open Bita Bita.Options Driver

namespace Driver

def textBytes (s : String) : Option Bytes :=
  if s = "e" then some [] else if s = "-" then none else parseHex s

def textOf (s : String) : Option String := do
  let b ← textBytes s
  String.fromUTF8? (ByteArray.mk b.toArray)

/-- an optional option: `-` = not given -/
def optText (s : String) : Option (Option Txt) :=
  if s = "-" then some none else do some (some (← textOf s).toList)

def showHexE (b : Bytes) : String := if b.isEmpty then "e" else toHex b

def showCfg : Config → String
  | .buzhash f => s!"B:{f.bits}:{f.minSize}:{f.maxSize}:{f.window}"
  | .rollsum f => s!"R:{f.bits}:{f.minSize}:{f.maxSize}:{f.window}"
  | .fixed n => s!"F:{n}"

def handleOpts (toks : List String) : Option String :=
  match toks with
  | ["opts-size", t] => do
    match parseHumanSize (← textOf t).toList with
    | .ok v => some s!"ok {v}"
    | .refused => some "refused"
    | .panic => some "panic"
  | ["opts-pin", t] => do
    let txt ← textOf t
    if !clapTakesAsValue txt.toList then some "refused" else
    match parseHashSum (← textBytes t) with
    | .ok v => some s!"ok {showHexE v}"
    | .refused => some "refused"
    | .panic => some "panic"
  | ["opts-compress", input, output, force, avg, min, max, algo, window, fixed, level, compression, hl, buffered] => do
    let a : CompressArgs := {
      input := (← optText input).map String.ofList
      output := ← textOf output
      force := force = "1"
      avg := ← optText avg, min := ← optText min, max := ← optText max
      hashChunking := ← optText algo, window := ← optText window, fixed := ← optText fixed
      level := ← optText level, compression := ← optText compression
      hashLength := ← optText hl, buffered := ← optText buffered }
    -- `-i <value>`: a value clap does not take as one is a usage error
    if (a.input.map (fun s => !clapTakesAsValue s.toList)).getD false then some "refused" else
    match parseCompress a with
    | .ok p =>
      let compr := match p.cmd.opts.compression with
        | none => "none"
        | some (c, l) => if c = Gen.enum_CompressionType_BROTLI then s!"brotli:{l}" else s!"other:{l}"
      let buf := match p.buffers with
        | none => "-"
        | some n => toString n
      some s!"ok cfg={showCfg p.cmd.opts.cfg} hl={p.cmd.opts.hashLen} compr={compr} temp={showHexE p.cmd.temp.toUTF8.toList} stdin={if p.stdin then 1 else 0} buf={buf} force={if p.cmd.flags.force then 1 else 0}"
    | .refused => some "refused"
    | .panic => some "panic"
  -- opts-clone <pin> <seeds ,-separated hex|-> <retries> <delay> <timeout> <buffered> <so> <force> <vo> <archive> <kind> <output>
  | ["opts-clone", pin, seeds, rc, rd, to, buf, so, force, vo, archive, kind, output] => do
    let seedList ← if seeds = "-" then some [] else (seeds.splitOn ",").mapM textOf
    let k ← match kind with
      | "existing" => some ArchiveKind.existingPath
      | "missing-abs" => some ArchiveKind.missingAbsolutePath
      | "url" => some ArchiveKind.url
      | "neither" => some ArchiveKind.neither
      | _ => none
    let pinBytes : Option Bytes ← if pin = "-" then some none else (textBytes pin).map some
    let a : CloneArgs := {
      verifyHeader := pinBytes
      seeds := seedList
      retryCount := ← optText rc, retryDelay := ← optText rd, timeout := ← optText to, buffered := ← optText buf
      seedOutput := so = "1", force := force = "1", verifyOutput := vo = "1"
      archive := ← textOf archive, archiveKind := k, output := ← textOf output }
    match parseClone a with
    | .ok p =>
      let showOpt (o : Option Nat) : String := match o with
        | none => "-"
        | some n => toString n
      let pinS := match p.cmd.pin with
        | none => "none"
        | some v => showHexE v
      let seedsS := if p.cmd.seedPaths.isEmpty then "-" else joinWith "," (p.cmd.seedPaths.map fun s => showHexE s.toUTF8.toList)
      some s!"ok {if p.remote then "remote" else "local"} pin={pinS} out={showHexE p.cmd.output.toUTF8.toList} seeds={seedsS} stdin={if p.seedStdin then 1 else 0} so={if p.cmd.flags.seedOutput then 1 else 0} force={if p.cmd.flags.force then 1 else 0} vo={if p.cmd.flags.verifyOutput then 1 else 0} retries={p.retries} delay={p.retryDelay} timeout={showOpt p.timeout} buf={showOpt p.buffers}"
    | .refused => some "refused"
    | .panic => some "panic"
  -- opts-meta <key:value,...> (hex of the raw argument bytes)
  | ["opts-meta", pairs] => do
    let ps ← (pairs.splitOn ",").mapM fun kv => match kv.splitOn ":" with
      | [k, v] => do some (← textBytes k, ← textBytes v)
      | _ => none
    match parseMetadataValues ps with
    | .ok r => some s!"ok {joinWith "," (r.map fun e => showHexE e.1 ++ ":" ++ showHexE e.2)}"
    | .refused => some "refused"
    | .panic => some "panic"
  -- meta-map <strings> <files> : the metadata map compress_cmd builds (pairs as in opts-meta, `-` = none)
  | ["meta-map", strings, files] => do
    let parse (t : String) : Option (List (Bytes × Bytes)) :=
      if t = "-" then some [] else (t.splitOn ",").mapM fun kv => match kv.splitOn ":" with
        | [k, v] => do some (← textBytes k, ← textBytes v)
        | _ => none
    let r := metadataOf (← parse strings) (← parse files)
    some s!"map={if r.isEmpty then "-" else joinWith "," (r.map fun e => showHexE e.1 ++ ":" ++ showHexE e.2)}"
  -- sink <limit> <piece lengths .-separated | -> : LimitedOutput under the given writes (piece i is pattern bytes)
  | ["sink", limit, lens] => do
    let ls ← if lens = "-" then some [] else (lens.splitOn ".").mapM parseNat
    let pieces := ls.foldl (fun (acc : List Bytes × Nat) n => (acc.1 ++ [slice (pattern (acc.2 + n)) acc.2 n], acc.2 + n)) ([], 0)
    match Sink.run (← parseNat limit) pieces.1 with
    | .ok b => some s!"ok {digest b} peak={(Sink.states (← parseNat limit) pieces.1).foldl max 0}"
    | .error i => some s!"refused-at {i} peak={(Sink.states (← parseNat limit) pieces.1).foldl max 0}"
  -- chunker-alloc <cfg> : the largest allocation request of `Config::new_chunker`
  | ["chunker-alloc", "R", b, mn, mx, w] => do
    some s!"max={(chunkerAllocations (.rollsum ⟨← parseNat b, ← parseNat mn, ← parseNat mx, ← parseNat w⟩)).foldl max 0}"
  | ["chunker-alloc", "B", b, mn, mx, w] => do
    some s!"max={(chunkerAllocations (.buzhash ⟨← parseNat b, ← parseNat mn, ← parseNat mx, ← parseNat w⟩)).foldl max 0}"
  | ["chunker-alloc", "F", n] => do
    some s!"max={(chunkerAllocations (.fixed (← parseNat n))).foldl max 0}"
  | _ => none

end Driver
