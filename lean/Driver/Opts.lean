/-
  Driver requests of the option layer (`Bita.Model.Options`): `opts-size`, `opts-pin`,
  `opts-compress`.  Texts travel as the hex of their UTF-8 bytes (`e` = empty text).
-/
import Bita.Model.Options
import Driver.Proto

open Bita Bita.Options Driver

namespace Driver

def textBytes (s : String) : Option Bytes :=
  if s = "e" then some [] else if s = "-" then none else parseHex s

def textOf (s : String) : Option String := do
  let b ← textBytes s
  String.fromUTF8? (ByteArray.mk b.toArray)

/-- an optional option: `-` = not given -/
def optText (s : String) : Option (Option Txt) :=
  if s = "-" then some none else do some (some (← textOf s).toList)

def showHexE (b : Bytes) : String := if b.isEmpty then "e" else toHex b

def showCfg : Config → String
  | .buzhash f => s!"B:{f.bits}:{f.minSize}:{f.maxSize}:{f.window}"
  | .rollsum f => s!"R:{f.bits}:{f.minSize}:{f.maxSize}:{f.window}"
  | .fixed n => s!"F:{n}"

def handleOpts (toks : List String) : Option String :=
  match toks with
  | ["opts-size", t] => do
    match parseHumanSize (← textOf t).toList with
    | .ok v => some s!"ok {v}"
    | .refused => some "refused"
    | .panic => some "panic"
  | ["opts-pin", t] => do
    let txt ← textOf t
    if !clapTakesAsValue txt.toList then some "refused" else
    match parseHashSum (← textBytes t) with
    | .ok v => some s!"ok {showHexE v}"
    | .refused => some "refused"
    | .panic => some "panic"
  | ["opts-compress", input, output, force, avg, min, max, algo, window, fixed, level, compression, hl, buffered] => do
    let a : CompressArgs := {
      input := (← optText input).map String.ofList
      output := ← textOf output
      force := force = "1"
      avg := ← optText avg, min := ← optText min, max := ← optText max
      hashChunking := ← optText algo, window := ← optText window, fixed := ← optText fixed
      level := ← optText level, compression := ← optText compression
      hashLength := ← optText hl, buffered := ← optText buffered }
    -- `-i <value>`: a value clap does not take as one is a usage error
    if (a.input.map (fun s => !clapTakesAsValue s.toList)).getD false then some "refused" else
    match parseCompress a with
    | .ok p =>
      let compr := match p.cmd.opts.compression with
        | none => "none"
        | some (c, l) => if c = Gen.enum_CompressionType_BROTLI then s!"brotli:{l}" else s!"other:{l}"
      let buf := match p.buffers with
        | none => "-"
        | some n => toString n
      some s!"ok cfg={showCfg p.cmd.opts.cfg} hl={p.cmd.opts.hashLen} compr={compr} temp={showHexE p.cmd.temp.toUTF8.toList} stdin={if p.stdin then 1 else 0} buf={buf} force={if p.cmd.flags.force then 1 else 0}"
    | .refused => some "refused"
    | .panic => some "panic"
  | _ => none

end Driver
