/-
  C13 — clone writes only source chunks at their offsets, once, skipping in-place ones.
  Only property theorems and their non-vacuity examples live here.  (Tiling level, as C03.)
-/
import Bita.Proofs.InPlace

namespace Bita.Props.C13
open Bita Bita.Spec

variable {κ : Type} [DecidableEq κ]

/-- **C13 (in-place clone).**  Every write issued to the output during reordering and during
any sequence of feeds is exactly one source chunk's bytes at one of that chunk's offsets in the
source; no location is written twice; a location where the prior output already held the right
chunk is not written at all; nothing is written at or beyond the source length. -/
theorem write_log_exact (content : κ → Bytes) (O N : List κ)
    (hne : ∀ k, k ∈ O ∨ k ∈ N → content k ≠ []) (ks : List κ) :
    ∀ st1 ret, (OutSt.mk (fileOf content O) (indexOf content N) []).reorderInPlace (indexOf content O)
        = some (st1, ret) →
      let W := writesOf (feedAll content st1 ks).log
      (∀ w ∈ W, ∃ k, (k, w.1) ∈ placements content N 0 ∧ w.2 = content k) ∧
      (W.map (·.1)).Nodup ∧
      (∀ w ∈ W, ∀ k, (k, w.1) ∈ placements content N 0 → (k, w.1) ∉ placements content O 0) ∧
      (∀ w ∈ W, w.1 + w.2.length ≤ (fileOf content N).length) :=
  Proofs.write_log_exact content O N hne ks

/-- **C13 (plain clone)** into an output with arbitrary prior bytes `p`. -/
theorem write_log_exact_plain (content : κ → Bytes) (N : List κ) (p : Bytes)
    (hne : ∀ k, k ∈ N → content k ≠ []) (ks : List κ) :
    let W := writesOf (feedAll content ⟨p, indexOf content N, []⟩ ks).log
    (∀ w ∈ W, ∃ k, (k, w.1) ∈ placements content N 0 ∧ w.2 = content k) ∧
    (W.map (·.1)).Nodup ∧
    (∀ w ∈ W, w.1 + w.2.length ≤ (fileOf content N).length) :=
  Proofs.write_log_exact_plain content N p hne ks

/-! Non-vacuity: a run with an in-place chunk, a moved chunk and a fetched chunk. -/
def content3 : Nat → Bytes := fun k => List.replicate (k % 3 + 1) (UInt8.ofNat (k + 65))

example :
    let O := [0, 1, 2]; let N := [0, 2, 5, 1]
    (((OutSt.mk (fileOf content3 O) (indexOf content3 N) []).reorderInPlace (indexOf content3 O)).map
      (fun r => writesOf (feedAll content3 r.1 [5]).log)) =
      some [(7, content3 1), (1, content3 2), (4, content3 5)] := by
  decide +kernel

end Bita.Props.C13
