/-
  C13 — clone writes only source chunks at their offsets, once, skipping in-place ones.
  Only property theorems and their non-vacuity examples live here.  (Byte level for the whole
  clone: `clone_write_log_exact`; tiling level, as C03: `write_log_exact`, `write_log_exact_plain`.)
-/
import Bita.Proofs.InPlace
import Bita.Proofs.CloneNoJunk
import Bita.Proofs.StepOrder

namespace Bita.Props.C13
open Bita Bita.Spec

/-- **C13 at the level of bytes, for the whole clone** (`Clone.run`: plain or in place, any seeds,
any reader behaviour, whatever the result).  The archive opens to `a`, which describes `src` as
the chunks `cks`.  Then every write the run issued to the output is exactly one source chunk's
bytes at one of that chunk's offsets in the source (`chunkPlacements cks 0`); no offset is
written twice; nothing is written beyond the source length; and in place (`--seed-output`) a
location where the scan of the prior output already found the right chunk is not written at
all.  The only escape is a collision of the truncated strong hash with a genuine source chunk;
colliding junk chunks in the prior output are irrelevant (`Proofs.reorderOps_keep`). -/
theorem clone_write_log_exact (H : Bytes → Bytes) (hH : ∀ x, (H x).length = 64)
    (decomp : Nat → Bytes → Nat → Option Bytes) (features : List Nat)
    (readAt : Nat → Nat → Option Bytes) (readChunks : List (Nat × Nat) → List (Option Bytes))
    (opts : CloneOpts) (prior : Bytes) (seeds : List Bytes)
    (a : Archive) (src : Bytes) (cks : List Bytes)
    (hinit : tryInit H features readAt = .ok a) (hd : Describes H a src cks) :
    let W := writesOf (Clone.run H decomp features readAt readChunks opts prior seeds).log
    ((∀ w ∈ W, w ∈ chunkPlacements cks 0) ∧
     (W.map (·.1)).Nodup ∧
     (∀ w ∈ W, w.1 + w.2.length ≤ src.length) ∧
     (opts.seedOutput = true → ∀ w ∈ W, ∀ c ∈ chunkAll a.config prior,
        c.1 = w.1 → slice prior c.1 c.2 ≠ w.2)) ∨
    Collision H a.hashLength cks :=
  Proofs.clone_write_log_exact_nojunk H hH decomp features readAt readChunks opts prior seeds a src cks
    hinit hd

/-! Non-vacuity of `clone_write_log_exact`: an in-place clone over a prior output that holds the
first two source chunks swapped and junk where the third belongs.  Both are moved (each written
once, at its source offset), the third is fetched and written at its offset; the result is the
source. -/
def toyH (x : Bytes) : Bytes := (x ++ List.replicate 64 0).take 64

example :
    let src : Bytes := [1, 2, 3, 4, 5, 6, 7, 8]
    let archive := createArchive toyH "lib" id ⟨.fixed 3, 8, none, []⟩ src
    let prior : Bytes := [4, 5, 6, 1, 2, 3, 9, 9]
    let r := Clone.run toyH (fun _ b _ => some b) [] (honestReadAt archive) (honestReadChunks archive)
      { seedOutput := true } prior []
    writesOf r.log = [(0, [1, 2, 3]), (3, [4, 5, 6]), (6, [7, 8])] ∧
    r.result = .ok ∧ r.output = src ∧
    writesOf r.log = chunkPlacements [[1, 2, 3], [4, 5, 6], [7, 8]] 0 := by
  decide +kernel

variable {κ : Type} [DecidableEq κ]

/-- **C13 (in-place clone).**  Every write issued to the output during reordering and during
any sequence of feeds is exactly one source chunk's bytes at one of that chunk's offsets in the
source; no location is written twice; a location where the prior output already held the right
chunk is not written at all; nothing is written at or beyond the source length. -/
theorem write_log_exact (content : κ → Bytes) (O N : List κ)
    (hne : ∀ k, k ∈ O ∨ k ∈ N → content k ≠ []) (ks : List κ) :
    ∀ st1 ret, (OutSt.mk (fileOf content O) (indexOf content N) []).reorderInPlace (indexOf content O)
        = some (st1, ret) →
      let W := writesOf (feedAll content st1 ks).log
      (∀ w ∈ W, ∃ k, (k, w.1) ∈ placements content N 0 ∧ w.2 = content k) ∧
      (W.map (·.1)).Nodup ∧
      (∀ w ∈ W, ∀ k, (k, w.1) ∈ placements content N 0 → (k, w.1) ∉ placements content O 0) ∧
      (∀ w ∈ W, w.1 + w.2.length ≤ (fileOf content N).length) :=
  Proofs.write_log_exact content O N hne ks

/-- **C13 (plain clone)** into an output with arbitrary prior bytes `p`. -/
theorem write_log_exact_plain (content : κ → Bytes) (N : List κ) (p : Bytes)
    (hne : ∀ k, k ∈ N → content k ≠ []) (ks : List κ) :
    let W := writesOf (feedAll content ⟨p, indexOf content N, []⟩ ks).log
    (∀ w ∈ W, ∃ k, (k, w.1) ∈ placements content N 0 ∧ w.2 = content k) ∧
    (W.map (·.1)).Nodup ∧
    (∀ w ∈ W, w.1 + w.2.length ≤ (fileOf content N).length) :=
  Proofs.write_log_exact_plain content N p hne ks

/-! Non-vacuity: a run with an in-place chunk, a moved chunk and a fetched chunk. -/
def content3 : Nat → Bytes := fun k => List.replicate (k % 3 + 1) (UInt8.ofNat (k + 65))

example :
    let O := [0, 1, 2]; let N := [0, 2, 5, 1]
    (((OutSt.mk (fileOf content3 O) (indexOf content3 N) []).reorderInPlace (indexOf content3 O)).map
      (fun r => writesOf (feedAll content3 r.1 [5]).log)) =
      some [(7, content3 1), (1, content3 2), (4, content3 5)] := by
  decide +kernel

/-- The step order of `clone_archive` that `Clone.run` transcribes (scan the output and reorder in
place *before* any seed is used, fetch last, flush before resize), read from the source on every
run: a reordering of the steps in the code breaks this theorem. -/
theorem clone_steps_as_modelled :
    Gen.cloneStepOrder = ["try_init", "banner", "pin", "open_output", "device_check", "scan_output", "reorder",
                          "seed_stdin", "seed_files", "fetch", "flush", "resize", "verify_output"] :=
  Proofs.clone_step_order_fact

end Bita.Props.C13
