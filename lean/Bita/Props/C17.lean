/-
  C17 — any archive conforming to the documented format is cloned correctly.
  Only property theorems and their non-vacuity examples live here.
-/
import Bita.Proofs.CloneSound
import Bita.Proofs.CloneNoJunk
import Bita.Proofs.Http
import Bita.Proofs.IoReader
import Bita.Proofs.ReaderEnv
import Bita.Proofs.StepOrder
import Bita.Proofs.CliRoundtrip
import Bita.Proofs.ProtoSkip

namespace Bita.Props.C17
open Bita Bita.Spec

/-- **C17.**  `Conforms` (Spec.ArchiveSpec) says only: the bytes open - either magic, any
dictionary the protobuf rules decode (unknown fields, any field order, packed or unpacked
indexes), chunk data wherever the header's offset and the descriptors' offsets say (any order,
gaps, slack after the header) -, what was opened describes `src` chunk by chunk, and every
descriptor's range holds stored bytes that decode to its chunk.  Nothing refers to how bita's
writer lays an archive out.  Every such archive is cloned to exactly the source (any seeds, any
prior output, in place or not).  The only escape is a collision of the truncated strong hash
with a genuine source chunk; colliding junk chunks in the prior output are irrelevant
(`Proofs.reorderOps_keep`). -/
theorem conforming_archive_clones (H : Bytes → Bytes) (hH : ∀ x, (H x).length = 64)
    (decomp : Nat → Bytes → Nat → Option Bytes) (features : List Nat)
    (archive src : Bytes) (hc : Conforms H decomp features archive src)
    (opts : CloneOpts) (prior : Bytes) (seeds : List Bytes)
    (hpin : opts.headerPin = none)
    (hdev : opts.blockDev = true → src.length ≤ prior.length) :
    ∃ a cks, tryInit H features (honestReadAt archive) = .ok a ∧ Describes H a src cks ∧
      let r := Clone.run H decomp features (honestReadAt archive) (honestReadChunks archive) opts prior seeds
      (r.result = .ok ∧ setLen r.output src.length = src ∧ (opts.blockDev = false → r.output = src)) ∨
        Collision H a.hashLength cks := by
  obtain ⟨a, cks, hinit, hd, hs⟩ := hc
  refine ⟨a, cks, hinit, hd, ?_⟩
  exact Proofs.clone_complete_nojunk H hH decomp features archive opts prior seeds a src cks hinit hd hs
    (by intro pin hp; rw [hpin] at hp; cases hp) hdev

/-- What the reader reports about a conforming archive is what the archive says: the accessor
values are the decoded dictionary's (this is `Describes` + `tryInit_ok_facts`; the values
themselves are compared with the independent encoder's inputs in the correspondence runs). -/
theorem conforming_archive_reports (H : Bytes → Bytes) (decomp : Nat → Bytes → Nat → Option Bytes)
    (features : List Nat) (archive src : Bytes) (hc : Conforms H decomp features archive src) :
    ∃ (a : Archive) (cks : List Bytes), tryInit H features (honestReadAt archive) = .ok a ∧
      a.sourceTotalSize = src.length ∧
      a.sourceChecksum = H src ∧ a.sourceOrder.length = cks.length ∧ src = cks.flatten := by
  obtain ⟨a, cks, hinit, hd, _⟩ := hc
  exact ⟨a, cks, hinit, hd.total, hd.checksum, hd.order_len, hd.tiles⟩

/-- The transport under the clone: over HTTP the fetch list is served run by run, locally chunk
by chunk, both exactly (C08's theorems), whatever order and gaps the stored chunks have. -/
theorem readers_exact_on_any_layout (data : Bytes) (retry : Nat) (chunks : List ChunkOffset) (script : List Resp)
    (hsize : ∀ c ∈ chunks, 1 ≤ c.size) (hin : ∀ c ∈ chunks, c.stop ≤ data.length) :
    httpReadChunks (fun off size => slice data off size) retry script chunks =
      fetchAll data retry (maximalRuns chunks) script :=
  Proofs.http_resume data retry chunks script hsize hin

/-- **C17 over HTTP.**  The same through the model of `HttpReader` against an honest server over
conforming bytes: header reads that get an answer, and a chunk stream in which at most
`--http-retry-count` responses fail (refused, or cut anywhere), none ends early without an
error, and enough complete ones arrive - whatever the fragmentation. -/
theorem conforming_archive_clones_over_http (H : Bytes → Bytes) (hH : ∀ x, (H x).length = 64)
    (decomp : Nat → Bytes → Nat → Option Bytes) (features : List Nat)
    (archive src : Bytes) (hc : Conforms H decomp features archive src)
    (e : HttpEnv) (opts : CloneOpts) (prior : Bytes) (seeds : List Bytes)
    (hserve : e.serve = honestServe archive)
    (hat : ∀ off size, ∃ frags rest, e.atScript off size = Resp.full frags :: rest)
    (hpin : opts.headerPin = none)
    (hdev : opts.blockDev = true → src.length ≤ prior.length)
    (hbad : (e.chunksScript.filter (fun r => match r with | .full _ => false | .part _ _ cut => cut | .refuse => true)).length ≤ e.retry)
    (hnoend : ∀ r ∈ e.chunksScript, ∀ n frags, r ≠ Resp.part n frags false) :
    ∃ a cks, tryInit H features (honestReadAt archive) = .ok a ∧ Describes H a src cks ∧
      (a.chunks.length ≤ (e.chunksScript.filter (fun r => match r with | .full _ => true | _ => false)).length →
      let r := Clone.run H decomp features e.readAt e.readChunks opts prior seeds
      (r.result = .ok ∧ setLen r.output src.length = src ∧ (opts.blockDev = false → r.output = src)) ∨
        Collision H a.hashLength cks) := by
  obtain ⟨a, cks, hinit, hd, hs⟩ := hc
  refine ⟨a, cks, hinit, hd, fun hlen => ?_⟩
  exact Proofs.clone_http_complete_budget H hH decomp features archive e opts prior seeds a src cks hserve hat
    hinit hd hs (by intro pin hp; rw [hpin] at hp; cases hp) hdev hbad hnoend hlen

/-- **C17 through the local reader** under any short-read / `Pending` behaviour that eventually
delivers. -/
theorem conforming_archive_clones_through_io_reader (H : Bytes → Bytes) (hH : ∀ x, (H x).length = 64)
    (decomp : Nat → Bytes → Nat → Option Bytes) (features : List Nat)
    (e : IoEnv) (src : Bytes) (hc : Conforms H decomp features e.file src)
    (opts : CloneOpts) (prior : Bytes) (seeds : List Bytes)
    (hat : ∀ off size, (∀ ev ∈ e.atScript off size, ev = ReadEv.pending ∨ ∃ n, 1 ≤ n ∧ ev = ReadEv.bytes n) ∧
      size ≤ ((e.atScript off size).filter (· ≠ ReadEv.pending)).length)
    (hcs : ∀ ev ∈ e.chunksScript, ev = ReadEv.pending ∨ ∃ n, 1 ≤ n ∧ ev = ReadEv.bytes n)
    (hpin : opts.headerPin = none)
    (hdev : opts.blockDev = true → src.length ≤ prior.length) :
    ∃ a cks, tryInit H features (honestReadAt e.file) = .ok a ∧ Describes H a src cks ∧
      ((a.chunks.map (·.archiveSize)).sum ≤ (e.chunksScript.filter (· ≠ ReadEv.pending)).length →
      let r := Clone.run H decomp features e.readAt e.readChunks opts prior seeds
      (r.result = .ok ∧ setLen r.output src.length = src ∧ (opts.blockDev = false → r.output = src)) ∨
        Collision H a.hashLength cks) := by
  obtain ⟨a, cks, hinit, hd, hs⟩ := hc
  refine ⟨a, cks, hinit, hd, fun hlen => ?_⟩
  exact Proofs.clone_io_complete H hH decomp features e opts prior seeds a src cks hat ⟨hcs, hlen⟩
    hinit hd hs (by intro pin hp; rw [hpin] at hp; cases hp) hdev

/-- **C17 at the command line** (file-system model): `bita clone` of any conforming archive file into
a path that does not exist - or over a regular file with `--force-create` / `--seed-output` -,
with any seed files that exist: success, and exactly the source in the output. -/
theorem cli_conforming_archive_clones (H : Bytes → Bytes) (hH : ∀ x, (H x).length = 64)
    (decomp : Nat → Bytes → Nat → Option Bytes) (kc : CloneCmd) (fs : Fs) (an : Node) (src : Bytes)
    (harch : fs.get kc.archivePath = some an) (hc : Conforms H decomp [] an.data src)
    (hpin : kc.pin = none)
    (hout : fs.get kc.output = none ∨
      ((kc.flags.force = true ∨ kc.flags.seedOutput = true) ∧ ∃ d, fs.get kc.output = some (.regular d)))
    (hseeds : ∀ p ∈ kc.seedPaths, (fs.get p).isSome ∨ p = kc.output) :
    ∃ a cks, tryInit H [] (honestReadAt an.data) = .ok a ∧ Describes H a src cks ∧
      (((Cli.clone H decomp kc fs).ok = true ∧
          (Cli.clone H decomp kc fs).fs.get kc.output = some (.regular src)) ∨
        Collision H a.hashLength cks) := by
  obtain ⟨a, cks, hinit, hd, hs⟩ := hc
  exact ⟨a, cks, hinit, hd,
    Proofs.clone_conforming_fs H hH decomp kc fs an a src cks harch hinit hd hs hpin hout hseeds⟩

/-! Non-vacuity: a hand-laid archive - legacy magic is covered by the correspondence runs; here:
chunk data offset with slack, stored chunks in descending order with a gap - conforms and is
cloned. -/
def toyH (x : Bytes) : Bytes := (x ++ List.replicate 64 0).take 64

def handLaid : Bytes :=
  let src : Bytes := [1, 2, 3, 4, 5, 6, 7]
  let d : Proto.ChunkDictionary :=
    { applicationVersion := [120], sourceChecksum := toyH src, sourceTotalSize := 7
      chunkerParams := some ⟨0, 0, 3, 0, 8, 2⟩, chunkCompression := some ⟨0, 0⟩
      rebuildOrder := [0, 1, 2]
      chunkDescriptors := [⟨(toyH [1,2,3]).take 8, 3, 9, 3⟩, ⟨(toyH [4,5,6]).take 8, 3, 5, 3⟩, ⟨(toyH [7]).take 8, 1, 0, 1⟩] }
  let hdr := buildHeader toyH d (some ((buildHeader toyH d none).length + 4))
  hdr ++ [0, 0, 0, 0] ++ [7] ++ [9, 9, 9, 9] ++ [4, 5, 6] ++ [9] ++ [1, 2, 3]

example :
    (Clone.run toyH (fun _ b _ => some b) [] (honestReadAt handLaid) (honestReadChunks handLaid) {} [8] []).result = .ok ∧
    (Clone.run toyH (fun _ b _ => some b) [] (honestReadAt handLaid) (honestReadChunks handLaid) {} [8] []).output = [1, 2, 3, 4, 5, 6, 7] := by
  decide +kernel

/-- The step order of `clone_archive` that `Clone.run` transcribes (scan the output and reorder in
place *before* any seed is used, fetch last, flush before resize), read from the source on every
run: a reordering of the steps in the code breaks this theorem. -/
theorem clone_steps_as_modelled :
    Gen.cloneStepOrder = ["try_init", "banner", "pin", "open_output", "device_check", "scan_output", "reorder",
                          "seed_stdin", "seed_files", "fetch", "flush", "resize", "verify_output"] :=
  Proofs.clone_step_order_fact

/-- **Forward compatibility of the dictionary** (the "unknown fields" clause of `Conforms`, as a
theorem about the decoder rather than a remark): fields whose number `ChunkDictionary` does not
know - any wire type, unknown groups included, at any position, any number of them - have no
effect on the dictionary that is decoded; and the decoder's fuel is never what refuses one. -/
theorem unknown_dictionary_fields_are_ignored (fs : List (Nat × Option Proto.WireVal))
    (d : Proto.ChunkDictionary) :
    Proto.mergeDictionary fs d = Proto.mergeDictionary (fs.filter fun f => Proofs.knownDictTag f.1) d :=
  Proofs.mergeDictionary_ignores_unknown fs d

theorem dictionary_decode_fuel_irrelevant (b : Bytes) (f : Nat) (hf : b.length < f) :
    Proto.decodeDictionary b =
      (Proto.parseMessage [Gen.tag_ChunkDictionary_metadata] f b).bind fun fs => Proto.mergeDictionary fs {} := by
  unfold Proto.decodeDictionary
  rw [Proofs.parseMessage_fuel _ (b.length + 1) f b (by omega) hf]

/-- field 9 (varint), an unknown group 10 and field 3 (source_total_size = 7): only the last counts -/
example : Proto.decodeDictionary [0x48, 0x01, 0x53, 0x08, 0x01, 0x54, 0x18, 0x07] =
    Proto.decodeDictionary [0x18, 0x07] := by decide
example : (Proto.decodeDictionary [0x18, 0x07]).map (·.sourceTotalSize) = some 7 := by decide

end Bita.Props.C17
