/-
  C09 — chunking is a pure, read-independent function following the rolling-hash rule.
  Only property theorems and their non-vacuity examples live here.
-/
import Bita.Model.Chunker
import Bita.Spec.Chunking
import Bita.Spec.Tiling
import Bita.Proofs.ChunkStream
import Bita.Proofs.HashWindow
import Bita.Proofs.ChunkRule
import Bita.Proofs.SpecChunks

namespace Bita.Props.C09
open Bita Bita.Spec

/-- **Read independence.**  For every valid configuration, every source and every read script
that delivers the whole source and then observes its end - any fragment sizes, any number of
`Pending`s anywhere (each re-enters the chunker on an unchanged buffer) - the chunk sequence
is the one obtained when everything arrives in a single read. -/
theorem stream_independent_of_delivery (cfg : Config) (hv : cfg.Valid) (data : Bytes)
    (script : List Rd) (hc : Complete script data.length = true) :
    chunkStream cfg data script = chunkAll cfg data :=
  Proofs.stream_independent_of_delivery cfg hv data script hc

/-- ... and a script that stops early has only produced a prefix of it. -/
theorem stream_prefix (cfg : Config) (hv : cfg.Valid) (data : Bytes) (script : List Rd) :
    ∃ rest, chunkAll cfg data = chunkStream cfg data script ++ rest :=
  Proofs.stream_prefix cfg hv data script

/-- **The rule.**  The chunker model computes exactly the pure specification: a boundary at the
first length ≥ max(min,1) (BuzHash: and past the warm-up, I1) at which the hash *of the
trailing window* has all filter bits set, else at the maximum size, else the tail. -/
theorem chunkAll_eq_specChunks (cfg : Config) (hv : cfg.Valid) (data : Bytes) :
    chunkAll cfg data = specChunks cfg data :=
  Proofs.chunkAll_eq_specChunks cfg hv data

/-- C09 in one statement: under every complete delivery the chunks are those of the rule. -/
theorem chunks_follow_rule (cfg : Config) (hv : cfg.Valid) (data : Bytes)
    (script : List Rd) (hc : Complete script data.length = true) :
    chunkStream cfg data script = specChunks cfg data := by
  rw [stream_independent_of_delivery cfg hv data script hc, chunkAll_eq_specChunks cfg hv data]

/-- The rolling hashes are functions of the trailing window only, in closed form.
RollSum: after feeding any byte sequence into a fresh hasher of window `n`. -/
theorem rollsum_is_window_function (n : Nat) (hn : 1 ≤ n) (hist : Bytes) :
    (hist.foldl RollSum.input (RollSum.new n)).sum
      = rollsumOf (winAt n hist hist.length) :=
  Proofs.rollsum_is_window_function n hn hist

/-- BuzHash: after the warm-up (`init` for the first `n` bytes) and any further input, with the
repeat-skip optimisation in place. -/
theorem buzhash_is_window_function (n : Nat) (hn : 1 ≤ n) (hist : Bytes) (hlen : n ≤ hist.length) :
    (hist.foldl (fun h b => if h.full then h.input b else h.init b) (BuzHash.new n)).sum
      = buzOf (winAt n hist hist.length) :=
  Proofs.buzhash_is_window_function n hn hist hlen

/-- **Tiling.**  Offsets are contiguous from 0, no chunk is empty, the lengths add up to the
input - so the concatenation of the chunks' bytes is the input. -/
theorem chunks_tile (cfg : Config) (hv : cfg.Valid) (data : Bytes) :
    Tiles (specChunks cfg data) 0 data.length :=
  Proofs.specChunks_tile cfg hv data

theorem tiles_concat (data : Bytes) (cs : List (Nat × Nat)) (s : Nat)
    (h : Tiles cs s data.length) :
    (cs.map (fun c => slice data c.1 c.2)).flatten = data.drop s :=
  Proofs.tiles_concat data cs s h

/-- **Size bounds.**  Every chunk except the last has `max(min,1) ≤ len ≤ max`
(fixed size: exactly `n`). -/
theorem chunk_size_bounds (cfg : Config) (hv : cfg.Valid) (data : Bytes) :
    ∀ c ∈ allButLast (specChunks cfg data),
      match cfg with
      | .rollsum f => max f.minSize 1 ≤ c.2 ∧ c.2 ≤ f.maxSize
      | .buzhash f => max f.minSize 1 ≤ c.2 ∧ c.2 ≤ f.maxSize
      | .fixed n => c.2 = n :=
  Proofs.specChunks_bounds cfg hv data

/-! Non-vacuity: a concrete valid configuration and stream with a boundary by hash, a cut at the
maximum and a tail, under a fragmented delivery with a `Pending`. -/
example :
    let cfg := Config.rollsum ⟨2, 2, 8, 3⟩
    let data : Bytes := (List.range 20).map (fun i => UInt8.ofNat (i + 1))
    cfg.Valid ∧ Complete [.bytes 3, .pending, .bytes 5, .bytes 100, .bytes 1] data.length = true ∧
    chunkStream cfg data [.bytes 3, .pending, .bytes 5, .bytes 100, .bytes 1] = [(0, 8), (8, 8), (16, 4)] ∧
    specChunks cfg data = [(0, 8), (8, 8), (16, 4)] := by
  decide +kernel

example :
    let cfg := Config.buzhash ⟨2, 2, 8, 3⟩
    let data : Bytes := [5, 9, 250, 0, 0, 0, 0, 7, 7, 7, 7, 7, 1, 2, 3, 4, 5, 6, 7, 8, 9]
    cfg.Valid ∧ specChunks cfg data = chunkAll cfg data ∧ (specChunks cfg data).length ≥ 3 := by
  decide +kernel

end Bita.Props.C09
