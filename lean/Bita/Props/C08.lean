/-
  C08 — archive readers deliver exactly the requested bytes despite fragmentation / faults.
  Only property theorems and their non-vacuity examples live here.
-/
import Bita.Model.Readers
import Bita.Spec.Resume
import Bita.Proofs.Http
import Bita.Proofs.IoReader
import Bita.Proofs.ReaderEnv
import Bita.Proofs.Reuse
import Bita.Proofs.HttpBounds
import Bita.Proofs.OptionsCompose

namespace Bita.Props.C08
open Bita Bita.Spec

def honest (data : Bytes) (off size : Nat) : Bytes := slice data off size

/-- **C08 (HTTP).**  For every chunk list (adjacent, gapped, unordered), every retry budget and
*every* failure script (refusals, cuts after any byte, clean early ends, any fragmentation,
any number of them) against a server that returns the right bytes when it answers, the items
and the requests of the model of `HttpReader::read_chunks` are those of the run-level
specification `fetchAll`: resume at the first missing byte, fresh budget per run, complete
chunks first, then at most one error, then nothing. -/
theorem http_resume (data : Bytes) (retry : Nat) (chunks : List ChunkOffset) (script : List Resp)
    (hsize : ∀ c ∈ chunks, 1 ≤ c.size)
    (hin : ∀ c ∈ chunks, c.stop ≤ data.length) :
    httpReadChunks (honest data) retry script chunks =
      fetchAll data retry (maximalRuns chunks) script :=
  Proofs.http_resume data retry chunks script hsize hin

/-- Reading the specification: whatever the script, the items are an exact prefix of the
requested chunks followed by nothing (all delivered) or by exactly one error / stall item.
Never a short, shifted or duplicated chunk. -/
theorem http_items_exact_prefix (data : Bytes) (retry : Nat) (chunks : List ChunkOffset)
    (script : List Resp)
    (hsize : ∀ c ∈ chunks, 1 ≤ c.size) (hin : ∀ c ∈ chunks, c.stop ≤ data.length) :
    ∃ k tail, k ≤ chunks.length ∧
      (httpReadChunks (honest data) retry script chunks).items =
        (chunks.take k).map (exactItem data) ++ tail ∧
      ((tail = [] ∧ k = chunks.length) ∨ tail = [Item.stall] ∨ tail = [Item.errHttp] ∨
        tail = [Item.errEnd]) :=
  Proofs.http_items_exact_prefix data retry chunks script hsize hin

/-- Resumption, read off `fetchRun`: every request issued for a run ends at the run's end, and
the request after a failed attempt starts exactly where the bytes received so far end. -/
theorem fetchRun_requests (stop pos budget : Nat) (script : List Resp) (hle : pos ≤ stop) :
    let r := fetchRun stop pos budget script
    (∀ q ∈ r.2.1, q.1 + q.2 = stop ∧ pos ≤ q.1) ∧ pos ≤ r.1 ∧ r.1 ≤ stop ∧
    (r.2.2.1 = RunEnd.done → r.1 = stop) :=
  Proofs.fetchRun_requests stop pos budget script hle

/-- **C08 (local).**  For any list of ranges, any script of short reads / `Pending`s / errors:
the items are an exact prefix of the requested ranges followed by nothing or exactly one
error; a range that the file cannot fill ends in `UnexpectedEof`. -/
theorem io_reader_sound (file : Bytes) (chunks : List ChunkOffset) (buf0 : Bytes)
    (script : List ReadEv) (hsize : ∀ c ∈ chunks, 1 ≤ c.size) :
    ∃ k tail, k ≤ chunks.length ∧
      ioReadChunks file chunks buf0 script = (chunks.take k).map (exactItem file) ++ tail ∧
      (∀ c ∈ chunks.take k, c.stop ≤ file.length) ∧
      ((tail = [] ∧ k = chunks.length) ∨ tail = [Item.stall] ∨ tail = [Item.errEof] ∨
        tail = [Item.errIo]) :=
  Proofs.io_reader_sound file chunks buf0 script hsize

/-- ... and when the ranges lie inside the file and the script has no error and no empty read,
every range is delivered as soon as the script holds enough reads (one per byte always
suffices), however short the reads and wherever the `Pending`s are. -/
theorem io_reader_complete (file : Bytes) (chunks : List ChunkOffset) (buf0 : Bytes)
    (script : List ReadEv) (hsize : ∀ c ∈ chunks, 1 ≤ c.size)
    (hin : ∀ c ∈ chunks, c.stop ≤ file.length)
    (hok : ∀ e ∈ script, e = ReadEv.pending ∨ ∃ n, 1 ≤ n ∧ e = ReadEv.bytes n)
    (hlen : (chunks.map (·.size)).sum ≤ (script.filter (· ≠ ReadEv.pending)).length) :
    ioReadChunks file chunks buf0 script = chunks.map (exactItem file) :=
  Proofs.io_reader_complete file chunks buf0 script hsize hin hok hlen

/-- **`read_at`** (header reads) of both readers: exactly `size` bytes or an error, for *any*
server / transport / short-read behaviour - never a short or over-long answer. -/
theorem read_at_exact (eh : HttpEnv) (ei : IoEnv) :
    (∀ off size b, eh.readAt off size = some b → b.length = size) ∧
    (∀ off size b, ei.readAt off size = some b → b.length = size) :=
  ⟨Proofs.http_env_exact eh, Proofs.io_env_exact ei⟩

/-- The single-read path over HTTP (`read_at`): every request is for exactly the asked range (a retry
starts from scratch) and there are at most `retry + 1` of them. -/
theorem http_read_at_requests (serve : Nat → Nat → Bytes) (retry offset size : Nat) (script : List Resp) :
    (∀ q ∈ (httpReadAt serve retry offset size script).2, q = (offset, size)) ∧
    (httpReadAt serve retry offset size script).2.length ≤ retry + 1 :=
  Proofs.http_read_at_requests serve retry offset size script

/-- **Never shifted by what a server adds.**  A server that appends anything at all to every answer
yields exactly the stream and the requests of the server that sends the requested bytes only: no
surplus is delivered, and none leaks into the next run (the fragment truncation is in the source:
`Gen.httpFragmentClipped`). -/
theorem http_surplus_irrelevant (data : Bytes) (extra : Nat → Nat → Bytes) (retry : Nat)
    (script : List Resp) (chunks : List ChunkOffset)
    (hsize : ∀ c ∈ chunks, 1 ≤ c.size) (hin : ∀ c ∈ chunks, c.stop ≤ data.length) :
    httpReadChunks (fun off size => slice data off size ++ extra off size) retry script chunks =
      httpReadChunks (fun off size => slice data off size) retry script chunks :=
  Proofs.http_surplus_irrelevant data extra retry script chunks hsize hin

/-! Non-vacuity: a run of two chunks failing three times (budget 3), resumed at +3 and +5. -/
example :
    let data : Bytes := (List.range 40).map (·.toUInt8)
    let chunks : List ChunkOffset := [⟨3, 4⟩, ⟨7, 2⟩, ⟨20, 5⟩]
    let o := httpReadChunks (honest data) 3
      [.part 3 [1] true, .refuse, .part 2 [] true, .full [2], .part 1 [] false] chunks
    o.reqs = [(3, 6), (6, 3), (6, 3), (8, 1), (20, 5)] ∧
    o.items = [exactItem data ⟨3, 4⟩, exactItem data ⟨7, 2⟩, Item.errEnd] := by
  decide +kernel

example :
    let file : Bytes := (List.range 40).map (·.toUInt8)
    ioReadChunks file [⟨30, 4⟩, ⟨2, 3⟩, ⟨38, 5⟩] []
      [.bytes 1, .pending, .bytes 9, .bytes 2, .pending, .bytes 1, .bytes 7, .bytes 7, .bytes 1]
    = [exactItem file ⟨30, 4⟩, exactItem file ⟨2, 3⟩, Item.errEof] := by
  decide +kernel

/-- **"Up to the configured retry count", from the command line.**  The budget of the HTTP reader is the
number that the `--http-retry-count` text denotes (`Options.parseClone`, tied in process to
`cli::parse_opts`; 0 when the option is not given): with an honest server, at most that many failing
responses in the chunk stream (refused, or cut anywhere in the body), no body that ends early without
an error and enough complete responses, the clone succeeds with exactly the source - or a hash
collision is exhibited. -/
theorem clone_completes_within_the_configured_retry_count (H : Bytes → Bytes) (hH : ∀ x, (H x).length = 64)
    (decomp : Nat → Bytes → Nat → Option Bytes) (features : List Nat)
    (ka : Options.CloneArgs) (pk : Options.CloneParsed) (hpk : Options.parseClone ka = .ok pk)
    (archive : Bytes) (e : HttpEnv) (hretry : e.retry = pk.retries)
    (opts : CloneOpts) (prior : Bytes) (seeds : List Bytes)
    (a : Archive) (src : Bytes) (cks : List Bytes)
    (hserve : e.serve = honestServe archive)
    (hat : ∀ off size, ∃ frags rest, e.atScript off size = Resp.full frags :: rest)
    (hinit : tryInit H features (honestReadAt archive) = .ok a) (hd : Describes H a src cks)
    (hs : Stored H decomp a archive)
    (hpin : ∀ pin, opts.headerPin = some pin → pin = a.headerChecksum)
    (hdev : opts.blockDev = true → src.length ≤ prior.length)
    (hbad : (e.chunksScript.filter (fun r => match r with | .full _ => false | .part _ _ cut => cut | .refuse => true)).length ≤ pk.retries)
    (hnoend : ∀ r ∈ e.chunksScript, ∀ n frags, r ≠ Resp.part n frags false)
    (hlen : a.chunks.length ≤
      (e.chunksScript.filter (fun r => match r with | .full _ => true | _ => false)).length) :
    pk.retries < 2 ^ 32 ∧
    (let r := Clone.run H decomp features e.readAt e.readChunks opts prior seeds
     (r.result = .ok ∧ setLen r.output src.length = src ∧ (opts.blockDev = false → r.output = src)) ∨
       Collision H a.hashLength cks) :=
  ⟨(Proofs.parseClone_ok ka pk hpk).2.2.2.2.2.2.2,
   Proofs.clone_http_complete_budget H hH decomp features archive e opts prior seeds a src cks hserve hat hinit hd hs hpin hdev
     (hretry ▸ hbad) hnoend hlen⟩

end Bita.Props.C08
