/-
  C07 — adjacent missing chunks are fetched with a single range request.
  Only property theorems and their non-vacuity examples live here.
-/
import Bita.Model.Readers
import Bita.Spec.Runs
import Bita.Proofs.Http
import Bita.Proofs.CloneWire
import Bita.Model.Compress

namespace Bita.Props.C07
open Bita Bita.Spec

/-- A server that answers every request with exactly the bytes of the requested range. -/
def honest (data : Bytes) (off size : Nat) : Bytes := slice data off size

/-- `maximalRuns` really is the decomposition into maximal adjacent runs: it loses nothing,
every run is non-empty and contiguous, and no two neighbouring runs could be merged. -/
theorem maximalRuns_spec (cs : List ChunkOffset) :
    (maximalRuns cs).flatten = cs ∧
    (∀ r ∈ maximalRuns cs, r ≠ [] ∧ Contiguous r) ∧
    Separated (maximalRuns cs) :=
  Proofs.maximalRuns_spec cs

/-- **C07.** In the absence of transfer failures (every response carries the whole requested
body, in *any* fragmentation), the range requests issued by the HTTP chunk reader for a list of
chunks are exactly the maximal runs of adjacent chunks, in order, one request per run, and
the stream yields exactly the requested chunks. No bound on the number or size of chunks. -/
theorem requests_are_maximal_runs (data : Bytes) (retry : Nat) (chunks : List ChunkOffset)
    (script : List Resp)
    (hsize : ∀ c ∈ chunks, 1 ≤ c.size)
    (hin : ∀ c ∈ chunks, c.stop ≤ data.length)
    (hfull : ∀ r ∈ script, ∃ fr, r = Resp.full fr)
    (hlen : (maximalRuns chunks).length ≤ script.length) :
    httpReadChunks (honest data) retry script chunks =
      ⟨chunks.map (fun c => Item.chunk (slice data c.offset c.size)),
       (maximalRuns chunks).map runRequest⟩ :=
  Proofs.requests_are_maximal_runs data retry chunks script hsize hin hfull hlen

/-- The bounds of the request for a run are the first byte of its first chunk and the last byte
of its last chunk, and that is what the `Range` header says (inclusive end). -/
theorem runRequest_bounds (r : List ChunkOffset) (a b : ChunkOffset)
    (hc : Contiguous r) (hsize : ∀ c ∈ r, 1 ≤ c.size)
    (ha : r.head? = some a) (hb : r.getLast? = some b) :
    (runRequest r).1 = a.offset ∧ (runRequest r).1 + (runRequest r).2 - 1 = b.stop - 1 ∧
    rangeHeader (runRequest r).1 (runRequest r).2 = s!"bytes={a.offset}-{b.stop - 1}" :=
  Proofs.runRequest_bounds r a b hc hsize ha hb

/-! Non-vacuity: a concrete list with two runs (one of two chunks) under a fragmenting server. -/
example :
    let data : Bytes := (List.range 40).map (·.toUInt8)
    let chunks : List ChunkOffset := [⟨3, 4⟩, ⟨7, 2⟩, ⟨20, 5⟩]
    (httpReadChunks (honest data) 0 [.full [1, 2], .full []] chunks).reqs = [(3, 6), (20, 5)] ∧
    maximalRuns chunks = [[⟨3, 4⟩, ⟨7, 2⟩], [⟨20, 5⟩]] := by
  decide +kernel

/-- **C07 for a whole clone** (C06 ∘ C07).  The archive is served by an honest server and no
transfer fails (every response complete, in any fragmentation); any prior output, in place or
not, any seeds.  Everything a successful clone puts on the wire, in order: one request for the
pre-header, one for the rest of the header, and then exactly one request per maximal run of
adjacent *missing* chunks (`Proofs.missingRanges`: the descriptors, in descriptor order, whose key
neither the scan of the prior output nor the scan of any seed found) - or a collision of the
truncated strong hash with a genuine source chunk is exhibited. -/
theorem clone_over_http_requests_runs_of_missing_chunks (H : Bytes → Bytes) (hH : ∀ x, (H x).length = 64)
    (decomp : Nat → Bytes → Nat → Option Bytes) (features : List Nat)
    (archive : Bytes) (e : HttpEnv) (opts : CloneOpts) (prior : Bytes) (seeds : List Bytes)
    (a : Archive) (src : Bytes) (cks : List Bytes)
    (hserve : e.serve = honestServe archive)
    (hat : ∀ off size, ∃ frags rest, e.atScript off size = Resp.full frags :: rest)
    (hinit : tryInit H features (honestReadAt archive) = .ok a) (hd : Describes H a src cks)
    (hs : Stored H decomp a archive)
    (hfull : ∀ r ∈ e.chunksScript, ∃ frags, r = Resp.full frags)
    (hlen : a.chunks.length ≤ e.chunksScript.length) :
    let r := Clone.run H decomp features e.readAt e.readChunks opts prior seeds
    r.result = .ok →
      r.requests.flatMap e.wire =
        [(0, Gen.preHeaderSize), (Gen.preHeaderSize, a.headerSize - Gen.preHeaderSize)] ++
          (maximalRuns (Proofs.missingRanges H a opts prior seeds)).map runRequest ∨
      Collision H a.hashLength cks :=
  Proofs.clone_http_wire H hH decomp features archive e opts prior seeds a src cks hserve hat hinit hd hs hfull hlen

/-! Non-vacuity: a five-chunk archive cloned over HTTP with a seed that holds the second and the
fourth chunk: three chunk requests (chunks 1, 3 and 5 are not adjacent), after the two for the
header. -/
def toyH (x : Bytes) : Bytes := (x ++ List.replicate 64 0).take 64

example :
    let src : Bytes := [1, 2, 3, 4, 5, 6, 7, 8, 9, 10, 11, 12, 13]
    let archive := createArchive toyH "lib" id ⟨.fixed 3, 8, none, []⟩ src
    let e : HttpEnv := ⟨honestServe archive, 0, fun _ _ => [.full [1, 2]], [.full [2], .full [], .full [1], .full [], .full []]⟩
    let r := Clone.run toyH (fun _ b _ => some b) [] e.readAt e.readChunks {} [9, 9] [[4, 5, 6, 0, 0, 0, 10, 11, 12]]
    r.result = .ok ∧ r.output = src ∧
    r.requests.flatMap e.wire = [(0, 14), (14, 253), (267, 3), (273, 3), (279, 1)] := by
  decide +kernel

end Bita.Props.C07
