/-
  C07 — adjacent missing chunks are fetched with a single range request.
  Only property theorems and their non-vacuity examples live here.
-/
import Bita.Model.Readers
import Bita.Spec.Runs
import Bita.Proofs.Http

namespace Bita.Props.C07
open Bita Bita.Spec

/-- A server that answers every request with exactly the bytes of the requested range. -/
def honest (data : Bytes) (off size : Nat) : Bytes := slice data off size

/-- `maximalRuns` really is the decomposition into maximal adjacent runs: it loses nothing,
every run is non-empty and contiguous, and no two neighbouring runs could be merged. -/
theorem maximalRuns_spec (cs : List ChunkOffset) :
    (maximalRuns cs).flatten = cs ∧
    (∀ r ∈ maximalRuns cs, r ≠ [] ∧ Contiguous r) ∧
    Separated (maximalRuns cs) :=
  Proofs.maximalRuns_spec cs

/-- **C07.** In the absence of transfer failures (every response carries the whole requested
body, in *any* fragmentation), the range requests issued by the HTTP chunk reader for a list of
chunks are exactly the maximal runs of adjacent chunks, in order, one request per run, and
the stream yields exactly the requested chunks. No bound on the number or size of chunks. -/
theorem requests_are_maximal_runs (data : Bytes) (retry : Nat) (chunks : List ChunkOffset)
    (script : List Resp)
    (hsize : ∀ c ∈ chunks, 1 ≤ c.size)
    (hin : ∀ c ∈ chunks, c.stop ≤ data.length)
    (hfull : ∀ r ∈ script, ∃ fr, r = Resp.full fr)
    (hlen : (maximalRuns chunks).length ≤ script.length) :
    httpReadChunks (honest data) retry script chunks =
      ⟨chunks.map (fun c => Item.chunk (slice data c.offset c.size)),
       (maximalRuns chunks).map runRequest⟩ :=
  Proofs.requests_are_maximal_runs data retry chunks script hsize hin hfull hlen

/-- The bounds of the request for a run are the first byte of its first chunk and the last byte
of its last chunk, and that is what the `Range` header says (inclusive end). -/
theorem runRequest_bounds (r : List ChunkOffset) (a b : ChunkOffset)
    (hc : Contiguous r) (hsize : ∀ c ∈ r, 1 ≤ c.size)
    (ha : r.head? = some a) (hb : r.getLast? = some b) :
    (runRequest r).1 = a.offset ∧ (runRequest r).1 + (runRequest r).2 - 1 = b.stop - 1 ∧
    rangeHeader (runRequest r).1 (runRequest r).2 = s!"bytes={a.offset}-{b.stop - 1}" :=
  Proofs.runRequest_bounds r a b hc hsize ha hb

/-! Non-vacuity: a concrete list with two runs (one of two chunks) under a fragmenting server. -/
example :
    let data : Bytes := (List.range 40).map (·.toUInt8)
    let chunks : List ChunkOffset := [⟨3, 4⟩, ⟨7, 2⟩, ⟨20, 5⟩]
    (httpReadChunks (honest data) 0 [.full [1, 2], .full []] chunks).reqs = [(3, 6), (20, 5)] ∧
    maximalRuns chunks = [[⟨3, 4⟩, ⟨7, 2⟩], [⟨20, 5⟩]] := by
  decide +kernel

end Bita.Props.C07
