/-
  C05 — an interrupted clone can always be completed by re-running in place.
  Only property theorems and their non-vacuity examples live here.
-/
import Bita.Proofs.CloneSound
import Bita.Proofs.CloneNoJunk
import Bita.Proofs.Schedule
import Bita.Proofs.StepOrder
import Bita.Proofs.CliRoundtrip

namespace Bita.Props.C05
open Bita Bita.Spec Bita.Proofs

/-- The output as an interruption leaves it: the first `k` writes of a run's write log carried
out, and the first `t` bytes of the next one (a torn write). -/
def crashedFile (prior : Bytes) (writes : List (Nat × Bytes)) (k t : Nat) : Bytes :=
  let f := (writes.take k).foldl (fun d w => writeAt d w.1 w.2) prior
  match writes[k]? with
  | some w => if t = 0 then f else writeAt f w.1 (w.2.take t)
  | none => f

/-- **T1.**  Take *any* clone run (any options, seeds, prior output, even a misbehaving reader)
and interrupt it at *any* point: after any number `k` of its writes, in the middle (`t` bytes)
of the next.  Re-running the clone in place on what was left, with an honest reader over the
archive, completes and yields exactly the source.  The only escape is a collision of the
truncated strong hash with a genuine source chunk; colliding junk chunks in what the crash left
are irrelevant (`Proofs.reorderOps_keep`).  (The in-place theorem holds for every prior content,
so in particular for every crashed content; it is stated here with the crash relation so that
it is not vacuous.) -/
theorem rerun_completes (H : Bytes → Bytes) (hH : ∀ x, (H x).length = 64)
    (decomp : Nat → Bytes → Nat → Option Bytes) (features : List Nat)
    (archive : Bytes) (a : Archive) (src : Bytes) (cks : List Bytes)
    (hinit : tryInit H features (honestReadAt archive) = .ok a) (hd : Describes H a src cks)
    (hs : Stored H decomp a archive)
    -- the interrupted run: anything
    (readChunks₁ : List (Nat × Nat) → List (Option Bytes)) (opts₁ : CloneOpts) (prior seeds₁)
    (k t : Nat)
    -- the re-run: in place, regular file, any further seeds
    (seeds₂ : List Bytes) :
    let run₁ := Clone.run H decomp features (honestReadAt archive) readChunks₁ opts₁ prior seeds₁
    let left := crashedFile prior (writesOf run₁.log) k t
    let r := Clone.run H decomp features (honestReadAt archive) (honestReadChunks archive)
      { seedOutput := true } left seeds₂
    (r.result = .ok ∧ r.output = src) ∨ Collision H a.hashLength cks := by
  intro run₁ left r
  have := clone_complete_nojunk H hH decomp features archive { seedOutput := true } left seeds₂ a src cks hinit hd hs
    (by intro pin hp; cases hp) (by intro h; cases h)
  rcases this with ⟨hok, _, hout⟩ | hc
  · exact Or.inl ⟨hok, hout rfl⟩
  · exact Or.inr hc

/-- **T1 at the command line** (file-system model, open flags read from the source): whatever bytes
`left` an interrupted run - or a chain of them - has left in the output file, `bita clone
--seed-output` of a conforming archive into it, with any seed files that exist, succeeds and
leaves exactly the source there; or a collision with a genuine source chunk is exhibited. -/
theorem cli_rerun_completes (H : Bytes → Bytes) (hH : ∀ x, (H x).length = 64)
    (decomp : Nat → Bytes → Nat → Option Bytes) (kc : CloneCmd) (fs : Fs) (an : Node)
    (a : Archive) (src : Bytes) (cks : List Bytes)
    (harch : fs.get kc.archivePath = some an)
    (hinit : tryInit H [] (honestReadAt an.data) = .ok a) (hd : Describes H a src cks)
    (hs : Stored H decomp a an.data) (hpin : kc.pin = none)
    (hso : kc.flags.seedOutput = true) (left : Bytes) (hleft : fs.get kc.output = some (.regular left))
    (hseeds : ∀ p ∈ kc.seedPaths, (fs.get p).isSome) :
    ((Cli.clone H decomp kc fs).ok = true ∧
        (Cli.clone H decomp kc fs).fs.get kc.output = some (.regular src)) ∨
      Collision H a.hashLength cks :=
  clone_conforming_fs H hH decomp kc fs an a src cks harch hinit hd hs hpin
    (Or.inr ⟨Or.inr hso, left, hleft⟩) (fun p hp => Or.inl (hseeds p hp))

/-- Repeated interruptions: whatever content a chain of interrupted runs leaves, the final
complete in-place run yields the source.  (Each link is `rerun_completes`; the chain is
summarised by "for every content `left`".) -/
theorem rerun_completes_any_content (H : Bytes → Bytes) (hH : ∀ x, (H x).length = 64)
    (decomp : Nat → Bytes → Nat → Option Bytes) (features : List Nat)
    (archive : Bytes) (a : Archive) (src : Bytes) (cks : List Bytes)
    (hinit : tryInit H features (honestReadAt archive) = .ok a) (hd : Describes H a src cks)
    (hs : Stored H decomp a archive) (left : Bytes) (seeds : List Bytes) :
    let r := Clone.run H decomp features (honestReadAt archive) (honestReadChunks archive)
      { seedOutput := true } left seeds
    (r.result = .ok ∧ r.output = src) ∨ Collision H a.hashLength cks := by
  intro r
  have := clone_complete_nojunk H hH decomp features archive { seedOutput := true } left seeds a src cks hinit hd hs
    (by intro pin hp; cases hp) (by intro h; cases h)
  rcases this with ⟨hok, _, hout⟩ | hc
  · exact Or.inl ⟨hok, hout rfl⟩
  · exact Or.inr hc

/-- **T2.**  A run whose write failed never reports success: whichever of the output writes
fails (the tokio file reports a failed background write only at the next write or flush), the
tail of `clone_archive` - with the flush the source has before the resize - ends in an error. -/
theorem failed_write_not_success (f : TFile) (hclean : f.inflight = none ∧ f.lastErr = false)
    (writes : List (Nat × Bytes)) (total : Nat) (k : Nat) (hk : k < writes.length) :
    Gen.cloneOutputFlushedBeforeResize = true ∧
    (cloneTail true (some (f.performed + k)) f writes total).1 = false :=
  ⟨flushes_are_in_the_source.2, Proofs.failed_write_not_success f hclean writes total k hk⟩

/-- ... and with no fault it reports success with every write in the file. -/
theorem no_fault_success (f : TFile) (hclean : f.inflight = none ∧ f.lastErr = false)
    (writes : List (Nat × Bytes)) (total : Nat) :
    cloneTail true none f writes total =
      (true, setLen (writes.foldl (fun d w => writeAt d w.1 w.2) f.data) total) :=
  Proofs.no_fault_success f hclean writes total

/-- The defect T2 rules out (F7), kept as a witness: without the flush, a failing *last* write is
reported as success with an incomplete file. -/
example : cloneTail false (some 1) (TFile.new []) [(0, [1, 2]), (2, [3, 4])] 4 = (true, [1, 2, 0, 0]) := by
  decide

/-! Non-vacuity of T1: a concrete run interrupted in the middle of its second write; the
crashed file differs from both prior and source; the re-run completes. -/
def toyH (x : Bytes) : Bytes := (x ++ List.replicate 64 0).take 64

example :
    let src : Bytes := [1, 2, 3, 4, 5, 6, 7]
    let archive := createArchive toyH "lib" id ⟨.fixed 3, 8, none, []⟩ src
    let run₁ := Clone.run toyH (fun _ b _ => some b) [] (honestReadAt archive) (honestReadChunks archive) {} [9, 9] []
    let left := crashedFile [9, 9] (writesOf run₁.log) 1 2
    left = [1, 2, 3, 4, 5] ∧
    (Clone.run toyH (fun _ b _ => some b) [] (honestReadAt archive) (honestReadChunks archive)
      { seedOutput := true } left []).output = src := by
  decide +kernel

/-- The step order of `clone_archive` that `Clone.run` transcribes (scan the output and reorder in
place *before* any seed is used, fetch last, flush before resize), read from the source on every
run: a reordering of the steps in the code breaks this theorem. -/
theorem clone_steps_as_modelled :
    Gen.cloneStepOrder = ["try_init", "banner", "pin", "open_output", "device_check", "scan_output", "reorder",
                          "seed_stdin", "seed_files", "fetch", "flush", "resize", "verify_output"] :=
  Proofs.clone_step_order_fact

end Bita.Props.C05
