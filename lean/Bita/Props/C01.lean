/-
  C01 — compress then clone reproduces the source byte-for-byte.
  Only property theorems and their non-vacuity examples live here.
-/
import Bita.Proofs.Writer
import Bita.Proofs.CloneSound
import Bita.Proofs.Schedule

namespace Bita.Props.C01
open Bita Bita.Spec Bita.Proofs

/-- **T1.**  For every source (empty, shorter than a window or a minimum chunk, larger than any
buffer - all just values of `src`), every valid configuration, hash length, compression setting
and metadata, for both writers and *any* codec that round-trips (so also when a compressed chunk
is exactly as long as the chunk), the archive produced conforms to the format and describes the
source, recording its true size and checksum - or two different source chunks have the same
full strong hash. -/
theorem compress_conforms (H : Bytes → Bytes) (hH : ∀ x, (H x).length = 64)
    (writer : String) (hw : writer = "lib" ∨ writer = "cli")
    (comp : Bytes → Bytes) (decomp : Nat → Bytes → Nat → Option Bytes) (hcodec : CodecOK comp decomp)
    (hne : ∀ x, x ≠ [] → comp x ≠ [])
    (o : CompressOpts) (ho : OptsOK o) (src : Bytes)
    (hfit : (createArchive H writer comp o src).length < 2 ^ 63)
    (hsrc : src.length < 2 ^ 64) (hcnt : (chunkAll o.cfg src).length ≤ 2 ^ 32) :
    Conforms H decomp [] (createArchive H writer comp o src) src ∨
    (∃ c1 ∈ chunkAll o.cfg src, ∃ c2 ∈ chunkAll o.cfg src,
      slice src c1.1 c1.2 ≠ slice src c2.1 c2.2 ∧ H (slice src c1.1 c1.2) = H (slice src c2.1 c2.2)) :=
  createArchive_conforms H hH writer hw comp decomp hcodec hne o ho src hfit hsrc hcnt

/-- **T2 (round trip).**  Cloning what compress produced - through the local or (by C08) the HTTP
reader, with any seeds, any prior output, in place or not - reports success and yields exactly
the source, with exactly the source's length; or a hash collision is exhibited. -/
theorem roundtrip (H : Bytes → Bytes) (hH : ∀ x, (H x).length = 64)
    (writer : String) (hw : writer = "lib" ∨ writer = "cli")
    (comp : Bytes → Bytes) (decomp : Nat → Bytes → Nat → Option Bytes) (hcodec : CodecOK comp decomp)
    (hne : ∀ x, x ≠ [] → comp x ≠ [])
    (o : CompressOpts) (ho : OptsOK o) (src : Bytes)
    (hfit : (createArchive H writer comp o src).length < 2 ^ 63)
    (hsrc : src.length < 2 ^ 64) (hcnt : (chunkAll o.cfg src).length ≤ 2 ^ 32)
    (opts : CloneOpts) (prior : Bytes) (seeds : List Bytes) (hpin : opts.headerPin = none)
    (hdev : opts.blockDev = false) :
    let archive := createArchive H writer comp o src
    let r := Clone.run H decomp [] (honestReadAt archive) (honestReadChunks archive) opts prior seeds
    (r.result = .ok ∧ r.output = src) ∨
    (∃ c1 ∈ chunkAll o.cfg src, ∃ c2 ∈ chunkAll o.cfg src,
      slice src c1.1 c1.2 ≠ slice src c2.1 c2.2 ∧ H (slice src c1.1 c1.2) = H (slice src c2.1 c2.2)) ∨
    (∃ (a : Archive) (cks : List Bytes), Collision H a.hashLength cks ∧ src = cks.flatten) ∨
    (∃ a : Archive, opts.seedOutput = true ∧ SelfCollision H a.hashLength a.config prior) := by
  intro archive r
  rcases createArchive_conforms H hH writer hw comp decomp hcodec hne o ho src hfit hsrc hcnt with hc | hcol
  · obtain ⟨a, cks, hinit, hd, hs⟩ := hc
    have := clone_complete H hH decomp [] archive opts prior seeds a src cks hinit hd hs
      (by intro pin hp; rw [hpin] at hp; cases hp) (by intro h; rw [hdev] at h; cases h)
      (by intro h; rw [hdev] at h; cases h)
    rcases this with ⟨hok, _, hout⟩ | hcoll | hself
    · exact Or.inl ⟨hok, hout hdev⟩
    · exact Or.inr (Or.inr (Or.inl ⟨a, cks, hcoll, hd.tiles⟩))
    · exact Or.inr (Or.inr (Or.inr ⟨a, hself⟩))
  · exact Or.inr (Or.inl hcol)

/-- **T3a (thread timing).**  Every `spawn_blocking` stage of the pipelines is followed by
`buffered` (read from the source), and `buffered(n)` emits its inputs in order under *every*
completion schedule - so the result of the pipeline is the one of the sequential model. -/
theorem stages_preserve_order {α : Type} (n : Nat) (xs : List α) (sched : List SchedEv) :
    (∀ c ∈ Gen.libCompressCombinators ++ Gen.cliCompressCombinators ++ Gen.cloneSeedCombinators ++
        Gen.cloneArchiveCombinators ++ Gen.cloneScanCombinators, c = "buffered") ∧
    (let s := stageRun "buffered" n xs sched
     s.out ++ s.inflight.map (·.1) ++ s.input = xs ∧ (s.inflight = [] → s.input = [] → s.out = xs)) :=
  ⟨pipelines_use_buffered.1, buffered_preserves_order n xs sched, buffered_complete n xs sched⟩

/-- **T3b (I/O timing).**  In the CLI writer the temp file that is copied after the header holds
all stored chunks whatever the timing of the last background write, because the source flushes
it before returning (F4 repair; `Gen.cliTempFlushedBeforeReturn`). -/
theorem temp_file_complete (late : Bool) (chunks : List Bytes) :
    Gen.cliTempFlushedBeforeReturn = true ∧ tempFileSeen true late chunks = chunks.flatten :=
  ⟨flushes_are_in_the_source.1, Proofs.temp_file_complete late chunks⟩

/-- The defect this rules out, kept as a witness: without the flush a late last write leaves the
archive truncated. -/
example : tempFileSeen false true [[1, 2], [3]] = [1, 2] := by decide

/-! Non-vacuity: round trips of the empty source, a one-byte source and a source with duplicate
chunks under a toy hash, both writers. -/
def toyH (x : Bytes) : Bytes := (x ++ List.replicate 64 0).take 64

example :
    (∀ w ∈ ["lib", "cli"], ∀ src ∈ ([[], [5], [1, 2, 3, 1, 2, 3, 9]] : List Bytes),
      let archive := createArchive toyH w id ⟨.fixed 3, 8, none, []⟩ src
      (Clone.run toyH (fun _ b _ => some b) [] (honestReadAt archive) (honestReadChunks archive) {} [] []).result = .ok ∧
      (Clone.run toyH (fun _ b _ => some b) [] (honestReadAt archive) (honestReadChunks archive) {} [] []).output = src) := by
  decide +kernel

end Bita.Props.C01
