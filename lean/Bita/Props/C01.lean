/-
  C01 — compress then clone reproduces the source byte-for-byte.
  Only property theorems and their non-vacuity examples live here.
-/
import Bita.Proofs.Writer
import Bita.Proofs.CloneSound
import Bita.Proofs.CloneNoJunk
import Bita.Proofs.Schedule
import Bita.Proofs.CliRoundtrip
import Bita.Proofs.CliRoundtripExamples
import Bita.Proofs.ReaderEnv
import Bita.Proofs.Options
import Bita.Proofs.OptionsCompose

namespace Bita.Props.C01
open Bita Bita.Spec Bita.Proofs

/-- **T1.**  For every source (empty, shorter than a window or a minimum chunk, larger than any
buffer - all just values of `src`), every valid configuration, hash length, compression setting
and metadata, for both writers and *any* codec that round-trips (so also when a compressed chunk
is exactly as long as the chunk), the archive produced conforms to the format and describes the
source, recording its true size and checksum - or two different source chunks have the same
full strong hash. -/
theorem compress_conforms (H : Bytes → Bytes) (hH : ∀ x, (H x).length = 64)
    (writer : String) (hw : writer = "lib" ∨ writer = "cli")
    (comp : Bytes → Bytes) (decomp : Nat → Bytes → Nat → Option Bytes) (hcodec : CodecOK comp decomp)
    (hne : ∀ x, x ≠ [] → comp x ≠ [])
    (o : CompressOpts) (ho : OptsOK o) (src : Bytes)
    (hfit : (createArchive H writer comp o src).length < 2 ^ 63)
    (hsrc : src.length < 2 ^ 64) (hcnt : (chunkAll o.cfg src).length ≤ 2 ^ 32) :
    Conforms H decomp [] (createArchive H writer comp o src) src ∨
    (∃ c1 ∈ chunkAll o.cfg src, ∃ c2 ∈ chunkAll o.cfg src,
      slice src c1.1 c1.2 ≠ slice src c2.1 c2.2 ∧ H (slice src c1.1 c1.2) = H (slice src c2.1 c2.2)) :=
  createArchive_conforms H hH writer hw comp decomp hcodec hne o ho src hfit hsrc hcnt

/-- **T2 (round trip).**  Cloning what compress produced - through the local or (by C08) the HTTP
reader, with any seeds, any prior output, in place or not - reports success and yields exactly
the source, with exactly the source's length; or a hash collision is exhibited.  The only
escape on the clone side is a collision of the truncated strong hash with a genuine source
chunk; colliding junk chunks in the prior output are irrelevant (`Proofs.reorderOps_keep`). -/
theorem roundtrip (H : Bytes → Bytes) (hH : ∀ x, (H x).length = 64)
    (writer : String) (hw : writer = "lib" ∨ writer = "cli")
    (comp : Bytes → Bytes) (decomp : Nat → Bytes → Nat → Option Bytes) (hcodec : CodecOK comp decomp)
    (hne : ∀ x, x ≠ [] → comp x ≠ [])
    (o : CompressOpts) (ho : OptsOK o) (src : Bytes)
    (hfit : (createArchive H writer comp o src).length < 2 ^ 63)
    (hsrc : src.length < 2 ^ 64) (hcnt : (chunkAll o.cfg src).length ≤ 2 ^ 32)
    (opts : CloneOpts) (prior : Bytes) (seeds : List Bytes) (hpin : opts.headerPin = none)
    (hdev : opts.blockDev = false) :
    let archive := createArchive H writer comp o src
    let r := Clone.run H decomp [] (honestReadAt archive) (honestReadChunks archive) opts prior seeds
    (r.result = .ok ∧ r.output = src) ∨
    (∃ c1 ∈ chunkAll o.cfg src, ∃ c2 ∈ chunkAll o.cfg src,
      slice src c1.1 c1.2 ≠ slice src c2.1 c2.2 ∧ H (slice src c1.1 c1.2) = H (slice src c2.1 c2.2)) ∨
    (∃ (a : Archive) (cks : List Bytes), Collision H a.hashLength cks ∧ src = cks.flatten) := by
  intro archive r
  rcases createArchive_conforms H hH writer hw comp decomp hcodec hne o ho src hfit hsrc hcnt with hc | hcol
  · obtain ⟨a, cks, hinit, hd, hs⟩ := hc
    have := clone_complete_nojunk H hH decomp [] archive opts prior seeds a src cks hinit hd hs
      (by intro pin hp; rw [hpin] at hp; cases hp) (by intro h; rw [hdev] at h; cases h)
    rcases this with ⟨hok, _, hout⟩ | hcoll
    · exact Or.inl ⟨hok, hout hdev⟩
    · exact Or.inr (Or.inr ⟨a, cks, hcoll, hd.tiles⟩)
  · exact Or.inr (Or.inl hcol)

/-- **T2 at the command line** (file-system model of `bita compress` / `bita clone`, open flags and
step order read from the source): in any file system where the input exists and the archive and
temp paths do not, `compress` succeeds; `clone` of the archive it left - into a path that does
not exist, or over a regular file with `--force-create` / `--seed-output`, with any seed files
that exist, any options - succeeds, leaves exactly the source in the output and changes no other
path; or a hash collision among the chunks of the source is exhibited (chunks of an existing
output that collide with no source chunk are irrelevant). -/
theorem cli_roundtrip (H : Bytes → Bytes) (hH : ∀ x, (H x).length = 64)
    (comp : Bytes → Bytes) (decomp : Nat → Bytes → Nat → Option Bytes) (hcodec : CodecOK comp decomp)
    (hne : ∀ x, x ≠ [] → comp x ≠ [])
    (cc : CompressCmd) (kc : CloneCmd) (fs : Fs) (inode : Node)
    (hfacts : FactsAsExpected) (hflush : Gen.cliTempFlushedBeforeReturn = true)
    (ho : OptsOK cc.opts)
    (hin : fs.get cc.input = some inode)
    (hnew : fs.get cc.output = none) (htmp : fs.get cc.temp = none)
    (hdistinct : cc.temp ≠ cc.output ∧ cc.input ≠ cc.output ∧ cc.input ≠ cc.temp)
    (hfit : (createArchive H "cli" comp cc.opts inode.data).length < 2 ^ 63)
    (hsrc : inode.data.length < 2 ^ 64) (hcnt : (chunkAll cc.opts.cfg inode.data).length ≤ 2 ^ 32)
    (harch : kc.archivePath = cc.output) (hko : kc.output ≠ cc.output)
    (hout : fs.get kc.output = none ∨
      ((kc.flags.force = true ∨ kc.flags.seedOutput = true) ∧ ∃ d, fs.get kc.output = some (.regular d)))
    (hpin : kc.pin = none)
    (hseeds : ∀ p ∈ kc.seedPaths, (fs.get p).isSome ∨ p = cc.output) :
    let r1 := Cli.compress H comp cc fs
    let r2 := Cli.clone H decomp kc r1.fs
    r1.ok = true ∧
    ((r2.ok = true ∧ r2.fs.get kc.output = some (.regular inode.data) ∧
        (∀ p, p ≠ kc.output → p ≠ cc.output → r2.fs.get p = fs.get p)) ∨
      (∃ c1 ∈ chunkAll cc.opts.cfg inode.data, ∃ c2 ∈ chunkAll cc.opts.cfg inode.data,
        slice inode.data c1.1 c1.2 ≠ slice inode.data c2.1 c2.2 ∧
        H (slice inode.data c1.1 c1.2) = H (slice inode.data c2.1 c2.2)) ∨
      (∃ (a : Archive) (cks : List Bytes), Collision H a.hashLength cks ∧ inode.data = cks.flatten)) :=
  Proofs.cli_roundtrip H hH comp decomp hcodec hne cc kc fs inode hfacts hflush ho hin hnew htmp hdistinct
    hfit hsrc hcnt harch hko hout hpin hseeds

/-- **T2 over HTTP.**  What compress produced, behind an honest server and the model of
`HttpReader` with at most `--http-retry-count` failing responses (refused or cut anywhere, any
fragmentation), clones to exactly the source - or a hash collision among the chunks of the
source is exhibited. -/
theorem roundtrip_over_http (H : Bytes → Bytes) (hH : ∀ x, (H x).length = 64)
    (writer : String) (hw : writer = "lib" ∨ writer = "cli")
    (comp : Bytes → Bytes) (decomp : Nat → Bytes → Nat → Option Bytes) (hcodec : CodecOK comp decomp)
    (hne : ∀ x, x ≠ [] → comp x ≠ [])
    (o : CompressOpts) (ho : OptsOK o) (src : Bytes)
    (hfit : (createArchive H writer comp o src).length < 2 ^ 63)
    (hsrc : src.length < 2 ^ 64) (hcnt : (chunkAll o.cfg src).length ≤ 2 ^ 32)
    (e : HttpEnv) (opts : CloneOpts) (prior : Bytes) (seeds : List Bytes) (hpin : opts.headerPin = none)
    (hdev : opts.blockDev = false)
    (hserve : e.serve = honestServe (createArchive H writer comp o src))
    (hat : ∀ off size, ∃ frags rest, e.atScript off size = Resp.full frags :: rest)
    (hbad : (e.chunksScript.filter (fun r => match r with | .full _ => false | .part _ _ cut => cut | .refuse => true)).length ≤ e.retry)
    (hnoend : ∀ r ∈ e.chunksScript, ∀ n frags, r ≠ Resp.part n frags false)
    :
    (∃ a, tryInit H [] (honestReadAt (createArchive H writer comp o src)) = .ok a ∧
      (a.chunks.length ≤ (e.chunksScript.filter (fun r => match r with | .full _ => true | _ => false)).length →
        let r := Clone.run H decomp [] e.readAt e.readChunks opts prior seeds
        (r.result = .ok ∧ r.output = src) ∨
        (∃ cks : List Bytes, Collision H a.hashLength cks ∧ src = cks.flatten))) ∨
    (∃ c1 ∈ chunkAll o.cfg src, ∃ c2 ∈ chunkAll o.cfg src,
      slice src c1.1 c1.2 ≠ slice src c2.1 c2.2 ∧ H (slice src c1.1 c1.2) = H (slice src c2.1 c2.2)) := by
  rcases createArchive_conforms H hH writer hw comp decomp hcodec hne o ho src hfit hsrc hcnt with hc | hcol
  · obtain ⟨a, cks, hinit, hd, hs⟩ := hc
    refine Or.inl ⟨a, hinit, fun hlen => ?_⟩
    have := clone_http_complete_budget H hH decomp [] _ e opts prior seeds a src cks hserve hat hinit hd hs
      (by intro pin hp; rw [hpin] at hp; cases hp) (by intro h; rw [hdev] at h; cases h)
      hbad hnoend hlen
    rcases this with ⟨hok, _, hout⟩ | hcoll
    · exact Or.inl ⟨hok, hout hdev⟩
    · exact Or.inr ⟨cks, hcoll, hd.tiles⟩
  · exact Or.inr hcol

/-- **T3a (thread timing).**  Every `spawn_blocking` stage of the pipelines is followed by
`buffered` (read from the source), and `buffered(n)` emits its inputs in order under *every*
completion schedule - so the result of the pipeline is the one of the sequential model. -/
theorem stages_preserve_order {α : Type} (n : Nat) (xs : List α) (sched : List SchedEv) :
    (∀ c ∈ Gen.libCompressCombinators ++ Gen.cliCompressCombinators ++ Gen.cloneSeedCombinators ++
        Gen.cloneArchiveCombinators ++ Gen.cloneScanCombinators, c = "buffered") ∧
    (let s := stageRun "buffered" n xs sched
     s.out ++ s.inflight.map (·.1) ++ s.input = xs ∧ (s.inflight = [] → s.input = [] → s.out = xs)) :=
  ⟨pipelines_use_buffered.1, buffered_preserves_order n xs sched, buffered_complete n xs sched⟩

/-- **T3b (I/O timing).**  In the CLI writer the temp file that is copied after the header holds
all stored chunks whatever the timing of the last background write, because the source flushes
it before returning (F4 repair; `Gen.cliTempFlushedBeforeReturn`). -/
theorem temp_file_complete (late : Bool) (chunks : List Bytes) :
    Gen.cliTempFlushedBeforeReturn = true ∧ tempFileSeen true late chunks = chunks.flatten :=
  ⟨flushes_are_in_the_source.1, Proofs.temp_file_complete late chunks⟩

/-- The defect this rules out, kept as a witness: without the flush a late last write leaves the
archive truncated. -/
example : tempFileSeen false true [[1, 2], [3]] = [1, 2] := by decide

/-! Non-vacuity: round trips of the empty source, a one-byte source and a source with duplicate
chunks under a toy hash, both writers. -/
def toyH (x : Bytes) : Bytes := (x ++ List.replicate 64 0).take 64

example :
    (∀ w ∈ ["lib", "cli"], ∀ src ∈ ([[], [5], [1, 2, 3, 1, 2, 3, 9]] : List Bytes),
      let archive := createArchive toyH w id ⟨.fixed 3, 8, none, []⟩ src
      (Clone.run toyH (fun _ b _ => some b) [] (honestReadAt archive) (honestReadChunks archive) {} [] []).result = .ok ∧
      (Clone.run toyH (fun _ b _ => some b) [] (honestReadAt archive) (honestReadChunks archive) {} [] []).output = src) := by
  decide +kernel

/-- The library writer flushes its temp file before reading it back (read from api/compress.rs on
every run; F16 repair), as the command line writer does (`Gen.cliTempFlushedBeforeReturn`). -/
theorem lib_temp_file_flushed_fact : Gen.libTempFlushedBeforeRewind = true := by decide


/-- **"Any valid parameters", from the command line.**  The hypothesis `OptsOK` of the theorems above
is not a wish: for every `bita compress` command line that the option parser (src/cli.rs, modelled
in `Bita.Model.Options` and tied by the in-process suite `l1 opts`) accepts, it holds iff the
configuration is outside an exactly characterised misuse set (zero window, BuzHash window above the
maximum chunk size, a target average of 2 or 3, fixed size 0 - none of which any chunker can run). -/
theorem cli_accepted_options_are_valid (a : Options.CompressArgs) (p : Options.CompressParsed)
    (h : Options.parseCompress a = .ok p) :
    OptsOK p.cmd.opts ↔ Proofs.NotMisuse p.cmd.opts.cfg :=
  Proofs.cli_options_ok_iff a p h

/-- **T2 from the command-line texts.**  `bita compress <options> -i IN ARCHIVE` followed by
`bita clone <options> ARCHIVE OUT`, for every pair of command lines the option parser accepts
(`Options.parseCompress` / `Options.parseClone`, the model of src/cli.rs) with a configuration outside
the misuse set and no `--verify-header`: in any file system where IN exists and ARCHIVE and its temp
path do not, compress succeeds, and the clone - into a new path, or over a regular file with
`--force-create` / `--seed-output`, with any `--seed` files that exist - succeeds and leaves exactly
IN's bytes in OUT, every other path as it was; or a hash collision is exhibited.  `OptsOK`, the temp
path, the flags and the seed list are no longer hypotheses: they are what the texts parse to. -/
theorem cli_roundtrip_from_the_command_line (H : Bytes → Bytes) (hH : ∀ x, (H x).length = 64)
    (comp : Bytes → Bytes) (decomp : Nat → Bytes → Nat → Option Bytes) (hcodec : CodecOK comp decomp)
    (hne : ∀ x, x ≠ [] → comp x ≠ [])
    (ca : Options.CompressArgs) (pc : Options.CompressParsed) (hpc : Options.parseCompress ca = .ok pc)
    (hm : Proofs.NotMisuse pc.cmd.opts.cfg) (inp : String) (hinp : ca.input = some inp)
    (ka : Options.CloneArgs) (pk : Options.CloneParsed) (hpk : Options.parseClone ka = .ok pk)
    (harch : ka.archive = ca.output) (hnopin : ka.verifyHeader = none)
    (fs : Fs) (inode : Node) (hfacts : FactsAsExpected) (hflush : Gen.cliTempFlushedBeforeReturn = true)
    (hin : fs.get inp = some inode)
    (hnew : fs.get ca.output = none) (htmp : fs.get (tempPathOf ca.output) = none)
    (hdistinct : tempPathOf ca.output ≠ ca.output ∧ inp ≠ ca.output ∧ inp ≠ tempPathOf ca.output)
    (hfit : (createArchive H "cli" comp pc.cmd.opts inode.data).length < 2 ^ 63)
    (hsrc : inode.data.length < 2 ^ 64) (hcnt : (chunkAll pc.cmd.opts.cfg inode.data).length ≤ 2 ^ 32)
    (hko : ka.output ≠ ca.output)
    (hout : fs.get ka.output = none ∨
      ((ka.force = true ∨ ka.seedOutput = true) ∧ ∃ d, fs.get ka.output = some (.regular d)))
    (hseeds : ∀ p ∈ ka.seeds, p ≠ "-" → (fs.get p).isSome ∨ p = ca.output) :
    let r1 := Cli.compress H comp pc.cmd fs
    let r2 := Cli.clone H decomp pk.cmd r1.fs
    r1.ok = true ∧
    ((r2.ok = true ∧ r2.fs.get ka.output = some (.regular inode.data) ∧
        (∀ p, p ≠ ka.output → p ≠ ca.output → r2.fs.get p = fs.get p)) ∨
      (∃ c1 ∈ chunkAll pc.cmd.opts.cfg inode.data, ∃ c2 ∈ chunkAll pc.cmd.opts.cfg inode.data,
        slice inode.data c1.1 c1.2 ≠ slice inode.data c2.1 c2.2 ∧
        H (slice inode.data c1.1 c1.2) = H (slice inode.data c2.1 c2.2)) ∨
      (∃ (a : Archive) (cks : List Bytes), Collision H a.hashLength cks ∧ inode.data = cks.flatten)) := by
  obtain ⟨hco, hct, _⟩ := Proofs.parseCompress_ok ca pc hpc
  have hci : pc.cmd.input = inp := by rw [Proofs.parseCompress_input ca pc hpc, hinp]; rfl
  obtain ⟨hkout, hkarch, hkfl, hkseeds, _, hkpin, _⟩ := Proofs.parseClone_ok ka pk hpk
  have ho : OptsOK pc.cmd.opts := (Proofs.cli_options_ok_iff ca pc hpc).2 hm
  have hfl : pk.cmd.flags.force = ka.force ∧ pk.cmd.flags.seedOutput = ka.seedOutput := by rw [hkfl]; exact ⟨rfl, rfl⟩
  have := Proofs.cli_roundtrip H hH comp decomp hcodec hne pc.cmd pk.cmd fs inode hfacts hflush ho
    (by rw [hci]; exact hin) (by rw [hco]; exact hnew) (by rw [hct]; exact htmp)
    (by rw [hct, hco, hci]; exact hdistinct) hfit hsrc hcnt
    (by rw [hkarch, hco]; exact harch) (by rw [hkout, hco]; exact hko)
    (by rw [hkout, hfl.1, hfl.2]; exact hout) (hkpin hnopin)
    (by
      intro p hp
      rw [hkseeds] at hp
      have hp' := List.mem_filter.1 hp
      have hne' : p ≠ "-" := by simpa using hp'.2
      rw [hco]
      exact hseeds p hp'.1 hne')
  rw [hkout, hco] at this
  exact this

end Bita.Props.C01
