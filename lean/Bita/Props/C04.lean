/-
  C04 — corrupted or tampered data never yields a successful wrong clone.
  Only property theorems and their non-vacuity examples live here.
-/
import Bita.Proofs.CloneSound
import Bita.Proofs.CloneNoJunk
import Bita.Proofs.TryInit
import Bita.Proofs.ReaderEnv
import Bita.Proofs.StepOrder
import Bita.Proofs.OptionsCompose

namespace Bita.Props.C04
open Bita Bita.Spec

/-- **C04 T1 (payload / server).**  The header that was opened is genuine (it describes `src`);
the chunk reader may return *arbitrary* bytes for every chunk request - any bit flips,
truncations, swapped payloads, trailing garbage, error pages of the right length, short bodies
(an error item) -, the codec may do anything, seeds and prior output are arbitrary.  Then clone
either fails or produces exactly the source.  The only escape is a collision of the truncated
strong hash with a genuine source chunk; colliding junk chunks in the prior output are
irrelevant (`Proofs.reorderOps_keep`). -/
theorem clone_sound_against_any_reader (H : Bytes → Bytes) (hH : ∀ x, (H x).length = 64)
    (decomp : Nat → Bytes → Nat → Option Bytes) (features : List Nat)
    (readAt : Nat → Nat → Option Bytes) (readChunks : List (Nat × Nat) → List (Option Bytes))
    (opts : CloneOpts) (prior : Bytes) (seeds : List Bytes)
    (a : Archive) (src : Bytes) (cks : List Bytes)
    (hinit : tryInit H features readAt = .ok a) (hd : Describes H a src cks)
    (hitems : ∀ ranges, (readChunks ranges).length = ranges.length) :
    let r := Clone.run H decomp features readAt readChunks opts prior seeds
    r.result = .ok →
      (setLen r.output src.length = src ∧ (opts.blockDev = false → r.output = src)) ∨
      Collision H a.hashLength cks :=
  Proofs.clone_sound_nojunk H hH decomp features readAt readChunks opts prior seeds a src cks hinit hd hitems

/-- **T1 over HTTP.**  The same with the reader instantiated by the model of `HttpReader`: *any*
server behaviour (any bytes of any length for any range), any transport failures, any retry
budget.  A clone that reports success has produced the source, or a collision of the truncated
strong hash with a genuine source chunk is exhibited. -/
theorem clone_sound_against_any_server (H : Bytes → Bytes) (hH : ∀ x, (H x).length = 64)
    (decomp : Nat → Bytes → Nat → Option Bytes) (features : List Nat) (e : HttpEnv)
    (opts : CloneOpts) (prior : Bytes) (seeds : List Bytes)
    (a : Archive) (src : Bytes) (cks : List Bytes)
    (hinit : tryInit H features e.readAt = .ok a) (hd : Describes H a src cks) :
    let r := Clone.run H decomp features e.readAt e.readChunks opts prior seeds
    r.result = .ok →
      (setLen r.output src.length = src ∧ (opts.blockDev = false → r.output = src)) ∨
      Collision H a.hashLength cks :=
  Proofs.clone_http_sound H hH decomp features e opts prior seeds a src cks hinit hd

/-- **C04 T2 (header).**  Whatever bytes are presented, if they open, the 64 bytes found where
their own size field says the checksum lies are the strong hash of everything before them. -/
theorem opened_header_is_self_consistent (H : Bytes → Bytes) (features : List Nat) (bytes : Bytes) (a : Archive)
    (h : tryInit H features (honestReadAt bytes) = .ok a) :
    ∃ dictSize, dictSize = fromLe ((bytes.drop magicBytes.length).take 8) ∧
      a.headerSize = Gen.preHeaderSize + dictSize + 72 ∧ a.headerSize ≤ bytes.length ∧
      a.headerChecksum = (bytes.drop (Gen.preHeaderSize + dictSize + 8)).take 64 ∧
      a.headerChecksum = H (bytes.take (Gen.preHeaderSize + dictSize + 8)) :=
  Proofs.tryInit_checksum H features bytes a h

/-- An alteration of a genuine archive that keeps the size field and still opens has left the
whole header region unchanged - or exhibits a collision of the header hash - or has also
replaced the checksum by the hash of the altered header.  (The checksum is a hash, not a MAC:
the last case is what `--verify-header` excludes.)  In particular a change confined to the
magic, the dictionary or the offset field is rejected or is a collision, and a change confined
to the checksum field is rejected. -/
theorem header_tamper (H : Bytes → Bytes) (features : List Nat) (b b' : Bytes) (a a' : Archive)
    (h : tryInit H features (honestReadAt b) = .ok a)
    (h' : tryInit H features (honestReadAt b') = .ok a')
    (hsize : (b'.drop magicBytes.length).take 8 = (b.drop magicBytes.length).take 8) :
    b'.take a.headerSize = b.take a.headerSize ∨
    (∃ p p', p ≠ p' ∧ H p = H p') ∨
    a'.headerChecksum ≠ a.headerChecksum :=
  Proofs.header_tamper H features b b' a a' h h' hsize

/-- **C04 T3 (pin).**  With an expected header checksum, clone proceeds past the pin only if the
archive's header checksum equals it as a byte string; otherwise it fails, writes nothing and
reads nothing but the header. -/
theorem pin_mismatch_refused (H : Bytes → Bytes) (decomp : Nat → Bytes → Nat → Option Bytes) (features : List Nat)
    (readAt : Nat → Nat → Option Bytes) (readChunks : List (Nat × Nat) → List (Option Bytes))
    (opts : CloneOpts) (prior : Bytes) (seeds : List Bytes) (a : Archive) (pin : Bytes)
    (hinit : tryInit H features readAt = .ok a) (hp : opts.headerPin = some pin)
    (hne : pin ≠ a.headerChecksum) :
    let r := Clone.run H decomp features readAt readChunks opts prior seeds
    r.result ≠ .ok ∧ r.output = prior ∧ r.log = [] ∧
      ∀ q ∈ r.requests, ∃ o s, q = ArchReq.readAt o s :=
  Proofs.clone_pin H decomp features readAt readChunks opts prior seeds a pin hinit hp hne

/-- ... and an archive that opens and carries the pinned checksum has the genuine header region
(or a collision of the header hash is exhibited). -/
theorem pinned_header_is_genuine (H : Bytes → Bytes) (features : List Nat) (b b' : Bytes) (a a' : Archive)
    (h : tryInit H features (honestReadAt b) = .ok a)
    (h' : tryInit H features (honestReadAt b') = .ok a')
    (hpin : a'.headerChecksum = a.headerChecksum) (hH : ∀ x, (H x).length = 64) :
    b'.take a'.headerSize = b.take a.headerSize ∨ (∃ p p', p ≠ p' ∧ H p = H p') :=
  Proofs.header_pin_sound H features b b' a a' h h' hpin hH

/-- The pin comparison in the source is on complete byte strings (F6 repair). -/
theorem pin_compares_full_bytes_fact : Gen.pinComparesFullBytes = true := by decide

/-- **C04 T4 (`--verify-output`).**  Success implies that the first `source_total_size` bytes of the
output hash to the recorded checksum.  Since the F17 repair (`Gen.verifyHashesSourceSizeOnly`)
`--verify-output` hashes the first source-size bytes only: for a regular file that is the whole
output (`verify_output_sound_file`); on a block device longer than the source the statement is about
that prefix - the rest of the device is not the clone's business (before the repair the whole device
was hashed and verification always failed there). -/
theorem verify_output_sound (H : Bytes → Bytes) (decomp : Nat → Bytes → Nat → Option Bytes)
    (features : List Nat)
    (readAt : Nat → Nat → Option Bytes) (readChunks : List (Nat × Nat) → List (Option Bytes))
    (opts : CloneOpts) (prior : Bytes) (seeds : List Bytes) (a : Archive)
    (hinit : tryInit H features readAt = .ok a) (hv : opts.verifyOutput = true) :
    let r := Clone.run H decomp features readAt readChunks opts prior seeds
    r.result = .ok →
      hashTruncate (H (r.output.take a.sourceTotalSize)) a.sourceChecksum.length = a.sourceChecksum :=
  Proofs.clone_verify_output H decomp features readAt readChunks opts prior seeds a hinit hv

/-- ... and when the output is a regular file (which the clone cuts to the source size), the whole
output hashes to the recorded checksum. -/
theorem verify_output_sound_file (H : Bytes → Bytes) (decomp : Nat → Bytes → Nat → Option Bytes)
    (features : List Nat)
    (readAt : Nat → Nat → Option Bytes) (readChunks : List (Nat × Nat) → List (Option Bytes))
    (opts : CloneOpts) (prior : Bytes) (seeds : List Bytes) (a : Archive)
    (hinit : tryInit H features readAt = .ok a) (hv : opts.verifyOutput = true)
    (hb : opts.blockDev = false) :
    let r := Clone.run H decomp features readAt readChunks opts prior seeds
    r.result = .ok → hashTruncate (H r.output) a.sourceChecksum.length = a.sourceChecksum :=
  Proofs.clone_verify_output_file H decomp features readAt readChunks opts prior seeds a hinit hv hb

/-- An archive that does not open leaves the output untouched. -/
theorem unopened_archive_untouched (H : Bytes → Bytes) (decomp : Nat → Bytes → Nat → Option Bytes)
    (features : List Nat)
    (readAt : Nat → Nat → Option Bytes) (readChunks : List (Nat × Nat) → List (Option Bytes))
    (opts : CloneOpts) (prior : Bytes) (seeds : List Bytes)
    (hinit : ∀ a, tryInit H features readAt ≠ .ok a) :
    let r := Clone.run H decomp features readAt readChunks opts prior seeds
    r.result ≠ .ok ∧ r.output = prior ∧ r.log = [] :=
  Proofs.clone_refused_untouched H decomp features readAt readChunks opts prior seeds hinit

/-! Non-vacuity: a genuine archive whose second stored chunk is served with one byte flipped: the
clone fails; served correctly it succeeds. -/
def toyH (x : Bytes) : Bytes := (x ++ List.replicate 64 0).take 64

example :
    let src : Bytes := [1, 2, 3, 4, 5, 6, 7]
    let archive := createArchive toyH "lib" id ⟨.fixed 3, 8, none, []⟩ src
    let bad := fun (rs : List (Nat × Nat)) => (honestReadChunks archive rs).mapIdx fun i it =>
      if i = 1 then it.map (fun b => b.set 0 99) else it
    (Clone.run toyH (fun _ b _ => some b) [] (honestReadAt archive) bad {} [] []).result ≠ .ok ∧
    (Clone.run toyH (fun _ b _ => some b) [] (honestReadAt archive) (honestReadChunks archive) {} [] []).result = .ok := by
  decide +kernel

/-- The step order of `clone_archive` that `Clone.run` transcribes (scan the output and reorder in
place *before* any seed is used, fetch last, flush before resize), read from the source on every
run: a reordering of the steps in the code breaks this theorem. -/
theorem clone_steps_as_modelled :
    Gen.cloneStepOrder = ["try_init", "banner", "pin", "open_output", "device_check", "scan_output", "reorder",
                          "seed_stdin", "seed_files", "fetch", "flush", "resize", "verify_output"] :=
  Proofs.clone_step_order_fact

/-- The option parser refuses a `--verify-header` value longer than a checksum (read from cli.rs on
every run; F15 repair): what reaches the comparison is the value that was typed, not its first
64 bytes. -/
theorem pin_length_checked_fact : Gen.pinLengthChecked = true := by decide


/-! ### The `--verify-header` option from its text (src/cli.rs `parse_hash_sum`, src/string_utils.rs
`hex_str_to_vec`, modelled in `Bita.Model.Options`, tied by the in-process suite `l1 opts`) -/

/-- **C04 T3 from the text.**  A clone that gets past the pin with the bytes the option text parsed
to was given a text that denotes, pair by pair, exactly the archive's header checksum: no
abbreviation, no extension, nothing dropped by the parser (F6 and F15 violated this sentence). -/
theorem verify_header_text_gate (H : Bytes → Bytes) (decomp : Nat → Bytes → Nat → Option Bytes) (features : List Nat)
    (readAt : Nat → Nat → Option Bytes) (readChunks : List (Nat × Nat) → List (Option Bytes))
    (opts : CloneOpts) (prior : Bytes) (seeds : List Bytes) (a : Archive) (text pin : Bytes)
    (hinit : tryInit H features readAt = .ok a)
    (hparse : Options.parseHashSum text = .ok pin) (hp : opts.headerPin = some pin)
    (hok : (Clone.run H decomp features readAt readChunks opts prior seeds).result = .ok) :
    pin = a.headerChecksum ∧ 2 * a.headerChecksum.length = (Proofs.padded text).length ∧
    ∀ i (hi : i < pin.length), ∃ x y, (Proofs.padded text)[2 * i]? = some x ∧
      (Proofs.padded text)[2 * i + 1]? = some y ∧ Options.parseHexPair x y = some pin[i] :=
  Proofs.verify_header_text_gate H decomp features readAt readChunks opts prior seeds a text pin hinit hparse hp hok

/-- ... and the other direction: the hexadecimal text of a checksum (what `bita info` prints) is
accepted and parses to that checksum, so a correct pin is never refused by the parser. -/
theorem verify_header_hex_accepted (b : Bytes) (h : b.length ≤ Gen.hashMaxLen) :
    Options.parseHashSum (Proofs.hexText b) = .ok b :=
  Proofs.parseHashSum_hexText b h

/-- What one pair of characters of the text can denote (two hex digits of either case, or `+` and
one hex digit - `u8::from_str_radix` takes a sign). -/
theorem verify_header_pair_denotes (a b v : UInt8) (h : Options.parseHexPair a b = some v) :
    (a = 43 ∧ ∃ y, Options.hexDigitVal b = some y ∧ v.toNat = y) ∨
    (∃ x y, Options.hexDigitVal a = some x ∧ Options.hexDigitVal b = some y ∧ v.toNat = 16 * x + y) :=
  Proofs.parseHexPair_denotes a b v h

-- non-vacuity: an odd-length text with mixed case and a signed pair; an over-long text; a text that
-- is not ASCII (the slice panics before the parse error of the same pair is reached)
example : Options.parseHashSum [97, 48, 66, 43, 99] = .ok [0x0a, 0x0b, 0x0c] := by decide +kernel   -- "a0B+c"
example : Options.parseHashSum (List.replicate 130 48) = .refused := by decide +kernel
example : Options.parseHashSum [48, 0xC3, 0xA9, 97] = .panic := by decide +kernel

end Bita.Props.C04
