/-
  C16 — clone writes no file but the output; compress leaves only the archive.
  Only property theorems and their non-vacuity examples live here.

  The statement about the real process is an observation (strace of every open / creat / unlink /
  rename / truncate in every mode, directory listings before and after) - for this property the
  observation *is* the tie; the theorems add that no mode was forgotten in the model and that
  the facts read from the source are the expected ones.
-/
import Bita.Proofs.CliFs

namespace Bita.Props.C16
open Bita Bita.Gen Bita.Proofs

/-- Seeds and archive are opened with `File::open`, clone_cmd.rs contains no remove / rename /
create-dir / copy call, and the steps are in the order the model assumes. -/
theorem facts_as_expected : FactsAsExpected := by unfold FactsAsExpected; decide

/-- **T1.**  For every mode (any flags, pin, seeds, archive, prior file system): every
file-system operation of a clone is a read-only open or concerns the output path, and nothing
is removed. -/
theorem clone_ops_confined (H : Bytes → Bytes) (decomp : Nat → Bytes → Nat → Option Bytes)
    (c : CloneCmd) (fs : Fs) :
    ∀ op ∈ (Cli.clone H decomp c fs).ops,
      (FsOp.isReadOnly op = true ∨ FsOp.path op = c.output) ∧ (∀ p, op ≠ FsOp.unlink p) :=
  Proofs.clone_ops_confined H decomp c fs

/-- ... and no path other than the output changes or appears. -/
theorem clone_fs_confined (H : Bytes → Bytes) (decomp : Nat → Bytes → Nat → Option Bytes)
    (c : CloneCmd) (fs : Fs) (p : String) (hp : p ≠ c.output) :
    (Cli.clone H decomp c fs).fs.get p = fs.get p :=
  Proofs.clone_fs_confined H decomp c fs p hp

/-- **T2.**  A successful CLI compress ends in the initial file system plus exactly the archive
(the temp file - `c.temp`, which cli.rs derives from the output path by replacing its extension
with `..tmp`, see `tempPathOf` and the CLI-level runs - created, written,
re-opened read-only and removed), and the archive is the one of the sequential model. -/
theorem compress_leaves_only_archive (H : Bytes → Bytes) (comp : Bytes → Bytes) (c : CompressCmd) (fs : Fs)
    (htmp : fs.get (c.temp) = none)
    (hdistinct : c.temp ≠ c.output ∧ c.input ≠ c.output ∧ c.input ≠ c.temp)
    (hflush : cliTempFlushedBeforeReturn = true) :
    let r := Cli.compress H comp c fs
    r.ok = true →
      (∀ p, p ≠ c.output → r.fs.get p = fs.get p) ∧
      (∃ src, (fs.get c.input).map (·.data) = some src ∧
        r.fs.get c.output = some (.regular (createArchive H "cli" comp c.opts src))) :=
  Proofs.compress_leaves_only_archive H comp c fs htmp hdistinct hflush

/-- A stale temp file left by an earlier, interrupted compress is truncated on open, does not
reach the archive, and is gone afterwards. -/
theorem compress_ignores_stale_temp (H : Bytes → Bytes) (comp : Bytes → Bytes) (c : CompressCmd) (fs : Fs)
    (old : Bytes) (htmp : fs.get c.temp = some (.regular old))
    (hdistinct : c.temp ≠ c.output ∧ c.input ≠ c.output ∧ c.input ≠ c.temp)
    (hflush : cliTempFlushedBeforeReturn = true) :
    let r := Cli.compress H comp c fs
    r.ok = true →
      r.fs.get c.temp = none ∧
      (∃ src, (fs.get c.input).map (·.data) = some src ∧
        r.fs.get c.output = some (.regular (createArchive H "cli" comp c.opts src))) :=
  Proofs.compress_ignores_stale_temp H comp c fs old htmp hdistinct hflush

/-! Non-vacuity. -/
def toyH (x : Bytes) : Bytes := (x ++ List.replicate 64 0).take 64

example :
    let fs : Fs := [("in", .regular [1, 2, 3, 4, 5, 6, 7])]
    let r := Cli.compress toyH id ⟨⟨false, false, false⟩, "in", "d/out.cba", "d/out..tmp", ⟨.fixed 3, 8, none, []⟩⟩ fs
    r.ok = true ∧ r.fs.map (·.1) = ["in", "d/out.cba"] ∧
    r.ops.contains (FsOp.unlink "d/out..tmp") = true := by
  decide +kernel

end Bita.Props.C16
