/-
  C14 — a refused operation leaves the output untouched.
  Only property theorems and their non-vacuity examples live here.

  File-system level (`Bita.Model.Cli`): the `OpenOptions` flag expressions and the order of the
  steps are read from the source (`Bita.Gen.Facts`); the file system is universally quantified.
-/
import Bita.Proofs.CliFs
import Bita.Proofs.OptionsCompose

namespace Bita.Props.C14
open Bita Bita.Gen Bita.Proofs

/-- The facts read from the source are the ones the model was written for (order of the steps
of `clone_archive` / `compress_cmd`: archive opened and pinned before the output is opened,
device check before any scan or write; read-only opens of archive and seeds; no other
file-system call in clone_cmd.rs). -/
theorem facts_as_expected : FactsAsExpected := by unfold FactsAsExpected; decide

/-- (a) the archive is invalid: no output is created, nothing is changed, exit is non-zero. -/
theorem refused_invalid_archive (H : Bytes → Bytes) (decomp : Nat → Bytes → Nat → Option Bytes)
    (c : CloneCmd) (fs : Fs) (an : Node) (ha : fs.get c.archivePath = some an)
    (hbad : ∀ a, tryInit H [] (honestReadAt an.data) ≠ .ok a) :
    let r := Cli.clone H decomp c fs
    r.ok = false ∧ r.fs = fs ∧ ∀ op ∈ r.ops, FsOp.isReadOnly op = true :=
  clone_refused_archive H decomp c fs an ha hbad

/-- (b) the expected header checksum does not match: the same. -/
theorem refused_pin_mismatch (H : Bytes → Bytes) (decomp : Nat → Bytes → Nat → Option Bytes)
    (c : CloneCmd) (fs : Fs) (an : Node) (ha : fs.get c.archivePath = some an) (a : Archive)
    (hok : tryInit H [] (honestReadAt an.data) = .ok a) (pin : Bytes) (hp : c.pin = some pin)
    (hne : pin ≠ a.headerChecksum) :
    let r := Cli.clone H decomp c fs
    r.ok = false ∧ r.fs = fs ∧ ∀ op ∈ r.ops, FsOp.isReadOnly op = true :=
  clone_refused_pin H decomp c fs an ha a hok pin hp hne

/-- (c) the output exists and neither `--force-create` nor `--seed-output` was given. -/
theorem refused_output_exists (H : Bytes → Bytes) (decomp : Nat → Bytes → Nat → Option Bytes)
    (c : CloneCmd) (fs : Fs) (n : Node) (hout : fs.get c.output = some n)
    (hf : c.flags.force = false) (hs : c.flags.seedOutput = false) :
    let r := Cli.clone H decomp c fs
    r.ok = false ∧ r.fs = fs :=
  clone_refused_exists H decomp c fs n hout hf hs

/-- (d) the output is a block device smaller than the source: refused before any write. -/
theorem refused_small_device (H : Bytes → Bytes) (decomp : Nat → Bytes → Nat → Option Bytes)
    (c : CloneCmd) (fs : Fs) (hfs : (fs.map (·.1)).Nodup) (an : Node) (ha : fs.get c.archivePath = some an)
    (a : Archive) (hok : tryInit H [] (honestReadAt an.data) = .ok a)
    (dev : Bytes) (hout : fs.get c.output = some (.blockdev dev)) (hsmall : dev.length < a.sourceTotalSize) :
    let r := Cli.clone H decomp c fs
    r.ok = false ∧ r.fs = fs :=
  clone_refused_small_device H decomp c fs hfs an ha a hok dev hout hsmall

/-- (e) compress into an existing output without `--force-create`. -/
theorem compress_refused_output_exists (H : Bytes → Bytes) (comp : Bytes → Bytes) (c : CompressCmd) (fs : Fs)
    (n : Node) (hout : fs.get c.output = some n) (hf : c.flags.force = false) :
    let r := Cli.compress H comp c fs
    r.ok = false ∧ r.fs = fs :=
  compress_refused_exists H comp c fs n hout hf

/-! Non-vacuity: the table rows on a concrete file system. -/
def toyH (x : Bytes) : Bytes := (x ++ List.replicate 64 0).take 64
def arch : Bytes := createArchive toyH "lib" id ⟨.fixed 3, 8, none, []⟩ [1, 2, 3, 4, 5, 6, 7]
def fs0 : Fs := [("a.cba", .regular arch), ("out", .regular [9, 9]), ("dev", .blockdev [0, 0, 0]), ("bad.cba", .regular [1, 2, 3])]

example :
    -- existing output, no flag: refused, untouched; with --force-create: cloned
    (Cli.clone toyH (fun _ b _ => some b) ⟨⟨false, false, false⟩, none, "out", "a.cba", []⟩ fs0).ok = false ∧
    (Cli.clone toyH (fun _ b _ => some b) ⟨⟨false, false, false⟩, none, "out", "a.cba", []⟩ fs0).fs = fs0 ∧
    (Cli.clone toyH (fun _ b _ => some b) ⟨⟨true, false, false⟩, none, "out", "a.cba", []⟩ fs0).fs.get "out"
      = some (.regular [1, 2, 3, 4, 5, 6, 7]) ∧
    -- too small a device, in place: refused, untouched
    (Cli.clone toyH (fun _ b _ => some b) ⟨⟨false, true, false⟩, none, "dev", "a.cba", []⟩ fs0).fs = fs0 ∧
    -- invalid archive, absent output: nothing created
    (Cli.clone toyH (fun _ b _ => some b) ⟨⟨false, false, false⟩, none, "new", "bad.cba", []⟩ fs0).fs = fs0 := by
  decide +kernel

/-- The option parser refuses a `--verify-header` value longer than a checksum (read from cli.rs on
every run; F15 repair): what reaches the comparison is the value that was typed, not its first
64 bytes. -/
theorem pin_length_checked_fact : Gen.pinLengthChecked = true := by decide


/-! ### From the command line (src/cli.rs modelled in `Bita.Model.Options`, tied by `l1 opts`) -/

/-- (c) from the texts: if the output exists and neither `--force-create` nor `--seed-output` is on
the command line, then whatever else is (seeds - the output's own name among them -, a pin, any
archive), the clone is refused and the file system is unchanged: the flags `clone_cmd` sees are
exactly the ones given. -/
theorem cli_refused_output_exists (H : Bytes → Bytes) (decomp : Nat → Bytes → Nat → Option Bytes)
    (a : Options.CloneArgs) (p : Options.CloneParsed) (hp : Options.parseClone a = .ok p)
    (fs : Fs) (n : Node) (hout : fs.get a.output = some n) (hf : a.force = false) (hs : a.seedOutput = false) :
    let r := Cli.clone H decomp p.cmd fs
    r.ok = false ∧ r.fs = fs := by
  obtain ⟨ho, _, hfl, _⟩ := Proofs.parseClone_ok a p hp
  exact clone_refused_exists H decomp p.cmd fs n (ho ▸ hout) (by rw [hfl]; exact hf) (by rw [hfl]; exact hs)

/-- (b) from the texts: a `--verify-header` text that is given always becomes a pin (it is never
dropped), and that pin is what the text denotes - so with (b) above, a text that does not denote
the archive's header checksum refuses the clone without touching anything. -/
theorem cli_pin_is_never_dropped (a : Options.CloneArgs) (p : Options.CloneParsed)
    (hp : Options.parseClone a = .ok p) (t : Bytes) (ht : a.verifyHeader = some t) :
    ∃ v, p.cmd.pin = some v ∧ Options.parseHashSum t = .ok v :=
  (Proofs.parseClone_ok a p hp).2.2.2.2.2.2.1 t ht

end Bita.Props.C14
