/-
  C03 — in-place update is exact for every prior content of the output.
  Only property theorems and their non-vacuity examples live here.

  Level of statement: tilings.  The prior output is a sequence `O` of chunks and the source a
  sequence `N`, each chunk identified by a key `κ` with bytes `content k` (keys are what the
  truncated strong hash identifies; that equal keys mean equal bytes is the collision-freeness
  the property's "or a collision is exhibited" refers to).  That scanning any byte string yields
  such a tiling is C09 (`chunks_tile`).
-/
import Bita.Proofs.InPlace
import Bita.Proofs.CloneNoJunk
import Bita.Proofs.StepOrder

namespace Bita.Props.C03
open Bita Bita.Spec

/-- **C03 at the level of bytes** (the whole clone, `Clone.run` with `--seed-output`).  The header
that was opened describes `src`; the prior content of the output is *any* byte string - any
length, any arrangement, duplication or partial presence of reusable chunks, junk whose chunks
collide with each other -; seeds, reader and codec are arbitrary.  A clone that reports success
has left exactly the source (a regular file also has exactly the source's length), or a
collision of the truncated strong hash with a genuine source chunk is exhibited. -/
theorem inplace_clone_exact (H : Bytes → Bytes) (hH : ∀ x, (H x).length = 64)
    (decomp : Nat → Bytes → Nat → Option Bytes) (features : List Nat)
    (readAt : Nat → Nat → Option Bytes) (readChunks : List (Nat × Nat) → List (Option Bytes))
    (opts : CloneOpts) (_hso : opts.seedOutput = true) (prior : Bytes) (seeds : List Bytes)
    (a : Archive) (src : Bytes) (cks : List Bytes)
    (hinit : tryInit H features readAt = .ok a) (hd : Describes H a src cks)
    (hitems : ∀ ranges, (readChunks ranges).length = ranges.length) :
    let r := Clone.run H decomp features readAt readChunks opts prior seeds
    r.result = .ok →
      (setLen r.output src.length = src ∧ (opts.blockDev = false → r.output = src)) ∨
      Collision H a.hashLength cks :=
  Proofs.clone_sound_nojunk H hH decomp features readAt readChunks opts prior seeds a src cks hinit hd hitems

/-- ... and with an honest reader over archive bytes that store the chunks it does report
success, for every prior content. -/
theorem inplace_clone_succeeds (H : Bytes → Bytes) (hH : ∀ x, (H x).length = 64)
    (decomp : Nat → Bytes → Nat → Option Bytes) (features : List Nat)
    (archive : Bytes) (opts : CloneOpts) (_hso : opts.seedOutput = true) (prior : Bytes) (seeds : List Bytes)
    (a : Archive) (src : Bytes) (cks : List Bytes)
    (hinit : tryInit H features (honestReadAt archive) = .ok a) (hd : Describes H a src cks)
    (hs : Stored H decomp a archive)
    (hpin : ∀ pin, opts.headerPin = some pin → pin = a.headerChecksum)
    (hdev : opts.blockDev = true → src.length ≤ prior.length) :
    let r := Clone.run H decomp features (honestReadAt archive) (honestReadChunks archive) opts prior seeds
    (r.result = .ok ∧ setLen r.output src.length = src ∧ (opts.blockDev = false → r.output = src)) ∨
      Collision H a.hashLength cks :=
  Proofs.clone_complete_nojunk H hH decomp features archive opts prior seeds a src cks hinit hd hs hpin hdev

variable {κ : Type} [DecidableEq κ]

/-- **The planner is sound**: for every prior tiling and every target tiling - any lengths, any
arrangement, duplication or partial presence of chunks, any overlaps and cyclic move
dependencies - `reorder_ops` (after `strip_chunks_already_in_place`) is a safe plan: each
reusable chunk is copied exactly once from its first location to exactly its missing target
offsets, and no copy overwrites a still-needed chunk that has not been copied or buffered. -/
theorem planner_sound (content : κ → Bytes) (O N : List κ)
    (hne : ∀ k, k ∈ O ∨ k ∈ N → content k ≠ []) :
    safePlan content O N
      (reorderOps (indexOf content O) ((indexOf content O).strip (indexOf content N)).1) = true :=
  Proofs.planner_sound content O N hne

/-- **The executor is sound** for every safe plan. -/
theorem executor_sound (content : κ → Bytes) (O N : List κ)
    (hne : ∀ k, k ∈ O ∨ k ∈ N → content k ≠ [])
    (ops : List (ROp κ)) (hs : safePlan content O N ops = true) :
    let PO := placements content O 0
    let PN := placements content N 0
    let target := ((indexOf content O).strip (indexOf content N)).1
    ∃ fin, ExecSt.run ⟨⟨fileOf content O, target, []⟩, [], 0⟩ ops = some fin ∧
      fin.out.index = (indexOf content N).filter (fun e => !O.contains e.1) ∧
      (∀ e ∈ PN, e.1 ∈ O → slice fin.out.file e.2 (content e.1).length = content e.1) ∧
      (fileOf content O).length ≤ fin.out.file.length ∧
      writesOf fin.out.log =
        ((ops.filter isCopy).map opKey).flatMap (fun k => (dests PO PN k).map (fun d => (d, content k))) :=
  Proofs.executor_sound content O N hne ops hs

/-- **C03.**  For every prior content (as a tiling) and every source: the in-place reorder
succeeds, only chunks absent from the prior output remain to be fetched, and after they have
been fed (in any order, among any other chunks) and the file resized, the output is
byte-identical to the source. -/
theorem inplace_exact (content : κ → Bytes) (O N : List κ)
    (hne : ∀ k, k ∈ O ∨ k ∈ N → content k ≠ []) :
    ∃ st1 ret, (OutSt.mk (fileOf content O) (indexOf content N) []).reorderInPlace (indexOf content O)
        = some (st1, ret) ∧
      (∀ k, k ∈ st1.index.keys ↔ (k ∈ N ∧ k ∉ O)) ∧
      ∀ ks, (∀ k ∈ st1.index.keys, k ∈ ks) →
        resize (feedAll content st1 ks).file (fileOf content N).length = fileOf content N :=
  Proofs.inplace_exact content O N hne

/-! Non-vacuity: a 2-cycle (swap), a 3-cycle with unequal sizes, and a duplicated source with an
overlapping move; each is a safe plan containing a `StoreInMem` and the executed result is the
source. -/
def content3 : Nat → Bytes := fun k => List.replicate (k % 3 + 1) (UInt8.ofNat (k + 65))

example :
    let O := [0, 1]; let N := [1, 0]
    let ops := reorderOps (indexOf content3 O) ((indexOf content3 O).strip (indexOf content3 N)).1
    safePlan content3 O N ops = true ∧ (ops.any fun o => !isCopy o) = true ∧
    (((OutSt.mk (fileOf content3 O) (indexOf content3 N) []).reorderInPlace (indexOf content3 O)).map
      (fun r => resize r.1.file (fileOf content3 N).length)) = some (fileOf content3 N) := by
  decide +kernel

example :
    let O := [0, 1, 2, 7]; let N := [2, 0, 1, 2]
    let ops := reorderOps (indexOf content3 O) ((indexOf content3 O).strip (indexOf content3 N)).1
    safePlan content3 O N ops = true ∧ (ops.any fun o => !isCopy o) = true ∧
    (((OutSt.mk (fileOf content3 O) (indexOf content3 N) []).reorderInPlace (indexOf content3 O)).map
      (fun r => resize r.1.file (fileOf content3 N).length)) = some (fileOf content3 N) := by
  decide +kernel

/-- The step order of `clone_archive` that `Clone.run` transcribes (scan the output and reorder in
place *before* any seed is used, fetch last, flush before resize), read from the source on every
run: a reordering of the steps in the code breaks this theorem. -/
theorem clone_steps_as_modelled :
    Gen.cloneStepOrder = ["try_init", "banner", "pin", "open_output", "device_check", "scan_output", "reorder",
                          "seed_stdin", "seed_files", "fetch", "flush", "resize", "verify_output"] :=
  Proofs.clone_step_order_fact

end Bita.Props.C03
