/-
  C03 — in-place update is exact for every prior content of the output.
  Only property theorems and their non-vacuity examples live here.

  Level of statement: tilings.  The prior output is a sequence `O` of chunks and the source a
  sequence `N`, each chunk identified by a key `κ` with bytes `content k` (keys are what the
  truncated strong hash identifies; that equal keys mean equal bytes is the collision-freeness
  the property's "or a collision is exhibited" refers to).  That scanning any byte string yields
  such a tiling is C09 (`chunks_tile`).
-/
import Bita.Proofs.InPlace

namespace Bita.Props.C03
open Bita Bita.Spec

variable {κ : Type} [DecidableEq κ]

/-- **The planner is sound**: for every prior tiling and every target tiling - any lengths, any
arrangement, duplication or partial presence of chunks, any overlaps and cyclic move
dependencies - `reorder_ops` (after `strip_chunks_already_in_place`) is a safe plan: each
reusable chunk is copied exactly once from its first location to exactly its missing target
offsets, and no copy overwrites a still-needed chunk that has not been copied or buffered. -/
theorem planner_sound (content : κ → Bytes) (O N : List κ)
    (hne : ∀ k, k ∈ O ∨ k ∈ N → content k ≠ []) :
    safePlan content O N
      (reorderOps (indexOf content O) ((indexOf content O).strip (indexOf content N)).1) = true :=
  Proofs.planner_sound content O N hne

/-- **The executor is sound** for every safe plan. -/
theorem executor_sound (content : κ → Bytes) (O N : List κ)
    (hne : ∀ k, k ∈ O ∨ k ∈ N → content k ≠ [])
    (ops : List (ROp κ)) (hs : safePlan content O N ops = true) :
    let PO := placements content O 0
    let PN := placements content N 0
    let target := ((indexOf content O).strip (indexOf content N)).1
    ∃ fin, ExecSt.run ⟨⟨fileOf content O, target, []⟩, [], 0⟩ ops = some fin ∧
      fin.out.index = (indexOf content N).filter (fun e => !O.contains e.1) ∧
      (∀ e ∈ PN, e.1 ∈ O → slice fin.out.file e.2 (content e.1).length = content e.1) ∧
      (fileOf content O).length ≤ fin.out.file.length ∧
      writesOf fin.out.log =
        ((ops.filter isCopy).map opKey).flatMap (fun k => (dests PO PN k).map (fun d => (d, content k))) :=
  Proofs.executor_sound content O N hne ops hs

/-- **C03.**  For every prior content (as a tiling) and every source: the in-place reorder
succeeds, only chunks absent from the prior output remain to be fetched, and after they have
been fed (in any order, among any other chunks) and the file resized, the output is
byte-identical to the source. -/
theorem inplace_exact (content : κ → Bytes) (O N : List κ)
    (hne : ∀ k, k ∈ O ∨ k ∈ N → content k ≠ []) :
    ∃ st1 ret, (OutSt.mk (fileOf content O) (indexOf content N) []).reorderInPlace (indexOf content O)
        = some (st1, ret) ∧
      (∀ k, k ∈ st1.index.keys ↔ (k ∈ N ∧ k ∉ O)) ∧
      ∀ ks, (∀ k ∈ st1.index.keys, k ∈ ks) →
        resize (feedAll content st1 ks).file (fileOf content N).length = fileOf content N :=
  Proofs.inplace_exact content O N hne

/-! Non-vacuity: a 2-cycle (swap), a 3-cycle with unequal sizes, and a duplicated source with an
overlapping move; each is a safe plan containing a `StoreInMem` and the executed result is the
source. -/
def content3 : Nat → Bytes := fun k => List.replicate (k % 3 + 1) (UInt8.ofNat (k + 65))

example :
    let O := [0, 1]; let N := [1, 0]
    let ops := reorderOps (indexOf content3 O) ((indexOf content3 O).strip (indexOf content3 N)).1
    safePlan content3 O N ops = true ∧ (ops.any fun o => !isCopy o) = true ∧
    (((OutSt.mk (fileOf content3 O) (indexOf content3 N) []).reorderInPlace (indexOf content3 O)).map
      (fun r => resize r.1.file (fileOf content3 N).length)) = some (fileOf content3 N) := by
  decide +kernel

example :
    let O := [0, 1, 2, 7]; let N := [2, 0, 1, 2]
    let ops := reorderOps (indexOf content3 O) ((indexOf content3 O).strip (indexOf content3 N)).1
    safePlan content3 O N ops = true ∧ (ops.any fun o => !isCopy o) = true ∧
    (((OutSt.mk (fileOf content3 O) (indexOf content3 N) []).reorderInPlace (indexOf content3 O)).map
      (fun r => resize r.1.file (fileOf content3 N).length)) = some (fileOf content3 N) := by
  decide +kernel

end Bita.Props.C03
