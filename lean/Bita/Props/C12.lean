/-
  C12 — compress is deterministic: same input and options, same archive bytes.
  Only property theorems and their non-vacuity examples live here.
-/
import Bita.Proofs.Schedule
import Bita.Proofs.ScheduleUnordered
import Bita.Proofs.ChunkStream
import Bita.Proofs.Writer

namespace Bita.Props.C12
open Bita Bita.Spec Bita.Proofs

/-- The archive a writer produces when its input arrives under the read script `script`, its
blocking stages run under the schedules `s1`, `s2` with `n` buffers, and (CLI) the last temp
write is late or not: every ingredient that could vary between runs is an explicit argument. -/
def archiveOfRun (H : Bytes → Bytes) (writer : String) (comp : Bytes → Bytes) (o : CompressOpts)
    (src : Bytes) (script : List Rd) (n : Nat) (s1 s2 : List SchedEv) (late : Bool) : Bytes :=
  -- chunking under the delivery
  let chunks := (chunkStream o.cfg src script).map fun c => slice src c.1 c.2
  -- hashing stage, then dedup, then compression stage: both `buffered(n)`
  let hashed := (stageRun (Gen.cliCompressCombinators.headD "?") n chunks s1).out
  let (uniq, order) := dedup H hashed
  let compressed := (stageRun ((Gen.cliCompressCombinators.drop 1).headD "?") n uniq s2).out
  let stored := compressed.map (storedBytes writer (if o.compression.isSome then comp else id))
  let dict : Proto.ChunkDictionary :=
    { applicationVersion := Gen.pkgVersion.toUTF8.toList, sourceChecksum := H src, sourceTotalSize := src.length
      chunkerParams := some (paramsOf o.cfg o.hashLen)
      chunkCompression := some (match o.compression with
        | some (c, l) => ⟨c, l⟩
        | none => ⟨Gen.enum_CompressionType_NONE, 0⟩)
      rebuildOrder := order, chunkDescriptors := descriptorsOf H o.hashLen compressed stored, metadata := o.metadata }
  buildHeader H dict none ++ tempFileSeen Gen.cliTempFlushedBeforeReturn late stored

/-- **C12.**  For every complete delivery of the input (file, pipe, any read sizes, Pendings), any
number of buffers, every completion schedule of the hashing and compression stages that lets
them finish, and either timing of the last temp-file write, the archive bytes are those of the
sequential model `createArchive` - a function of source and options only. -/
theorem archive_independent_of_schedule_and_delivery (H : Bytes → Bytes) (writer : String)
    (comp : Bytes → Bytes) (o : CompressOpts) (hv : o.cfg.Valid) (src : Bytes)
    (script : List Rd) (hc : Complete script src.length = true)
    (n : Nat) (s1 s2 : List SchedEv) (late : Bool)
    (hdone1 : let chunks := (chunkAll o.cfg src).map fun c => slice src c.1 c.2
              (stageRun "buffered" n chunks s1).inflight = [] ∧ (stageRun "buffered" n chunks s1).input = [])
    (hdone2 : let uniq := (dedup H ((chunkAll o.cfg src).map fun c => slice src c.1 c.2)).1
              (stageRun "buffered" n uniq s2).inflight = [] ∧ (stageRun "buffered" n uniq s2).input = []) :
    archiveOfRun H writer comp o src script n s1 s2 late = createArchive H writer comp o src := by
  have h1 : Gen.cliCompressCombinators.headD "?" = "buffered" := by decide
  have h2 : (Gen.cliCompressCombinators.drop 1).headD "?" = "buffered" := by decide
  have hf : Gen.cliTempFlushedBeforeReturn = true := by decide
  unfold archiveOfRun
  rw [stream_independent_of_delivery o.cfg hv src script hc, h1, h2, hf]
  have e1 := buffered_complete n ((chunkAll o.cfg src).map fun c => slice src c.1 c.2) s1 hdone1.1 hdone1.2
  simp only [e1]
  have e2 := buffered_complete n (dedup H ((chunkAll o.cfg src).map fun c => slice src c.1 c.2)).1 s2 hdone2.1 hdone2.2
  simp only [e2, Proofs.temp_file_complete]
  rfl

/-- Metadata is emitted in key order and fields in tag order: the encoder is a function (no
hash-map iteration order is involved) - immediate, the encoder being a Lean function; the
correspondence runs compare it byte for byte with prost's output. -/
theorem encoding_is_a_function (d1 d2 : Proto.ChunkDictionary) (h : d1 = d2) :
    Proto.encodeDictionary d1 = Proto.encodeDictionary d2 := by rw [h]

/-! Non-vacuity: a source with a duplicate chunk, two different deliveries and schedules. -/
def toyH (x : Bytes) : Bytes := (x ++ List.replicate 64 0).take 64

example :
    let o : CompressOpts := ⟨.fixed 3, 8, none, []⟩
    let src : Bytes := [1, 2, 3, 1, 2, 3, 9]
    archiveOfRun toyH "cli" id o src [.bytes 2, .pending, .bytes 100, .bytes 1] 2
      [.poll, .finish 1, .finish 0, .poll, .poll, .poll, .finish 0, .poll] [.poll, .finish 1, .poll, .finish 0, .poll, .poll] true
    = archiveOfRun toyH "cli" id o src [.bytes 100, .bytes 1] 8
      [.poll, .finish 0, .finish 1, .finish 2, .poll, .poll, .poll] [.poll, .finish 0, .poll, .finish 0, .poll] false := by
  decide +kernel

/-- The library writer flushes its temp file before reading it back (read from api/compress.rs on
every run; F16 repair), as the command line writer does (`Gen.cliTempFlushedBeforeReturn`). -/
theorem lib_temp_file_flushed_fact : Gen.libTempFlushedBeforeRewind = true := by decide

/-- **Why the combinator is an obligation.**  The model knows both stream combinators.  Under the
other one (`buffer_unordered`, the `else` branch of `stageRun`) a drained stage still emits every
item exactly once, under every schedule - nothing is lost or duplicated - and never holds more than
`n` tasks, but only as a *permutation* of its input: the order follows the schedule (witness below),
and with it the archive bytes.  The determinism theorem above therefore rests on the `buffered`
fact read from the source, not on a property every combinator has. -/
theorem unordered_stage_emits_each_item_once {α : Type} (comb : String) (hc : comb ≠ "buffered")
    (n : Nat) (xs : List α) (sched : List SchedEv)
    (hi : (stageRun comb n xs sched).input = []) (hf : (stageRun comb n xs sched).inflight = []) :
    List.Perm (stageRun comb n xs sched).out xs := by
  have h : stageRun comb n xs sched = sched.foldl (fun s e => s.stepUnordered n e) ⟨xs, [], []⟩ := by
    simp only [stageRun, hc, if_false]
  exact unordered_run_complete n xs sched _ h hi hf

theorem unordered_stage_holds_at_most_n {α : Type} (n : Nat) (s : BufSt α) (e : SchedEv)
    (h : s.inflight.length ≤ n) : (s.stepUnordered n e).inflight.length ≤ n :=
  stepUnordered_inflight_le n s e h

/-- the same two items, two schedules, two orders -/
example : (stageRun "buffer_unordered" 2 [1, 2] [.poll, .finish 1, .poll, .finish 0, .poll]).out = [2, 1] ∧
    (stageRun "buffer_unordered" 2 [1, 2] [.poll, .finish 0, .poll, .finish 0, .poll]).out = [1, 2] ∧
    (stageRun "buffered" 2 [1, 2] [.poll, .finish 1, .poll, .finish 0, .poll, .poll]).out = [1, 2] := by decide

end Bita.Props.C12
