/-
  C11 — written archives conform to the documented format and report settings verbatim.
  Only property theorems and their non-vacuity examples live here.
-/
import Bita.Proofs.Writer
import Bita.Proofs.TryInit
import Bita.Proofs.ProtoRoundtrip
import Bita.Proofs.Schedule
import Bita.Proofs.CliFs

namespace Bita.Props.C11
open Bita Bita.Proto Bita.Spec Bita.Proofs

/-- **T1 (header layout).**  magic, little-endian dictionary size, protobuf dictionary, absolute
chunk-data offset (the header length when none is given), Blake2 of all preceding bytes. -/
theorem header_layout (H : Bytes → Bytes) (d : ChunkDictionary) (off : Option Nat) :
    let enc := encodeDictionary d
    let body := magicBytes ++ le64 enc.length ++ enc ++
      le64 (off.getD (magicBytes.length + 8 + enc.length + 8 + 64))
    buildHeader H d off = body ++ H body := by
  simp [buildHeader, le64_length, Nat.add_assoc]

/-- **T2 (dictionary).**  What the writer encodes, a protobuf decoder reads back unchanged. -/
theorem proto_roundtrip (d : ChunkDictionary) (hwf : DictWF d) :
    decodeDictionary (encodeDictionary d) = some d :=
  Proofs.proto_roundtrip d hwf

/-- **T3 (writer invariants)**, both writers, every source and configuration: the archive is the
header followed by the stored chunks and ends exactly at the end of the last stored chunk; the
recorded chunk-data offset is the header length (T1 with `off = none`); descriptors are stored
back-to-back in order, stored size never exceeds source size, no chunk is empty; rebuild
indexes are valid and their chunk sizes sum to the source size; size, checksum, chunker
parameters, metadata and version are recorded verbatim. -/
theorem writer_invariants (H : Bytes → Bytes) (writer : String) (hw : writer = "lib" ∨ writer = "cli")
    (comp : Bytes → Bytes) (o : CompressOpts) (hv : o.cfg.Valid) (src : Bytes)
    (hinj : ∀ c1 ∈ chunkAll o.cfg src, ∀ c2 ∈ chunkAll o.cfg src,
      H (slice src c1.1 c1.2) = H (slice src c2.1 c2.2) → slice src c1.1 c1.2 = slice src c2.1 c2.2) :
    let dict := (dictionaryOf H writer comp o src).1
    let stored := (dictionaryOf H writer comp o src).2
    let hdr := buildHeader H dict none
    createArchive H writer comp o src = hdr ++ stored.flatten ∧
    (createArchive H writer comp o src).length = hdr.length + (dict.chunkDescriptors.map (·.archiveSize)).sum ∧
    dict.chunkDescriptors.length = stored.length ∧
    (∀ i (hi : i < dict.chunkDescriptors.length),
      dict.chunkDescriptors[i].archiveOffset = runningOffset dict.chunkDescriptors i ∧
      dict.chunkDescriptors[i].archiveSize ≤ dict.chunkDescriptors[i].sourceSize ∧
      1 ≤ dict.chunkDescriptors[i].sourceSize) ∧
    (∀ i ∈ dict.rebuildOrder, i < dict.chunkDescriptors.length) ∧
    (dict.rebuildOrder.map (fun i => (dict.chunkDescriptors[i]?.map (·.sourceSize)).getD 0)).sum = src.length ∧
    dict.sourceTotalSize = src.length ∧ dict.sourceChecksum = H src ∧
    dict.chunkerParams = some (paramsOf o.cfg o.hashLen) ∧ dict.metadata = o.metadata ∧
    dict.applicationVersion = Gen.pkgVersion.toUTF8.toList :=
  Proofs.writer_invariants H writer hw comp o hv src hinj

/-- Descriptors are unique by (full) hash and in order of first occurrence. -/
theorem descriptors_unique_first_occurrence (H : Bytes → Bytes) (chunks : List Bytes) :
    let uniq := (dedup H chunks).1
    let order := (dedup H chunks).2
    (uniq.map H).Nodup ∧ order.length = chunks.length ∧
    (∀ i (hi : i < chunks.length), ∃ j u, order[i]? = some j ∧ uniq[j]? = some u ∧ H u = H chunks[i]) ∧
    (∀ u ∈ uniq, u ∈ chunks) ∧
    (order.eraseDups = List.range uniq.length) :=
  Proofs.writer_dedup H chunks

/-- **T4 (reported verbatim).**  Opening what the header builder wrote reports exactly the
dictionary's values.  (`hhash`, `hsum`: what the reader checks of a dictionary since the F20 / F18
repairs - a hash length of 1..64 bytes, and chunk sizes that in rebuild order add up to the declared
source size; the writers' dictionaries meet both, `createArchive_conforms`.) -/
theorem reader_reports_verbatim (H : Bytes → Bytes) (hH : ∀ x, (H x).length = 64) (features : List Nat)
    (d : ChunkDictionary) (hwf : DictWF d) (data : Bytes)
    (p : ChunkerParameters) (c : ChunkCompression) (cfg : Config) (compr : Compr)
    (hp : d.chunkerParams = some p) (hc : d.chunkCompression = some c)
    (hcfg : configFromParams p = .ok cfg) (hcompr : compressionFromDict features c = .ok compr)
    (hord : ∀ i ∈ d.rebuildOrder, i < d.chunkDescriptors.length)
    (hhash : 1 ≤ p.chunkHashLength ∧ p.chunkHashLength ≤ 64)
    (hsum : (d.rebuildOrder.map fun i => ((d.chunkDescriptors[i]?).map (·.sourceSize)).getD 0).sum =
      d.sourceTotalSize)
    (hsz : ∀ cd ∈ d.chunkDescriptors, 1 ≤ cd.archiveSize)
    (hoff : ∀ cd ∈ d.chunkDescriptors, (buildHeader H d none).length + cd.archiveOffset + cd.archiveSize ≤ usizeMax)
    (hlen : (encodeDictionary d).length + 86 ≤ usizeMax) :
    ∃ a, tryInit H features (honestReadAt (buildHeader H d none ++ data)) = .ok a ∧
      a.config = cfg ∧ a.hashLength = p.chunkHashLength ∧ a.compression = compr ∧
      a.metadata = d.metadata ∧ a.version = d.applicationVersion ∧
      a.sourceTotalSize = d.sourceTotalSize ∧
      a.sourceChecksum = hashTruncate d.sourceChecksum 64 ∧
      a.sourceOrder = d.rebuildOrder ∧
      a.headerSize = (buildHeader H d none).length ∧
      a.chunkDataOffset = (buildHeader H d none).length ∧
      a.chunks = d.chunkDescriptors.map (fun cd =>
        ⟨hashTruncate cd.checksum 64, cd.archiveSize, (buildHeader H d none).length + cd.archiveOffset, cd.sourceSize⟩) :=
  tryInit_buildHeader H hH features d hwf data p c cfg compr hp hc hcfg hcompr hord hhash hsum hsz hoff hlen

/-- The CLI writer's temp file is complete when it is copied (so "ends exactly at the last stored
chunk" also holds for the process, not only for the sequential model). -/
theorem temp_file_complete (late : Bool) (chunks : List Bytes) :
    tempFileSeen true late chunks = chunks.flatten :=
  Proofs.temp_file_complete late chunks

/-- ... also when a longer, stale temp file exists (left by an interrupted compress): the CLI
writer's archive is still exactly the sequential model's, so it ends at the last stored chunk. -/
theorem stale_temp_file_does_not_leak (H : Bytes → Bytes) (comp : Bytes → Bytes) (c : CompressCmd) (fs : Fs)
    (old : Bytes) (htmp : fs.get c.temp = some (.regular old))
    (hdistinct : c.temp ≠ c.output ∧ c.input ≠ c.output ∧ c.input ≠ c.temp)
    (hflush : Gen.cliTempFlushedBeforeReturn = true) :
    let r := Cli.compress H comp c fs
    r.ok = true →
      r.fs.get c.temp = none ∧
      (∃ src, (fs.get c.input).map (·.data) = some src ∧
        r.fs.get c.output = some (.regular (createArchive H "cli" comp c.opts src))) :=
  Proofs.compress_ignores_stale_temp H comp c fs old htmp hdistinct hflush

/-! Non-vacuity: a concrete archive, its layout read back. -/
def toyH (x : Bytes) : Bytes := (x ++ List.replicate 64 0).take 64

example :
    let src : Bytes := [1, 2, 3, 1, 2, 3, 9]
    let dict := (dictionaryOf toyH "cli" id ⟨.fixed 3, 8, none, [([107], [118])]⟩ src).1
    dict.rebuildOrder = [0, 0, 1] ∧ dict.chunkDescriptors.map (·.archiveOffset) = [0, 3] ∧
    decodeDictionary (encodeDictionary dict) = some dict := by
  decide +kernel

/-- The library writer flushes its temp file before reading it back (read from api/compress.rs on
every run; F16 repair), as the command line writer does (`Gen.cliTempFlushedBeforeReturn`). -/
theorem lib_temp_file_flushed_fact : Gen.libTempFlushedBeforeRewind = true := by decide

/-- The command line refuses chunk sizes that do not fit the 32-bit fields of the dictionary (read
from cli.rs on every run; F21 repair): the `u32` bounds of `OptsOK` are what the CLI enforces. -/
theorem cli_sizes_fit_u32_fact : Gen.cliSizesFitU32 = true := by decide

end Bita.Props.C11
