/-
  C11 — written archives conform to the documented format and report settings verbatim.
  Only property theorems and their non-vacuity examples live here.
-/
import Bita.Proofs.Writer
import Bita.Proofs.TryInit
import Bita.Proofs.ProtoRoundtrip
import Bita.Proofs.Schedule
import Bita.Proofs.CliFs
import Bita.Proofs.OptionsCompose
import Bita.Proofs.Metadata
import Bita.Proofs.MetadataMaps

namespace Bita.Props.C11
open Bita Bita.Proto Bita.Spec Bita.Proofs

/-- **T1 (header layout).**  magic, little-endian dictionary size, protobuf dictionary, absolute
chunk-data offset (the header length when none is given), Blake2 of all preceding bytes. -/
theorem header_layout (H : Bytes → Bytes) (d : ChunkDictionary) (off : Option Nat) :
    let enc := encodeDictionary d
    let body := magicBytes ++ le64 enc.length ++ enc ++
      le64 (off.getD (magicBytes.length + 8 + enc.length + 8 + 64))
    buildHeader H d off = body ++ H body := by
  simp [buildHeader, le64_length, Nat.add_assoc]

/-- **T2 (dictionary).**  What the writer encodes, a protobuf decoder reads back unchanged. -/
theorem proto_roundtrip (d : ChunkDictionary) (hwf : DictWF d) :
    decodeDictionary (encodeDictionary d) = some d :=
  Proofs.proto_roundtrip d hwf

/-- **T3 (writer invariants)**, both writers, every source and configuration: the archive is the
header followed by the stored chunks and ends exactly at the end of the last stored chunk; the
recorded chunk-data offset is the header length (T1 with `off = none`); descriptors are stored
back-to-back in order, stored size never exceeds source size, no chunk is empty; rebuild
indexes are valid and their chunk sizes sum to the source size; size, checksum, chunker
parameters, metadata and version are recorded verbatim. -/
theorem writer_invariants (H : Bytes → Bytes) (writer : String) (hw : writer = "lib" ∨ writer = "cli")
    (comp : Bytes → Bytes) (o : CompressOpts) (hv : o.cfg.Valid) (src : Bytes)
    (hinj : ∀ c1 ∈ chunkAll o.cfg src, ∀ c2 ∈ chunkAll o.cfg src,
      H (slice src c1.1 c1.2) = H (slice src c2.1 c2.2) → slice src c1.1 c1.2 = slice src c2.1 c2.2) :
    let dict := (dictionaryOf H writer comp o src).1
    let stored := (dictionaryOf H writer comp o src).2
    let hdr := buildHeader H dict none
    createArchive H writer comp o src = hdr ++ stored.flatten ∧
    (createArchive H writer comp o src).length = hdr.length + (dict.chunkDescriptors.map (·.archiveSize)).sum ∧
    dict.chunkDescriptors.length = stored.length ∧
    (∀ i (hi : i < dict.chunkDescriptors.length),
      dict.chunkDescriptors[i].archiveOffset = runningOffset dict.chunkDescriptors i ∧
      dict.chunkDescriptors[i].archiveSize ≤ dict.chunkDescriptors[i].sourceSize ∧
      1 ≤ dict.chunkDescriptors[i].sourceSize) ∧
    (∀ i ∈ dict.rebuildOrder, i < dict.chunkDescriptors.length) ∧
    (dict.rebuildOrder.map (fun i => (dict.chunkDescriptors[i]?.map (·.sourceSize)).getD 0)).sum = src.length ∧
    dict.sourceTotalSize = src.length ∧ dict.sourceChecksum = H src ∧
    dict.chunkerParams = some (paramsOf o.cfg o.hashLen) ∧ dict.metadata = o.metadata ∧
    dict.applicationVersion = Gen.pkgVersion.toUTF8.toList :=
  Proofs.writer_invariants H writer hw comp o hv src hinj

/-- Descriptors are unique by (full) hash and in order of first occurrence. -/
theorem descriptors_unique_first_occurrence (H : Bytes → Bytes) (chunks : List Bytes) :
    let uniq := (dedup H chunks).1
    let order := (dedup H chunks).2
    (uniq.map H).Nodup ∧ order.length = chunks.length ∧
    (∀ i (hi : i < chunks.length), ∃ j u, order[i]? = some j ∧ uniq[j]? = some u ∧ H u = H chunks[i]) ∧
    (∀ u ∈ uniq, u ∈ chunks) ∧
    (order.eraseDups = List.range uniq.length) :=
  Proofs.writer_dedup H chunks

/-- **T4 (reported verbatim).**  Opening what the header builder wrote reports exactly the
dictionary's values.  (`hhash`, `hsum`: what the reader checks of a dictionary since the F20 / F18
repairs - a hash length of 1..64 bytes, and chunk sizes that in rebuild order add up to the declared
source size; the writers' dictionaries meet both, `createArchive_conforms`.) -/
theorem reader_reports_verbatim (H : Bytes → Bytes) (hH : ∀ x, (H x).length = 64) (features : List Nat)
    (d : ChunkDictionary) (hwf : DictWF d) (data : Bytes)
    (p : ChunkerParameters) (c : ChunkCompression) (cfg : Config) (compr : Compr)
    (hp : d.chunkerParams = some p) (hc : d.chunkCompression = some c)
    (hcfg : configFromParams p = .ok cfg) (hcompr : compressionFromDict features c = .ok compr)
    (hord : ∀ i ∈ d.rebuildOrder, i < d.chunkDescriptors.length)
    (hhash : 1 ≤ p.chunkHashLength ∧ p.chunkHashLength ≤ 64)
    (hsum : (d.rebuildOrder.map fun i => ((d.chunkDescriptors[i]?).map (·.sourceSize)).getD 0).sum =
      d.sourceTotalSize)
    (hsz : ∀ cd ∈ d.chunkDescriptors, 1 ≤ cd.archiveSize)
    (hoff : ∀ cd ∈ d.chunkDescriptors, (buildHeader H d none).length + cd.archiveOffset + cd.archiveSize ≤ usizeMax)
    (hlen : (encodeDictionary d).length + 86 ≤ usizeMax) :
    ∃ a, tryInit H features (honestReadAt (buildHeader H d none ++ data)) = .ok a ∧
      a.config = cfg ∧ a.hashLength = p.chunkHashLength ∧ a.compression = compr ∧
      a.metadata = d.metadata ∧ a.version = d.applicationVersion ∧
      a.sourceTotalSize = d.sourceTotalSize ∧
      a.sourceChecksum = hashTruncate d.sourceChecksum 64 ∧
      a.sourceOrder = d.rebuildOrder ∧
      a.headerSize = (buildHeader H d none).length ∧
      a.chunkDataOffset = (buildHeader H d none).length ∧
      a.chunks = d.chunkDescriptors.map (fun cd =>
        ⟨hashTruncate cd.checksum 64, cd.archiveSize, (buildHeader H d none).length + cd.archiveOffset, cd.sourceSize⟩) :=
  tryInit_buildHeader H hH features d hwf data p c cfg compr hp hc hcfg hcompr hord hhash hsum hsz hoff hlen

/-- The CLI writer's temp file is complete when it is copied (so "ends exactly at the last stored
chunk" also holds for the process, not only for the sequential model). -/
theorem temp_file_complete (late : Bool) (chunks : List Bytes) :
    tempFileSeen true late chunks = chunks.flatten :=
  Proofs.temp_file_complete late chunks

/-- ... also when a longer, stale temp file exists (left by an interrupted compress): the CLI
writer's archive is still exactly the sequential model's, so it ends at the last stored chunk. -/
theorem stale_temp_file_does_not_leak (H : Bytes → Bytes) (comp : Bytes → Bytes) (c : CompressCmd) (fs : Fs)
    (old : Bytes) (htmp : fs.get c.temp = some (.regular old))
    (hdistinct : c.temp ≠ c.output ∧ c.input ≠ c.output ∧ c.input ≠ c.temp)
    (hflush : Gen.cliTempFlushedBeforeReturn = true) :
    let r := Cli.compress H comp c fs
    r.ok = true →
      r.fs.get c.temp = none ∧
      (∃ src, (fs.get c.input).map (·.data) = some src ∧
        r.fs.get c.output = some (.regular (createArchive H "cli" comp c.opts src))) :=
  Proofs.compress_ignores_stale_temp H comp c fs old htmp hdistinct hflush

/-! Non-vacuity: a concrete archive, its layout read back. -/
def toyH (x : Bytes) : Bytes := (x ++ List.replicate 64 0).take 64

example :
    let src : Bytes := [1, 2, 3, 1, 2, 3, 9]
    let dict := (dictionaryOf toyH "cli" id ⟨.fixed 3, 8, none, [([107], [118])]⟩ src).1
    dict.rebuildOrder = [0, 0, 1] ∧ dict.chunkDescriptors.map (·.archiveOffset) = [0, 3] ∧
    decodeDictionary (encodeDictionary dict) = some dict := by
  decide +kernel

/-- The library writer flushes its temp file before reading it back (read from api/compress.rs on
every run; F16 repair), as the command line writer does (`Gen.cliTempFlushedBeforeReturn`). -/
theorem lib_temp_file_flushed_fact : Gen.libTempFlushedBeforeRewind = true := by decide

/-- The command line refuses chunk sizes that do not fit the 32-bit fields of the dictionary (read
from cli.rs on every run; F21 repair): the `u32` bounds of `OptsOK` are what the CLI enforces. -/
theorem cli_sizes_fit_u32_fact : Gen.cliSizesFitU32 = true := by decide


/-! ### From the option texts to the recorded values (src/cli.rs, src/string_utils.rs,
`FilterBits::from_size`; modelled in `Bita.Model.Options`, tied by the in-process suite `l1 opts`) -/

/-- A size text is accepted with value `n` iff it is a number, alone or followed by one of the units
of the table read from string_utils.rs, and `n` is the number times the unit's multiplier, below 2^64. -/
theorem size_text_denotes (s : Options.Txt) (n : Nat) :
    Options.parseHumanSize s = .ok n ↔
      ∃ num v m, Options.parseUnsigned 64 num = some v ∧ n = m * v ∧ n < 2 ^ 64 ∧
        ((s = num ∧ m = 1) ∨ ∃ u, (u, m) ∈ Gen.sizeUnits ∧ s = num ++ u) :=
  Proofs.parseHumanSize_ok_iff s n

/-- `parse_chunker_opts` accepts exactly `2 <= avg`, `min <= avg <= max < 2^32`, `window < 2^32` (the last
two are the F21 repair) and records `log2 avg - 1` filter bits. -/
theorem chunker_options_accepted_iff (avg mn mx w : Nat) (f : FilterConfig) :
    Options.parseChunkerOpts avg mn mx w = .ok f ↔
      (2 ≤ avg ∧ mn ≤ avg ∧ avg ≤ mx ∧ mx < 2 ^ 32 ∧ w < 2 ^ 32 ∧ f = ⟨Nat.log2 avg - 1, mn, mx, w⟩) :=
  Proofs.parseChunkerOpts_ok_iff avg mn mx w f

/-- What an accepted `bita compress` command line hands to the writer: every size fits the 32-bit
field it is recorded in, the hash length is in the range the reader accepts, the compression is
none or brotli at a level within its range, the temp file is `tempPathOf output`. -/
theorem cli_accepts_only_recordable_options (a : Options.CompressArgs) (p : Options.CompressParsed)
    (h : Options.parseCompress a = .ok p) :
    p.cmd.output = a.output ∧ p.cmd.temp = tempPathOf a.output ∧ p.cmd.flags = ⟨a.force, false, false⟩ ∧
    p.stdin = a.input.isNone ∧ p.cmd.opts.metadata = [] ∧
    Gen.cliHashLengthMin ≤ p.cmd.opts.hashLen ∧ p.cmd.opts.hashLen ≤ Gen.hashMaxLen ∧
    (p.cmd.opts.compression = none ∨ ∃ l, 1 ≤ l ∧ l ≤ Gen.brotliMaxLevel ∧
      p.cmd.opts.compression = some (Gen.enum_CompressionType_BROTLI, l)) ∧
    (match p.cmd.opts.cfg with
      | .buzhash f | .rollsum f =>
        f.minSize ≤ f.maxSize ∧ 2 ≤ f.maxSize ∧ f.maxSize < 2 ^ 32 ∧ f.window < 2 ^ 32 ∧ f.bits ≤ 30
      | .fixed n => n < 2 ^ 32) :=
  Proofs.parseCompress_ok a p h

/-- **Requested = recorded = reported**, from the command line: for every accepted command line
outside the misuse set (`Proofs.NotMisuse`), the reader's conversions applied to what the CLI
writer records give back exactly the configuration, hash length and compression the texts denote. -/
theorem cli_requested_is_reported (a : Options.CompressArgs) (p : Options.CompressParsed)
    (h : Options.parseCompress a = .ok p) (hm : NotMisuse p.cmd.opts.cfg)
    (H : Bytes → Bytes) (comp : Bytes → Bytes) (src : Bytes) :
    ∃ prm c, (dictionaryOf H "cli" comp p.cmd.opts src).1.chunkerParams = some prm ∧
      (dictionaryOf H "cli" comp p.cmd.opts src).1.chunkCompression = some c ∧
      configFromParams prm = .ok p.cmd.opts.cfg ∧ prm.chunkHashLength = p.cmd.opts.hashLen ∧
      compressionFromDict [] c = .ok p.cmd.opts.compression ∧
      (dictionaryOf H "cli" comp p.cmd.opts src).1.metadata = [] :=
  Proofs.cli_requested_is_reported a p h hm H comp src

/-- **Metadata, from the command line to the archive.**  The map `compress_cmd` builds from the
`--metadata-value` pairs and then the `--metadata-file` pairs (model `Options.metadataOf`, tied by CLI
runs with repeated keys and files in `py c11_conformance`) is strictly ascending by key - so no key is
recorded twice - holds only pairs that were given, and records for every key the LAST value given. -/
theorem cli_metadata_map (strings files : List (Bytes × Bytes)) :
    (Options.metadataOf strings files).Pairwise Proofs.KeyLt ∧
    (∀ e ∈ Options.metadataOf strings files, e ∈ strings ++ files) ∧
    ∀ k, Proofs.metaLookup (Options.metadataOf strings files) k = Proofs.lastGiven (strings ++ files) k :=
  ⟨Proofs.metadataOf_sorted strings files, Proofs.metadataOf_mem strings files, Proofs.metadataOf_lookup strings files⟩

/-- ... and with it the configuration handed to the writer is `OptsOK` (the hypothesis of the writer,
format and round-trip theorems) for every accepted command line outside the misuse set, whatever
metadata is given (keys are Rust `String`s, hence UTF-8). -/
theorem cli_options_with_metadata_ok (a : Options.CompressArgs) (p : Options.CompressParsed)
    (h : Options.parseCompress a = .ok p) (hm : NotMisuse p.cmd.opts.cfg)
    (strings files : List (Bytes × Bytes)) (hk : ∀ e ∈ strings ++ files, utf8Valid e.1 = true) :
    OptsOK { p.cmd.opts with metadata := Options.metadataOf strings files } := by
  have ho := (Proofs.cli_options_ok_iff a p h).2 hm
  obtain ⟨hu, hs⟩ := Proofs.metadataOf_optsOK strings files hk
  exact { valid := ho.valid, accepted := ho.accepted, u32 := ho.u32, hash_len := ho.hash_len, compr := ho.compr,
          meta_utf8 := hu, meta_sorted := hs }

example : Options.metadataOf [([98], [1]), ([97], [2]), ([98], [3])] [([97], [4]), ([], [5])] =
    [([], [5]), ([97], [4]), ([98], [3])] := by decide +kernel

-- non-vacuity: the defaults; a command line with units, a sign and BuzHash; the 4 GiB boundary of F21;
-- the overflow of the size multiplication; a target average without a filter bit
def exDefaults : Options.CompressArgs := { output := "a.cba" }
def exUnits : Options.CompressArgs :=
  { output := "x/y.z", avg := some ['+', '5', 'K', 'i', 'B'], min := some ['1'], max := some ['3', 'M', 'i', 'B'],
    hashChunking := some ['B', 'u', 'z', 'H', 'a', 's', 'h'], hashLength := some ['0', '8'],
    compression := some ['n', 'o', 'n', 'e'] }
def exMax (t : Options.Txt) : Options.CompressArgs := { output := "a", max := some t }
def exAvg3 : Options.CompressArgs := { output := "a", avg := some ['3'], min := some ['0'] }

example : ∃ p, Options.parseCompress exDefaults = .ok p ∧
    p.cmd.opts.cfg = .rollsum ⟨15, 16384, 16777216, 64⟩ ∧ p.cmd.opts.hashLen = 64 := by
  refine ⟨_, rfl, ?_⟩; decide +kernel
example : ∃ p, Options.parseCompress exUnits = .ok p ∧
    p.cmd.opts.cfg = .buzhash ⟨11, 1, 3145728, 16⟩ ∧ p.cmd.opts.hashLen = 8 ∧ p.cmd.opts.compression = none := by
  refine ⟨_, rfl, ?_⟩; decide +kernel
example : (Options.parseCompress (exMax ['4', 'G', 'i', 'B'])).isRefused = true := by decide +kernel
example : ∃ p, Options.parseCompress (exMax ['4', '0', '9', '5', 'M', 'i', 'B']) = .ok p := ⟨_, rfl⟩
example : Options.parseHumanSize ['1', '7', '1', '7', '9', '8', '6', '9', '1', '8', '4', 'G', 'i', 'B'] = .panic := by
  decide +kernel
example : ∃ p, Options.parseCompress exAvg3 = .ok p ∧ ¬ NotMisuse p.cmd.opts.cfg := by
  refine ⟨_, rfl, ?_⟩; decide +kernel

/-- **Metadata, from the archive back to the reader.**  The writer's map model (`Options.metaInsert`,
`compress_cmd`) and the reader's (`Proto.mapInsert`, prost's map merge in `decodeDictionary`) were
written separately against different call sites; they are one function, so decoding the entries of
a written map in order rebuilds the map `compress_cmd` built. -/
theorem metadata_reader_and_writer_maps_agree (k v : Bytes) (m : List (Bytes × Bytes)) :
    Proto.mapInsert k v m = Options.metaInsert m k v :=
  Proofs.mapInsert_eq_metaInsert k v m

theorem decoded_metadata_entries_rebuild_the_written_map (pairs : List (Bytes × Bytes)) :
    pairs.foldl (fun m e => Proto.mapInsert e.1 e.2 m) [] = Options.metadataOf pairs [] :=
  Proofs.decoded_entries_build_the_written_map pairs

example : [([2], [9]), ([1], [7]), ([2], [8])].foldl (fun m (e : Bytes × Bytes) => Proto.mapInsert e.1 e.2 m) []
    = [([1], [7]), ([2], [8])] := by decide

end Bita.Props.C11
