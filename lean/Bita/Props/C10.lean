/-
  C10 — chunk boundaries resynchronise after differing prefixes.
  Only property theorems and their non-vacuity examples live here.
-/
import Bita.Model.Chunker
import Bita.Spec.Chunking
import Bita.Spec.Tiling
import Bita.Proofs.ChunkStream
import Bita.Proofs.ChunkRule
import Bita.Proofs.SpecChunks
import Bita.Proofs.Reuse

namespace Bita.Props.C10
open Bita Bita.Spec

/-- **Resynchronisation (rule level).**  Two streams `P1 ++ S` and `P2 ++ S` with arbitrary
prefixes (including empty); if both have a chunk boundary at the same position `B` of the
common data `S`, at least one hash window past its start, then all later chunks are identical
(same lengths at the same positions of `S`). -/
theorem spec_resync (cfg : Config) (hv : cfg.Valid) (hroll : ∀ n, cfg ≠ .fixed n)
    (P1 P2 S : Bytes) (B : Nat) (hB : windowOf cfg ≤ B) (hBS : B ≤ S.length)
    (h1 : IsEnd (specChunks cfg (P1 ++ S)) (P1.length + B))
    (h2 : IsEnd (specChunks cfg (P2 ++ S)) (P2.length + B)) :
    chunksFrom (specChunks cfg (P1 ++ S)) (P1.length + B) P1.length =
    chunksFrom (specChunks cfg (P2 ++ S)) (P2.length + B) P2.length :=
  Proofs.spec_resync cfg hv hroll P1 P2 S B hB hBS h1 h2

/-- Fixed-size chunking resynchronises when the prefixes are aligned modulo the size. -/
theorem fixed_resync (n : Nat) (hn : 1 ≤ n) (P1 P2 S : Bytes) (B : Nat) (hBS : B ≤ S.length)
    (h1 : IsEnd (specChunks (.fixed n) (P1 ++ S)) (P1.length + B))
    (h2 : IsEnd (specChunks (.fixed n) (P2 ++ S)) (P2.length + B)) :
    chunksFrom (specChunks (.fixed n) (P1 ++ S)) (P1.length + B) P1.length =
    chunksFrom (specChunks (.fixed n) (P2 ++ S)) (P2.length + B) P2.length :=
  Proofs.fixed_resync n hn P1 P2 S B hBS h1 h2

/-- **C10 for the chunker model under any delivery**: the same statement about what the
streaming chunker emits, whatever the two read scripts are (by C09's theorems). -/
theorem resync (cfg : Config) (hv : cfg.Valid) (hroll : ∀ n, cfg ≠ .fixed n)
    (P1 P2 S : Bytes) (B : Nat) (hB : windowOf cfg ≤ B) (hBS : B ≤ S.length)
    (s1 s2 : List Rd) (hc1 : Complete s1 (P1 ++ S).length = true)
    (hc2 : Complete s2 (P2 ++ S).length = true)
    (h1 : IsEnd (chunkStream cfg (P1 ++ S) s1) (P1.length + B))
    (h2 : IsEnd (chunkStream cfg (P2 ++ S) s2) (P2.length + B)) :
    chunksFrom (chunkStream cfg (P1 ++ S) s1) (P1.length + B) P1.length =
    chunksFrom (chunkStream cfg (P2 ++ S) s2) (P2.length + B) P2.length := by
  rw [Proofs.stream_independent_of_delivery cfg hv _ s1 hc1,
      Proofs.chunkAll_eq_specChunks cfg hv] at h1 ⊢
  rw [Proofs.stream_independent_of_delivery cfg hv _ s2 hc2,
      Proofs.chunkAll_eq_specChunks cfg hv] at h2 ⊢
  exact spec_resync cfg hv hroll P1 P2 S B hB hBS h1 h2

/-! Non-vacuity: a concrete pair (one prefix empty) with a real common boundary and a non-empty
identical continuation.  This is the F5 shape (window 4, `1 2 3 5 0 0 0 0 ...`). -/
example :
    let cfg := Config.buzhash ⟨1, 0, 6, 4⟩
    let S : Bytes := [1, 2, 3, 5, 0, 0, 0, 0, 0, 9, 8, 7, 6, 5, 4, 3, 2, 1, 0, 0, 0, 0, 0, 1]
    let P2 : Bytes := [9, 9, 9]
    cfg.Valid ∧ IsEnd (specChunks cfg ([] ++ S)) (0 + 6) ∧ IsEnd (specChunks cfg (P2 ++ S)) (3 + 6) ∧
    (chunksFrom (specChunks cfg ([] ++ S)) 6 0).length ≥ 2 := by
  decide +kernel

/-- **What resynchronisation is for.**  Source `P1 ++ S`, seed `P2 ++ S`, a common boundary at least one
hash window into `S`: every source chunk that starts at or after that boundary is, byte for byte,
a chunk of the seed - so the scan of the seed finds it (`Props.C06.unchanged_tail_not_fetched`:
it is then not fetched). -/
theorem resync_chunks_in_seed (cfg : Config) (hv : cfg.Valid) (hroll : ∀ n, cfg ≠ .fixed n)
    (P1 P2 S : Bytes) (B : Nat) (hB : windowOf cfg ≤ B) (hBS : B ≤ S.length)
    (h1 : IsEnd (chunkAll cfg (P1 ++ S)) (P1.length + B))
    (h2 : IsEnd (chunkAll cfg (P2 ++ S)) (P2.length + B)) :
    ∀ c ∈ chunkAll cfg (P1 ++ S), P1.length + B ≤ c.1 →
      ∃ c' ∈ chunkAll cfg (P2 ++ S), slice (P2 ++ S) c'.1 c'.2 = slice (P1 ++ S) c.1 c.2 :=
  Proofs.resync_chunks_in_seed cfg hv hroll P1 P2 S B hB hBS h1 h2

/-- the hypotheses of `resync_chunks_in_seed` are met by a concrete pair (RollSum, window 2, prefixes of
different lengths, common boundary 2 bytes into the common data) and the tails then agree -/
example :
    let cfg : Config := .rollsum ⟨1, 1, 5, 2⟩
    let S : Bytes := [3, 1, 4, 1, 5, 9, 2, 6, 5, 3, 5, 8, 9, 7, 9]
    let P1 : Bytes := [7, 7, 1]
    let P2 : Bytes := [2]
    cfg.Valid ∧ IsEnd (chunkAll cfg (P1 ++ S)) (P1.length + 2) ∧ IsEnd (chunkAll cfg (P2 ++ S)) (P2.length + 2) ∧
    chunksFrom (chunkAll cfg (P1 ++ S)) (P1.length + 2) P1.length =
      chunksFrom (chunkAll cfg (P2 ++ S)) (P2.length + 2) P2.length ∧
    (chunksFrom (chunkAll cfg (P1 ++ S)) (P1.length + 2) P1.length).length = 9 := by
  decide +kernel

end Bita.Props.C10
