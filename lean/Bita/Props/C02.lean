/-
  C02 — seeds never change what a clone produces.
  Only property theorems and their non-vacuity examples live here.
-/
import Bita.Proofs.CloneSound
import Bita.Proofs.CloneNoJunk
import Bita.Proofs.InPlace
import Bita.Proofs.StepOrder
import Bita.Proofs.OptionsCompose

namespace Bita.Props.C02
open Bita Bita.Spec

/-- **C02.**  The archive opens to `a`, which describes `src`.  For *every* list of seed streams -
any number, any order, any content (unrelated data, the source itself, edited copies, streams
whose chunks collide in size, empty streams) -, every prior output, in-place or not, local or
remote reader: a clone that reports success has produced exactly the source - the only escape
is a collision of the truncated strong hash with a genuine source chunk; colliding junk chunks
in the prior output are irrelevant (`Proofs.reorderOps_keep`).  Seeds only influence what is
fetched (`Props.C06`). -/
theorem seeds_irrelevant (H : Bytes → Bytes) (hH : ∀ x, (H x).length = 64)
    (decomp : Nat → Bytes → Nat → Option Bytes) (features : List Nat)
    (readAt : Nat → Nat → Option Bytes) (readChunks : List (Nat × Nat) → List (Option Bytes))
    (opts : CloneOpts) (prior : Bytes) (seeds : List Bytes)
    (a : Archive) (src : Bytes) (cks : List Bytes)
    (hinit : tryInit H features readAt = .ok a) (hd : Describes H a src cks)
    (hitems : ∀ ranges, (readChunks ranges).length = ranges.length) :
    let r := Clone.run H decomp features readAt readChunks opts prior seeds
    r.result = .ok →
      (setLen r.output src.length = src ∧ (opts.blockDev = false → r.output = src)) ∨
      Collision H a.hashLength cks :=
  Proofs.clone_sound_nojunk H hH decomp features readAt readChunks opts prior seeds a src cks hinit hd hitems

/-- The engine, at the level of keyed chunks: whatever the output held before, feeding *any*
sequence of chunks that contains every source chunk and resizing yields the source. -/
theorem feeds_exact {κ : Type} [DecidableEq κ] (content : κ → Bytes) (N : List κ) (p : Bytes)
    (hne : ∀ k, k ∈ N → content k ≠ []) (ks : List κ) (hall : ∀ k ∈ N, k ∈ ks) :
    resize (feedAll content ⟨p, indexOf content N, []⟩ ks).file (fileOf content N).length
      = fileOf content N :=
  Proofs.clone_exact content N p hne ks hall

/-! Non-vacuity: a tiny archive with a toy 64-byte hash, cloned with an unrelated seed, a seed
equal to the source and an empty seed, into a non-empty prior output. -/
def toyH (x : Bytes) : Bytes := (x ++ List.replicate 64 0).take 64

example :
    let src : Bytes := [1, 2, 3, 4, 5, 6, 7]
    let archive := createArchive toyH "lib" id ⟨.fixed 3, 8, none, []⟩ src
    (Clone.run toyH (fun _ b _ => some b) [] (honestReadAt archive) (honestReadChunks archive)
      {} [9, 9] [[7, 7, 7, 7], src, []]).result = .ok ∧
    (Clone.run toyH (fun _ b _ => some b) [] (honestReadAt archive) (honestReadChunks archive)
      {} [9, 9] [[7, 7, 7, 7], src, []]).output = src := by
  decide +kernel

/-- The step order of `clone_archive` that `Clone.run` transcribes (scan the output and reorder in
place *before* any seed is used, fetch last, flush before resize), read from the source on every
run: a reordering of the steps in the code breaks this theorem. -/
theorem clone_steps_as_modelled :
    Gen.cloneStepOrder = ["try_init", "banner", "pin", "open_output", "device_check", "scan_output", "reorder",
                          "seed_stdin", "seed_files", "fetch", "flush", "resize", "verify_output"] :=
  Proofs.clone_step_order_fact


/-- **"Seed files and stdin, in any number and order", from the command line.**  What `clone_cmd`
is handed for any accepted `bita clone` command line: every `--seed` value other than `-` is a seed
file, in the order given (repeats and the output's own name included, nothing added or dropped),
stdin is a seed iff `-` is among them, and in-place mode is on iff `--seed-output` was given. -/
theorem cli_seeds_as_given (a : Options.CloneArgs) (p : Options.CloneParsed)
    (hp : Options.parseClone a = .ok p) :
    p.cmd.seedPaths = a.seeds.filter (· ≠ "-") ∧ p.seedStdin = a.seeds.contains "-" ∧
    p.cmd.flags.seedOutput = a.seedOutput := by
  obtain ⟨_, _, hfl, hs, hst, _⟩ := Proofs.parseClone_ok a p hp
  exact ⟨hs, hst, by rw [hfl]⟩

end Bita.Props.C02
