/-
  C06 — only chunks missing from seeds and prior output are fetched, each once.
  Only property theorems and their non-vacuity examples live here.
-/
import Bita.Proofs.CloneSound
import Bita.Proofs.CloneNoJunk
import Bita.Proofs.StepOrder
import Bita.Proofs.Reuse

namespace Bita.Props.C06
open Bita Bita.Spec

/-- **C06.**  A successful clone has asked the archive reader for the pre-header, the rest of the
header and then - in a single `read_chunks` call - exactly the stored ranges of the descriptors,
in descriptor order, each once, whose key neither the scan of the prior output (when it is
used as seed) nor the scan of any seed found.  Nothing else is read from the archive.  The scan
of the output covers the whole output from offset 0 for regular files and block devices alike
(`Clone.run` scans `prior`; that the real scan starts at offset 0 is the extracted fact
`Gen.fileSizeRewinds` plus the CLI-level correspondence).  The only escape is a collision of the
truncated strong hash with a genuine source chunk; colliding junk chunks in the prior output are
irrelevant (`Proofs.reorderOps_keep`). -/
theorem fetch_exact (H : Bytes → Bytes) (hH : ∀ x, (H x).length = 64)
    (decomp : Nat → Bytes → Nat → Option Bytes) (features : List Nat)
    (readAt : Nat → Nat → Option Bytes) (readChunks : List (Nat × Nat) → List (Option Bytes))
    (opts : CloneOpts) (prior : Bytes) (seeds : List Bytes)
    (a : Archive) (src : Bytes) (cks : List Bytes)
    (hinit : tryInit H features readAt = .ok a) (hd : Describes H a src cks)
    (hitems : ∀ ranges, (readChunks ranges).length = ranges.length) :
    let r := Clone.run H decomp features readAt readChunks opts prior seeds
    r.result = .ok →
      r.requests = [ArchReq.readAt 0 Gen.preHeaderSize,
                    ArchReq.readAt Gen.preHeaderSize (a.headerSize - Gen.preHeaderSize),
                    ArchReq.readChunks ((a.chunks.filter (fun d =>
                      !(Proofs.foundKeys H a opts prior seeds).contains (hashTruncate d.checksum a.hashLength))).map
                      (fun d => (d.archiveOffset, d.archiveSize)))] ∨
      Collision H a.hashLength cks :=
  Proofs.fetch_exact_nojunk H hH decomp features readAt readChunks opts prior seeds a src cks hinit hd hitems

/-- The cursor repair this property depends on must be in the source. -/
theorem scan_starts_at_zero_fact : Gen.fileSizeRewinds = true := by decide

/-! Non-vacuity: with the source itself as prior output of an in-place clone nothing is fetched;
with an unrelated prior output everything is. -/
def toyH (x : Bytes) : Bytes := (x ++ List.replicate 64 0).take 64

example :
    let src : Bytes := [1, 2, 3, 4, 5, 6, 7]
    let archive := createArchive toyH "lib" id ⟨.fixed 3, 8, none, []⟩ src
    let run := fun (prior : Bytes) => (Clone.run toyH (fun _ b _ => some b) [] (honestReadAt archive)
      (honestReadChunks archive) { seedOutput := true } prior []).requests.getLast?
    run src = some (ArchReq.readChunks []) ∧
    ((run [9, 9, 9, 9]).map fun q => match q with
      | .readChunks l => l.length
      | .readAt .. => 0) = some 3 := by
  decide +kernel

/-- The step order of `clone_archive` that `Clone.run` transcribes (scan the output and reorder in
place *before* any seed is used, fetch last, flush before resize), read from the source on every
run: a reordering of the steps in the code breaks this theorem. -/
theorem clone_steps_as_modelled :
    Gen.cloneStepOrder = ["try_init", "banner", "pin", "open_output", "device_check", "scan_output", "reorder",
                          "seed_stdin", "seed_files", "fetch", "flush", "resize", "verify_output"] :=
  Proofs.clone_step_order_fact

/-- **Reuse after an edit** (C10 ∘ C06).  The archive describes the source `P1 ++ S` cut by its own
chunker; one of the seeds is `P2 ++ S` (any other seeds, any prior output); both chunkings place a
boundary at least one hash window into `S`.  Then the one `read_chunks` request of a successful
clone names no descriptor of a source chunk that starts at or after that boundary - or a
collision is exhibited. -/
theorem unchanged_tail_not_fetched (H : Bytes → Bytes) (hH : ∀ x, (H x).length = 64)
    (decomp : Nat → Bytes → Nat → Option Bytes) (features : List Nat)
    (readAt : Nat → Nat → Option Bytes) (readChunks : List (Nat × Nat) → List (Option Bytes))
    (opts : CloneOpts) (prior : Bytes) (seeds : List Bytes)
    (a : Archive) (P1 P2 S : Bytes) (B : Nat)
    (hinit : tryInit H features readAt = .ok a)
    (hd : Describes H a (P1 ++ S) ((chunkAll a.config (P1 ++ S)).map fun c => slice (P1 ++ S) c.1 c.2))
    (hitems : ∀ ranges, (readChunks ranges).length = ranges.length)
    (hroll : ∀ n, a.config ≠ .fixed n)
    (hseed : P2 ++ S ∈ seeds)
    (hB : windowOf a.config ≤ B) (hBS : B ≤ S.length)
    (h1 : IsEnd (chunkAll a.config (P1 ++ S)) (P1.length + B))
    (h2 : IsEnd (chunkAll a.config (P2 ++ S)) (P2.length + B)) :
    let r := Clone.run H decomp features readAt readChunks opts prior seeds
    r.result = .ok →
      (∃ fetched : List Descr,
        r.requests = [ArchReq.readAt 0 Gen.preHeaderSize,
                      ArchReq.readAt Gen.preHeaderSize (a.headerSize - Gen.preHeaderSize),
                      ArchReq.readChunks (fetched.map fun d => (d.archiveOffset, d.archiveSize))] ∧
        (∀ d ∈ fetched, d ∈ a.chunks) ∧
        ∀ c ∈ chunkAll a.config (P1 ++ S), P1.length + B ≤ c.1 →
          ∀ d ∈ fetched, d.checksum ≠ hashTruncate (H (slice (P1 ++ S) c.1 c.2)) a.hashLength) ∨
      Collision H a.hashLength ((chunkAll a.config (P1 ++ S)).map fun c => slice (P1 ++ S) c.1 c.2) :=
  Proofs.unchanged_tail_not_fetched H hH decomp features readAt readChunks opts prior seeds a P1 P2 S B
    hinit hd hitems hroll hseed hB hBS h1 h2

end Bita.Props.C06
