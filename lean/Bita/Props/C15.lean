/-
  C15 — untrusted archives/servers yield errors, never panics, aborts or unbounded work.
  Only property theorems and their non-vacuity examples live here.

  The model of the open path (`tryInit`, `banner`, `sourceChunks`) and of the HTTP reader has an
  explicit branch for every Rust operation that can panic on untrusted input; the theorems say
  those branches are unreachable.  Which operations those are is the modeller's reading of the
  code: the correspondence generators (structure-aware mutation under a recomputed checksum,
  every worker under catch_unwind / a watchdog) are what ties that reading to the code.
-/
import Bita.Proofs.TryInit
import Bita.Proofs.HttpSafe
import Bita.Proofs.SpecChunks
import Bita.Proofs.ChunkRule
import Bita.Proofs.ChunkStream
import Bita.Proofs.ReaderEnv
import Bita.Proofs.Alloc
import Bita.Proofs.HttpBounds
import Bita.Proofs.ScanMemory
import Bita.Proofs.Sink
import Bita.Proofs.ProtoSkip

namespace Bita.Props.C15
open Bita Bita.Spec

/-- **T1.**  For every byte string behind an honest reader, and every behaviour of a reader that
keeps the `read_at` contract (exactly `size` bytes, or an error), opening ends in success or a
reported error: neither a panic branch nor the abort branch of the model is reachable. -/
theorem tryInit_total (H : Bytes → Bytes) (features : List Nat) (read : Nat → Nat → Option Bytes)
    (hr : Proofs.ExactReader read) :
    (∃ a, tryInit H features read = .ok a) ∨ (∃ w, tryInit H features read = .invalid w) ∨
      tryInit H features read = .readerErr :=
  Proofs.tryInit_total H features read hr

/-- **T1 over HTTP / through the local reader.**  The contract is met by the models of both
readers under *every* behaviour of what is below them - any server (any bytes of any length,
error pages, nothing), any transport failure script and retry budget; any short-read /
`Pending` / error script -, so opening any remote or local archive ends in success, a reported
format error or a reported reader error. -/
theorem remote_open_total (H : Bytes → Bytes) (features : List Nat) (e : HttpEnv) :
    (∃ a, tryInit H features e.readAt = .ok a) ∨ (∃ w, tryInit H features e.readAt = .invalid w) ∨
      tryInit H features e.readAt = .readerErr :=
  Proofs.tryInit_http_total H features e

theorem local_open_total (H : Bytes → Bytes) (features : List Nat) (e : IoEnv) :
    (∃ a, tryInit H features e.readAt = .ok a) ∨ (∃ w, tryInit H features e.readAt = .invalid w) ∨
      tryInit H features e.readAt = .readerErr :=
  Proofs.tryInit_total H features e.readAt (Proofs.io_env_exact e)

/-- **T2 (inspect).**  On an accepted archive the arithmetic of the `info`/`clone` banner and the
construction of the source index reach no panic branch (every rebuild index is in range, every
stored size is at least 1, offsets fit, filter bits are within 1..30); the hash length is 1..64
(`Gen.hashLengthChecked`, F20 repair) and the chunk sizes in rebuild order add up to the declared
source size (`Gen.sourceSizeSumChecked`, F18 repair). -/
theorem accepted_archive_is_safe (H : Bytes → Bytes) (features : List Nat) (read : Nat → Nat → Option Bytes)
    (a : Archive) (h : tryInit H features read = .ok a) :
    (∃ r, a.banner = .ok r) ∧ (∃ cs, a.sourceChunks = some cs) ∧ (∃ ix, a.sourceIndex = some ix) ∧
    configAccepted a.config = true ∧ (∀ i ∈ a.sourceOrder, i < a.chunks.length) ∧
    (∀ d ∈ a.chunks, 1 ≤ d.archiveSize ∧ d.archiveOffset + d.archiveSize ≤ usizeMax ∧ d.checksum.length ≤ 64) ∧
    (1 ≤ a.hashLength ∧ a.hashLength ≤ 64) ∧
    (a.sourceOrder.map fun i => ((a.chunks[i]?).map (·.sourceSize)).getD 0).sum = a.sourceTotalSize :=
  ⟨(Proofs.accepted_banner_safe H features read a h).1, (Proofs.accepted_banner_safe H features read a h).2.1,
   (Proofs.accepted_banner_safe H features read a h).2.2,
   (Proofs.tryInit_ok_facts H features read a h).1, (Proofs.tryInit_ok_facts H features read a h).2.1,
   (Proofs.tryInit_ok_facts H features read a h).2.2.1,
   (Proofs.tryInit_ok_facts H features read a h).2.2.2.2.1,
   (Proofs.tryInit_ok_facts H features read a h).2.2.2.2.2⟩

/-- **T2 (chunk ranges).**  Every `ChunkOffset::end()` - and hence every adjacent-run sum
`offset + size` - the readers compute for a descriptor of an accepted archive fits 64 bits
(`a.chunks` holds the absolute offsets `chunk_data_offset + archive_offset`): no overflow of the
range arithmetic in the local or the HTTP chunk reader.  This holds because the end-offset check
is in the source (`Gen.chunkEndOffsetChecked`, read on every run; F12 repair). -/
theorem accepted_archive_ranges_fit_u64 (H : Bytes → Bytes) (features : List Nat)
    (read : Nat → Nat → Option Bytes) (a : Archive) (h : tryInit H features read = .ok a) :
    ∀ d ∈ a.chunks, (ChunkOffset.mk d.archiveOffset d.archiveSize).stop ≤ usizeMax :=
  fun d hd => ((accepted_archive_is_safe H features read a h).2.2.2.2.2.1 d hd).2.1

/-- **T2 (bounded work).**  Scanning any input with valid chunker parameters emits chunks of at
least one byte each that tile the input: at most `|input|` chunks, whatever the read delivery. -/
theorem scan_is_bounded (cfg : Config) (hv : cfg.Valid) (data : Bytes) (script : List Rd)
    (hc : Complete script data.length = true) :
    Tiles (chunkStream cfg data script) 0 data.length := by
  rw [Proofs.stream_independent_of_delivery cfg hv data script hc, Proofs.chunkAll_eq_specChunks cfg hv]
  exact Proofs.specChunks_tile cfg hv data

/-- **T2 (bounded work, at the archive boundary).**  The chunker parameters the reader accepts are
exactly the valid ones (`Config.Valid` *is* `configAccepted`: RollSum with a window larger than the
maximum chunk size included), so scanning a seed with the parameters of *any* archive that opened
is bounded as above. -/
theorem accepted_iff_valid (c : Config) : configAccepted c = true ↔ c.Valid :=
  Proofs.configAccepted_iff_valid c

theorem accepted_archive_scan_is_bounded (H : Bytes → Bytes) (features : List Nat)
    (read : Nat → Nat → Option Bytes) (a : Archive) (h : tryInit H features read = .ok a)
    (data : Bytes) (script : List Rd) (hc : Complete script data.length = true) :
    Tiles (chunkStream a.config data script) 0 data.length :=
  scan_is_bounded a.config
    ((accepted_iff_valid a.config).1 (Proofs.tryInit_ok_facts H features read a h).1) data script hc

/-- **T2 (bounded allocation, local header read).**  Whatever size an unverified pre-header declares
and however the reads come in, every capacity `IoReader::read_at` asks the allocator for is at
most the bytes the file has actually delivered plus `MAX_PREALLOCATE` (1 MiB), and never more than
`size`.  The bound holds because both `min(.., MAX_PREALLOCATE)` guards are in the source
(`Gen.ioInitialCapacityBounded`, `Gen.ioGrowBounded`, read on every run; F8.k12 repair). -/
theorem local_header_read_allocation_bounded (file : Bytes) (offset size : Nat) (script : List ReadEv) :
    ∀ e ∈ ioReadAtCaps file offset size script,
      e.1 ≤ e.2 + Gen.ioMaxPreallocate ∧ e.2 ≤ file.length - offset ∧ e.1 ≤ size :=
  Proofs.io_read_at_allocation_bounded file offset size script

/-- **T2 (bounded buffering, remote header read).**  Whatever the server sends for a header read of
`size` bytes - any number of body frames of any sizes, an endless body - `single_fail` buffers at
most `size` plus one frame (the stop condition `>=` is read from the source; F10 repair). -/
theorem remote_header_read_buffering_bounded (size : Nat) (frames : List Nat) :
    httpSingleTake size 0 frames ≤ size + Proofs.maxFrame frames :=
  Proofs.http_read_at_take_bounded size frames

/-- **T2 (bounded memory per chunk).**  The decompressor of the code never hands on more than the size
declared for the chunk, for *any* codec behaviour (`Gen.decompressOutputLimited`: the output limit
is in the source, F11 repair), and a decoded chunk of any - untrusted - descriptor is no longer
than the larger of its declared source size and the stored bytes: a compressed stream cannot
choose how much memory the reader uses. -/
theorem decoded_chunk_follows_declared_sizes (H : Bytes → Bytes) (raw : Nat → Bytes → Option Bytes)
    (compr : Compr) (d : Descr) (stored chunk : Bytes)
    (h : decodeChunk H (limitedDecomp raw) compr d stored = some chunk) :
    chunk.length ≤ max d.sourceSize stored.length :=
  Proofs.decodeChunk_bounded H (limitedDecomp raw) (Proofs.limitedDecomp_bounded raw) compr d stored chunk h

/-- **T2 (a decoded chunk is exactly as large as declared).**  For any - untrusted - descriptor, any
stored bytes and any codec: a chunk that `decodeChunk` hands on to the output has exactly the
declared source size (`Gen.chunkLengthChecked`: the length test is in the source, F19 repair), so
what a clone writes at a chunk's source offsets is as long as the index says. -/
theorem decoded_chunk_has_declared_size (H : Bytes → Bytes) (raw : Nat → Bytes → Option Bytes)
    (compr : Compr) (d : Descr) (stored chunk : Bytes)
    (h : decodeChunk H (limitedDecomp raw) compr d stored = some chunk) :
    chunk.length = d.sourceSize :=
  (Proofs.decodeChunk_some_inv H (limitedDecomp raw) compr d stored chunk h).1

/-- **T3 (64-bit arithmetic).**  For any server behaviour, every range request the HTTP chunk reader
issues ends exactly at the end of one of the listed chunks and starts at or after the start of one
of them; with `accepted_archive_ranges_fit_u64` every `offset + size` it forms for an accepted
archive therefore fits 64 bits: the model's arithmetic in `Nat` is the code's arithmetic in `u64`. -/
theorem remote_reader_sums_are_chunk_ends (serve : Nat → Nat → Bytes) (retry : Nat) (script : List Resp)
    (chunks : List ChunkOffset) (hsize : ∀ c ∈ chunks, 1 ≤ c.size) :
    ∀ q ∈ (httpReadChunks serve retry script chunks).reqs,
      (∃ c ∈ chunks, q.1 + q.2 = c.stop) ∧ (∃ c ∈ chunks, c.offset ≤ q.1) ∧ 1 ≤ q.2 :=
  Proofs.http_request_ends_are_chunk_ends serve retry script chunks hsize

/-- **T3.**  For *any* server behaviour (any bytes of any length for any range: surplus bytes,
empty bodies, error pages), any failure script, any retry budget, and chunks of stored size ≥ 1
(enforced at open), the HTTP chunk reader's stream contains no panic item - no underflow of the
request size, of the adjacent-run counter or of `offset + size - 1`. -/
theorem server_bytes_safe (serve : Nat → Nat → Bytes) (retry : Nat) (script : List Resp)
    (chunks : List ChunkOffset) (hsize : ∀ c ∈ chunks, 1 ≤ c.size) :
    Item.panic ∉ (httpReadChunks serve retry script chunks).items :=
  Proofs.http_no_panic serve retry script chunks hsize

theorem server_bytes_safe_single (serve : Nat → Nat → Bytes) (retry offset size : Nat) (script : List Resp)
    (hsize : 1 ≤ size) :
    (httpReadAt serve retry offset size script).1 ≠ Item.panic :=
  Proofs.http_read_at_no_panic serve retry offset size script hsize

/-! Non-vacuity / regression witnesses: headers whose checksum is valid but whose dictionary is
inconsistent are reported as invalid (each of these panicked before the F8 repairs). -/
def toyH (x : Bytes) : Bytes := (x ++ List.replicate 64 0).take 64

def openDict (d : Proto.ChunkDictionary) : Bool :=
  match tryInit toyH [] (honestReadAt (buildHeader toyH d none)) with
  | .invalid _ => true
  | _ => false

example :
    -- rebuild index out of range; fixed size 0; window 0; filter bits 0 and 31; min > max; stored size 0;
    -- start of the chunk fits 64 bits (header 132 + offset = 2^64 - 3) but its end does not (F12);
    -- hash length 0 and 65 (F20); declared source size 4, the chunks add up to 3 (F18)
    openDict { chunkerParams := some ⟨5, 1, 9, 3, 8, 1⟩, chunkCompression := some ⟨0, 0⟩, rebuildOrder := [1],
               chunkDescriptors := [⟨[1,2,3,4,5,6,7,8], 3, 0, 3⟩] } = true ∧
    openDict { chunkerParams := some ⟨0, 0, 0, 0, 8, 2⟩, chunkCompression := some ⟨0, 0⟩ } = true ∧
    openDict { chunkerParams := some ⟨5, 1, 9, 0, 8, 0⟩, chunkCompression := some ⟨0, 0⟩ } = true ∧
    openDict { chunkerParams := some ⟨0, 1, 9, 3, 8, 1⟩, chunkCompression := some ⟨0, 0⟩ } = true ∧
    openDict { chunkerParams := some ⟨31, 1, 9, 3, 8, 1⟩, chunkCompression := some ⟨0, 0⟩ } = true ∧
    openDict { chunkerParams := some ⟨5, 10, 9, 3, 8, 1⟩, chunkCompression := some ⟨0, 0⟩ } = true ∧
    openDict { chunkerParams := some ⟨5, 1, 9, 3, 8, 1⟩, chunkCompression := some ⟨0, 0⟩, rebuildOrder := [0],
               chunkDescriptors := [⟨[1,2,3,4,5,6,7,8], 0, 0, 3⟩] } = true ∧
    openDict { chunkerParams := some ⟨5, 1, 9, 3, 8, 1⟩, chunkCompression := some ⟨0, 0⟩, rebuildOrder := [0],
               chunkDescriptors := [⟨[1,2,3,4,5,6,7,8], 100, 2 ^ 64 - 135, 3⟩] } = true ∧
    openDict { chunkerParams := some ⟨5, 1, 9, 3, 0, 1⟩, chunkCompression := some ⟨0, 0⟩ } = true ∧
    openDict { chunkerParams := some ⟨5, 1, 9, 3, 65, 1⟩, chunkCompression := some ⟨0, 0⟩ } = true ∧
    openDict { sourceTotalSize := 4, chunkerParams := some ⟨5, 1, 9, 3, 8, 1⟩, chunkCompression := some ⟨0, 0⟩,
               rebuildOrder := [0], chunkDescriptors := [⟨[1,2,3,4,5,6,7,8], 3, 0, 3⟩] } = true := by
  decide +kernel

/-- the two new checks are sharp: hash lengths 1 and 64 open, and so does the last dictionary above
once it declares the 3 bytes its chunks add up to -/
example :
    openDict { chunkerParams := some ⟨5, 1, 9, 3, 1, 1⟩, chunkCompression := some ⟨0, 0⟩ } = false ∧
    openDict { chunkerParams := some ⟨5, 1, 9, 3, 64, 1⟩, chunkCompression := some ⟨0, 0⟩ } = false ∧
    (match tryInit toyH [] (honestReadAt (buildHeader toyH
        { sourceTotalSize := 3, chunkerParams := some ⟨5, 1, 9, 3, 8, 1⟩, chunkCompression := some ⟨0, 0⟩,
          rebuildOrder := [0], chunkDescriptors := [⟨[1,2,3,4,5,6,7,8], 3, 0, 3⟩] } none)) with
      | .ok a => a.sourceTotalSize == 3 && a.hashLength == 8
      | _ => false) = true := by
  decide +kernel

/-- the end-offset check is sharp: that header (which now also declares the 3 source bytes of its
chunk, as the reader demands since the F18 repair) is 134 bytes long; with a stored size of 2 the
chunk ends exactly at `usizeMax` and the archive opens, with a stored size of 3 it is refused -/
example :
    (buildHeader toyH
        { sourceTotalSize := 3, chunkerParams := some ⟨5, 1, 9, 3, 8, 1⟩, chunkCompression := some ⟨0, 0⟩,
          rebuildOrder := [0], chunkDescriptors := [⟨[1,2,3,4,5,6,7,8], 2, 2 ^ 64 - 137, 3⟩] } none).length = 134 ∧
    (match tryInit toyH [] (honestReadAt (buildHeader toyH
        { sourceTotalSize := 3, chunkerParams := some ⟨5, 1, 9, 3, 8, 1⟩, chunkCompression := some ⟨0, 0⟩,
          rebuildOrder := [0], chunkDescriptors := [⟨[1,2,3,4,5,6,7,8], 2, 2 ^ 64 - 137, 3⟩] } none)) with
      | .ok a => a.chunks.map (fun d => (ChunkOffset.mk d.archiveOffset d.archiveSize).stop) == [usizeMax]
      | _ => false) = true ∧
    openDict { sourceTotalSize := 3, chunkerParams := some ⟨5, 1, 9, 3, 8, 1⟩, chunkCompression := some ⟨0, 0⟩,
               rebuildOrder := [0], chunkDescriptors := [⟨[1,2,3,4,5,6,7,8], 3, 2 ^ 64 - 137, 3⟩] } = true := by
  decide +kernel

/-- a RollSum window larger than the maximum chunk size is accepted, and valid -/
example : configAccepted (.rollsum ⟨2, 0, 3, 8⟩) = true ∧ (Config.rollsum ⟨2, 0, 3, 8⟩).Valid ∧
    configAccepted (.buzhash ⟨2, 0, 3, 8⟩) = false := by decide

/-- a 100-byte file whose pre-header declares 2^62 bytes: the capacities asked for stay at 1 MiB
beyond the delivered bytes; an endless body of 16381-byte frames for a 14-byte read: one frame is
taken -/
example :
    ioReadAtCaps (List.replicate 100 7) 14 (2 ^ 62) [.bytes 60, .bytes 60, .bytes 60] =
      [(1048576, 0)] ∧
    httpSingleTake 14 0 (List.replicate 1000 16381) = 16381 ∧
    -- a "codec" that expands 3 stored bytes to 5000: refused when 100 are declared, passed when 5000 are
    limitedDecomp (fun _ _ => some (List.replicate 5000 0)) 3 [1, 2, 3] 100 = none ∧
    (limitedDecomp (fun _ _ => some (List.replicate 5000 0)) 3 [1, 2, 3] 5000).isSome = true := by
  decide +kernel

/-- **Resource clause for the seed scan's chunker.**  The chunker built from the parameters of any
archive that opened asks the allocator for the stream buffer (1 MiB) and for the rolling-hash
window: for BuzHash four bytes per window entry, and the reader accepts a BuzHash window only up to
the declared maximum chunk size - so at most four times the chunk size the format declares; for
RollSum one byte per entry of the declared window (a 32-bit field).  (This is the exact form of the
"16 GiB for a 4 GiB window" observation of DESIGN.md section 6: bounded by what is declared, times 4.) -/
theorem accepted_archive_chunker_allocation_bounded (H : Bytes → Bytes) (features : List Nat)
    (read : Nat → Nat → Option Bytes) (a : Archive) (h : tryInit H features read = .ok a) :
    ∀ n ∈ chunkerAllocations a.config,
      match a.config with
      | .buzhash f => n ≤ max (4 * f.maxSize) Gen.refillSize
      | .rollsum f => n ≤ max f.window Gen.refillSize
      | .fixed _ => n ≤ Gen.refillSize := by
  have hacc := (Proofs.tryInit_ok_facts H features read a h).1
  intro n hn
  cases hc : a.config with
  | buzhash f =>
    rw [hc] at hn hacc
    simp only [configAccepted, decide_eq_true_eq] at hacc
    simp only [chunkerAllocations, List.mem_cons, List.mem_nil_iff, or_false] at hn
    have : (4 * 256 : Nat) ≤ Gen.refillSize := by decide
    rcases hn with rfl | rfl | rfl <;> simp only <;> omega
  | rollsum f =>
    rw [hc] at hn
    simp only [chunkerAllocations, List.mem_cons, List.mem_nil_iff, or_false] at hn
    rcases hn with rfl | rfl <;> simp only <;> omega
  | fixed m =>
    rw [hc] at hn
    simp only [chunkerAllocations, List.mem_cons, List.mem_nil_iff, or_false] at hn
    subst hn; exact Nat.le_refl _

/-- **Resource clause for the seed scan's buffer.**  Scanning any data (a seed, the prior output) with
the chunker parameters of any archive that opened: the chunker asks for more data only while less
than one maximum-size chunk is buffered, so every capacity the streaming chunker's buffer is grown to
is below `2 * (declared maximum chunk size + REFILL_SIZE)` - whatever the data, its length and the
amounts the reads deliver.  (`BytesMut::reserve`'s amortised growth is a modelled dependency; the
in-process allocation probe of `l1 fmt` judges the same bound on the real scan.) -/
theorem accepted_archive_scan_buffer_bounded (H : Bytes → Bytes) (features : List Nat)
    (read : Nat → Nat → Option Bytes) (a : Archive) (h : tryInit H features read = .ok a)
    (data : Bytes) (script : List Rd) :
    ∀ e ∈ SC.caps ⟨0, data, 0, Chunker.ofConfig a.config⟩ Gen.refillSize script,
      e.1 < 2 * (Proofs.WriterDescr.maxChunk a.config + Gen.refillSize) ∧ e.2 ≤ e.1 :=
  Proofs.scan_capacity_bounded a.config
    ((Proofs.configAccepted_iff_valid a.config).1 (Proofs.tryInit_ok_facts H features read a h).1) data script

/-- ... for every valid configuration, and the step it rests on: `Chunker::next` answers "need more
data" only on a buffer shorter than the maximum chunk size. -/
theorem scan_buffer_bounded (cfg : Config) (hv : cfg.Valid) (data : Bytes) (script : List Rd) :
    ∀ e ∈ SC.caps ⟨0, data, 0, Chunker.ofConfig cfg⟩ Gen.refillSize script,
      e.1 < 2 * (Proofs.WriterDescr.maxChunk cfg + Gen.refillSize) ∧ e.2 ≤ e.1 :=
  Proofs.scan_capacity_bounded cfg hv data script

theorem chunker_wants_data_only_below_max (c : Chunker) (rest : Bytes) (n : Nat) (c' : Chunker)
    (hi : Proofs.CS.CInv c n) (hl : n ≤ rest.length) (hn : c.next rest n = (c', none)) :
    n < Proofs.chunkerMax c :=
  (Proofs.next_none_lt_max c rest n c' hi hl hn).1

-- non-vacuity: a scan whose buffer is grown once (20 bytes in fixed-size chunks of 5, reads of 9: after the
-- first chunk 4 bytes are left and fewer than REFILL_SIZE are spare, so the capacity doubles), within the bound
example : SC.caps ⟨0, List.replicate 20 0, 0, Chunker.ofConfig (.fixed 5)⟩ Gen.refillSize
    [.bytes 9, .bytes 9, .bytes 9, .bytes 9] = [(1048576, 9), (2097152, 13), (2097152, 5)] := by
  decide +kernel

/-- **Decompression memory (F11) as a theorem about the sink.**  Every decompressor writes into
`LimitedOutput` (model `Sink`, tied through the hook `bitar::verif_limited_output` by `l1 fmt`): whatever
sequence of writes it makes - the codecs are not modelled, so: *any* - the buffer never holds more than
the size declared for the chunk; the run ends in exactly the bytes written if they fit, and in an error
at the first write that would not.  The whole-output model the clone theorems use (`limitedDecomp`)
is that sink run on any way of cutting the codec's output into writes. -/
theorem decompression_buffer_never_exceeds_declared_size (declared : Nat) (writes : List Bytes) :
    ∀ n ∈ Sink.states declared writes, n ≤ declared :=
  Proofs.sink_states_le declared writes

theorem decompression_exact_or_error (declared : Nat) (writes : List Bytes) (out : Bytes) :
    Sink.run declared writes = .ok out ↔ (writes.flatten.length ≤ declared ∧ out = writes.flatten) :=
  Proofs.sink_run_ok_iff declared writes out

theorem limited_decomp_is_the_sink (raw : Nat → Bytes → Option Bytes) (algo : Nat) (stored : Bytes) (declared : Nat)
    (out : Bytes) (hraw : raw algo stored = some out) (writes : List Bytes) (hp : writes.flatten = out) :
    limitedDecomp raw algo stored declared = (match Sink.run declared writes with
      | .ok b => some b
      | .error _ => none) :=
  Proofs.limitedDecomp_eq_sink raw algo stored declared out hraw writes hp

example : Sink.run 5 [[1, 2], [3], [4, 5]] = .ok [1, 2, 3, 4, 5] := rfl
example : Sink.run 5 [[1, 2], [3, 4, 5, 6], [7]] = .error 1 := rfl
example : Sink.states 5 [[1, 2], [3, 4, 5, 6], [7]] = [2] := by decide +kernel

/-- **Dictionary decoding does bounded work on any bytes.**  prost's reader of the (untrusted)
dictionary is modelled with an explicit fuel; these two theorems say the fuel is not what bounds it:
every field read consumes at least its key byte - so a dictionary of `n` bytes is at most `n` fields,
at every nesting level - and an unknown group (wire type 3, nested up to prost's recursion limit) is
left strictly behind, for any bytes whatever. -/
theorem dictionary_fields_bounded_by_bytes (forceLen : List Nat) (fuel : Nat) (b : Bytes)
    (fs : List (Nat × Option Proto.WireVal)) (h : Proto.parseMessage forceLen fuel b = some fs) :
    fs.length ≤ b.length :=
  Proofs.parseMessage_field_count forceLen fuel b fs h

theorem unknown_group_skip_progresses (fuel depth gtag : Nat) (b r : Bytes)
    (h : Proto.skipGroup fuel depth gtag b = some r) : r.length < b.length :=
  Proofs.skipGroup_shorter fuel depth gtag b r h

/-- The fuel the model passes (`length + 1`) is never the reason a dictionary is refused: any larger
fuel gives the same answer, for the top-level message (with its map field) and for skipped groups. -/
theorem dictionary_decode_fuel_irrelevant (b : Bytes) (f : Nat) (hf : b.length < f) :
    Proto.decodeDictionary b =
      (Proto.parseMessage [Gen.tag_ChunkDictionary_metadata] f b).bind fun fs => Proto.mergeDictionary fs {} := by
  unfold Proto.decodeDictionary
  rw [Proofs.parseMessage_fuel _ (b.length + 1) f b (by omega) hf]

theorem unknown_group_skip_fuel_irrelevant (f1 f2 depth gtag : Nat) (b : Bytes)
    (h1 : b.length < f1) (h2 : b.length < f2) :
    Proto.skipGroup f1 depth gtag b = Proto.skipGroup f2 depth gtag b :=
  Proofs.skipGroup_fuel f1 f2 depth gtag b h1 h2

example : Proto.parse [0x4b, 0x53, 0x54, 0x08, 0x01, 0x4c, 0x10, 0x05] =
    some [(9, none), (2, some (.varint 5))] := by decide
/-- a group nested deeper than prost's limit is refused, not followed -/
example : Proto.skipGroup 9 2 9 [0x53, 0x5b, 0x5c, 0x54, 0x4c] = none := by decide
example : Proto.skipGroup 9 3 9 [0x53, 0x5b, 0x5c, 0x54, 0x4c] = some [] := by decide
/-- `skip_field` checks the limit for every inner field, not only for inner groups -/
example : Proto.skipGroup 9 1 9 [0x08, 0x01, 0x4c] = none := by decide
example : Proto.skipGroup 9 2 9 [0x08, 0x01, 0x4c] = some [] := by decide

end Bita.Props.C15
