/-
  Facts about `Layout` (sorted list of disjoint regions): `insert`, `remove`, `overlapping`.
-/
import Bita.Model.Planner

namespace Bita.Proofs.Planner
open Bita

variable {κ : Type}

/-- Sorted by offset with pairwise disjoint regions. -/
def Disj (lay : Layout κ) : Prop := lay.Pairwise (fun a b => a.1.stop ≤ b.1.offset)

theorem Disj.sublist {l l' : Layout κ} (h : l'.Sublist l) (hd : Disj l) : Disj l' :=
  List.Pairwise.sublist h hd

/-- `takeWhile` of a predicate that is downward closed along the list is a filter. -/
theorem mem_takeWhile_of_antitone {α : Type} (p : α → Bool) :
    ∀ (l : List α), l.Pairwise (fun a b => p b = true → p a = true) →
      ∀ e, e ∈ l.takeWhile p ↔ e ∈ l ∧ p e = true
  | [], _, e => by simp
  | a :: l, h, e => by
    rw [List.pairwise_cons] at h
    have ih := mem_takeWhile_of_antitone p l h.2 e
    rw [List.takeWhile_cons]
    cases hpa : p a with
    | true =>
      simp only [if_true, List.mem_cons, ih]
      constructor
      · rintro (rfl | ⟨h1, h2⟩)
        · exact ⟨Or.inl rfl, hpa⟩
        · exact ⟨Or.inr h1, h2⟩
      · rintro ⟨rfl | h1, h2⟩
        · exact Or.inl rfl
        · exact Or.inr ⟨h1, h2⟩
    | false =>
      simp only [Bool.false_eq_true, if_false, List.not_mem_nil, List.mem_cons, false_iff]
      rintro ⟨rfl | h1, h2⟩
      · rw [hpa] at h2; exact Bool.noConfusion h2
      · have := h.1 e h1 h2
        rw [hpa] at this; exact Bool.noConfusion this

theorem keyLt_stop_zero (c loc : ChunkOffset) :
    Layout.keyLt c ⟨loc.stop, 0⟩ = true ↔ c.offset < loc.stop := by
  simp [Layout.keyLt]

theorem mem_of_mem_overlapping {lay : Layout κ} {loc : ChunkOffset} {e : ChunkOffset × κ} :
    e ∈ lay.overlapping loc → e ∈ lay := by
  intro h
  unfold Layout.overlapping at h
  have h1 := (List.takeWhile_sublist _).subset h
  rw [List.mem_reverse] at h1
  exact (List.mem_filter.mp h1).1

theorem overlapping_length_le (lay : Layout κ) (loc : ChunkOffset) :
    (lay.overlapping loc).length ≤ lay.length := by
  unfold Layout.overlapping
  refine Nat.le_trans (List.takeWhile_sublist _).length_le ?_
  rw [List.length_reverse]
  exact List.length_filter_le _ _

/-- For a sorted layout of disjoint regions the reverse scan with early exit finds ALL
overlapping entries. -/
theorem mem_overlapping {lay : Layout κ} (hd : Disj lay) (loc : ChunkOffset) (e : ChunkOffset × κ) :
    e ∈ lay.overlapping loc ↔ e ∈ lay ∧ e.1.offset < loc.stop ∧ loc.offset < e.1.stop := by
  unfold Layout.overlapping
  have hf : Disj (lay.filter (fun e => Layout.keyLt e.1 ⟨loc.stop, 0⟩)) :=
    Disj.sublist List.filter_sublist hd
  have hr : ((lay.filter (fun e => Layout.keyLt e.1 ⟨loc.stop, 0⟩)).reverse).Pairwise
      (fun a b => (fun e : ChunkOffset × κ => decide (loc.offset < e.1.stop)) b = true →
        (fun e : ChunkOffset × κ => decide (loc.offset < e.1.stop)) a = true) := by
    rw [List.pairwise_reverse]
    refine List.Pairwise.imp ?_ hf
    intro a b hab
    simp only [decide_eq_true_eq]
    intro h
    simp only [ChunkOffset.stop] at hab h ⊢
    omega
  rw [mem_takeWhile_of_antitone _ _ hr e, List.mem_reverse, List.mem_filter, keyLt_stop_zero,
    decide_eq_true_eq]
  exact and_assoc

theorem mem_insert {lay : Layout κ} (hd : Disj lay) (hpos : ∀ e ∈ lay, 0 < e.1.size)
    {loc : ChunkOffset} {v : κ} (hloc : 0 < loc.size)
    (hdis : ∀ e ∈ lay, e.1.stop ≤ loc.offset ∨ loc.stop ≤ e.1.offset) (e : ChunkOffset × κ) :
    e ∈ lay.insert loc v ↔ e = (loc, v) ∨ e ∈ lay := by
  induction lay with
  | nil => simp [Layout.insert]
  | cons x rest ih =>
    obtain ⟨l, w⟩ := x
    have hd' : Disj rest := (List.pairwise_cons.mp hd).2
    have ih := ih hd' (fun e he => hpos e (List.mem_cons_of_mem _ he))
      (fun e he => hdis e (List.mem_cons_of_mem _ he))
    unfold Layout.insert
    split
    · simp
    · split
      · rename_i h1 h2
        subst h2
        have h3 := hdis (loc, w) List.mem_cons_self
        simp only [ChunkOffset.stop] at h3
        omega
      · simp only [List.mem_cons, ih]
        constructor
        · rintro (h | h | h)
          · exact Or.inr (Or.inl h)
          · exact Or.inl h
          · exact Or.inr (Or.inr h)
        · rintro (h | h | h)
          · exact Or.inr (Or.inl h)
          · exact Or.inl h
          · exact Or.inr (Or.inr h)

theorem disj_insert {lay : Layout κ} (hd : Disj lay) (hpos : ∀ e ∈ lay, 0 < e.1.size)
    {loc : ChunkOffset} {v : κ} (hloc : 0 < loc.size)
    (hdis : ∀ e ∈ lay, e.1.stop ≤ loc.offset ∨ loc.stop ≤ e.1.offset) :
    Disj (lay.insert loc v) := by
  induction lay with
  | nil => simp [Layout.insert, Disj]
  | cons x rest ih =>
    obtain ⟨l, w⟩ := x
    have hd' : Disj rest := (List.pairwise_cons.mp hd).2
    have hlr : ∀ r ∈ rest, l.stop ≤ r.1.offset := (List.pairwise_cons.mp hd).1
    have hpos' : ∀ e ∈ rest, 0 < e.1.size := fun e he => hpos e (List.mem_cons_of_mem _ he)
    have hdis' : ∀ e ∈ rest, e.1.stop ≤ loc.offset ∨ loc.stop ≤ e.1.offset :=
      fun e he => hdis e (List.mem_cons_of_mem _ he)
    have ih := ih hd' hpos' hdis'
    have hl := hdis (l, w) List.mem_cons_self
    have hlp := hpos (l, w) List.mem_cons_self
    simp only [ChunkOffset.stop] at hl hlp hlr
    unfold Layout.insert
    split
    · rename_i h1
      simp only [Layout.keyLt, Bool.or_eq_true, decide_eq_true_eq, Bool.and_eq_true] at h1
      have hll : loc.stop ≤ l.offset := by simp only [ChunkOffset.stop]; omega
      unfold Disj
      rw [List.pairwise_cons]
      refine ⟨?_, hd⟩
      intro b hb
      rcases List.mem_cons.mp hb with rfl | hb
      · exact hll
      · have := hlr b hb
        simp only [ChunkOffset.stop] at hll ⊢
        omega
    · split
      · rename_i h1 h2
        subst h2
        omega
      · rename_i h1 h2
        have hll : l.offset + l.size ≤ loc.offset := by
          rcases hl with hl | hl
          · exact hl
          · exfalso
            simp only [Layout.keyLt, Bool.or_eq_true, decide_eq_true_eq, Bool.and_eq_true] at h1
            omega
        unfold Disj
        rw [List.pairwise_cons]
        refine ⟨?_, ih⟩
        intro b hb
        rcases (mem_insert hd' hpos' hloc hdis' b).mp hb with rfl | hb
        · exact hll
        · exact hlr b hb

theorem remove_sublist (lay : Layout κ) (loc : ChunkOffset) : (Layout.remove lay loc).Sublist lay :=
  List.filter_sublist

theorem mem_remove {lay : Layout κ} {loc : ChunkOffset} {e : ChunkOffset × κ} :
    e ∈ Layout.remove lay loc ↔ e ∈ lay ∧ e.1 ≠ loc := by
  simp [Layout.remove, List.mem_filter]

end Bita.Proofs.Planner
