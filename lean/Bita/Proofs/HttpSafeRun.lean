import Bita.Proofs.HttpSafeFeed

namespace Bita.Proofs
open Bita Bita.Spec

/-- States between polls: no request open (empty buffer), or a request open inside a run. -/
inductive Good : CR → Prop
  | closed (chunks : List ChunkOffset) (adj : Nat) :
      (∀ x ∈ chunks, 1 ≤ x.size) → Good ⟨chunks, [], adj, none⟩
  | opened (st : CR) : Open st → Good st

/-- After `ensureReq`: a request with at least one byte left is open. -/
def Ready (retry : Nat) (st0 : CR) : Prop :=
  st0.chunks.isEmpty = false ∧
  ∃ c r rest buf off size rl,
    CR.ensureReq retry st0 = ⟨c :: (r ++ rest), buf, r.length + 1, some (off, size, rl)⟩ ∧
    (∀ x ∈ c :: r, 1 ≤ x.size) ∧ (∀ x ∈ rest, 1 ≤ x.size) ∧
    buf.length + size = total (c :: r) ∧ 1 ≤ size

theorem closed_next (retry : Nat) (chunks : List ChunkOffset) (adj : Nat)
    (hs : ∀ x ∈ chunks, 1 ≤ x.size) :
    chunks = [] ∨ Ready retry ⟨chunks, [], adj, none⟩ := by
  cases chunks with
  | nil => exact Or.inl rfl
  | cons c cs =>
    right
    obtain ⟨r, hr⟩ := headRun_fst c cs
    have happ := headRun_append c cs
    have hcont := headRun_contiguous c cs
    have hadj := adjacentReads_eq_headRun c cs
    generalize (headRun c cs).2 = rest at happ
    rw [hr] at happ hcont hadj
    have hcs : cs = r ++ rest := by simpa using happ.symm
    subst hcs
    have hl := drop_headD_getLast rest r c c
    have hstop := contiguous_getLast_stop c r hcont
    rw [List.cons_append] at hl
    have hc1 := hs c (by simp)
    have htot : total (c :: r) = c.size + total r := rfl
    refine ⟨rfl, c, r, rest, [], c.offset, total (c :: r), retry, ?_, ?_, ?_, by simp, by omega⟩
    · rw [ensureReq_none, hadj, List.length_cons, Nat.add_sub_cancel, hl, hstop,
        Nat.add_sub_cancel_left]
    · intro x hx; exact hs x (by
        rcases List.mem_cons.1 hx with h | h
        · simp [h]
        · simp [h])
    · intro x hx; exact hs x (by simp [hx])

theorem prep (retry : Nat) (st : CR) (hg : Good st) :
    ∃ its0 st0, CR.drain st.chunks st.buf st.adj st.req = (its0, st0, false) ∧
      Item.panic ∉ its0 ∧ (st0.chunks = [] ∨ Ready retry st0) := by
  cases hg with
  | closed chunks adj hs =>
    exact ⟨[], ⟨chunks, [], adj, none⟩, drain_nil_buf chunks hs adj none, by simp,
      closed_next retry chunks adj hs⟩
  | opened st ho =>
    cases ho with
    | mk c r rest buf off size rl hs hrest hb =>
      have hle : buf.length ≤ total (c :: r) := by omega
      have hA : ∀ a b : Nat, buf.length < total (c :: r) →
          a + total (c :: r) = b + buf.length → a + size = b ∧ 1 ≤ size := by omega
      obtain ⟨its, st', hd, hp, hcase⟩ := drain_safe rest hrest (off, size, rl) r c buf hs hle
      refine ⟨its, st', hd, hp, ?_⟩
      rcases hcase with ⟨_, h2⟩ | ⟨h1, c', r', buf', h2, h3, h4⟩
      · subst h2
        exact closed_next retry rest 0 hrest
      · subst h2
        obtain ⟨e1, e2⟩ := hA _ _ h1 h4
        exact Or.inr ⟨rfl, c', r', rest, buf', off, size, rl, rfl, h3, hrest, e1, e2⟩

theorem run_safe (serve : Nat → Nat → Bytes) (retry : Nat) :
    ∀ (script : List Resp) (st : CR), Good st →
      Item.panic ∉ (CR.run serve retry script st).items := by
  intro script
  induction script with
  | nil =>
    intro st hg
    obtain ⟨its0, st0, hd, hp, hcase⟩ := prep retry st hg
    rw [CR.run]
    dsimp only
    rw [hd]
    rcases hcase with h | ⟨hne, c, r, rest, buf, off, size, rl, he, hs, hrest, hb, hsz⟩
    · simp [h, hp]
    · have : ¬ (off = 0 ∧ size = 0) := by omega
      simp [hne, he, hp, this]
  | cons x s ih =>
    intro st hg
    obtain ⟨its0, st0, hd, hp, hcase⟩ := prep retry st hg
    rw [CR.run]
    dsimp only
    rw [hd]
    rcases hcase with h | ⟨hne, c, r, rest, buf, off, size, rl, he, hs, hrest, hb, hsz⟩
    · simp [h, hp]
    · have hz : ¬ (off = 0 ∧ size = 0) := by omega
      have hopen : ∀ rl', Open ⟨c :: (r ++ rest), buf, r.length + 1, some (off, size, rl')⟩ :=
        fun rl' => Open.mk c r rest buf off size rl' hs hrest hb
      cases x with
      | refuse =>
        by_cases hrl : rl = 0
        · simp [hne, he, hp, hz, hrl]
        · have := ih _ (Good.opened _ (hopen (rl - 1)))
          simp [hne, he, hp, hz, hrl, this]
      | full fr =>
        rcases feed_safe (splitBy fr (serve off size)) _ (hopen rl) with
          ⟨its, rest2, e, hp2, hr2⟩ | ⟨its, st2, e, hp2, ho2⟩
        · have := ih _ (Good.closed rest2 0 hr2)
          simp [hne, he, hp, hz, e, hp2, this]
        · simp [hne, he, hp, hz, e, hp2]
      | part n fr cut =>
        rcases feed_safe (splitBy fr ((serve off size).take n)) _ (hopen rl) with
          ⟨its, rest2, e, hp2, hr2⟩ | ⟨its, st2, e, hp2, ho2⟩
        · have := ih _ (Good.closed rest2 0 hr2)
          simp [hne, he, hp, hz, e, hp2, this]
        · cases ho2 with
          | mk c2 r2 rest2 buf2 off2 size2 rl2 hs2 hrest2 hb2 =>
            cases cut with
            | false => simp [hne, he, hp, hz, e, hp2]
            | true =>
              by_cases hrl : rl2 = 0
              · simp [hne, he, hp, hz, e, hp2, hrl]
              · have := ih _ (Good.opened _ (Open.mk c2 r2 rest2 buf2 off2 size2 (rl2 - 1)
                  hs2 hrest2 hb2))
                simp [hne, he, hp, hz, e, hp2, hrl, this]

end Bita.Proofs
