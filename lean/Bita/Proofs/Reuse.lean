/-
  What resynchronisation (C10) buys a clone (C06): when a seed carries the same data as the source
  from some point on and both chunkings place a boundary at the same position of that common
  data, every later source chunk is found in the seed, so none of them is fetched.
  Also: the request log of the single-read path (`read_at`) of the HTTP reader.
-/
import Bita.Proofs.CloneNoJunk
import Bita.Proofs.ChunkRule
import Bita.Proofs.SpecChunks
import Bita.Spec.Tiling
import Bita.Model.Readers

namespace Bita.Proofs
open Bita Bita.Proto Bita.Spec

/-- A slice that starts inside the suffix of `P ++ S` is a slice of `S`. -/
theorem slice_append_add (P S : Bytes) (k n : Nat) :
    slice (P ++ S) (P.length + k) n = slice S k n := by
  unfold slice
  rw [← List.drop_drop, List.drop_left]

/-- **Reuse after an edit, at the level of chunks.**  Source `P1 ++ S`, seed `P2 ++ S`, a common
boundary `B ≥ window` into `S`: every source chunk that starts at or after that boundary is,
byte for byte, a chunk of the seed. -/
theorem resync_chunks_in_seed (cfg : Config) (hv : cfg.Valid) (hroll : ∀ n, cfg ≠ .fixed n)
    (P1 P2 S : Bytes) (B : Nat) (hB : windowOf cfg ≤ B) (hBS : B ≤ S.length)
    (h1 : IsEnd (chunkAll cfg (P1 ++ S)) (P1.length + B))
    (h2 : IsEnd (chunkAll cfg (P2 ++ S)) (P2.length + B)) :
    ∀ c ∈ chunkAll cfg (P1 ++ S), P1.length + B ≤ c.1 →
      ∃ c' ∈ chunkAll cfg (P2 ++ S), slice (P2 ++ S) c'.1 c'.2 = slice (P1 ++ S) c.1 c.2 := by
  intro c hc hge
  rw [chunkAll_eq_specChunks cfg hv] at h1 h2 hc ⊢
  have heq := spec_resync cfg hv hroll P1 P2 S B hB hBS h1 h2
  obtain ⟨o, l⟩ := c
  have hge' : P1.length + B ≤ o := hge
  have hm : (o - P1.length, l) ∈
      chunksFrom (specChunks cfg (P1 ++ S)) (P1.length + B) P1.length := by
    unfold chunksFrom
    exact List.mem_map.2 ⟨(o, l), List.mem_filter.2 ⟨hc, by simpa using hge'⟩, rfl⟩
  rw [heq] at hm
  unfold chunksFrom at hm
  obtain ⟨c', hc', he⟩ := List.mem_map.1 hm
  obtain ⟨hc'm, hc'ge⟩ := List.mem_filter.1 hc'
  have hc'ge' : P2.length + B ≤ c'.1 := by simpa using hc'ge
  obtain ⟨o', l'⟩ := c'
  have he1 : o' - P2.length = o - P1.length := (Prod.mk.inj he).1
  have he2 : l' = l := (Prod.mk.inj he).2
  refine ⟨(o', l'), hc'm, ?_⟩
  have hc'ge'' : P2.length + B ≤ o' := hc'ge'
  have e1 : o' = P2.length + (o - P1.length) := by omega
  have e2 : o = P1.length + (o - P1.length) := by omega
  show slice (P2 ++ S) o' l' = slice (P1 ++ S) o l
  rw [he2, e1]
  conv => rhs; rw [e2]
  rw [slice_append_add, slice_append_add]

/-- The keys of those chunks are among the keys the seed scans find. -/
theorem tail_keys_found (H : Bytes → Bytes) (a : Archive) (opts : CloneOpts) (prior : Bytes) (seeds : List Bytes)
    (hv : a.config.Valid) (hroll : ∀ n, a.config ≠ .fixed n)
    (P1 P2 S : Bytes) (B : Nat) (hseed : P2 ++ S ∈ seeds)
    (hB : windowOf a.config ≤ B) (hBS : B ≤ S.length)
    (h1 : IsEnd (chunkAll a.config (P1 ++ S)) (P1.length + B))
    (h2 : IsEnd (chunkAll a.config (P2 ++ S)) (P2.length + B)) :
    ∀ c ∈ chunkAll a.config (P1 ++ S), P1.length + B ≤ c.1 →
      (foundKeys H a opts prior seeds).contains
        (hashTruncate (H (slice (P1 ++ S) c.1 c.2)) a.hashLength) = true := by
  intro c hc hge
  obtain ⟨c', hc', hs⟩ :=
    resync_chunks_in_seed a.config hv hroll P1 P2 S B hB hBS h1 h2 c hc hge
  rw [List.contains_iff_mem]
  unfold foundKeys
  refine List.mem_append_right _ (List.mem_flatMap.2 ⟨P2 ++ S, hseed, ?_⟩)
  unfold chunkKeys
  exact List.mem_map.2 ⟨c', hc', by rw [hs]⟩

/-- **Reuse after an edit, for the clone** (C10 ∘ C06).  The archive describes the source
`P1 ++ S` cut by the archive's own chunker; one of the seeds is `P2 ++ S`; both chunkings have a
boundary `B ≥ window` into `S`.  Then the one `read_chunks` request of a successful clone names
no descriptor of a source chunk that starts at or after that boundary - or a collision is
exhibited. -/
theorem unchanged_tail_not_fetched (H : Bytes → Bytes) (hH : ∀ x, (H x).length = 64)
    (decomp : Nat → Bytes → Nat → Option Bytes) (features : List Nat)
    (readAt : Nat → Nat → Option Bytes) (readChunks : List (Nat × Nat) → List (Option Bytes))
    (opts : CloneOpts) (prior : Bytes) (seeds : List Bytes)
    (a : Archive) (P1 P2 S : Bytes) (B : Nat)
    (hinit : tryInit H features readAt = .ok a)
    (hd : Describes H a (P1 ++ S) ((chunkAll a.config (P1 ++ S)).map fun c => slice (P1 ++ S) c.1 c.2))
    (hitems : ∀ ranges, (readChunks ranges).length = ranges.length)
    (hroll : ∀ n, a.config ≠ .fixed n)
    (hseed : P2 ++ S ∈ seeds)
    (hB : windowOf a.config ≤ B) (hBS : B ≤ S.length)
    (h1 : IsEnd (chunkAll a.config (P1 ++ S)) (P1.length + B))
    (h2 : IsEnd (chunkAll a.config (P2 ++ S)) (P2.length + B)) :
    let r := Clone.run H decomp features readAt readChunks opts prior seeds
    r.result = .ok →
      (∃ fetched : List Descr,
        r.requests = [ArchReq.readAt 0 Gen.preHeaderSize,
                      ArchReq.readAt Gen.preHeaderSize (a.headerSize - Gen.preHeaderSize),
                      ArchReq.readChunks (fetched.map fun d => (d.archiveOffset, d.archiveSize))] ∧
        (∀ d ∈ fetched, d ∈ a.chunks) ∧
        ∀ c ∈ chunkAll a.config (P1 ++ S), P1.length + B ≤ c.1 →
          ∀ d ∈ fetched, d.checksum ≠ hashTruncate (H (slice (P1 ++ S) c.1 c.2)) a.hashLength) ∨
      Collision H a.hashLength ((chunkAll a.config (P1 ++ S)).map fun c => slice (P1 ++ S) c.1 c.2) := by
  dsimp only
  intro hr
  have hv := hd.valid
  rcases fetch_exact_nojunk H hH decomp features readAt readChunks opts prior seeds a _ _ hinit hd
    hitems hr with hq | hc
  · left
    refine ⟨a.chunks.filter (fun d =>
      !(foundKeys H a opts prior seeds).contains (hashTruncate d.checksum a.hashLength)), hq, ?_, ?_⟩
    · intro d hd'
      exact (List.mem_filter.1 hd').1
    · intro c hc hge d hd' heq
      have hf := (List.mem_filter.1 hd').2
      rw [heq, hashTruncate_idem,
        tail_keys_found H a opts prior seeds hv hroll P1 P2 S B hseed hB hBS h1 h2 c hc hge] at hf
      cases hf
  · exact Or.inr hc

/-- **`read_at` over HTTP**: every request of the single-read path is for exactly the asked range
(each retry starts from scratch), and there are at most `retry + 1` of them. -/
theorem http_read_at_requests (serve : Nat → Nat → Bytes) (retry offset size : Nat) (script : List Resp) :
    (∀ q ∈ (httpReadAt serve retry offset size script).2, q = (offset, size)) ∧
    (httpReadAt serve retry offset size script).2.length ≤ retry + 1 := by
  induction script generalizing retry with
  | nil => simp [httpReadAt]
  | cons r s ih =>
    rw [httpReadAt]
    split
    · simp
    · cases r with
      | refuse =>
        dsimp only
        split
        · simp
        · rename_i hr
          obtain ⟨ih1, ih2⟩ := ih (retry - 1)
          refine ⟨?_, ?_⟩
          · intro q hq
            rcases List.mem_cons.1 hq with h | h
            · exact h
            · exact ih1 q h
          · simp only [List.length_cons]
            omega
      | full fr =>
        dsimp only
        simp
      | part n fr cut =>
        dsimp only
        split
        · split
          · simp
          · rename_i hr
            obtain ⟨ih1, ih2⟩ := ih (retry - 1)
            refine ⟨?_, ?_⟩
            · intro q hq
              rcases List.mem_cons.1 hq with h | h
              · exact h
              · exact ih1 q h
            · simp only [List.length_cons]
              omega
        · simp

end Bita.Proofs
