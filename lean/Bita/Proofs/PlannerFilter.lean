/-
  `reorder_ops` and `strip_chunks_already_in_place` look at the scanned ("self") index only
  through the keys of the target index: entries of the scanned index under any other key can be
  dropped without changing the plan.
-/
import Bita.Model.Planner
import Bita.Proofs.PlannerTrees

set_option linter.unusedSectionVars false

namespace Bita.Proofs.Planner
open Bita Bita.Spec

variable {κ : Type} [DecidableEq κ]

section
variable (p : κ → Bool)

/-- The index without the entries whose key fails `p`. -/
def keep (ix : Index κ) : Index κ := ix.filter (fun e => p e.1)

theorem get_keep (self : Index κ) (k : κ) (hk : p k = true) : (keep p self).get k = self.get k := by
  unfold keep Index.get
  rw [List.find?_filter]
  congr 2
  funext e
  by_cases h : e.1 = k
  · simp [h, hk]
  · simp [h]

theorem firstD_keep (self : Index κ) (k : κ) (hk : p k = true) : firstD (keep p self) k = firstD self k := by
  unfold firstD Index.firstOffset
  rw [get_keep p self k hk]

theorem strip_keep (self target : Index κ) (h : ∀ e ∈ target, p e.1 = true) :
    (keep p self).strip target = self.strip target := by
  unfold Index.strip
  generalize (([], 0, 0) : Index κ × Nat × Nat) = acc
  induction target generalizing acc with
  | nil => rfl
  | cons e rest ih =>
    simp only [List.foldl_cons]
    rw [get_keep p self e.1 (h e (List.mem_cons_self ..))]
    exact ih (fun e' h' => h e' (List.mem_cons_of_mem _ h')) _

theorem movableOf_keep (self tgt : Index κ) (h : ∀ k, tgt.contains k = true → p k = true) :
    movableOf (keep p self) tgt = movableOf self tgt := by
  unfold movableOf keep
  rw [List.filter_filter]
  apply List.filter_congr
  intro e _
  cases hc : tgt.contains e.1 with
  | false => simp
  | true => simp [h _ hc]

theorem expand_keep (self newOrder : Index κ) (lay : Layout κ) (hlay : ∀ e ∈ lay, p e.2 = true)
    (visited : List κ) (chunk : MoveChunk κ) :
    expand (keep p self) newOrder lay visited chunk = expand self newOrder lay visited chunk := by
  rw [expand_eq, expand_eq]
  have h1 : ∀ e ∈ clobE newOrder lay chunk.k, mkStore (keep p self) e = mkStore self e := by
    intro e he
    unfold mkStore
    rw [firstD_keep p self e.2 (hlay e (mem_clobE he).1)]
  have h2 : ∀ e ∈ clobE newOrder lay chunk.k, mkChild (keep p self) e = mkChild self e := by
    intro e he
    unfold mkChild
    rw [firstD_keep p self e.2 (hlay e (mem_clobE he).1)]
  congr 1
  · exact List.map_congr_left (fun e he => h1 e (List.mem_filter.1 he).1)
  · congr 1
    exact List.map_congr_left (fun e he => h2 e (List.mem_filter.1 he).1)

theorem dfsStep_keep (self newOrder : Index κ) (lay : Layout κ) (hlay : ∀ e ∈ lay, p e.2 = true)
    (s : DfsState κ) :
    dfsStep (keep p self) newOrder lay s = dfsStep self newOrder lay s := by
  unfold dfsStep
  simp only [expand_keep p self newOrder lay hlay]

theorem dfsRun_keep (self newOrder : Index κ) (lay : Layout κ) (hlay : ∀ e ∈ lay, p e.2 = true)
    (n : Nat) (s : DfsState κ) :
    dfsRun (keep p self) newOrder lay n s = dfsRun self newOrder lay n s := by
  induction n generalizing s with
  | zero => rfl
  | succ n ih =>
    unfold dfsRun
    rw [dfsStep_keep p self newOrder lay hlay]
    cases dfsStep self newOrder lay s with
    | none => rfl
    | some s' => exact ih s'

/-- Every key on the stack and every visited key passes `p`. -/
def SP (s : DfsState κ) : Prop :=
  (∀ e ∈ s.stack, p e.1.k = true) ∧ (∀ k ∈ s.visited, p k = true)

theorem step_sp {self newOrder : Index κ} {lay : Layout κ} (hlay : ∀ e ∈ lay, p e.2 = true)
    {s s' : DfsState κ} (h : dfsStep self newOrder lay s = some s') (inv : SP p s) : SP p s' := by
  cases hs : s.stack with
  | nil => rw [dfsStep_nil _ _ _ hs] at h; simp at h
  | cons top rest =>
    obtain ⟨chunk, op⟩ := top
    have htop : p chunk.k = true := inv.1 (chunk, op) (by rw [hs]; exact List.mem_cons_self ..)
    have hrest : ∀ e ∈ rest, p e.1.k = true :=
      fun e he => inv.1 e (by rw [hs]; exact List.mem_cons_of_mem _ he)
    cases hv : s.visited.contains chunk.k with
    | false =>
      rw [dfsStep_expand _ _ _ hs hv] at h
      simp only [Option.some.injEq] at h; subst h
      constructor
      · intro e he
        dsimp only at he
        simp only [List.mem_append, List.mem_reverse, List.mem_map, List.mem_filter,
          List.mem_cons] at he
        rcases he with ⟨c, ⟨x, ⟨hx, -⟩, rfl⟩, rfl⟩ | rfl | he
        · exact hlay x (mem_clobE hx).1
        · exact htop
        · exact hrest e he
      · intro k hk
        dsimp only at hk
        rcases List.mem_cons.1 hk with rfl | hk
        · exact htop
        · exact inv.2 k hk
    | true =>
      cases op with
      | some o =>
        rw [dfsStep_pop_some _ _ _ hs hv] at h
        simp only [Option.some.injEq] at h; subst h
        exact ⟨hrest, inv.2⟩
      | none =>
        rw [dfsStep_pop_none _ _ _ hs hv] at h
        simp only [Option.some.injEq] at h; subst h
        exact ⟨hrest, inv.2⟩

theorem run_sp {self newOrder : Index κ} {lay : Layout κ} (hlay : ∀ e ∈ lay, p e.2 = true)
    (n : Nat) {s : DfsState κ} (inv : SP p s) : SP p (dfsRun self newOrder lay n s) := by
  induction n generalizing s with
  | zero => exact inv
  | succ n ih =>
    unfold dfsRun
    split
    · exact inv
    · rename_i s' h; exact ih (step_sp p hlay h inv)

theorem removeVisited_keep (self : Index κ) (vis : List κ) (hv : ∀ k ∈ vis, p k = true)
    (lay : Layout κ) : removeVisited (keep p self) vis lay = removeVisited self vis lay := by
  unfold removeVisited
  induction vis generalizing lay with
  | nil => rfl
  | cons k ks ih =>
    simp only [List.foldl_cons]
    rw [get_keep p self k (hv k (List.mem_cons_self ..))]
    exact ih (fun k' h' => hv k' (List.mem_cons_of_mem _ h')) _

theorem treeStep_keep (self newOrder : Index κ) (fuel : Nat)
    (acc : List (ROp κ) × List κ × Layout κ) (hlay : ∀ e ∈ acc.2.2, p e.2 = true)
    (chunk : MoveChunk κ) (hc : p chunk.k = true) :
    treeStep (keep p self) newOrder fuel acc chunk = treeStep self newOrder fuel acc chunk ∧
      ∀ e ∈ (treeStep self newOrder fuel acc chunk).2.2, p e.2 = true := by
  unfold treeStep
  split
  · exact ⟨rfl, hlay⟩
  · dsimp only
    rw [dfsRun_keep p self newOrder acc.2.2 hlay]
    have hsp : SP p (dfsRun self newOrder acc.2.2 fuel ⟨[(chunk, none)], [], acc.1⟩) := by
      apply run_sp p hlay
      constructor
      · intro e he
        simp only [List.mem_singleton] at he
        subst he
        exact hc
      · intro k hk; cases hk
    rw [removeVisited_keep p self _ hsp.2]
    refine ⟨rfl, ?_⟩
    intro e he
    exact hlay e ((removeVisited_facts self _ acc.2.2).1.subset he)

theorem foldl_congr_inv {α β : Type} (f g : β → α → β) (I : β → Prop) (P : α → Prop)
    (h : ∀ b a, I b → P a → f b a = g b a ∧ I (g b a)) :
    ∀ (l : List α) (b : β), (∀ a ∈ l, P a) → I b → l.foldl f b = l.foldl g b := by
  intro l
  induction l with
  | nil => intro _ _ _; rfl
  | cons a l ih =>
    intro b hl hb
    obtain ⟨h1, h2⟩ := h b a hb (hl a (List.mem_cons_self ..))
    show l.foldl f (f b a) = l.foldl g (g b a)
    rw [h1]
    exact ih (g b a) (fun a' h' => hl a' (List.mem_cons_of_mem _ h')) h2

theorem foldl_treeStep_keep (self newOrder : Index κ) (fuel : Nat)
    (chunks : List (MoveChunk κ)) (hcs : ∀ c ∈ chunks, p c.k = true)
    (acc : List (ROp κ) × List κ × Layout κ) (hacc : ∀ e ∈ acc.2.2, p e.2 = true) :
      chunks.foldl (treeStep (keep p self) newOrder fuel) acc =
        chunks.foldl (treeStep self newOrder fuel) acc :=
  foldl_congr_inv (treeStep (keep p self) newOrder fuel) (treeStep self newOrder fuel)
    (fun acc => ∀ e ∈ acc.2.2, p e.2 = true) (fun c => p c.k = true)
    (fun acc c hlay hc => treeStep_keep p self newOrder fuel acc hlay c hc) chunks acc hcs hacc

theorem mem_layout_insert (lay : Layout κ) (loc : ChunkOffset) (v : κ) :
    ∀ e ∈ lay.insert loc v, e.2 = v ∨ e ∈ lay := by
  induction lay with
  | nil =>
    intro e he
    simp only [Layout.insert, List.mem_singleton] at he
    exact Or.inl (by rw [he])
  | cons x rest ih =>
    intro e he
    obtain ⟨l, w⟩ := x
    unfold Layout.insert at he
    split at he
    · rcases List.mem_cons.1 he with rfl | he
      · exact Or.inl rfl
      · exact Or.inr he
    · split at he
      · rcases List.mem_cons.1 he with rfl | he
        · exact Or.inl rfl
        · exact Or.inr (List.mem_cons_of_mem _ he)
      · rcases List.mem_cons.1 he with rfl | he
        · exact Or.inr (List.mem_cons_self ..)
        · rcases ih e he with h | h
          · exact Or.inl h
          · exact Or.inr (List.mem_cons_of_mem _ h)

theorem layout_fold_keys (ms : Index κ) (hms : ∀ e ∈ ms, p e.1 = true) :
    ∀ (lay : Layout κ), (∀ e ∈ lay, p e.2 = true) →
      ∀ e ∈ ms.foldl (fun lay e => Layout.insert lay ⟨e.2.offsets.headD 0, e.2.size⟩ e.1) lay, p e.2 = true := by
  induction ms with
  | nil => intro lay hlay; exact hlay
  | cons m ms ih =>
    intro lay hlay
    rw [List.foldl_cons]
    apply ih (fun e h => hms e (List.mem_cons_of_mem _ h))
    intro e he
    rcases mem_layout_insert lay _ _ e he with h | h
    · rw [h]; exact hms m (List.mem_cons_self ..)
    · exact hlay e h

/-- **The plan ignores what the target does not name.** -/
theorem reorderOps_keep (self tgt : Index κ) (h : ∀ k, tgt.contains k = true → p k = true) :
    reorderOps (keep p self) tgt = reorderOps self tgt := by
  have hmov : ∀ e ∈ movableOf self tgt, p e.1 = true := by
    intro e he
    unfold movableOf at he
    have := (List.mem_filter.1 he).2
    simp only [Bool.and_eq_true] at this
    exact h _ this.1
  rw [reorderOps_eq, reorderOps_eq]
  have hl : layout0Of (keep p self) tgt = layout0Of self tgt := by
    unfold layout0Of; rw [movableOf_keep p self tgt h]
  have hc : chunksOf (keep p self) tgt = chunksOf self tgt := by
    unfold chunksOf; rw [movableOf_keep p self tgt h]
  rw [hl, hc]
  congr 1
  apply foldl_treeStep_keep
  · intro c hcm
    unfold chunksOf at hcm
    rw [mem_sortBySource] at hcm
    obtain ⟨e, he, rfl⟩ := List.mem_map.1 hcm
    exact hmov e he
  · unfold layout0Of
    exact layout_fold_keys p _ hmov [] (fun e he => by cases he)

end

/-! ### Building an index commutes with dropping keys -/

section
variable (p : κ → Bool)

theorem addChunk_keep (ix : Index κ) (k : κ) (sz : Nat) (offs : List Nat) :
    keep p (ix.addChunk k sz offs) =
      if p k = true then (keep p ix).addChunk k sz offs else keep p ix := by
  by_cases hk : p k = true
  · rw [if_pos hk]
    unfold Index.addChunk
    rw [get_keep p ix k hk]
    cases ix.get k with
    | none =>
      simp only [keep, List.filter_append, List.filter_cons, hk, if_true, List.filter_nil]
    | some l =>
      simp only [keep]
      rw [List.filter_map]
      congr 1
      apply List.filter_congr
      intro e _
      simp only [Function.comp_def]
      split <;> rfl
  · rw [if_neg hk]
    unfold Index.addChunk
    cases ix.get k with
    | none =>
      simp only [keep, List.filter_append, List.filter_cons, hk, List.filter_nil]
      simp
    | some l =>
      simp only [keep]
      rw [List.filter_map]
      have h1 : List.filter ((fun e : κ × Loc => p e.1) ∘ fun e : κ × Loc =>
            if e.1 = k then (e.1, { e.2 with offsets := offs.foldl (fun acc o => insertSorted o acc) e.2.offsets }) else e) ix =
          List.filter (fun e => p e.1) ix := by
        apply List.filter_congr
        intro e _
        simp only [Function.comp_def]
        split <;> rfl
      rw [h1]
      conv => rhs; rw [← List.map_id (List.filter (fun e => p e.1) ix)]
      apply List.map_congr_left
      intro e he
      have hpe := (List.mem_filter.1 he).2
      have : e.1 ≠ k := by
        intro h
        rw [h] at hpe
        exact hk hpe
      simp [this]

theorem foldl_addChunk_keep (T : List (κ × Nat × Nat)) : ∀ (ix : Index κ),
    keep p (T.foldl (fun (ix : Index κ) t => ix.addChunk t.1 t.2.1 [t.2.2]) ix) =
      (T.filter (fun t => p t.1)).foldl (fun (ix : Index κ) t => ix.addChunk t.1 t.2.1 [t.2.2]) (keep p ix) := by
  induction T with
  | nil => intro ix; rfl
  | cons t T ih =>
    intro ix
    rw [List.foldl_cons, ih, addChunk_keep]
    by_cases ht : p t.1 = true
    · rw [if_pos ht, List.filter_cons, if_pos ht, List.foldl_cons]
    · rw [if_neg ht, List.filter_cons, if_neg ht]

end

end Bita.Proofs.Planner
