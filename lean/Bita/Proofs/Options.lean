/-
  Proofs about the option layer (`Bita.Model.Options`): what a size text / a checksum text / a set
  of `bita compress` options denotes when it is accepted, when exactly the parser panics, and that
  whatever is accepted outside an exactly characterised misuse set is a configuration the writer,
  format and reader theorems (C01, C11, C17) apply to (`OptsOK`).
-/
import Bita.Model.Options
import Bita.Proofs.Writer

namespace Bita.Proofs
open Bita Bita.Options

/-- Value of a string of decimal digits. -/
def decVal (ds : Txt) : Nat := ds.foldl (fun a c => a * 10 + (c.toNat - 48)) 0

/-- A non-empty string of ASCII decimal digits. -/
def IsNumeral (ds : Txt) : Prop := ds ≠ [] ∧ ∀ c ∈ ds, c.isDigit = true

/-! #### helpers: results of the option layer -/

theorem bind_ok {α β : Type} (p : Parsed α) (f : α → Parsed β) (b : β) (h : p.bind f = .ok b) :
    ∃ a, p = .ok a ∧ f a = .ok b := by
  cases p with
  | ok a => exact ⟨a, rfl, h⟩
  | refused => cases h
  | panic => cases h

theorem bind_panic {α β : Type} (p : Parsed α) (f : α → Parsed β) (h : p.bind f = .panic) :
    p = .panic ∨ ∃ a, p = .ok a ∧ f a = .panic := by
  cases p with
  | ok a => exact Or.inr ⟨a, rfl, h⟩
  | refused => cases h
  | panic => exact Or.inl rfl

/-! #### helpers: unsigned numbers -/

theorem digitsVal_eq (ds : Txt) (acc : Nat) :
    digitsVal ds acc = if (∀ c ∈ ds, c.isDigit = true) then
      some (ds.foldl (fun a c => a * 10 + (c.toNat - 48)) acc) else none := by
  induction ds generalizing acc with
  | nil => simp [digitsVal]
  | cons c cs ih =>
    simp only [digitsVal, digitVal]
    by_cases hc : c.isDigit = true
    · simp [hc, ih]
    · simp [hc]

/-- `parseUnsigned` after the optional sign has been removed. -/
def parseDigits (bits : Nat) (ds : Txt) : Option Nat :=
  match ds with
  | [] => none
  | _ => match digitsVal ds 0 with
    | some v => if v < 2 ^ bits then some v else none
    | none => none

theorem parseDigits_some_iff (bits : Nat) (ds : Txt) (v : Nat) :
    parseDigits bits ds = some v ↔ IsNumeral ds ∧ v = decVal ds ∧ v < 2 ^ bits := by
  unfold parseDigits IsNumeral decVal
  cases ds with
  | nil => simp
  | cons c cs =>
    simp only [digitsVal_eq]
    by_cases hd : ∀ x ∈ c :: cs, x.isDigit = true
    · simp only [if_pos hd]
      by_cases hv : List.foldl (fun a c => a * 10 + (c.toNat - 48)) 0 (c :: cs) < 2 ^ bits
      · simp only [if_pos hv, Option.some.injEq]
        constructor
        · rintro rfl; exact ⟨⟨by simp, hd⟩, rfl, hv⟩
        · rintro ⟨_, rfl, _⟩; rfl
      · simp only [if_neg hv]
        constructor
        · intro h; cases h
        · rintro ⟨_, rfl, h⟩; exact absurd h hv
    · simp only [if_neg hd]
      constructor
      · intro h; cases h
      · rintro ⟨⟨_, h⟩, _⟩; exact absurd h hd

theorem parseUnsigned_plus (bits : Nat) (r : Txt) : parseUnsigned bits ('+' :: r) = parseDigits bits r := rfl

theorem parseUnsigned_noplus (bits : Nat) (s : Txt) (h : ∀ r, s ≠ '+' :: r) :
    parseUnsigned bits s = parseDigits bits s := by
  unfold parseUnsigned parseDigits
  split
  · exact absurd rfl (h _)
  · rfl

theorem plus_not_digit : ('+' : Char).isDigit = false := by decide

/-- `from_str` accepts exactly numerals with an optional `+`, below the width. -/
theorem parseUnsigned_some_iff (bits : Nat) (s : Txt) (v : Nat) :
    parseUnsigned bits s = some v ↔
      ∃ ds, IsNumeral ds ∧ (s = ds ∨ s = '+' :: ds) ∧ v = decVal ds ∧ v < 2 ^ bits := by
  by_cases hp : ∃ r, s = '+' :: r
  · obtain ⟨r, rfl⟩ := hp
    rw [parseUnsigned_plus, parseDigits_some_iff]
    constructor
    · rintro ⟨h1, h2, h3⟩; exact ⟨r, h1, Or.inr rfl, h2, h3⟩
    · rintro ⟨ds, h1, h2 | h2, h3, h4⟩
      · subst h2
        have := h1.2 '+' (by simp)
        rw [plus_not_digit] at this; cases this
      · cases h2; exact ⟨h1, h3, h4⟩
  · have hp' : ∀ r, s ≠ '+' :: r := fun r hr => hp ⟨r, hr⟩
    rw [parseUnsigned_noplus _ _ hp', parseDigits_some_iff]
    constructor
    · rintro ⟨h1, h2, h3⟩; exact ⟨s, h1, Or.inl rfl, h2, h3⟩
    · rintro ⟨ds, h1, h2 | h2, h3, h4⟩
      · subst h2; exact ⟨h1, h3, h4⟩
      · exact absurd h2 (hp' _)

/-- Facts about the unit table read from the source that the theorems below need (checked by
evaluation on the table as it is in the current tree). -/
theorem sizeUnits_wellformed :
    (∀ e ∈ Gen.sizeUnits, ∃ c r, e.1 = c :: r ∧ c.isAlpha = true) ∧
    (Gen.sizeUnits.map (·.1)).Nodup := by
  refine ⟨?_, by decide⟩
  intro e he
  simp only [Gen.sizeUnits, List.mem_cons, List.not_mem_nil, or_false] at he
  rcases he with rfl | rfl | rfl | rfl <;> exact ⟨_, _, rfl, by decide⟩

/-! #### helpers: size texts -/

theorem digit_not_alpha (c : Char) (h : c.isDigit = true) : c.isAlpha = false := by
  simp only [Char.isDigit, Char.isAlpha, Char.isUpper, Char.isLower, Bool.and_eq_true, decide_eq_true_eq,
    ge_iff_le, UInt32.le_iff_toNat_le, Bool.or_eq_false_iff, Bool.and_eq_false_iff, decide_eq_false_iff_not] at *
  have e0 : ('0' : Char).val.toNat = 48 := by decide
  have e9 : ('9' : Char).val.toNat = 57 := by decide
  have eA : ('A' : Char).val.toNat = 65 := by decide
  have ea : ('a' : Char).val.toNat = 97 := by decide
  omega

theorem plus_not_alpha : ('+' : Char).isAlpha = false := by decide

theorem numeral_no_alpha (bits : Nat) (num : Txt) (v : Nat) (h : parseUnsigned bits num = some v) :
    ∀ c ∈ num, c.isAlpha = false := by
  obtain ⟨ds, hd, hs, _, _⟩ := (parseUnsigned_some_iff bits num v).mp h
  intro c hc
  rcases hs with rfl | rfl
  · exact digit_not_alpha c (hd.2 c hc)
  · rcases List.mem_cons.mp hc with rfl | hc
    · exact plus_not_alpha
    · exact digit_not_alpha c (hd.2 c hc)

theorem find?_key {α β : Type} [DecidableEq α] (l : List (α × β)) (u : α) (m : β)
    (hnd : (l.map (·.1)).Nodup) (hm : (u, m) ∈ l) :
    (l.find? (fun e => e.1 = u)).map (·.2) = some m := by
  induction l with
  | nil => cases hm
  | cons e l ih =>
    rw [List.map_cons, List.nodup_cons] at hnd
    rcases List.mem_cons.mp hm with rfl | hm
    · simp
    · have hne : e.1 ≠ u := by
        intro he; apply hnd.1; rw [he]; exact List.mem_map.mpr ⟨(u, m), hm, rfl⟩
      rw [List.find?_cons_of_neg (by simpa using hne)]
      exact ih hnd.2 hm

theorem unitMultiplier_of_mem (u : Txt) (m : Nat) (h : (u, m) ∈ Gen.sizeUnits) : unitMultiplier u = some m :=
  find?_key _ u m sizeUnits_wellformed.2 h

theorem mem_of_unitMultiplier (u : Txt) (m : Nat) (h : unitMultiplier u = some m) : (u, m) ∈ Gen.sizeUnits := by
  unfold unitMultiplier at h
  cases hf : Gen.sizeUnits.find? (fun e => e.1 = u) with
  | none => rw [hf] at h; cases h
  | some e =>
    rw [hf] at h
    have h1 := List.find?_some hf
    have h2 := List.mem_of_find?_eq_some hf
    simp only [decide_eq_true_eq] at h1
    simp only [Option.map_some, Option.some.injEq] at h
    obtain ⟨a, b⟩ := e
    simp only at h1 h
    subst h1; subst h; exact h2

theorem parseHumanSize_plain (num : Txt) (v : Nat) (hn : parseUnsigned 64 num = some v) :
    parseHumanSize num = .ok v := by
  unfold parseHumanSize
  rw [List.findIdx?_eq_none_iff.mpr (numeral_no_alpha 64 num v hn), hn]; rfl

theorem parseHumanSize_unit (num u : Txt) (v m : Nat) (hn : parseUnsigned 64 num = some v)
    (hu : (u, m) ∈ Gen.sizeUnits) :
    parseHumanSize (num ++ u) = if m * v < 2 ^ 64 then .ok (m * v) else .panic := by
  obtain ⟨c, r, hcr, hc⟩ := sizeUnits_wellformed.1 _ hu
  simp only at hcr
  have hidx : (num ++ u).findIdx? Char.isAlpha = some num.length := by
    rw [List.findIdx?_append, List.findIdx?_eq_none_iff.mpr (numeral_no_alpha 64 num v hn), hcr,
      List.findIdx?_cons, if_pos hc]
    simp
  unfold parseHumanSize
  rw [hidx]
  simp only [List.take_left, List.drop_left, hn, unitMultiplier_of_mem u m hu]

theorem parseHumanSize_cases (s : Txt) :
    parseHumanSize s = .refused ∨
    (∃ v, parseUnsigned 64 s = some v ∧ parseHumanSize s = .ok v) ∨
    (∃ num u v m, s = num ++ u ∧ parseUnsigned 64 num = some v ∧ (u, m) ∈ Gen.sizeUnits ∧
      parseHumanSize s = if m * v < 2 ^ 64 then .ok (m * v) else .panic) := by
  unfold parseHumanSize
  cases hi : s.findIdx? Char.isAlpha with
  | none =>
    cases hp : parseUnsigned 64 s with
    | none => left; rfl
    | some v => right; left; exact ⟨v, rfl, rfl⟩
  | some i =>
    simp only
    cases hp : parseUnsigned 64 (s.take i) with
    | none => left; rfl
    | some v =>
      cases hm : unitMultiplier (s.drop i) with
      | none => left; rfl
      | some m =>
        right; right
        exact ⟨s.take i, s.drop i, v, m, (List.take_append_drop i s).symm, hp, mem_of_unitMultiplier _ _ hm, rfl⟩

/-- **Size texts.**  A size text is accepted with value `n` iff it is a number (optional `+`,
decimal digits, below 2^64), alone or followed by one of the units of the table, and `n` is the
number times the unit's multiplier and fits 64 bits.  Nothing else is accepted. -/
theorem parseHumanSize_ok_iff (s : Txt) (n : Nat) :
    parseHumanSize s = .ok n ↔
      ∃ num v m, parseUnsigned 64 num = some v ∧ n = m * v ∧ n < 2 ^ 64 ∧
        ((s = num ∧ m = 1) ∨ ∃ u, (u, m) ∈ Gen.sizeUnits ∧ s = num ++ u) := by
  constructor
  · intro h
    rcases parseHumanSize_cases s with hr | ⟨v, hp, hr⟩ | ⟨num, u, v, m, hs, hp, hu, hr⟩
    · rw [hr] at h; cases h
    · rw [hr] at h
      have hvn : v = n := Parsed.ok.inj h
      subst hvn
      obtain ⟨_, _, _, _, hlt⟩ := (parseUnsigned_some_iff 64 s v).mp hp
      exact ⟨s, v, 1, hp, (Nat.one_mul v).symm, hlt, Or.inl ⟨rfl, rfl⟩⟩
    · rw [hr] at h
      by_cases hlt : m * v < 2 ^ 64
      · rw [if_pos hlt] at h
        have hvn : m * v = n := Parsed.ok.inj h
        subst hvn
        exact ⟨num, v, m, hp, rfl, hlt, Or.inr ⟨u, hu, hs⟩⟩
      · rw [if_neg hlt] at h; cases h
  · rintro ⟨num, v, m, hp, rfl, hlt, ⟨rfl, rfl⟩ | ⟨u, hu, rfl⟩⟩
    · rw [parseHumanSize_plain _ v hp, Nat.one_mul]
    · rw [parseHumanSize_unit num u v m hp hu, if_pos hlt]

/-- ... and it panics (in a build with overflow checks) iff it is such a number with a unit whose
product does not fit 64 bits. -/
theorem parseHumanSize_panic_iff (s : Txt) :
    parseHumanSize s = .panic ↔
      ∃ num v u m, parseUnsigned 64 num = some v ∧ (u, m) ∈ Gen.sizeUnits ∧ s = num ++ u ∧ 2 ^ 64 ≤ m * v := by
  constructor
  · intro h
    rcases parseHumanSize_cases s with hr | ⟨v, hp, hr⟩ | ⟨num, u, v, m, hs, hp, hu, hr⟩
    · rw [hr] at h; cases h
    · rw [hr] at h; cases h
    · rw [hr] at h
      by_cases hlt : m * v < 2 ^ 64
      · rw [if_pos hlt] at h; cases h
      · exact ⟨num, v, u, m, hp, hu, hs, Nat.le_of_not_lt hlt⟩
  · rintro ⟨num, v, u, m, hp, hu, rfl, hge⟩
    rw [parseHumanSize_unit num u v m hp hu, if_neg (Nat.not_lt.mpr hge)]

/-! ### checksum texts -/

def nibbleChar (n : Nat) : UInt8 := if n < 10 then UInt8.ofNat (48 + n) else UInt8.ofNat (87 + n)

/-- Lower-case hexadecimal text (as ASCII bytes) of a byte string: what `bita info` prints. -/
def hexText : Bytes → Bytes
  | [] => []
  | b :: bs => nibbleChar (b.toNat / 16) :: nibbleChar (b.toNat % 16) :: hexText bs

/-- The text `hex_str_to_vec` works on: an odd-length text gets a leading `0`. -/
def padded (s : Bytes) : Bytes := if s.length % 2 = 1 then 48 :: s else s

theorem hexDigitVal_lt (b : UInt8) (y : Nat) (h : hexDigitVal b = some y) : y < 16 := by
  unfold hexDigitVal at h
  simp only [UInt8.le_iff_toNat_le, UInt8.toNat_ofNat] at h
  split at h
  · cases h; omega
  · split at h
    · cases h; omega
    · split at h
      · cases h; omega
      · cases h

/-- What a pair of characters denotes. -/
theorem parseHexPair_denotes (a b v : UInt8) (h : parseHexPair a b = some v) :
    (a = 43 ∧ ∃ y, hexDigitVal b = some y ∧ v.toNat = y) ∨
    (∃ x y, hexDigitVal a = some x ∧ hexDigitVal b = some y ∧ v.toNat = 16 * x + y) := by
  unfold parseHexPair at h
  by_cases ha : a = 43
  · rw [if_pos ha] at h
    cases hb : hexDigitVal b with
    | none => rw [hb] at h; cases h
    | some y =>
      rw [hb] at h
      have hy := hexDigitVal_lt b y hb
      simp only [Option.map_some, Option.some.injEq] at h
      subst h
      left
      refine ⟨ha, y, rfl, ?_⟩
      rw [UInt8.toNat_ofNat']; omega
  · rw [if_neg ha] at h
    right
    cases hx : hexDigitVal a with
    | none => rw [hx] at h; cases h
    | some x =>
      cases hb : hexDigitVal b with
      | none => rw [hx, hb] at h; cases h
      | some y =>
        rw [hx, hb] at h
        have hx' := hexDigitVal_lt a x hx
        have hy := hexDigitVal_lt b y hb
        simp only [Option.some.injEq] at h
        subst h
        refine ⟨x, y, rfl, rfl, ?_⟩
        rw [UInt8.toNat_ofNat']; omega

theorem hexPairs_ok (s v : Bytes) (h : hexPairs s = .ok v) :
    2 * v.length = s.length ∧
    ∀ i (hi : i < v.length), ∃ a b, s[2 * i]? = some a ∧ s[2 * i + 1]? = some b ∧
      parseHexPair a b = some v[i] := by
  induction s using hexPairs.induct generalizing v with
  | case1 =>
    simp only [hexPairs, Parsed.ok.injEq] at h
    subst h
    exact ⟨rfl, fun i hi => absurd hi (Nat.not_lt_zero _)⟩
  | case2 x => simp [hexPairs] at h
  | case3 a b rest hc => simp [hexPairs, hc] at h
  | case4 a b rest hc hp => simp [hexPairs, hc, hp] at h
  | case5 a b rest hc x hp ih =>
    rw [hexPairs, if_neg hc] at h
    simp only [hp] at h
    obtain ⟨vs, hvs, hv⟩ := bind_ok _ _ _ h
    simp only [Parsed.ok.injEq] at hv
    subst hv
    obtain ⟨h1, h2⟩ := ih vs hvs
    refine ⟨by simp only [List.length_cons]; omega, ?_⟩
    intro i hi
    cases i with
    | zero => exact ⟨a, b, rfl, rfl, hp⟩
    | succ j =>
      obtain ⟨a', b', e1, e2, e3⟩ := h2 j (by simpa using hi)
      refine ⟨a', b', ?_, ?_, ?_⟩
      · rw [show 2 * (j + 1) = 2 * j + 1 + 1 from by omega, List.getElem?_cons_succ, List.getElem?_cons_succ]; exact e1
      · rw [show 2 * (j + 1) + 1 = 2 * j + 1 + 1 + 1 from by omega, List.getElem?_cons_succ, List.getElem?_cons_succ]; exact e2
      · simpa using e3

/-- **Checksum texts, soundness.**  An accepted `--verify-header` text denotes the accepted bytes
pair by pair: nothing is cut off, nothing is dropped, at most 64 bytes (F6/F15 at the text level). -/
theorem parseHashSum_ok (s v : Bytes) (h : parseHashSum s = .ok v) :
    v.length ≤ Gen.hashMaxLen ∧ 2 * v.length = (padded s).length ∧
    ∀ i (hi : i < v.length), ∃ a b, (padded s)[2 * i]? = some a ∧ (padded s)[2 * i + 1]? = some b ∧
      parseHexPair a b = some v[i] := by
  unfold parseHashSum hexStrToVec at h
  obtain ⟨w, hw, hv⟩ := bind_ok _ _ _ h
  by_cases hl : w.length > Gen.hashMaxLen
  · rw [if_pos hl] at hv; cases hv
  · rw [if_neg hl] at hv
    have hwv : w = v := Parsed.ok.inj hv
    subst hwv
    exact ⟨Nat.le_of_not_lt hl, hexPairs_ok _ _ hw⟩

theorem nibble_facts : ∀ n, n < 16 →
    isCont (nibbleChar n) = false ∧ hexDigitVal (nibbleChar n) = some n ∧ nibbleChar n ≠ 43 := by
  decide

theorem hexText_length (b : Bytes) : (hexText b).length = 2 * b.length := by
  induction b with
  | nil => rfl
  | cons x xs ih => simp only [hexText, List.length_cons, ih]; omega

theorem startsAtBoundary_hexText (b : Bytes) : startsAtBoundary (hexText b) = true := by
  cases b with
  | nil => rfl
  | cons x xs =>
    simp only [hexText, startsAtBoundary]
    rw [(nibble_facts (x.toNat / 16) (by have := x.toNat_lt; omega)).1]; rfl

theorem parseHexPair_nibbles (x : UInt8) :
    parseHexPair (nibbleChar (x.toNat / 16)) (nibbleChar (x.toNat % 16)) = some x := by
  have hx := x.toNat_lt
  obtain ⟨_, h1, h2⟩ := nibble_facts (x.toNat / 16) (by omega)
  obtain ⟨_, h3, _⟩ := nibble_facts (x.toNat % 16) (by omega)
  unfold parseHexPair
  rw [if_neg h2, h1, h3]
  simp only [Option.some.injEq]
  rw [show 16 * (x.toNat / 16) + x.toNat % 16 = x.toNat from by omega, UInt8.ofNat_toNat]

theorem hexPairs_hexText (b : Bytes) : hexPairs (hexText b) = .ok b := by
  induction b with
  | nil => rfl
  | cons x xs ih =>
    have hx := x.toNat_lt
    rw [hexText, hexPairs, (nibble_facts (x.toNat / 16) (by omega)).1, startsAtBoundary_hexText,
      parseHexPair_nibbles]
    simp only [Bool.not_true, Bool.or_self, Bool.false_eq_true, if_false, ih]
    rfl

/-- **Checksum texts, completeness.**  The hexadecimal text of any checksum of at most 64 bytes is
accepted and denotes it. -/
theorem parseHashSum_hexText (b : Bytes) (h : b.length ≤ Gen.hashMaxLen) :
    parseHashSum (hexText b) = .ok b := by
  unfold parseHashSum hexStrToVec
  rw [if_neg (by rw [hexText_length]; omega), hexPairs_hexText]
  simp only [Parsed.bind]
  rw [if_neg (Nat.not_lt.mpr h)]

theorem hexPairs_panic (s : Bytes) (h : hexPairs s = .panic) : ∃ c ∈ s, isCont c = true := by
  induction s using hexPairs.induct with
  | case1 => simp [hexPairs] at h
  | case2 x => simp [hexPairs] at h
  | case3 a b rest hc =>
    simp only [Bool.or_eq_true, Bool.not_eq_true'] at hc
    rcases hc with hc | hc
    · exact ⟨a, by simp, hc⟩
    · cases rest with
      | nil => simp [startsAtBoundary] at hc
      | cons c cs =>
        simp only [startsAtBoundary, Bool.not_eq_false'] at hc
        exact ⟨c, by simp, hc⟩
  | case4 a b rest hc hp => simp [hexPairs, hc, hp] at h
  | case5 a b rest hc x hp ih =>
    rw [hexPairs, if_neg hc] at h
    simp only [hp] at h
    rcases bind_panic _ _ h with h | ⟨vs, _, h⟩
    · obtain ⟨c, hc, hcc⟩ := ih h
      exact ⟨c, by simp [hc], hcc⟩
    · cases h

/-- The parser panics only on a text that is not ASCII (a string slice that does not end on a
character boundary). -/
theorem parseHashSum_panic (s : Bytes) (h : parseHashSum s = .panic) : ∃ c ∈ s, isCont c = true := by
  unfold parseHashSum hexStrToVec at h
  rcases bind_panic _ _ h with h | ⟨w, _, h⟩
  · obtain ⟨c, hc, hcc⟩ := hexPairs_panic _ h
    by_cases hl : s.length % 2 = 1
    · rw [if_pos hl] at hc
      rcases List.mem_cons.mp hc with rfl | hc
      · exact absurd hcc (by decide)
      · exact ⟨c, hc, hcc⟩
    · rw [if_neg hl] at hc; exact ⟨c, hc, hcc⟩
  · split at h <;> cases h

/-! ### chunker options -/

theorem log2_bounds (x : Nat) (h2 : 2 ≤ x) (h32 : x < 2 ^ 32) : 1 ≤ Nat.log2 x ∧ Nat.log2 x ≤ 31 := by
  have hx : x ≠ 0 := by omega
  have h1 : 1 ≤ Nat.log2 x := (Nat.le_log2 hx).mpr (by omega)
  have h3 : Nat.log2 x < 32 := (Nat.log2_lt hx).mpr h32
  omega

theorem clz32_small (x : Nat) (h : x < 2) : ¬ clz32 x ≤ 30 := by
  unfold clz32
  have : x = 0 ∨ x = 1 := by omega
  rcases this with rfl | rfl
  · decide
  · have : Nat.log2 1 = 0 := by decide
    simp only [this]; decide

theorem clz32_big (x : Nat) (h2 : 2 ≤ x) (h32 : x < 2 ^ 32) : clz32 x = 31 - Nat.log2 x := by
  unfold clz32
  rw [if_neg (by omega)]
  omega

theorem filterBitsFromSize_spec (n : Nat) :
    (n % 2 ^ 32 < 2 → filterBitsFromSize n = .panic) ∧
    (2 ≤ n % 2 ^ 32 → filterBitsFromSize n = .ok (Nat.log2 (n % 2 ^ 32) - 1)) := by
  have hlt : n % 2 ^ 32 < 2 ^ 32 := Nat.mod_lt _ (by decide)
  constructor
  · intro h
    unfold filterBitsFromSize
    simp only
    rw [if_neg (clz32_small _ h)]
  · intro h
    have hb := log2_bounds _ h hlt
    unfold filterBitsFromSize
    simp only
    rw [clz32_big _ h hlt, if_pos (by omega)]
    congr 1
    omega

/-- `parse_chunker_opts` accepts exactly `2 <= avg`, `min <= avg <= max < 2^32`, `window < 2^32`; the
filter bits are `log2 avg - 1`, i.e. the recorded target average `2^(bits+1)` is `avg` rounded down
to a power of two; it panics iff `avg (mod 2^32) < 2`. -/
theorem parseChunkerOpts_ok_iff (avg mn mx w : Nat) (f : FilterConfig) :
    parseChunkerOpts avg mn mx w = .ok f ↔
      (2 ≤ avg ∧ mn ≤ avg ∧ avg ≤ mx ∧ mx < 2 ^ 32 ∧ w < 2 ^ 32 ∧
       f = ⟨Nat.log2 avg - 1, mn, mx, w⟩) := by
  have hspec := filterBitsFromSize_spec avg
  have h32 : (2 : Nat) ^ 32 = 4294967296 := by decide
  unfold parseChunkerOpts
  constructor
  · intro h
    obtain ⟨bits, hb, h⟩ := bind_ok _ _ _ h
    by_cases h1 : mn > avg
    · rw [if_pos h1] at h; cases h
    rw [if_neg h1] at h
    by_cases h2 : mx < avg
    · rw [if_pos h2] at h; cases h
    rw [if_neg h2] at h
    by_cases h3 : mx > 2 ^ 32 - 1 ∨ w > 2 ^ 32 - 1
    · rw [if_pos h3] at h; cases h
    rw [if_neg h3] at h
    have hf := Parsed.ok.inj h
    have hmod : avg % 2 ^ 32 = avg := Nat.mod_eq_of_lt (by omega)
    by_cases hsmall : avg % 2 ^ 32 < 2
    · rw [hspec.1 hsmall] at hb; cases hb
    · rw [hspec.2 (by omega), hmod] at hb
      have hbits := Parsed.ok.inj hb
      subst hbits
      refine ⟨by omega, by omega, by omega, by omega, by omega, hf.symm⟩
  · rintro ⟨h1, h2, h3, h4, h5, rfl⟩
    have hmod : avg % 2 ^ 32 = avg := Nat.mod_eq_of_lt (by omega)
    rw [hspec.2 (by omega), hmod]
    simp only [Parsed.bind]
    rw [if_neg (by omega), if_neg (by omega), if_neg (by omega)]

theorem parseChunkerOpts_bits (avg mn mx w : Nat) (f : FilterConfig)
    (h : parseChunkerOpts avg mn mx w = .ok f) :
    f.bits ≤ 30 ∧ (1 ≤ f.bits ↔ 4 ≤ avg) ∧ (4 ≤ avg → 2 ^ (f.bits + 1) ≤ avg ∧ avg < 2 ^ (f.bits + 2)) := by
  obtain ⟨h1, h2, h3, h4, h5, rfl⟩ := (parseChunkerOpts_ok_iff avg mn mx w f).mp h
  have hb := log2_bounds avg h1 (by omega)
  have h0 : avg ≠ 0 := by omega
  simp only
  refine ⟨by omega, ?_, ?_⟩
  · have : 2 ≤ Nat.log2 avg ↔ 2 ^ 2 ≤ avg := Nat.le_log2 h0
    omega
  · intro h4
    have e1 : Nat.log2 avg - 1 + 1 = Nat.log2 avg := by omega
    have e2 : Nat.log2 avg - 1 + 2 = Nat.log2 avg + 1 := by omega
    rw [e1, e2]
    exact ⟨Nat.log2_self_le h0, Nat.lt_log2_self⟩

theorem parseChunkerOpts_panic_iff (avg mn mx w : Nat) :
    parseChunkerOpts avg mn mx w = .panic ↔ avg % 2 ^ 32 < 2 := by
  have hspec := filterBitsFromSize_spec avg
  unfold parseChunkerOpts
  constructor
  · intro h
    by_cases hsmall : avg % 2 ^ 32 < 2
    · exact hsmall
    · rw [hspec.2 (by omega)] at h
      simp only [Parsed.bind] at h
      repeat' split at h
      all_goals cases h
  · intro h
    rw [hspec.1 h]; rfl

/-- Configurations the command line lets through although no chunker can run them (or the reader
refuses them): a zero window, a BuzHash window above the maximum chunk size, a target average of 2
or 3 (no filter bit), a fixed size of 0.  Everything else it accepts is `OptsOK`. -/
def NotMisuse : Config → Prop
  | .fixed n => 1 ≤ n
  | .rollsum f => 1 ≤ f.window ∧ 1 ≤ f.bits
  | .buzhash f => 1 ≤ f.window ∧ f.window ≤ f.maxSize ∧ 1 ≤ f.bits

theorem rangedU32_ok (lo hi : Nat) (s : Txt) (v : Nat) (h : rangedU32 lo hi s = .ok v) : lo ≤ v ∧ v ≤ hi := by
  unfold rangedU32 at h
  split at h
  · cases h
  · split at h
    · split at h
      · rename_i hr
        cases h; exact hr
      · cases h
    · cases h

theorem parseCompression_ok (name : Txt) (level : Nat) (c : Compr) (h : parseCompression name level = .ok c) :
    c = none ∨ ∃ l, 1 ≤ l ∧ l ≤ Gen.brotliMaxLevel ∧ c = some (Gen.enum_CompressionType_BROTLI, l) := by
  unfold parseCompression at h
  split at h
  · split at h
    · cases h
    · rename_i hl
      cases h
      exact Or.inr ⟨level, by omega, by omega, rfl⟩
  · split at h
    · cases h; exact Or.inl rfl
    · cases h

/-- The shape of a configuration `parse_chunker_config` lets through. -/
def CfgShape : Config → Prop
  | .buzhash f | .rollsum f =>
    f.minSize ≤ f.maxSize ∧ 2 ≤ f.maxSize ∧ f.maxSize < 2 ^ 32 ∧ f.window < 2 ^ 32 ∧ f.bits ≤ 30
  | .fixed n => n < 2 ^ 32

theorem chunkerConfig_ok (fixed : Option Nat) (avg mn mx w : Nat) (algo : Txt) (cfg : Config)
    (h : (match fixed with
      | some n => if n > 2 ^ 32 - 1 then Parsed.refused else .ok (Config.fixed n)
      | none =>
        (parseChunkerOpts avg mn mx w).bind fun f =>
          .ok (if algo = Gen.txtBuzHash then Config.buzhash f else Config.rollsum f)) = .ok cfg) :
    CfgShape cfg := by
  have h32 : (2 : Nat) ^ 32 = 4294967296 := by decide
  cases fixed with
  | some n =>
    simp only at h
    split at h
    · cases h
    · cases h; simp only [CfgShape]; omega
  | none =>
    simp only at h
    obtain ⟨f, hf, h⟩ := bind_ok _ _ _ h
    have hb := (parseChunkerOpts_bits _ _ _ _ _ hf).1
    obtain ⟨h1, h2, h3, h4, h5, rfl⟩ := (parseChunkerOpts_ok_iff _ _ _ _ _).mp hf
    have hc := Parsed.ok.inj h
    subst hc
    split <;> (simp only [CfgShape]; simp only at hb; omega)

theorem parseCompress_ok' (a : CompressArgs) (p : CompressParsed) (h : parseCompress a = .ok p) :
    p.cmd.output = a.output ∧ p.cmd.temp = tempPathOf a.output ∧ p.cmd.flags = ⟨a.force, false, false⟩ ∧
    p.stdin = a.input.isNone ∧ p.cmd.opts.metadata = [] ∧
    Gen.cliHashLengthMin ≤ p.cmd.opts.hashLen ∧ p.cmd.opts.hashLen ≤ Gen.hashMaxLen ∧
    (p.cmd.opts.compression = none ∨ ∃ l, 1 ≤ l ∧ l ≤ Gen.brotliMaxLevel ∧
      p.cmd.opts.compression = some (Gen.enum_CompressionType_BROTLI, l)) ∧
    CfgShape p.cmd.opts.cfg := by
  unfold parseCompress at h
  obtain ⟨avg, _, h⟩ := bind_ok _ _ _ h
  obtain ⟨mn, _, h⟩ := bind_ok _ _ _ h
  obtain ⟨mx, _, h⟩ := bind_ok _ _ _ h
  obtain ⟨algo, _, h⟩ := bind_ok _ _ _ h
  obtain ⟨w, _, h⟩ := bind_ok _ _ _ h
  obtain ⟨fixed, _, h⟩ := bind_ok _ _ _ h
  obtain ⟨level, _, h⟩ := bind_ok _ _ _ h
  obtain ⟨cname, _, h⟩ := bind_ok _ _ _ h
  obtain ⟨hashLen, hhl, h⟩ := bind_ok _ _ _ h
  obtain ⟨buffers, _, h⟩ := bind_ok _ _ _ h
  split at h
  · cases h
  obtain ⟨cfg, hcfg, h⟩ := bind_ok _ _ _ h
  obtain ⟨compr, hcompr, h⟩ := bind_ok _ _ _ h
  have hp := Parsed.ok.inj h
  subst hp
  have hr := rangedU32_ok _ _ _ _ hhl
  exact ⟨rfl, rfl, rfl, rfl, rfl, hr.1, hr.2, parseCompression_ok _ _ _ hcompr,
    chunkerConfig_ok _ _ _ _ _ _ _ hcfg⟩

/-- What an accepted `bita compress` command line hands on. -/
theorem parseCompress_ok (a : CompressArgs) (p : CompressParsed) (h : parseCompress a = .ok p) :
    p.cmd.output = a.output ∧ p.cmd.temp = tempPathOf a.output ∧ p.cmd.flags = ⟨a.force, false, false⟩ ∧
    p.stdin = a.input.isNone ∧ p.cmd.opts.metadata = [] ∧
    Gen.cliHashLengthMin ≤ p.cmd.opts.hashLen ∧ p.cmd.opts.hashLen ≤ Gen.hashMaxLen ∧
    (p.cmd.opts.compression = none ∨ ∃ l, 1 ≤ l ∧ l ≤ Gen.brotliMaxLevel ∧
      p.cmd.opts.compression = some (Gen.enum_CompressionType_BROTLI, l)) ∧
    (match p.cmd.opts.cfg with
      | .buzhash f | .rollsum f =>
        f.minSize ≤ f.maxSize ∧ 2 ≤ f.maxSize ∧ f.maxSize < 2 ^ 32 ∧ f.window < 2 ^ 32 ∧ f.bits ≤ 30
      | .fixed n => n < 2 ^ 32) := by
  obtain ⟨h1, h2, h3, h4, h5, h6, h7, h8, h9⟩ := parseCompress_ok' a p h
  refine ⟨h1, h2, h3, h4, h5, h6, h7, h8, ?_⟩
  cases hc : p.cmd.opts.cfg <;> (rw [hc] at h9; exact h9)

/-- **The command line hands the writer only configurations the theorems cover** - except for the
misuse set, which is characterised exactly: for an accepted command line, `OptsOK` (the hypothesis
of `C01.compress_conforms`, `C01.roundtrip`, `C11.writer_invariants` ...) holds iff the
configuration is not in it.  In particular every size fits the 32-bit field it is recorded in
(F21), and the hash length is one the reader accepts (F20). -/
theorem cli_options_ok_iff (a : CompressArgs) (p : CompressParsed) (h : parseCompress a = .ok p) :
    OptsOK p.cmd.opts ↔ NotMisuse p.cmd.opts.cfg := by
  obtain ⟨_, _, _, _, h5, h6, h7, h8, h9⟩ := parseCompress_ok' a p h
  have hmin : Gen.cliHashLengthMin = 4 := rfl
  have hmax : Gen.hashMaxLen = 64 := rfl
  have hlev : Gen.brotliMaxLevel = 11 := rfl
  have h32 : (2 : Nat) ^ 32 = 4294967296 := by decide
  generalize p.cmd.opts = o at *
  obtain ⟨cfg, hashLen, compr, md⟩ := o
  simp only at h5 h6 h7 h8 h9 ⊢
  subst h5
  have hcompr : compr = none ∨ ∃ l, l < 2 ^ 32 ∧ compr = some (Gen.enum_CompressionType_BROTLI, l) := by
    rcases h8 with h8 | ⟨l, _, hl, h8⟩
    · exact Or.inl h8
    · exact Or.inr ⟨l, by omega, h8⟩
  constructor
  · intro ok
    have hv := ok.valid
    cases cfg with
    | buzhash f =>
      simp only [Config.Valid, FilterConfig.Valid] at hv
      simp only [NotMisuse]; omega
    | rollsum f =>
      simp only [Config.Valid, FilterConfig.ValidRoll] at hv
      simp only [NotMisuse]; omega
    | fixed n =>
      simp only [Config.Valid] at hv
      simp only [NotMisuse]; omega
  · intro nm
    cases cfg with
    | buzhash f =>
      simp only [NotMisuse] at nm
      simp only [CfgShape] at h9
      exact ⟨by simp only [Config.Valid, FilterConfig.Valid]; omega,
        by simp only [configAccepted, decide_eq_true_eq]; omega,
        by show f.maxSize < 2 ^ 32 ∧ f.minSize < 2 ^ 32 ∧ f.window < 2 ^ 32; omega, by show 1 ≤ hashLen ∧ hashLen ≤ 64; omega, hcompr, by simp, by simp⟩
    | rollsum f =>
      simp only [NotMisuse] at nm
      simp only [CfgShape] at h9
      exact ⟨by simp only [Config.Valid, FilterConfig.ValidRoll]; omega,
        by simp only [configAccepted, decide_eq_true_eq]; omega,
        by show f.maxSize < 2 ^ 32 ∧ f.minSize < 2 ^ 32 ∧ f.window < 2 ^ 32; omega, by show 1 ≤ hashLen ∧ hashLen ≤ 64; omega, hcompr, by simp, by simp⟩
    | fixed n =>
      simp only [NotMisuse] at nm
      simp only [CfgShape] at h9
      exact ⟨by simp only [Config.Valid]; omega,
        by simp only [configAccepted, decide_eq_true_eq]; omega,
        by show n < 2 ^ 32; omega, by show 1 ≤ hashLen ∧ hashLen ≤ 64; omega, hcompr, by simp, by simp⟩

end Bita.Proofs
