/-
  The planner across trees: static facts about the movable chunks / initial layout / roots of
  `reorderOps (indexOf O) (strip ..)`, removal of a finished tree, and the invariant `J` of the
  fold over trees (C03 T1, part C of the proof plan).
-/
import Bita.Model.Planner
import Bita.Spec.InPlace
import Bita.Proofs.PlannerIndexFacts
import Bita.Proofs.PlannerOverlap
import Bita.Proofs.PlannerDfs

set_option linter.unusedSectionVars false
set_option linter.unusedSimpArgs false

namespace Bita.Proofs.Planner
open Bita Bita.Spec

variable {κ : Type} [DecidableEq κ]

/-! ### Generic list facts -/

theorem pairwise_mem_or {α : Type} {R : α → α → Prop} {l : List α} (h : l.Pairwise R) {a b : α}
    (ha : a ∈ l) (hb : b ∈ l) (hab : a ≠ b) : R a b ∨ R b a := by
  induction h with
  | nil => simp at ha
  | cons hx _ ih =>
    rcases List.mem_cons.mp ha with rfl | ha' <;> rcases List.mem_cons.mp hb with rfl | hb'
    · exact absurd rfl hab
    · exact Or.inl (hx _ hb')
    · exact Or.inr (hx _ ha')
    · exact ih ha' hb'

theorem sortBySource_ins_mem {c d : MoveChunk κ} {l : List (MoveChunk κ)} :
    d ∈ sortBySource.ins c l ↔ d = c ∨ d ∈ l := by
  induction l with
  | nil => simp [sortBySource.ins]
  | cons x xs ih =>
    unfold sortBySource.ins
    split
    · simp
    · simp [ih]; constructor
      · rintro (h | h | h) <;> simp [h]
      · rintro (h | h | h) <;> simp [h]

theorem mem_sortBySource {d : MoveChunk κ} {l : List (MoveChunk κ)} :
    d ∈ sortBySource l ↔ d ∈ l := by
  induction l with
  | nil => simp [sortBySource]
  | cons x xs ih => simp [sortBySource, sortBySource_ins_mem, ih]

/-! ### The setting: prior tiling `O`, target tiling `N` -/

section setting
variable (content : κ → Bytes) (O N : List κ)

/-- First offset of `k` in the prior file (what the planner reads via `.unwrap()`). -/
def fo (k : κ) : Nat := firstD (indexOf content O) k

/-- The layout entry of a movable key. -/
def entryOf (k : κ) : ChunkOffset × κ := (⟨fo content O k, (content k).length⟩, k)

/-- `k` has to be moved. -/
def Mov (k : κ) : Prop := k ∈ O ∧ dests (placements content O 0) (placements content N 0) k ≠ []

variable {content O N}

theorem firstOff_fo (hO : ∀ k ∈ O, content k ≠ []) {k : κ} (hk : k ∈ O) :
    firstOff (placements content O 0) k = some (fo content O k) := by
  have h1 := indexOf_firstOffset content O hO k
  have h2 := firstOff_eq_head? (placements content O 0) k
  have h3 := offsOf_ne_nil (content := content) (off := 0) hk
  unfold fo firstD
  rw [h1, h2]
  cases h : offsOf (placements content O 0) k with
  | nil => exact absurd h h3
  | cons a as => simp

theorem fo_mem (hO : ∀ k ∈ O, content k ≠ []) {k : κ} (hk : k ∈ O) :
    (k, fo content O k) ∈ placements content O 0 := firstOff_mem (firstOff_fo hO hk)

theorem self_get (hO : ∀ k ∈ O, content k ≠ []) {k : κ} (hk : k ∈ O) :
    (indexOf content O).get k = some ⟨(content k).length, offsOf (placements content O 0) k⟩ := by
  rw [indexOf_get content O hO k]; simp [hk]

theorem headD_offsOf (hO : ∀ k ∈ O, content k ≠ []) {k : κ} (hk : k ∈ O) :
    (offsOf (placements content O 0) k).headD 0 = fo content O k := by
  have h := firstOff_fo hO hk
  rw [firstOff_eq_head?] at h
  rw [List.headD_eq_head?_getD, h]; rfl

theorem region_disj (hO : ∀ k ∈ O, content k ≠ []) {k1 k2 : κ} (h1 : k1 ∈ O) (h2 : k2 ∈ O)
    (hne : k1 ≠ k2) :
    fo content O k1 + (content k1).length ≤ fo content O k2 ∨
      fo content O k2 + (content k2).length ≤ fo content O k1 := by
  have := pairwise_mem_or (placements_pairwise content O 0) (fo_mem hO h1) (fo_mem hO h2)
    (by intro h; exact hne (Prod.mk.inj h).1)
  simpa using this

theorem offset_inj (hO : ∀ k ∈ O, content k ≠ []) {k1 k2 : κ} {o : Nat}
    (h1 : (k1, o) ∈ placements content O 0) (h2 : (k2, o) ∈ placements content O 0) : k1 = k2 := by
  by_cases h : k1 = k2
  · exact h
  · have := pairwise_mem_or (placements_strict hO 0) h1 h2
      (by intro h'; exact h (Prod.mk.inj h').1)
    simp at this

theorem content_pos (hO : ∀ k ∈ O, content k ≠ []) {k : κ} (hk : k ∈ O) : 0 < (content k).length :=
  List.length_pos_iff.mpr (hO k hk)


/-! ### Movable chunks, the initial layout, the roots -/

def movableOf (self tgt : Index κ) : Index κ :=
  self.filter (fun e => tgt.contains e.1 && !e.2.offsets.isEmpty)

def layout0Of (self tgt : Index κ) : Layout κ :=
  (movableOf self tgt).foldl (fun lay e => lay.insert ⟨e.2.offsets.headD 0, e.2.size⟩ e.1) []

def chunksOf (self tgt : Index κ) : List (MoveChunk κ) :=
  sortBySource ((movableOf self tgt).map
    (fun e => (⟨e.1, e.2.size, e.2.offsets.headD 0⟩ : MoveChunk κ)))

theorem tgt_get (hO : ∀ k ∈ O, content k ≠ []) (hN : ∀ k ∈ N, content k ≠ []) (k : κ) :
    ((indexOf content O).strip (indexOf content N)).1.get k =
      if dests (placements content O 0) (placements content N 0) k = [] then none
      else some ⟨(content k).length, dests (placements content O 0) (placements content N 0) k⟩ :=
  strip_get content O N hO hN k

theorem mem_movable (hO : ∀ k ∈ O, content k ≠ []) (hN : ∀ k ∈ N, content k ≠ [])
    (m : κ × Loc) :
    m ∈ movableOf (indexOf content O) ((indexOf content O).strip (indexOf content N)).1 ↔
      Mov content O N m.1 ∧ m.2 = ⟨(content m.1).length, offsOf (placements content O 0) m.1⟩ := by
  obtain ⟨k, l⟩ := m
  unfold movableOf Mov
  simp only [List.mem_filter, Bool.and_eq_true, Index.contains, tgt_get hO hN]
  constructor
  · rintro ⟨hm, hc, -⟩
    have hg := get_of_mem (indexOf_keys_nodup content O) hm
    rw [indexOf_get content O hO k] at hg
    by_cases hk : k ∈ O
    · simp only [hk, if_true, Option.some.injEq] at hg
      refine ⟨⟨hk, ?_⟩, hg.symm⟩
      intro hd; simp [hd] at hc
    · simp [hk] at hg
  · rintro ⟨⟨hk, hd⟩, hl⟩
    subst hl
    refine ⟨mem_of_get (self_get hO hk), by simp [hd], ?_⟩
    have := offsOf_ne_nil (content := content) (off := 0) hk
    simpa using this

theorem movable_keys_nodup (self tgt : Index κ) (h : (self.map (·.1)).Nodup) :
    ((movableOf self tgt).map (·.1)).Nodup :=
  List.Nodup.sublist (List.Sublist.map _ List.filter_sublist) h

theorem entryOf_of_movable (hO : ∀ k ∈ O, content k ≠ []) {m : κ × Loc}
    (hm : Mov content O N m.1 ∧ m.2 = ⟨(content m.1).length, offsOf (placements content O 0) m.1⟩) :
    ((⟨m.2.offsets.headD 0, m.2.size⟩ : ChunkOffset), m.1) = entryOf content O m.1 := by
  obtain ⟨⟨hk, -⟩, hl⟩ := hm
  rw [hl]; simp only [entryOf, headD_offsOf hO hk]

theorem layout_fold (hO : ∀ k ∈ O, content k ≠ []) (ms : List (κ × Loc))
    (hms : ∀ m ∈ ms, Mov content O N m.1 ∧
      m.2 = ⟨(content m.1).length, offsOf (placements content O 0) m.1⟩)
    (hnd : (ms.map (·.1)).Nodup) (lay : Layout κ) (hd : Disj lay)
    (hlay : ∀ e ∈ lay, ∃ k, Mov content O N k ∧ e = entryOf content O k ∧ k ∉ ms.map (·.1)) :
    Disj (ms.foldl (fun lay e => lay.insert ⟨e.2.offsets.headD 0, e.2.size⟩ e.1) lay) ∧
    ∀ e, e ∈ ms.foldl (fun lay e => lay.insert ⟨e.2.offsets.headD 0, e.2.size⟩ e.1) lay ↔
      e ∈ lay ∨ ∃ m ∈ ms, e = entryOf content O m.1 := by
  induction ms generalizing lay with
  | nil => simp [hd]
  | cons m ms ih =>
    simp only [List.foldl_cons]
    have hm := hms m (by simp)
    have hent := entryOf_of_movable hO hm
    have hmO : m.1 ∈ O := hm.1.1
    simp only [List.map_cons, List.nodup_cons] at hnd
    have hpos : ∀ e ∈ lay, 0 < e.1.size := by
      intro e he
      obtain ⟨k, hk, rfl, -⟩ := hlay e he
      exact content_pos hO hk.1
    have hloc : 0 < (⟨m.2.offsets.headD 0, m.2.size⟩ : ChunkOffset).size := by
      have := congrArg (fun x => x.1.size) hent
      simp only [entryOf] at this
      rw [this]; exact content_pos hO hmO
    have hdis : ∀ e ∈ lay, e.1.stop ≤ (⟨m.2.offsets.headD 0, m.2.size⟩ : ChunkOffset).offset ∨
        (⟨m.2.offsets.headD 0, m.2.size⟩ : ChunkOffset).stop ≤ e.1.offset := by
      intro e he
      obtain ⟨k, hk, rfl, hkm⟩ := hlay e he
      have hne : k ≠ m.1 := by intro h; apply hkm; simp [h]
      have h1 := congrArg (fun x => x.1.offset) hent
      have h2 := congrArg (fun x => x.1.size) hent
      simp only [entryOf] at h1 h2
      have := region_disj hO hk.1 hmO hne
      simp only [entryOf, ChunkOffset.stop, h1, h2]
      exact this
    have hmem := mem_insert hd hpos (v := m.1) hloc hdis
    have hdj := disj_insert hd hpos (v := m.1) hloc hdis
    obtain ⟨ih1, ih2⟩ := ih (fun m' hm' => hms m' (List.mem_cons_of_mem _ hm')) hnd.2 _ hdj
      (by
        intro e he
        rcases (hmem e).mp he with rfl | he
        · rw [hent]
          exact ⟨m.1, hm.1, rfl, hnd.1⟩
        · obtain ⟨k, hk, rfl, hkm⟩ := hlay e he
          exact ⟨k, hk, rfl, fun h => hkm (by simp [h])⟩)
    refine ⟨ih1, fun e => ?_⟩
    rw [ih2 e, hmem e, hent]
    simp only [List.mem_cons, exists_eq_or_imp]
    constructor
    · rintro ((h | h) | h)
      · exact Or.inr (Or.inl h)
      · exact Or.inl h
      · exact Or.inr (Or.inr h)
    · rintro (h | h | h)
      · exact Or.inl (Or.inr h)
      · exact Or.inl (Or.inl h)
      · exact Or.inr h

theorem layout0_facts (hO : ∀ k ∈ O, content k ≠ []) (hN : ∀ k ∈ N, content k ≠ []) :
    Disj (layout0Of (indexOf content O) ((indexOf content O).strip (indexOf content N)).1) ∧
    ∀ e, e ∈ layout0Of (indexOf content O) ((indexOf content O).strip (indexOf content N)).1 ↔
      ∃ k, Mov content O N k ∧ e = entryOf content O k := by
  obtain ⟨h1, h2⟩ := layout_fold (N := N) hO
    (movableOf (indexOf content O) ((indexOf content O).strip (indexOf content N)).1)
    (fun m hm => (mem_movable hO hN m).mp hm)
    (movable_keys_nodup _ _ (indexOf_keys_nodup content O)) [] (by simp [Disj]) (by simp)
  refine ⟨h1, fun e => ?_⟩
  unfold layout0Of
  rw [h2 e]
  simp only [List.not_mem_nil, false_or]
  constructor
  · rintro ⟨m, hm, rfl⟩
    exact ⟨m.1, ((mem_movable hO hN m).mp hm).1, rfl⟩
  · rintro ⟨k, hk, rfl⟩
    exact ⟨(k, ⟨(content k).length, offsOf (placements content O 0) k⟩),
      (mem_movable hO hN _).mpr ⟨hk, rfl⟩, rfl⟩

theorem mem_chunks (hO : ∀ k ∈ O, content k ≠ []) (hN : ∀ k ∈ N, content k ≠ []) (c : MoveChunk κ) :
    c ∈ chunksOf (indexOf content O) ((indexOf content O).strip (indexOf content N)).1 ↔
      ∃ k, Mov content O N k ∧ c = mkChild (indexOf content O) (entryOf content O k) := by
  unfold chunksOf
  rw [mem_sortBySource, List.mem_map]
  constructor
  · rintro ⟨m, hm, rfl⟩
    have hm' := (mem_movable hO hN m).mp hm
    have := entryOf_of_movable hO hm'
    refine ⟨m.1, hm'.1, ?_⟩
    rw [← this]; simp only [mkChild]
    have h2 := congrArg (fun x => x.1.offset) this
    simp only [entryOf, fo] at h2
    rw [h2]
  · rintro ⟨k, hk, rfl⟩
    refine ⟨(k, ⟨(content k).length, offsOf (placements content O 0) k⟩),
      (mem_movable hO hN _).mpr ⟨hk, rfl⟩, ?_⟩
    simp only [mkChild, entryOf, headD_offsOf hO hk.1]; rfl


/-! ### Removing a finished tree from the layout -/

def removeVisited (self : Index κ) (vis : List κ) (lay : Layout κ) : Layout κ :=
  vis.foldl (fun lay k =>
    match self.get k with
    | some l => l.offsets.foldl (fun lay o => Layout.remove lay ⟨o, l.size⟩) lay
    | none => lay) lay

theorem remove_offs (sz : Nat) (offs : List Nat) (lay : Layout κ) :
    (offs.foldl (fun lay o => Layout.remove lay ⟨o, sz⟩) lay).Sublist lay ∧
    ∀ e, e ∈ offs.foldl (fun lay o => Layout.remove lay ⟨o, sz⟩) lay ↔
      e ∈ lay ∧ ∀ o ∈ offs, e.1 ≠ ⟨o, sz⟩ := by
  induction offs generalizing lay with
  | nil => simp
  | cons o os ih =>
    simp only [List.foldl_cons]
    obtain ⟨h1, h2⟩ := ih (Layout.remove lay ⟨o, sz⟩)
    refine ⟨h1.trans (remove_sublist _ _), fun e => ?_⟩
    rw [h2 e, mem_remove]
    simp only [List.mem_cons, forall_eq_or_imp, and_assoc]

theorem removeVisited_facts (self : Index κ) (vis : List κ) (lay : Layout κ) :
    (removeVisited self vis lay).Sublist lay ∧
    ∀ e, e ∈ removeVisited self vis lay ↔
      e ∈ lay ∧ ∀ k ∈ vis, ∀ l, self.get k = some l → ∀ o ∈ l.offsets, e.1 ≠ ⟨o, l.size⟩ := by
  unfold removeVisited
  induction vis generalizing lay with
  | nil => simp
  | cons k ks ih =>
    simp only [List.foldl_cons]
    cases hg : self.get k with
    | none =>
      obtain ⟨h1, h2⟩ := ih lay
      refine ⟨h1, fun e => ?_⟩
      rw [h2 e]
      simp only [List.mem_cons, forall_eq_or_imp, hg]
      simp
    | some l =>
      simp only
      obtain ⟨r1, r2⟩ := remove_offs l.size l.offsets lay
      obtain ⟨h1, h2⟩ := ih (l.offsets.foldl (fun lay o => Layout.remove lay ⟨o, l.size⟩) lay)
      refine ⟨h1.trans r1, fun e => ?_⟩
      rw [h2 e, r2 e]
      simp only [List.mem_cons, forall_eq_or_imp, hg, Option.some.injEq, forall_eq', and_assoc]

theorem removeVisited_mem (hO : ∀ k ∈ O, content k ≠ []) (vis : List κ) (lay : Layout κ)
    (hlay : ∀ e ∈ lay, ∃ k, Mov content O N k ∧ e = entryOf content O k)
    (hvis : ∀ k ∈ vis, k ∈ O) (e : ChunkOffset × κ) :
    e ∈ removeVisited (indexOf content O) vis lay ↔ e ∈ lay ∧ e.2 ∉ vis := by
  rw [(removeVisited_facts _ vis lay).2 e]
  constructor
  · rintro ⟨he, h⟩
    refine ⟨he, fun hv => ?_⟩
    obtain ⟨k, hk, rfl⟩ := hlay e he
    simp only [entryOf] at hv
    refine h k hv _ (self_get hO hk.1) (fo content O k) ?_ rfl
    exact mem_offsOf.mpr (fo_mem hO hk.1)
  · rintro ⟨he, h⟩
    refine ⟨he, fun k hk l hl o ho heq => ?_⟩
    obtain ⟨k', hk', rfl⟩ := hlay e he
    rw [self_get hO (hvis k hk)] at hl
    simp only [Option.some.injEq] at hl
    subst hl
    simp only [entryOf, ChunkOffset.mk.injEq] at heq h
    have h1 := mem_offsOf.mp ho
    rw [← heq.1] at h1
    have := offset_inj hO (fo_mem hO hk'.1) h1
    exact h (this ▸ hk)

/-! ### `orderedFrom` -/

theorem orderedFrom_append (PO : List (κ × Nat)) (mov : List κ) (seen : List κ) (a b : List (ROp κ)) :
    orderedFrom content PO mov seen (a ++ b) =
      (orderedFrom content PO mov seen a &&
        orderedFrom content PO mov ((a.map opKey).reverse ++ seen) b) := by
  induction a generalizing seen with
  | nil => simp [orderedFrom]
  | cons op a ih =>
    simp only [List.cons_append, orderedFrom, ih, List.map_cons, List.reverse_cons,
      List.append_assoc, List.singleton_append, Bool.and_assoc, List.nil_append]

theorem orderedFrom_of_forall (PO : List (κ × Nat)) (mov : List κ) (seen : List κ) (ops : List (ROp κ))
    (h : ∀ pre z sz src d post, ops = pre ++ ROp.copy z sz src d :: post →
      ∀ d' ∈ d, ∀ y ∈ mov, y = z ∨ y ∈ seen ∨ (∃ op ∈ pre, opKey op = y) ∨
        (∀ fy, firstOff PO y = some fy →
          overlap fy (content y).length d' (content z).length = false)) :
    orderedFrom content PO mov seen ops = true := by
  induction ops generalizing seen with
  | nil => simp [orderedFrom]
  | cons op ops ih =>
    simp only [orderedFrom, Bool.and_eq_true]
    constructor
    · cases op with
      | store k sz src => rfl
      | copy z sz src d =>
        simp only [List.all_eq_true]
        intro d' hd' y hy
        rcases h [] z sz src d ops rfl d' hd' y hy with h1 | h1 | ⟨op, hop, -⟩ | h1
        · simp [h1]
        · simp [h1]
        · simp at hop
        · simp only [Bool.or_eq_true, Bool.not_eq_true']
          right
          cases hfo : firstOff PO y with
          | none => rfl
          | some fy => exact h1 fy hfo
    · apply ih
      intro pre z sz src d post hdec d' hd' y hy
      rcases h (op :: pre) z sz src d post (by rw [hdec]; rfl) d' hd' y hy with
        h1 | h1 | ⟨op', hop', hk⟩ | h1
      · exact Or.inl h1
      · exact Or.inr (Or.inl (List.mem_cons_of_mem _ h1))
      · rcases List.mem_cons.mp hop' with rfl | hop'
        · exact Or.inr (Or.inl (by simp [hk]))
        · exact Or.inr (Or.inr (Or.inl ⟨op', hop', hk⟩))
      · exact Or.inr (Or.inr (Or.inr h1))

/-! ### `reorderOps` as a fold of trees -/

def treeStep (self newOrder : Index κ) (fuel : Nat) (acc : List (ROp κ) × List κ × Layout κ)
    (chunk : MoveChunk κ) : List (ROp κ) × List κ × Layout κ :=
  if acc.2.1.contains chunk.k then acc
  else
    let fin := dfsRun self newOrder acc.2.2 fuel ⟨[(chunk, none)], [], acc.1⟩
    (fin.ops, fin.visited ++ acc.2.1, removeVisited self fin.visited acc.2.2)

theorem reorderOps_eq (self newOrder : Index κ) :
    reorderOps self newOrder =
      ((chunksOf self newOrder).foldl
        (treeStep self newOrder (dfsFuel newOrder (layout0Of self newOrder)))
        ([], [], layout0Of self newOrder)).1 := by
  rfl

end setting


/-! ### The invariant across trees -/

section main
variable (content : κ → Bytes) (O N : List κ)

local notation "SELF" => indexOf content O
local notation "TGT" => Prod.fst (Index.strip (indexOf content O) (indexOf content N))
local notation "PO" => placements content O 0
local notation "PN" => placements content N 0
local notation "LAY0" => layout0Of (indexOf content O) (Prod.fst (Index.strip (indexOf content O) (indexOf content N)))

/-- The movable keys as `safePlan` lists them. -/
def movS : List κ := O.eraseDups.filter (fun k => !(dests PO PN k).isEmpty)

theorem mem_movS (k : κ) : k ∈ movS content O N ↔ Mov content O N k := by
  simp [movS, Mov, List.mem_eraseDups]

structure J (acc : List (ROp κ) × List κ × Layout κ) : Prop where
  sub : acc.2.2.Sublist LAY0
  mem : ∀ e, e ∈ acc.2.2 ↔ e ∈ LAY0 ∧ e.2 ∉ acc.2.1
  proc : ∀ k, k ∈ acc.2.1 ↔ k ∈ (acc.1.filter isCopy).map opKey
  nd : ((acc.1.filter isCopy).map opKey).Nodup
  valid : ∀ op ∈ acc.1, ∃ k, Mov content O N k ∧
    (op = mkStore SELF (entryOf content O k) ∨ op = mkCopy SELF TGT (entryOf content O k))
  ord : orderedFrom content PO (movS content O N) [] acc.1 = true

variable {content O N}

theorem destsOf_tgt (hO : ∀ k ∈ O, content k ≠ []) (hN : ∀ k ∈ N, content k ≠ []) (k : κ) :
    destsOf TGT k = dests PO PN k := by
  unfold destsOf
  rw [tgt_get hO hN k]
  by_cases h : dests PO PN k = [] <;> simp [h]

theorem mem_copyKeys_key {ops : List (ROp κ)} {k : κ} (h : k ∈ (ops.filter isCopy).map opKey) :
    ∃ op ∈ ops, opKey op = k := by
  obtain ⟨op, hop, hk⟩ := List.mem_map.mp h
  exact ⟨op, (List.mem_filter.mp hop).1, hk⟩

theorem fuel_ok (newOrder : Index κ) (lay lay0 : Layout κ) (h : lay.length ≤ lay0.length) :
    1 + 2 * (lay.length + (newOrder.map (·.2.offsets.length)).sum * lay.length) ≤
      dfsFuel newOrder lay0 := by
  unfold dfsFuel
  have := Nat.mul_le_mul_left (newOrder.map (·.2.offsets.length)).sum h
  omega

theorem J_step (hO : ∀ k ∈ O, content k ≠ []) (hN : ∀ k ∈ N, content k ≠ [])
    (acc : List (ROp κ) × List κ × Layout κ) (hJ : J content O N acc)
    (c : MoveChunk κ) (hc : c ∈ chunksOf SELF TGT) :
    J content O N (treeStep SELF TGT (dfsFuel TGT LAY0) acc c) ∧
    (∀ k ∈ acc.2.1, k ∈ (treeStep SELF TGT (dfsFuel TGT LAY0) acc c).2.1) ∧
    c.k ∈ (treeStep SELF TGT (dfsFuel TGT LAY0) acc c).2.1 := by
  obtain ⟨ops, processed, lay⟩ := acc
  unfold treeStep
  simp only
  split
  · rename_i hcp
    exact ⟨hJ, fun k hk => hk, by simpa using hcp⟩
  · rename_i hcp
    obtain ⟨k0, hk0, rfl⟩ := (mem_chunks hO hN c).mp hc
    have hcp' : k0 ∉ processed := by simpa [mkChild, entryOf] using hcp
    obtain ⟨hdisj0, hmem0⟩ := layout0_facts (content := content) (O := O) (N := N) hO hN
    have hsub : lay.Sublist LAY0 := hJ.sub
    have hmem : ∀ e, e ∈ lay ↔ e ∈ LAY0 ∧ e.2 ∉ processed := hJ.mem
    have hent0 : entryOf content O k0 ∈ lay :=
      (hmem _).mpr ⟨(hmem0 _).mpr ⟨k0, hk0, rfl⟩, hcp'⟩
    obtain ⟨new, vis, hops, hvis, hnd, hck, hrt, hvl, hval, hord⟩ :=
      dfs_tree SELF TGT lay (mkChild SELF (entryOf content O k0)) ops (dfsFuel TGT LAY0)
        ⟨_, hent0, rfl⟩ (fuel_ok _ _ _ hsub.length_le)
    simp only [hops, hvis]
    have hlayE : ∀ e ∈ lay, ∃ k, Mov content O N k ∧ e = entryOf content O k :=
      fun e he => (hmem0 e).mp ((hmem e).mp he).1
    have hvisL : ∀ k ∈ vis, Mov content O N k ∧ entryOf content O k ∈ lay := by
      intro k hk
      obtain ⟨x, hx, rfl⟩ := hvl k hk
      obtain ⟨k', hk', rfl⟩ := hlayE x hx
      exact ⟨hk', hx⟩
    have hvisO : ∀ k ∈ vis, k ∈ O := fun k hk => (hvisL k hk).1.1
    have hvisNP : ∀ k ∈ vis, k ∉ processed := fun k hk => ((hmem _).mp (hvisL k hk).2).2
    have hdisj : Disj lay := Disj.sublist hsub hdisj0
    refine ⟨⟨?_, ?_, ?_, ?_, ?_, ?_⟩, ?_, ?_⟩
    · exact (removeVisited_facts _ vis lay).1.trans hsub
    · intro e
      simp only
      rw [removeVisited_mem hO vis lay hlayE hvisO e, hmem e]
      simp only [List.mem_append, not_or]
      constructor
      · rintro ⟨⟨h1, h2⟩, h3⟩; exact ⟨h1, h3, h2⟩
      · rintro ⟨h1, h3, h2⟩; exact ⟨⟨h1, h2⟩, h3⟩
    · intro k
      simp only [List.filter_append, List.map_append, List.mem_append]
      rw [hck k, hJ.proc k]
      exact Or.comm
    · simp only [List.filter_append, List.map_append]
      rw [List.nodup_append]
      refine ⟨hJ.nd, hnd, ?_⟩
      intro a ha b hb hab
      subst hab
      exact hvisNP a ((hck a).mp hb) ((hJ.proc a).mpr ha)
    · intro op hop
      simp only [List.mem_append] at hop
      rcases hop with hop | hop
      · exact hJ.valid op hop
      · obtain ⟨x, hx, h⟩ := hval op hop
        obtain ⟨k, hk, rfl⟩ := hlayE x hx
        exact ⟨k, hk, h⟩
    · simp only
      rw [orderedFrom_append, hJ.ord, Bool.true_and]
      apply orderedFrom_of_forall
      intro pre z sz src d post hdec d' hd' y hy
      have hcopy : ROp.copy z sz src d ∈ new := by rw [hdec]; simp
      obtain ⟨x, hx, hxop⟩ := hval _ hcopy
      obtain ⟨kz, hkz, rfl⟩ := hlayE x hx
      rcases hxop with hxop | hxop
      · simp [mkStore] at hxop
      simp only [mkCopy, entryOf, ROp.copy.injEq] at hxop
      obtain ⟨rfl, -, -, rfl⟩ := hxop
      rw [destsOf_tgt hO hN] at hd'
      by_cases hyz : y = z
      · exact Or.inl hyz
      have hyM : Mov content O N y := (mem_movS content O N y).mp hy
      by_cases hyp : y ∈ processed
      · obtain ⟨op, hop, hk⟩ := mem_copyKeys_key ((hJ.proc y).mp hyp)
        refine Or.inr (Or.inl ?_)
        simp only [List.append_nil, List.mem_reverse, List.mem_map]
        exact ⟨op, hop, hk⟩
      have hyL : entryOf content O y ∈ lay := (hmem _).mpr ⟨(hmem0 _).mpr ⟨y, hyM, rfl⟩, hyp⟩
      by_cases hov : overlap (fo content O y) (content y).length d' (content z).length = true
      · refine Or.inr (Or.inr (Or.inl ?_))
        have hcl : entryOf content O y ∈ clobE TGT lay z := by
          unfold clobE
          rw [tgt_get hO hN z]
          have hdz : dests PO PN z ≠ [] := hkz.2
          simp only [hdz, if_false, List.mem_flatMap, List.mem_filter, decide_eq_true_eq]
          refine ⟨d', hd', ?_, hyz⟩
          rw [mem_overlapping hdisj]
          simp only [overlap, Bool.and_eq_true, decide_eq_true_eq] at hov
          exact ⟨hyL, hov.1, hov.2⟩
        exact hord pre z _ _ _ post hdec _ hcl
      · refine Or.inr (Or.inr (Or.inr ?_))
        intro fy hfy
        rw [firstOff_fo hO hyM.1] at hfy
        simp only [Option.some.injEq] at hfy
        subst hfy
        simpa using hov
    · intro k hk
      exact List.mem_append_right _ hk
    · exact List.mem_append_left _ hrt

theorem J_fold (hO : ∀ k ∈ O, content k ≠ []) (hN : ∀ k ∈ N, content k ≠ [])
    (cs : List (MoveChunk κ)) (hcs : ∀ c ∈ cs, c ∈ chunksOf SELF TGT)
    (acc : List (ROp κ) × List κ × Layout κ) (hJ : J content O N acc) :
    J content O N (cs.foldl (treeStep SELF TGT (dfsFuel TGT LAY0)) acc) ∧
    (∀ k ∈ acc.2.1, k ∈ (cs.foldl (treeStep SELF TGT (dfsFuel TGT LAY0)) acc).2.1) ∧
    ∀ c ∈ cs, c.k ∈ (cs.foldl (treeStep SELF TGT (dfsFuel TGT LAY0)) acc).2.1 := by
  induction cs generalizing acc with
  | nil => exact ⟨hJ, fun k hk => hk, by simp⟩
  | cons c cs ih =>
    simp only [List.foldl_cons]
    obtain ⟨s1, s2, s3⟩ := J_step hO hN acc hJ c (hcs c (by simp))
    obtain ⟨i1, i2, i3⟩ := ih (fun c' hc' => hcs c' (List.mem_cons_of_mem _ hc')) _ s1
    refine ⟨i1, fun k hk => i2 k (s2 k hk), ?_⟩
    intro c' hc'
    rcases List.mem_cons.mp hc' with rfl | hc'
    · exact i2 _ s3
    · exact i3 c' hc'

theorem J_init : J content O N ([], [], LAY0) := by
  constructor
  · exact List.Sublist.refl _
  · intro e; simp
  · intro k; simp
  · simp
  · intro op hop; simp at hop
  · simp [orderedFrom]

end main

end Bita.Proofs.Planner
