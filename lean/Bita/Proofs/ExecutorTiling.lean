/-
  Facts about tilings: `placements`, `fileOf` (regions are disjoint, cover the file, hold
  their chunk).
-/
import Bita.Proofs.ExecutorBytes

namespace Bita.Proofs.Exec
open Bita Bita.Spec

variable {κ : Type}

/-! ### Tilings -/

theorem fileOf_nil (c : κ → Bytes) : fileOf c [] = [] := rfl

theorem fileOf_cons (c : κ → Bytes) (k : κ) (ks : List κ) :
    fileOf c (k :: ks) = c k ++ fileOf c ks := by simp [fileOf]

theorem mem_placements (c : κ → Bytes) : ∀ (ts : List κ) (off : Nat) (e : κ × Nat),
    e ∈ placements c ts off →
      off ≤ e.2 ∧ e.2 + (c e.1).length ≤ off + (fileOf c ts).length ∧ e.1 ∈ ts := by
  intro ts
  induction ts with
  | nil => intro off e h; simp [placements] at h
  | cons k ks ih =>
    intro off e h
    simp only [placements, List.mem_cons] at h
    rw [fileOf_cons, List.length_append]
    rcases h with h | h
    · subst h; simp
    · obtain ⟨h1, h2, h3⟩ := ih _ _ h
      exact ⟨by omega, by omega, List.mem_cons_of_mem _ h3⟩

theorem exists_placement (c : κ → Bytes) : ∀ (ts : List κ) (off : Nat) (k : κ),
    k ∈ ts → ∃ o, (k, o) ∈ placements c ts off := by
  intro ts
  induction ts with
  | nil => intro off k h; simp at h
  | cons t ks ih =>
    intro off k h
    simp only [List.mem_cons] at h
    rcases h with h | h
    · subst h; exact ⟨off, by simp [placements]⟩
    · obtain ⟨o, ho⟩ := ih (off + (c t).length) k h
      exact ⟨o, by simp [placements, ho]⟩

/-- The regions of two distinct placements of one tiling are disjoint. -/
theorem placements_disjoint (c : κ → Bytes) : ∀ (ts : List κ) (off : Nat),
    ∀ e1 ∈ placements c ts off, ∀ e2 ∈ placements c ts off,
      e1 = e2 ∨ e1.2 + (c e1.1).length ≤ e2.2 ∨ e2.2 + (c e2.1).length ≤ e1.2 := by
  intro ts
  induction ts with
  | nil => intro off e1 h; simp [placements] at h
  | cons k ks ih =>
    intro off e1 h1 e2 h2
    simp only [placements, List.mem_cons] at h1 h2
    rcases h1 with h1 | h1 <;> rcases h2 with h2 | h2
    · left; rw [h1, h2]
    · have := mem_placements c _ _ _ h2
      subst h1; right; left; simp; omega
    · have := mem_placements c _ _ _ h1
      subst h2; right; right; simp; omega
    · exact ih _ _ h1 _ h2

/-- With non-empty chunks an offset determines its placement. -/
theorem placements_functional (c : κ → Bytes) (ts : List κ) (off : Nat)
    (hne : ∀ k ∈ ts, c k ≠ []) (k1 k2 : κ) (o : Nat)
    (h1 : (k1, o) ∈ placements c ts off) (h2 : (k2, o) ∈ placements c ts off) : k1 = k2 := by
  have hl1 : (c k1).length ≠ 0 := fun h =>
    hne k1 (mem_placements c _ _ _ h1).2.2 (List.eq_nil_of_length_eq_zero h)
  have hl2 : (c k2).length ≠ 0 := fun h =>
    hne k2 (mem_placements c _ _ _ h2).2.2 (List.eq_nil_of_length_eq_zero h)
  rcases placements_disjoint c ts off _ h1 _ h2 with h | h | h
  · exact congrArg Prod.fst h
  · simp at h; omega
  · simp at h; omega

theorem placements_sorted (c : κ → Bytes) : ∀ (ts : List κ) (off : Nat),
    (∀ k ∈ ts, c k ≠ []) → (placements c ts off).Pairwise (fun a b => a.2 < b.2) := by
  intro ts
  induction ts with
  | nil => intro off _; simp [placements]
  | cons k ks ih =>
    intro off hne
    simp only [placements, List.pairwise_cons]
    refine ⟨?_, ih _ (fun k' hk' => hne k' (List.mem_cons_of_mem _ hk'))⟩
    intro e he
    have := mem_placements c _ _ _ he
    have : (c k).length ≠ 0 := fun h => hne k (List.mem_cons_self) (List.eq_nil_of_length_eq_zero h)
    simp; omega

/-- Every placement of a tiling holds its chunk in the tiling's bytes. -/
theorem slice_fileOf (c : κ → Bytes) : ∀ (ts : List κ) (off : Nat) (e : κ × Nat),
    e ∈ placements c ts off → slice (fileOf c ts) (e.2 - off) (c e.1).length = c e.1 := by
  intro ts
  induction ts with
  | nil => intro off e h; simp [placements] at h
  | cons k ks ih =>
    intro off e h
    simp only [placements, List.mem_cons] at h
    rw [fileOf_cons]
    rcases h with h | h
    · subst h; simp [slice]
    · have hb := mem_placements c _ _ _ h
      have := ih _ _ h
      have he : e.2 - off = (c k).length + (e.2 - (off + (c k).length)) := by omega
      rw [he]
      simpa [slice] using this

theorem slice_fileOf_zero (c : κ → Bytes) (ts : List κ) (e : κ × Nat)
    (h : e ∈ placements c ts 0) : slice (fileOf c ts) e.2 (c e.1).length = c e.1 := by
  simpa using slice_fileOf c ts 0 e h

/-- A file that holds every chunk of a tiling at its placement starts with the tiling's bytes. -/
theorem slice_of_placements (c : κ → Bytes) (f : Bytes) : ∀ (ts : List κ) (off : Nat),
    (∀ e ∈ placements c ts off, slice f e.2 (c e.1).length = c e.1) →
      slice f off (fileOf c ts).length = fileOf c ts := by
  intro ts
  induction ts with
  | nil => intro off _; simp [fileOf, slice]
  | cons k ks ih =>
    intro off h
    rw [fileOf_cons, List.length_append, slice_add]
    have h1 := h (k, off) (by simp [placements])
    have h2 := ih (off + (c k).length) (fun e he => h e (by simp [placements, he]))
    simp only at h1
    rw [h1, h2]

theorem resize_of_placements (c : κ → Bytes) (f : Bytes) (ts : List κ)
    (h : ∀ e ∈ placements c ts 0, slice f e.2 (c e.1).length = c e.1) :
    resize f (fileOf c ts).length = fileOf c ts := by
  have h1 := slice_of_placements c f ts 0 h
  have h2 : f.take (fileOf c ts).length = fileOf c ts := by simpa [slice] using h1
  have h3 : (fileOf c ts).length ≤ f.length := by
    have := congrArg List.length h2
    simp at this; omega
  simp [resize, h2, h3]

end Bita.Proofs.Exec
