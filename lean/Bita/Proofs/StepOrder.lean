/-
  The order of the steps of `clone_archive` (src/clone_cmd.rs) and `compress_cmd` as read from the
  source on every run (`Gen.cloneStepOrder`, `Gen.compressStepOrder`).  `Clone.run`, `Cli.clone`
  and `Cli.compress` are written for exactly this order; the theorems about them are theorems
  about the code only while these facts hold, so every property that rests on `Clone.run`
  re-checks them.
-/
import Bita.Gen.Facts

namespace Bita.Proofs
open Bita.Gen

/-- open → banner → pin → open the output → device size → scan the output → reorder in place →
stdin seed → seed files → fetch from the archive → flush → resize → verify. -/
theorem clone_step_order_fact :
    cloneStepOrder = ["try_init", "banner", "pin", "open_output", "device_check", "scan_output", "reorder",
                      "seed_stdin", "seed_files", "fetch", "flush", "resize", "verify_output"] := by
  decide

theorem compress_step_order_fact :
    compressStepOrder = ["open_output", "chunk_input", "build_header", "write_header", "copy_temp",
                         "remove_temp", "print_info"] := by
  decide

end Bita.Proofs
