import Bita.Proofs.HttpLemmas

namespace Bita.Proofs
open Bita Bita.Spec

theorem drain_nil_buf (rest : List ChunkOffset) (hrest : ∀ c ∈ rest, 1 ≤ c.size) (adj : Nat)
    (req : Option (Nat × Nat × Nat)) :
    CR.drain rest [] adj req = ([], ⟨rest, [], adj, req⟩, false) := by
  cases rest with
  | nil => simp [CR.drain]
  | cons c cs =>
    have := hrest c (by simp)
    rw [CR.drain]
    simp only [List.length_nil]
    rw [if_neg (by omega)]

/-- One step of `drain` when the buffer holds the next chunk of the run. -/
theorem drain_step (data : Bytes) (c : ChunkOffset) (cs : List ChunkOffset) (m adj : Nat)
    (req : Option (Nat × Nat × Nat)) (hm : c.offset + m ≤ data.length) (hc : c.size ≤ m) :
    CR.drain (c :: cs) (slice data c.offset m) (adj + 1) req =
      (exactItem data c :: (CR.drain cs (slice data c.stop (m - c.size)) adj
          (if adj = 0 then none else req)).1,
        (CR.drain cs (slice data c.stop (m - c.size)) adj (if adj = 0 then none else req)).2) := by
  rw [CR.drain]
  rw [slice_length hm, if_pos hc, if_neg (by omega)]
  simp only [Nat.add_sub_cancel, slice_drop, slice_take, exactItem, ChunkOffset.stop,
    Nat.min_eq_left hc]

theorem drain_stuck (data : Bytes) (c : ChunkOffset) (cs : List ChunkOffset) (m adj : Nat)
    (req : Option (Nat × Nat × Nat)) (hm : c.offset + m ≤ data.length) (hc : m < c.size) :
    CR.drain (c :: cs) (slice data c.offset m) adj req =
      ([], ⟨c :: cs, slice data c.offset m, adj, req⟩, false) := by
  rw [CR.drain]
  rw [slice_length hm, if_neg (by omega)]

theorem drain_inv (data : Bytes) (rest : List ChunkOffset) (hrest : ∀ c ∈ rest, 1 ≤ c.size)
    (q : Nat × Nat × Nat) :
    ∀ (r : List ChunkOffset) (c : ChunkOffset) (m : Nat),
      Contiguous (c :: r) → (∀ x ∈ c :: r, 1 ≤ x.size) → c.offset + m ≤ data.length →
      (m = total (c :: r) →
        CR.drain ((c :: r) ++ rest) (slice data c.offset m) (c :: r).length (some q) =
          ((c :: r).map (exactItem data), ⟨rest, [], 0, none⟩, false)) ∧
      (m < total (c :: r) →
        ∃ done c' r', c :: r = done ++ c' :: r' ∧ (∀ x ∈ done, x.stop ≤ c.offset + m) ∧
          c'.offset ≤ c.offset + m ∧ c.offset + m < c'.stop ∧
          CR.drain ((c :: r) ++ rest) (slice data c.offset m) (c :: r).length (some q) =
            (done.map (exactItem data),
             ⟨(c' :: r') ++ rest, slice data c'.offset (c.offset + m - c'.offset),
               (c' :: r').length, some q⟩, false)) := by
  intro r
  induction r with
  | nil =>
    intro c m _ hs hm
    have hc1 := hs c (by simp)
    constructor
    · intro heq
      simp only [total, Nat.add_zero] at heq
      subst heq
      simp only [List.cons_append, List.nil_append, List.length_cons, List.length_nil,
        Nat.zero_add]
      have := drain_step data c rest c.size 0 (some q) hm (Nat.le_refl _)
      simp only [Nat.zero_add] at this
      rw [this]
      simp [slice_zero, drain_nil_buf rest hrest]
    · intro hlt
      simp only [total, Nat.add_zero] at hlt
      refine ⟨[], c, [], by simp, by simp, by omega, by simp only [ChunkOffset.stop]; omega, ?_⟩
      simp only [List.cons_append, List.nil_append, List.map_nil]
      rw [drain_stuck data c rest m _ _ hm hlt]
      simp
  | cons d r ih =>
    intro c m hc hs hm
    have hc1 : c.stop = d.offset := hc.1
    have hc2 : Contiguous (d :: r) := hc.2
    have hs2 : ∀ x ∈ d :: r, 1 ≤ x.size := fun x hx => hs x (List.mem_cons_of_mem _ hx)
    by_cases hcm : c.size ≤ m
    · have hm' : d.offset + (m - c.size) ≤ data.length := by
        simp only [ChunkOffset.stop] at hc1; omega
      have htot : total (c :: d :: r) = c.size + total (d :: r) := rfl
      have hoff : d.offset + (m - c.size) = c.offset + m := by
        simp only [ChunkOffset.stop] at hc1; omega
      have hA : m = total (c :: d :: r) → m - c.size = total (d :: r) := by omega
      have hB : m < total (c :: d :: r) → m - c.size < total (d :: r) := by omega
      have hC : c.stop ≤ c.offset + m := by simp only [ChunkOffset.stop]; omega
      have IH := ih d (m - c.size) hc2 hs2 hm'
      have hstep := drain_step data c ((d :: r) ++ rest) m (d :: r).length (some q) hm hcm
      rw [if_neg (by simp)] at hstep
      rw [hc1] at hstep
      constructor
      · intro heq
        have := IH.1 (hA heq)
        rw [List.cons_append, List.length_cons, hstep, this]
        simp
      · intro hlt
        obtain ⟨done, c', r', hsplit, hdone, h1, h2, hdr⟩ :=
          IH.2 (hB hlt)
        rw [hoff] at hdone h1 h2 hdr
        refine ⟨c :: done, c', r', by simp [hsplit], ?_, h1, h2, ?_⟩
        · intro x hx
          rcases List.mem_cons.1 hx with hx | hx
          · subst hx; exact hC
          · exact hdone x hx
        · rw [List.cons_append, List.length_cons, hstep, hdr]
          simp
    · have hcm' : m < c.size := by omega
      constructor
      · intro heq; simp only [total] at heq; omega
      · intro _
        refine ⟨[], c, d :: r, by simp, by simp, by omega, by simp only [ChunkOffset.stop]; omega, ?_⟩
        rw [List.cons_append, drain_stuck data c _ m _ _ hm hcm']
        simp

end Bita.Proofs
