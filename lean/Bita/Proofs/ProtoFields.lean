/-
  Field-level parsing lemmas: `parseField` / `parseMessage` on encoded fields
  (helper for ProtoRoundtrip).
-/
import Bita.Proofs.ProtoVarint

namespace Bita.Proofs
open Bita Bita.Proto

abbrev Field := Nat × Option WireVal

/-! ## parseField on one encoded field -/

theorem decodeVarint_key (t wt : Nat) (ht : t < 2 ^ 29) (hwt : wt < 8) (rest : Bytes) :
    decodeVarint (encodeKey t wt ++ rest) = some (t * 8 + wt, rest) := by
  unfold encodeKey
  apply decodeVarint_encode
  have : (2:Nat) ^ 29 = 536870912 := by decide
  have : (2:Nat) ^ 64 = 18446744073709551616 := by decide
  omega

theorem parseField_varint (fl : List Nat) (t n : Nat) (rest : Bytes)
    (ht0 : t ≠ 0) (ht : t < 2 ^ 29) (hfl : fl.contains t = false) (hn : n < 2 ^ 64) :
    parseField fl (encodeKey t 0 ++ encodeVarint n ++ rest) = some (t, some (.varint n), rest) := by
  have hp : (2:Nat) ^ 29 = 536870912 := by decide
  have hp' : (2:Nat) ^ 32 = 4294967296 := by decide
  rw [List.append_assoc]
  unfold parseField
  rw [decodeVarint_key t 0 ht (by decide)]
  have h1 : ¬ (t * 8 + 0 ≥ 2 ^ 32) := by omega
  have h2 : (t * 8 + 0) / 8 = t := by omega
  have h3 : (t * 8 + 0) % 8 = 0 := by omega
  simp only [h1, h2, h3, if_false, ht0, hfl, decodeVarint_encode n hn rest]
  simp

theorem parseField_len (fl : List Nat) (t : Nat) (body rest : Bytes)
    (ht0 : t ≠ 0) (ht : t < 2 ^ 29) (hn : body.length < 2 ^ 64) :
    parseField fl (encodeKey t 2 ++ encodeVarint body.length ++ body ++ rest)
      = some (t, some (.len body), rest) := by
  have hp : (2:Nat) ^ 29 = 536870912 := by decide
  have hp' : (2:Nat) ^ 32 = 4294967296 := by decide
  rw [List.append_assoc, List.append_assoc]
  unfold parseField
  rw [decodeVarint_key t 2 ht (by decide)]
  have h1 : ¬ (t * 8 + 2 ≥ 2 ^ 32) := by omega
  have h2 : (t * 8 + 2) / 8 = t := by omega
  have h3 : (t * 8 + 2) % 8 = 2 := by omega
  simp only [h1, h2, h3, if_false, ht0, decodeVarint_encode body.length hn (body ++ rest)]
  simp

/-! ## parseMessage -/

theorem parseMessage_nil (fl : List Nat) (fuel : Nat) : parseMessage fl (fuel + 1) [] = some [] := by
  simp [parseMessage]

theorem parseMessage_mono (fl : List Nat) : ∀ (f : Nat) (b : Bytes) (fs : List Field),
    parseMessage fl f b = some fs → ∀ f', f ≤ f' → parseMessage fl f' b = some fs := by
  intro f
  induction f with
  | zero => intro b fs h; simp [parseMessage] at h
  | succ f ih =>
    intro b fs h f' hf'
    obtain ⟨g, rfl⟩ : ∃ g, f' = g + 1 := ⟨f' - 1, by omega⟩
    cases b with
    | nil => simp [parseMessage] at h ⊢; exact h
    | cons c b =>
      simp only [parseMessage] at h ⊢
      cases hpf : parseField fl (c :: b) with
      | none => simp [hpf] at h
      | some r =>
        obtain ⟨tag, v, rest⟩ := r
        simp only [hpf] at h ⊢
        cases hm : parseMessage fl f rest with
        | none => simp [hm] at h
        | some fs' =>
          rw [ih rest fs' hm g (by omega)]
          simpa [hm] using h

/-- `b` is a sequence of well-formed fields parsing to `fs` (each field at least one byte),
whatever follows. -/
def ParsesTo (fl : List Nat) (b : Bytes) (fs : List Field) : Prop :=
  fs.length ≤ b.length ∧
  ∀ fuel rest fs', parseMessage fl fuel rest = some fs' →
    parseMessage fl (fuel + fs.length) (b ++ rest) = some (fs ++ fs')

theorem ParsesTo.nil (fl : List Nat) : ParsesTo fl [] [] :=
  ⟨Nat.le_refl _, fun _ _ _ h => by simpa using h⟩

theorem ParsesTo.append {fl : List Nat} {b1 b2 : Bytes} {fs1 fs2 : List Field}
    (h1 : ParsesTo fl b1 fs1) (h2 : ParsesTo fl b2 fs2) : ParsesTo fl (b1 ++ b2) (fs1 ++ fs2) := by
  refine ⟨by simp only [List.length_append]; have := h1.1; have := h2.1; omega, ?_⟩
  intro fuel rest fs' h
  have e2 := h2.2 fuel rest fs' h
  have e1 := h1.2 _ _ _ e2
  rw [List.append_assoc, List.append_assoc, List.length_append,
    show fuel + (fs1.length + fs2.length) = fuel + fs2.length + fs1.length by omega]
  exact e1

theorem ParsesTo.single {fl : List Nat} {x : Bytes} {tag : Nat} {v : Option WireVal}
    (hx : x ≠ []) (h : ∀ rest, parseField fl (x ++ rest) = some (tag, v, rest)) :
    ParsesTo fl x [(tag, v)] := by
  refine ⟨by have := List.length_pos_iff.mpr hx; simp only [List.length_singleton]; omega, ?_⟩
  intro fuel rest fs' hr
  obtain ⟨c, x', rfl⟩ := List.exists_cons_of_ne_nil hx
  simp only [List.length_singleton, List.cons_append, parseMessage]
  have := h rest
  simp only [List.cons_append] at this
  simp [this, hr]

theorem ParsesTo.flatten_map {fl : List Nat} {α : Type} (g : α → Bytes) (h : α → Field) :
    ∀ (l : List α), (∀ a ∈ l, ParsesTo fl (g a) [h a]) → ParsesTo fl (l.map g).flatten (l.map h)
  | [], _ => by simpa using ParsesTo.nil fl
  | a :: l, hl => by
    have h1 := hl a (by simp)
    have h2 := ParsesTo.flatten_map g h l (fun a ha => hl a (by simp [ha]))
    simpa using h1.append h2

theorem ParsesTo.parse_eq {fl : List Nat} {b : Bytes} {fs : List Field} (h : ParsesTo fl b fs) :
    parseMessage fl (b.length + 1) b = some fs := by
  have := h.2 1 [] [] (by simp [parseMessage])
  simp only [List.append_nil] at this
  exact parseMessage_mono fl _ _ _ this _ (by have := h.1; omega)

/-! ## the field encoders -/

def fUint (t v : Nat) : List Field := if v = 0 then [] else [(t, some (.varint v))]
def fBytes (t : Nat) (b : Bytes) : List Field := if b.isEmpty then [] else [(t, some (.len b))]

/-- the 64-bit pattern of an int32 given as its 32-bit pattern -/
def sext32 (v : Nat) : Nat := if v < 2 ^ 31 then v else v + (2 ^ 64 - 2 ^ 32)

theorem encodeKey_ne_nil (t wt : Nat) : encodeKey t wt ≠ [] := encodeVarint_ne_nil _

theorem parsesTo_encUint (fl : List Nat) (t v : Nat)
    (ht0 : t ≠ 0) (ht : t < 2 ^ 29) (hfl : fl.contains t = false) (hv : v < 2 ^ 64) :
    ParsesTo fl (encUint t v) (fUint t v) := by
  unfold encUint fUint
  split
  · exact ParsesTo.nil fl
  · refine ParsesTo.single (by simp [encodeKey_ne_nil]) (fun rest => ?_)
    exact parseField_varint fl t v rest ht0 ht hfl hv

theorem sext32_lt (v : Nat) (hv : v < 2 ^ 32) : sext32 v < 2 ^ 64 := by
  unfold sext32
  have : (2:Nat) ^ 31 = 2147483648 := by decide
  have : (2:Nat) ^ 32 = 4294967296 := by decide
  have : (2:Nat) ^ 64 = 18446744073709551616 := by decide
  split <;> omega

theorem u32_sext32 (v : Nat) (hv : v < 2 ^ 32) : u32 (sext32 v) = v := by
  unfold sext32 u32
  have : (2:Nat) ^ 31 = 2147483648 := by decide
  have : (2:Nat) ^ 32 = 4294967296 := by decide
  have : (2:Nat) ^ 64 = 18446744073709551616 := by decide
  split <;> omega

theorem u32_of_lt (v : Nat) (hv : v < 2 ^ 32) : u32 v = v := Nat.mod_eq_of_lt hv

theorem parsesTo_encInt32 (fl : List Nat) (t v : Nat)
    (ht0 : t ≠ 0) (ht : t < 2 ^ 29) (hfl : fl.contains t = false) (hv : v < 2 ^ 32) :
    ParsesTo fl (encInt32 t v) (fUint t (sext32 v)) := by
  unfold encInt32 fUint
  by_cases h0 : v = 0
  · subst h0; simpa [sext32] using ParsesTo.nil fl
  · have hs : sext32 v ≠ 0 := by unfold sext32; split <;> omega
    rw [if_neg h0, if_neg hs]
    refine ParsesTo.single (by simp [encodeKey_ne_nil]) (fun rest => ?_)
    exact parseField_varint fl t (sext32 v) rest ht0 ht hfl (sext32_lt v hv)

theorem parsesTo_encMsg (fl : List Nat) (t : Nat) (body : Bytes)
    (ht0 : t ≠ 0) (ht : t < 2 ^ 29) (hn : body.length < 2 ^ 64) :
    ParsesTo fl (encMsg t body) [(t, some (.len body))] := by
  unfold encMsg
  refine ParsesTo.single (by simp [encodeKey_ne_nil]) (fun rest => ?_)
  exact parseField_len fl t body rest ht0 ht hn

theorem parsesTo_encBytes (fl : List Nat) (t : Nat) (body : Bytes)
    (ht0 : t ≠ 0) (ht : t < 2 ^ 29) (hn : body.length < 2 ^ 64) :
    ParsesTo fl (encBytes t body) (fBytes t body) := by
  unfold encBytes fBytes
  split
  · exact ParsesTo.nil fl
  · exact parsesTo_encMsg fl t body ht0 ht hn

end Bita.Proofs
