/-
  C15, decompression: the sink of `decompress` never holds more than the size declared for the chunk,
  whatever the decompressor writes (bomb-proof by construction, not by trusting the codec), and the
  earlier whole-output model `limitedDecomp` is what the sink computes.
-/
import Bita.Model.Sink
import Bita.Model.Clone

namespace Bita.Proofs
open Bita

private theorem sink_write_eq (s : Sink) (p : Bytes) (h : s.buf.length ≤ s.limit) :
    s.write p = if s.limit < s.buf.length + p.length then none else some ⟨s.buf ++ p, s.limit⟩ := by
  unfold Sink.write
  by_cases hc : s.limit < s.buf.length + p.length
  · rw [if_pos hc, if_pos (by omega)]
  · rw [if_neg hc, if_neg (by omega)]

private theorem sink_statesFrom_le (ps : List Bytes) : ∀ (s : Sink), s.buf.length ≤ s.limit →
    ∀ n ∈ Sink.statesFrom s ps, n ≤ s.limit := by
  induction ps with
  | nil => intro s _ n hn; simp [Sink.statesFrom] at hn
  | cons p ps ih =>
    intro s hs n hn
    unfold Sink.statesFrom at hn
    rw [sink_write_eq s p hs] at hn
    by_cases hc : s.limit < s.buf.length + p.length
    · rw [if_pos hc] at hn; simp at hn
    · rw [if_neg hc] at hn
      dsimp only at hn
      have hs' : (Sink.mk (s.buf ++ p) s.limit).buf.length ≤ (Sink.mk (s.buf ++ p) s.limit).limit := by
        dsimp only; rw [List.length_append]; omega
      rcases List.mem_cons.1 hn with h | h
      · rw [h, List.length_append]; omega
      · exact ih _ hs' n h

private theorem sink_runFrom_ok_iff (ps : List Bytes) : ∀ (s : Sink) (i : Nat) (out : Bytes),
    s.buf.length ≤ s.limit →
    (Sink.runFrom s ps i = .ok out ↔
      (s.buf.length + ps.flatten.length ≤ s.limit ∧ out = s.buf ++ ps.flatten)) := by
  induction ps with
  | nil =>
    intro s i out hs
    simp only [Sink.runFrom, List.flatten_nil, List.length_nil, List.append_nil, Nat.add_zero]
    constructor
    · intro h; cases h; exact ⟨hs, rfl⟩
    · intro h; rw [h.2]
  | cons p ps ih =>
    intro s i out hs
    unfold Sink.runFrom
    rw [sink_write_eq s p hs]
    rw [List.flatten_cons, List.length_append]
    by_cases hc : s.limit < s.buf.length + p.length
    · rw [if_pos hc]
      dsimp only
      constructor
      · intro h; cases h
      · intro h; omega
    · rw [if_neg hc]
      dsimp only
      have hs' : (Sink.mk (s.buf ++ p) s.limit).buf.length ≤ (Sink.mk (s.buf ++ p) s.limit).limit := by
        dsimp only; rw [List.length_append]; omega
      rw [ih _ (i + 1) out hs']
      dsimp only
      rw [List.length_append, List.append_assoc]
      constructor
      · intro h; exact ⟨by omega, h.2⟩
      · intro h; exact ⟨by omega, h.2⟩

private theorem sink_runFrom_error (ps : List Bytes) : ∀ (s : Sink) (i j : Nat),
    s.buf.length ≤ s.limit → Sink.runFrom s ps i = .error j →
    ∃ k, j = i + k ∧ k < ps.length ∧ s.buf.length + (ps.take k).flatten.length ≤ s.limit ∧
      s.limit < s.buf.length + (ps.take (k + 1)).flatten.length := by
  induction ps with
  | nil => intro s i j _ h; simp [Sink.runFrom] at h
  | cons p ps ih =>
    intro s i j hs h
    unfold Sink.runFrom at h
    rw [sink_write_eq s p hs] at h
    by_cases hc : s.limit < s.buf.length + p.length
    · rw [if_pos hc] at h
      dsimp only at h
      cases h
      refine ⟨0, rfl, by simp, by simpa using hs, ?_⟩
      simpa using hc
    · rw [if_neg hc] at h
      dsimp only at h
      have hs' : (Sink.mk (s.buf ++ p) s.limit).buf.length ≤ (Sink.mk (s.buf ++ p) s.limit).limit := by
        dsimp only; rw [List.length_append]; omega
      obtain ⟨k, hj, hk, h1, h2⟩ := ih _ (i + 1) j hs' h
      dsimp only at h1 h2
      rw [List.length_append] at h1 h2
      refine ⟨k + 1, by omega, by simp only [List.length_cons]; omega, ?_, ?_⟩
      · rw [List.take_succ_cons, List.flatten_cons, List.length_append]; omega
      · rw [List.take_succ_cons, List.flatten_cons, List.length_append]; omega

/-- **Never more than the limit**, at any time, for any sequence of writes. -/
theorem sink_states_le (limit : Nat) (pieces : List Bytes) : ∀ n ∈ Sink.states limit pieces, n ≤ limit :=
  sink_statesFrom_le pieces ⟨[], limit⟩ (Nat.zero_le _)

/-- **Exactly the writes, or an error**: the run succeeds iff everything written fits the limit, and
then the buffer is the concatenation of the writes. -/
theorem sink_run_ok_iff (limit : Nat) (pieces : List Bytes) (out : Bytes) :
    Sink.run limit pieces = .ok out ↔ (pieces.flatten.length ≤ limit ∧ out = pieces.flatten) := by
  have h := sink_runFrom_ok_iff pieces ⟨[], limit⟩ 0 out (Nat.zero_le _)
  simpa [Sink.run] using h

/-- ... and it fails at the first write with which the total would exceed the limit: everything before
it had been accepted (and fits). -/
theorem sink_run_error (limit : Nat) (pieces : List Bytes) (i : Nat) (h : Sink.run limit pieces = .error i) :
    i < pieces.length ∧ ((pieces.take i).flatten.length ≤ limit) ∧ limit < (pieces.take (i + 1)).flatten.length := by
  obtain ⟨k, hj, hk, h1, h2⟩ := sink_runFrom_error pieces ⟨[], limit⟩ 0 i (Nat.zero_le _) h
  have hik : i = k := by omega
  subst hik
  simp only [List.length_nil, Nat.zero_add] at h1 h2
  exact ⟨hk, h1, h2⟩

/-- The whole-output model used by the clone theorems (`limitedDecomp`) is the sink run on any way of
writing the codec's output in pieces. -/
theorem limitedDecomp_eq_sink (raw : Nat → Bytes → Option Bytes) (algo : Nat) (stored : Bytes) (declared : Nat)
    (out : Bytes) (hraw : raw algo stored = some out) (pieces : List Bytes) (hp : pieces.flatten = out) :
    limitedDecomp raw algo stored declared = (match Sink.run declared pieces with
      | .ok b => some b
      | .error _ => none) := by
  have hfact : Gen.decompressOutputLimited = true := by decide
  unfold limitedDecomp
  rw [hraw]
  simp only [Option.bind_some]
  by_cases hlt : declared < out.length
  · rw [if_pos ⟨hfact, hlt⟩]
    cases hr : Sink.run declared pieces with
    | error j => rfl
    | ok b =>
      have := (sink_run_ok_iff declared pieces b).1 hr
      rw [hp] at this
      omega
  · rw [if_neg (fun hh => hlt hh.2)]
    have hr : Sink.run declared pieces = .ok out :=
      (sink_run_ok_iff declared pieces out).2 ⟨by rw [hp]; omega, hp.symm⟩
    rw [hr]

end Bita.Proofs
