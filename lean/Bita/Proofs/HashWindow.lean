/-
  The rolling hashes are functions of the trailing window (C09 T4, used by C10).

  Both headline theorems follow from state invariants that can be re-established from any
  reachable state (the chunker skips bytes, so the hasher does not see a contiguous stream):

  * `RollOK h w`: the `RollSum` state `h` is the one determined by the window `w`
    (`RollOK_new`, `RollOK_input`, `RollOK_sum`, `rollsum_feed`);
  * `BuzWarm h n fed` / `BuzOK h n fed`: the `BuzHash` state after the bytes `fed` were fed
    (`init` for the first `n`, `input` afterwards), including the soundness of the
    repeated-input shortcut (`RepOK`)
    (`BuzWarm_new`, `BuzWarm_init_lt`, `BuzWarm_init_eq`, `BuzOK_input`, `BuzOK_feed`,
    `BuzInv_step`, `BuzInv_fold`).
-/
import Bita.Model.Hash
import Bita.Spec.Chunking

namespace Bita.Proofs
open Bita Bita.Spec

/-! ## Windows as lists -/

theorem winAt_end (n : Nat) (hist : Bytes) :
    winAt n hist hist.length = (List.replicate n 0 ++ hist).drop hist.length := by
  rw [winAt, List.take_of_length_le]
  simp

theorem winAt_end_of_le (n : Nat) (hist : Bytes) (hlen : n ≤ hist.length) :
    winAt n hist hist.length = hist.drop (hist.length - n) := by
  rw [winAt_end, List.drop_append]
  simp [List.drop_eq_nil_of_le, hlen]

/-- `winAt` at any position inside the stream: the last `n` bytes of the zero-padded prefix. -/
theorem winAt_eq_take (n : Nat) (data : Bytes) (p : Nat) (hp : p ≤ data.length) :
    winAt n data p = (List.replicate n 0 ++ data.take p).drop p := by
  have := winAt_end n (data.take p)
  rw [List.length_take, Nat.min_eq_left hp] at this
  rw [← this, winAt, winAt, List.drop_append, List.drop_append, List.take_append,
    List.take_append]
  congr 1
  simp only [List.length_replicate, List.length_drop, List.drop_take]
  rw [List.take_take]
  congr 1
  omega

theorem winAt_of_le (n : Nat) (data : Bytes) (p : Nat) (hn : n ≤ p) (hp : p ≤ data.length) :
    winAt n data p = (data.take p).drop (p - n) := by
  rw [winAt_eq_take n data p hp, List.drop_append, List.drop_eq_nil_of_le (by simpa using hn)]
  simp

/-- The last `w.length` elements of `w ++ bs` come from `bs` alone once `bs` is long enough. -/
theorem drop_append_window {α} (w bs : List α) (h : w.length ≤ bs.length) :
    (w ++ bs).drop bs.length = bs.drop (bs.length - w.length) := by
  rw [List.drop_append, List.drop_eq_nil_of_le h, List.nil_append]

/-- The last `n` elements of `fed ++ bs` come from `bs` alone once `bs` is long enough. -/
theorem drop_append_lastN {α} (fed bs : List α) {n : Nat} (h : n ≤ bs.length) :
    (fed ++ bs).drop ((fed ++ bs).length - n) = bs.drop (bs.length - n) := by
  rw [List.drop_append, List.length_append, List.drop_eq_nil_of_le (by omega), List.nil_append]
  congr 1
  omega

/-! ## RollSum -/

theorem sumBytes_append_single (w : Bytes) (b : UInt8) :
    sumBytes (w ++ [b]) = sumBytes w + byteVal b := by
  induction w with
  | nil => simp [sumBytes]
  | cons a t ih =>
    simp only [List.cons_append, sumBytes, ih]
    grind

theorem weightedSum_append_single (w : Bytes) (b : UInt8) :
    weightedSum (w ++ [b]) = weightedSum w + sumBytes w + byteVal b := by
  induction w with
  | nil => simp [weightedSum, sumBytes]
  | cons a t ih =>
    simp only [List.cons_append, weightedSum, sumBytes, ih, List.length_append,
      List.length_singleton]
    have h1 : BitVec.ofNat 32 (t.length + 1 + 1) = BitVec.ofNat 32 (t.length + 1) + 1#32 := by
      simp [BitVec.ofNat_add]
    rw [h1]
    grind

theorem sumBytes_replicate_zero (n : Nat) : sumBytes (List.replicate n 0) = 0 := by
  induction n with
  | zero => rfl
  | succ k ih => simp [List.replicate_succ, sumBytes, ih, byteVal]

theorem weightedSum_replicate_zero (n : Nat) : weightedSum (List.replicate n 0) = 0 := by
  induction n with
  | zero => rfl
  | succ k ih => simp [List.replicate_succ, weightedSum, ih, byteVal]

/-- `s1` of a window in closed form: `31 n + Σ wᵢ`. -/
def rollS1 (w : Bytes) : U32 := 31#32 * BitVec.ofNat 32 w.length + sumBytes w

/-- `s2` of a window in closed form: `31 n (n-1) + Σ (n-i) wᵢ`. -/
def rollS2 (w : Bytes) : U32 :=
  31#32 * BitVec.ofNat 32 w.length * BitVec.ofNat 32 (w.length - 1) + weightedSum w

theorem rollsumOf_eq (w : Bytes) :
    rollsumOf w = (rollS1 w <<< 16) ||| (rollS2 w &&& 0xffff#32) := rfl

/-- The state `h` is the one determined by the window `w`. -/
def RollOK (h : RollSum) (w : Bytes) : Prop :=
  h.win = w ∧ h.s1 = rollS1 w ∧ h.s2 = rollS2 w

theorem charOffset_eq : charOffset = 31#32 := by decide

theorem RollOK_new (n : Nat) : RollOK (RollSum.new n) (List.replicate n 0) := by
  refine ⟨rfl, ?_, ?_⟩
  · simp only [RollSum.new, rollS1, List.length_replicate, sumBytes_replicate_zero, charOffset_eq]
    grind
  · simp only [RollSum.new, rollS2, List.length_replicate, weightedSum_replicate_zero,
      charOffset_eq]
    grind

theorem RollOK_sum {h : RollSum} {w : Bytes} (ok : RollOK h w) : h.sum = rollsumOf w := by
  obtain ⟨_, h1, h2⟩ := ok
  rw [rollsumOf_eq, RollSum.sum, h1, h2]

theorem RollOK_input {h : RollSum} {w : Bytes} (ok : RollOK h w) (hw : 1 ≤ w.length) (b : UInt8) :
    RollOK (h.input b) (w.tail ++ [b]) := by
  obtain ⟨hwin, h1, h2⟩ := ok
  cases w with
  | nil => simp at hw
  | cons b0 t =>
    have e1 : (h.input b).s1 = rollS1 (t ++ [b]) := by
      simp only [RollSum.input, hwin, h1, List.headD_cons, rollS1, List.length_cons,
        List.length_append, sumBytes, sumBytes_append_single]
      show _ + byteVal b - byteVal b0 = _
      grind
    refine ⟨by simp [RollSum.input, hwin], e1, ?_⟩
    show h.s2 + (h.input b).s1 - _ = _
    rw [e1, h2, hwin]
    simp only [List.headD_cons, rollS1, rollS2, List.length_cons,
        List.length_append, sumBytes_append_single, weightedSum,
        weightedSum_append_single, charOffset_eq]
    show _ - _ * (byteVal b0 + _) = _
    grind

theorem RollOK_length {h : RollSum} {w : Bytes} (ok : RollOK h w) : h.win.length = w.length := by
  rw [ok.1]

/-- Feeding `bs` from any state whose window is `w` yields the state of the last `w.length`
bytes of `w ++ bs`. -/
theorem rollsum_feed (n : Nat) (hn : 1 ≤ n) (bs : Bytes) :
    ∀ (h : RollSum) (w : Bytes), w.length = n → RollOK h w →
      RollOK (bs.foldl RollSum.input h) ((w ++ bs).drop bs.length) := by
  induction bs with
  | nil => intro h w _ ok; simpa using ok
  | cons b bs ih =>
    intro h w hw ok
    cases w with
    | nil => simp at hw; omega
    | cons b0 t =>
      have := ih (h.input b) (t ++ [b]) (by simpa using hw) (RollOK_input ok (by simp) b)
      simpa using this

theorem rollsum_feed_sum (n : Nat) (hn : 1 ≤ n) (h : RollSum) (w : Bytes) (hw : w.length = n)
    (ok : RollOK h w) (bs : Bytes) :
    (bs.foldl RollSum.input h).sum = rollsumOf ((w ++ bs).drop bs.length) :=
  RollOK_sum (rollsum_feed n hn bs h w hw ok)

theorem rollsum_is_window_function (n : Nat) (hn : 1 ≤ n) (hist : Bytes) :
    (hist.foldl RollSum.input (RollSum.new n)).sum
      = rollsumOf (winAt n hist hist.length) := by
  have := rollsum_feed n hn hist _ _ (by simp) (RollOK_new n)
  rw [RollOK_sum this, winAt, List.take_of_length_le]
  simp

/-! ## BuzHash -/

theorem rotl_xor (x y : U32) (k : Nat) : rotl (x ^^^ y) k = rotl x k ^^^ rotl y k := by
  unfold rotl
  ext i hi
  simp only [BitVec.getElem_rotateLeft, BitVec.getElem_xor]
  split <;> rfl

theorem rotl_rotl (x : U32) (a b : Nat) : rotl (rotl x a) b = rotl x (a + b) := by
  unfold rotl
  ext i hi
  simp only [BitVec.getElem_rotateLeft]
  repeat' split
  all_goals first | (congr 1; omega) | omega

theorem rotl_zero_left (k : Nat) : rotl 0#32 k = 0#32 := by
  unfold rotl
  ext i hi
  simp [BitVec.getElem_rotateLeft]

theorem rotl_zero (x : U32) : rotl x 0 = x := by
  unfold rotl
  ext i hi
  simp [BitVec.getElem_rotateLeft]

theorem buzOf_append_single (w : Bytes) (b : UInt8) :
    buzOf (w ++ [b]) = rotl (buzOf w) 1 ^^^ buzTable b := by
  induction w with
  | nil => simp [buzOf, rotl_zero, rotl_zero_left]
  | cons a t ih =>
    simp only [List.cons_append, buzOf, ih, List.length_append, List.length_singleton, rotl_xor,
      rotl_rotl]
    grind

/-- Rolling one byte through a full window. -/
theorem buzOf_roll (b0 : UInt8) (t : Bytes) (b : UInt8) :
    rotl (buzOf (b0 :: t)) 1 ^^^ rotl (buzTable b0) (t.length + 1) ^^^ buzTable b
      = buzOf (t ++ [b]) := by
  simp only [buzOf, buzOf_append_single, rotl_xor, rotl_rotl]
  grind

/-- The repeat counter is sound: the last `rep + 1` bytes fed (all of them, if fewer were fed)
equal `last`. -/
def RepOK (last : UInt8) (rep : Nat) (fed : Bytes) : Prop :=
  ∀ x ∈ fed.drop (fed.length - (rep + 1)), x = last

theorem RepOK_nil : RepOK 0 0 [] := by simp [RepOK]

theorem RepOK_step {last : UInt8} {rep : Nat} {fed : Bytes} (ok : RepOK last rep fed) (b : UInt8) :
    RepOK (if b = last then (last, rep + 1) else (b, 0)).1
      (if b = last then (last, rep + 1) else (b, 0)).2 (fed ++ [b]) := by
  unfold RepOK at *
  split
  · next hb =>
    subst hb
    intro x hx
    simp only [List.length_append, List.length_singleton] at hx
    rw [show fed.length + 1 - (rep + 1 + 1) = fed.length - (rep + 1) by omega,
      List.drop_append_of_le_length (by omega)] at hx
    simp only [List.mem_append, List.mem_singleton] at hx
    rcases hx with hx | hx
    · exact ok x hx
    · exact hx
  · intro x hx
    simpa using hx

/-- If the counter (after the update) reaches the window size, the window is full of `last`. -/
theorem RepOK_window {last : UInt8} {rep : Nat} {fed : Bytes} (ok : RepOK last rep fed)
    {n : Nat} (hn : n ≤ rep + 1) (hlen : n ≤ fed.length) :
    fed.drop (fed.length - n) = List.replicate n last := by
  rw [List.eq_replicate_iff]
  refine ⟨by simp; omega, ?_⟩
  intro x hx
  apply ok x
  have : fed.length - n = (fed.length - (rep + 1)) + ((fed.length - n) - (fed.length - (rep + 1))) := by
    omega
  rw [this, ← List.drop_drop] at hx
  exact List.mem_of_mem_drop hx


/-- `(last_input, repeated_input)` after one more byte (the same in `init` and `input`). -/
def repStep (last : UInt8) (rep : Nat) (b : UInt8) : UInt8 × Nat :=
  if b = last then (last, rep + 1) else (b, 0)

theorem RepOK_repStep {last : UInt8} {rep : Nat} {fed : Bytes} (ok : RepOK last rep fed)
    (b : UInt8) : RepOK (repStep last rep b).1 (repStep last rep b).2 (fed ++ [b]) :=
  RepOK_step ok b

section fields
variable (h : BuzHash) (b : UInt8)

theorem init_window (hf : h.full = false) : (h.init b).window = h.window := by
  by_cases hb : b = h.last <;> simp [BuzHash.init, hf, hb]
theorem init_full (hf : h.full = false) : (h.init b).full = decide (h.window - 1 ≤ h.filled) := by
  by_cases hb : b = h.last <;> simp [BuzHash.init, hf, hb]
theorem init_filled (hf : h.full = false) :
    (h.init b).filled = if h.filled + 1 ≥ h.window then 0 else h.filled + 1 := by
  by_cases hb : b = h.last <;> simp [BuzHash.init, hf, hb]
theorem init_win (hf : h.full = false) : (h.init b).win = h.win.tail ++ [buzTable b] := by
  by_cases hb : b = h.last <;> simp [BuzHash.init, hf, hb]
theorem init_sum (hf : h.full = false) :
    (h.init b).sum = h.sum ^^^ rotl (buzTable b) (h.window - (h.filled + 1)) := by
  by_cases hb : b = h.last <;> simp [BuzHash.init, hf, hb]
theorem init_last (hf : h.full = false) : (h.init b).last = (repStep h.last h.rep b).1 := by
  by_cases hb : b = h.last <;> simp [BuzHash.init, hf, hb, repStep]
theorem init_rep (hf : h.full = false) : (h.init b).rep = (repStep h.last h.rep b).2 := by
  by_cases hb : b = h.last <;> simp [BuzHash.init, hf, hb, repStep]

theorem input_window : (h.input b).window = h.window := by
  by_cases hb : b = h.last <;> simp only [BuzHash.input, hb, if_true, if_false] <;> split <;> rfl
theorem input_full : (h.input b).full = h.full := by
  by_cases hb : b = h.last <;> simp only [BuzHash.input, hb, if_true, if_false] <;> split <;> rfl
theorem input_last : (h.input b).last = (repStep h.last h.rep b).1 := by
  by_cases hb : b = h.last <;> simp only [BuzHash.input, repStep, hb, if_true, if_false] <;> split <;> rfl
theorem input_rep : (h.input b).rep = (repStep h.last h.rep b).2 := by
  by_cases hb : b = h.last <;> simp only [BuzHash.input, repStep, hb, if_true, if_false] <;> split <;> rfl
theorem input_win :
    (h.input b).win =
      if (repStep h.last h.rep b).2 < h.window then h.win.tail ++ [buzTable b] else h.win := by
  by_cases hb : b = h.last <;> simp only [BuzHash.input, repStep, hb, if_true, if_false] <;> split <;> rfl
theorem input_sum :
    (h.input b).sum =
      if (repStep h.last h.rep b).2 < h.window then
        rotl h.sum 1 ^^^ rotl (h.win.headD 0) h.window ^^^ buzTable b
      else h.sum := by
  by_cases hb : b = h.last <;> simp only [BuzHash.input, repStep, hb, if_true, if_false] <;> split <;> rfl

end fields

/-- Last `n` elements after appending one. -/
theorem lastN_snoc {α} (fed : List α) (b : α) {n : Nat} (hn : 1 ≤ n) (hlen : n ≤ fed.length) :
    (fed ++ [b]).drop (fed.length + 1 - n) = (fed.drop (fed.length - n)).tail ++ [b] := by
  rw [show fed.length + 1 - n = (fed.length - n) + 1 by omega,
    List.drop_append_of_le_length (by omega), List.tail_drop]

/-- Warm-up: state after `init` on each byte of `fed`, fewer than `n` of them. -/
structure BuzWarm (h : BuzHash) (n : Nat) (fed : Bytes) : Prop where
  window : h.window = n
  full : h.full = false
  filled : h.filled = fed.length
  len : fed.length < n
  win : h.win = List.replicate (n - fed.length) 0 ++ fed.map buzTable
  sum : h.sum = rotl (buzOf fed) (n - fed.length)
  rep : RepOK h.last h.rep fed

/-- Rolling: state after feeding the byte sequence `fed` (`init` for the first `n`, `input`
afterwards), at least `n` of them. -/
structure BuzOK (h : BuzHash) (n : Nat) (fed : Bytes) : Prop where
  window : h.window = n
  full : h.full = true
  len : n ≤ fed.length
  win : h.win = (fed.drop (fed.length - n)).map buzTable
  sum : h.sum = buzOf (fed.drop (fed.length - n))
  rep : RepOK h.last h.rep fed

theorem BuzWarm_new (n : Nat) (hn : 1 ≤ n) : BuzWarm (BuzHash.new n) n [] where
  window := rfl
  full := rfl
  filled := rfl
  len := by show 0 < n; omega
  win := by simp [BuzHash.new]
  sum := by simp [BuzHash.new, buzOf, rotl_zero_left]
  rep := RepOK_nil

theorem BuzWarm_init_lt {h : BuzHash} {n : Nat} {fed : Bytes} (ok : BuzWarm h n fed) (b : UInt8)
    (hlt : fed.length + 1 < n) : BuzWarm (h.init b) n (fed ++ [b]) where
  window := by rw [init_window _ _ ok.full, ok.window]
  full := by rw [init_full _ _ ok.full, ok.window, ok.filled]; simp; omega
  filled := by rw [init_filled _ _ ok.full, ok.window, ok.filled]; simp; omega
  len := by simpa using hlt
  win := by
    rw [init_win _ _ ok.full, ok.win]
    obtain ⟨k, hk⟩ : ∃ k, n - fed.length = k + 1 := ⟨n - fed.length - 1, by omega⟩
    have : n - (fed ++ [b]).length = k := by simp; omega
    rw [this, hk]
    simp [List.replicate_succ]
  sum := by
    rw [init_sum _ _ ok.full, ok.sum, ok.window, ok.filled, buzOf_append_single, rotl_xor,
      rotl_rotl]
    simp only [List.length_append, List.length_singleton]
    rw [show 1 + (n - (fed.length + 1)) = n - fed.length by omega]
  rep := by
    rw [init_last _ _ ok.full, init_rep _ _ ok.full]; exact RepOK_repStep ok.rep b

theorem BuzWarm_init_eq {h : BuzHash} {n : Nat} {fed : Bytes} (ok : BuzWarm h n fed) (b : UInt8)
    (heq : fed.length + 1 = n) : BuzOK (h.init b) n (fed ++ [b]) where
  window := by rw [init_window _ _ ok.full, ok.window]
  full := by rw [init_full _ _ ok.full, ok.window, ok.filled]; simp; omega
  len := by simp; omega
  win := by
    rw [init_win _ _ ok.full, ok.win]
    have : (fed ++ [b]).length - n = 0 := by simp; omega
    rw [this, show n - fed.length = 1 by omega]
    simp
  sum := by
    rw [init_sum _ _ ok.full, ok.sum, ok.window, ok.filled]
    have : (fed ++ [b]).length - n = 0 := by simp; omega
    rw [this, List.drop_zero, buzOf_append_single, show n - fed.length = 1 by omega,
      show n - (fed.length + 1) = 0 by omega, rotl_zero]
  rep := by
    rw [init_last _ _ ok.full, init_rep _ _ ok.full]; exact RepOK_repStep ok.rep b

/-- In the repeat-skip branch the window does not change. -/
theorem skip_window {last : UInt8} {rep : Nat} {fed : Bytes} (ok : RepOK last rep fed) (b : UInt8)
    {n : Nat} (hlen : n ≤ fed.length) (hskip : ¬ (repStep last rep b).2 < n) :
    (fed ++ [b]).drop (fed.length + 1 - n) = fed.drop (fed.length - n) := by
  by_cases hn : n = 0
  · subst hn; simp
  · have hb : b = last := by
      by_cases hb : b = last
      · exact hb
      · simp [repStep, hb] at hskip; omega
    subst hb
    have hr : n ≤ rep + 1 := by simpa [repStep] using hskip
    rw [lastN_snoc fed b (by omega) hlen, RepOK_window ok hr hlen]
    obtain ⟨k, rfl⟩ : ∃ k, n = k + 1 := ⟨n - 1, by omega⟩
    simp only [List.replicate_succ, List.tail_cons]
    rw [← List.replicate_succ', List.replicate_succ]

theorem BuzOK_input {h : BuzHash} {n : Nat} {fed : Bytes} (ok : BuzOK h n fed) (b : UInt8) :
    BuzOK (h.input b) n (fed ++ [b]) := by
  have hlenA : (fed ++ [b]).length = fed.length + 1 := by simp
  refine ⟨by rw [input_window, ok.window], by rw [input_full, ok.full], by have := ok.len; omega,
    ?_, ?_, by rw [input_last, input_rep]; exact RepOK_repStep ok.rep b⟩
  · rw [input_win, ok.window, hlenA]
    split
    · next hroll =>
      rw [lastN_snoc fed b (by omega) ok.len, ok.win]
      simp
    · next hskip => rw [skip_window ok.rep b ok.len hskip, ok.win]
  · rw [input_sum, ok.window, hlenA]
    split
    · next hroll =>
      rw [lastN_snoc fed b (by omega) ok.len, ok.win, ok.sum]
      have hl : (fed.drop (fed.length - n)).length = n := by have := ok.len; simp; omega
      cases hw : fed.drop (fed.length - n) with
      | nil => rw [hw] at hl; simp at hl; omega
      | cons b0 t =>
        rw [hw] at hl
        simp only [List.map_cons, List.headD_cons, List.tail_cons]
        rw [← buzOf_roll, ← hl]; rfl
    · next hskip => rw [skip_window ok.rep b ok.len hskip, ok.sum]

theorem BuzOK_sum {h : BuzHash} {n : Nat} {fed : Bytes} (ok : BuzOK h n fed) :
    h.sum = buzOf (fed.drop (fed.length - n)) := ok.sum

/-- Feeding more bytes with `input`. -/
theorem BuzOK_feed {n : Nat} (bs : Bytes) :
    ∀ {h : BuzHash} {fed : Bytes}, BuzOK h n fed → BuzOK (bs.foldl BuzHash.input h) n (fed ++ bs) := by
  induction bs with
  | nil => intro h fed ok; simpa using ok
  | cons b bs ih =>
    intro h fed ok
    have := ih (BuzOK_input ok b)
    simpa using this

/-- The chunker's way of driving the hasher (`init` until `init_done`, `input` afterwards). -/
def buzStep (h : BuzHash) (b : UInt8) : BuzHash := if h.full then h.input b else h.init b

/-- Either phase. -/
def BuzInv (h : BuzHash) (n : Nat) (fed : Bytes) : Prop := BuzWarm h n fed ∨ BuzOK h n fed

theorem BuzInv_new (n : Nat) (hn : 1 ≤ n) : BuzInv (BuzHash.new n) n [] := .inl (BuzWarm_new n hn)

theorem BuzInv.ok {h : BuzHash} {n : Nat} {fed : Bytes} (inv : BuzInv h n fed)
    (hlen : n ≤ fed.length) : BuzOK h n fed := by
  rcases inv with w | o
  · have := w.len; omega
  · exact o

theorem BuzInv.warm {h : BuzHash} {n : Nat} {fed : Bytes} (inv : BuzInv h n fed)
    (hlen : fed.length < n) : BuzWarm h n fed := by
  rcases inv with w | o
  · exact w
  · have := o.len; omega

theorem BuzInv_step {h : BuzHash} {n : Nat} {fed : Bytes} (inv : BuzInv h n fed) (b : UInt8) :
    BuzInv (buzStep h b) n (fed ++ [b]) := by
  rcases inv with w | o
  · rw [buzStep, w.full]
    by_cases hlt : fed.length + 1 < n
    · exact .inl (BuzWarm_init_lt w b hlt)
    · exact .inr (BuzWarm_init_eq w b (by have := w.len; omega))
  · rw [buzStep, o.full]
    exact .inr (BuzOK_input o b)

theorem BuzInv_fold {n : Nat} (bs : Bytes) :
    ∀ {h : BuzHash} {fed : Bytes}, BuzInv h n fed → BuzInv (bs.foldl buzStep h) n (fed ++ bs) := by
  induction bs with
  | nil => intro h fed inv; simpa using inv
  | cons b bs ih =>
    intro h fed inv
    have := ih (BuzInv_step inv b)
    simpa using this

theorem buzhash_is_window_function (n : Nat) (hn : 1 ≤ n) (hist : Bytes) (hlen : n ≤ hist.length) :
    (hist.foldl (fun h b => if h.full then h.input b else h.init b) (BuzHash.new n)).sum
      = buzOf (winAt n hist hist.length) := by
  have inv := BuzInv_fold (n := n) hist (BuzInv_new n hn)
  rw [List.nil_append] at inv
  rw [winAt_end_of_le n hist hlen, ← (inv.ok hlen).sum]
  rfl

end Bita.Proofs
