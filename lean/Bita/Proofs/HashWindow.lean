/-
  The rolling hashes are functions of the trailing window (C09 T4, used by C10).
-/
import Bita.Model.Hash
import Bita.Spec.Chunking

namespace Bita.Proofs
open Bita Bita.Spec

theorem rollsum_is_window_function (n : Nat) (hn : 1 ≤ n) (hist : Bytes) :
    (hist.foldl RollSum.input (RollSum.new n)).sum
      = rollsumOf (winAt n hist hist.length) := by
  sorry

theorem buzhash_is_window_function (n : Nat) (hn : 1 ≤ n) (hist : Bytes) (hlen : n ≤ hist.length) :
    (hist.foldl (fun h b => if h.full then h.input b else h.init b) (BuzHash.new n)).sum
      = buzOf (winAt n hist hist.length) := by
  sorry

end Bita.Proofs
