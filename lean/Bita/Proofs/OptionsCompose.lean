/-
  The option layer composed with the theorems about the modelled core: the checksum *text* of
  `--verify-header` gates the clone (C04), and what `bita compress` is asked for on the command line
  is what the archive records and the reader reports (C11), for every command line the parser
  accepts outside the misuse set.
-/
import Bita.Proofs.Options
import Bita.Proofs.CloneSound
import Bita.Proofs.WriterOpen

namespace Bita.Proofs
open Bita Bita.Options Bita.Proto WriterOpen

instance (c : Config) : Decidable (NotMisuse c) := by
  cases c <;> simp only [NotMisuse] <;> infer_instance

/-- **`--verify-header`, from the text to the gate.**  If the clone gets past the pin (here: it
reports success) with the pin that the option text parsed to, then that text denotes, pair by
pair, exactly the 64 bytes of the archive's header checksum - no prefix, no extension, nothing
dropped (F6 and F15 were both violations of this sentence). -/
theorem verify_header_text_gate (H : Bytes → Bytes) (decomp : Nat → Bytes → Nat → Option Bytes) (features : List Nat)
    (readAt : Nat → Nat → Option Bytes) (readChunks : List (Nat × Nat) → List (Option Bytes))
    (opts : CloneOpts) (prior : Bytes) (seeds : List Bytes) (a : Archive) (text pin : Bytes)
    (hinit : tryInit H features readAt = .ok a)
    (hparse : parseHashSum text = .ok pin) (hp : opts.headerPin = some pin)
    (hok : (Clone.run H decomp features readAt readChunks opts prior seeds).result = .ok) :
    pin = a.headerChecksum ∧ 2 * a.headerChecksum.length = (padded text).length ∧
    ∀ i (hi : i < pin.length), ∃ x y, (padded text)[2 * i]? = some x ∧ (padded text)[2 * i + 1]? = some y ∧
      parseHexPair x y = some pin[i] := by
  have hpin : pin = a.headerChecksum := by
    apply Classical.byContradiction
    intro hne
    exact (clone_pin H decomp features readAt readChunks opts prior seeds a pin hinit hp hne).1 hok
  obtain ⟨_, h2, h3⟩ := parseHashSum_ok text pin hparse
  exact ⟨hpin, hpin ▸ h2, h3⟩

/-- **Requested = recorded = reported.**  For every `bita compress` command line the parser accepts
outside the misuse set, the dictionary the CLI writer builds records parameters from which the
reader's conversions give back exactly the configuration, hash length and compression that the
option texts denote (`parseCompress_ok`, `parseChunkerOpts_ok_iff` say what that is). -/
theorem cli_requested_is_reported (a : CompressArgs) (p : CompressParsed) (h : parseCompress a = .ok p)
    (hm : NotMisuse p.cmd.opts.cfg) (H : Bytes → Bytes) (comp : Bytes → Bytes) (src : Bytes) :
    ∃ prm c, (dictionaryOf H "cli" comp p.cmd.opts src).1.chunkerParams = some prm ∧
      (dictionaryOf H "cli" comp p.cmd.opts src).1.chunkCompression = some c ∧
      configFromParams prm = .ok p.cmd.opts.cfg ∧ prm.chunkHashLength = p.cmd.opts.hashLen ∧
      compressionFromDict [] c = .ok p.cmd.opts.compression ∧
      (dictionaryOf H "cli" comp p.cmd.opts src).1.metadata = [] := by
  have ho : OptsOK p.cmd.opts := (cli_options_ok_iff a p h).2 hm
  obtain ⟨_, _, _, _, hmeta, _, _, hc, _⟩ := parseCompress_ok a p h
  refine ⟨paramsOf p.cmd.opts.cfg p.cmd.opts.hashLen, _, rfl, rfl,
    configFromParams_paramsOf _ _ ho.accepted, paramsOf_hashLen _ _, ?_, hmeta⟩
  rcases hc with hn | ⟨l, _, _, hl⟩
  · rw [hn]; exact compressionFromDict_none
  · rw [hl]; exact compressionFromDict_brotli l

theorem Parsed.bind_ok {α β : Type} (p : Parsed α) (f : α → Parsed β) (b : β) (h : p.bind f = .ok b) :
    ∃ a, p = .ok a ∧ f a = .ok b := by
  cases p with
  | ok a => exact ⟨a, rfl, h⟩
  | refused => cases h
  | panic => cases h

/-- What an accepted `bita clone` command line hands on: the output, the three flags and the archive
exactly as given; the seed files are the `--seed` values other than `-`, in the order given, and stdin
is a seed iff `-` is among them; a `--verify-header` text that is given becomes a pin (never "no pin"). -/
theorem parseClone_ok (a : CloneArgs) (p : CloneParsed) (h : parseClone a = .ok p) :
    p.cmd.output = a.output ∧ p.cmd.archivePath = a.archive ∧
    p.cmd.flags = ⟨a.force, a.seedOutput, a.verifyOutput⟩ ∧
    p.cmd.seedPaths = a.seeds.filter (· ≠ "-") ∧ p.seedStdin = a.seeds.contains "-" ∧
    (a.verifyHeader = none → p.cmd.pin = none) ∧
    (∀ t, a.verifyHeader = some t → ∃ v, p.cmd.pin = some v ∧ parseHashSum t = .ok v) ∧
    p.retries < 2 ^ 32 := by
  unfold parseClone at h
  obtain ⟨pin, hpin, h⟩ := Parsed.bind_ok _ _ _ h
  obtain ⟨_, _, h⟩ := Parsed.bind_ok _ _ _ h
  obtain ⟨retries, hret, h⟩ := Parsed.bind_ok _ _ _ h
  obtain ⟨delay, _, h⟩ := Parsed.bind_ok _ _ _ h
  obtain ⟨timeout, _, h⟩ := Parsed.bind_ok _ _ _ h
  obtain ⟨buffers, _, h⟩ := Parsed.bind_ok _ _ _ h
  have hr : retries < 2 ^ 32 := by
    cases hrc : a.retryCount with
    | none => rw [hrc] at hret; cases hret; decide
    | some t =>
      rw [hrc] at hret
      simp only [rangedU32] at hret
      split at hret
      · cases hret
      · split at hret
        · split at hret
          · cases hret; omega
          · cases hret
        · cases hret
  have hpin' : (a.verifyHeader = none → pin = none) ∧
      (∀ t, a.verifyHeader = some t → ∃ v, pin = some v ∧ parseHashSum t = .ok v) := by
    cases hv : a.verifyHeader with
    | none => rw [hv] at hpin; cases hpin; exact ⟨fun _ => rfl, fun t ht => by cases ht⟩
    | some t =>
      rw [hv] at hpin
      obtain ⟨v, hv1, hv2⟩ := Parsed.bind_ok _ _ _ hpin
      cases hv2
      refine ⟨fun hn => (by cases hn), fun t' ht' => ?_⟩
      cases ht'
      refine ⟨v, rfl, ?_⟩
      unfold pinValue at hv1
      split at hv1
      · cases hv1
      · exact hv1
  cases hk : a.archiveKind <;> rw [hk] at h <;> simp only at h <;> first
    | (cases h; exact ⟨rfl, rfl, rfl, rfl, rfl, hpin'.1, hpin'.2, hr⟩)
    | (cases h)

end Bita.Proofs

namespace Bita.Proofs
open Bita Bita.Options

/-- The input path handed on is the `-i` value (the empty path stands for stdin). -/
theorem parseCompress_input (a : CompressArgs) (p : CompressParsed) (h : parseCompress a = .ok p) :
    p.cmd.input = a.input.getD "" := by
  unfold parseCompress at h
  obtain ⟨_, _, h⟩ := Parsed.bind_ok _ _ _ h
  obtain ⟨_, _, h⟩ := Parsed.bind_ok _ _ _ h
  obtain ⟨_, _, h⟩ := Parsed.bind_ok _ _ _ h
  obtain ⟨_, _, h⟩ := Parsed.bind_ok _ _ _ h
  obtain ⟨_, _, h⟩ := Parsed.bind_ok _ _ _ h
  obtain ⟨_, _, h⟩ := Parsed.bind_ok _ _ _ h
  obtain ⟨_, _, h⟩ := Parsed.bind_ok _ _ _ h
  obtain ⟨_, _, h⟩ := Parsed.bind_ok _ _ _ h
  obtain ⟨_, _, h⟩ := Parsed.bind_ok _ _ _ h
  obtain ⟨_, _, h⟩ := Parsed.bind_ok _ _ _ h
  split at h
  · cases h
  · obtain ⟨_, _, h⟩ := Parsed.bind_ok _ _ _ h
    obtain ⟨_, _, h⟩ := Parsed.bind_ok _ _ _ h
    cases h
    rfl

end Bita.Proofs
