/-
  The option layer composed with the theorems about the modelled core: the checksum *text* of
  `--verify-header` gates the clone (C04), and what `bita compress` is asked for on the command line
  is what the archive records and the reader reports (C11), for every command line the parser
  accepts outside the misuse set.
-/
import Bita.Proofs.Options
import Bita.Proofs.CloneSound
import Bita.Proofs.WriterOpen

namespace Bita.Proofs
open Bita Bita.Options Bita.Proto WriterOpen

instance (c : Config) : Decidable (NotMisuse c) := by
  cases c <;> simp only [NotMisuse] <;> infer_instance

/-- **`--verify-header`, from the text to the gate.**  If the clone gets past the pin (here: it
reports success) with the pin that the option text parsed to, then that text denotes, pair by
pair, exactly the 64 bytes of the archive's header checksum - no prefix, no extension, nothing
dropped (F6 and F15 were both violations of this sentence). -/
theorem verify_header_text_gate (H : Bytes → Bytes) (decomp : Nat → Bytes → Nat → Option Bytes) (features : List Nat)
    (readAt : Nat → Nat → Option Bytes) (readChunks : List (Nat × Nat) → List (Option Bytes))
    (opts : CloneOpts) (prior : Bytes) (seeds : List Bytes) (a : Archive) (text pin : Bytes)
    (hinit : tryInit H features readAt = .ok a)
    (hparse : parseHashSum text = .ok pin) (hp : opts.headerPin = some pin)
    (hok : (Clone.run H decomp features readAt readChunks opts prior seeds).result = .ok) :
    pin = a.headerChecksum ∧ 2 * a.headerChecksum.length = (padded text).length ∧
    ∀ i (hi : i < pin.length), ∃ x y, (padded text)[2 * i]? = some x ∧ (padded text)[2 * i + 1]? = some y ∧
      parseHexPair x y = some pin[i] := by
  have hpin : pin = a.headerChecksum := by
    apply Classical.byContradiction
    intro hne
    exact (clone_pin H decomp features readAt readChunks opts prior seeds a pin hinit hp hne).1 hok
  obtain ⟨_, h2, h3⟩ := parseHashSum_ok text pin hparse
  exact ⟨hpin, hpin ▸ h2, h3⟩

/-- **Requested = recorded = reported.**  For every `bita compress` command line the parser accepts
outside the misuse set, the dictionary the CLI writer builds records parameters from which the
reader's conversions give back exactly the configuration, hash length and compression that the
option texts denote (`parseCompress_ok`, `parseChunkerOpts_ok_iff` say what that is). -/
theorem cli_requested_is_reported (a : CompressArgs) (p : CompressParsed) (h : parseCompress a = .ok p)
    (hm : NotMisuse p.cmd.opts.cfg) (H : Bytes → Bytes) (comp : Bytes → Bytes) (src : Bytes) :
    ∃ prm c, (dictionaryOf H "cli" comp p.cmd.opts src).1.chunkerParams = some prm ∧
      (dictionaryOf H "cli" comp p.cmd.opts src).1.chunkCompression = some c ∧
      configFromParams prm = .ok p.cmd.opts.cfg ∧ prm.chunkHashLength = p.cmd.opts.hashLen ∧
      compressionFromDict [] c = .ok p.cmd.opts.compression ∧
      (dictionaryOf H "cli" comp p.cmd.opts src).1.metadata = [] := by
  have ho : OptsOK p.cmd.opts := (cli_options_ok_iff a p h).2 hm
  obtain ⟨_, _, _, _, hmeta, _, _, hc, _⟩ := parseCompress_ok a p h
  refine ⟨paramsOf p.cmd.opts.cfg p.cmd.opts.hashLen, _, rfl, rfl,
    configFromParams_paramsOf _ _ ho.accepted, paramsOf_hashLen _ _, ?_, hmeta⟩
  rcases hc with hn | ⟨l, _, _, hl⟩
  · rw [hn]; exact compressionFromDict_none
  · rw [hl]; exact compressionFromDict_brotli l

end Bita.Proofs
