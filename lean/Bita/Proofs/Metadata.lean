/-
  The metadata map of `bita compress` (`Bita.Options.metadataOf`, the model of the BTreeMap that
  compress_cmd.rs fills from `--metadata-value` and `--metadata-file`): it is strictly ascending by key,
  holds exactly the keys given, and maps every key to the LAST value given for it - so the `OptsOK`
  hypotheses about metadata hold for whatever the command line gives.
-/
import Bita.Model.Options
import Bita.Proofs.Writer

namespace Bita.Proofs
open Bita Bita.Options

/-- The order `OptsOK.meta_sorted` speaks about. -/
def KeyLt (a b : Bytes × Bytes) : Prop := (a.1.map (·.toNat)) < (b.1.map (·.toNat))

/-- Value recorded for a key. -/
def metaLookup (m : List (Bytes × Bytes)) (k : Bytes) : Option Bytes := (m.find? (·.1 = k)).map (·.2)

/-- Last value given for a key on the command line. -/
def lastGiven (given : List (Bytes × Bytes)) (k : Bytes) : Option Bytes := metaLookup given.reverse k

/-! ### helpers -/

private theorem keyNat_inj {a b : Bytes} (h : a.map (·.toNat) = b.map (·.toNat)) : a = b :=
  (List.map_inj_right (fun _ _ hxy => UInt8.toNat_inj.mp hxy)).mp h

private theorem keyLt_true {a b : Bytes} : keyLt a b = true ↔ a.map (·.toNat) < b.map (·.toNat) := by
  simp [keyLt]

/-- Not below and not equal: above. -/
private theorem keyGt_of_not {k k' : Bytes} (hne : k ≠ k') (hlt : ¬ keyLt k k' = true) :
    k'.map (·.toNat) < k.map (·.toNat) := by
  have h1 : ¬ k.map (·.toNat) < k'.map (·.toNat) := fun h => hlt (keyLt_true.mpr h)
  have h2 : k'.map (·.toNat) ≤ k.map (·.toNat) := List.not_lt.mp h1
  rcases List.le_iff_lt_or_eq.mp h2 with h | h
  · exact h
  · exact absurd (keyNat_inj h).symm hne

private theorem KeyLt.trans {a b c : Bytes × Bytes} (h1 : KeyLt a b) (h2 : KeyLt b c) : KeyLt a c :=
  List.lt_trans (α := Nat) h1 h2

private theorem metaInsert_mem (m : List (Bytes × Bytes)) (k v : Bytes) :
    ∀ e ∈ metaInsert m k v, e = (k, v) ∨ e ∈ m := by
  induction m with
  | nil => intro e he; simp [metaInsert] at he; exact Or.inl he
  | cons hd rest ih =>
    obtain ⟨k', v'⟩ := hd
    intro e he
    unfold metaInsert at he
    split at he
    · rcases List.mem_cons.mp he with h | h
      · exact Or.inl h
      · exact Or.inr (List.mem_cons_of_mem _ h)
    · split at he
      · rcases List.mem_cons.mp he with h | h
        · exact Or.inl h
        · exact Or.inr h
      · rcases List.mem_cons.mp he with h | h
        · exact Or.inr (h ▸ List.mem_cons_self)
        · rcases ih e h with h' | h'
          · exact Or.inl h'
          · exact Or.inr (List.mem_cons_of_mem _ h')

theorem metaInsert_sorted (m : List (Bytes × Bytes)) (k v : Bytes) (h : m.Pairwise KeyLt) :
    (metaInsert m k v).Pairwise KeyLt := by
  induction m with
  | nil => simp [metaInsert]
  | cons hd rest ih =>
    obtain ⟨k', v'⟩ := hd
    have ⟨hhd, hrest⟩ := List.pairwise_cons.mp h
    unfold metaInsert
    split
    · next heq =>
      subst heq
      exact List.pairwise_cons.mpr ⟨fun a ha => hhd a ha, hrest⟩
    · next hne =>
      split
      · next hlt =>
        have hk : KeyLt (k, v) (k', v') := keyLt_true.mp hlt
        refine List.pairwise_cons.mpr ⟨?_, h⟩
        intro a ha
        rcases List.mem_cons.mp ha with ha | ha
        · exact ha ▸ hk
        · exact KeyLt.trans hk (hhd a ha)
      · next hlt =>
        have hk : KeyLt (k', v') (k, v) := keyGt_of_not hne hlt
        refine List.pairwise_cons.mpr ⟨?_, ih hrest⟩
        intro a ha
        rcases metaInsert_mem rest k v a ha with ha | ha
        · exact ha ▸ hk
        · exact hhd a ha

/-- (Holds for any list: the insertion never looks past the first key that is not below `k`.) -/
private theorem metaInsert_lookup_any (m : List (Bytes × Bytes)) (k v k' : Bytes) :
    metaLookup (metaInsert m k v) k' = if k' = k then some v else metaLookup m k' := by
  induction m with
  | nil =>
    by_cases hk : k' = k
    · simp [metaInsert, metaLookup, hk]
    · have hk' : ¬ k = k' := fun h => hk h.symm
      simp [metaInsert, metaLookup, hk, hk']
  | cons hd rest ih =>
    obtain ⟨k0, v0⟩ := hd
    unfold metaInsert
    split
    · next heq =>
      subst heq
      by_cases hk : k' = k
      · simp [metaLookup, hk]
      · have hk' : ¬ k = k' := fun h => hk h.symm
        simp [metaLookup, hk, hk']
    · next hne =>
      split
      · by_cases hk : k' = k
        · simp [metaLookup, hk]
        · have hk' : ¬ k = k' := fun h => hk h.symm
          simp [metaLookup, hk, hk', List.find?_cons]
      · by_cases h0 : k0 = k'
        · have hk : ¬ k' = k := fun h => hne (h.symm.trans h0.symm)
          simp [metaLookup, h0, hk]
        · have : metaLookup ((k0, v0) :: metaInsert rest k v) k' = metaLookup (metaInsert rest k v) k' := by
            simp [metaLookup, h0]
          rw [this, ih]
          simp [metaLookup, h0]

theorem metaInsert_lookup (m : List (Bytes × Bytes)) (k v k' : Bytes) (h : m.Pairwise KeyLt) :
    metaLookup (metaInsert m k v) k' = if k' = k then some v else metaLookup m k' := by
  have _ := h
  exact metaInsert_lookup_any m k v k'

/-! ### the fold -/

private theorem fold_sorted (given acc : List (Bytes × Bytes)) (h : acc.Pairwise KeyLt) :
    (given.foldl (fun m e => metaInsert m e.1 e.2) acc).Pairwise KeyLt := by
  induction given generalizing acc with
  | nil => exact h
  | cons e rest ih => exact ih _ (metaInsert_sorted acc e.1 e.2 h)

private theorem fold_mem (given acc : List (Bytes × Bytes)) :
    ∀ e ∈ given.foldl (fun m e => metaInsert m e.1 e.2) acc, e ∈ acc ∨ e ∈ given := by
  induction given generalizing acc with
  | nil => intro e he; exact Or.inl he
  | cons x rest ih =>
    intro e he
    rcases ih _ e he with h | h
    · rcases metaInsert_mem acc x.1 x.2 e h with h' | h'
      · exact Or.inr (h' ▸ List.mem_cons_self)
      · exact Or.inl h'
    · exact Or.inr (List.mem_cons_of_mem _ h)

private theorem lastGiven_concat (xs : List (Bytes × Bytes)) (e : Bytes × Bytes) (k : Bytes) :
    lastGiven (xs ++ [e]) k = if k = e.1 then some e.2 else lastGiven xs k := by
  by_cases hk : k = e.1
  · simp [lastGiven, metaLookup, hk]
  · have hk' : ¬ e.1 = k := fun h => hk h.symm
    simp [lastGiven, metaLookup, hk, hk']

private theorem fold_concat (xs : List (Bytes × Bytes)) (e : Bytes × Bytes) :
    (xs ++ [e]).foldl (fun m e => metaInsert m e.1 e.2) [] =
      metaInsert (xs.foldl (fun m e => metaInsert m e.1 e.2) []) e.1 e.2 := by
  simp [List.foldl_append]

private theorem fold_lookup_rev (ys : List (Bytes × Bytes)) (k : Bytes) :
    metaLookup (ys.reverse.foldl (fun m e => metaInsert m e.1 e.2) []) k = lastGiven ys.reverse k := by
  induction ys with
  | nil => simp [lastGiven, metaLookup]
  | cons e rest ih =>
    rw [List.reverse_cons, fold_concat, lastGiven_concat,
      metaInsert_lookup _ _ _ _ (fold_sorted _ _ List.Pairwise.nil), ih]

/-- **Sorted, strictly** (what the encoder and `OptsOK.meta_sorted` need; in particular no key twice). -/
theorem metadataOf_sorted (strings files : List (Bytes × Bytes)) :
    (metadataOf strings files).Pairwise KeyLt :=
  fold_sorted _ _ List.Pairwise.nil

/-- **Last one wins**: the value recorded for a key is the last one given for it, values before
files; a key that was not given is not recorded. -/
theorem metadataOf_lookup (strings files : List (Bytes × Bytes)) (k : Bytes) :
    metaLookup (metadataOf strings files) k = lastGiven (strings ++ files) k := by
  have := fold_lookup_rev (strings ++ files).reverse k
  rw [List.reverse_reverse] at this
  exact this

/-- Every recorded pair was given. -/
theorem metadataOf_mem (strings files : List (Bytes × Bytes)) :
    ∀ e ∈ metadataOf strings files, e ∈ strings ++ files := by
  intro e he
  rcases fold_mem (strings ++ files) [] e he with h | h
  · exact absurd h List.not_mem_nil
  · exact h

/-- The `OptsOK` metadata hypotheses hold for the map built from any pairs whose keys are UTF-8 (they
are Rust `String`s). -/
theorem metadataOf_optsOK (strings files : List (Bytes × Bytes))
    (hk : ∀ e ∈ strings ++ files, Proto.utf8Valid e.1 = true) :
    (∀ e ∈ metadataOf strings files, Proto.utf8Valid e.1 = true) ∧
    (metadataOf strings files).Pairwise (fun a b => (a.1.map (·.toNat)) < (b.1.map (·.toNat))) :=
  ⟨fun e he => hk e (metadataOf_mem strings files e he), metadataOf_sorted strings files⟩

end Bita.Proofs
