import Bita.Proofs.HttpRun

namespace Bita.Proofs
open Bita Bita.Spec

/-! ### `fetchRun` equations -/

theorem fetchRun_nil (stop pos b : Nat) :
    fetchRun stop pos b [] = (pos, [(pos, stop - pos)], .fail Item.stall, []) := by
  rw [fetchRun]

theorem fetchRun_full (stop pos b : Nat) (fr : List Nat) (s : List Resp) :
    fetchRun stop pos b (.full fr :: s) = (stop, [(pos, stop - pos)], .done, s) := by
  rw [fetchRun]

theorem fetchRun_refuse0 (stop pos : Nat) (s : List Resp) :
    fetchRun stop pos 0 (.refuse :: s) = (pos, [(pos, stop - pos)], .fail Item.errHttp, s) := by
  rw [fetchRun]; simp

theorem fetchRun_refuse (stop pos b : Nat) (s : List Resp) (hb : b ≠ 0) :
    fetchRun stop pos b (.refuse :: s) =
      ((fetchRun stop pos (b - 1) s).1, (pos, stop - pos) :: (fetchRun stop pos (b - 1) s).2.1,
        (fetchRun stop pos (b - 1) s).2.2.1, (fetchRun stop pos (b - 1) s).2.2.2) := by
  rw [fetchRun]; simp [hb]

theorem fetchRun_part_done (stop pos b n : Nat) (fr : List Nat) (cut : Bool) (s : List Resp)
    (h : stop ≤ pos + n) :
    fetchRun stop pos b (.part n fr cut :: s) = (stop, [(pos, stop - pos)], .done, s) := by
  rw [fetchRun]; simp [Nat.min_eq_left h]

theorem fetchRun_part_end (stop pos b n : Nat) (fr : List Nat) (s : List Resp)
    (h : pos + n < stop) :
    fetchRun stop pos b (.part n fr false :: s) =
      (pos + n, [(pos, stop - pos)], .fail Item.errEnd, s) := by
  rw [fetchRun]
  simp [Nat.min_eq_right (Nat.le_of_lt h), Nat.ne_of_lt h]

theorem fetchRun_part_cut0 (stop pos n : Nat) (fr : List Nat) (s : List Resp)
    (h : pos + n < stop) :
    fetchRun stop pos 0 (.part n fr true :: s) =
      (pos + n, [(pos, stop - pos)], .fail Item.errHttp, s) := by
  rw [fetchRun]
  simp [Nat.min_eq_right (Nat.le_of_lt h), Nat.ne_of_lt h]

theorem fetchRun_part_cut (stop pos b n : Nat) (fr : List Nat) (s : List Resp)
    (h : pos + n < stop) (hb : b ≠ 0) :
    fetchRun stop pos b (.part n fr true :: s) =
      ((fetchRun stop (pos + n) (b - 1) s).1,
        (pos, stop - pos) :: (fetchRun stop (pos + n) (b - 1) s).2.1,
        (fetchRun stop (pos + n) (b - 1) s).2.2.1, (fetchRun stop (pos + n) (b - 1) s).2.2.2) := by
  rw [fetchRun]
  simp [Nat.min_eq_right (Nat.le_of_lt h), Nat.ne_of_lt h, hb]

theorem fetchRun_bounds (stop : Nat) (script : List Resp) : ∀ pos budget, pos ≤ stop →
    (∀ q ∈ (fetchRun stop pos budget script).2.1, q.1 + q.2 = stop ∧ pos ≤ q.1) ∧
    pos ≤ (fetchRun stop pos budget script).1 ∧ (fetchRun stop pos budget script).1 ≤ stop ∧
    ((fetchRun stop pos budget script).2.2.1 = RunEnd.done →
      (fetchRun stop pos budget script).1 = stop) := by
  induction script with
  | nil => intro pos budget h; rw [fetchRun_nil]; simp; omega
  | cons r s ih =>
    intro pos budget h
    cases r with
    | refuse =>
      by_cases hb : budget = 0
      · subst hb; rw [fetchRun_refuse0]; simp; omega
      · rw [fetchRun_refuse _ _ _ _ hb]
        obtain ⟨h1, h2, h3, h4⟩ := ih pos (budget - 1) h
        refine ⟨?_, h2, h3, h4⟩
        intro q hq
        rcases List.mem_cons.1 hq with hq | hq
        · subst hq; simp; omega
        · exact h1 q hq
    | full fr => rw [fetchRun_full]; simp; omega
    | part n fr cut =>
      by_cases hn : stop ≤ pos + n
      · rw [fetchRun_part_done _ _ _ _ _ _ _ hn]; simp; omega
      · have hn' : pos + n < stop := by omega
        cases cut with
        | false => rw [fetchRun_part_end _ _ _ _ _ _ hn']; simp; omega
        | true =>
          by_cases hb : budget = 0
          · subst hb; rw [fetchRun_part_cut0 _ _ _ _ _ hn']; simp; omega
          · rw [fetchRun_part_cut _ _ _ _ _ _ hn' hb]
            obtain ⟨h1, h2, h3, h4⟩ := ih (pos + n) (budget - 1) (by omega)
            refine ⟨?_, by omega, h3, h4⟩
            intro q hq
            rcases List.mem_cons.1 hq with hq | hq
            · subst hq; simp; omega
            · have := h1 q hq; omega

theorem fetchRun_fail_item (stop : Nat) (script : List Resp) : ∀ pos budget it,
    (fetchRun stop pos budget script).2.2.1 = RunEnd.fail it →
    it = Item.stall ∨ it = Item.errHttp ∨ it = Item.errEnd := by
  induction script with
  | nil => intro pos budget it; rw [fetchRun_nil]; simp; intro h; simp [h]
  | cons r s ih =>
    intro pos budget it
    cases r with
    | refuse =>
      by_cases hb : budget = 0
      · subst hb; rw [fetchRun_refuse0]; simp; intro h; simp [← h]
      · rw [fetchRun_refuse _ _ _ _ hb]; exact ih _ _ it
    | full fr => rw [fetchRun_full]; simp
    | part n fr cut =>
      by_cases hn : stop ≤ pos + n
      · rw [fetchRun_part_done _ _ _ _ _ _ _ hn]; simp
      · have hn' : pos + n < stop := by omega
        cases cut with
        | false => rw [fetchRun_part_end _ _ _ _ _ _ hn']; simp; intro h; simp [← h]
        | true =>
          by_cases hb : budget = 0
          · subst hb; rw [fetchRun_part_cut0 _ _ _ _ _ hn']; simp; intro h; simp [← h]
          · rw [fetchRun_part_cut _ _ _ _ _ _ hn' hb]; exact ih _ _ it

/-! ### the reader inside a run -/

/-- What the reader must produce from a state inside the run `run` (followed by `rest`), given
the outcome `res` of `fetchRun` on the remaining script. -/
def runSpec (data : Bytes) (retry : Nat) (run rest : List ChunkOffset)
    (res : Nat × List (Nat × Nat) × RunEnd × List Resp) : Out :=
  match res.2.2.1 with
  | .done =>
    ⟨run.map (exactItem data) ++ (CR.run (slice data) retry res.2.2.2 ⟨rest, [], 0, none⟩).items,
     res.2.1 ++ (CR.run (slice data) retry res.2.2.2 ⟨rest, [], 0, none⟩).reqs⟩
  | .fail it => ⟨(run.filter (fun c => c.stop ≤ res.1)).map (exactItem data) ++ [it], res.2.1⟩

theorem runSt_eq (data : Bytes) (c : ChunkOffset) (r rest : List ChunkOffset) (off size rl : Nat) :
    runSt data c r rest off size rl =
      ⟨c :: (r ++ rest), slice data c.offset (off - c.offset), (c :: r).length,
        some (off, size, rl)⟩ := rfl

theorem filter_stuck (c : ChunkOffset) (r : List ChunkOffset) (pos : Nat)
    (hc : Contiguous (c :: r)) (h : pos < c.stop) :
    (c :: r).filter (fun x => x.stop ≤ pos) = [] := by
  rw [List.filter_eq_nil_iff]
  intro x hx
  rcases List.mem_cons.1 hx with hx | hx
  · subst hx; simp; omega
  · have := contiguous_stop_le c r hc x hx
    rw [decide_eq_true_eq]
    simp only [ChunkOffset.stop] at *
    omega

theorem filter_split (done : List ChunkOffset) (c' : ChunkOffset) (r' : List ChunkOffset)
    (pos : Nat) (hdone : ∀ x ∈ done, x.stop ≤ pos) :
    (done ++ c' :: r').filter (fun x => x.stop ≤ pos) =
      done ++ (c' :: r').filter (fun x => x.stop ≤ pos) := by
  rw [List.filter_append]
  congr 1
  rw [List.filter_eq_self]
  intro x hx
  simp [hdone x hx]

/-- Chunks delivered by an earlier attempt are prepended to what the rest of the run gives. -/
theorem runSpec_prepend (data : Bytes) (retry : Nat) (done : List ChunkOffset) (c' : ChunkOffset)
    (r' rest : List ChunkOffset) (q : Nat × Nat)
    (res : Nat × List (Nat × Nat) × RunEnd × List Resp)
    (hdone : ∀ x ∈ done, x.stop ≤ res.1) :
    (⟨done.map (exactItem data) ++ (runSpec data retry (c' :: r') rest res).items,
      q :: (runSpec data retry (c' :: r') rest res).reqs⟩ : Out) =
      runSpec data retry (done ++ c' :: r') rest (res.1, q :: res.2.1, res.2.2.1, res.2.2.2) := by
  obtain ⟨pos, rq, e, s⟩ := res
  cases e with
  | done => simp [runSpec]
  | fail it =>
    simp only [runSpec]
    rw [filter_split done c' r' pos hdone]
    simp

theorem run_inv (data : Bytes) (retry : Nat) (rest : List ChunkOffset)
    (hrest : ∀ c ∈ rest, 1 ≤ c.size) :
    ∀ (script : List Resp) (c : ChunkOffset) (r : List ChunkOffset) (off size rl : Nat),
      Contiguous (c :: r) → (∀ x ∈ c :: r, 1 ≤ x.size) → c.offset ≤ off → off < c.stop →
      off + size = c.offset + total (c :: r) → off + size ≤ data.length →
      CR.run (slice data) retry script (runSt data c r rest off size rl) =
        runSpec data retry (c :: r) rest (fetchRun (off + size) off rl script) := by
  intro script
  induction script with
  | nil =>
    intro c r off size rl hc hs h1 h2 h3 h4
    have htot : total (c :: r) = c.size + total r := rfl
    have hlen : (slice data c.offset (off - c.offset)).length < c.size := by
      rw [slice_length (by omega)]; simp only [ChunkOffset.stop] at h2; omega
    have hsz : 0 < size := by simp only [ChunkOffset.stop] at h2; omega
    rw [runSt_eq, run_stuck_nil _ _ _ _ _ _ _ _ _ hlen hsz, fetchRun_nil]
    simp only [runSpec]
    rw [filter_stuck c r off hc h2, Nat.add_sub_cancel_left]
    simp
  | cons x s ih =>
    intro c r off size rl hc hs h1 h2 h3 h4
    have htot : total (c :: r) = c.size + total r := rfl
    have hlen : (slice data c.offset (off - c.offset)).length < c.size := by
      rw [slice_length (by omega)]; simp only [ChunkOffset.stop] at h2; omega
    have hsz : 0 < size := by simp only [ChunkOffset.stop] at h2; omega
    cases x with
    | refuse =>
      by_cases hb : rl = 0
      · subst hb
        rw [runSt_eq, run_stuck_refuse0 _ _ _ _ _ _ _ _ _ hlen hsz, fetchRun_refuse0]
        simp only [runSpec]
        rw [filter_stuck c r off hc h2, Nat.add_sub_cancel_left]
        simp
      · rw [runSt_eq, run_stuck_refuse _ _ _ _ _ _ _ _ _ _ hlen hsz hb, ← runSt_eq,
          ih c r off size (rl - 1) hc hs h1 h2 h3 h4, fetchRun_refuse _ _ _ _ hb,
          Nat.add_sub_cancel_left]
        have := runSpec_prepend data retry [] c r rest (off, size)
          (fetchRun (off + size) off (rl - 1) s) (by simp)
        simpa using this
    | full fr =>
      have hfeed := (feed_inv data rest hrest (splitBy fr (slice data off size)) c r off size rl
        size hc hs h1 h2 h3 h4 (Nat.le_refl _) (splitBy_flatten _ _)).1 rfl
      rw [runSt_eq] at hfeed
      rw [runSt_eq, run_stuck_full_done _ _ _ _ _ _ _ _ _ _ _ _ _ hlen hsz hfeed, fetchRun_full,
        Nat.add_sub_cancel_left]
      simp [runSpec]
    | part n fr cut =>
      have htake : (slice data off size).take n = slice data off (min n size) := slice_take _ _ _ _
      by_cases hn : size ≤ n
      · have hfeed := (feed_inv data rest hrest (splitBy fr ((slice data off size).take n)) c r
          off size rl size hc hs h1 h2 h3 h4 (Nat.le_refl _)
          (by rw [splitBy_flatten, htake, Nat.min_eq_right hn])).1 rfl
        rw [runSt_eq] at hfeed
        rw [runSt_eq, run_stuck_part_done _ _ _ _ _ _ _ _ _ _ _ _ _ _ _ hlen hsz hfeed,
          fetchRun_part_done _ _ _ _ _ _ _ (by omega), Nat.add_sub_cancel_left]
        simp [runSpec]
      · have hn' : n < size := by omega
        obtain ⟨done, c', r', hsplit, hdone, k1, k2, hfeed⟩ :=
          (feed_inv data rest hrest (splitBy fr ((slice data off size).take n)) c r
          off size rl n hc hs h1 h2 h3 h4 (by omega)
          (by rw [splitBy_flatten, htake, Nat.min_eq_left (by omega)])).2 hn'
        rw [runSt_eq, runSt_eq] at hfeed
        have hlt : off + n < off + size := by omega
        cases cut with
        | false =>
          rw [runSt_eq, run_stuck_part_end _ _ _ _ _ _ _ _ _ _ _ _ _ _ hlen hsz hfeed,
            fetchRun_part_end _ _ _ _ _ _ hlt, Nat.add_sub_cancel_left]
          simp only [runSpec]
          rw [hsplit, filter_split done c' r' _ hdone,
            filter_stuck c' r' (off + n) (contiguous_split done c r c' r' hc hsplit).1 k2]
          simp
        | true =>
          by_cases hb : rl = 0
          · subst hb
            rw [runSt_eq, run_stuck_part_cut0 _ _ _ _ _ _ _ _ _ _ _ _ _ _ _ _ _ _ hlen hsz hfeed,
              fetchRun_part_cut0 _ _ _ _ _ hlt, Nat.add_sub_cancel_left]
            simp only [runSpec]
            rw [hsplit, filter_split done c' r' _ hdone,
              filter_stuck c' r' (off + n) (contiguous_split done c r c' r' hc hsplit).1 k2]
            simp
          · obtain ⟨hc', ht'⟩ := contiguous_split done c r c' r' hc hsplit
            have hs' : ∀ x ∈ c' :: r', 1 ≤ x.size := by
              intro x hx; apply hs; rw [hsplit]; exact List.mem_append_right _ hx
            have e3 : off + n + (size - n) = c'.offset + total (c' :: r') := by omega
            have e4 : off + n + (size - n) ≤ data.length := by omega
            have e5 : off + n + (size - n) = off + size := by omega
            have hB := (fetchRun_bounds (off + size) s (off + n) (rl - 1) (by omega)).2.1
            rw [runSt_eq,
              run_stuck_part_cut _ _ _ _ _ _ _ _ _ _ _ _ _ _ _ _ _ _ _ hlen hsz hb hfeed,
              ← runSt_eq, ih c' r' (off + n) (size - n) (rl - 1) hc' hs' k1 k2 e3 e4, e5,
              fetchRun_part_cut _ _ _ _ _ _ hlt hb, Nat.add_sub_cancel_left, hsplit]
            exact runSpec_prepend data retry done c' r' rest (off, size)
              (fetchRun (off + size) (off + n) (rl - 1) s)
              (fun x hx => Nat.le_trans (hdone x hx) hB)

end Bita.Proofs
