/-
  An accepted header is at least the pre-header, the offset field and the checksum long.
-/
import Bita.Proofs.TryInitLemmas

namespace Bita.Proofs
open Bita Bita.Proto

theorem tryInit_headerSize_ge (H : Bytes → Bytes) (features : List Nat) (read : Nat → Nat → Option Bytes)
    (a : Archive) (h : tryInit H features read = .ok a) :
    Gen.preHeaderSize + 72 ≤ a.headerSize := by
  obtain ⟨pre, rest, dict, params, cc, compr, cfg, w, rfl⟩ := tryInit_ok_inv h
  have := w.hhl
  simp only [tiArchive]
  omega

end Bita.Proofs
