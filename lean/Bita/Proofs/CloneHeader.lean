/-
  An accepted header is at least the pre-header, the offset field and the checksum long.
-/
import Bita.Model.Archive

namespace Bita.Proofs
open Bita Bita.Proto

theorem tryInit_headerSize_ge (H : Bytes → Bytes) (features : List Nat) (read : Nat → Nat → Option Bytes)
    (a : Archive) (h : tryInit H features read = .ok a) :
    Gen.preHeaderSize + 72 ≤ a.headerSize := by
  have hfact : Gen.chunkEndOffsetChecked = true := by decide
  unfold tryInit at h
  simp -zeta only [hfact, ↓reduceIte] at h
  iterate 4 (split at h <;> try (cases h; done))
  dsimp only at h
  iterate 3 (split at h <;> try (cases h; done))
  rename_i hlen
  iterate 9 (split at h <;> try (cases h; done))
  cases h
  simp only [Nat.not_lt] at hlen ⊢
  omega

end Bita.Proofs
