/-
  The phases of a clone at the level of tilings: the state before the seeds (plain, or after
  the in-place reordering), the seeds, the archive.
-/
import Bita.Proofs.CloneRun
import Bita.Proofs.CloneKeys
import Bita.Proofs.CloneIndex
import Bita.Proofs.CloneFeeds
import Bita.Proofs.InPlace

namespace Bita.Proofs
open Bita Bita.Spec Bita.Proofs.Exec

/-- A content function that is right on the source chunks and (when the output is the seed) on
the chunks of the prior output, and source keys identify their chunk among all byte strings. -/
structure CloneSetup (H : Bytes → Bytes) (a : Archive) (opts : CloneOpts) (prior : Bytes)
    (cks : List Bytes) (content : Bytes → Bytes) : Prop where
  src_content : ∀ c ∈ cks, content (ckey H a.hashLength c) = c
  good : ∀ y ∈ cks, ∀ x, ckey H a.hashLength x = ckey H a.hashLength y → x = y
  prior_content : opts.seedOutput = true →
    ∀ c ∈ chunksOf a.config prior, content (ckey H a.hashLength c) = c

theorem cloneSetup_exists (H : Bytes → Bytes) (a : Archive) (opts : CloneOpts) (prior : Bytes)
    (cks : List Bytes) (hc : ¬ Collision H a.hashLength cks)
    (hs : ¬ (opts.seedOutput = true ∧ SelfCollision H a.hashLength a.config prior)) :
    ∃ content, CloneSetup H a opts prior cks content := by
  let pcs : List Bytes := if opts.seedOutput then chunksOf a.config prior else []
  have hself : ∀ c1 ∈ pcs, ∀ c2 ∈ pcs, ckey H a.hashLength c1 = ckey H a.hashLength c2 → c1 = c2 := by
    by_cases hso : opts.seedOutput = true
    · have : pcs = chunksOf a.config prior := if_pos hso
      rw [this]
      exact self_inj_of_no_selfCollision H a.hashLength a.config prior (fun h => hs ⟨hso, h⟩)
    · have : pcs = [] := if_neg hso
      rw [this]
      intro c1 h1; cases h1
  have hinj := inj_of_no_collision H a.hashLength cks pcs hc hself
  have hcont := contentOf_key (ckey H a.hashLength) (cks ++ pcs) hinj
  refine ⟨contentOf (ckey H a.hashLength) (cks ++ pcs), ?_, good_of_no_collision H a.hashLength cks hc, ?_⟩
  · intro c h
    exact hcont c (List.mem_append_left _ h)
  · intro hso c h
    have : pcs = chunksOf a.config prior := if_pos hso
    exact hcont c (List.mem_append_right _ (this ▸ h))

/-- Keys the scan of the prior output finds (when the output is the seed). -/
def priorKeys (H : Bytes → Bytes) (a : Archive) (opts : CloneOpts) (prior : Bytes) : List Bytes :=
  if opts.seedOutput then chunkKeys H a.config a.hashLength prior else []

section
variable (H : Bytes → Bytes) (a : Archive) (opts : CloneOpts) (prior src : Bytes) (cks : List Bytes)
  (content : Bytes → Bytes)

theorem srcKeys_ne_nil (hd : Describes H a src cks) (hset : CloneSetup H a opts prior cks content) :
    ∀ k ∈ cks.map (ckey H a.hashLength), content k ≠ [] := by
  intro k hk
  obtain ⟨c, hc, rfl⟩ := List.mem_map.1 hk
  rw [hset.src_content c hc]
  exact hd.nonempty c hc

theorem fileOf_srcKeys (hd : Describes H a src cks) (hset : CloneSetup H a opts prior cks content) :
    fileOf content (cks.map (ckey H a.hashLength)) = src := by
  rw [fileOf_map_key _ _ _ hset.src_content, ← hd.tiles]

/-- The state before the seeds. -/
theorem clone_phase1 (hd : Describes H a src cks) (hset : CloneSetup H a opts prior cks content) :
    a.sourceIndex = some (indexOf content (cks.map (ckey H a.hashLength))) ∧
    ∃ st1, cloneSt1 H a opts prior (indexOf content (cks.map (ckey H a.hashLength))) = some st1 ∧
      (∀ k, k ∈ st1.index.keys ↔ (k ∈ cks.map (ckey H a.hashLength) ∧ k ∉ priorKeys H a opts prior)) ∧
      ∀ ks, (∀ k ∈ st1.index.keys, k ∈ ks) →
        resize (feedAll content st1 ks).file src.length = src := by
  have hN := srcKeys_ne_nil H a opts prior src cks content hd hset
  have hfile := fileOf_srcKeys H a opts prior src cks content hd hset
  refine ⟨sourceIndex_eq H a src cks hd content hset.src_content, ?_⟩
  by_cases hso : opts.seedOutput = true
  · have hpc := hset.prior_content hso
    have hscan := scanIndex_eq H a.config hd.valid a.hashLength prior content hpc
    have hprior : fileOf content ((chunksOf a.config prior).map (ckey H a.hashLength)) = prior := by
      rw [fileOf_map_key _ _ _ hpc, chunksOf_flatten a.config hd.valid]
    have hne : ∀ k, k ∈ (chunksOf a.config prior).map (ckey H a.hashLength) ∨
        k ∈ cks.map (ckey H a.hashLength) → content k ≠ [] := by
      rintro k (hk | hk)
      · obtain ⟨c, hc, rfl⟩ := List.mem_map.1 hk
        rw [hpc c hc]
        exact chunksOf_ne_nil a.config hd.valid prior c hc
      · exact hN k hk
    obtain ⟨st1, ret, hre, hkeys, hfeed⟩ := inplace_exact content
      ((chunksOf a.config prior).map (ckey H a.hashLength)) (cks.map (ckey H a.hashLength)) hne
    rw [hprior, ← hscan] at hre
    refine ⟨st1, ?_, ?_, ?_⟩
    · simp only [cloneSt1, hso, if_true, hre, Option.map_some]
    · intro k
      rw [hkeys k, priorKeys, if_pos hso, chunkKeys_eq]
    · intro ks hks
      have := hfeed ks hks
      rwa [hfile] at this
  · refine ⟨⟨prior, indexOf content (cks.map (ckey H a.hashLength)), []⟩, ?_, ?_, ?_⟩
    · unfold cloneSt1; rw [if_neg hso]
    · intro k
      have hp : priorKeys H a opts prior = [] := if_neg hso
      rw [hp]
      simp only [List.not_mem_nil, not_false_eq_true, and_true]
      rw [mem_keys_iff]
      constructor
      · rintro ⟨e, he, rfl⟩
        exact (mem_indexOf content _ hN e he).2
      · intro hk
        exact exists_mem_indexOf content _ hN k hk
    · intro ks hks
      have hall : ∀ k ∈ cks.map (ckey H a.hashLength), k ∈ ks := by
        intro k hk
        apply hks
        obtain ⟨e, he, rfl⟩ := exists_mem_indexOf content _ hN k hk
        exact (mem_keys_iff _ _).2 ⟨e, he, rfl⟩
      have := clone_exact content (cks.map (ckey H a.hashLength)) prior hN ks hall
      rwa [hfile] at this

variable (seeds : List Bytes) (st1 : OutSt Bytes)

theorem goodSt_of_keys (hset : CloneSetup H a opts prior cks content)
    (hkeys : ∀ k ∈ st1.index.keys, k ∈ cks.map (ckey H a.hashLength)) :
    GoodSt (ckey H a.hashLength) content st1 := by
  intro k hk x hx
  obtain ⟨c, hc, rfl⟩ := List.mem_map.1 (hkeys k hk)
  rw [hset.src_content c hc]
  exact hset.good c hc x hx

/-- The seeds. -/
theorem clone_phase2 (hset : CloneSetup H a opts prior cks content)
    (hkeys : ∀ k ∈ st1.index.keys, k ∈ cks.map (ckey H a.hashLength)) :
    cloneSt2 H a seeds st1 =
      feedAll content st1 (seeds.flatMap (chunkKeys H a.config a.hashLength)) :=
  feedSeeds_eq H a.config a.hashLength content seeds st1
    (goodSt_of_keys H a opts prior cks content st1 hset hkeys)

/-- What `Describes` says about every descriptor: its checksum is a source key. -/
theorem descr_key (hH : ∀ x, (H x).length = 64) (hd : Describes H a src cks) :
    ∀ d ∈ a.chunks, d.checksum.length = a.hashLength ∧
      hashTruncate d.checksum a.hashLength = d.checksum ∧
      d.checksum ∈ cks.map (ckey H a.hashLength) := by
  intro d hdm
  obtain ⟨c, hc, _, hk⟩ := hd.used d hdm
  have hlen : d.checksum.length = a.hashLength := by
    rw [hk]; exact length_ckey H hH a.hashLength hd.hash_len.2 c
  refine ⟨hlen, hashTruncate_of_le _ _ (by omega), ?_⟩
  rw [hk]
  exact List.mem_map.2 ⟨c, hc, rfl⟩

/-- Every source key is the checksum of a descriptor. -/
theorem key_descr (hd : Describes H a src cks) :
    ∀ k ∈ cks.map (ckey H a.hashLength), ∃ d ∈ a.chunks, d.checksum = k := by
  intro k hk
  obtain ⟨c, hc, rfl⟩ := List.mem_map.1 hk
  obtain ⟨i, hi, rfl⟩ := List.getElem_of_mem hc
  obtain ⟨j, d, _, hdj, _, hck⟩ := hd.descr i hi
  exact ⟨d, List.mem_of_getElem? hdj, hck⟩

/-- The list handed to `read_chunks`: the descriptors whose key no scan found. -/
theorem fetchList_eq (hH : ∀ x, (H x).length = 64) (hd : Describes H a src cks)
    (hset : CloneSetup H a opts prior cks content)
    (hkeys : ∀ k, k ∈ st1.index.keys ↔ (k ∈ cks.map (ckey H a.hashLength) ∧ k ∉ priorKeys H a opts prior)) :
    a.fetchList (cloneSt2 H a seeds st1).index =
      a.chunks.filter (fun d => !(priorKeys H a opts prior ++
        seeds.flatMap (chunkKeys H a.config a.hashLength)).contains (hashTruncate d.checksum a.hashLength)) := by
  rw [clone_phase2 H a opts prior cks content seeds st1 hset (fun k hk => ((hkeys k).1 hk).1)]
  unfold Archive.fetchList
  apply List.filter_congr
  intro d hdm
  obtain ⟨_, h2, h3⟩ := descr_key H a src cks hH hd d hdm
  rw [h2]
  rw [Bool.eq_iff_iff, contains_iff_mem_keys, keys_feedAll, hkeys]
  simp only [Bool.not_eq_true', List.contains_eq_mem, List.mem_append, decide_eq_false_iff_not, not_or]
  constructor
  · rintro ⟨⟨_, h⟩, h'⟩; exact ⟨h, h'⟩
  · rintro ⟨h, h'⟩; exact ⟨⟨h3, h⟩, h'⟩

/-- The archive phase: a run without error has fed every key the clone index still held. -/
theorem clone_phase3 (hH : ∀ x, (H x).length = 64) (hd : Describes H a src cks)
    (hset : CloneSetup H a opts prior cks content)
    (hkeys : ∀ k ∈ st1.index.keys, k ∈ cks.map (ckey H a.hashLength))
    (decomp : Nat → Bytes → Nat → Option Bytes) (readChunks : List (Nat × Nat) → List (Option Bytes))
    (hitems : ∀ ranges, (readChunks ranges).length = ranges.length) (st3 : OutSt Bytes)
    (h3 : cloneSt3 H decomp readChunks a (cloneSt2 H a seeds st1) = (st3, none)) :
    ∃ ks, st3 = feedAll content st1 ks ∧ ∀ k ∈ st1.index.keys, k ∈ ks := by
  have h2 := clone_phase2 H a opts prior cks content seeds st1 hset hkeys
  have hg1 := goodSt_of_keys H a opts prior cks content st1 hset hkeys
  have hg2 : GoodSt (ckey H a.hashLength) content (cloneSt2 H a seeds st1) := by
    rw [h2]; exact goodSt_feedAll _ _ st1 hg1 _
  have hfetch : ∀ d ∈ a.fetchList (cloneSt2 H a seeds st1).index, d ∈ a.chunks :=
    fun d h => (List.mem_filter.1 h).1
  unfold cloneSt3 at h3
  have hok := feedArchive_ok H decomp a content (a.fetchList (cloneSt2 H a seeds st1).index)
    (readChunks (cloneRanges a (cloneSt2 H a seeds st1))) (cloneSt2 H a seeds st1)
    (by rw [hitems, cloneRanges, List.length_map]; exact Nat.le_refl _) hg2
    (fun d h => (descr_key H a src cks hH hd d (hfetch d h)).1)
    (by rw [h3])
  rw [h3] at hok
  simp only at hok
  refine ⟨seeds.flatMap (chunkKeys H a.config a.hashLength) ++
    (a.fetchList (cloneSt2 H a seeds st1).index).map (fun d => hashTruncate d.checksum a.hashLength),
    ?_, ?_⟩
  · rw [hok, feedAll_append, ← h2]
  · intro k hk
    rw [List.mem_append]
    by_cases hs : k ∈ seeds.flatMap (chunkKeys H a.config a.hashLength)
    · exact Or.inl hs
    · right
      have hk2 : k ∈ (cloneSt2 H a seeds st1).index.keys := by
        rw [h2, keys_feedAll]; exact ⟨hk, hs⟩
      obtain ⟨d, hdm, rfl⟩ := key_descr H a src cks hd k (hkeys k hk)
      have ht := (descr_key H a src cks hH hd d hdm).2.1
      refine List.mem_map.2 ⟨d, ?_, ht⟩
      unfold Archive.fetchList
      rw [List.mem_filter, ht, contains_iff_mem_keys]
      exact ⟨hdm, hk2⟩

end

/-- From the file after all feeds to the output the run reports. -/
theorem cloneOutput_correct (opts : CloneOpts) (a : Archive) (st3 : OutSt Bytes) (src : Bytes)
    (ht : a.sourceTotalSize = src.length) (h : resize st3.file src.length = src) :
    setLen (cloneOutput opts a st3) src.length = src ∧
      (opts.blockDev = false → cloneOutput opts a st3 = src) := by
  have hsl : ∀ f n, setLen f n = resize f n := fun _ _ => rfl
  unfold cloneOutput
  rw [ht]
  by_cases hb : opts.blockDev = true
  · simp only [hb, if_true]
    exact ⟨by rw [hsl, h], fun h' => by cases h'⟩
  · simp only [hb]
    rw [hsl st3.file, h]
    refine ⟨?_, fun _ => rfl⟩
    simp [setLen]

end Bita.Proofs
