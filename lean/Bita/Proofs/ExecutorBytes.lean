/-
  Byte-level facts about `slice`, `writeAt`, `readAt` used by the executor / feed proofs.
-/
import Bita.Model.Output
import Bita.Spec.InPlace

namespace Bita.Proofs.Exec
open Bita Bita.Spec

theorem getElem?_slice (f : Bytes) (a la i : Nat) :
    (slice f a la)[i]? = if i < la then f[a + i]? else none := by
  simp [slice, List.getElem?_take]

theorem length_slice (f : Bytes) (a la : Nat) : (slice f a la).length = min la (f.length - a) := by
  simp [slice]

theorem length_writeAt (f : Bytes) (o : Nat) (b : Bytes) :
    (writeAt f o b).length = max f.length (o + b.length) := by
  simp only [writeAt]
  split <;> simp <;> omega

theorem getElem?_writeAt (f : Bytes) (o : Nat) (b : Bytes) (i : Nat) :
    (writeAt f o b)[i]? =
      if i < o then (if i < f.length then f[i]? else some 0)
      else if i < o + b.length then b[i - o]? else f[i]? := by
  simp only [writeAt]
  split <;> simp [List.getElem?_append, List.getElem?_take, List.getElem?_drop] <;> grind

theorem slice_writeAt_same (f : Bytes) (o : Nat) (b : Bytes) :
    slice (writeAt f o b) o b.length = b := by
  apply List.ext_getElem?
  intro i
  rw [getElem?_slice, getElem?_writeAt]
  by_cases h : i < b.length
  · have h1 : ¬ o + i < o := by omega
    have h2 : o + i < o + b.length := by omega
    have h3 : o + i - o = i := by omega
    simp [h, h1, h2, h3]
  · simp [h]

theorem slice_writeAt_disjoint (f : Bytes) (o : Nat) (b : Bytes) (a la : Nat)
    (h : a + la ≤ o ∨ o + b.length ≤ a) (hin : a + la ≤ f.length) :
    slice (writeAt f o b) a la = slice f a la := by
  apply List.ext_getElem?
  intro i
  rw [getElem?_slice, getElem?_slice, getElem?_writeAt]
  by_cases hi : i < la
  · simp only [hi, if_true]
    rcases h with h | h
    · have : a + i < o := by omega
      have : a + i < f.length := by omega
      simp [*]
    · have : ¬ a + i < o := by omega
      have : ¬ a + i < o + b.length := by omega
      simp [*]
  · simp [hi]

/-- A region that holds `c` keeps holding it across a write to a disjoint region. -/
theorem slice_writeAt_keep (f : Bytes) (o : Nat) (b : Bytes) (a la : Nat) (c : Bytes)
    (hc : slice f a la = c) (hl : c.length = la)
    (h : a + la ≤ o ∨ o + b.length ≤ a) :
    slice (writeAt f o b) a la = c := by
  by_cases h0 : la = 0
  · subst h0; subst hc; simp [slice]
  · rw [slice_writeAt_disjoint f o b a la h, hc]
    have := length_slice f a la
    rw [hc, hl] at this
    omega

theorem slice_add (f : Bytes) (o a b : Nat) :
    slice f o (a + b) = slice f o a ++ slice f (o + a) b := by
  simp [slice, List.take_add]

/-- A region that holds `la` bytes lies inside the file. -/
theorem slice_in_bounds (f : Bytes) (a la : Nat) (c : Bytes)
    (hc : slice f a la = c) (hl : c.length = la) (hne : c ≠ []) : a + la ≤ f.length := by
  have := length_slice f a la
  rw [hc, hl] at this
  have : la ≠ 0 := by
    intro h0; subst h0; exact hne (List.eq_nil_of_length_eq_zero hl)
  omega

theorem readAt_eq (f : Bytes) (a la : Nat) (h : a + la ≤ f.length) :
    readAt f a la = some (slice f a la) := by
  simp [readAt, h]

end Bita.Proofs.Exec
