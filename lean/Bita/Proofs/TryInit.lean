/-
  Theorems about `tryInit`, `banner`, `sourceChunks` (C04 T2, C11 T4, C15 T1/T2).
-/
import Bita.Model.Archive
import Bita.Model.Clone
import Bita.Spec.ArchiveSpec
import Bita.Proofs.ProtoRoundtrip

namespace Bita.Proofs
open Bita Bita.Proto Bita.Spec

/-- The reader contract: `read_at(off, size)` yields exactly `size` bytes, or an error. -/
def ExactReader (read : Nat → Nat → Option Bytes) : Prop :=
  ∀ off size b, read off size = some b → b.length = size

/-- C15 T1: for every reader behaviour within the contract - hence for every byte string behind an
honest reader and every server answer behind the HTTP reader - opening ends in success or a
reported error: no panic branch, no abort branch of the model is reachable. -/
theorem tryInit_total (H : Bytes → Bytes) (features : List Nat) (read : Nat → Nat → Option Bytes)
    (hr : ExactReader read) :
    (∃ a, tryInit H features read = .ok a) ∨ (∃ w, tryInit H features read = .invalid w) ∨
      tryInit H features read = .readerErr := by
  sorry

/-- What an accepted archive guarantees (everything later code relies on). -/
theorem tryInit_ok_facts (H : Bytes → Bytes) (features : List Nat) (read : Nat → Nat → Option Bytes)
    (a : Archive) (h : tryInit H features read = .ok a) :
    configAccepted a.config = true ∧
    (∀ i ∈ a.sourceOrder, i < a.chunks.length) ∧
    (∀ d ∈ a.chunks, 1 ≤ d.archiveSize ∧ d.archiveOffset ≤ usizeMax ∧ d.checksum.length ≤ 64) ∧
    a.headerChecksum.length ≤ 64 := by
  sorry

/-- C15 T2 (banner, index): on an accepted archive the arithmetic of `print_archive` and the
construction of the source index reach no panic branch. -/
theorem accepted_banner_safe (H : Bytes → Bytes) (features : List Nat) (read : Nat → Nat → Option Bytes)
    (a : Archive) (h : tryInit H features read = .ok a) :
    (∃ r, a.banner = .ok r) ∧ (∃ cs, a.sourceChunks = some cs) ∧ (∃ ix, a.sourceIndex = some ix) := by
  sorry

/-- C04 T2: whatever bytes are presented, if they open, then the 64 bytes found where their own
size field says the checksum lies are the strong hash of everything before them; and the header
checksum reported is exactly those bytes. -/
theorem tryInit_checksum (H : Bytes → Bytes) (features : List Nat) (bytes : Bytes) (a : Archive)
    (h : tryInit H features (honestReadAt bytes) = .ok a) :
    ∃ dictSize, dictSize = fromLe ((bytes.drop magicBytes.length).take 8) ∧
      a.headerSize = Gen.preHeaderSize + dictSize + 72 ∧ a.headerSize ≤ bytes.length ∧
      a.headerChecksum = (bytes.drop (Gen.preHeaderSize + dictSize + 8)).take 64 ∧
      a.headerChecksum = H (bytes.take (Gen.preHeaderSize + dictSize + 8)) := by
  sorry

/-- C04 T2, the corruption classes: `b'` is an alteration of a genuine archive `b` that keeps the
size field.  If `b'` still opens then either its whole header region is unchanged, or a second
preimage / collision of the header hash is exhibited, or the alteration also rewrote the
checksum field to the hash of the altered prefix (which any party can do: the checksum is a
hash, not a MAC - this is what `--verify-header` is for). -/
theorem header_tamper (H : Bytes → Bytes) (features : List Nat) (b b' : Bytes) (a a' : Archive)
    (h : tryInit H features (honestReadAt b) = .ok a)
    (h' : tryInit H features (honestReadAt b') = .ok a')
    (hsize : (b'.drop magicBytes.length).take 8 = (b.drop magicBytes.length).take 8) :
    b'.take a.headerSize = b.take a.headerSize ∨
    (∃ p p', p ≠ p' ∧ H p = H p') ∨
    a'.headerChecksum ≠ a.headerChecksum := by
  sorry

/-- ... so with the genuine checksum pinned, an archive that opens and passes the pin has an
unchanged header region (or a collision of the header hash is exhibited). -/
theorem header_pin_sound (H : Bytes → Bytes) (features : List Nat) (b b' : Bytes) (a a' : Archive)
    (h : tryInit H features (honestReadAt b) = .ok a)
    (h' : tryInit H features (honestReadAt b') = .ok a')
    (hpin : a'.headerChecksum = a.headerChecksum) (hH : ∀ x, (H x).length = 64) :
    b'.take a'.headerSize = b.take a.headerSize ∨ (∃ p p', p ≠ p' ∧ H p = H p') := by
  sorry

/-- C11 T4: the reader reports verbatim what the header builder was given. -/
theorem tryInit_buildHeader (H : Bytes → Bytes) (hH : ∀ x, (H x).length = 64) (features : List Nat)
    (d : ChunkDictionary) (hwf : DictWF d) (data : Bytes)
    (p : ChunkerParameters) (c : ChunkCompression) (cfg : Config) (compr : Compr)
    (hp : d.chunkerParams = some p) (hc : d.chunkCompression = some c)
    (hcfg : configFromParams p = .ok cfg) (hcompr : compressionFromDict features c = .ok compr)
    (hord : ∀ i ∈ d.rebuildOrder, i < d.chunkDescriptors.length)
    (hsz : ∀ cd ∈ d.chunkDescriptors, 1 ≤ cd.archiveSize)
    (hoff : ∀ cd ∈ d.chunkDescriptors, (buildHeader H d none).length + cd.archiveOffset ≤ usizeMax)
    (hlen : (encodeDictionary d).length + 72 ≤ usizeMax) :
    ∃ a, tryInit H features (honestReadAt (buildHeader H d none ++ data)) = .ok a ∧
      a.config = cfg ∧ a.hashLength = p.chunkHashLength ∧ a.compression = compr ∧
      a.metadata = d.metadata ∧ a.version = d.applicationVersion ∧
      a.sourceTotalSize = d.sourceTotalSize ∧
      a.sourceChecksum = hashTruncate d.sourceChecksum 64 ∧
      a.sourceOrder = d.rebuildOrder ∧
      a.headerSize = (buildHeader H d none).length ∧
      a.chunkDataOffset = (buildHeader H d none).length ∧
      a.chunks = d.chunkDescriptors.map (fun cd =>
        ⟨hashTruncate cd.checksum 64, cd.archiveSize, (buildHeader H d none).length + cd.archiveOffset, cd.sourceSize⟩) := by
  sorry

end Bita.Proofs
