/-
  Theorems about `tryInit`, `banner`, `sourceChunks` (C04 T2, C11 T4, C15 T1/T2).
-/
import Bita.Model.Archive
import Bita.Model.Clone
import Bita.Spec.ArchiveSpec
import Bita.Proofs.ProtoRoundtrip
import Bita.Proofs.TryInitLemmas
import Bita.Proofs.Accepted

namespace Bita.Proofs
open Bita Bita.Proto Bita.Spec

/-- The reader contract: `read_at(off, size)` yields exactly `size` bytes, or an error. -/
def ExactReader (read : Nat → Nat → Option Bytes) : Prop :=
  ∀ off size b, read off size = some b → b.length = size

/-- C15 T1: for every reader behaviour within the contract - hence for every byte string behind an
honest reader and every server answer behind the HTTP reader - opening ends in success or a
reported error: no panic branch, no abort branch of the model is reachable. -/
theorem tryInit_total (H : Bytes → Bytes) (features : List Nat) (read : Nat → Nat → Option Bytes)
    (hr : ExactReader read) :
    (∃ a, tryInit H features read = .ok a) ∨ (∃ w, tryInit H features read = .invalid w) ∨
      tryInit H features read = .readerErr :=
  tryInit_total_aux H features read hr _ rfl

/-- What an accepted archive guarantees (everything later code relies on). -/
theorem tryInit_ok_facts (H : Bytes → Bytes) (features : List Nat) (read : Nat → Nat → Option Bytes)
    (a : Archive) (h : tryInit H features read = .ok a) :
    configAccepted a.config = true ∧
    (∀ i ∈ a.sourceOrder, i < a.chunks.length) ∧
    (∀ d ∈ a.chunks, 1 ≤ d.archiveSize ∧ d.archiveOffset + d.archiveSize ≤ usizeMax ∧ d.checksum.length ≤ 64) ∧
    a.headerChecksum.length ≤ 64 ∧
    (1 ≤ a.hashLength ∧ a.hashLength ≤ 64) ∧
    (a.sourceOrder.map fun i => ((a.chunks[i]?).map (·.sourceSize)).getD 0).sum = a.sourceTotalSize := by
  obtain ⟨pre, rest, dict, params, cc, compr, cfg, w, rfl⟩ := tryInit_ok_inv h
  refine ⟨configFromParams_ok w.hcfg, ?_, ?_, ?_, w.hhash, ?_⟩
  rotate_left 3
  · simp only [tiArchive]
    rw [tiSum_map _ _ (fun _ => rfl)]
    exact w.hsum
  · intro i hi
    simpa [tiArchive] using w.hord i hi
  · intro d hd
    simp only [tiArchive, List.mem_map] at hd
    obtain ⟨cd, hcd, rfl⟩ := hd
    refine ⟨?_, w.hoff cd hcd, hashTruncate_length_le _ _⟩
    have := w.hsz cd hcd
    dsimp only
    omega
  · simp only [tiArchive, List.length_take]
    omega

/-- C15 T2 (banner, index): on an accepted archive the arithmetic of `print_archive` and the
construction of the source index reach no panic branch. -/
theorem accepted_banner_safe (H : Bytes → Bytes) (features : List Nat) (read : Nat → Nat → Option Bytes)
    (a : Archive) (h : tryInit H features read = .ok a) :
    (∃ r, a.banner = .ok r) ∧ (∃ cs, a.sourceChunks = some cs) ∧ (∃ ix, a.sourceIndex = some ix) := by
  obtain ⟨hcfg, hord, -, -, -, -⟩ := tryInit_ok_facts H features read a h
  have hsc : ∃ cs, a.sourceChunks = some cs := sourceChunks_some a hord
  refine ⟨?_, hsc, ?_⟩
  · unfold Archive.banner
    cases hc : a.config with
    | fixed n => simp
    | buzhash f =>
      rw [hc] at hcfg
      simp only [configAccepted, decide_eq_true_eq] at hcfg
      dsimp only
      rw [if_neg (by omega), if_neg (by omega), if_neg (by omega)]
      simp
    | rollsum f =>
      rw [hc] at hcfg
      simp only [configAccepted, decide_eq_true_eq] at hcfg
      dsimp only
      rw [if_neg (by omega), if_neg (by omega), if_neg (by omega)]
      simp
  · obtain ⟨cs, hcs⟩ := hsc
    unfold Archive.sourceIndex
    rw [hcs]
    exact ⟨_, rfl⟩

/-- C04 T2: whatever bytes are presented, if they open, then the 64 bytes found where their own
size field says the checksum lies are the strong hash of everything before them; and the header
checksum reported is exactly those bytes. -/
theorem tryInit_checksum (H : Bytes → Bytes) (features : List Nat) (bytes : Bytes) (a : Archive)
    (h : tryInit H features (honestReadAt bytes) = .ok a) :
    ∃ dictSize, dictSize = fromLe ((bytes.drop magicBytes.length).take 8) ∧
      a.headerSize = Gen.preHeaderSize + dictSize + 72 ∧ a.headerSize ≤ bytes.length ∧
      a.headerChecksum = (bytes.drop (Gen.preHeaderSize + dictSize + 8)).take 64 ∧
      a.headerChecksum = H (bytes.take (Gen.preHeaderSize + dictSize + 8)) := by
  obtain ⟨pre, rest, dict, params, cc, compr, cfg, w, rfl⟩ := tryInit_ok_inv h
  obtain ⟨hds, hlen, hhdr⟩ := tiOk_honest w
  have hck := w.hck
  refine ⟨tiDictSize pre, hds, ?_, ?_, ?_, ?_⟩
  · simp only [tiArchive, hhdr, List.length_take]; omega
  · simp only [tiArchive, hhdr, List.length_take]; omega
  · simp only [tiArchive, hhdr, List.drop_take, List.take_take]
    congr 1; omega
  · simp only [tiArchive]
    rw [hck, hhdr, List.take_take]
    congr 2; omega

/-- C04 T2, the corruption classes: `b'` is an alteration of a genuine archive `b` that keeps the
size field.  If `b'` still opens then either its whole header region is unchanged, or a second
preimage / collision of the header hash is exhibited, or the alteration also rewrote the
checksum field to the hash of the altered prefix (which any party can do: the checksum is a
hash, not a MAC - this is what `--verify-header` is for). -/
theorem header_tamper (H : Bytes → Bytes) (features : List Nat) (b b' : Bytes) (a a' : Archive)
    (h : tryInit H features (honestReadAt b) = .ok a)
    (h' : tryInit H features (honestReadAt b') = .ok a')
    (hsize : (b'.drop magicBytes.length).take 8 = (b.drop magicBytes.length).take 8) :
    b'.take a.headerSize = b.take a.headerSize ∨
    (∃ p p', p ≠ p' ∧ H p = H p') ∨
    a'.headerChecksum ≠ a.headerChecksum := by
  obtain ⟨ds, hds, hhs, hle, hc1, hc2⟩ := tryInit_checksum H features b a h
  obtain ⟨ds', hds', hhs', hle', hc1', hc2'⟩ := tryInit_checksum H features b' a' h'
  have hdd : ds' = ds := by rw [hds, hds', hsize]
  subst hdd
  by_cases hc : a'.headerChecksum = a.headerChecksum
  · by_cases hp : b'.take (Gen.preHeaderSize + ds' + 8) = b.take (Gen.preHeaderSize + ds' + 8)
    · left
      rw [hhs, take_header_split, take_header_split, hp, ← hc1, ← hc1', hc]
    · right; left
      exact ⟨_, _, hp, by rw [← hc2, ← hc2', hc]⟩
  · right; right; exact hc

set_option linter.unusedVariables false in
/-- ... so with the genuine checksum pinned, an archive that opens and passes the pin has an
unchanged header region (or a collision of the header hash is exhibited). -/
theorem header_pin_sound (H : Bytes → Bytes) (features : List Nat) (b b' : Bytes) (a a' : Archive)
    (h : tryInit H features (honestReadAt b) = .ok a)
    (h' : tryInit H features (honestReadAt b') = .ok a')
    (hpin : a'.headerChecksum = a.headerChecksum) (hH : ∀ x, (H x).length = 64) :
    b'.take a'.headerSize = b.take a.headerSize ∨ (∃ p p', p ≠ p' ∧ H p = H p') := by
  obtain ⟨ds, hds, hhs, hle, hc1, hc2⟩ := tryInit_checksum H features b a h
  obtain ⟨ds', hds', hhs', hle', hc1', hc2'⟩ := tryInit_checksum H features b' a' h'
  by_cases hp : b'.take (Gen.preHeaderSize + ds' + 8) = b.take (Gen.preHeaderSize + ds + 8)
  · left
    have hl := congrArg List.length hp
    simp only [List.length_take] at hl
    have hdd : ds' = ds := by omega
    subst hdd
    rw [hhs, hhs', take_header_split, take_header_split, hp, ← hc1, ← hc1', hpin]
  · right
    exact ⟨_, _, hp, by rw [← hc2, ← hc2', hpin]⟩

/-- The bytes `buildHeader` writes pass every guard of `tryInit`. -/
theorem bh_tiOk (H : Bytes → Bytes) (hH : ∀ x, (H x).length = 64) (features : List Nat)
    (d : ChunkDictionary) (hwf : DictWF d) (data : Bytes)
    (p : ChunkerParameters) (c : ChunkCompression) (cfg : Config) (compr : Compr)
    (hp : d.chunkerParams = some p) (hc : d.chunkCompression = some c)
    (hcfg : configFromParams p = .ok cfg) (hcompr : compressionFromDict features c = .ok compr)
    (hord : ∀ i ∈ d.rebuildOrder, i < d.chunkDescriptors.length)
    (hhash : 1 ≤ p.chunkHashLength ∧ p.chunkHashLength ≤ 64)
    (hsum : (d.rebuildOrder.map fun i => ((d.chunkDescriptors[i]?).map (·.sourceSize)).getD 0).sum =
      d.sourceTotalSize)
    (hsz : ∀ cd ∈ d.chunkDescriptors, 1 ≤ cd.archiveSize)
    (hoff : ∀ cd ∈ d.chunkDescriptors, (buildHeader H d none).length + cd.archiveOffset + cd.archiveSize ≤ usizeMax)
    (hlen : (encodeDictionary d).length + 86 ≤ usizeMax) :
    TiOk H features (honestReadAt (buildHeader H d none ++ data)) (bhPre d) (bhRest H d) d p c compr cfg := by
  have hu : usizeMax = 2 ^ 64 - 1 := rfl
  have hps : Gen.preHeaderSize = 14 := rfl
  have hds := bh_dictSize d (by omega)
  have hcdo := bh_cdo H d (by omega)
  have hrl : (bhRest H d).length = (encodeDictionary d).length + 72 := by
    simp [bhRest, le64_length, hH]
  have hbytes : buildHeader H d none ++ data = bhPre d ++ (bhRest H d ++ data) := by
    rw [buildHeader_eq, List.append_assoc]
  refine ⟨?_, ?_, ?_, ?_, by rw [hds, hps]; omega, ?_, ?_, ?_, ?_, ?_, ?_, hp, hhash, hord, hsum, hc, hcompr, hcfg⟩
  · unfold honestReadAt slice
    rw [if_pos (by rw [hbytes]; simp [bhPre_length, hps]), hbytes, List.drop_zero,
      List.take_left' (by rw [bhPre_length, hps])]
  · left
    unfold bhPre
    rw [List.take_left]
  · rw [bhPre_length, hps]; omega
  · omega
  · unfold honestReadAt slice
    rw [hds, if_pos (by rw [hbytes]; simp [bhPre_length, hps, hrl]), hbytes,
      List.drop_left' (by rw [bhPre_length, hps]), List.take_left' hrl]
  · rw [List.length_append, bhPre_length, hrl, hds, hps]; omega
  · rw [hds, buildHeader_eq_body, List.drop_left' (by rw [bhBody_length, hps]),
      List.take_left' (by rw [bhBody_length, hps]), List.take_of_length_le (Nat.le_of_eq (hH _))]
  · rw [hds, List.drop_left' (by rw [bhPre_length, hps])]
    unfold bhRest
    rw [List.append_assoc, List.take_left]
    exact proto_roundtrip d hwf
  · intro cd hcd
    rw [hcdo, ← buildHeader_length H hH d]
    exact hoff cd hcd
  · intro cd hcd
    have := hsz cd hcd
    omega

/-- C11 T4: the reader reports verbatim what the header builder was given. -/
theorem tryInit_buildHeader (H : Bytes → Bytes) (hH : ∀ x, (H x).length = 64) (features : List Nat)
    (d : ChunkDictionary) (hwf : DictWF d) (data : Bytes)
    (p : ChunkerParameters) (c : ChunkCompression) (cfg : Config) (compr : Compr)
    (hp : d.chunkerParams = some p) (hc : d.chunkCompression = some c)
    (hcfg : configFromParams p = .ok cfg) (hcompr : compressionFromDict features c = .ok compr)
    (hord : ∀ i ∈ d.rebuildOrder, i < d.chunkDescriptors.length)
    (hhash : 1 ≤ p.chunkHashLength ∧ p.chunkHashLength ≤ 64)
    (hsum : (d.rebuildOrder.map fun i => ((d.chunkDescriptors[i]?).map (·.sourceSize)).getD 0).sum =
      d.sourceTotalSize)
    (hsz : ∀ cd ∈ d.chunkDescriptors, 1 ≤ cd.archiveSize)
    (hoff : ∀ cd ∈ d.chunkDescriptors, (buildHeader H d none).length + cd.archiveOffset + cd.archiveSize ≤ usizeMax)
    (hlen : (encodeDictionary d).length + 86 ≤ usizeMax) :
    ∃ a, tryInit H features (honestReadAt (buildHeader H d none ++ data)) = .ok a ∧
      a.config = cfg ∧ a.hashLength = p.chunkHashLength ∧ a.compression = compr ∧
      a.metadata = d.metadata ∧ a.version = d.applicationVersion ∧
      a.sourceTotalSize = d.sourceTotalSize ∧
      a.sourceChecksum = hashTruncate d.sourceChecksum 64 ∧
      a.sourceOrder = d.rebuildOrder ∧
      a.headerSize = (buildHeader H d none).length ∧
      a.chunkDataOffset = (buildHeader H d none).length ∧
      a.chunks = d.chunkDescriptors.map (fun cd =>
        ⟨hashTruncate cd.checksum 64, cd.archiveSize, (buildHeader H d none).length + cd.archiveOffset, cd.sourceSize⟩) := by
  have w := bh_tiOk H hH features d hwf data p c cfg compr hp hc hcfg hcompr hord hhash hsum hsz hoff hlen
  have hu : usizeMax = 2 ^ 64 - 1 := rfl
  have hcdo := bh_cdo H d (by omega)
  have hbl := buildHeader_length H hH d
  refine ⟨_, tryInit_ok_of w, rfl, rfl, rfl, rfl, rfl, rfl, rfl, rfl, ?_, ?_, ?_⟩
  · simp only [tiArchive]; rw [← buildHeader_eq]
  · simp only [tiArchive]; rw [hcdo, hbl]
  · simp only [tiArchive]; rw [hcdo, hbl]; rfl

end Bita.Proofs
