/-
  Non-vacuity of `cli_roundtrip`: a closed, kernel-checked run of `bita compress` followed by
  `bita clone` on a concrete file system (toy hash, identity codec, fixed-size chunking).
-/
import Bita.Proofs.CliRoundtrip

namespace Bita.Proofs.CliRoundtripExamples
open Bita Bita.Proofs

def toyH (x : Bytes) : Bytes := (x ++ List.replicate 64 0).take 64

def src : Bytes := [1, 2, 3, 1, 2, 3, 9]
def fs0 : Fs := [("in", .regular src), ("seed", .regular [1, 2, 3, 7])]
def cc : CompressCmd := ⟨⟨false, false, false⟩, "in", "d/out.cba", "d/out..tmp", ⟨.fixed 3, 8, none, []⟩⟩
/-- clone into a path that does not exist, no flags, no seeds -/
def kc : CloneCmd := ⟨⟨false, false, false⟩, none, "out", "d/out.cba", []⟩
/-- clone over the seed file itself (`--seed-output --verify-output`), with the input and the
archive as further seeds -/
def kc2 : CloneCmd := ⟨⟨false, true, true⟩, none, "seed", "d/out.cba", ["in", "d/out.cba", "seed"]⟩

/-- compress succeeds; clone of the archive it left succeeds, the new path holds the source and
the file system is the initial one plus the archive and the output. -/
example :
    (Cli.compress toyH id cc fs0).ok = true ∧
    (Cli.clone toyH (fun _ b _ => some b) kc (Cli.compress toyH id cc fs0).fs).ok = true ∧
    (Cli.clone toyH (fun _ b _ => some b) kc (Cli.compress toyH id cc fs0).fs).fs.get "out"
      = some (.regular src) ∧
    (Cli.clone toyH (fun _ b _ => some b) kc (Cli.compress toyH id cc fs0).fs).fs.map (·.1)
      = ["in", "seed", "d/out.cba", "out"] ∧
    (Cli.clone toyH (fun _ b _ => some b) kc (Cli.compress toyH id cc fs0).fs).fs.get "in"
      = some (.regular src) := by
  decide +kernel

/-- the second disjunct of `hout`: an existing regular output, rebuilt in place, with seeds that
include the output path and the archive itself. -/
example :
    (Cli.clone toyH (fun _ b _ => some b) kc2 (Cli.compress toyH id cc fs0).fs).ok = true ∧
    (Cli.clone toyH (fun _ b _ => some b) kc2 (Cli.compress toyH id cc fs0).fs).fs.get "seed"
      = some (.regular src) := by
  decide +kernel

/-- The hypotheses of `cli_roundtrip` that concern the file system hold for these values. -/
example :
    fs0.get cc.input = some (.regular src) ∧ fs0.get cc.output = none ∧ fs0.get cc.temp = none ∧
    (cc.temp ≠ cc.output ∧ cc.input ≠ cc.output ∧ cc.input ≠ cc.temp) ∧
    kc.archivePath = cc.output ∧ kc.output ≠ cc.output ∧ fs0.get kc.output = none ∧
    kc2.archivePath = cc.output ∧ kc2.output ≠ cc.output ∧
    (kc2.flags.seedOutput = true ∧ fs0.get kc2.output = some (.regular [1, 2, 3, 7])) ∧
    (∀ p ∈ kc2.seedPaths, (fs0.get p).isSome ∨ p = cc.output) := by
  decide +kernel

end Bita.Proofs.CliRoundtripExamples
