/-
  Pieces of the writer pipeline (`Bita.dictionaryOf`): the descriptor fold, the stored-bytes
  rule, what is known about the source chunks, and the projections of the dictionary.
-/
import Bita.Model.Compress
import Bita.Spec.Tiling
import Bita.Proofs.ChunkRule
import Bita.Proofs.SpecChunks
import Bita.Proofs.WriterDedup

namespace Bita.Proofs.WriterDescr
open Bita Bita.Proto Bita.Spec

/-! ### The descriptor fold -/

/-- `descriptorsOf` on `uniq` and `uniq.map f`, as a structural recursion. -/
def descrFrom (H : Bytes → Bytes) (hashLen : Nat) (f : Bytes → Bytes) : Nat → List Bytes → List ChunkDescriptor
  | _, [] => []
  | off, u :: us =>
    { checksum := hashTruncate (H u) hashLen, archiveSize := (f u).length, archiveOffset := off,
      sourceSize := u.length } :: descrFrom H hashLen f (off + (f u).length) us

theorem descr_foldl (H : Bytes → Bytes) (hashLen : Nat) (f : Bytes → Bytes) (us : List Bytes) :
    ∀ (acc : List ChunkDescriptor × Nat),
      ((us.zip (us.map f)).foldl (fun (acc : List ChunkDescriptor × Nat) e =>
        (acc.1 ++ [{ checksum := hashTruncate (H e.1) hashLen, archiveSize := e.2.length,
                     archiveOffset := acc.2, sourceSize := e.1.length }], acc.2 + e.2.length)) acc).1
      = acc.1 ++ descrFrom H hashLen f acc.2 us := by
  induction us with
  | nil => intro acc; simp [descrFrom]
  | cons u us ih =>
    intro acc
    simp only [List.map_cons, List.zip_cons_cons, List.foldl_cons]
    rw [ih]
    simp [descrFrom]

theorem descriptorsOf_eq (H : Bytes → Bytes) (hashLen : Nat) (f : Bytes → Bytes) (us : List Bytes) :
    descriptorsOf H hashLen us (us.map f) = descrFrom H hashLen f 0 us := by
  unfold descriptorsOf
  rw [descr_foldl]
  simp

theorem descrFrom_length (H : Bytes → Bytes) (hashLen : Nat) (f : Bytes → Bytes) (us : List Bytes) :
    ∀ off, (descrFrom H hashLen f off us).length = us.length := by
  induction us with
  | nil => intro off; rfl
  | cons u us ih => intro off; simp [descrFrom, ih]

theorem descrFrom_getElem (H : Bytes → Bytes) (hashLen : Nat) (f : Bytes → Bytes) (us : List Bytes) :
    ∀ off i (hi : i < us.length) (hi' : i < (descrFrom H hashLen f off us).length),
      (descrFrom H hashLen f off us)[i] =
        { checksum := hashTruncate (H us[i]) hashLen, archiveSize := (f us[i]).length,
          archiveOffset := off + ((us.take i).map (fun u => (f u).length)).sum,
          sourceSize := us[i].length } := by
  induction us with
  | nil => intro off i hi; simp at hi
  | cons u us ih =>
    intro off i hi hi'
    cases i with
    | zero => simp [descrFrom]
    | succ i =>
      simp only [descrFrom, List.getElem_cons_succ]
      rw [ih _ i (by simpa using hi)]
      simp [Nat.add_assoc]

theorem descrFrom_archiveSize (H : Bytes → Bytes) (hashLen : Nat) (f : Bytes → Bytes) (us : List Bytes) :
    ∀ off, (descrFrom H hashLen f off us).map (·.archiveSize) = us.map (fun u => (f u).length) := by
  induction us with
  | nil => intro off; rfl
  | cons u us ih => intro off; simp [descrFrom, ih]

/-- Sum of the first `i` stored sizes, in terms of the unique chunks. -/
theorem descrFrom_running (H : Bytes → Bytes) (hashLen : Nat) (f : Bytes → Bytes) (us : List Bytes)
    (off i : Nat) :
    (((descrFrom H hashLen f off us).take i).map (·.archiveSize)).sum =
      ((us.take i).map (fun u => (f u).length)).sum := by
  rw [List.map_take, descrFrom_archiveSize, ← List.map_take]

theorem sum_stored (f : Bytes → Bytes) (us : List Bytes) :
    (us.map (fun u => (f u).length)).sum = (us.map f).flatten.length := by
  rw [List.length_flatten, List.map_map]; rfl

/-! ### The stored-bytes rule -/

/-- Either the chunk itself is stored, or its compressed form, which is then strictly shorter
(for both writers, as the rules read in `Gen.Facts`). -/
theorem storedBytes_cases (writer : String) (comp : Bytes → Bytes) (c : Bytes) :
    storedBytes writer comp c = c ∨
    (storedBytes writer comp c = comp c ∧ (comp c).length < c.length) := by
  unfold storedBytes
  simp only
  split
  · rename_i h
    right
    refine ⟨rfl, ?_⟩
    unfold storeCompressed at h
    simp only [Gen.libStoreCompressedIf, Gen.cliStoreRawIf] at h
    split at h
    · simpa using h
    · simp at h; omega
  · left; rfl

theorem storedBytes_id (writer : String) (c : Bytes) : storedBytes writer id c = c := by
  rcases storedBytes_cases writer id c with h | ⟨h, -⟩
  · exact h
  · exact h

theorem storedBytes_length_le (writer : String) (comp : Bytes → Bytes) (c : Bytes) :
    (storedBytes writer comp c).length ≤ c.length := by
  rcases storedBytes_cases writer comp c with h | ⟨h, hl⟩
  · rw [h]; exact Nat.le_refl _
  · rw [h]; omega

/-! ### The source chunks -/

theorem tiles_mem (cs : List (Nat × Nat)) : ∀ s e, Tiles cs s e →
    ∀ c ∈ cs, s ≤ c.1 ∧ 1 ≤ c.2 ∧ c.1 + c.2 ≤ e := by
  induction cs with
  | nil => intro s e _ c hc; simp at hc
  | cons a cs ih =>
    intro s e h c hc
    obtain ⟨o, l⟩ := a
    simp only [Tiles] at h
    obtain ⟨ho, hl, ht⟩ := h
    have hle : s + l ≤ e := by
      cases cs with
      | nil => simp only [Tiles] at ht; omega
      | cons b cs =>
        have := ih _ _ ht b (by simp)
        omega
    rcases List.mem_cons.mp hc with rfl | hc
    · simp only; omega
    · have := ih _ _ ht c hc
      omega

/-- Upper bound on every chunk length (the last chunk included). -/
def maxChunk : Config → Nat
  | .buzhash f => f.maxSize
  | .rollsum f => f.maxSize
  | .fixed n => n

theorem specCut_none (algo : Algo) (f : FilterConfig) (data : Bytes) (s : Nat)
    (h : specCut algo f data s = none) : data.length - s < f.maxSize := by
  unfold specCut at h
  simp only at h
  split at h
  · cases h
  · split at h
    · cases h
    · omega

theorem specChunksFrom_le (algo : Algo) (f : FilterConfig) (hv : f.Sane) (data : Bytes) :
    ∀ k s, ∀ c ∈ specChunksFrom algo f data k s, c.2 ≤ f.maxSize := by
  intro k
  induction k with
  | zero => intro s c h; simp [specChunksFrom] at h
  | succ k ih =>
    intro s c h
    unfold specChunksFrom at h
    split at h
    · simp at h
    · rename_i hs
      split at h
      · rename_i L hL
        split at h
        · simp at h
        · rcases List.mem_cons.mp h with rfl | h
          · exact (SpecChunks.specCut_bounds algo f data s L hv (by omega) hL).2.1
          · exact ih _ c h
      · rename_i hN
        simp only [List.mem_singleton] at h
        subst h
        have := specCut_none algo f data s hN
        simp only; omega

theorem fixedChunksFrom_le (n len : Nat) :
    ∀ k s, ∀ c ∈ fixedChunksFrom n len k s, c.2 ≤ n := by
  intro k
  induction k with
  | zero => intro s c h; simp [fixedChunksFrom] at h
  | succ k ih =>
    intro s c h
    unfold fixedChunksFrom at h
    split at h
    · simp at h
    · split at h
      · split at h
        · simp at h
        · rcases List.mem_cons.mp h with rfl | h
          · exact Nat.le_refl _
          · exact ih _ c h
      · simp only [List.mem_singleton] at h
        subst h
        simp only; omega

theorem specChunks_le (cfg : Config) (hv : cfg.Valid) (data : Bytes) :
    ∀ c ∈ specChunks cfg data, c.2 ≤ maxChunk cfg := by
  cases cfg with
  | rollsum f => exact specChunksFrom_le .roll f (FilterConfig.Sane_of_ValidRoll hv) data _ _
  | buzhash f => exact specChunksFrom_le .buz f (FilterConfig.Sane_of_Valid hv) data _ _
  | fixed n => exact fixedChunksFrom_le n data.length _ _

/-- The byte strings of the source chunks. -/
def srcChunks (cfg : Config) (src : Bytes) : List Bytes :=
  (chunkAll cfg src).map fun c => slice src c.1 c.2

theorem srcChunks_flatten (cfg : Config) (hv : cfg.Valid) (src : Bytes) :
    (srcChunks cfg src).flatten = src := by
  unfold srcChunks
  rw [chunkAll_eq_specChunks cfg hv, tiles_concat src _ 0 (specChunks_tile cfg hv src)]
  rfl

theorem srcChunks_mem (cfg : Config) (hv : cfg.Valid) (src : Bytes) :
    ∀ x ∈ srcChunks cfg src, 1 ≤ x.length ∧ x.length ≤ maxChunk cfg := by
  intro x hx
  unfold srcChunks at hx
  obtain ⟨c, hc, rfl⟩ := List.mem_map.mp hx
  rw [chunkAll_eq_specChunks cfg hv] at hc
  obtain ⟨-, h1, h2⟩ := tiles_mem _ _ _ (specChunks_tile cfg hv src) c hc
  have h3 := specChunks_le cfg hv src c hc
  have : (slice src c.1 c.2).length = c.2 := by
    simp only [slice, List.length_take, List.length_drop]; omega
  omega

theorem srcChunks_sum (cfg : Config) (hv : cfg.Valid) (src : Bytes) :
    ((srcChunks cfg src).map List.length).sum = src.length := by
  rw [← List.length_flatten, srcChunks_flatten cfg hv]

theorem srcChunks_inj (H : Bytes → Bytes) (cfg : Config) (src : Bytes)
    (hinj : ∀ c1 ∈ chunkAll cfg src, ∀ c2 ∈ chunkAll cfg src,
      H (slice src c1.1 c1.2) = H (slice src c2.1 c2.2) → slice src c1.1 c1.2 = slice src c2.1 c2.2) :
    ∀ x ∈ srcChunks cfg src, ∀ y ∈ srcChunks cfg src, H x = H y → x = y := by
  intro x hx y hy h
  obtain ⟨c1, h1, rfl⟩ := List.mem_map.mp hx
  obtain ⟨c2, h2, rfl⟩ := List.mem_map.mp hy
  exact hinj c1 h1 c2 h2 h

theorem sum_map_pointwise {α β : Type} (l1 : List α) (l2 : List β) (f : α → Nat) (g : β → Nat)
    (hlen : l1.length = l2.length)
    (h : ∀ i (h1 : i < l1.length) (h2 : i < l2.length), f l1[i] = g l2[i]) :
    (l1.map f).sum = (l2.map g).sum := by
  have : l1.map f = l2.map g := by
    apply List.ext_getElem (by simp [hlen])
    intro i h1 h2
    simp only [List.getElem_map]
    exact h i (by simpa using h1) (by simpa using h2)
  rw [this]

/-! ### Projections of `dictionaryOf` -/

/-- The codec actually applied. -/
def codecOf (o : CompressOpts) (comp : Bytes → Bytes) : Bytes → Bytes :=
  if o.compression.isSome then comp else id

section
variable (H : Bytes → Bytes) (writer : String) (comp : Bytes → Bytes) (o : CompressOpts) (src : Bytes)

theorem dict_stored :
    (dictionaryOf H writer comp o src).2 = (dedup H (srcChunks o.cfg src)).1.map (storedBytes writer (codecOf o comp)) := rfl

theorem dict_order : (dictionaryOf H writer comp o src).1.rebuildOrder = (dedup H (srcChunks o.cfg src)).2 := rfl

theorem dict_descr : (dictionaryOf H writer comp o src).1.chunkDescriptors =
    descrFrom H o.hashLen (storedBytes writer (codecOf o comp)) 0 (dedup H (srcChunks o.cfg src)).1 := by
  rw [← descriptorsOf_eq]; rfl

theorem dict_total : (dictionaryOf H writer comp o src).1.sourceTotalSize = src.length := rfl
theorem dict_checksum : (dictionaryOf H writer comp o src).1.sourceChecksum = H src := rfl
theorem dict_params : (dictionaryOf H writer comp o src).1.chunkerParams = some (paramsOf o.cfg o.hashLen) := rfl
theorem dict_meta : (dictionaryOf H writer comp o src).1.metadata = o.metadata := rfl
theorem dict_version :
    (dictionaryOf H writer comp o src).1.applicationVersion = Gen.pkgVersion.toUTF8.toList := rfl
theorem dict_compr : (dictionaryOf H writer comp o src).1.chunkCompression =
    some (match o.compression with
      | some (c, l) => ⟨c, l⟩
      | none => ⟨Gen.enum_CompressionType_NONE, 0⟩) := rfl

theorem createArchive_eq : createArchive H writer comp o src =
    buildHeader H (dictionaryOf H writer comp o src).1 none ++ (dictionaryOf H writer comp o src).2.flatten := rfl

end

end Bita.Proofs.WriterDescr
