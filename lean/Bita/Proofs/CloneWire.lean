/-
  C06 ∘ C07 at the level of a whole clone over HTTP: what goes over the wire.
-/
import Bita.Model.ReaderEnv
import Bita.Spec.Runs
import Bita.Spec.ArchiveSpec
import Bita.Proofs.Http
import Bita.Proofs.CloneSound
import Bita.Proofs.CloneNoJunk
import Bita.Proofs.ReaderEnv
import Bita.Proofs.ReaderEnvLemmas

namespace Bita.Proofs
open Bita Bita.Spec

/-- The descriptors a clone still lacks after scanning the prior output (in place) and the seeds,
as stored ranges in descriptor order. -/
def missingRanges (H : Bytes → Bytes) (a : Archive) (opts : CloneOpts) (prior : Bytes) (seeds : List Bytes) :
    List ChunkOffset :=
  (a.chunks.filter (fun d =>
    !(foundKeys H a opts prior seeds).contains (hashTruncate d.checksum a.hashLength))).map
    fun d => (⟨d.archiveOffset, d.archiveSize⟩ : ChunkOffset)

/-- An honest server, no transfer failure (every response complete, in any fragmentation): the
range requests of a successful clone, in the order they are sent, are one for the pre-header, one
for the rest of the header, and then one per maximal run of adjacent missing chunks. -/
theorem clone_http_wire (H : Bytes → Bytes) (hH : ∀ x, (H x).length = 64)
    (decomp : Nat → Bytes → Nat → Option Bytes) (features : List Nat)
    (archive : Bytes) (e : HttpEnv) (opts : CloneOpts) (prior : Bytes) (seeds : List Bytes)
    (a : Archive) (src : Bytes) (cks : List Bytes)
    (hserve : e.serve = honestServe archive)
    (hat : ∀ off size, ∃ frags rest, e.atScript off size = Resp.full frags :: rest)
    (hinit : tryInit H features (honestReadAt archive) = .ok a) (hd : Describes H a src cks)
    (hs : Stored H decomp a archive)
    (hfull : ∀ r ∈ e.chunksScript, ∃ frags, r = Resp.full frags)
    (hlen : a.chunks.length ≤ e.chunksScript.length) :
    let r := Clone.run H decomp features e.readAt e.readChunks opts prior seeds
    r.result = .ok →
      r.requests.flatMap e.wire =
        [(0, Gen.preHeaderSize), (Gen.preHeaderSize, a.headerSize - Gen.preHeaderSize)] ++
          (maximalRuns (missingRanges H a opts prior seeds)).map runRequest ∨
      Collision H a.hashLength cks := by
  intro r hok
  have hrd : ∀ off size, 1 ≤ size → honestReadAt archive off size = e.readAt off size := by
    intro off size hsz
    obtain ⟨fr, rest, hsc⟩ := hat off size
    unfold HttpEnv.readAt
    rw [hsc, hserve, httpReadAt_honest archive e.retry off size fr rest hsz]
  have hinit' : tryInit H features e.readAt = .ok a := by
    rw [← tryInit_congr H features (honestReadAt archive) e.readAt hrd]; exact hinit
  rcases fetch_exact_nojunk H hH decomp features e.readAt e.readChunks opts prior seeds a src cks
    hinit' hd (fun _ => padItems_length _ _) hok with hreq | hc
  · left
    have hwire : ∀ off size, off + size ≠ 0 → e.wire (ArchReq.readAt off size) = [(off, size)] := by
      intro off size hne
      obtain ⟨fr, rest, hsc⟩ := hat off size
      simp only [HttpEnv.wire]
      rw [hsc, httpReadAt, if_neg hne]
    have hco : toChunkOffsets ((a.chunks.filter (fun d =>
        !(foundKeys H a opts prior seeds).contains (hashTruncate d.checksum a.hashLength))).map
        (fun d => (d.archiveOffset, d.archiveSize))) = missingRanges H a opts prior seeds := by
      unfold toChunkOffsets missingRanges
      rw [List.map_map]
      rfl
    have hfacts := (tryInit_ok_facts H features _ a hinit).2.2.1
    have hmem : ∀ c ∈ missingRanges H a opts prior seeds,
        1 ≤ c.size ∧ c.stop ≤ archive.length := by
      intro c hc
      simp only [missingRanges, List.mem_map, List.mem_filter] at hc
      obtain ⟨d, ⟨hdm, -⟩, rfl⟩ := hc
      exact ⟨(hfacts d hdm).1, (hs d hdm).1⟩
    have hlen' : (maximalRuns (missingRanges H a opts prior seeds)).length ≤ e.chunksScript.length := by
      refine Nat.le_trans (maximalRuns_length_le _) (Nat.le_trans ?_ hlen)
      unfold missingRanges
      rw [List.length_map]
      exact List.length_filter_le _ _
    have hchunks := requests_are_maximal_runs archive e.retry (missingRanges H a opts prior seeds)
      e.chunksScript (fun c hc => (hmem c hc).1) (fun c hc => (hmem c hc).2) hfull hlen'
    rw [hreq]
    simp only [List.flatMap_cons, List.flatMap_nil, List.append_nil]
    rw [hwire 0 Gen.preHeaderSize (by decide),
      hwire Gen.preHeaderSize (a.headerSize - Gen.preHeaderSize)
        (by have : Gen.preHeaderSize = 14 := rfl; omega)]
    simp only [HttpEnv.wire]
    rw [hco, hserve]
    show _ ++ (_ ++ (httpReadChunks (fun off size => slice archive off size) e.retry e.chunksScript
      (missingRanges H a opts prior seeds)).reqs) = _
    rw [hchunks]
    rfl
  · right; exact hc

end Bita.Proofs
