/-
  The reorder planner produces a safe plan (C03 T1).
-/
import Bita.Model.Planner
import Bita.Spec.InPlace

namespace Bita.Proofs
open Bita Bita.Spec

variable {κ : Type} [DecidableEq κ]

theorem planner_sound (content : κ → Bytes) (O N : List κ)
    (hne : ∀ k, k ∈ O ∨ k ∈ N → content k ≠ []) :
    safePlan content O N
      (reorderOps (indexOf content O) ((indexOf content O).strip (indexOf content N)).1) = true := by
  sorry

end Bita.Proofs
