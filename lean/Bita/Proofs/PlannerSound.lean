/-
  The reorder planner produces a safe plan (C03 T1).
-/
import Bita.Model.Planner
import Bita.Spec.InPlace
import Bita.Proofs.PlannerTrees

namespace Bita.Proofs
open Bita Bita.Spec Bita.Proofs.Planner

variable {κ : Type} [DecidableEq κ]

theorem planner_sound (content : κ → Bytes) (O N : List κ)
    (hne : ∀ k, k ∈ O ∨ k ∈ N → content k ≠ []) :
    safePlan content O N
      (reorderOps (indexOf content O) ((indexOf content O).strip (indexOf content N)).1) = true := by
  have hO : ∀ k ∈ O, content k ≠ [] := fun k hk => hne k (Or.inl hk)
  have hN : ∀ k ∈ N, content k ≠ [] := fun k hk => hne k (Or.inr hk)
  rw [reorderOps_eq]
  obtain ⟨hJ, -, hall⟩ := J_fold hO hN
    (chunksOf (indexOf content O) ((indexOf content O).strip (indexOf content N)).1)
    (fun c hc => hc) _ J_init
  generalize (chunksOf (indexOf content O) ((indexOf content O).strip (indexOf content N)).1).foldl
    (treeStep (indexOf content O) ((indexOf content O).strip (indexOf content N)).1
      (dfsFuel ((indexOf content O).strip (indexOf content N)).1
        (layout0Of (indexOf content O) ((indexOf content O).strip (indexOf content N)).1)))
    ([], [], layout0Of (indexOf content O) ((indexOf content O).strip (indexOf content N)).1) = acc
    at hJ hall
  obtain ⟨ops, processed, lay⟩ := acc
  have hvalid := hJ.valid
  have hproc := hJ.proc
  have hnd := hJ.nd
  have hord := hJ.ord
  simp only at hvalid hproc hnd hord hall ⊢
  unfold safePlan
  simp only [Bool.and_eq_true]
  refine ⟨⟨⟨?_, ?_⟩, ?_⟩, ?_⟩
  · rw [List.all_eq_true]
    intro op hop
    obtain ⟨k, hk, h⟩ := hvalid op hop
    have hkS : k ∈ movS content O N := (mem_movS content O N k).mpr hk
    have hfo := firstOff_fo hO hk.1
    rcases h with rfl | rfl
    · simp only [mkStore, entryOf]
      simp only [movS] at hkS
      simp [hkS, hfo, fo]
    · simp only [mkCopy, entryOf, destsOf_tgt hO hN]
      simp only [movS] at hkS
      simp [hkS, hfo, fo]
  · exact decide_eq_true hnd
  · rw [List.all_eq_true]
    intro k hk
    have hkM : Mov content O N k := (mem_movS content O N k).mp hk
    have hc := (mem_chunks hO hN _).mpr ⟨k, hkM, rfl⟩
    have := hall _ hc
    simp only [mkChild, entryOf] at this
    simpa using (hproc k).mp this
  · exact hord

end Bita.Proofs
