/-
  The parameter check of `Archive::try_init` (`configAccepted`, F8 repair) accepts exactly the
  configurations the chunking theorems assume (`Config.Valid`): every archive the code opens is
  covered, and nothing more is assumed than what the code checks.
-/
import Bita.Model.Archive

namespace Bita.Proofs
open Bita

theorem configAccepted_iff_valid (c : Config) : configAccepted c = true ↔ c.Valid := by
  cases c with
  | buzhash f => simp only [configAccepted, decide_eq_true_eq, Config.Valid, FilterConfig.Valid]
  | rollsum f => simp only [configAccepted, decide_eq_true_eq, Config.Valid, FilterConfig.ValidRoll]
  | fixed n => simp only [configAccepted, decide_eq_true_eq, Config.Valid]

end Bita.Proofs
