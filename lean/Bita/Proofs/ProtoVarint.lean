/-
  Varint encode / decode roundtrip (helper for ProtoRoundtrip).
-/
import Bita.Model.Proto

namespace Bita.Proofs
open Bita Bita.Proto

theorem encodeVarint_lt (n : Nat) (h : n < 128) : encodeVarint n = [UInt8.ofNat n] := by
  rw [encodeVarint]; simp [h]

theorem encodeVarint_ge (n : Nat) (h : ¬ n < 128) :
    encodeVarint n = UInt8.ofNat (n % 128 + 128) :: encodeVarint (n / 128) := by
  rw [encodeVarint]; simp [h]

theorem encodeVarint_ne_nil (n : Nat) : encodeVarint n ≠ [] := by
  by_cases h : n < 128
  · simp [encodeVarint_lt n h]
  · simp [encodeVarint_ge n h]

theorem encodeVarint_length_pos (n : Nat) : 0 < (encodeVarint n).length :=
  List.length_pos_iff.mpr (encodeVarint_ne_nil n)

private theorem recombine (n p : Nat) : n % 128 * p + n / 128 * (p * 128) = n * p := by
  have h := Nat.div_add_mod n 128
  calc n % 128 * p + n / 128 * (p * 128)
      = (128 * (n / 128) + n % 128) * p := by
        rw [Nat.add_mul, Nat.add_comm, Nat.mul_comm p 128, ← Nat.mul_assoc, Nat.mul_comm (n / 128) 128]
    _ = n * p := by rw [h]

theorem decodeVarintAux_encode (fuel : Nat) : ∀ (n shift acc : Nat) (rest : Bytes),
    1 ≤ fuel → fuel ≤ 10 → n < 2 ^ (64 - 7 * (10 - fuel)) →
    decodeVarintAux fuel shift acc (encodeVarint n ++ rest) = some (acc + n * 2 ^ shift, rest) := by
  induction fuel with
  | zero => intro n shift acc rest h; omega
  | succ k ih =>
    intro n shift acc rest _ hk hn
    by_cases h : n < 128
    · rw [encodeVarint_lt n h]
      have hv : (UInt8.ofNat n).toNat = n := by
        rw [UInt8.toNat_ofNat']; omega
      simp only [List.singleton_append, decodeVarintAux, hv]
      have h1 : ¬ (10 - (k + 1) = 9 ∧ n > 1) := by
        rintro ⟨h9, h2⟩
        have : k = 0 := by omega
        subst this
        simp at hn
        omega
      rw [if_neg h1, if_pos h]
    · rw [encodeVarint_ge n h]
      have hv : (UInt8.ofNat (n % 128 + 128)).toNat = n % 128 + 128 := by
        rw [UInt8.toNat_ofNat']; omega
      have hk1 : 1 ≤ k := by
        rcases k with _ | k
        · simp at hn; omega
        · omega
      simp only [List.cons_append, decodeVarintAux, hv]
      have h1 : ¬ (10 - (k + 1) = 9 ∧ n % 128 + 128 > 1) := by omega
      have h2 : ¬ (n % 128 + 128 < 128) := by omega
      rw [if_neg h1, if_neg h2]
      have he : 64 - 7 * (10 - (k + 1)) = (64 - 7 * (10 - k)) + 7 := by omega
      rw [he, Nat.pow_add] at hn
      have hdiv : n / 128 < 2 ^ (64 - 7 * (10 - k)) := by
        rw [Nat.div_lt_iff_lt_mul (by decide)]; simpa using hn
      rw [ih (n / 128) (shift + 7) _ rest hk1 (by omega) hdiv]
      have : n % 128 + 128 - 128 = n % 128 := by omega
      rw [this, Nat.pow_add, Nat.add_assoc]
      have := recombine n (2 ^ shift)
      simp only [show (2:Nat) ^ 7 = 128 by decide]
      rw [this]

theorem decodeVarint_encode (n : Nat) (hn : n < 2 ^ 64) (rest : Bytes) :
    decodeVarint (encodeVarint n ++ rest) = some (n, rest) := by
  have := decodeVarintAux_encode 10 n 0 0 rest (by decide) (by decide) (by simpa using hn)
  simpa [decodeVarint] using this

end Bita.Proofs
