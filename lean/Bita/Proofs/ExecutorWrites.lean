/-
  `writeOffsets`: what a batch of writes of one chunk does to the file, index and log.
-/
import Bita.Proofs.ExecutorIndex

namespace Bita.Proofs.Exec
open Bita Bita.Spec

variable {κ : Type}

theorem writesOf_append (a b : List IoOp) : writesOf (a ++ b) = writesOf a ++ writesOf b := by
  induction a with
  | nil => rfl
  | cons x xs ih => cases x <;> simp [writesOf, ih]

theorem writeOffsets_nil (st : OutSt κ) (data : Bytes) : st.writeOffsets [] data = st := rfl

theorem writeOffsets_cons (st : OutSt κ) (d : Nat) (ds : List Nat) (data : Bytes) :
    st.writeOffsets (d :: ds) data =
      ({ st with file := writeAt st.file d data, log := st.log ++ [IoOp.write d data] } : OutSt κ).writeOffsets ds data := rfl

theorem writeOffsets_index (data : Bytes) : ∀ (ds : List Nat) (st : OutSt κ),
    (st.writeOffsets ds data).index = st.index := by
  intro ds
  induction ds with
  | nil => intro st; rfl
  | cons d ds ih => intro st; rw [writeOffsets_cons, ih]

theorem writeOffsets_writes (data : Bytes) : ∀ (ds : List Nat) (st : OutSt κ),
    writesOf (st.writeOffsets ds data).log = writesOf st.log ++ ds.map (fun d => (d, data)) := by
  intro ds
  induction ds with
  | nil => intro st; simp [writeOffsets_nil]
  | cons d ds ih =>
    intro st
    rw [writeOffsets_cons, ih]
    simp [writesOf_append, writesOf]

theorem writeOffsets_length_le (data : Bytes) : ∀ (ds : List Nat) (st : OutSt κ),
    st.file.length ≤ (st.writeOffsets ds data).file.length := by
  intro ds
  induction ds with
  | nil => intro st; exact Nat.le_refl _
  | cons d ds ih =>
    intro st
    rw [writeOffsets_cons]
    refine Nat.le_trans ?_ (ih _)
    simp only [length_writeAt]; omega

/-- A region holding `c` keeps it across writes to regions disjoint from it. -/
theorem writeOffsets_keep (data : Bytes) (a la : Nat) (c : Bytes) (hl : c.length = la) :
    ∀ (ds : List Nat) (st : OutSt κ), slice st.file a la = c →
      (∀ d ∈ ds, a + la ≤ d ∨ d + data.length ≤ a) →
      slice (st.writeOffsets ds data).file a la = c := by
  intro ds
  induction ds with
  | nil => intro st hc _; exact hc
  | cons d ds ih =>
    intro st hc hd
    rw [writeOffsets_cons]
    apply ih
    · exact slice_writeAt_keep _ _ _ _ _ _ hc hl (hd d (by simp))
    · intro d' hd'; exact hd d' (by simp [hd'])

/-- After writing `data` at pairwise disjoint offsets each of them holds `data`. -/
theorem writeOffsets_written (data : Bytes) : ∀ (ds : List Nat) (st : OutSt κ),
    (∀ d ∈ ds, ∀ d' ∈ ds, d = d' ∨ d + data.length ≤ d' ∨ d' + data.length ≤ d) →
      ∀ d ∈ ds, slice (st.writeOffsets ds data).file d data.length = data := by
  intro ds
  induction ds with
  | nil => intro st _ d hd; simp at hd
  | cons d0 ds ih =>
    intro st hp d hd
    rw [writeOffsets_cons]
    have hp' : ∀ d ∈ ds, ∀ d' ∈ ds, d = d' ∨ d + data.length ≤ d' ∨ d' + data.length ≤ d :=
      fun a ha b hb => hp a (by simp [ha]) b (by simp [hb])
    by_cases hmem : d ∈ ds
    · exact ih _ hp' d hmem
    · have hd0 : d = d0 := by simpa [hmem] using hd
      subst hd0
      apply writeOffsets_keep data d data.length data rfl
      · exact slice_writeAt_same _ _ _
      · intro d' hd'
        rcases hp d (by simp) d' (by simp [hd']) with h | h | h
        · subst h; exact absurd hd' hmem
        · exact Or.inl h
        · exact Or.inr h


/-- Writing chunk `z` at some of its placements in a tiling: those placements hold it afterwards
and every other placement of the tiling keeps what it held. -/
theorem writeOffsets_tiling (c : κ → Bytes) (N : List κ) (z : κ) (ds : List Nat)
    (hds : ∀ d ∈ ds, (z, d) ∈ placements c N 0) (st : OutSt κ) :
    (∀ e ∈ placements c N 0, e.1 = z → e.2 ∈ ds →
      slice (st.writeOffsets ds (c z)).file e.2 (c e.1).length = c e.1) ∧
    (∀ e ∈ placements c N 0, ¬ (e.1 = z ∧ e.2 ∈ ds) →
      slice st.file e.2 (c e.1).length = c e.1 →
      slice (st.writeOffsets ds (c z)).file e.2 (c e.1).length = c e.1) := by
  constructor
  · intro e _ hz hd
    rw [hz]
    apply writeOffsets_written (c z) ds st _ e.2 hd
    intro d hd d' hd'
    rcases placements_disjoint c N 0 _ (hds d hd) _ (hds d' hd') with h | h | h
    · exact Or.inl (congrArg Prod.snd h)
    · exact Or.inr (Or.inl h)
    · exact Or.inr (Or.inr h)
  · intro e he hnot hc
    apply writeOffsets_keep (c z) e.2 _ _ rfl ds st hc
    intro d hd
    rcases placements_disjoint c N 0 _ he _ (hds d hd) with h | h | h
    · exact absurd ⟨congrArg Prod.fst h, by rw [h]; exact hd⟩ hnot
    · exact Or.inl h
    · exact Or.inr h

end Bita.Proofs.Exec
