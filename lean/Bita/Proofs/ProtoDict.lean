/-
  Roundtrip of the top-level dictionary message, under explicit length bounds `ProtoLenOK`
  (helper for ProtoRoundtrip).
-/
import Bita.Proofs.ProtoMessages

namespace Bita.Proofs
open Bita Bita.Proto

/-! ## the fields of an encoded dictionary -/

def fParams : Option ChunkerParameters → List Field
  | some p => [(Gen.tag_ChunkDictionary_chunker_params, some (.len (encodeParams p)))]
  | none => []

def fCompr : Option ChunkCompression → List Field
  | some c => [(Gen.tag_ChunkDictionary_chunk_compression, some (.len (encodeCompression c)))]
  | none => []

def fOrder (ns : List Nat) : List Field :=
  if ns.isEmpty then []
  else [(Gen.tag_ChunkDictionary_rebuild_order, some (.len (ns.map encodeVarint).flatten))]

def fDescr (c : ChunkDescriptor) : Field :=
  (Gen.tag_ChunkDictionary_chunk_descriptors, some (.len (encodeDescriptor c)))

def fMeta (e : Bytes × Bytes) : Field :=
  (Gen.tag_ChunkDictionary_metadata, some (.len (encodeMapEntry e.1 e.2)))

def dictFields (d : ChunkDictionary) : List Field :=
  fBytes Gen.tag_ChunkDictionary_application_version d.applicationVersion ++
  fBytes Gen.tag_ChunkDictionary_source_checksum d.sourceChecksum ++
  fUint Gen.tag_ChunkDictionary_source_total_size d.sourceTotalSize ++
  fParams d.chunkerParams ++
  fCompr d.chunkCompression ++
  fOrder d.rebuildOrder ++
  d.chunkDescriptors.map fDescr ++
  d.metadata.map fMeta

/-- Every length prefix of the encoding fits a varint. -/
structure ProtoLenOK (d : ChunkDictionary) : Prop where
  version_len : d.applicationVersion.length < 2 ^ 64
  checksum_len : d.sourceChecksum.length < 2 ^ 64
  params_len : ∀ p, d.chunkerParams = some p → (encodeParams p).length < 2 ^ 64
  compr_len : ∀ c, d.chunkCompression = some c → (encodeCompression c).length < 2 ^ 64
  order_len : (d.rebuildOrder.map encodeVarint).flatten.length < 2 ^ 64
  descr_len : ∀ c ∈ d.chunkDescriptors, (encodeDescriptor c).length < 2 ^ 64
  meta_len : ∀ e ∈ d.metadata, (encodeMapEntry e.1 e.2).length < 2 ^ 64

theorem length_le_flatten_map {α : Type} (f : α → Bytes) :
    ∀ (l : List α) (a : α), a ∈ l → (f a).length ≤ (l.map f).flatten.length
  | [], _, h => by simp at h
  | b :: l, a, h => by
    simp only [List.map_cons, List.flatten_cons, List.length_append]
    rcases List.mem_cons.mp h with rfl | h
    · omega
    · have := length_le_flatten_map f l a h; omega

theorem encMsg_length_le (t : Nat) (b : Bytes) : b.length ≤ (encMsg t b).length := by
  unfold encMsg; simp only [List.length_append]; omega

theorem protoLenOK_of_size (d : ChunkDictionary) (h : (encodeDictionary d).length < 2 ^ 64) :
    ProtoLenOK d := by
  unfold encodeDictionary at h
  simp only [List.length_append] at h
  have h1 := encBytes_length_le Gen.tag_ChunkDictionary_application_version d.applicationVersion
  have h2 := encBytes_length_le Gen.tag_ChunkDictionary_source_checksum d.sourceChecksum
  refine ⟨by omega, by omega, ?_, ?_, ?_, ?_, ?_⟩
  · intro p hp
    rw [hp] at h
    have := encMsg_length_le Gen.tag_ChunkDictionary_chunker_params (encodeParams p)
    try simp only at h
    omega
  · intro c hc
    rw [hc] at h
    have := encMsg_length_le Gen.tag_ChunkDictionary_chunk_compression (encodeCompression c)
    try simp only at h
    omega
  · by_cases he : d.rebuildOrder = []
    · rw [he]; simp
    · have he' : d.rebuildOrder.isEmpty = false := by simpa using he
      rw [he'] at h
      simp only [Bool.false_eq_true, if_false, List.length_append] at h
      omega
  · intro c hc
    have := length_le_flatten_map
      (fun c => encMsg Gen.tag_ChunkDictionary_chunk_descriptors (encodeDescriptor c)) _ c hc
    have := encMsg_length_le Gen.tag_ChunkDictionary_chunk_descriptors (encodeDescriptor c)
    omega
  · intro e he
    have := length_le_flatten_map
      (fun e : Bytes × Bytes => encMsg Gen.tag_ChunkDictionary_metadata (encodeMapEntry e.1 e.2)) _ e he
    have := encMsg_length_le Gen.tag_ChunkDictionary_metadata (encodeMapEntry e.1 e.2)
    omega

/-! ## parsing the encoding -/

/-- numeric well-formedness of the parts that are parsed at top level -/
theorem parsesTo_encodeDictionary (d : ChunkDictionary) (htotal : d.sourceTotalSize < 2 ^ 64)
    (hl : ProtoLenOK d) :
    ParsesTo [Gen.tag_ChunkDictionary_metadata] (encodeDictionary d) (dictFields d) := by
  unfold encodeDictionary dictFields
  refine (((((((parsesTo_encBytes _ _ _ (by decide) (by decide) hl.version_len).append
    (parsesTo_encBytes _ _ _ (by decide) (by decide) hl.checksum_len)).append
    (parsesTo_encUint _ _ _ (by decide) (by decide) (by decide) htotal)).append ?_).append
    ?_).append ?_).append ?_).append ?_
  · cases hp : d.chunkerParams with
    | none => exact ParsesTo.nil _
    | some p => exact parsesTo_encMsg _ _ _ (by decide) (by decide) (hl.params_len p hp)
  · cases hc : d.chunkCompression with
    | none => exact ParsesTo.nil _
    | some c => exact parsesTo_encMsg _ _ _ (by decide) (by decide) (hl.compr_len c hc)
  · unfold fOrder
    split
    · exact ParsesTo.nil _
    · exact parsesTo_encMsg _ _ _ (by decide) (by decide) hl.order_len
  · exact ParsesTo.flatten_map _ fDescr _ fun c hc =>
      parsesTo_encMsg _ _ _ (by decide) (by decide) (hl.descr_len c hc)
  · exact ParsesTo.flatten_map _ fMeta _ fun e he =>
      parsesTo_encMsg _ _ _ (by decide) (by decide) (hl.meta_len e he)

/-! ## merging the fields -/

theorem mergeDictionary_append (fs1 fs2 : List Field) (d : ChunkDictionary) :
    mergeDictionary (fs1 ++ fs2) d = (mergeDictionary fs1 d).bind (mergeDictionary fs2) := by
  unfold mergeDictionary; rw [List.foldlM_append]; rfl

theorem mergeDictionary_nil (d : ChunkDictionary) : mergeDictionary [] d = some d := by
  simp [mergeDictionary]

theorem mergeDictionary_cons (f : Field) (fs : List Field) (d : ChunkDictionary) :
    mergeDictionary (f :: fs) d = (mergeDictionary [f] d).bind (mergeDictionary fs) :=
  mergeDictionary_append [f] fs d

theorem mergeDictionary_version (v : Bytes) (d : ChunkDictionary) (h0 : d.applicationVersion = [])
    (hv : utf8Valid v = true) :
    mergeDictionary (fBytes Gen.tag_ChunkDictionary_application_version v) d
      = some { d with applicationVersion := v } := by
  unfold mergeDictionary; rw [foldlM_fBytes]
  split
  · subst_vars; cases d; simp_all
  · simp [asString, hv]

theorem mergeDictionary_checksum (v : Bytes) (d : ChunkDictionary) (h0 : d.sourceChecksum = []) :
    mergeDictionary (fBytes Gen.tag_ChunkDictionary_source_checksum v) d
      = some { d with sourceChecksum := v } := by
  unfold mergeDictionary; rw [foldlM_fBytes]
  split
  · subst_vars; cases d; simp_all
  · simp [asBytes, Gen.tag_ChunkDictionary_source_checksum,
      Gen.tag_ChunkDictionary_application_version]

theorem mergeDictionary_total (v : Nat) (d : ChunkDictionary) (h0 : d.sourceTotalSize = 0) :
    mergeDictionary (fUint Gen.tag_ChunkDictionary_source_total_size v) d
      = some { d with sourceTotalSize := v } := by
  unfold mergeDictionary; rw [foldlM_fUint]
  split
  · subst_vars; cases d; simp_all
  · simp [asU64, Gen.tag_ChunkDictionary_source_checksum,
      Gen.tag_ChunkDictionary_application_version, Gen.tag_ChunkDictionary_source_total_size]

theorem mergeDictionary_params (po : Option ChunkerParameters) (d : ChunkDictionary)
    (h0 : d.chunkerParams = none) (hp : ∀ p, po = some p → ParamsOK p) :
    mergeDictionary (fParams po) d = some { d with chunkerParams := po } := by
  cases po with
  | none => unfold fParams; rw [mergeDictionary_nil]; cases d; simp_all
  | some p =>
    have hok := hp p rfl
    simp [fParams, mergeDictionary, asBytes, h0, parse_encodeParams p hok,
      merge_paramsFields p hok, Gen.tag_ChunkDictionary_source_checksum,
      Gen.tag_ChunkDictionary_application_version, Gen.tag_ChunkDictionary_source_total_size,
      Gen.tag_ChunkDictionary_chunker_params]

theorem mergeDictionary_compr (co : Option ChunkCompression) (d : ChunkDictionary)
    (h0 : d.chunkCompression = none)
    (hc : ∀ c, co = some c → c.compression < 2 ^ 32 ∧ c.compressionLevel < 2 ^ 32) :
    mergeDictionary (fCompr co) d = some { d with chunkCompression := co } := by
  cases co with
  | none => unfold fCompr; rw [mergeDictionary_nil]; cases d; simp_all
  | some c =>
    have hok := hc c rfl
    simp [fCompr, mergeDictionary, asBytes, h0, parse_encodeCompression c hok.1 hok.2,
      merge_comprFields c hok.1 hok.2, Gen.tag_ChunkDictionary_source_checksum,
      Gen.tag_ChunkDictionary_application_version, Gen.tag_ChunkDictionary_source_total_size,
      Gen.tag_ChunkDictionary_chunker_params, Gen.tag_ChunkDictionary_chunk_compression]

theorem mergeDictionary_order (ns : List Nat) (d : ChunkDictionary) (h0 : d.rebuildOrder = [])
    (hb : ∀ n ∈ ns, n < 2 ^ 32) :
    mergeDictionary (fOrder ns) d = some { d with rebuildOrder := ns } := by
  unfold fOrder
  split
  · rename_i h
    have : ns = [] := by simpa using h
    rw [mergeDictionary_nil]; cases d; simp_all
  · have hb' := decodePacked_body ns hb
    generalize (ns.map encodeVarint).flatten = body at hb' ⊢
    simp [mergeDictionary, h0, hb', Gen.tag_ChunkDictionary_source_checksum,
      Gen.tag_ChunkDictionary_application_version, Gen.tag_ChunkDictionary_source_total_size,
      Gen.tag_ChunkDictionary_chunker_params, Gen.tag_ChunkDictionary_chunk_compression,
      Gen.tag_ChunkDictionary_rebuild_order]

theorem mergeDictionary_descr1 (c : ChunkDescriptor) (d : ChunkDictionary)
    (h0 : (encodeDescriptor c).length < 2 ^ 64) (h1 : c.archiveSize < 2 ^ 32)
    (h2 : c.archiveOffset < 2 ^ 64) (h3 : c.sourceSize < 2 ^ 32) :
    mergeDictionary [fDescr c] d
      = some { d with chunkDescriptors := d.chunkDescriptors ++ [c] } := by
  simp [fDescr, mergeDictionary, asBytes, parse_encodeDescriptor c h0 h1 h2 h3,
    merge_descrFields c h1 h3, Gen.tag_ChunkDictionary_source_checksum,
    Gen.tag_ChunkDictionary_application_version, Gen.tag_ChunkDictionary_source_total_size,
    Gen.tag_ChunkDictionary_chunker_params, Gen.tag_ChunkDictionary_chunk_compression,
    Gen.tag_ChunkDictionary_rebuild_order, Gen.tag_ChunkDictionary_chunk_descriptors]

theorem mergeDictionary_descrs : ∀ (cs : List ChunkDescriptor) (d : ChunkDictionary),
    (∀ c ∈ cs, (encodeDescriptor c).length < 2 ^ 64 ∧ c.archiveSize < 2 ^ 32 ∧
      c.archiveOffset < 2 ^ 64 ∧ c.sourceSize < 2 ^ 32) →
    mergeDictionary (cs.map fDescr) d
      = some { d with chunkDescriptors := d.chunkDescriptors ++ cs }
  | [], d, _ => by rw [List.map_nil, mergeDictionary_nil]; cases d; simp
  | c :: cs, d, h => by
    obtain ⟨h0, h1, h2, h3⟩ := h c (by simp)
    rw [List.map_cons, mergeDictionary_cons, mergeDictionary_descr1 c d h0 h1 h2 h3,
      Option.bind_some, mergeDictionary_descrs cs _ (fun c hc => h c (by simp [hc]))]
    simp

theorem mapInsert_last (k v : Bytes) : ∀ (l : List (Bytes × Bytes)),
    (∀ e ∈ l, e.1.map (·.toNat) < k.map (·.toNat)) → mapInsert k v l = l ++ [(k, v)]
  | [], _ => rfl
  | (k', v') :: l, h => by
    have hlt := h (k', v') (by simp)
    have hne : k ≠ k' := by
      rintro rfl; exact List.lt_irrefl _ hlt
    have hnlt : ¬ (k.map (·.toNat) < k'.map (·.toNat)) := List.lt_asymm hlt
    have ih := mapInsert_last k v l (fun e he => h e (by simp [he]))
    simp only [mapInsert, hne, compareOfLessAndEq, hnlt, ih, if_false]
    split <;> simp

theorem mergeDictionary_meta1 (e : Bytes × Bytes) (d : ChunkDictionary)
    (h0 : (encodeMapEntry e.1 e.2).length < 2 ^ 64) (hk : utf8Valid e.1 = true) :
    mergeDictionary [fMeta e] d
      = some { d with metadata := mapInsert e.1 e.2 d.metadata } := by
  simp [fMeta, mergeDictionary, asBytes, parse_encodeMapEntry e.1 e.2 h0,
    merge_entryFields e.1 e.2 hk, Gen.tag_ChunkDictionary_source_checksum,
    Gen.tag_ChunkDictionary_application_version, Gen.tag_ChunkDictionary_source_total_size,
    Gen.tag_ChunkDictionary_chunker_params, Gen.tag_ChunkDictionary_chunk_compression,
    Gen.tag_ChunkDictionary_rebuild_order, Gen.tag_ChunkDictionary_chunk_descriptors,
    Gen.tag_ChunkDictionary_metadata]

theorem mergeDictionary_metas : ∀ (ms : List (Bytes × Bytes)) (d : ChunkDictionary),
    (∀ e ∈ ms, (encodeMapEntry e.1 e.2).length < 2 ^ 64 ∧ utf8Valid e.1 = true) →
    (d.metadata ++ ms).Pairwise (fun a b => (a.1.map (·.toNat)) < (b.1.map (·.toNat))) →
    mergeDictionary (ms.map fMeta) d = some { d with metadata := d.metadata ++ ms }
  | [], d, _, _ => by rw [List.map_nil, mergeDictionary_nil]; cases d; simp
  | e :: ms, d, h, hs => by
    obtain ⟨h0, hk⟩ := h e (by simp)
    have hlast : mapInsert e.1 e.2 d.metadata = d.metadata ++ [e] := by
      rw [mapInsert_last]
      intro e' he'
      exact (List.pairwise_append.mp hs).2.2 e' he' e (by simp)
    rw [List.map_cons, mergeDictionary_cons, mergeDictionary_meta1 e d h0 hk, Option.bind_some,
      mergeDictionary_metas ms _ (fun c hc => h c (by simp [hc])) (by simpa [hlast] using hs)]
    simp [hlast]

end Bita.Proofs
