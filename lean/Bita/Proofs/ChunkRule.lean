/-
  The chunker model computes the pure chunking rule (C09 T5).
-/
import Bita.Model.Chunker
import Bita.Spec.Chunking
import Bita.Proofs.HashWindow

namespace Bita.Proofs
open Bita Bita.Spec

theorem chunkAll_eq_specChunks (cfg : Config) (hv : cfg.Valid) (data : Bytes) :
    chunkAll cfg data = specChunks cfg data := by
  sorry

end Bita.Proofs
