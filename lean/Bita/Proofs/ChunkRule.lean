/-
  The chunker model computes the pure chunking rule (C09 T5).

  `ChunkRulePhases`: hasher invariant (`HWin`, `HInv`) and the loops `initLoop`/`feedN`/`scanN`.
  `ChunkRuleNext`: one `RollingHashChunker::next` at a chunk start = `specCut` (`next_spec`).
  Here: `SC.drain` with the whole source buffered against `specChunksFrom` / `fixedChunksFrom`,
  and the two reads of `chunkAll`.
-/
import Bita.Model.Chunker
import Bita.Spec.Chunking
import Bita.Proofs.HashWindow
import Bita.Proofs.SpecChunks
import Bita.Proofs.ChunkRuleNext

namespace Bita.Proofs
open Bita Bita.Spec

namespace CR

/-- What the read that sees the end of the source emits. -/
def tailOf (sc : SC) : List (Nat × Nat) :=
  if sc.have_ = 0 then [] else [(sc.start, sc.have_)]

theorem drain_rolling {algo data} (f : FilterConfig) (hv : f.Sane)
    (hwm : algo = .buz → f.window ≤ f.maxSize) : ∀ (fuel s : Nat) (h : Hasher),
    Start algo f.window data s h → s ≤ data.length → data.length - s < fuel →
    ∃ cs sc', SC.drain fuel ⟨s, data.drop s, data.length - s,
        .rolling (RHParams.ofConfig f) ⟨h, 0⟩⟩ = (cs, sc') ∧
      sc'.have_ = sc'.rest.length ∧
      cs ++ tailOf sc' = specChunksFrom algo f data fuel s := by
  intro fuel
  induction fuel with
  | zero => intro s h _ _ hf; omega
  | succ fuel ih =>
    intro s h st hs hf
    rw [SC.drain, specChunksFrom]
    by_cases hz : data.length - s = 0
    · simp only [hz, if_true]
      refine ⟨[], _, rfl, by simp; omega, ?_⟩
      simp [tailOf, show data.length ≤ s by omega]
    · have hlt : s < data.length := by omega
      simp only [hz, if_false, show ¬ data.length ≤ s by omega, Chunker.next]
      have hn := next_spec f hv hwm hlt st
      cases hc : specCut algo f data s with
      | none =>
        rw [hc] at hn
        obtain ⟨st', e⟩ := hn
        simp only [e]
        refine ⟨[], _, rfl, by simp, ?_⟩
        simp [tailOf, hz]
      | some L =>
        rw [hc] at hn
        obtain ⟨h', e, hi⟩ := hn
        have hb := SpecChunks.specCut_bounds algo f data s L hv hlt hc
        have hL : L ≠ 0 := by omega
        obtain ⟨cs, sc', e', hh, hcs⟩ := ih (s + L) h' (.inl hi) (by omega) (by omega)
        simp only [e, hL, if_false, List.drop_drop]
        rw [show data.length - s - L = data.length - (s + L) by omega, e']
        exact ⟨_, _, rfl, hh, by simp [hcs]⟩

theorem drain_fixed {data : Bytes} (n : Nat) (hn : 1 ≤ n) : ∀ (fuel s : Nat),
    s ≤ data.length → data.length - s < fuel →
    ∃ cs sc', SC.drain fuel ⟨s, data.drop s, data.length - s, .fixed n⟩ = (cs, sc') ∧
      sc'.have_ = sc'.rest.length ∧
      cs ++ tailOf sc' = fixedChunksFrom n data.length fuel s := by
  intro fuel
  induction fuel with
  | zero => intro s _ hf; omega
  | succ fuel ih =>
    intro s hs hf
    rw [SC.drain, fixedChunksFrom]
    by_cases hz : data.length - s = 0
    · simp only [hz, if_true]
      refine ⟨[], _, rfl, by simp; omega, ?_⟩
      simp [tailOf, show data.length ≤ s by omega]
    · simp only [hz, if_false, show ¬ data.length ≤ s by omega, Chunker.next]
      by_cases hfit : n ≤ data.length - s
      · obtain ⟨cs, sc', e', hh, hcs⟩ := ih (s + n) (by omega) (by omega)
        have hn0 : n ≠ 0 := by omega
        simp only [hfit, if_true, hn0, if_false, List.drop_drop, show s + n ≤ data.length by omega]
        rw [show data.length - s - n = data.length - (s + n) by omega, e']
        exact ⟨_, _, rfl, hh, by simp [hcs]⟩
      · simp only [hfit, if_false, show ¬ s + n ≤ data.length by omega]
        refine ⟨[], _, rfl, by simp, ?_⟩
        simp [tailOf, hz]

theorem drain_have_zero (fuel : Nat) (sc : SC) (h : sc.have_ = 0) : SC.drain fuel sc = ([], sc) := by
  cases fuel <;> simp [SC.drain, h]

theorem run_bytes (sc : SC) (n : Nat) (s : List Rd) (cs : List (Nat × Nat)) (sc1 : SC)
    (e : SC.drain (sc.have_ + 1) sc = (cs, sc1)) :
    SC.run sc (.bytes n :: s) =
      if sc1.have_ = sc1.rest.length then cs ++ tailOf sc1
      else cs ++ SC.run { sc1 with
        have_ := sc1.have_ + min (max n 1) (sc1.rest.length - sc1.have_) } s := by
  rw [SC.run]
  simp only [e]
  rfl

/-- `chunkAll` in terms of one `drain` over the whole source. -/
theorem chunkAll_eq_drain (cfg : Config) (data : Bytes) (cs : List (Nat × Nat)) (sc' : SC)
    (e : SC.drain (data.length + 1) ⟨0, data, data.length, Chunker.ofConfig cfg⟩ = (cs, sc'))
    (hh : sc'.have_ = sc'.rest.length) :
    chunkAll cfg data = cs ++ tailOf sc' := by
  unfold chunkAll chunkStream
  rw [run_bytes _ _ _ [] _ (drain_have_zero _ _ rfl)]
  by_cases hz : data.length = 0
  · rw [drain_have_zero _ _ hz] at e
    cases e
    simp [tailOf, hz]
  · have hz' : ¬ 0 = data.length := fun h => hz h.symm
    simp only [hz', if_false, List.nil_append, Nat.zero_add, Nat.sub_zero]
    rw [show min (max data.length 1) data.length = data.length by omega,
      run_bytes _ _ _ cs sc' e, if_pos hh]

end CR

open CR in
theorem chunkAll_eq_specChunks (cfg : Config) (hv : cfg.Valid) (data : Bytes) :
    chunkAll cfg data = specChunks cfg data := by
  cases cfg with
  | rollsum f =>
    have hw : winAt f.window data 0 = List.replicate f.window 0 := by simp [winAt]
    have st : Start .roll f.window data 0 (.roll (RollSum.new f.window)) := by
      refine .inl ⟨⟨rfl, ?_, ?_⟩, fun h => by cases h⟩
      · rw [hw]; simp
      · rw [hw]; exact RollOK_new _
    obtain ⟨cs, sc', e, hh, hcs⟩ := drain_rolling (algo := .roll) (data := data) f
      (FilterConfig.Sane_of_ValidRoll hv) (fun h => by cases h)
      (data.length + 1) 0 (.roll (RollSum.new f.window)) st (Nat.zero_le _) (by omega)
    exact (chunkAll_eq_drain _ _ cs sc' (by simpa [Chunker.ofConfig] using e) hh).trans hcs
  | buzhash f =>
    obtain ⟨cs, sc', e, hh, hcs⟩ := drain_rolling (algo := .buz) (data := data) f
      (FilterConfig.Sane_of_Valid hv) (fun _ => hv.window_le)
      (data.length + 1) 0 (.buz (BuzHash.new f.window)) (.inr ⟨rfl, rfl, rfl⟩) (Nat.zero_le _)
      (by omega)
    exact (chunkAll_eq_drain _ _ cs sc' (by simpa [Chunker.ofConfig] using e) hh).trans hcs
  | fixed n =>
    obtain ⟨cs, sc', e, hh, hcs⟩ := drain_fixed (data := data) n hv (data.length + 1) 0
      (Nat.zero_le _) (by omega)
    exact (chunkAll_eq_drain _ _ cs sc' (by simpa [Chunker.ofConfig] using e) hh).trans hcs

end Bita.Proofs
