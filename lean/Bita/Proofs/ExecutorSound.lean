/-
  Executing a safe plan moves every reusable chunk into place (C03 T2, C13).
-/
import Bita.Model.Output
import Bita.Spec.InPlace

namespace Bita.Proofs
open Bita Bita.Spec

variable {κ : Type} [DecidableEq κ]

/-- Executing any safe plan on a file holding tiling `O`, with the stripped target index:
it never fails; what is left in the clone index are exactly the target chunks absent from `O`
(with all their target offsets); every target placement of a chunk that occurs in `O` holds that
chunk's bytes afterwards; and the writes are exactly the missing placements of the moved
chunks, each once. -/
theorem executor_sound (content : κ → Bytes) (O N : List κ)
    (hne : ∀ k, k ∈ O ∨ k ∈ N → content k ≠ [])
    (ops : List (ROp κ)) (hs : safePlan content O N ops = true) :
    let PO := placements content O 0
    let PN := placements content N 0
    let target := ((indexOf content O).strip (indexOf content N)).1
    ∃ fin, ExecSt.run ⟨⟨fileOf content O, target, []⟩, [], 0⟩ ops = some fin ∧
      fin.out.index = (indexOf content N).filter (fun e => !O.contains e.1) ∧
      (∀ e ∈ PN, e.1 ∈ O → slice fin.out.file e.2 (content e.1).length = content e.1) ∧
      (fileOf content O).length ≤ fin.out.file.length ∧
      writesOf fin.out.log =
        ((ops.filter isCopy).map opKey).flatMap (fun k => (dests PO PN k).map (fun d => (d, content k))) := by
  sorry

end Bita.Proofs
