/-
  Executing a safe plan moves every reusable chunk into place (C03 T2, C13).
-/
import Bita.Model.Output
import Bita.Spec.InPlace
import Bita.Proofs.ExecutorRun

namespace Bita.Proofs
open Bita Bita.Spec

variable {κ : Type} [DecidableEq κ]

namespace Exec

theorem copiesOf_sub_movable (c : κ → Bytes) (O N : List κ) (ops : List (ROp κ))
    (hok : ∀ op ∈ ops, OpOk c O N op) : ∀ k ∈ copiesOf ops, k ∈ movableOf c O N := by
  intro k hk
  simp only [copiesOf, List.mem_map, List.mem_filter] at hk
  obtain ⟨op, ⟨hop, _⟩, rfl⟩ := hk
  have := hok op hop
  cases op with
  | copy z sz src dest => exact this.1
  | store y sz src => exact this.1

end Exec

open Exec in
/-- Executing any safe plan on a file holding tiling `O`, with the stripped target index:
it never fails; what is left in the clone index are exactly the target chunks absent from `O`
(with all their target offsets); every target placement of a chunk that occurs in `O` holds that
chunk's bytes afterwards; and the writes are exactly the missing placements of the moved
chunks, each once. -/
theorem executor_sound (content : κ → Bytes) (O N : List κ)
    (hne : ∀ k, k ∈ O ∨ k ∈ N → content k ≠ [])
    (ops : List (ROp κ)) (hs : safePlan content O N ops = true) :
    let PO := placements content O 0
    let PN := placements content N 0
    let target := ((indexOf content O).strip (indexOf content N)).1
    ∃ fin, ExecSt.run ⟨⟨fileOf content O, target, []⟩, [], 0⟩ ops = some fin ∧
      fin.out.index = (indexOf content N).filter (fun e => !O.contains e.1) ∧
      (∀ e ∈ PN, e.1 ∈ O → slice fin.out.file e.2 (content e.1).length = content e.1) ∧
      (fileOf content O).length ≤ fin.out.file.length ∧
      writesOf fin.out.log =
        ((ops.filter isCopy).map opKey).flatMap (fun k => (dests PO PN k).map (fun d => (d, content k))) := by
  intro PO PN target
  obtain ⟨hok, hnd, hall, hord⟩ := safePlan_decode content O N ops hs
  have hinv : Inv content O N ⟨⟨fileOf content O, target, []⟩, [], 0⟩ [] [] := by
    refine ⟨Nat.le_refl _, ?_, ?_⟩
    · intro e _ h
      rcases h with h | h
      · exact slice_fileOf_zero content O e h
      · simp at h
    · intro y _ _ fy hfy
      refine Or.inr ⟨rfl, by simp, ?_⟩
      exact slice_fileOf_zero content O (y, fy) (firstOff_mem _ _ _ hfy)
  obtain ⟨fin, hfin, h1, h2, h3, h4⟩ := run_inv ops _ [] [] hinv hok hnd (by simp) hord
  have hsub := copiesOf_sub_movable content O N ops hok
  refine ⟨fin, hfin, ?_, ?_, h3, ?_⟩
  · rw [h1]
    apply target_filter content O N hne
    · intro k hk; exact ((mem_movableOf content O N k).1 (hsub k hk)).1
    · intro k hk hd; exact hall k ((mem_movableOf content O N k).2 ⟨hk, hd⟩)
  · intro e he heO
    apply h2 e he
    by_cases hpo : e ∈ PO
    · exact Or.inl hpo
    · refine Or.inr (Or.inr (hall e.1 ((mem_movableOf content O N e.1).2 ⟨heO, ?_⟩)))
      have : e.2 ∈ dests PO PN e.1 := (mem_dests _ _ _ _).2 ⟨he, hpo⟩
      intro h; rw [h] at this; simp at this
  · rw [h4]; simp only [writesOf, List.nil_append]; rfl

end Bita.Proofs
