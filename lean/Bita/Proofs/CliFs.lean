/-
  File-system level theorems about the CLI flows (C14, C16).
-/
import Bita.Model.Cli
import Bita.Proofs.CloneSound
import Bita.Proofs.CliFsLemmas

namespace Bita.Proofs
open Bita Bita.Gen

def FsOp.path : FsOp → String
  | .openWrite p _ => p
  | .openRead p => p
  | .write p => p
  | .truncate p => p
  | .unlink p => p

def FsOp.isReadOnly : FsOp → Bool
  | .openRead _ => true
  | _ => false

/-- The facts read from the source that the theorems below are about. -/
def FactsAsExpected : Prop :=
  cloneStepOrder = ["try_init", "banner", "pin", "open_output", "device_check", "scan_output", "reorder",
                    "seed_stdin", "seed_files", "fetch", "flush", "resize", "verify_output"] ∧
  compressStepOrder = ["open_output", "chunk_input", "build_header", "write_header", "copy_temp", "remove_temp", "print_info"] ∧
  cloneSeedOpen = "File::open" ∧ cloneArchiveOpen = "File::open" ∧ cloneOtherFsCalls = [] ∧
  pinComparesFullBytes = true

/-- The flags `clone_cmd` opens the output with. -/
def cloneFlags (o : CliFlags) : OpenFlags :=
  { read := o.verifyOutput || o.seedOutput, write := true, create := o.force || o.seedOutput,
    createNew := !o.force && !o.seedOutput, truncate := false }

def nodeIsDev (n : Node) : Bool := match n with | .blockdev _ => true | .regular _ => false

/-- `Cli.clone` from the point where the output is open and holds `onode`. -/
def cliCloneRun (H : Bytes → Bytes) (decomp : Nat → Bytes → Nat → Option Bytes) (c : CloneCmd)
    (fs1 : Fs) (archive : Bytes) (a : Archive) (ops1 : List FsOp) (onode : Node) : CmdOut :=
  let isDev := nodeIsDev onode
  let seeds := c.seedPaths.filterMap fun p => (fs1.get p).map (·.data)
  if c.seedPaths.any (fun p => (fs1.get p).isNone) && !(isDev && decide (onode.data.length < a.sourceTotalSize)) then
    ⟨false, fs1, ops1 ++ [FsOp.write c.output]⟩
  else
  let r := Clone.run H decomp [] (honestReadAt archive) (honestReadChunks archive)
    { seedOutput := c.flags.seedOutput, verifyOutput := c.flags.verifyOutput, headerPin := c.pin, blockDev := isDev }
    onode.data seeds
  let wrote := r.log.any fun op => match op with | .write .. => true | .read .. => false
  let resized := decide (r.result = .ok) && !isDev
  let ops2 := ops1 ++ (c.seedPaths.map FsOp.openRead) ++
    (if wrote then [FsOp.write c.output] else []) ++ (if resized then [FsOp.truncate c.output] else [])
  let node := if isDev then Node.blockdev r.output else Node.regular r.output
  ⟨decide (r.result = .ok), fs1.set c.output node, ops2⟩

/-- `Cli.clone` from the point where the archive is open and the pin passed. -/
def cliCloneOpen (H : Bytes → Bytes) (decomp : Nat → Bytes → Nat → Option Bytes) (c : CloneCmd)
    (fs : Fs) (archive : Bytes) (a : Archive) : CmdOut :=
  let ops1 := [FsOp.openRead c.archivePath] ++ [FsOp.openWrite c.output (cloneFlags c.flags).describe]
  match fs.openOut c.output (cloneFlags c.flags) with
  | none => ⟨false, fs, ops1⟩
  | some fs1 =>
    match fs1.get c.output with
    | none => ⟨false, fs1, ops1⟩
    | some onode => cliCloneRun H decomp c fs1 archive a ops1 onode

def cliPinBad (c : CloneCmd) (a : Archive) : Bool :=
  match c.pin with | some pin => decide (pin ≠ a.headerChecksum) | none => false

/-- `Cli.clone` with its stages named. -/
theorem cli_clone_eq (H : Bytes → Bytes) (decomp : Nat → Bytes → Nat → Option Bytes) (c : CloneCmd) (fs : Fs) :
    Cli.clone H decomp c fs =
      match fs.get c.archivePath with
      | none => ⟨false, fs, []⟩
      | some an =>
        match tryInit H [] (honestReadAt an.data) with
        | .ok a =>
          if cliPinBad c a then ⟨false, fs, [FsOp.openRead c.archivePath]⟩
          else cliCloneOpen H decomp c fs an.data a
        | _ => ⟨false, fs, [FsOp.openRead c.archivePath]⟩ := by
  unfold Cli.clone
  rfl

/-- A block device smaller than the source: the run stops before touching the output. -/
theorem run_small_device (H : Bytes → Bytes) (decomp : Nat → Bytes → Nat → Option Bytes) (features : List Nat)
    (readAt : Nat → Nat → Option Bytes) (readChunks : List (Nat × Nat) → List (Option Bytes))
    (opts : CloneOpts) (prior : Bytes) (seeds : List Bytes) (a : Archive)
    (hinit : tryInit H features readAt = .ok a) (hdev : opts.blockDev = true)
    (hsmall : prior.length < a.sourceTotalSize) :
    (Clone.run H decomp features readAt readChunks opts prior seeds).result ≠ .ok ∧
      (Clone.run H decomp features readAt readChunks opts prior seeds).output = prior := by
  rw [run_eq H decomp features readAt readChunks opts prior seeds a hinit]
  split
  · simp
  · simp
  · split
    · simp
    · rw [if_pos ⟨hdev, hsmall⟩]
      simp

theorem cliCloneRun_small (H : Bytes → Bytes) (decomp : Nat → Bytes → Nat → Option Bytes) (c : CloneCmd)
    (fs1 : Fs) (hfs : (fs1.map (·.1)).Nodup) (archive : Bytes) (a : Archive) (ops1 : List FsOp) (dev : Bytes)
    (hinit : tryInit H [] (honestReadAt archive) = .ok a)
    (hget : fs1.get c.output = some (.blockdev dev)) (hsmall : dev.length < a.sourceTotalSize) :
    (cliCloneRun H decomp c fs1 archive a ops1 (.blockdev dev)).ok = false ∧
      (cliCloneRun H decomp c fs1 archive a ops1 (.blockdev dev)).fs = fs1 := by
  unfold cliCloneRun
  have hcond : (c.seedPaths.any (fun p => (fs1.get p).isNone) &&
      !(nodeIsDev (.blockdev dev) && decide ((Node.blockdev dev).data.length < a.sourceTotalSize))) = false := by
    simp [nodeIsDev, Node.data, hsmall]
  simp only [hcond]
  obtain ⟨hr, ho⟩ := run_small_device H decomp [] (honestReadAt archive) (honestReadChunks archive)
    { seedOutput := c.flags.seedOutput, verifyOutput := c.flags.verifyOutput, headerPin := c.pin,
      blockDev := nodeIsDev (.blockdev dev) } (Node.blockdev dev).data
    (c.seedPaths.filterMap fun p => (fs1.get p).map (·.data)) a hinit rfl hsmall
  refine ⟨by simpa using hr, ?_⟩
  simp only [Bool.false_eq_true, if_false]
  rw [ho]
  exact fs_set_self fs1 hfs c.output _ hget


theorem cliCloneRun_ops (H : Bytes → Bytes) (decomp : Nat → Bytes → Nat → Option Bytes) (c : CloneCmd)
    (fs1 : Fs) (archive : Bytes) (a : Archive) (ops1 : List FsOp) (onode : Node) :
    ∀ op ∈ (cliCloneRun H decomp c fs1 archive a ops1 onode).ops,
      op ∈ ops1 ∨ (∃ p, op = FsOp.openRead p) ∨ op = FsOp.write c.output ∨ op = FsOp.truncate c.output := by
  intro op hop
  unfold cliCloneRun at hop
  dsimp only at hop
  split at hop
  · simp only [List.mem_append, List.mem_singleton] at hop
    rcases hop with h | h
    · exact .inl h
    · exact .inr (.inr (.inl h))
  · simp only [List.mem_append, List.mem_map] at hop
    rcases hop with ((h | ⟨p, _, h⟩) | h) | h
    · exact .inl h
    · exact .inr (.inl ⟨p, h.symm⟩)
    · split at h
      · exact .inr (.inr (.inl (List.mem_singleton.mp h)))
      · simp at h
    · split at h
      · exact .inr (.inr (.inr (List.mem_singleton.mp h)))
      · simp at h

theorem cliCloneRun_fs (H : Bytes → Bytes) (decomp : Nat → Bytes → Nat → Option Bytes) (c : CloneCmd)
    (fs1 : Fs) (archive : Bytes) (a : Archive) (ops1 : List FsOp) (onode : Node) (p : String)
    (hp : p ≠ c.output) :
    (cliCloneRun H decomp c fs1 archive a ops1 onode).fs.get p = fs1.get p := by
  unfold cliCloneRun
  dsimp only
  split
  · rfl
  · exact fs_set_get_ne fs1 c.output p _ hp

theorem cliCloneOpen_ops (H : Bytes → Bytes) (decomp : Nat → Bytes → Nat → Option Bytes) (c : CloneCmd)
    (fs : Fs) (archive : Bytes) (a : Archive) :
    ∀ op ∈ (cliCloneOpen H decomp c fs archive a).ops,
      (FsOp.isReadOnly op = true ∨ FsOp.path op = c.output) ∧ (∀ p, op ≠ FsOp.unlink p) := by
  have hops1 : ∀ op ∈ [FsOp.openRead c.archivePath] ++ [FsOp.openWrite c.output (cloneFlags c.flags).describe],
      (FsOp.isReadOnly op = true ∨ FsOp.path op = c.output) ∧ (∀ p, op ≠ FsOp.unlink p) := by
    intro op hop
    simp only [List.mem_append, List.mem_singleton] at hop
    rcases hop with h | h <;> subst h <;> simp [FsOp.isReadOnly, FsOp.path]
  intro op hop
  unfold cliCloneOpen at hop
  dsimp only at hop
  split at hop
  · exact hops1 op hop
  · split at hop
    · exact hops1 op hop
    · rcases cliCloneRun_ops H decomp c _ archive a _ _ op hop with h | ⟨p, h⟩ | h | h
      · exact hops1 op h
      · subst h; simp [FsOp.isReadOnly]
      · subst h; simp [FsOp.path]
      · subst h; simp [FsOp.path]

theorem cliCloneOpen_fs (H : Bytes → Bytes) (decomp : Nat → Bytes → Nat → Option Bytes) (c : CloneCmd)
    (fs : Fs) (archive : Bytes) (a : Archive) (p : String) (hp : p ≠ c.output) :
    (cliCloneOpen H decomp c fs archive a).fs.get p = fs.get p := by
  unfold cliCloneOpen
  dsimp only
  split
  · rfl
  · rename_i fs1 ho
    have h1 := fs_openOut_get_ne fs fs1 c.output p _ ho hp
    split
    · exact h1
    · rw [cliCloneRun_fs H decomp c fs1 archive a _ _ p hp, h1]

/-- C14 (a): the archive does not open (not an archive, corrupt header, invalid dictionary). -/
theorem clone_refused_archive (H : Bytes → Bytes) (decomp : Nat → Bytes → Nat → Option Bytes)
    (c : CloneCmd) (fs : Fs) (an : Node) (ha : fs.get c.archivePath = some an)
    (hbad : ∀ a, tryInit H [] (honestReadAt an.data) ≠ .ok a) :
    let r := Cli.clone H decomp c fs
    r.ok = false ∧ r.fs = fs ∧ ∀ op ∈ r.ops, FsOp.isReadOnly op = true := by
  dsimp only
  rw [cli_clone_eq]
  simp only [ha]
  cases hok : tryInit H [] (honestReadAt an.data) with
  | ok a => exact absurd hok (hbad a)
  | invalid w => simp [FsOp.isReadOnly]
  | readerErr => simp [FsOp.isReadOnly]
  | panic s => simp [FsOp.isReadOnly]
  | abort s => simp [FsOp.isReadOnly]

/-- C14 (b): the expected header checksum does not equal the archive's. -/
theorem clone_refused_pin (H : Bytes → Bytes) (decomp : Nat → Bytes → Nat → Option Bytes)
    (c : CloneCmd) (fs : Fs) (an : Node) (ha : fs.get c.archivePath = some an) (a : Archive)
    (hok : tryInit H [] (honestReadAt an.data) = .ok a) (pin : Bytes) (hp : c.pin = some pin)
    (hne : pin ≠ a.headerChecksum) :
    let r := Cli.clone H decomp c fs
    r.ok = false ∧ r.fs = fs ∧ ∀ op ∈ r.ops, FsOp.isReadOnly op = true := by
  dsimp only
  rw [cli_clone_eq]
  have hbad : cliPinBad c a = true := by
    unfold cliPinBad
    rw [hp]
    simpa using hne
  simp only [ha, hok, hbad, if_true]
  simp [FsOp.isReadOnly]

/-- C14 (c): the output exists and neither overwrite nor in-place was requested. -/
theorem clone_refused_exists (H : Bytes → Bytes) (decomp : Nat → Bytes → Nat → Option Bytes)
    (c : CloneCmd) (fs : Fs) (n : Node) (hout : fs.get c.output = some n)
    (hf : c.flags.force = false) (hs : c.flags.seedOutput = false) :
    let r := Cli.clone H decomp c fs
    r.ok = false ∧ r.fs = fs := by
  dsimp only
  rw [cli_clone_eq]
  cases ha : fs.get c.archivePath with
  | none => exact ⟨rfl, rfl⟩
  | some an =>
    dsimp only
    cases hok : tryInit H [] (honestReadAt an.data) with
    | ok a =>
      dsimp only
      split
      · exact ⟨rfl, rfl⟩
      · have hopen : fs.openOut c.output (cloneFlags c.flags) = none := by
          unfold Fs.openOut cloneFlags
          simp [hout, hf, hs]
        unfold cliCloneOpen
        simp [hopen]
    | invalid w => exact ⟨rfl, rfl⟩
    | readerErr => exact ⟨rfl, rfl⟩
    | panic s => exact ⟨rfl, rfl⟩
    | abort s => exact ⟨rfl, rfl⟩

/-- C14 (d): the output is a block device smaller than the source. -/
theorem clone_refused_small_device (H : Bytes → Bytes) (decomp : Nat → Bytes → Nat → Option Bytes)
    (c : CloneCmd) (fs : Fs) (hfs : (fs.map (·.1)).Nodup) (an : Node) (ha : fs.get c.archivePath = some an)
    (a : Archive) (hok : tryInit H [] (honestReadAt an.data) = .ok a)
    (dev : Bytes) (hout : fs.get c.output = some (.blockdev dev)) (hsmall : dev.length < a.sourceTotalSize) :
    let r := Cli.clone H decomp c fs
    r.ok = false ∧ r.fs = fs := by
  dsimp only
  rw [cli_clone_eq]
  simp only [ha, hok]
  split
  · exact ⟨rfl, rfl⟩
  · unfold cliCloneOpen
    unfold Fs.openOut
    simp only [hout]
    cases hcn : (cloneFlags c.flags).createNew with
    | true => exact ⟨rfl, rfl⟩
    | false =>
      have ht : (cloneFlags c.flags).truncate = false := rfl
      simp only [ht, Bool.false_eq_true, if_false, hout]
      exact cliCloneRun_small H decomp c fs hfs an.data a _ dev hok hout hsmall


/-- C14 (e): compress into an existing output without `--force-create`. -/
theorem compress_refused_exists (H : Bytes → Bytes) (comp : Bytes → Bytes) (c : CompressCmd) (fs : Fs)
    (n : Node) (hout : fs.get c.output = some n) (hf : c.flags.force = false) :
    let r := Cli.compress H comp c fs
    r.ok = false ∧ r.fs = fs := by
  dsimp only
  unfold Cli.compress
  rw [compressOpen_flags, tempOpen_flags]
  dsimp only
  have hopen : fs.openOut c.output (compressFlags c.flags) = none := by
    unfold Fs.openOut compressFlags
    simp [hout, hf]
  rw [hopen]
  exact ⟨rfl, rfl⟩

/-- C16 T1: in every mode, every file-system operation of a clone is a read-only open (archive,
seeds) or concerns the output path; nothing is removed. -/
theorem clone_ops_confined (H : Bytes → Bytes) (decomp : Nat → Bytes → Nat → Option Bytes)
    (c : CloneCmd) (fs : Fs) :
    ∀ op ∈ (Cli.clone H decomp c fs).ops,
      (FsOp.isReadOnly op = true ∨ FsOp.path op = c.output) ∧ (∀ p, op ≠ FsOp.unlink p) := by
  have hops0 : ∀ op ∈ [FsOp.openRead c.archivePath],
      (FsOp.isReadOnly op = true ∨ FsOp.path op = c.output) ∧ (∀ p, op ≠ FsOp.unlink p) := by
    intro op hop
    rw [List.mem_singleton] at hop
    subst hop
    simp [FsOp.isReadOnly]
  rw [cli_clone_eq]
  cases ha : fs.get c.archivePath with
  | none => simp
  | some an =>
    dsimp only
    cases hok : tryInit H [] (honestReadAt an.data) with
    | ok a =>
      dsimp only
      split
      · exact hops0
      · exact cliCloneOpen_ops H decomp c fs an.data a
    | invalid w => exact hops0
    | readerErr => exact hops0
    | panic s => exact hops0
    | abort s => exact hops0

/-- ... and no path other than the output changes. -/
theorem clone_fs_confined (H : Bytes → Bytes) (decomp : Nat → Bytes → Nat → Option Bytes)
    (c : CloneCmd) (fs : Fs) (p : String) (hp : p ≠ c.output) :
    (Cli.clone H decomp c fs).fs.get p = fs.get p := by
  rw [cli_clone_eq]
  cases ha : fs.get c.archivePath with
  | none => rfl
  | some an =>
    dsimp only
    cases hok : tryInit H [] (honestReadAt an.data) with
    | ok a =>
      dsimp only
      split
      · rfl
      · exact cliCloneOpen_fs H decomp c fs an.data a p hp
    | invalid w => rfl
    | readerErr => rfl
    | panic s => rfl
    | abort s => rfl

/-- C16 T2: a successful compress ends in the initial file system plus exactly the archive. -/
theorem compress_leaves_only_archive (H : Bytes → Bytes) (comp : Bytes → Bytes) (c : CompressCmd) (fs : Fs)
    (htmp : fs.get (c.temp) = none)
    (hdistinct : c.temp ≠ c.output ∧ c.input ≠ c.output ∧ c.input ≠ c.temp)
    (hflush : cliTempFlushedBeforeReturn = true) :
    let r := Cli.compress H comp c fs
    r.ok = true →
      (∀ p, p ≠ c.output → r.fs.get p = fs.get p) ∧
      (∃ src, (fs.get c.input).map (·.data) = some src ∧
        r.fs.get c.output = some (.regular (createArchive H "cli" comp c.opts src))) := by
  obtain ⟨hto, hio, _⟩ := hdistinct
  dsimp only
  unfold Cli.compress
  rw [compressOpen_flags, tempOpen_flags]
  dsimp only
  cases ho : fs.openOut c.output (compressFlags c.flags) with
  | none => simp
  | some fs1 =>
    dsimp only
    cases hin : fs1.get c.input with
    | none => simp
    | some inode =>
      dsimp only
      cases ht : fs1.openOut (c.temp) tempFlags with
      | none => simp
      | some fs2 =>
        dsimp only
        intro _
        generalize hd : dictionaryOf H "cli" comp c.opts inode.data = ds
        obtain ⟨dict, stored⟩ := ds
        dsimp only
        simp only [hflush, if_true]
        refine ⟨fun p hp => ?_, inode.data, ?_, ?_⟩
        · by_cases hpt : p = c.temp
          · subst hpt
            rw [fs_remove_get_same, htmp]
          · rw [fs_remove_get_ne _ _ _ hpt, fs_set_get_ne _ _ _ _ hp, fs_set_get_ne _ _ _ _ hpt,
              fs_openOut_get_ne fs1 fs2 _ p _ ht hpt, fs_openOut_get_ne fs fs1 _ p _ ho hp]
        · rw [← fs_openOut_get_ne fs fs1 _ c.input _ ho hio, hin]
          rfl
        · have h1 : fs1.get c.temp = none := by
            rw [fs_openOut_get_ne fs fs1 _ c.temp _ ho hto, htmp]
          have h2 : fs2.get c.temp = some (.regular []) := by
            unfold Fs.openOut at ht
            rw [h1] at ht
            dsimp only at ht
            split at ht
            · cases ht
              exact fs_set_get_same _ _ _
            · cases ht
          rw [fs_remove_get_ne _ _ _ (Ne.symm hto), fs_set_get_same, fs_set_get_same]
          unfold createArchive
          rw [hd, h2]
          simp [Node.data]

/-- C11 / C16: a stale temp file (left by an earlier, killed compress) does not leak into the
archive: the temp file is opened with `truncate(true)` (read from the source), so the archive
is the one of the sequential model and the temp file is gone afterwards. -/
theorem compress_ignores_stale_temp (H : Bytes → Bytes) (comp : Bytes → Bytes) (c : CompressCmd) (fs : Fs)
    (old : Bytes) (htmp : fs.get c.temp = some (.regular old))
    (hdistinct : c.temp ≠ c.output ∧ c.input ≠ c.output ∧ c.input ≠ c.temp)
    (hflush : cliTempFlushedBeforeReturn = true) :
    let r := Cli.compress H comp c fs
    r.ok = true →
      r.fs.get c.temp = none ∧
      (∃ src, (fs.get c.input).map (·.data) = some src ∧
        r.fs.get c.output = some (.regular (createArchive H "cli" comp c.opts src))) := by
  obtain ⟨hto, hio, _⟩ := hdistinct
  dsimp only
  unfold Cli.compress
  rw [compressOpen_flags, tempOpen_flags]
  dsimp only
  cases ho : fs.openOut c.output (compressFlags c.flags) with
  | none => simp
  | some fs1 =>
    dsimp only
    cases hin : fs1.get c.input with
    | none => simp
    | some inode =>
      dsimp only
      cases ht : fs1.openOut (c.temp) tempFlags with
      | none => simp
      | some fs2 =>
        dsimp only
        intro _
        generalize hd : dictionaryOf H "cli" comp c.opts inode.data = ds
        obtain ⟨dict, stored⟩ := ds
        dsimp only
        simp only [hflush, if_true]
        refine ⟨fs_remove_get_same _ _, inode.data, ?_, ?_⟩
        · rw [← fs_openOut_get_ne fs fs1 _ c.input _ ho hio, hin]
          rfl
        · have h1 : fs1.get c.temp = some (.regular old) := by
            rw [fs_openOut_get_ne fs fs1 _ c.temp _ ho hto, htmp]
          have h2 : fs2.get c.temp = some (.regular []) := by
            unfold Fs.openOut at ht
            rw [h1] at ht
            simp [tempFlags] at ht
            subst ht
            exact fs_set_get_same _ _ _
          rw [fs_remove_get_ne _ _ _ (Ne.symm hto), fs_set_get_same, fs_set_get_same]
          unfold createArchive
          rw [hd, h2]
          simp [Node.data]

end Bita.Proofs
