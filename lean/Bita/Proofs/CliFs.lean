/-
  File-system level theorems about the CLI flows (C14, C16).
-/
import Bita.Model.Cli
import Bita.Proofs.CloneSound

namespace Bita.Proofs
open Bita Bita.Gen

def FsOp.path : FsOp → String
  | .openWrite p _ => p
  | .openRead p => p
  | .write p => p
  | .truncate p => p
  | .unlink p => p

def FsOp.isReadOnly : FsOp → Bool
  | .openRead _ => true
  | _ => false

/-- The facts read from the source that the theorems below are about. -/
def FactsAsExpected : Prop :=
  cloneStepOrder = ["try_init", "banner", "pin", "open_output", "device_check", "scan_output", "reorder",
                    "seed_stdin", "seed_files", "fetch", "flush", "resize", "verify_output"] ∧
  compressStepOrder = ["open_output", "chunk_input", "build_header", "write_header", "copy_temp", "remove_temp", "print_info"] ∧
  cloneSeedOpen = "File::open" ∧ cloneArchiveOpen = "File::open" ∧ cloneOtherFsCalls = [] ∧
  pinComparesFullBytes = true

/-- C14 (a): the archive does not open (not an archive, corrupt header, invalid dictionary). -/
theorem clone_refused_archive (H : Bytes → Bytes) (decomp : Nat → Bytes → Nat → Option Bytes)
    (c : CloneCmd) (fs : Fs) (an : Node) (ha : fs.get c.archivePath = some an)
    (hbad : ∀ a, tryInit H [] (honestReadAt an.data) ≠ .ok a) :
    let r := Cli.clone H decomp c fs
    r.ok = false ∧ r.fs = fs ∧ ∀ op ∈ r.ops, FsOp.isReadOnly op = true := by
  sorry

/-- C14 (b): the expected header checksum does not equal the archive's. -/
theorem clone_refused_pin (H : Bytes → Bytes) (decomp : Nat → Bytes → Nat → Option Bytes)
    (c : CloneCmd) (fs : Fs) (an : Node) (ha : fs.get c.archivePath = some an) (a : Archive)
    (hok : tryInit H [] (honestReadAt an.data) = .ok a) (pin : Bytes) (hp : c.pin = some pin)
    (hne : pin ≠ a.headerChecksum) :
    let r := Cli.clone H decomp c fs
    r.ok = false ∧ r.fs = fs ∧ ∀ op ∈ r.ops, FsOp.isReadOnly op = true := by
  sorry

/-- C14 (c): the output exists and neither overwrite nor in-place was requested. -/
theorem clone_refused_exists (H : Bytes → Bytes) (decomp : Nat → Bytes → Nat → Option Bytes)
    (c : CloneCmd) (fs : Fs) (n : Node) (hout : fs.get c.output = some n)
    (hf : c.flags.force = false) (hs : c.flags.seedOutput = false) :
    let r := Cli.clone H decomp c fs
    r.ok = false ∧ r.fs = fs := by
  sorry

/-- C14 (d): the output is a block device smaller than the source. -/
theorem clone_refused_small_device (H : Bytes → Bytes) (decomp : Nat → Bytes → Nat → Option Bytes)
    (c : CloneCmd) (fs : Fs) (hfs : (fs.map (·.1)).Nodup) (an : Node) (ha : fs.get c.archivePath = some an)
    (a : Archive) (hok : tryInit H [] (honestReadAt an.data) = .ok a)
    (dev : Bytes) (hout : fs.get c.output = some (.blockdev dev)) (hsmall : dev.length < a.sourceTotalSize) :
    let r := Cli.clone H decomp c fs
    r.ok = false ∧ r.fs = fs := by
  sorry

/-- C14 (e): compress into an existing output without `--force-create`. -/
theorem compress_refused_exists (H : Bytes → Bytes) (comp : Bytes → Bytes) (c : CompressCmd) (fs : Fs)
    (n : Node) (hout : fs.get c.output = some n) (hf : c.flags.force = false) :
    let r := Cli.compress H comp c fs
    r.ok = false ∧ r.fs = fs := by
  sorry

/-- C16 T1: in every mode, every file-system operation of a clone is a read-only open (archive,
seeds) or concerns the output path; nothing is removed. -/
theorem clone_ops_confined (H : Bytes → Bytes) (decomp : Nat → Bytes → Nat → Option Bytes)
    (c : CloneCmd) (fs : Fs) :
    ∀ op ∈ (Cli.clone H decomp c fs).ops,
      (FsOp.isReadOnly op = true ∨ FsOp.path op = c.output) ∧ (∀ p, op ≠ FsOp.unlink p) := by
  sorry

/-- ... and no path other than the output changes. -/
theorem clone_fs_confined (H : Bytes → Bytes) (decomp : Nat → Bytes → Nat → Option Bytes)
    (c : CloneCmd) (fs : Fs) (p : String) (hp : p ≠ c.output) :
    (Cli.clone H decomp c fs).fs.get p = fs.get p := by
  sorry

/-- C16 T2: a successful compress ends in the initial file system plus exactly the archive. -/
theorem compress_leaves_only_archive (H : Bytes → Bytes) (comp : Bytes → Bytes) (c : CompressCmd) (fs : Fs)
    (htmp : fs.get (tempPathOf c.output) = none)
    (hdistinct : tempPathOf c.output ≠ c.output ∧ c.input ≠ c.output ∧ c.input ≠ tempPathOf c.output)
    (hflush : cliTempFlushedBeforeReturn = true) :
    let r := Cli.compress H comp c fs
    r.ok = true →
      (∀ p, p ≠ c.output → r.fs.get p = fs.get p) ∧
      (∃ src, (fs.get c.input).map (·.data) = some src ∧
        r.fs.get c.output = some (.regular (createArchive H "cli" comp c.opts src))) := by
  sorry

end Bita.Proofs
