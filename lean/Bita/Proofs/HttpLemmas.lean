import Bita.Model.Readers
import Bita.Spec.Runs
import Bita.Spec.Resume

namespace Bita.Proofs
open Bita Bita.Spec

/-! ### slices -/

theorem slice_length {data : Bytes} {off n : Nat} (h : off + n ≤ data.length) :
    (slice data off n).length = n := by
  simp [slice]; omega

theorem slice_zero (data : Bytes) (off : Nat) : slice data off 0 = [] := by
  simp [slice]

theorem slice_take (data : Bytes) (off n k : Nat) :
    (slice data off n).take k = slice data off (min k n) := by
  simp [slice, List.take_take]

theorem slice_drop (data : Bytes) (off n k : Nat) :
    (slice data off n).drop k = slice data (off + k) (n - k) := by
  simp [slice, List.drop_take, List.drop_drop]

theorem slice_append (data : Bytes) (a n m : Nat) :
    slice data a n ++ slice data (a + n) m = slice data a (n + m) := by
  simp [slice, List.take_add, List.drop_drop]

/-! ### runs -/

def total : List ChunkOffset → Nat
  | [] => 0
  | c :: cs => c.size + total cs

def headRun : ChunkOffset → List ChunkOffset → List ChunkOffset × List ChunkOffset
  | c, [] => ([c], [])
  | c, d :: cs =>
    if c.stop = d.offset then ((c :: (headRun d cs).1), (headRun d cs).2) else ([c], d :: cs)

theorem maximalRuns_cons_shape (d : ChunkOffset) (cs : List ChunkOffset) :
    ∃ r rs, maximalRuns (d :: cs) = (d :: r) :: rs := by
  rw [maximalRuns]
  split
  · split <;> simp
  · simp

theorem headRun_fst (c : ChunkOffset) (cs : List ChunkOffset) :
    ∃ r, (headRun c cs).1 = c :: r := by
  cases cs with
  | nil => simp [headRun]
  | cons d cs => simp only [headRun]; split <;> simp

theorem maximalRuns_eq_headRun (c : ChunkOffset) (cs : List ChunkOffset) :
    maximalRuns (c :: cs) = (headRun c cs).1 :: maximalRuns (headRun c cs).2 := by
  induction cs generalizing c with
  | nil => simp [maximalRuns, headRun]
  | cons d cs ih =>
    rw [maximalRuns]
    obtain ⟨r, hr⟩ := headRun_fst d cs
    have h := ih d
    rw [hr] at h
    rw [h]
    simp only [headRun]
    split
    · simp [hr]
    · simp [h]

theorem headRun_append (c : ChunkOffset) (cs : List ChunkOffset) :
    (headRun c cs).1 ++ (headRun c cs).2 = c :: cs := by
  induction cs generalizing c with
  | nil => simp [headRun]
  | cons d cs ih =>
    simp only [headRun]; split
    · simp [ih d]
    · simp

theorem headRun_contiguous (c : ChunkOffset) (cs : List ChunkOffset) :
    Contiguous (headRun c cs).1 := by
  induction cs generalizing c with
  | nil => simp [headRun, Contiguous]
  | cons d cs ih =>
    simp only [headRun]; split
    · obtain ⟨r, hr⟩ := headRun_fst d cs
      have := ih d
      rw [hr] at this ⊢
      simp [Contiguous, *]
    · simp [Contiguous]

theorem adjacentReads_eq_headRun (c : ChunkOffset) (cs : List ChunkOffset) :
    adjacentReads (c :: cs) = (headRun c cs).1.length := by
  induction cs generalizing c with
  | nil => simp [headRun, adjacentReads]
  | cons d cs ih =>
    simp only [headRun, adjacentReads]
    split
    · rename_i h
      have h' : c.stop = d.offset := h
      simp [h', ih d]
    · rename_i h
      have h' : ¬ c.stop = d.offset := h
      simp [h']

/-- In a contiguous run the last chunk stops at `first.offset + total`. -/
theorem contiguous_getLast_stop (c : ChunkOffset) (r : List ChunkOffset) (h : Contiguous (c :: r)) :
    ((c :: r).getLast (by simp)).stop = c.offset + total (c :: r) := by
  induction r generalizing c with
  | nil => simp [total, ChunkOffset.stop]
  | cons d r ih =>
    have h1 : c.stop = d.offset := h.1
    have h2 : Contiguous (d :: r) := h.2
    rw [List.getLast_cons (by simp)]
    rw [ih d h2]
    simp only [total, ChunkOffset.stop] at *
    omega

theorem contiguous_stop_le (c : ChunkOffset) (r : List ChunkOffset) (h : Contiguous (c :: r)) :
    ∀ x ∈ r, c.stop ≤ x.offset := by
  induction r generalizing c with
  | nil => simp
  | cons d r ih =>
    have h1 : c.stop = d.offset := h.1
    have h2 : Contiguous (d :: r) := h.2
    intro x hx
    rcases List.mem_cons.1 hx with hxd | hx
    · subst hxd; omega
    · have := ih d h2 x hx
      simp only [ChunkOffset.stop] at *
      omega

end Bita.Proofs
