/-
  Everything a clone feeds to its output (seed chunks, decoded archive chunks) is - unless a
  collision is exhibited - `feedAll content` of the list of keys fed.
-/
import Bita.Proofs.CloneKeys
import Bita.Spec.InPlace
import Bita.Proofs.ExecutorIndex
import Bita.Proofs.ExecutorWrites

namespace Bita.Proofs
open Bita Bita.Spec Bita.Proofs.Exec

theorem mem_keys_iff {κ : Type} [DecidableEq κ] (ix : Index κ) (k : κ) :
    k ∈ ix.keys ↔ ∃ e ∈ ix, e.1 = k := by
  simp [Index.keys]

theorem contains_iff_mem_keys {κ : Type} [DecidableEq κ] (ix : Index κ) (k : κ) :
    ix.contains k = true ↔ k ∈ ix.keys := by
  rw [Index.contains, get_isSome_iff, mem_keys_iff]

/-- A feed removes the fed key from the clone index and nothing else. -/
theorem keys_feed {κ : Type} [DecidableEq κ] (st : OutSt κ) (k : κ) (d : Bytes) (k' : κ) :
    k' ∈ (st.feed k d).1.index.keys ↔ k' ∈ st.index.keys ∧ k' ≠ k := by
  unfold OutSt.feed
  cases hget : st.index.get k with
  | none =>
    simp only
    have := (get_eq_none_iff st.index k).1 hget
    constructor
    · intro h
      obtain ⟨e, he, rfl⟩ := (mem_keys_iff _ _).1 h
      exact ⟨h, this e he⟩
    · exact fun h => h.1
  | some loc =>
    simp only [writeOffsets_index, Index.remove, Index.keys, List.mem_map, List.mem_filter,
      decide_eq_true_eq]
    constructor
    · rintro ⟨e, ⟨he, hne⟩, rfl⟩
      exact ⟨⟨e, he, rfl⟩, hne⟩
    · rintro ⟨⟨e, he, rfl⟩, hne⟩
      exact ⟨e, ⟨he, hne⟩, rfl⟩

theorem keys_feedAll {κ : Type} [DecidableEq κ] (c : κ → Bytes) : ∀ (ks : List κ) (st : OutSt κ) (k' : κ),
    k' ∈ (feedAll c st ks).index.keys ↔ k' ∈ st.index.keys ∧ k' ∉ ks := by
  intro ks
  induction ks with
  | nil => intro st k'; simp [feedAll]
  | cons k ks ih =>
    intro st k'
    have := ih (st.feed k (c k)).1 k'
    simp only [feedAll, List.foldl_cons] at this ⊢
    rw [this, keys_feed]
    simp only [List.mem_cons, not_or]
    constructor
    · rintro ⟨⟨h1, h2⟩, h3⟩; exact ⟨h1, h2, h3⟩
    · rintro ⟨h1, h2, h3⟩; exact ⟨⟨h1, h2⟩, h3⟩

theorem feedAll_append {κ : Type} [DecidableEq κ] (c : κ → Bytes) (st : OutSt κ) (k1 k2 : List κ) :
    feedAll c st (k1 ++ k2) = feedAll c (feedAll c st k1) k2 := by
  simp [feedAll, List.foldl_append]

section
variable (key content : Bytes → Bytes)

/-- Every key the clone index still holds identifies its content among *all* byte strings. -/
def GoodSt (st : OutSt Bytes) : Prop :=
  ∀ k ∈ st.index.keys, ∀ x, key x = k → x = content k

theorem feed_good (st : OutSt Bytes) (hg : GoodSt key content st) (x : Bytes) :
    st.feed (key x) x = st.feed (key x) (content (key x)) := by
  by_cases h : key x ∈ st.index.keys
  · exact congrArg (st.feed (key x)) (hg _ h x rfl)
  · have : st.index.get (key x) = none := by
      rw [get_eq_none_iff]
      intro e he hk
      exact h ((mem_keys_iff _ _).2 ⟨e, he, hk⟩)
    simp [OutSt.feed, this]

theorem goodSt_feedAll (st : OutSt Bytes) (hg : GoodSt key content st) (ks : List Bytes) :
    GoodSt key content (feedAll content st ks) := by
  intro k hk
  exact hg k ((keys_feedAll content ks st k).1 hk).1

theorem foldl_feed_eq : ∀ (xs : List Bytes) (st : OutSt Bytes), GoodSt key content st →
    xs.foldl (fun st x => (st.feed (key x) x).1) st = feedAll content st (xs.map key) := by
  intro xs
  induction xs with
  | nil => intro st _; rfl
  | cons x xs ih =>
    intro st hg
    have hg' : GoodSt key content (st.feed (key x) (content (key x))).1 :=
      goodSt_feedAll key content st hg [key x]
    simp only [List.foldl_cons, List.map_cons, feedAll]
    rw [feed_good key content st hg x, ih _ hg']
    rfl

end

theorem feedSeed_eq (H : Bytes → Bytes) (cfg : Config) (hl : Nat) (content : Bytes → Bytes)
    (st : OutSt Bytes) (hg : GoodSt (ckey H hl) content st) (seed : Bytes) :
    feedSeed H cfg hl st seed = feedAll content st (chunkKeys H cfg hl seed) := by
  rw [chunkKeys_eq, ← foldl_feed_eq (ckey H hl) content _ st hg]
  unfold feedSeed chunksOf
  rw [List.foldl_map]

theorem feedSeeds_eq (H : Bytes → Bytes) (cfg : Config) (hl : Nat) (content : Bytes → Bytes) :
    ∀ (seeds : List Bytes) (st : OutSt Bytes), GoodSt (ckey H hl) content st →
      seeds.foldl (feedSeed H cfg hl) st = feedAll content st (seeds.flatMap (chunkKeys H cfg hl)) := by
  intro seeds
  induction seeds with
  | nil => intro st _; rfl
  | cons s seeds ih =>
    intro st hg
    rw [List.foldl_cons, List.flatMap_cons, feedAll_append, feedSeed_eq H cfg hl content st hg,
      ih _ (goodSt_feedAll _ _ st hg _)]

/-! ### The archive phase -/

/-- One step of `feedArchive`. -/
def archStep (H : Bytes → Bytes) (decomp : Nat → Bytes → Nat → Option Bytes) (a : Archive)
    (acc : OutSt Bytes × Option String) (e : Descr × Option Bytes) : OutSt Bytes × Option String :=
  match acc.2 with
  | some _ => acc
  | none =>
    match e.2 with
    | none => (acc.1, some "read archive")
    | some stored =>
      match decodeChunk H decomp a.compression e.1 stored with
      | none => (acc.1, some "decompress or verify chunk")
      | some chunk => ((acc.1.feed (hashTruncate (H chunk) a.hashLength) chunk).1, none)

theorem feedArchive_eq (H : Bytes → Bytes) (decomp : Nat → Bytes → Nat → Option Bytes) (a : Archive)
    (st : OutSt Bytes) (fetch : List Descr) (items : List (Option Bytes)) :
    feedArchive H decomp a st fetch items = (fetch.zip items).foldl (archStep H decomp a) (st, none) := rfl

theorem archStep_err (H : Bytes → Bytes) (decomp : Nat → Bytes → Nat → Option Bytes) (a : Archive)
    (st : OutSt Bytes) (w : String) : ∀ (l : List (Descr × Option Bytes)),
    l.foldl (archStep H decomp a) (st, some w) = (st, some w) := by
  intro l
  induction l with
  | nil => rfl
  | cons e l ih => rw [List.foldl_cons]; exact ih

/-- What a successfully decoded chunk is: exactly as long as declared (F19 repair,
`Gen.chunkLengthChecked`) and of the descriptor's hash. -/
theorem decodeChunk_some_inv (H : Bytes → Bytes) (decomp : Nat → Bytes → Nat → Option Bytes) (compr : Compr)
    (d : Descr) (stored chunk : Bytes) (h : decodeChunk H decomp compr d stored = some chunk) :
    chunk.length = d.sourceSize ∧ hashTruncate (H chunk) d.checksum.length = d.checksum := by
  have hfact : Gen.chunkLengthChecked = true := by decide
  unfold decodeChunk at h
  simp only [Option.bind_eq_some_iff] at h
  obtain ⟨c, _, hc⟩ := h
  by_cases hl : c.length = d.sourceSize
  · rw [if_neg (fun hh => hh.2 hl)] at hc
    by_cases hk : hashTruncate (H c) d.checksum.length = d.checksum
    · rw [if_pos hk] at hc
      cases hc
      exact ⟨hl, hk⟩
    · rw [if_neg hk] at hc; cases hc
  · rw [if_pos ⟨hfact, hl⟩] at hc; cases hc

/-- What a successfully decoded chunk hashes to. -/
theorem decodeChunk_key (H : Bytes → Bytes) (decomp : Nat → Bytes → Nat → Option Bytes) (compr : Compr)
    (d : Descr) (stored chunk : Bytes) (h : decodeChunk H decomp compr d stored = some chunk) :
    hashTruncate (H chunk) d.checksum.length = d.checksum :=
  (decodeChunk_some_inv H decomp compr d stored chunk h).2

/-- A run of the archive phase that reports no error has fed, for every descriptor of the
fetch list in turn, the content of its key. -/
theorem feedArchive_ok (H : Bytes → Bytes) (decomp : Nat → Bytes → Nat → Option Bytes) (a : Archive)
    (content : Bytes → Bytes) :
    ∀ (fetch : List Descr) (items : List (Option Bytes)) (st : OutSt Bytes),
      fetch.length ≤ items.length → GoodSt (ckey H a.hashLength) content st →
      (∀ d ∈ fetch, d.checksum.length = a.hashLength) →
      (feedArchive H decomp a st fetch items).2 = none →
      (feedArchive H decomp a st fetch items).1 =
        feedAll content st (fetch.map fun d => hashTruncate d.checksum a.hashLength) := by
  intro fetch
  induction fetch with
  | nil => intro items st _ _ _ _; rfl
  | cons d fetch ih =>
    intro items st hlen hg hck hok
    cases items with
    | nil => simp at hlen
    | cons it items =>
      rw [feedArchive_eq, List.zip_cons_cons, List.foldl_cons] at hok ⊢
      cases it with
      | none =>
        simp only [archStep] at hok
        rw [archStep_err] at hok
        cases hok
      | some stored =>
        cases hdc : decodeChunk H decomp a.compression d stored with
        | none =>
          simp only [archStep, hdc] at hok
          rw [archStep_err] at hok
          cases hok
        | some chunk =>
          have hk := decodeChunk_key H decomp a.compression d stored chunk hdc
          rw [hck d (List.mem_cons_self ..)] at hk
          have hstep : archStep H decomp a (st, none) (d, some stored) =
              ((st.feed (ckey H a.hashLength chunk) (content (ckey H a.hashLength chunk))).1, none) := by
            simp only [archStep, hdc]
            rw [← feed_good (ckey H a.hashLength) content st hg chunk]
          rw [hstep] at hok ⊢
          rw [← feedArchive_eq] at hok ⊢
          have hg' : GoodSt (ckey H a.hashLength) content
              (st.feed (ckey H a.hashLength chunk) (content (ckey H a.hashLength chunk))).1 :=
            goodSt_feedAll _ content st hg [ckey H a.hashLength chunk]
          rw [ih items _ (by simpa using hlen) hg'
            (fun d' h' => hck d' (List.mem_cons_of_mem _ h')) hok]
          have hkd : hashTruncate d.checksum a.hashLength = ckey H a.hashLength chunk := by
            rw [← hk]; exact hashTruncate_idem _ _
          simp only [List.map_cons, feedAll, List.foldl_cons, hkd]

/-- With an honest reader over bytes that store the chunks, the archive phase reports no error. -/
theorem feedArchive_honest (H : Bytes → Bytes) (decomp : Nat → Bytes → Nat → Option Bytes) (a : Archive)
    (archive : Bytes) (hs : Stored H decomp a archive) :
    ∀ (fetch : List Descr) (st : OutSt Bytes), (∀ d ∈ fetch, d ∈ a.chunks) →
      (feedArchive H decomp a st fetch
        (honestReadChunks archive (fetch.map fun d => (d.archiveOffset, d.archiveSize)))).2 = none := by
  intro fetch
  induction fetch with
  | nil => intro st _; rfl
  | cons d fetch ih =>
    intro st hsub
    obtain ⟨hr, chunk, hdc, _⟩ := hs d (hsub d (List.mem_cons_self ..))
    rw [feedArchive_eq]
    simp only [honestReadChunks, List.map_cons, List.zip_cons_cons, List.foldl_cons, honestReadAt,
      if_pos hr]
    have hstep : archStep H decomp a (st, none) (d, some (slice archive d.archiveOffset d.archiveSize)) =
        ((st.feed (hashTruncate (H chunk) a.hashLength) chunk).1, none) := by
      simp only [archStep, hdc]
    rw [hstep]
    exact ih _ (fun d' h' => hsub d' (List.mem_cons_of_mem _ h'))

end Bita.Proofs
