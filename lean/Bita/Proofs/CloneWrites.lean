/-
  C13 at the level of bytes: the write log of `Clone.run` (plain or in place, any seeds, any
  reader behaviour, whatever the result) lifted from the tiling-level `write_log_exact`.
-/
import Bita.Proofs.CloneSound

namespace Bita.Proofs
open Bita Bita.Proto Bita.Spec Bita.Proofs.Exec

/-! ### The log of a run, whatever its result -/

theorem cloneTail_log (H : Bytes → Bytes) (decomp : Nat → Bytes → Nat → Option Bytes)
    (readChunks : List (Nat × Nat) → List (Option Bytes))
    (opts : CloneOpts) (seeds : List Bytes) (a : Archive) (st1 : OutSt Bytes) :
    (cloneTail H decomp readChunks opts seeds a st1).log =
      (cloneSt3 H decomp readChunks a (cloneSt2 H a seeds st1)).1.log := by
  unfold cloneTail
  dsimp only
  split
  · rfl
  · split <;> rfl

/-- The log of a run is empty (every early exit), or it is the log of the state the archive
phase ended in (with or without an error). -/
theorem run_log (H : Bytes → Bytes) (decomp : Nat → Bytes → Nat → Option Bytes) (features : List Nat)
    (readAt : Nat → Nat → Option Bytes) (readChunks : List (Nat × Nat) → List (Option Bytes))
    (opts : CloneOpts) (prior : Bytes) (seeds : List Bytes) (a : Archive)
    (hinit : tryInit H features readAt = .ok a) :
    (Clone.run H decomp features readAt readChunks opts prior seeds).log = [] ∨
    ∃ ix st1, a.sourceIndex = some ix ∧ cloneSt1 H a opts prior ix = some st1 ∧
      (Clone.run H decomp features readAt readChunks opts prior seeds).log =
        (cloneSt3 H decomp readChunks a (cloneSt2 H a seeds st1)).1.log := by
  rw [run_eq H decomp features readAt readChunks opts prior seeds a hinit]
  split
  · exact Or.inl rfl
  · exact Or.inl rfl
  · rename_i ix hix _
    split
    · exact Or.inl rfl
    · split
      · exact Or.inl rfl
      · split
        · exact Or.inl rfl
        · rename_i st1 hst1
          exact Or.inr ⟨ix, st1, hix, hst1, cloneTail_log H decomp readChunks opts seeds a st1⟩

/-! ### The archive phase feeds keys, error or not -/

/-- Whatever the reader yields and wherever the phase stops, the state it ends in is the state
after feeding the contents of some list of keys: an item that fails to decode feeds nothing, an
item that decodes is fed under its own key, and a key the clone index still holds identifies
its content. -/
theorem archFold_feeds (H : Bytes → Bytes) (decomp : Nat → Bytes → Nat → Option Bytes) (a : Archive)
    (content : Bytes → Bytes) :
    ∀ (l : List (Descr × Option Bytes)) (st : OutSt Bytes),
      GoodSt (ckey H a.hashLength) content st →
      ∃ ks, (l.foldl (archStep H decomp a) (st, none)).1 = feedAll content st ks := by
  intro l
  induction l with
  | nil => intro st _; exact ⟨[], rfl⟩
  | cons e l ih =>
    intro st hg
    obtain ⟨d, it⟩ := e
    rw [List.foldl_cons]
    cases it with
    | none =>
      refine ⟨[], ?_⟩
      simp only [archStep]
      rw [archStep_err]
      rfl
    | some stored =>
      cases hdc : decodeChunk H decomp a.compression d stored with
      | none =>
        refine ⟨[], ?_⟩
        simp only [archStep, hdc]
        rw [archStep_err]
        rfl
      | some chunk =>
        have hstep : archStep H decomp a (st, none) (d, some stored) =
            ((st.feed (ckey H a.hashLength chunk) (content (ckey H a.hashLength chunk))).1, none) := by
          simp only [archStep, hdc]
          rw [← feed_good (ckey H a.hashLength) content st hg chunk]
        have hg' : GoodSt (ckey H a.hashLength) content
            (st.feed (ckey H a.hashLength chunk) (content (ckey H a.hashLength chunk))).1 :=
          goodSt_feedAll _ content st hg [ckey H a.hashLength chunk]
        obtain ⟨ks, hks⟩ := ih _ hg'
        refine ⟨ckey H a.hashLength chunk :: ks, ?_⟩
        rw [hstep, hks]
        rfl

theorem feedArchive_feeds (H : Bytes → Bytes) (decomp : Nat → Bytes → Nat → Option Bytes) (a : Archive)
    (content : Bytes → Bytes) (fetch : List Descr) (items : List (Option Bytes)) (st : OutSt Bytes)
    (hg : GoodSt (ckey H a.hashLength) content st) :
    ∃ ks, (feedArchive H decomp a st fetch items).1 = feedAll content st ks := by
  rw [feedArchive_eq]
  exact archFold_feeds H decomp a content _ st hg

/-! ### From tiling placements to byte placements -/

/-- A placement of the key list of `cks` is a placement of the chunk itself. -/
theorem chunkPlacements_of_placements (key content : Bytes → Bytes) :
    ∀ (cks : List Bytes) (off : Nat), (∀ c ∈ cks, content (key c) = c) →
      ∀ k o, (k, o) ∈ placements content (cks.map key) off → (o, content k) ∈ chunkPlacements cks off := by
  intro cks
  induction cks with
  | nil => intro off _ k o h; simp [placements] at h
  | cons c cks ih =>
    intro off hc k o h
    have hcc := hc c (List.mem_cons_self ..)
    simp only [List.map_cons, placements, List.mem_cons, Prod.mk.injEq] at h
    rcases h with ⟨rfl, rfl⟩ | h
    · rw [hcc]
      exact List.mem_cons_self ..
    · rw [hcc] at h
      exact List.mem_cons_of_mem _ (ih _ (fun c' h' => hc c' (List.mem_cons_of_mem _ h')) k o h)

/-- Every chunk the chunker cuts is a placement of the key list of the chunks. -/
theorem placement_of_chunkAll (H : Bytes → Bytes) (cfg : Config) (hv : cfg.Valid) (hl : Nat)
    (data : Bytes) (content : Bytes → Bytes)
    (hc : ∀ c ∈ chunksOf cfg data, content (ckey H hl c) = c) :
    ∀ c ∈ chunkAll cfg data,
      (ckey H hl (slice data c.1 c.2), c.1) ∈ placements content ((chunksOf cfg data).map (ckey H hl)) 0 := by
  intro c hcm
  have h := placements_tiles (ckey H hl) content data (chunkAll cfg data) 0
    (chunkAll_tiles cfg hv data)
    (fun c h' => hc _ (List.mem_map.2 ⟨c, h', rfl⟩))
  have hm : (ckey H hl (slice data c.1 c.2), c.2, c.1) ∈
      (chunkAll cfg data).map (fun c => (ckey H hl (slice data c.1 c.2), c.2, c.1)) :=
    List.mem_map.2 ⟨c, hcm, rfl⟩
  rw [← h] at hm
  obtain ⟨e, he, heq⟩ := List.mem_map.1 hm
  simp only [Prod.mk.injEq] at heq
  have : e = (ckey H hl (slice data c.1 c.2), c.1) := Prod.ext heq.1 heq.2.2
  rw [← this]
  unfold chunksOf
  rw [List.map_map]
  exact he

/-! ### The tiling-level theorem for the state before the seeds -/

section
variable (H : Bytes → Bytes) (a : Archive) (opts : CloneOpts) (prior src : Bytes) (cks : List Bytes)
  (content : Bytes → Bytes)

/-- The write log after any feeds on top of the state before the seeds. -/
theorem clone_writes_tiling (hd : Describes H a src cks) (hset : CloneSetup H a opts prior cks content)
    (st1 : OutSt Bytes)
    (hst1 : cloneSt1 H a opts prior (indexOf content (cks.map (ckey H a.hashLength))) = some st1)
    (ks : List Bytes) :
    let N := cks.map (ckey H a.hashLength)
    let O := (chunksOf a.config prior).map (ckey H a.hashLength)
    let W := writesOf (feedAll content st1 ks).log
    (∀ w ∈ W, ∃ k, (k, w.1) ∈ placements content N 0 ∧ w.2 = content k) ∧
    (W.map (·.1)).Nodup ∧
    (opts.seedOutput = true →
      ∀ w ∈ W, ∀ k, (k, w.1) ∈ placements content N 0 → (k, w.1) ∉ placements content O 0) ∧
    (∀ w ∈ W, w.1 + w.2.length ≤ src.length) := by
  have hN := srcKeys_ne_nil H a opts prior src cks content hd hset
  have hfile := fileOf_srcKeys H a opts prior src cks content hd hset
  by_cases hso : opts.seedOutput = true
  · have hpc := hset.prior_content hso
    have hscan := scanIndex_eq H a.config hd.valid a.hashLength prior content hpc
    have hprior : fileOf content ((chunksOf a.config prior).map (ckey H a.hashLength)) = prior := by
      rw [fileOf_map_key _ _ _ hpc, chunksOf_flatten a.config hd.valid]
    have hne : ∀ k, k ∈ (chunksOf a.config prior).map (ckey H a.hashLength) ∨
        k ∈ cks.map (ckey H a.hashLength) → content k ≠ [] := by
      rintro k (hk | hk)
      · obtain ⟨c, hc, rfl⟩ := List.mem_map.1 hk
        rw [hpc c hc]
        exact chunksOf_ne_nil a.config hd.valid prior c hc
      · exact hN k hk
    simp only [cloneSt1, hso, if_true] at hst1
    cases hre : (OutSt.mk prior (indexOf content (cks.map (ckey H a.hashLength))) []).reorderInPlace
        (scanIndex H a.config a.hashLength prior) with
    | none => rw [hre] at hst1; cases hst1
    | some r =>
      obtain ⟨st1', ret⟩ := r
      rw [hre] at hst1
      simp only [Option.map_some, Option.some.injEq] at hst1
      subst hst1
      have h := write_log_exact content ((chunksOf a.config prior).map (ckey H a.hashLength))
        (cks.map (ckey H a.hashLength)) hne ks st1' ret (by rw [hprior, ← hscan]; exact hre)
      dsimp only at h ⊢
      rw [hfile] at h
      exact ⟨h.1, h.2.1, fun _ => h.2.2.1, h.2.2.2⟩
  · have hst : st1 = ⟨prior, indexOf content (cks.map (ckey H a.hashLength)), []⟩ := by
      unfold cloneSt1 at hst1
      rw [if_neg hso] at hst1
      exact (Option.some.inj hst1).symm
    subst hst
    have h := write_log_exact_plain content (cks.map (ckey H a.hashLength)) prior hN ks
    dsimp only at h ⊢
    rw [hfile] at h
    exact ⟨h.1, h.2.1, fun h' => absurd h' hso, h.2.2⟩

end

set_option linter.unusedVariables false in
/-- **Write log of a clone.**  The archive header is genuine (it opens to `a`, which describes
`src` cut into `cks`); reader, codec, seeds and prior output are arbitrary, and so is the
result (a clone that ends in an error has obeyed the rule up to there).  Every write is one
source chunk's bytes at one of its offsets in the source; no offset is written twice; nothing is
written at or beyond the source length; in place, an offset where the scan of the prior output
found that very chunk is not written - or a collision is exhibited. -/
theorem clone_write_log_exact (H : Bytes → Bytes) (hH : ∀ x, (H x).length = 64)
    (decomp : Nat → Bytes → Nat → Option Bytes) (features : List Nat)
    (readAt : Nat → Nat → Option Bytes) (readChunks : List (Nat × Nat) → List (Option Bytes))
    (opts : CloneOpts) (prior : Bytes) (seeds : List Bytes)
    (a : Archive) (src : Bytes) (cks : List Bytes)
    (hinit : tryInit H features readAt = .ok a) (hd : Describes H a src cks) :
    let W := writesOf (Clone.run H decomp features readAt readChunks opts prior seeds).log
    ((∀ w ∈ W, w ∈ chunkPlacements cks 0) ∧
     (W.map (·.1)).Nodup ∧
     (∀ w ∈ W, w.1 + w.2.length ≤ src.length) ∧
     (opts.seedOutput = true → ∀ w ∈ W, ∀ c ∈ chunkAll a.config prior,
        c.1 = w.1 → slice prior c.1 c.2 ≠ w.2)) ∨
    Collision H a.hashLength cks ∨
    (opts.seedOutput = true ∧ SelfCollision H a.hashLength a.config prior) := by
  dsimp only
  by_cases hc : Collision H a.hashLength cks
  · exact Or.inr (Or.inl hc)
  by_cases hsc : opts.seedOutput = true ∧ SelfCollision H a.hashLength a.config prior
  · exact Or.inr (Or.inr hsc)
  left
  rcases run_log H decomp features readAt readChunks opts prior seeds a hinit with hlog | hlog
  · rw [hlog]
    simp [writesOf]
  obtain ⟨ix, st1', hix', hst1', hlog⟩ := hlog
  obtain ⟨content, hset⟩ := cloneSetup_exists H a opts prior cks hc hsc
  obtain ⟨hix, st1, hst1, hkeys, _⟩ := clone_phase1 H a opts prior src cks content hd hset
  rw [hix] at hix'
  cases hix'
  rw [hst1] at hst1'
  have hst11 := Option.some.inj hst1'
  subst hst11
  have hsub : ∀ k ∈ st1.index.keys, k ∈ cks.map (ckey H a.hashLength) := fun k hk => ((hkeys k).1 hk).1
  have h2 := clone_phase2 H a opts prior cks content seeds st1 hset hsub
  have hg1 := goodSt_of_keys H a opts prior cks content st1 hset hsub
  have hg2 : GoodSt (ckey H a.hashLength) content (cloneSt2 H a seeds st1) := by
    rw [h2]; exact goodSt_feedAll _ _ st1 hg1 _
  obtain ⟨ks3, hks3⟩ := feedArchive_feeds H decomp a content
    (a.fetchList (cloneSt2 H a seeds st1).index)
    (readChunks (cloneRanges a (cloneSt2 H a seeds st1))) (cloneSt2 H a seeds st1) hg2
  have hst3 : (cloneSt3 H decomp readChunks a (cloneSt2 H a seeds st1)).1 =
      feedAll content st1 (seeds.flatMap (chunkKeys H a.config a.hashLength) ++ ks3) := by
    unfold cloneSt3
    rw [hks3, feedAll_append, ← h2]
  rw [hlog, hst3]
  obtain ⟨t1, t2, t3, t4⟩ := clone_writes_tiling H a opts prior src cks content hd hset st1 hst1
    (seeds.flatMap (chunkKeys H a.config a.hashLength) ++ ks3)
  refine ⟨?_, t2, t4, ?_⟩
  · intro w hw
    obtain ⟨k, hk, hwk⟩ := t1 w hw
    have := chunkPlacements_of_placements (ckey H a.hashLength) content cks 0 hset.src_content k w.1 hk
    rw [← hwk] at this
    exact this
  · intro hso w hw c hcm hoff heq
    obtain ⟨k, hk, hwk⟩ := t1 w hw
    have hk' := t3 hso w hw k hk
    apply hk'
    have hkm : k ∈ cks.map (ckey H a.hashLength) := (mem_placements content _ 0 (k, w.1) hk).2.2
    obtain ⟨c', hc', rfl⟩ := List.mem_map.1 hkm
    have hp := placement_of_chunkAll H a.config hd.valid a.hashLength prior content
      (hset.prior_content hso) c hcm
    rw [heq, hwk, hset.src_content c' hc', hoff] at hp
    exact hp

end Bita.Proofs
