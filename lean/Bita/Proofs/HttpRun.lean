import Bita.Proofs.HttpFeed

namespace Bita.Proofs
open Bita Bita.Spec

section stuck
variable (serve : Nat → Nat → Bytes) (retry : Nat) (c : ChunkOffset) (cs : List ChunkOffset)
  (buf : Bytes) (adj off size rl : Nat)

theorem drain_short (req : Option (Nat × Nat × Nat)) (hbuf : buf.length < c.size) :
    CR.drain (c :: cs) buf adj req = ([], ⟨c :: cs, buf, adj, req⟩, false) := by
  rw [CR.drain, if_neg (by omega)]

theorem run_stuck_nil (hbuf : buf.length < c.size) (hne : 0 < size) :
    CR.run serve retry [] ⟨c :: cs, buf, adj, some (off, size, rl)⟩ =
      ⟨[Item.stall], [(off, size)]⟩ := by
  rw [CR.run]
  dsimp only
  rw [drain_short c cs buf adj _ hbuf]
  simp [CR.ensureReq]
  omega

theorem run_stuck_refuse0 (s : List Resp) (hbuf : buf.length < c.size) (hne : 0 < size) :
    CR.run serve retry (.refuse :: s) ⟨c :: cs, buf, adj, some (off, size, 0)⟩ =
      ⟨[Item.errHttp], [(off, size)]⟩ := by
  rw [CR.run]
  dsimp only
  rw [drain_short c cs buf adj _ hbuf]
  simp [CR.ensureReq]
  omega

theorem run_stuck_refuse (s : List Resp) (hbuf : buf.length < c.size) (hne : 0 < size)
    (hrl : rl ≠ 0) :
    CR.run serve retry (.refuse :: s) ⟨c :: cs, buf, adj, some (off, size, rl)⟩ =
      ⟨(CR.run serve retry s ⟨c :: cs, buf, adj, some (off, size, rl - 1)⟩).items,
       (off, size) :: (CR.run serve retry s ⟨c :: cs, buf, adj, some (off, size, rl - 1)⟩).reqs⟩ := by
  rw [CR.run]
  dsimp only
  rw [drain_short c cs buf adj _ hbuf]
  simp [CR.ensureReq, hrl]
  omega

theorem run_stuck_full_done (s : List Resp) (frags : List Nat) (its : List Item) (st2 : CR)
    (hbuf : buf.length < c.size) (hne : 0 < size)
    (hfeed : CR.feed (splitBy frags (serve off size)) ⟨c :: cs, buf, adj, some (off, size, rl)⟩ =
      .runDone its st2) :
    CR.run serve retry (.full frags :: s) ⟨c :: cs, buf, adj, some (off, size, rl)⟩ =
      ⟨its ++ (CR.run serve retry s st2).items, (off, size) :: (CR.run serve retry s st2).reqs⟩ := by
  rw [CR.run]
  dsimp only
  rw [drain_short c cs buf adj _ hbuf]
  simp [CR.ensureReq, hfeed]
  omega

theorem run_stuck_part_done (s : List Resp) (n : Nat) (frags : List Nat) (cut : Bool)
    (its : List Item) (st2 : CR)
    (hbuf : buf.length < c.size) (hne : 0 < size)
    (hfeed : CR.feed (splitBy frags ((serve off size).take n))
      ⟨c :: cs, buf, adj, some (off, size, rl)⟩ = .runDone its st2) :
    CR.run serve retry (.part n frags cut :: s) ⟨c :: cs, buf, adj, some (off, size, rl)⟩ =
      ⟨its ++ (CR.run serve retry s st2).items, (off, size) :: (CR.run serve retry s st2).reqs⟩ := by
  rw [CR.run]
  dsimp only
  rw [drain_short c cs buf adj _ hbuf]
  simp [CR.ensureReq, hfeed]
  omega

theorem run_stuck_part_end (s : List Resp) (n : Nat) (frags : List Nat)
    (its : List Item) (st2 : CR)
    (hbuf : buf.length < c.size) (hne : 0 < size)
    (hfeed : CR.feed (splitBy frags ((serve off size).take n))
      ⟨c :: cs, buf, adj, some (off, size, rl)⟩ = .bodyDone its st2) :
    CR.run serve retry (.part n frags false :: s) ⟨c :: cs, buf, adj, some (off, size, rl)⟩ =
      ⟨its ++ [Item.errEnd], [(off, size)]⟩ := by
  rw [CR.run]
  dsimp only
  rw [drain_short c cs buf adj _ hbuf]
  simp [CR.ensureReq, hfeed]
  omega

theorem run_stuck_part_cut0 (s : List Resp) (n : Nat) (frags : List Nat)
    (its : List Item) (ch2 : List ChunkOffset) (buf2 : Bytes) (adj2 off2 size2 : Nat)
    (hbuf : buf.length < c.size) (hne : 0 < size)
    (hfeed : CR.feed (splitBy frags ((serve off size).take n))
      ⟨c :: cs, buf, adj, some (off, size, rl)⟩ =
        .bodyDone its ⟨ch2, buf2, adj2, some (off2, size2, 0)⟩) :
    CR.run serve retry (.part n frags true :: s) ⟨c :: cs, buf, adj, some (off, size, rl)⟩ =
      ⟨its ++ [Item.errHttp], [(off, size)]⟩ := by
  rw [CR.run]
  dsimp only
  rw [drain_short c cs buf adj _ hbuf]
  simp [CR.ensureReq, hfeed]
  omega

theorem run_stuck_part_cut (s : List Resp) (n : Nat) (frags : List Nat)
    (its : List Item) (ch2 : List ChunkOffset) (buf2 : Bytes) (adj2 off2 size2 rl2 : Nat)
    (hbuf : buf.length < c.size) (hne : 0 < size) (hrl : rl2 ≠ 0)
    (hfeed : CR.feed (splitBy frags ((serve off size).take n))
      ⟨c :: cs, buf, adj, some (off, size, rl)⟩ =
        .bodyDone its ⟨ch2, buf2, adj2, some (off2, size2, rl2)⟩) :
    CR.run serve retry (.part n frags true :: s) ⟨c :: cs, buf, adj, some (off, size, rl)⟩ =
      ⟨its ++ (CR.run serve retry s ⟨ch2, buf2, adj2, some (off2, size2, rl2 - 1)⟩).items,
       (off, size) :: (CR.run serve retry s ⟨ch2, buf2, adj2, some (off2, size2, rl2 - 1)⟩).reqs⟩ := by
  rw [CR.run]
  dsimp only
  rw [drain_short c cs buf adj _ hbuf]
  simp [CR.ensureReq, hfeed, hrl]
  omega

end stuck

end Bita.Proofs
