/-
  Soundness, completeness and fetch-exactness of the clone model (C01, C02, C04 T1, C06, C17),
  built on the tiling-level theorems of Bita.Proofs.InPlace and on C09's tiling theorem.
-/
import Bita.Model.Clone
import Bita.Spec.ArchiveSpec
import Bita.Spec.InPlace
import Bita.Spec.Chunking
import Bita.Spec.Tiling
import Bita.Proofs.InPlace
import Bita.Proofs.ChunkRule
import Bita.Proofs.SpecChunks
import Bita.Proofs.TryInit
import Bita.Proofs.CloneRun
import Bita.Proofs.CloneHeader
import Bita.Proofs.CloneLength
import Bita.Proofs.ClonePhases

namespace Bita.Proofs
open Bita Bita.Proto Bita.Spec

/-- Keys the scan of the prior output (when it is the seed) and of the seeds find. -/
def foundKeys (H : Bytes → Bytes) (a : Archive) (opts : CloneOpts) (prior : Bytes) (seeds : List Bytes) : List Bytes :=
  (if opts.seedOutput then chunkKeys H a.config a.hashLength prior else []) ++
    seeds.flatMap (chunkKeys H a.config a.hashLength)

theorem banner_no_panic (a : Archive) (hv : a.config.Valid) : ∀ s, a.banner ≠ .panic s := by
  intro s
  unfold Archive.banner
  cases hcfg : a.config with
  | fixed n => simp
  | buzhash f =>
    rw [hcfg] at hv
    have := hv.2.2.2.2
    have h1 : ¬ f.bits + 1 ≥ 32 := by omega
    have h2 : ¬ f.bits > 32 := by omega
    have h3 : ¬ 32 - f.bits ≥ 32 := by have := hv.2.2.2.1; omega
    simp [h1, h2, h3]
  | rollsum f =>
    rw [hcfg] at hv
    have := hv.2.2.2.2
    have h1 : ¬ f.bits + 1 ≥ 32 := by omega
    have h2 : ¬ f.bits > 32 := by omega
    have h3 : ¬ 32 - f.bits ≥ 32 := by have := hv.2.2.2.1; omega
    simp [h1, h2, h3]

theorem foundKeys_eq (H : Bytes → Bytes) (a : Archive) (opts : CloneOpts) (prior : Bytes) (seeds : List Bytes) :
    foundKeys H a opts prior seeds =
      priorKeys H a opts prior ++ seeds.flatMap (chunkKeys H a.config a.hashLength) := rfl

/-- **Soundness.**  The archive header is genuine (it opens to `a`, which describes `src`); the
chunk reader may answer every request with *arbitrary* bytes; seeds and prior output are
arbitrary.  A clone that reports success has produced the source - or a collision of the
truncated strong hash is exhibited. -/
theorem clone_sound (H : Bytes → Bytes) (hH : ∀ x, (H x).length = 64)
    (decomp : Nat → Bytes → Nat → Option Bytes) (features : List Nat)
    (readAt : Nat → Nat → Option Bytes) (readChunks : List (Nat × Nat) → List (Option Bytes))
    (opts : CloneOpts) (prior : Bytes) (seeds : List Bytes)
    (a : Archive) (src : Bytes) (cks : List Bytes)
    (hinit : tryInit H features readAt = .ok a) (hd : Describes H a src cks)
    (hitems : ∀ ranges, (readChunks ranges).length = ranges.length) :
    let r := Clone.run H decomp features readAt readChunks opts prior seeds
    r.result = .ok →
      (setLen r.output src.length = src ∧ (opts.blockDev = false → r.output = src)) ∨
      Collision H a.hashLength cks ∨
      (opts.seedOutput = true ∧ SelfCollision H a.hashLength a.config prior) := by
  dsimp only
  intro hr
  by_cases hc : Collision H a.hashLength cks
  · exact Or.inr (Or.inl hc)
  by_cases hsc : opts.seedOutput = true ∧ SelfCollision H a.hashLength a.config prior
  · exact Or.inr (Or.inr hsc)
  left
  obtain ⟨content, hset⟩ := cloneSetup_exists H a opts prior cks hc hsc
  obtain ⟨hix, st1, hst1, hkeys, hfeed⟩ := clone_phase1 H a opts prior src cks content hd hset
  obtain ⟨ix, st1', st3, hix', hst1', h3, ho, _, _⟩ :=
    run_ok_inv H decomp features readAt readChunks opts prior seeds a hinit hr
  rw [hix] at hix'
  cases hix'
  rw [hst1] at hst1'
  cases hst1'
  obtain ⟨ks, hks, hcov⟩ := clone_phase3 H a opts prior src cks content seeds st1 hH hd hset
    (fun k hk => ((hkeys k).1 hk).1) decomp readChunks hitems st3 h3
  rw [ho]
  apply cloneOutput_correct opts a st3 src hd.total
  rw [hks]
  exact hfeed ks hcov

/-- **Completeness.**  With an honest reader over archive bytes that store the chunks, no pin
mismatch and (for a block device) enough room, the clone succeeds (and by soundness yields the
source) - or a collision is exhibited.  `--verify-output` is allowed on a block device longer than
the source as well: since the F17 repair (`Gen.verifyHashesSourceSizeOnly`) verification hashes the
first `source_total_size` bytes only (before it, it hashed the whole device and always failed there -
found while proving this). -/
theorem clone_complete (H : Bytes → Bytes) (hH : ∀ x, (H x).length = 64)
    (decomp : Nat → Bytes → Nat → Option Bytes) (features : List Nat)
    (archive : Bytes) (opts : CloneOpts) (prior : Bytes) (seeds : List Bytes)
    (a : Archive) (src : Bytes) (cks : List Bytes)
    (hinit : tryInit H features (honestReadAt archive) = .ok a) (hd : Describes H a src cks)
    (hs : Stored H decomp a archive)
    (hpin : ∀ pin, opts.headerPin = some pin → pin = a.headerChecksum)
    (hdev : opts.blockDev = true → src.length ≤ prior.length) :
    let r := Clone.run H decomp features (honestReadAt archive) (honestReadChunks archive) opts prior seeds
    (r.result = .ok ∧ setLen r.output src.length = src ∧ (opts.blockDev = false → r.output = src)) ∨
      Collision H a.hashLength cks ∨
      (opts.seedOutput = true ∧ SelfCollision H a.hashLength a.config prior) := by
  dsimp only
  by_cases hc : Collision H a.hashLength cks
  · exact Or.inr (Or.inl hc)
  by_cases hsc : opts.seedOutput = true ∧ SelfCollision H a.hashLength a.config prior
  · exact Or.inr (Or.inr hsc)
  left
  obtain ⟨content, hset⟩ := cloneSetup_exists H a opts prior cks hc hsc
  obtain ⟨hix, st1, hst1, hkeys, hfeed⟩ := clone_phase1 H a opts prior src cks content hd hset
  have hitems : ∀ ranges, (honestReadChunks archive ranges).length = ranges.length :=
    fun ranges => List.length_map _
  have hnone : (cloneSt3 H decomp (honestReadChunks archive) a (cloneSt2 H a seeds st1)).2 = none :=
    feedArchive_honest H decomp a archive hs _ _ (fun d h => (List.mem_filter.1 h).1)
  have h3 : cloneSt3 H decomp (honestReadChunks archive) a (cloneSt2 H a seeds st1) =
      ((cloneSt3 H decomp (honestReadChunks archive) a (cloneSt2 H a seeds st1)).1, none) :=
    Prod.ext rfl hnone
  obtain ⟨ks, hks, hcov⟩ := clone_phase3 H a opts prior src cks content seeds st1 hH hd hset
    (fun k hk => ((hkeys k).1 hk).1) decomp (honestReadChunks archive) hitems _ h3
  have hres : resize (cloneSt3 H decomp (honestReadChunks archive) a (cloneSt2 H a seeds st1)).1.file
      src.length = src := by
    rw [hks]; exact hfeed ks hcov
  obtain ⟨ho1, ho2⟩ := cloneOutput_correct opts a _ src hd.total hres
  have hpin' : clonePinBad opts a = false := by
    unfold clonePinBad
    cases hp : opts.headerPin with
    | none => rfl
    | some pin => simp [hpin pin hp]
  have hdev' : ¬ (opts.blockDev ∧ prior.length < a.sourceTotalSize) := by
    rintro ⟨h1, h2⟩
    have := hdev h1
    rw [hd.total] at h2
    omega
  obtain ⟨hr, ho⟩ := run_ok_intro H decomp features (honestReadAt archive) (honestReadChunks archive)
    opts prior seeds a hinit _ st1 _ hix (banner_no_panic a hd.valid) hpin' hdev' hst1 h3
    (by
      intro _
      rw [cloneHashed_correct opts a _ src hd.total ho1 (fun hb => Nat.le_trans (hdev hb)
        (cloneStages_length_le H decomp (honestReadChunks archive) a opts prior seeds _ st1 hst1)),
        hd.checksum]
      exact hashTruncate_of_le _ _ (Nat.le_refl _))
  rw [ho]
  exact ⟨hr, ho1, ho2⟩

set_option linter.unusedVariables false in
/-- **Fetch exactness** (C06).  A successful clone has asked the archive reader for the
pre-header, the rest of the header, and then - in one `read_chunks` call - exactly the stored
ranges of the descriptors (in descriptor order, each once) whose key the scans of the prior
output (when used as seed) and of the seeds did not find.  Nothing else. -/
theorem fetch_exact (H : Bytes → Bytes) (hH : ∀ x, (H x).length = 64)
    (decomp : Nat → Bytes → Nat → Option Bytes) (features : List Nat)
    (readAt : Nat → Nat → Option Bytes) (readChunks : List (Nat × Nat) → List (Option Bytes))
    (opts : CloneOpts) (prior : Bytes) (seeds : List Bytes)
    (a : Archive) (src : Bytes) (cks : List Bytes)
    (hinit : tryInit H features readAt = .ok a) (hd : Describes H a src cks)
    (hitems : ∀ ranges, (readChunks ranges).length = ranges.length) :
    let r := Clone.run H decomp features readAt readChunks opts prior seeds
    r.result = .ok →
      r.requests = [ArchReq.readAt 0 Gen.preHeaderSize,
                    ArchReq.readAt Gen.preHeaderSize (a.headerSize - Gen.preHeaderSize),
                    ArchReq.readChunks ((a.chunks.filter (fun d =>
                      !(foundKeys H a opts prior seeds).contains (hashTruncate d.checksum a.hashLength))).map
                      (fun d => (d.archiveOffset, d.archiveSize)))] ∨
      Collision H a.hashLength cks ∨
      (opts.seedOutput = true ∧ SelfCollision H a.hashLength a.config prior) := by
  dsimp only
  intro hr
  by_cases hc : Collision H a.hashLength cks
  · exact Or.inr (Or.inl hc)
  by_cases hsc : opts.seedOutput = true ∧ SelfCollision H a.hashLength a.config prior
  · exact Or.inr (Or.inr hsc)
  left
  obtain ⟨content, hset⟩ := cloneSetup_exists H a opts prior cks hc hsc
  obtain ⟨hix, st1, hst1, hkeys, _⟩ := clone_phase1 H a opts prior src cks content hd hset
  obtain ⟨ix, st1', st3, hix', hst1', _, _, hq, _⟩ :=
    run_ok_inv H decomp features readAt readChunks opts prior seeds a hinit hr
  rw [hix] at hix'
  cases hix'
  rw [hst1] at hst1'
  cases hst1'
  have hge := tryInit_headerSize_ge H features readAt a hinit
  rw [hq, cloneRanges, fetchList_eq H a opts prior src cks content seeds st1 hH hd hset hkeys,
    foundKeys_eq, cloneHdrReqs]
  have : a.headerSize - Gen.preHeaderSize - 72 + 72 = a.headerSize - Gen.preHeaderSize := by omega
  rw [this]
  rfl

/-- `--verify-header`: a clone proceeds past the pin only if the archive's header checksum
equals the expected one as byte strings. -/
theorem clone_pin (H : Bytes → Bytes) (decomp : Nat → Bytes → Nat → Option Bytes) (features : List Nat)
    (readAt : Nat → Nat → Option Bytes) (readChunks : List (Nat × Nat) → List (Option Bytes))
    (opts : CloneOpts) (prior : Bytes) (seeds : List Bytes) (a : Archive) (pin : Bytes)
    (hinit : tryInit H features readAt = .ok a) (hp : opts.headerPin = some pin)
    (hne : pin ≠ a.headerChecksum) :
    let r := Clone.run H decomp features readAt readChunks opts prior seeds
    r.result ≠ .ok ∧ r.output = prior ∧ r.log = [] ∧
      ∀ q ∈ r.requests, ∃ o s, q = ArchReq.readAt o s := by
  dsimp only
  unfold Clone.run
  simp only [hinit, hp]
  split
  · simp
  · simp
  · simp [hne]

/-- `--verify-output`: success implies that the first `source_total_size` bytes of the output - what
the repaired code hashes (`Gen.verifyHashesSourceSizeOnly`); all of a regular file, the part of a
block device that the clone is about - hash to the recorded source checksum. -/
theorem clone_verify_output (H : Bytes → Bytes) (decomp : Nat → Bytes → Nat → Option Bytes)
    (features : List Nat)
    (readAt : Nat → Nat → Option Bytes) (readChunks : List (Nat × Nat) → List (Option Bytes))
    (opts : CloneOpts) (prior : Bytes) (seeds : List Bytes) (a : Archive)
    (hinit : tryInit H features readAt = .ok a) (hv : opts.verifyOutput = true) :
    let r := Clone.run H decomp features readAt readChunks opts prior seeds
    r.result = .ok →
      hashTruncate (H (r.output.take a.sourceTotalSize)) a.sourceChecksum.length = a.sourceChecksum := by
  dsimp only
  intro hr
  obtain ⟨ix, st1, st3, _, _, _, ho, _, hvo⟩ :=
    run_ok_inv H decomp features readAt readChunks opts prior seeds a hinit hr
  rw [ho, ← cloneHashed_eq]
  exact hvo hv

/-- ... and for a regular file that is the whole output. -/
theorem clone_verify_output_file (H : Bytes → Bytes) (decomp : Nat → Bytes → Nat → Option Bytes)
    (features : List Nat)
    (readAt : Nat → Nat → Option Bytes) (readChunks : List (Nat × Nat) → List (Option Bytes))
    (opts : CloneOpts) (prior : Bytes) (seeds : List Bytes) (a : Archive)
    (hinit : tryInit H features readAt = .ok a) (hv : opts.verifyOutput = true)
    (hb : opts.blockDev = false) :
    let r := Clone.run H decomp features readAt readChunks opts prior seeds
    r.result = .ok → hashTruncate (H r.output) a.sourceChecksum.length = a.sourceChecksum := by
  dsimp only
  intro hr
  have h := clone_verify_output H decomp features readAt readChunks opts prior seeds a hinit hv hr
  obtain ⟨ix, st1, st3, _, _, _, ho, _, _⟩ :=
    run_ok_inv H decomp features readAt readChunks opts prior seeds a hinit hr
  have hl : (Clone.run H decomp features readAt readChunks opts prior seeds).output.length ≤
      a.sourceTotalSize := by
    rw [ho]
    unfold cloneOutput
    rw [hb]
    simp [setLen]
    omega
  rwa [List.take_of_length_le hl] at h

/-- A refused clone (archive does not open) leaves the output untouched and issues no write. -/
theorem clone_refused_untouched (H : Bytes → Bytes) (decomp : Nat → Bytes → Nat → Option Bytes)
    (features : List Nat)
    (readAt : Nat → Nat → Option Bytes) (readChunks : List (Nat × Nat) → List (Option Bytes))
    (opts : CloneOpts) (prior : Bytes) (seeds : List Bytes)
    (hinit : ∀ a, tryInit H features readAt ≠ .ok a) :
    let r := Clone.run H decomp features readAt readChunks opts prior seeds
    r.result ≠ .ok ∧ r.output = prior ∧ r.log = [] := by
  dsimp only
  unfold Clone.run
  cases h : tryInit H features readAt with
  | ok a => exact absurd h (hinit a)
  | invalid w => simp
  | readerErr => simp
  | panic s => simp
  | abort s => simp

end Bita.Proofs
