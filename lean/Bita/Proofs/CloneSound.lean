/-
  Soundness, completeness and fetch-exactness of the clone model (C01, C02, C04 T1, C06, C17),
  built on the tiling-level theorems of Bita.Proofs.InPlace and on C09's tiling theorem.
-/
import Bita.Model.Clone
import Bita.Spec.ArchiveSpec
import Bita.Spec.InPlace
import Bita.Spec.Chunking
import Bita.Spec.Tiling
import Bita.Proofs.InPlace
import Bita.Proofs.ChunkRule
import Bita.Proofs.SpecChunks
import Bita.Proofs.TryInit

namespace Bita.Proofs
open Bita Bita.Proto Bita.Spec

/-- Keys the scan of the prior output (when it is the seed) and of the seeds find. -/
def foundKeys (H : Bytes → Bytes) (a : Archive) (opts : CloneOpts) (prior : Bytes) (seeds : List Bytes) : List Bytes :=
  (if opts.seedOutput then chunkKeys H a.config a.hashLength prior else []) ++
    seeds.flatMap (chunkKeys H a.config a.hashLength)

/-- **Soundness.**  The archive header is genuine (it opens to `a`, which describes `src`); the
chunk reader may answer every request with *arbitrary* bytes; seeds and prior output are
arbitrary.  A clone that reports success has produced the source - or a collision of the
truncated strong hash is exhibited. -/
theorem clone_sound (H : Bytes → Bytes) (hH : ∀ x, (H x).length = 64)
    (decomp : Nat → Bytes → Nat → Option Bytes) (features : List Nat)
    (readAt : Nat → Nat → Option Bytes) (readChunks : List (Nat × Nat) → List (Option Bytes))
    (opts : CloneOpts) (prior : Bytes) (seeds : List Bytes)
    (a : Archive) (src : Bytes) (cks : List Bytes)
    (hinit : tryInit H features readAt = .ok a) (hd : Describes H a src cks)
    (hitems : ∀ ranges, (readChunks ranges).length = ranges.length) :
    let r := Clone.run H decomp features readAt readChunks opts prior seeds
    r.result = .ok →
      (setLen r.output src.length = src ∧ (opts.blockDev = false → r.output = src)) ∨
      Collision H a.hashLength cks ∨
      (opts.seedOutput = true ∧ SelfCollision H a.hashLength a.config prior) := by
  sorry

/-- **Completeness.**  With an honest reader over archive bytes that store the chunks, no pin
mismatch and (for a block device) enough room, the clone succeeds (and by soundness yields the
source) - or a collision is exhibited. -/
theorem clone_complete (H : Bytes → Bytes) (hH : ∀ x, (H x).length = 64)
    (decomp : Nat → Bytes → Nat → Option Bytes) (features : List Nat)
    (archive : Bytes) (opts : CloneOpts) (prior : Bytes) (seeds : List Bytes)
    (a : Archive) (src : Bytes) (cks : List Bytes)
    (hinit : tryInit H features (honestReadAt archive) = .ok a) (hd : Describes H a src cks)
    (hs : Stored H decomp a archive)
    (hpin : ∀ pin, opts.headerPin = some pin → pin = a.headerChecksum)
    (hdev : opts.blockDev = true → src.length ≤ prior.length) :
    let r := Clone.run H decomp features (honestReadAt archive) (honestReadChunks archive) opts prior seeds
    (r.result = .ok ∧ setLen r.output src.length = src ∧ (opts.blockDev = false → r.output = src)) ∨
      Collision H a.hashLength cks ∨
      (opts.seedOutput = true ∧ SelfCollision H a.hashLength a.config prior) := by
  sorry

/-- **Fetch exactness** (C06).  A successful clone has asked the archive reader for the
pre-header, the rest of the header, and then - in one `read_chunks` call - exactly the stored
ranges of the descriptors (in descriptor order, each once) whose key the scans of the prior
output (when used as seed) and of the seeds did not find.  Nothing else. -/
theorem fetch_exact (H : Bytes → Bytes) (hH : ∀ x, (H x).length = 64)
    (decomp : Nat → Bytes → Nat → Option Bytes) (features : List Nat)
    (readAt : Nat → Nat → Option Bytes) (readChunks : List (Nat × Nat) → List (Option Bytes))
    (opts : CloneOpts) (prior : Bytes) (seeds : List Bytes)
    (a : Archive) (src : Bytes) (cks : List Bytes)
    (hinit : tryInit H features readAt = .ok a) (hd : Describes H a src cks)
    (hitems : ∀ ranges, (readChunks ranges).length = ranges.length) :
    let r := Clone.run H decomp features readAt readChunks opts prior seeds
    r.result = .ok →
      r.requests = [ArchReq.readAt 0 Gen.preHeaderSize,
                    ArchReq.readAt Gen.preHeaderSize (a.headerSize - Gen.preHeaderSize),
                    ArchReq.readChunks ((a.chunks.filter (fun d =>
                      !(foundKeys H a opts prior seeds).contains (hashTruncate d.checksum a.hashLength))).map
                      (fun d => (d.archiveOffset, d.archiveSize)))] ∨
      Collision H a.hashLength cks ∨
      (opts.seedOutput = true ∧ SelfCollision H a.hashLength a.config prior) := by
  sorry

/-- `--verify-header`: a clone proceeds past the pin only if the archive's header checksum
equals the expected one as byte strings. -/
theorem clone_pin (H : Bytes → Bytes) (decomp : Nat → Bytes → Nat → Option Bytes) (features : List Nat)
    (readAt : Nat → Nat → Option Bytes) (readChunks : List (Nat × Nat) → List (Option Bytes))
    (opts : CloneOpts) (prior : Bytes) (seeds : List Bytes) (a : Archive) (pin : Bytes)
    (hinit : tryInit H features readAt = .ok a) (hp : opts.headerPin = some pin)
    (hne : pin ≠ a.headerChecksum) :
    let r := Clone.run H decomp features readAt readChunks opts prior seeds
    r.result ≠ .ok ∧ r.output = prior ∧ r.log = [] ∧
      ∀ q ∈ r.requests, ∃ o s, q = ArchReq.readAt o s := by
  sorry

/-- `--verify-output`: success implies the output hashes to the recorded source checksum. -/
theorem clone_verify_output (H : Bytes → Bytes) (decomp : Nat → Bytes → Nat → Option Bytes)
    (features : List Nat)
    (readAt : Nat → Nat → Option Bytes) (readChunks : List (Nat × Nat) → List (Option Bytes))
    (opts : CloneOpts) (prior : Bytes) (seeds : List Bytes) (a : Archive)
    (hinit : tryInit H features readAt = .ok a) (hv : opts.verifyOutput = true) :
    let r := Clone.run H decomp features readAt readChunks opts prior seeds
    r.result = .ok → hashTruncate (H r.output) a.sourceChecksum.length = a.sourceChecksum := by
  sorry

/-- A refused clone (archive does not open) leaves the output untouched and issues no write. -/
theorem clone_refused_untouched (H : Bytes → Bytes) (decomp : Nat → Bytes → Nat → Option Bytes)
    (features : List Nat)
    (readAt : Nat → Nat → Option Bytes) (readChunks : List (Nat × Nat) → List (Option Bytes))
    (opts : CloneOpts) (prior : Bytes) (seeds : List Bytes)
    (hinit : ∀ a, tryInit H features readAt ≠ .ok a) :
    let r := Clone.run H decomp features readAt readChunks opts prior seeds
    r.result ≠ .ok ∧ r.output = prior ∧ r.log = [] := by
  sorry

end Bita.Proofs
