import Bita.Proofs.Schedule
namespace Bita.Proofs
open Bita

theorem unordered_perm_eraseIdx {β : Type} (l : List β) (j : Nat) (h : j < l.length) :
    List.Perm (l[j] :: l.eraseIdx j) l := by
  induction l generalizing j with
  | nil => simp at h
  | cons a t ih =>
    cases j with
    | zero => simp
    | succ j =>
      simp only [List.length_cons, Nat.add_lt_add_iff_right] at h
      simp only [List.getElem_cons_succ, List.eraseIdx_cons_succ]
      exact (List.Perm.swap a t[j] _).trans ((ih j h).cons a)

theorem unordered_topup_fst {α : Type} (inf : List (α × Bool)) (inp : List α) (k : Nat) :
    (inf ++ (inp.take k).map (·, false)).map (·.1) ++ inp.drop k = inf.map (·.1) ++ inp := by
  simp [List.map_append, List.map_map, Function.comp_def, List.append_assoc, List.take_append_drop]

theorem stepUnordered_perm {α : Type} (n : Nat) (s : BufSt α) (e : SchedEv) :
    List.Perm ((s.stepUnordered n e).out ++ (s.stepUnordered n e).inflight.map (·.1) ++ (s.stepUnordered n e).input)
      (s.out ++ s.inflight.map (·.1) ++ s.input) := by
  cases e with
  | finish i =>
    simp only [BufSt.stepUnordered, schedule_mapIdx_fst]
    exact List.Perm.refl _
  | poll =>
    simp only [BufSt.stepUnordered]
    generalize hl : s.inflight ++ (s.input.take (n - s.inflight.length)).map (·, false) = l
    have hfst := unordered_topup_fst s.inflight s.input (n - s.inflight.length)
    rw [hl] at hfst
    split
    · rename_i j hj
      have hlt : j < l.length := by
        have := List.findIdx?_eq_some_iff_getElem.mp hj
        exact this.1
      simp only [List.getElem?_eq_getElem hlt, Option.map_some, Option.toList_some]
      have hp := (unordered_perm_eraseIdx l j hlt).map (·.1)
      simp only [List.map_cons] at hp
      simp only [List.append_assoc]
      apply List.Perm.append_left
      rw [← hfst, ← List.append_assoc]
      apply List.Perm.append_right
      exact hp
    · simp only [List.append_assoc] at hfst ⊢
      rw [hfst]

theorem unordered_foldl_perm {α : Type} (n : Nat) (sched : List SchedEv) (s0 : BufSt α) :
    let s := sched.foldl (fun s e => s.stepUnordered n e) s0
    List.Perm (s.out ++ s.inflight.map (·.1) ++ s.input) (s0.out ++ s0.inflight.map (·.1) ++ s0.input) := by
  induction sched generalizing s0 with
  | nil => exact List.Perm.refl _
  | cons e es ih =>
    intro s
    exact (ih (s0.stepUnordered n e)).trans (stepUnordered_perm n s0 e)

theorem unordered_run_perm {α : Type} (n : Nat) (xs : List α) (sched : List SchedEv) :
    let s : BufSt α := sched.foldl (fun s e => s.stepUnordered n e) ⟨xs, [], []⟩
    List.Perm (s.out ++ s.inflight.map (·.1) ++ s.input) xs := by
  intro s
  have h := unordered_foldl_perm n sched (⟨xs, [], []⟩ : BufSt α)
  simpa using h

theorem unordered_run_complete {α : Type} (n : Nat) (xs : List α) (sched : List SchedEv) (s : BufSt α)
    (hs : s = sched.foldl (fun s e => s.stepUnordered n e) ⟨xs, [], []⟩)
    (hi : s.input = []) (hf : s.inflight = []) : List.Perm s.out xs := by
  have h := unordered_run_perm n xs sched
  simp only [← hs] at h
  simpa [hi, hf] using h

theorem stepUnordered_inflight_le {α : Type} (n : Nat) (s : BufSt α) (e : SchedEv)
    (h : s.inflight.length ≤ n) : (s.stepUnordered n e).inflight.length ≤ n := by
  cases e with
  | finish i => simpa [BufSt.stepUnordered] using h
  | poll =>
    simp only [BufSt.stepUnordered]
    have hl : (s.inflight ++ (s.input.take (n - s.inflight.length)).map (·, false)).length ≤ n := by
      simp only [List.length_append, List.length_map, List.length_take]
      omega
    split
    · exact Nat.le_trans (List.length_eraseIdx_le _ _) hl
    · exact hl

end Bita.Proofs
