/-
  Properties of the pure chunking rule: tiling, size bounds, resynchronisation (C09, C10).
-/
import Bita.Spec.Chunking
import Bita.Spec.Tiling

namespace Bita.Proofs
open Bita Bita.Spec

theorem specChunks_tile (cfg : Config) (hv : cfg.Valid) (data : Bytes) :
    Tiles (specChunks cfg data) 0 data.length := by
  sorry

theorem tiles_concat (data : Bytes) (cs : List (Nat × Nat)) (s : Nat)
    (h : Tiles cs s data.length) :
    (cs.map (fun c => slice data c.1 c.2)).flatten = data.drop s := by
  sorry

theorem specChunks_bounds (cfg : Config) (hv : cfg.Valid) (data : Bytes) :
    ∀ c ∈ allButLast (specChunks cfg data),
      match cfg with
      | .rollsum f => max f.minSize 1 ≤ c.2 ∧ c.2 ≤ f.maxSize
      | .buzhash f => max f.minSize 1 ≤ c.2 ∧ c.2 ≤ f.maxSize
      | .fixed n => c.2 = n := by
  sorry

theorem spec_resync (cfg : Config) (hv : cfg.Valid) (hroll : ∀ n, cfg ≠ .fixed n)
    (P1 P2 S : Bytes) (B : Nat)
    (hB : windowOf cfg ≤ B)
    (hBS : B ≤ S.length)
    (h1 : IsEnd (specChunks cfg (P1 ++ S)) (P1.length + B))
    (h2 : IsEnd (specChunks cfg (P2 ++ S)) (P2.length + B)) :
    chunksFrom (specChunks cfg (P1 ++ S)) (P1.length + B) P1.length =
    chunksFrom (specChunks cfg (P2 ++ S)) (P2.length + B) P2.length := by
  sorry

theorem fixed_resync (n : Nat) (hn : 1 ≤ n) (P1 P2 S : Bytes) (B : Nat) (hBS : B ≤ S.length)
    (h1 : IsEnd (specChunks (.fixed n) (P1 ++ S)) (P1.length + B))
    (h2 : IsEnd (specChunks (.fixed n) (P2 ++ S)) (P2.length + B)) :
    chunksFrom (specChunks (.fixed n) (P1 ++ S)) (P1.length + B) P1.length =
    chunksFrom (specChunks (.fixed n) (P2 ++ S)) (P2.length + B) P2.length := by
  sorry

end Bita.Proofs
