/-
  Properties of the pure chunking rule: tiling, size bounds, resynchronisation (C09, C10).

  Helper lemmas live in the namespace `Bita.Proofs.SpecChunks`; the five theorems used by
  `Bita/Props/C09.lean` and `Bita/Props/C10.lean` are at the end of the file.

  Remark (statements kept as given): the proof of `spec_resync` uses neither `hv` nor `hBS`,
  and the proof of `fixed_resync` does not use `hn` - the step functions refuse empty chunks
  by themselves, and resynchronisation only needs `windowOf cfg ≤ B` and the two chunk ends.
-/
import Bita.Spec.Chunking
import Bita.Spec.Tiling
import Bita.Proofs.ValidLemmas

namespace Bita.Proofs
open Bita Bita.Spec

namespace SpecChunks

/-! ### `firstBoundary` and `specCut` -/

theorem firstBoundary_bounds (algo : Algo) (n : Nat) (mask : U32) (data : Bytes) (s : Nat) :
    ∀ k lo L, firstBoundary algo n mask data s lo k = some L → lo ≤ L ∧ L < lo + k := by
  intro k
  induction k with
  | zero => intro lo L h; simp [firstBoundary] at h
  | succ k ih =>
    intro lo L h
    simp only [firstBoundary] at h
    split at h
    · cases h; omega
    · have := ih _ _ h; omega

theorem specCut_bounds (algo : Algo) (f : FilterConfig) (data : Bytes) (s L : Nat)
    (hv : f.Sane) (hs : s < data.length) (h : specCut algo f data s = some L) :
    max f.minSize 1 ≤ L ∧ L ≤ f.maxSize ∧ s + L ≤ data.length := by
  obtain ⟨hw1, hm1, hmm, _, _⟩ := hv
  unfold specCut at h
  simp only at h
  split at h
  · rename_i L' hfb
    cases h
    have := firstBoundary_bounds _ _ _ _ _ _ _ _ hfb
    omega
  · split at h
    · cases h; omega
    · cases h

/-! ### Fuel irrelevance -/

theorem specChunksFrom_fuel (algo : Algo) (f : FilterConfig) (data : Bytes) :
    ∀ k1 k2 s, data.length - s < k1 → data.length - s < k2 →
      specChunksFrom algo f data k1 s = specChunksFrom algo f data k2 s := by
  intro k1
  induction k1 with
  | zero => intro k2 s h; omega
  | succ k1 ih =>
    intro k2 s h1 h2
    cases k2 with
    | zero => omega
    | succ k2 =>
      simp only [specChunksFrom]
      split
      · rfl
      · split
        · split
          · rfl
          · rw [ih k2 _ (by omega) (by omega)]
        · rfl

theorem fixedChunksFrom_fuel (n len : Nat) :
    ∀ k1 k2 s, len - s < k1 → len - s < k2 →
      fixedChunksFrom n len k1 s = fixedChunksFrom n len k2 s := by
  intro k1
  induction k1 with
  | zero => intro k2 s h; omega
  | succ k1 ih =>
    intro k2 s h1 h2
    cases k2 with
    | zero => omega
    | succ k2 =>
      simp only [fixedChunksFrom]
      split
      · rfl
      · split
        · split
          · rfl
          · rw [ih k2 _ (by omega) (by omega)]
        · rfl

/-! ### Tiling -/

theorem specChunksFrom_tile (algo : Algo) (f : FilterConfig) (hv : f.Sane) (data : Bytes) :
    ∀ k s, s ≤ data.length → data.length - s < k →
      Tiles (specChunksFrom algo f data k s) s data.length := by
  intro k
  induction k with
  | zero => intro s _ h; omega
  | succ k ih =>
    intro s hs hk
    simp only [specChunksFrom]
    split
    · simp only [Tiles]; omega
    · rename_i hlt
      split
      · rename_i L hc
        have hb := specCut_bounds algo f data s L hv (by omega) hc
        split
        · omega
        · simp only [Tiles]
          exact ⟨trivial, by omega, ih _ (by omega) (by omega)⟩
      · simp only [Tiles]
        exact ⟨trivial, by omega, by omega⟩

theorem fixedChunksFrom_tile (n : Nat) (hn : 1 ≤ n) (len : Nat) :
    ∀ k s, s ≤ len → len - s < k → Tiles (fixedChunksFrom n len k s) s len := by
  intro k
  induction k with
  | zero => intro s _ h; omega
  | succ k ih =>
    intro s hs hk
    simp only [fixedChunksFrom]
    split
    · simp only [Tiles]; omega
    · split
      · split
        · omega
        · simp only [Tiles]
          exact ⟨trivial, hn, ih _ (by omega) (by omega)⟩
      · simp only [Tiles]
        exact ⟨trivial, by omega, by omega⟩

/-! ### Size bounds -/

theorem mem_dropLast_cons {α : Type} (a : α) (l : List α) (c : α) (h : c ∈ (a :: l).dropLast) :
    c = a ∨ c ∈ l.dropLast := by
  cases l with
  | nil => simp at h
  | cons b l =>
    rw [List.dropLast_cons_cons, List.mem_cons] at h
    exact h

theorem specChunksFrom_bounds (algo : Algo) (f : FilterConfig) (hv : f.Sane) (data : Bytes) :
    ∀ k s, ∀ c ∈ (specChunksFrom algo f data k s).dropLast,
      max f.minSize 1 ≤ c.2 ∧ c.2 ≤ f.maxSize := by
  intro k
  induction k with
  | zero => intro s c h; simp [specChunksFrom] at h
  | succ k ih =>
    intro s c h
    simp only [specChunksFrom] at h
    split at h
    · simp at h
    · split at h
      · rename_i L hc
        have hb := specCut_bounds algo f data s L hv (by omega) hc
        split at h
        · simp at h
        · rcases mem_dropLast_cons _ _ _ h with rfl | h'
          · exact ⟨hb.1, hb.2.1⟩
          · exact ih _ _ h'
      · simp at h

theorem fixedChunksFrom_bounds (n len : Nat) :
    ∀ k s, ∀ c ∈ (fixedChunksFrom n len k s).dropLast, c.2 = n := by
  intro k
  induction k with
  | zero => intro s c h; simp [fixedChunksFrom] at h
  | succ k ih =>
    intro s c h
    simp only [fixedChunksFrom] at h
    split at h
    · simp at h
    · split at h
      · split at h
        · simp at h
        · rcases mem_dropLast_cons _ _ _ h with rfl | h'
          · rfl
          · exact ih _ _ h'
      · simp at h

/-! ### Offsets -/

theorem specChunksFrom_off (algo : Algo) (f : FilterConfig) (data : Bytes) :
    ∀ k s, ∀ c ∈ specChunksFrom algo f data k s, s ≤ c.1 := by
  intro k
  induction k with
  | zero => intro s c h; simp [specChunksFrom] at h
  | succ k ih =>
    intro s c h
    simp only [specChunksFrom] at h
    split at h
    · simp at h
    · split at h
      · split at h
        · simp at h
        · rcases List.mem_cons.1 h with rfl | h'
          · exact Nat.le_refl _
          · have := ih _ _ h'; omega
      · rcases List.mem_singleton.1 h with rfl
        exact Nat.le_refl _

theorem fixedChunksFrom_off (n len : Nat) :
    ∀ k s, ∀ c ∈ fixedChunksFrom n len k s, s ≤ c.1 := by
  intro k
  induction k with
  | zero => intro s c h; simp [fixedChunksFrom] at h
  | succ k ih =>
    intro s c h
    simp only [fixedChunksFrom] at h
    split at h
    · simp at h
    · split at h
      · split at h
        · simp at h
        · rcases List.mem_cons.1 h with rfl | h'
          · exact Nat.le_refl _
          · have := ih _ _ h'; omega
      · rcases List.mem_singleton.1 h with rfl
        exact Nat.le_refl _

/-! ### The chunks from a chunk end on -/

theorem isEnd_cons (c : Nat × Nat) (cs : List (Nat × Nat)) (e : Nat) :
    IsEnd (c :: cs) e ↔ c.1 + c.2 = e ∨ IsEnd cs e := by
  simp [IsEnd]

theorem specChunksFrom_filter (algo : Algo) (f : FilterConfig) (data : Bytes) :
    ∀ k s e K, data.length - s < k → data.length - e < K →
      IsEnd (specChunksFrom algo f data k s) e →
      (specChunksFrom algo f data k s).filter (fun c => decide (e ≤ c.1))
        = specChunksFrom algo f data K e := by
  intro k
  induction k with
  | zero => intro s e K h; omega
  | succ k ih =>
    intro s e K hk hK he
    simp only [specChunksFrom] at he ⊢
    split at he
    · simp [IsEnd] at he
    · rename_i hlt
      rw [if_neg hlt]
      split at he
      · rename_i L hc
        split at he
        · simp [IsEnd] at he
        · rename_i hL
          rw [if_neg hL]
          have hoff := specChunksFrom_off algo f data k (s + L)
          rcases (isEnd_cons _ _ _).1 he with h0 | h0
          · simp only at h0
            have hns : ¬ e ≤ s := by omega
            rw [List.filter_cons_of_neg (by simpa using hns)]
            rw [List.filter_eq_self.2 (fun c hcm => by have := hoff c hcm; simp; omega)]
            subst h0
            exact specChunksFrom_fuel algo f data _ _ _ (by omega) (by omega)
          · have hns : ¬ e ≤ s := by
              obtain ⟨c, hcm, hce⟩ := h0
              have := hoff c hcm
              omega
            rw [List.filter_cons_of_neg (by simpa using hns)]
            exact ih _ _ _ (by omega) hK h0
      · simp only [IsEnd, List.mem_singleton, exists_eq_left] at he
        have : e = data.length := by omega
        subst this
        rw [List.filter_cons_of_neg (by simpa using hlt)]
        cases K with
        | zero => omega
        | succ K => simp [specChunksFrom]

theorem fixedChunksFrom_filter (n len : Nat) :
    ∀ k s e K, len - s < k → len - e < K → IsEnd (fixedChunksFrom n len k s) e →
      (fixedChunksFrom n len k s).filter (fun c => decide (e ≤ c.1))
        = fixedChunksFrom n len K e := by
  intro k
  induction k with
  | zero => intro s e K h; omega
  | succ k ih =>
    intro s e K hk hK he
    simp only [fixedChunksFrom] at he ⊢
    split at he
    · simp [IsEnd] at he
    · rename_i hlt
      rw [if_neg hlt]
      split at he
      · rename_i hfit
        rw [if_pos hfit]
        split at he
        · simp [IsEnd] at he
        · rename_i hL
          rw [if_neg hL]
          have hoff := fixedChunksFrom_off n len k (s + n)
          rcases (isEnd_cons _ _ _).1 he with h0 | h0
          · simp only at h0
            have hns : ¬ e ≤ s := by omega
            rw [List.filter_cons_of_neg (by simpa using hns)]
            rw [List.filter_eq_self.2 (fun c hcm => by have := hoff c hcm; simp; omega)]
            subst h0
            exact fixedChunksFrom_fuel n len _ _ _ (by omega) (by omega)
          · have hns : ¬ e ≤ s := by
              obtain ⟨c, hcm, hce⟩ := h0
              have := hoff c hcm
              omega
            rw [List.filter_cons_of_neg (by simpa using hns)]
            exact ih _ _ _ (by omega) hK h0
      · rename_i hfit
        rw [if_neg hfit]
        simp only [IsEnd, List.mem_singleton, exists_eq_left] at he
        have : e = len := by omega
        subst this
        rw [List.filter_cons_of_neg (by simpa using hlt)]
        cases K with
        | zero => omega
        | succ K => simp [fixedChunksFrom]

/-! ### Windows and cuts inside the common suffix -/

theorem winAt_append (n : Nat) (P S : Bytes) (q : Nat) (h : n ≤ q) :
    winAt n (P ++ S) (P.length + q) = (S.drop (q - n)).take n := by
  unfold winAt
  have e : P.length + q = (List.replicate n (0 : UInt8) ++ P).length + (q - n) := by
    simp only [List.length_append, List.length_replicate]; omega
  rw [← List.append_assoc, e, List.drop_append, List.drop_eq_nil_of_le (Nat.le_add_right _ _),
    Nat.add_sub_cancel_left, List.nil_append]

theorem firstBoundary_append (algo : Algo) (n : Nat) (mask : U32) (P1 P2 S : Bytes) (b : Nat) :
    ∀ k lo, n ≤ b + lo →
      firstBoundary algo n mask (P1 ++ S) (P1.length + b) lo k
        = firstBoundary algo n mask (P2 ++ S) (P2.length + b) lo k := by
  intro k
  induction k with
  | zero => intro lo _; simp [firstBoundary]
  | succ k ih =>
    intro lo h
    simp only [firstBoundary]
    rw [Nat.add_assoc, Nat.add_assoc, winAt_append n P1 S _ h, winAt_append n P2 S _ h,
      ih (lo + 1) (by omega)]

theorem specCut_append (algo : Algo) (f : FilterConfig) (P1 P2 S : Bytes) (b : Nat)
    (hb : f.window ≤ b) :
    specCut algo f (P1 ++ S) (P1.length + b) = specCut algo f (P2 ++ S) (P2.length + b) := by
  unfold specCut
  have r1 : (P1 ++ S).length - (P1.length + b) = S.length - b := by
    simp only [List.length_append]; omega
  have r2 : (P2 ++ S).length - (P2.length + b) = S.length - b := by
    simp only [List.length_append]; omega
  have key : ∀ w1 w2 : Nat, w1 ≤ 1 → w2 ≤ 1 →
      (match firstBoundary algo f.window (filterMask f.bits) (P1 ++ S) (P1.length + b)
          (max (max f.minSize 1) w1) (min f.maxSize (S.length - b) + 1 - max (max f.minSize 1) w1) with
        | some L => some L
        | none => if f.maxSize ≤ S.length - b then some f.maxSize else none) =
      (match firstBoundary algo f.window (filterMask f.bits) (P2 ++ S) (P2.length + b)
          (max (max f.minSize 1) w2) (min f.maxSize (S.length - b) + 1 - max (max f.minSize 1) w2) with
        | some L => some L
        | none => if f.maxSize ≤ S.length - b then some f.maxSize else none) := by
    intro w1 w2 h1 h2
    have e1 : max (max f.minSize 1) w1 = max f.minSize 1 := by omega
    have e2 : max (max f.minSize 1) w2 = max f.minSize 1 := by omega
    rw [e1, e2, firstBoundary_append algo f.window _ P1 P2 S b _ _ (by omega)]
  simp only [r1, r2]
  cases algo with
  | roll => exact key 0 0 (by omega) (by omega)
  | buz =>
    exact key (f.window + 1 - (P1.length + b)) (f.window + 1 - (P2.length + b))
      (by omega) (by omega)

theorem specChunksFrom_append (algo : Algo) (f : FilterConfig) (P1 P2 S : Bytes) :
    ∀ k b, f.window ≤ b →
      (specChunksFrom algo f (P1 ++ S) k (P1.length + b)).map (fun c => (c.1 - P1.length, c.2))
        = (specChunksFrom algo f (P2 ++ S) k (P2.length + b)).map
            (fun c => (c.1 - P2.length, c.2)) := by
  intro k
  induction k with
  | zero => intro b _; simp [specChunksFrom]
  | succ k ih =>
    intro b hb
    simp only [specChunksFrom]
    have c1 : ((P1 ++ S).length ≤ P1.length + b) = (S.length ≤ b) := by
      simp [List.length_append]
    have c2 : ((P2 ++ S).length ≤ P2.length + b) = (S.length ≤ b) := by
      simp [List.length_append]
    have r1 : (P1 ++ S).length - (P1.length + b) = S.length - b := by
      simp only [List.length_append]; omega
    have r2 : (P2 ++ S).length - (P2.length + b) = S.length - b := by
      simp only [List.length_append]; omega
    simp only [c1, c2, r1, r2, specCut_append algo f P1 P2 S b hb]
    split
    · rfl
    · split
      · rename_i L _
        split
        · rfl
        · simp only [List.map_cons, Nat.add_sub_cancel_left]
          rw [Nat.add_assoc, Nat.add_assoc, ih (b + L) (by omega)]
      · simp only [List.map_cons, List.map_nil, Nat.add_sub_cancel_left]

theorem fixedChunksFrom_append (n : Nat) (p1 p2 m : Nat) :
    ∀ k b,
      (fixedChunksFrom n (p1 + m) k (p1 + b)).map (fun c => (c.1 - p1, c.2))
        = (fixedChunksFrom n (p2 + m) k (p2 + b)).map (fun c => (c.1 - p2, c.2)) := by
  intro k
  induction k with
  | zero => intro b; simp [fixedChunksFrom]
  | succ k ih =>
    intro b
    simp only [fixedChunksFrom]
    have c1 : (p1 + m ≤ p1 + b) = (m ≤ b) := by simp
    have c2 : (p2 + m ≤ p2 + b) = (m ≤ b) := by simp
    have d1 : (p1 + b + n ≤ p1 + m) = (b + n ≤ m) := by simp [Nat.add_assoc]
    have d2 : (p2 + b + n ≤ p2 + m) = (b + n ≤ m) := by simp [Nat.add_assoc]
    have r1 : p1 + m - (p1 + b) = m - b := by omega
    have r2 : p2 + m - (p2 + b) = m - b := by omega
    simp only [c1, c2, d1, d2, r1, r2]
    split
    · rfl
    · split
      · split
        · rfl
        · simp only [List.map_cons, Nat.add_sub_cancel_left]
          rw [Nat.add_assoc, Nat.add_assoc, ih (b + n)]
      · simp only [List.map_cons, List.map_nil, Nat.add_sub_cancel_left]

/-! ### Resynchronisation -/

theorem specChunksFrom_resync (algo : Algo) (f : FilterConfig) (P1 P2 S : Bytes) (B : Nat)
    (hB : f.window ≤ B)
    (h1 : IsEnd (specChunksFrom algo f (P1 ++ S) ((P1 ++ S).length + 1) 0) (P1.length + B))
    (h2 : IsEnd (specChunksFrom algo f (P2 ++ S) ((P2 ++ S).length + 1) 0) (P2.length + B)) :
    chunksFrom (specChunksFrom algo f (P1 ++ S) ((P1 ++ S).length + 1) 0) (P1.length + B) P1.length =
    chunksFrom (specChunksFrom algo f (P2 ++ S) ((P2 ++ S).length + 1) 0) (P2.length + B) P2.length := by
  unfold chunksFrom
  rw [specChunksFrom_filter algo f (P1 ++ S) _ 0 (P1.length + B) (S.length + 1) (by omega)
        (by simp only [List.length_append]; omega) h1,
      specChunksFrom_filter algo f (P2 ++ S) _ 0 (P2.length + B) (S.length + 1) (by omega)
        (by simp only [List.length_append]; omega) h2]
  exact specChunksFrom_append algo f P1 P2 S _ B hB

end SpecChunks

open SpecChunks

/-! ### The theorems used by C09 / C10 -/

theorem specChunks_tile (cfg : Config) (hv : cfg.Valid) (data : Bytes) :
    Tiles (specChunks cfg data) 0 data.length := by
  cases cfg with
  | rollsum f => exact specChunksFrom_tile .roll f (FilterConfig.Sane_of_ValidRoll hv) data _ 0 (by omega) (by omega)
  | buzhash f => exact specChunksFrom_tile .buz f (FilterConfig.Sane_of_Valid hv) data _ 0 (by omega) (by omega)
  | fixed n => exact fixedChunksFrom_tile n hv data.length _ 0 (by omega) (by omega)

theorem tiles_concat (data : Bytes) (cs : List (Nat × Nat)) (s : Nat)
    (h : Tiles cs s data.length) :
    (cs.map (fun c => slice data c.1 c.2)).flatten = data.drop s := by
  induction cs generalizing s with
  | nil =>
    simp only [Tiles] at h
    subst h
    simp
  | cons c cs ih =>
    obtain ⟨o, l⟩ := c
    simp only [Tiles] at h
    obtain ⟨rfl, _, ht⟩ := h
    rw [List.map_cons, List.flatten_cons, ih _ ht]
    simp only [slice]
    rw [← List.drop_drop]
    exact List.take_append_drop l (data.drop o)

theorem specChunks_bounds (cfg : Config) (hv : cfg.Valid) (data : Bytes) :
    ∀ c ∈ allButLast (specChunks cfg data),
      match cfg with
      | .rollsum f => max f.minSize 1 ≤ c.2 ∧ c.2 ≤ f.maxSize
      | .buzhash f => max f.minSize 1 ≤ c.2 ∧ c.2 ≤ f.maxSize
      | .fixed n => c.2 = n := by
  intro c hc
  cases cfg with
  | rollsum f => exact specChunksFrom_bounds .roll f (FilterConfig.Sane_of_ValidRoll hv) data _ _ c hc
  | buzhash f => exact specChunksFrom_bounds .buz f (FilterConfig.Sane_of_Valid hv) data _ _ c hc
  | fixed n => exact fixedChunksFrom_bounds n data.length _ _ c hc

set_option linter.unusedVariables false in
theorem spec_resync (cfg : Config) (hv : cfg.Valid) (hroll : ∀ n, cfg ≠ .fixed n)
    (P1 P2 S : Bytes) (B : Nat)
    (hB : windowOf cfg ≤ B)
    (hBS : B ≤ S.length)
    (h1 : IsEnd (specChunks cfg (P1 ++ S)) (P1.length + B))
    (h2 : IsEnd (specChunks cfg (P2 ++ S)) (P2.length + B)) :
    chunksFrom (specChunks cfg (P1 ++ S)) (P1.length + B) P1.length =
    chunksFrom (specChunks cfg (P2 ++ S)) (P2.length + B) P2.length := by
  cases cfg with
  | rollsum f => exact specChunksFrom_resync .roll f P1 P2 S B hB h1 h2
  | buzhash f => exact specChunksFrom_resync .buz f P1 P2 S B hB h1 h2
  | fixed n => exact absurd rfl (hroll n)

set_option linter.unusedVariables false in
theorem fixed_resync (n : Nat) (hn : 1 ≤ n) (P1 P2 S : Bytes) (B : Nat) (hBS : B ≤ S.length)
    (h1 : IsEnd (specChunks (.fixed n) (P1 ++ S)) (P1.length + B))
    (h2 : IsEnd (specChunks (.fixed n) (P2 ++ S)) (P2.length + B)) :
    chunksFrom (specChunks (.fixed n) (P1 ++ S)) (P1.length + B) P1.length =
    chunksFrom (specChunks (.fixed n) (P2 ++ S)) (P2.length + B) P2.length := by
  simp only [specChunks, List.length_append] at h1 h2 ⊢
  unfold chunksFrom
  rw [fixedChunksFrom_filter n _ _ 0 (P1.length + B) (S.length + 1) (by omega) (by omega) h1,
      fixedChunksFrom_filter n _ _ 0 (P2.length + B) (S.length + 1) (by omega) (by omega) h2]
  exact fixedChunksFrom_append n P1.length P2.length S.length _ B

end Bita.Proofs
