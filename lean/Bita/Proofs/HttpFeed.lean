import Bita.Proofs.HttpLemmas
import Bita.Proofs.HttpDrain

namespace Bita.Proofs
open Bita Bita.Spec

theorem total_append (a b : List ChunkOffset) : total (a ++ b) = total a + total b := by
  induction a with
  | nil => simp [total]
  | cons x a ih => simp [total, ih]; omega

theorem contiguous_split (done : List ChunkOffset) :
    ∀ (c : ChunkOffset) (r : List ChunkOffset) (c' : ChunkOffset) (r' : List ChunkOffset),
      Contiguous (c :: r) → c :: r = done ++ c' :: r' →
      Contiguous (c' :: r') ∧ c'.offset + total (c' :: r') = c.offset + total (c :: r) := by
  induction done with
  | nil =>
    intro c r c' r' hc h
    simp only [List.nil_append, List.cons.injEq] at h
    obtain ⟨rfl, rfl⟩ := h
    exact ⟨hc, rfl⟩
  | cons x done ih =>
    intro c r c' r' hc h
    simp only [List.cons_append, List.cons.injEq] at h
    obtain ⟨rfl, hr⟩ := h
    cases r with
    | nil => cases done <;> simp at hr
    | cons d r =>
      have h1 : c.stop = d.offset := hc.1
      have h2 : Contiguous (d :: r) := hc.2
      obtain ⟨k1, k2⟩ := ih d r c' r' h2 hr
      refine ⟨k1, ?_⟩
      rw [k2]
      simp only [total, ChunkOffset.stop] at *
      omega

theorem feed_cons_none (f : Bytes) (fs : List Bytes) (chunks : List ChunkOffset) (buf : Bytes)
    (adj off size rl : Nat) (h : f.length ≤ size) (its : List Item) (st' : CR)
    (hd : CR.drain chunks (buf ++ f) adj (some (off + f.length, size - f.length, rl)) =
      (its, st', false)) (hreq : st'.req = none) :
    CR.feed (f :: fs) ⟨chunks, buf, adj, some (off, size, rl)⟩ = FeedRes.runDone its st' := by
  have hclip : clipFrag size f = f := by unfold clipFrag; rw [if_neg (by omega)]
  rw [CR.feed]
  dsimp only
  rw [hclip, hd]
  simp [hreq]

theorem feed_cons_some (f : Bytes) (fs : List Bytes) (chunks : List ChunkOffset) (buf : Bytes)
    (adj off size rl : Nat) (h : f.length ≤ size) (its : List Item) (st' : CR)
    (hd : CR.drain chunks (buf ++ f) adj (some (off + f.length, size - f.length, rl)) =
      (its, st', false)) (q : Nat × Nat × Nat) (hreq : st'.req = some q) :
    CR.feed (f :: fs) ⟨chunks, buf, adj, some (off, size, rl)⟩ =
      match CR.feed fs st' with
      | FeedRes.runDone its2 st2 => FeedRes.runDone (its ++ its2) st2
      | FeedRes.bodyDone its2 st2 => FeedRes.bodyDone (its ++ its2) st2
      | FeedRes.stop its2 => FeedRes.stop (its ++ its2) := by
  have hclip : clipFrag size f = f := by unfold clipFrag; rw [if_neg (by omega)]
  rw [CR.feed]
  dsimp only
  rw [hclip, hd]
  simp only [hreq, Bool.false_eq_true, if_false]
  cases CR.feed fs st' <;> rfl

/-- The reader's state while a request for the run `c :: r` is open and the first byte not yet
received is `off`. -/
def runSt (data : Bytes) (c : ChunkOffset) (r rest : List ChunkOffset) (off size rl : Nat) : CR :=
  ⟨(c :: r) ++ rest, slice data c.offset (off - c.offset), (c :: r).length, some (off, size, rl)⟩

theorem feed_inv (data : Bytes) (rest : List ChunkOffset) (hrest : ∀ c ∈ rest, 1 ≤ c.size) :
    ∀ (fs : List Bytes) (c : ChunkOffset) (r : List ChunkOffset) (off size rl n : Nat),
      Contiguous (c :: r) → (∀ x ∈ c :: r, 1 ≤ x.size) → c.offset ≤ off → off < c.stop →
      off + size = c.offset + total (c :: r) → off + size ≤ data.length → n ≤ size →
      fs.flatten = slice data off n →
      (n = size → CR.feed fs (runSt data c r rest off size rl) =
        .runDone ((c :: r).map (exactItem data)) ⟨rest, [], 0, none⟩) ∧
      (n < size → ∃ done c' r', c :: r = done ++ c' :: r' ∧ (∀ x ∈ done, x.stop ≤ off + n) ∧
        c'.offset ≤ off + n ∧ off + n < c'.stop ∧
        CR.feed fs (runSt data c r rest off size rl) =
          .bodyDone (done.map (exactItem data)) (runSt data c' r' rest (off + n) (size - n) rl)) := by
  intro fs
  induction fs with
  | nil =>
    intro c r off size rl n hc hs h1 h2 h3 h4 hn hflat
    have hlen := congrArg List.length hflat
    rw [slice_length (by omega)] at hlen
    simp only [List.flatten_nil, List.length_nil] at hlen
    subst hlen
    have : total (c :: r) = c.size + total r := rfl
    simp only [ChunkOffset.stop] at h2
    constructor
    · intro h; omega
    · intro _
      exact ⟨[], c, r, by simp, by simp, by omega, by simp only [ChunkOffset.stop]; omega,
        by simp [CR.feed]⟩
  | cons f fs ih =>
    intro c r off size rl n hc hs h1 h2 h3 h4 hn hflat
    have htot : total (c :: r) = c.size + total r := rfl
    have hlen := congrArg List.length hflat
    rw [slice_length (by omega)] at hlen
    simp only [List.flatten_cons, List.length_append] at hlen
    have hk : f.length ≤ n := by omega
    have hf : f = slice data off f.length := by
      have := congrArg (List.take f.length) hflat
      rw [slice_take, List.flatten_cons, List.take_left, Nat.min_eq_left hk] at this
      exact this
    have hfs : fs.flatten = slice data (off + f.length) (n - f.length) := by
      have := congrArg (List.drop f.length) hflat
      rw [slice_drop, List.flatten_cons, List.drop_left] at this
      exact this
    -- the buffer after this fragment
    have hbuf : slice data c.offset (off - c.offset) ++ f =
        slice data c.offset (off - c.offset + f.length) := by
      have := slice_append data c.offset (off - c.offset) f.length
      rw [show c.offset + (off - c.offset) = off by omega, ← hf] at this
      exact this
    have hm : c.offset + (off - c.offset + f.length) ≤ data.length := by omega
    have hoffk : c.offset + (off - c.offset + f.length) = off + f.length := by omega
    have hA : f.length = size → off - c.offset + f.length = total (c :: r) := by omega
    have hB : f.length < size → off - c.offset + f.length < total (c :: r) := by omega
    have hD := drain_inv data rest hrest (off + f.length, size - f.length, rl) r c
      (off - c.offset + f.length) hc hs hm
    have hfk : f.length ≤ size := by omega
    by_cases hks : f.length = size
    · have hd := hD.1 (hA hks)
      constructor
      · intro _
        rw [← hbuf] at hd
        exact feed_cons_none f fs _ _ _ off size rl hfk _ _ hd rfl
      · intro h; omega
    · have hks' : f.length < size := by omega
      obtain ⟨done1, c1, r1, hsplit, hdone1, k1, k2, hd⟩ := hD.2 (hB hks')
      rw [hoffk] at hdone1 k1 k2 hd
      obtain ⟨hc1, ht1⟩ := contiguous_split done1 c r c1 r1 hc hsplit
      have hs1 : ∀ x ∈ c1 :: r1, 1 ≤ x.size := by
        intro x hx; apply hs; rw [hsplit]; exact List.mem_append_right _ hx
      have e3 : off + f.length + (size - f.length) = c1.offset + total (c1 :: r1) := by omega
      have e4 : off + f.length + (size - f.length) ≤ data.length := by omega
      have e5 : n - f.length ≤ size - f.length := by omega
      have e6 : n = size → n - f.length = size - f.length := by omega
      have e7 : n < size → n - f.length < size - f.length := by omega
      have e8 : off + f.length + (n - f.length) = off + n := by omega
      have e9 : size - f.length - (n - f.length) = size - n := by omega
      have e10 : off + f.length ≤ off + n := by omega
      have IH := ih c1 r1 (off + f.length) (size - f.length) rl (n - f.length) hc1 hs1 k1 k2
        e3 e4 e5 hfs
      have hfeed' : CR.feed (f :: fs) (runSt data c r rest off size rl) =
          match CR.feed fs (runSt data c1 r1 rest (off + f.length) (size - f.length) rl) with
          | FeedRes.runDone its2 st2 => FeedRes.runDone (done1.map (exactItem data) ++ its2) st2
          | FeedRes.bodyDone its2 st2 => FeedRes.bodyDone (done1.map (exactItem data) ++ its2) st2
          | FeedRes.stop its2 => FeedRes.stop (done1.map (exactItem data) ++ its2) := by
        rw [← hbuf] at hd
        exact feed_cons_some f fs _ _ _ off size rl hfk _ _ hd _ rfl
      constructor
      · intro hnn
        rw [hfeed', IH.1 (e6 hnn)]
        simp [hsplit]
      · intro hnn
        obtain ⟨done2, c2, r2, hsplit2, hdone2, j1, j2, hfd⟩ := IH.2 (e7 hnn)
        rw [e8] at hdone2 j1 j2 hfd
        rw [e9] at hfd
        refine ⟨done1 ++ done2, c2, r2, ?_, ?_, j1, j2, ?_⟩
        · rw [hsplit, hsplit2]; simp
        · intro x hx
          rcases List.mem_append.1 hx with hx | hx
          · exact Nat.le_trans (hdone1 x hx) e10
          · exact hdone2 x hx
        · rw [hfeed', hfd]
          simp

theorem splitBy_flatten (ns : List Nat) (b : Bytes) : (splitBy ns b).flatten = b := by
  induction ns generalizing b with
  | nil =>
    rw [splitBy]; split
    · rename_i h; simp [List.isEmpty_iff.1 h]
    · simp
  | cons n ns ih =>
    rw [splitBy]; split
    · rename_i h; simp [List.isEmpty_iff.1 h]
    · simp [ih]

end Bita.Proofs
