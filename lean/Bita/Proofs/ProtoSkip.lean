/-
  Progress and fuel adequacy of the protobuf reader model.

  `skipGroup`, `parseMessage` are structurally recursive on a fuel argument; the model calls them
  with fuel `length + 1`.  The lemmas here show that this fuel is never what makes them answer
  `none` (any two fuels above the input length agree), because every step consumes at least the
  key byte.  They also give the work bound the C15 theorems quote: a message of `n` bytes has at
  most `n` fields, and an unknown group is left strictly behind.
-/
import Bita.Proofs.ProtoFields

namespace Bita.Proofs
open Bita Bita.Proto

theorem decodeVarintAux_shorter : ∀ (fuel shift acc : Nat) (b : Bytes) (n : Nat) (r : Bytes),
    decodeVarintAux fuel shift acc b = some (n, r) → r.length < b.length := by
  intro fuel
  induction fuel with
  | zero => intro shift acc b n r h; simp [decodeVarintAux] at h
  | succ fuel ih =>
    intro shift acc b n r h
    cases b with
    | nil => simp [decodeVarintAux] at h
    | cons c b =>
      simp only [decodeVarintAux] at h
      split at h
      · simp at h
      · split at h
        · simp only [Option.some.injEq, Prod.mk.injEq] at h
          obtain ⟨_, rfl⟩ := h
          simp
        · have := ih _ _ _ _ _ h
          simp only [List.length_cons]
          omega

theorem decodeVarint_shorter (b : Bytes) (n : Nat) (r : Bytes)
    (h : decodeVarint b = some (n, r)) : r.length < b.length :=
  decodeVarintAux_shorter 10 0 0 b n r h

/-- An unknown group that is skipped is left strictly behind. -/
theorem skipGroup_shorter : ∀ (fuel depth g : Nat) (b r : Bytes),
    skipGroup fuel depth g b = some r → r.length < b.length := by
  intro fuel
  induction fuel with
  | zero => intro depth g b r h; simp [skipGroup] at h
  | succ fuel ih =>
    intro depth g b r h
    cases depth with
    | zero => simp [skipGroup] at h
    | succ depth =>
      simp only [skipGroup] at h
      cases hk : decodeVarint b with
      | none => simp [hk] at h
      | some kr =>
        obtain ⟨key, rest⟩ := kr
        have hrest := decodeVarint_shorter b key rest hk
        simp only [hk] at h
        split at h
        · simp at h
        · split at h
          · simp at h
          · split at h
            · split at h
              · simp at h
              · cases hv : decodeVarint rest with
                | none => simp [hv] at h
                | some vr =>
                  obtain ⟨v, r1⟩ := vr
                  have h1 := decodeVarint_shorter rest v r1 hv
                  simp only [hv, Option.bind_some] at h
                  have := ih _ _ _ _ h
                  omega
            · split at h
              · simp at h
              · split at h
                · simp at h
                · have := ih _ _ _ _ h
                  simp only [List.length_drop] at this
                  omega
            · split at h
              · simp at h
              · cases hv : decodeVarint rest with
                | none => simp [hv] at h
                | some vr =>
                  obtain ⟨v, r1⟩ := vr
                  have h1 := decodeVarint_shorter rest v r1 hv
                  simp only [hv, Option.bind_some] at h
                  split at h
                  · simp at h
                  · have := ih _ _ _ _ h
                    simp only [List.length_drop] at this
                    omega
            · cases hg : skipGroup fuel depth (key / 8) rest with
              | none => simp [hg] at h
              | some r1 =>
                have h1 := ih _ _ _ _ hg
                simp only [hg, Option.bind_some] at h
                have := ih _ _ _ _ h
                omega
            · split at h
              · simp only [Option.some.injEq] at h
                subst h
                exact hrest
              · simp at h
            · split at h
              · simp at h
              · split at h
                · simp at h
                · have := ih _ _ _ _ h
                  simp only [List.length_drop] at this
                  omega
            · simp at h

/-- **Fuel adequacy of `skipGroup`.**  Any two fuels above the input length give the same answer:
the `length + 1` that `parseField` passes is never the reason for a refusal. -/
theorem skipGroup_fuel : ∀ (f1 f2 depth g : Nat) (b : Bytes),
    b.length < f1 → b.length < f2 → skipGroup f1 depth g b = skipGroup f2 depth g b := by
  intro f1
  induction f1 with
  | zero => intro f2 depth g b h1; omega
  | succ f1 ih =>
    intro f2 depth g b h1 h2
    obtain ⟨f2, rfl⟩ : ∃ k, f2 = k + 1 := ⟨f2 - 1, by omega⟩
    cases depth with
    | zero => simp [skipGroup]
    | succ depth =>
      simp only [skipGroup]
      cases hk : decodeVarint b with
      | none => rfl
      | some kr =>
        obtain ⟨key, rest⟩ := kr
        have hrest := decodeVarint_shorter b key rest hk
        dsimp only
        split
        · rfl
        · split
          · rfl
          · split
            · split
              · rfl
              · cases hv : decodeVarint rest with
                | none => rfl
                | some vr =>
                  obtain ⟨v, r1⟩ := vr
                  have h3 := decodeVarint_shorter rest v r1 hv
                  simp only [Option.bind_some]
                  exact ih _ _ _ _ (by omega) (by omega)
            · split
              · rfl
              · split
                · rfl
                · exact ih _ _ _ _ (by simp only [List.length_drop]; omega)
                    (by simp only [List.length_drop]; omega)
            · split
              · rfl
              · cases hv : decodeVarint rest with
                | none => rfl
                | some vr =>
                  obtain ⟨v, r1⟩ := vr
                  have h3 := decodeVarint_shorter rest v r1 hv
                  simp only [Option.bind_some]
                  split
                  · rfl
                  · exact ih _ _ _ _ (by simp only [List.length_drop]; omega)
                      (by simp only [List.length_drop]; omega)
            · rw [ih f2 depth (key / 8) rest (by omega) (by omega)]
              cases hg : skipGroup f2 depth (key / 8) rest with
              | none => rfl
              | some r1 =>
                have h3 := skipGroup_shorter _ _ _ _ _ hg
                simp only [Option.bind_some]
                exact ih _ _ _ _ (by omega) (by omega)
            · rfl
            · split
              · rfl
              · split
                · rfl
                · exact ih _ _ _ _ (by simp only [List.length_drop]; omega)
                    (by simp only [List.length_drop]; omega)
            · rfl

/-- Every field that is read consumes at least its key byte. -/
theorem parseField_shorter (fl : List Nat) (b : Bytes) (t : Nat) (v : Option WireVal) (r : Bytes)
    (h : parseField fl b = some (t, v, r)) : r.length < b.length := by
  unfold parseField at h
  cases hk : decodeVarint b with
  | none => simp [hk] at h
  | some kr =>
    obtain ⟨key, rest⟩ := kr
    have hrest := decodeVarint_shorter b key rest hk
    simp only [hk] at h
    split at h
    · simp at h
    · split at h
      · simp at h
      · split at h
        · simp at h
        · split at h
          · cases hv : decodeVarint rest with
            | none => simp [hv] at h
            | some vr =>
              obtain ⟨n, r1⟩ := vr
              have h1 := decodeVarint_shorter rest n r1 hv
              simp only [hv, Option.map_some, Option.some.injEq, Prod.mk.injEq] at h
              obtain ⟨_, _, rfl⟩ := h
              omega
          · split at h
            · simp at h
            · simp only [Option.some.injEq, Prod.mk.injEq] at h
              obtain ⟨_, _, rfl⟩ := h
              simp only [List.length_drop]; omega
          · cases hv : decodeVarint rest with
            | none => simp [hv] at h
            | some vr =>
              obtain ⟨n, r1⟩ := vr
              have h1 := decodeVarint_shorter rest n r1 hv
              simp only [hv, Option.bind_some] at h
              split at h
              · simp at h
              · simp only [Option.some.injEq, Prod.mk.injEq] at h
                obtain ⟨_, _, rfl⟩ := h
                simp only [List.length_drop]; omega
          · cases hg : skipGroup (rest.length + 1) 100 (key / 8) rest with
            | none => simp [hg] at h
            | some r1 =>
              have h1 := skipGroup_shorter _ _ _ _ _ hg
              simp only [hg, Option.map_some, Option.some.injEq, Prod.mk.injEq] at h
              obtain ⟨_, _, rfl⟩ := h
              omega
          · split at h
            · simp at h
            · simp only [Option.some.injEq, Prod.mk.injEq] at h
              obtain ⟨_, _, rfl⟩ := h
              simp only [List.length_drop]; omega
          · simp at h

/-- **Fuel adequacy of `parseMessage`.**  Any two fuels above the message length agree, so the
`length + 1` of `Proto.parse` is never the reason for a refusal. -/
theorem parseMessage_fuel (fl : List Nat) : ∀ (f1 f2 : Nat) (b : Bytes),
    b.length < f1 → b.length < f2 → parseMessage fl f1 b = parseMessage fl f2 b := by
  intro f1
  induction f1 with
  | zero => intro f2 b h1; omega
  | succ f1 ih =>
    intro f2 b h1 h2
    obtain ⟨f2, rfl⟩ : ∃ k, f2 = k + 1 := ⟨f2 - 1, by omega⟩
    cases b with
    | nil => simp [parseMessage]
    | cons c b =>
      simp only [parseMessage]
      cases hpf : parseField fl (c :: b) with
      | none => rfl
      | some x =>
        obtain ⟨tag, v, rest⟩ := x
        have := parseField_shorter fl _ _ _ _ hpf
        simp only [List.length_cons] at this h1 h2
        dsimp only
        rw [ih f2 rest (by omega) (by omega)]

theorem parse_eq_any_fuel (b : Bytes) (f : Nat) (hf : b.length < f) :
    parseMessage [] f b = parse b :=
  parseMessage_fuel [] f (b.length + 1) b hf (by omega)

/-- **Work bound.**  A message of `n` bytes has at most `n` fields. -/
theorem parseMessage_field_count (fl : List Nat) : ∀ (f : Nat) (b : Bytes) (fs : List Field),
    parseMessage fl f b = some fs → fs.length ≤ b.length := by
  intro f
  induction f with
  | zero => intro b fs h; simp [parseMessage] at h
  | succ f ih =>
    intro b fs h
    cases b with
    | nil => simp [parseMessage] at h; subst h; simp
    | cons c b =>
      simp only [parseMessage] at h
      cases hpf : parseField fl (c :: b) with
      | none => simp [hpf] at h
      | some x =>
        obtain ⟨tag, v, rest⟩ := x
        have hs := parseField_shorter fl _ _ _ _ hpf
        simp only [hpf] at h
        cases hm : parseMessage fl f rest with
        | none => simp [hm] at h
        | some fs' =>
          have := ih _ _ hm
          simp only [hm, Option.map_some, Option.some.injEq] at h
          subst h
          simp only [List.length_cons] at hs ⊢
          omega

/-- Non-vacuity: a nested unknown group (field 9 holding field 10's group and a varint) is
skipped, the known field after it is read. -/
example : parse [0x4b, 0x53, 0x54, 0x08, 0x01, 0x4c, 0x10, 0x05] =
    some [(9, none), (2, some (.varint 5))] := by decide

example : skipGroup 7 100 9 [0x53, 0x54, 0x08, 0x01, 0x4c, 0x10, 0x05] = some [0x10, 0x05] := by
  decide

/-! ## Unknown fields are ignored (forward compatibility) -/

/-- the field numbers `ChunkDictionary` knows (read from the generated code) -/
def knownDictTag (t : Nat) : Bool :=
  t = Gen.tag_ChunkDictionary_application_version || t = Gen.tag_ChunkDictionary_source_checksum ||
  t = Gen.tag_ChunkDictionary_source_total_size || t = Gen.tag_ChunkDictionary_chunker_params ||
  t = Gen.tag_ChunkDictionary_chunk_compression || t = Gen.tag_ChunkDictionary_rebuild_order ||
  t = Gen.tag_ChunkDictionary_chunk_descriptors || t = Gen.tag_ChunkDictionary_metadata

/-- Fields with a number the dictionary does not know - of any wire type, skipped groups
included - have no effect on what is decoded, wherever they stand. -/
theorem mergeDictionary_ignores_unknown : ∀ (fs : List Field) (d : ChunkDictionary),
    mergeDictionary fs d = mergeDictionary (fs.filter fun f => knownDictTag f.1) d := by
  intro fs
  induction fs with
  | nil => intro d; rfl
  | cons f fs ih =>
    intro d
    by_cases hk : knownDictTag f.1 = true
    · rw [List.filter_cons_of_pos (p := fun f : Field => knownDictTag f.1) hk]
      unfold mergeDictionary at ih ⊢
      simp only [List.foldlM_cons]
      cases hstep : (if f.1 = Gen.tag_ChunkDictionary_application_version then _ else _ : Option ChunkDictionary) with
      | none => rfl
      | some d' => simp only [Option.bind_eq_bind, Option.bind_some]; exact ih d'
    · rw [List.filter_cons_of_neg (p := fun f : Field => knownDictTag f.1) hk]
      simp only [knownDictTag, Bool.or_eq_true, decide_eq_true_eq, not_or] at hk
      obtain ⟨⟨⟨⟨⟨⟨⟨h1, h2⟩, h3⟩, h4⟩, h5⟩, h6⟩, h7⟩, h8⟩ := hk
      rw [← ih d]
      unfold mergeDictionary
      simp only [List.foldlM_cons, h1, h2, h3, h4, h5, h6, h7, h8, if_false, Option.bind_eq_bind,
        Option.bind_some]

example : knownDictTag 9 = false ∧ knownDictTag 6 = true := by decide

end Bita.Proofs
