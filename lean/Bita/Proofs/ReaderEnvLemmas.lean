/-
  Lemmas for `Bita.Proofs.ReaderEnv`: congruence of `tryInit` / `Clone.run` in their reader
  arguments, the reader models against the honest reader, and `fetchRun` under a failure budget.
-/
import Bita.Model.ReaderEnv
import Bita.Spec.Resume
import Bita.Proofs.CloneSound
import Bita.Proofs.Http
import Bita.Proofs.HttpSafe
import Bita.Proofs.IoReader

namespace Bita.Proofs
open Bita Bita.Proto Bita.Spec

/-! ### `padItems` -/

theorem padItems_length' (n : Nat) (items : List Item) : (padItems n items).length = n := by
  unfold padItems
  rw [List.length_take, List.length_append, List.length_map, List.length_replicate]
  omega

theorem padItems_exact (data : Bytes) (chunks : List ChunkOffset) :
    padItems chunks.length (chunks.map (exactItem data)) =
      chunks.map fun c => some (slice data c.offset c.size) := by
  unfold padItems
  rw [List.length_map, Nat.sub_self, List.replicate_zero, List.append_nil, List.map_map]
  rw [List.take_of_length_le (by simp)]
  rfl

/-! ### congruence of `tryInit` and `Clone.run` in the reader -/

/-- `tryInit` calls its reader at most twice, both times with a size ≥ 1. -/
theorem tryInit_congr (H : Bytes → Bytes) (features : List Nat) (r1 r2 : Nat → Nat → Option Bytes)
    (h : ∀ off size, 1 ≤ size → r1 off size = r2 off size) :
    tryInit H features r1 = tryInit H features r2 := by
  unfold tryInit
  rw [h 0 Gen.preHeaderSize (by decide)]
  cases r2 0 Gen.preHeaderSize with
  | none => rfl
  | some pre =>
    simp only []
    by_cases c1 : pre.length < magicBytes.length
    · rw [if_pos c1, if_pos c1]
    rw [if_neg c1, if_neg c1]
    by_cases c2 : pre.take magicBytes.length ≠ magicBytes ∧ pre.take magicBytes.length ≠ legacyMagicBytes
    · rw [if_pos c2, if_pos c2]
    rw [if_neg c2, if_neg c2]
    by_cases c3 : pre.length < Gen.preHeaderSize
    · rw [if_pos c3, if_pos c3]
    rw [if_neg c3, if_neg c3]
    by_cases c4 : fromLe ((pre.drop magicBytes.length).take 8) + 72 > usizeMax ∨
        (Gen.headerEndChecked = true ∧
          Gen.preHeaderSize + fromLe ((pre.drop magicBytes.length).take 8) + 72 > usizeMax)
    · rw [if_pos c4, if_pos c4]
    rw [if_neg c4, if_neg c4]
    rw [h Gen.preHeaderSize _ (by omega)]

/-- `Clone.run` uses `readAt` only inside `tryInit` and `readChunks` only on the one list of
ranges it requests. -/
theorem run_congr (H : Bytes → Bytes) (decomp : Nat → Bytes → Nat → Option Bytes) (features : List Nat)
    (readAt readAt' : Nat → Nat → Option Bytes)
    (readChunks readChunks' : List (Nat × Nat) → List (Option Bytes))
    (opts : CloneOpts) (prior : Bytes) (seeds : List Bytes) (a : Archive)
    (hinit : tryInit H features readAt = .ok a) (hinit' : tryInit H features readAt' = .ok a)
    (hc : ∀ st2, readChunks (cloneRanges a st2) = readChunks' (cloneRanges a st2)) :
    Clone.run H decomp features readAt readChunks opts prior seeds =
      Clone.run H decomp features readAt' readChunks' opts prior seeds := by
  rw [run_eq H decomp features readAt readChunks opts prior seeds a hinit,
    run_eq H decomp features readAt' readChunks' opts prior seeds a hinit']
  have ht : ∀ st1, cloneTail H decomp readChunks opts seeds a st1 =
      cloneTail H decomp readChunks' opts seeds a st1 := by
    intro st1
    unfold cloneTail cloneSt3
    dsimp only
    rw [hc]
  simp only [ht]

/-! ### the HTTP `read_at` -/

theorem httpReadAt_chunk_length (serve : Nat → Nat → Bytes) (off size : Nat) :
    ∀ (script : List Resp) (retry : Nat) (d : Bytes),
      (httpReadAt serve retry off size script).1 = Item.chunk d → d.length = size := by
  intro script
  induction script with
  | nil => intro retry d h; simp [httpReadAt] at h
  | cons r s ih =>
    intro retry d
    rw [httpReadAt]
    split
    · intro h; cases h
    cases r with
    | refuse =>
      dsimp only
      split
      · intro h; cases h
      · exact ih (retry - 1) d
    | full fr =>
      dsimp only
      split
      · intro h
        cases h
        rw [List.length_take]; omega
      · intro h; cases h
    | part n fr cut =>
      dsimp only
      split
      · split
        · intro h; cases h
        · exact ih (retry - 1) d
      · split
        · intro h
          cases h
          rw [List.length_take]; omega
        · intro h; cases h

/-- A complete first response from an honest server: `read_at` is the honest reader (for
sizes ≥ 1; a range reaching beyond the end gets a short body, hence `UnexpectedEnd`). -/
theorem httpReadAt_honest (archive : Bytes) (retry off size : Nat) (fr : List Nat) (rest : List Resp)
    (hsize : 1 ≤ size) :
    (httpReadAt (honestServe archive) retry off size (Resp.full fr :: rest)).1.toOpt =
      honestReadAt archive off size := by
  rw [httpReadAt, if_neg (by omega)]
  dsimp only
  unfold honestServe honestReadAt
  by_cases hin : off + size ≤ archive.length
  · rw [if_pos hin, if_pos (by rw [slice_length hin]; exact Nat.le_refl _), slice_take, Nat.min_self]
    rfl
  · rw [if_neg hin, if_neg (by rw [io_slice_length]; omega)]
    rfl

/-! ### the local `read_at` -/

theorem ioReadAt_chunk_length (file : Bytes) (off size : Nat) (script : List ReadEv) (d : Bytes)
    (h : ioReadAt file off size script = Item.chunk d) : d.length = size := by
  unfold ioReadAt at h
  by_cases hz : size = 0
  · rw [if_pos hz] at h
    cases h
    simp [hz]
  · rw [if_neg hz] at h
    rcases ioFill_sound file off size script [] (by simp [slice]) (by simp; omega) with
      ⟨rest, hfill, hle⟩ | hfill | hfill | hfill
    · rw [hfill] at h
      cases h
      exact slice_length hle
    all_goals (rw [hfill] at h; cases h)

theorem ioReadAt_honest (file : Bytes) (off size : Nat) (script : List ReadEv) (hsize : 1 ≤ size)
    (hok : ∀ e ∈ script, e = ReadEv.pending ∨ ∃ n, 1 ≤ n ∧ e = ReadEv.bytes n)
    (hcnt : size ≤ (script.filter (· ≠ ReadEv.pending)).length) :
    (ioReadAt file off size script).toOpt = honestReadAt file off size := by
  unfold ioReadAt honestReadAt
  rw [if_neg (by omega)]
  by_cases hin : off + size ≤ file.length
  · obtain ⟨rest, h1, -, -⟩ := ioFill_complete file off size hin script hok [] (by simp [slice])
      (by simp; omega) (by simpa using hcnt)
    rw [if_pos hin, h1]
    rfl
  · rw [if_neg hin]
    rcases ioFill_sound file off size script [] (by simp [slice]) (by simp; omega) with
      ⟨rest, hfill, hle⟩ | hfill | hfill | hfill
    · exact absurd hle hin
    all_goals (rw [hfill]; rfl)

/-! ### the chunk streams against the honest reader -/

theorem honestReadChunks_in_range (archive : Bytes) (ranges : List (Nat × Nat))
    (hr : ∀ r ∈ ranges, r.1 + r.2 ≤ archive.length) :
    honestReadChunks archive ranges =
      (toChunkOffsets ranges).map fun c => some (slice archive c.offset c.size) := by
  unfold honestReadChunks toChunkOffsets
  rw [List.map_map]
  apply List.map_congr_left
  intro r hrm
  simp [honestReadAt, hr r hrm]

theorem toChunkOffsets_length (ranges : List (Nat × Nat)) :
    (toChunkOffsets ranges).length = ranges.length := by
  simp [toChunkOffsets]

theorem toChunkOffsets_mem (ranges : List (Nat × Nat)) (P : Nat → Nat → Prop)
    (hr : ∀ r ∈ ranges, P r.1 r.2) : ∀ c ∈ toChunkOffsets ranges, P c.offset c.size := by
  intro c hc
  simp only [toChunkOffsets, List.mem_map] at hc
  obtain ⟨r, hrm, rfl⟩ := hc
  exact hr r hrm

theorem http_readChunks_honest (archive : Bytes) (e : HttpEnv) (hserve : e.serve = honestServe archive)
    (ranges : List (Nat × Nat)) (hr : ∀ r ∈ ranges, 1 ≤ r.2 ∧ r.1 + r.2 ≤ archive.length)
    (hscript : (fetchAll archive e.retry (maximalRuns (toChunkOffsets ranges)) e.chunksScript).items =
      (toChunkOffsets ranges).map (exactItem archive)) :
    e.readChunks ranges = honestReadChunks archive ranges := by
  have hs : honestServe archive = fun off size => slice archive off size := rfl
  unfold HttpEnv.readChunks
  rw [hserve, hs, http_resume archive e.retry _ _
    (toChunkOffsets_mem ranges (fun _ s => 1 ≤ s) (fun r h => (hr r h).1))
    (toChunkOffsets_mem ranges (fun o s => o + s ≤ archive.length) (fun r h => (hr r h).2)),
    hscript, ← toChunkOffsets_length ranges, padItems_exact,
    honestReadChunks_in_range archive ranges (fun r h => (hr r h).2)]

theorem filter_map_sum_le {α : Type} (f : α → Nat) (p : α → Bool) (l : List α) :
    ((l.filter p).map f).sum ≤ (l.map f).sum := by
  induction l with
  | nil => simp
  | cons x l ih =>
    by_cases hp : p x = true
    · rw [List.filter_cons_of_pos hp]; simp; omega
    · rw [List.filter_cons_of_neg hp]; simp; omega

theorem io_readChunks_honest (e : IoEnv) (ranges : List (Nat × Nat))
    (hr : ∀ r ∈ ranges, 1 ≤ r.2 ∧ r.1 + r.2 ≤ e.file.length)
    (hok : ∀ ev ∈ e.chunksScript, ev = ReadEv.pending ∨ ∃ n, 1 ≤ n ∧ ev = ReadEv.bytes n)
    (hlen : (ranges.map (·.2)).sum ≤ (e.chunksScript.filter (· ≠ ReadEv.pending)).length) :
    e.readChunks ranges = honestReadChunks e.file ranges := by
  unfold IoEnv.readChunks
  rw [io_reader_complete e.file _ [] e.chunksScript
    (toChunkOffsets_mem ranges (fun _ s => 1 ≤ s) (fun r h => (hr r h).1))
    (toChunkOffsets_mem ranges (fun o s => o + s ≤ e.file.length) (fun r h => (hr r h).2)) hok
    (by simpa [toChunkOffsets, Function.comp_def] using hlen),
    ← toChunkOffsets_length ranges, padItems_exact,
    honestReadChunks_in_range e.file ranges (fun r h => (hr r h).2)]

/-- The ranges a clone requests lie inside the archive bytes that store the chunks, and none is
empty. -/
theorem cloneRanges_in_range (H : Bytes → Bytes) (decomp : Nat → Bytes → Nat → Option Bytes)
    (features : List Nat) (read : Nat → Nat → Option Bytes) (a : Archive) (archive : Bytes)
    (hinit : tryInit H features read = .ok a) (hs : Stored H decomp a archive) (st2 : OutSt Bytes) :
    ∀ r ∈ cloneRanges a st2, 1 ≤ r.2 ∧ r.1 + r.2 ≤ archive.length := by
  intro r hr
  simp only [cloneRanges, Archive.fetchList, List.mem_map, List.mem_filter] at hr
  obtain ⟨d, ⟨hd, -⟩, rfl⟩ := hr
  exact ⟨((tryInit_ok_facts H features read a hinit).2.2.1 d hd).1, (hs d hd).1⟩

theorem cloneRanges_sum_le (a : Archive) (st2 : OutSt Bytes) :
    ((cloneRanges a st2).map (·.2)).sum ≤ (a.chunks.map (·.archiveSize)).sum := by
  unfold cloneRanges Archive.fetchList
  rw [List.map_map]
  exact filter_map_sum_le _ _ _

/-! ### `fetchRun` / `fetchAll` under a failure budget -/

/-- A response that costs a retry (if it does not complete the run). -/
def respBad : Resp → Bool
  | .full _ => false
  | .part _ _ cut => cut
  | .refuse => true

def respFull : Resp → Bool
  | .full _ => true
  | _ => false

/-- One run: if the failing responses of the script fit the budget, no body ends early without an
error, and a complete response is still to come, the run completes; it consumes some failing
responses and at most one complete one. -/
theorem fetchRun_budget (stop : Nat) : ∀ (script : List Resp) (pos budget : Nat),
    (script.filter respBad).length ≤ budget →
    (∀ r ∈ script, ∀ n fr, r ≠ Resp.part n fr false) →
    1 ≤ (script.filter respFull).length →
    ∃ p rq rest, fetchRun stop pos budget script = (p, rq, RunEnd.done, rest) ∧
      (rest.filter respBad).length ≤ (script.filter respBad).length ∧
      (script.filter respFull).length ≤ (rest.filter respFull).length + 1 ∧
      ∀ r ∈ rest, r ∈ script := by
  intro script
  induction script with
  | nil => intro pos budget _ _ h; simp at h
  | cons x s ih =>
    intro pos budget hbad hne hfull
    have hne' : ∀ r ∈ s, ∀ n fr, r ≠ Resp.part n fr false :=
      fun r hr => hne r (List.mem_cons_of_mem _ hr)
    cases x with
    | full fr =>
      refine ⟨stop, [(pos, stop - pos)], s, fetchRun_full _ _ _ _ _, ?_, ?_, ?_⟩
      · rw [List.filter_cons_of_neg (by simp [respBad])]; exact Nat.le_refl _
      · rw [List.filter_cons_of_pos (by simp [respFull])]; simp
      · intro r hr; exact List.mem_cons_of_mem _ hr
    | refuse =>
      rw [List.filter_cons_of_pos (by simp [respBad]), List.length_cons] at hbad ⊢
      rw [List.filter_cons_of_neg (by simp [respFull])] at hfull ⊢
      obtain ⟨p, rq, rest, hf, h1, h2, h3⟩ := ih pos (budget - 1) (by omega) hne' hfull
      refine ⟨p, (pos, stop - pos) :: rq, rest, ?_, by omega, h2,
        fun r hr => List.mem_cons_of_mem _ (h3 r hr)⟩
      rw [fetchRun_refuse _ _ _ _ (by omega), hf]
    | part n fr cut =>
      have hfull' : 1 ≤ (s.filter respFull).length := by
        rw [List.filter_cons_of_neg (by simp [respFull])] at hfull; exact hfull
      by_cases hn : stop ≤ pos + n
      · refine ⟨stop, [(pos, stop - pos)], s, fetchRun_part_done _ _ _ _ _ _ _ hn, ?_, ?_, ?_⟩
        · exact (List.Sublist.filter _ (List.sublist_cons_self _ _)).length_le
        · rw [List.filter_cons_of_neg (by simp [respFull])]; omega
        · intro r hr; exact List.mem_cons_of_mem _ hr
      · cases cut with
        | false => exact absurd rfl (hne _ (by simp) n fr)
        | true =>
          rw [List.filter_cons_of_pos (by simp [respBad]), List.length_cons] at hbad ⊢
          rw [List.filter_cons_of_neg (by simp [respFull])]
          obtain ⟨p, rq, rest, hf, h1, h2, h3⟩ := ih (pos + n) (budget - 1) (by omega) hne' hfull'
          refine ⟨p, (pos, stop - pos) :: rq, rest, ?_, by omega, h2,
            fun r hr => List.mem_cons_of_mem _ (h3 r hr)⟩
          rw [fetchRun_part_cut _ _ _ _ _ _ (by omega) (by omega), hf]

theorem fetchAll_budget (data : Bytes) (retry : Nat) :
    ∀ (runs : List (List ChunkOffset)) (script : List Resp),
      (script.filter respBad).length ≤ retry →
      (∀ r ∈ script, ∀ n fr, r ≠ Resp.part n fr false) →
      runs.length ≤ (script.filter respFull).length →
      (fetchAll data retry runs script).items = runs.flatten.map (exactItem data) := by
  intro runs
  induction runs with
  | nil => intro script _ _ _; simp [fetchAll]
  | cons run runs ih =>
    intro script hbad hne hfull
    rw [fetchAll]
    dsimp only
    obtain ⟨p, rq, rest, hf, h1, h2, h3⟩ := fetchRun_budget
      ((runRequest run).1 + (runRequest run).2) script (runRequest run).1 retry hbad hne
      (by simp only [List.length_cons] at hfull; omega)
    rw [hf]
    dsimp only
    rw [ih rest (by omega) (fun r hr => hne r (h3 r hr))
      (by simp only [List.length_cons] at hfull; omega)]
    simp

/-! ### the chunk lists a clone can request -/

theorem maximalRuns_length_le (cs : List ChunkOffset) : (maximalRuns cs).length ≤ cs.length := by
  induction cs with
  | nil => simp [maximalRuns]
  | cons c cs ih =>
    rw [maximalRuns]
    split
    · rename_i d r rs heq
      rw [heq] at ih
      split <;> simp only [List.length_cons] at ih ⊢ <;> omega
    · simp only [List.length_cons]; omega

/-- The ranges of the archive's descriptors, as chunk offsets. -/
def archiveRanges (a : Archive) : List ChunkOffset :=
  a.chunks.map fun d => (⟨d.archiveOffset, d.archiveSize⟩ : ChunkOffset)

theorem cloneRanges_sublist (a : Archive) (st2 : OutSt Bytes) :
    (toChunkOffsets (cloneRanges a st2)).Sublist (archiveRanges a) := by
  unfold toChunkOffsets cloneRanges archiveRanges Archive.fetchList
  rw [List.map_map]
  exact List.Sublist.map _ List.filter_sublist

theorem archiveRanges_in_range (H : Bytes → Bytes) (decomp : Nat → Bytes → Nat → Option Bytes)
    (features : List Nat) (read : Nat → Nat → Option Bytes) (a : Archive) (archive : Bytes)
    (hinit : tryInit H features read = .ok a) (hs : Stored H decomp a archive) :
    ∀ c ∈ archiveRanges a, 1 ≤ c.size ∧ c.stop ≤ archive.length := by
  intro c hc
  simp only [archiveRanges, List.mem_map] at hc
  obtain ⟨d, hd, rfl⟩ := hc
  exact ⟨((tryInit_ok_facts H features read a hinit).2.2.1 d hd).1, (hs d hd).1⟩

/-! ### every run costs at least one response -/

theorem fetchRun_consumes (stop : Nat) : ∀ (script : List Resp) (pos budget : Nat),
    (∃ it, (fetchRun stop pos budget script).2.2.1 = RunEnd.fail it) ∨
      (fetchRun stop pos budget script).2.2.2.length + 1 ≤ script.length := by
  intro script
  induction script with
  | nil => intro pos budget; rw [fetchRun_nil]; exact Or.inl ⟨_, rfl⟩
  | cons x s ih =>
    intro pos budget
    cases x with
    | full fr => rw [fetchRun_full]; right; simp
    | refuse =>
      by_cases hb : budget = 0
      · subst hb; rw [fetchRun_refuse0]; exact Or.inl ⟨_, rfl⟩
      · rw [fetchRun_refuse _ _ _ _ hb]
        rcases ih pos (budget - 1) with h | h
        · exact Or.inl h
        · right; simp only [List.length_cons]; omega
    | part n fr cut =>
      by_cases hn : stop ≤ pos + n
      · rw [fetchRun_part_done _ _ _ _ _ _ _ hn]; right; simp
      · have hn' : pos + n < stop := by omega
        cases cut with
        | false => rw [fetchRun_part_end _ _ _ _ _ _ hn']; exact Or.inl ⟨_, rfl⟩
        | true =>
          by_cases hb : budget = 0
          · subst hb; rw [fetchRun_part_cut0 _ _ _ _ _ hn']; exact Or.inl ⟨_, rfl⟩
          · rw [fetchRun_part_cut _ _ _ _ _ _ hn' hb]
            rcases ih (pos + n) (budget - 1) with h | h
            · exact Or.inl h
            · right; simp only [List.length_cons]; omega

/-- A fetch that delivers only chunks has had one response per run at least. -/
theorem fetchAll_chunks_only (data : Bytes) (retry : Nat) :
    ∀ (runs : List (List ChunkOffset)) (script : List Resp),
      (∀ it ∈ (fetchAll data retry runs script).items, ∃ d, it = Item.chunk d) →
      runs.length ≤ script.length := by
  intro runs
  induction runs with
  | nil => intro script _; simp
  | cons run runs ih =>
    intro script
    rw [fetchAll]
    dsimp only
    have hc := fetchRun_consumes ((runRequest run).1 + (runRequest run).2) script (runRequest run).1 retry
    have hf := fetchRun_fail_item ((runRequest run).1 + (runRequest run).2) script (runRequest run).1 retry
    generalize fetchRun ((runRequest run).1 + (runRequest run).2) (runRequest run).1 retry script = res
      at hc hf
    obtain ⟨pos, rq, e, rest⟩ := res
    cases e with
    | done =>
      dsimp only
      intro h
      rcases hc with ⟨it, hit⟩ | hc
      · cases hit
      · have := ih rest (fun it hit => h it (List.mem_append_right _ hit))
        simp only [List.length_cons]
        dsimp only at hc
        omega
    | fail it =>
      dsimp only
      intro h
      obtain ⟨d, hd⟩ := h it (by simp)
      rcases hf it rfl with h' | h' | h' <;> rw [h'] at hd <;> cases hd

theorem maximalRuns_replicate (k : Nat) :
    maximalRuns (List.replicate k (⟨0, 1⟩ : ChunkOffset)) = List.replicate k [⟨0, 1⟩] := by
  induction k with
  | zero => rfl
  | succ k ih =>
    rw [List.replicate_succ, maximalRuns, ih]
    cases k with
    | zero => rfl
    | succ k => simp [List.replicate_succ, ChunkOffset.stop]

end Bita.Proofs
