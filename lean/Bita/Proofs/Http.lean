/-
  Proofs about the HTTP chunk reader model (C07, C08).
-/
import Bita.Model.Readers
import Bita.Spec.Runs
import Bita.Spec.Resume

namespace Bita.Proofs
open Bita Bita.Spec

theorem maximalRuns_spec (cs : List ChunkOffset) :
    (maximalRuns cs).flatten = cs ∧
    (∀ r ∈ maximalRuns cs, r ≠ [] ∧ Contiguous r) ∧
    Separated (maximalRuns cs) := by
  sorry

theorem http_resume (data : Bytes) (retry : Nat) (chunks : List ChunkOffset) (script : List Resp)
    (hsize : ∀ c ∈ chunks, 1 ≤ c.size)
    (hin : ∀ c ∈ chunks, c.stop ≤ data.length) :
    httpReadChunks (fun off size => slice data off size) retry script chunks =
      fetchAll data retry (maximalRuns chunks) script := by
  sorry

theorem requests_are_maximal_runs (data : Bytes) (retry : Nat) (chunks : List ChunkOffset)
    (script : List Resp)
    (hsize : ∀ c ∈ chunks, 1 ≤ c.size)
    (hin : ∀ c ∈ chunks, c.stop ≤ data.length)
    (hfull : ∀ r ∈ script, ∃ fr, r = Resp.full fr)
    (hlen : (maximalRuns chunks).length ≤ script.length) :
    httpReadChunks (fun off size => slice data off size) retry script chunks =
      ⟨chunks.map (fun c => Item.chunk (slice data c.offset c.size)),
       (maximalRuns chunks).map runRequest⟩ := by
  sorry

theorem runRequest_bounds (r : List ChunkOffset) (a b : ChunkOffset)
    (hc : Contiguous r) (hsize : ∀ c ∈ r, 1 ≤ c.size)
    (ha : r.head? = some a) (hb : r.getLast? = some b) :
    (runRequest r).1 = a.offset ∧ (runRequest r).1 + (runRequest r).2 - 1 = b.stop - 1 ∧
    rangeHeader (runRequest r).1 (runRequest r).2 = s!"bytes={a.offset}-{b.stop - 1}" := by
  sorry

theorem http_items_exact_prefix (data : Bytes) (retry : Nat) (chunks : List ChunkOffset)
    (script : List Resp)
    (hsize : ∀ c ∈ chunks, 1 ≤ c.size) (hin : ∀ c ∈ chunks, c.stop ≤ data.length) :
    ∃ k tail, k ≤ chunks.length ∧
      (httpReadChunks (fun off size => slice data off size) retry script chunks).items =
        (chunks.take k).map (exactItem data) ++ tail ∧
      ((tail = [] ∧ k = chunks.length) ∨ tail = [Item.stall] ∨ tail = [Item.errHttp] ∨
        tail = [Item.errEnd]) := by
  sorry

theorem fetchRun_requests (stop pos budget : Nat) (script : List Resp) (hle : pos ≤ stop) :
    let r := fetchRun stop pos budget script
    (∀ q ∈ r.2.1, q.1 + q.2 = stop ∧ pos ≤ q.1) ∧ pos ≤ r.1 ∧ r.1 ≤ stop ∧
    (r.2.2.1 = RunEnd.done → r.1 = stop) := by
  sorry

end Bita.Proofs
