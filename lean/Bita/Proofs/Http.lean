/-
  Proofs about the HTTP chunk reader model (C07, C08).
-/
import Bita.Model.Readers
import Bita.Spec.Runs
import Bita.Spec.Resume
import Bita.Proofs.HttpTop

namespace Bita.Proofs
open Bita Bita.Spec

theorem maximalRuns_spec (cs : List ChunkOffset) :
    (maximalRuns cs).flatten = cs ∧
    (∀ r ∈ maximalRuns cs, r ≠ [] ∧ Contiguous r) ∧
    Separated (maximalRuns cs) := by
  induction cs with
  | nil => simp [maximalRuns, Separated]
  | cons c cs ih =>
    obtain ⟨h1, h2, h3⟩ := ih
    rw [maximalRuns]
    split
    · rename_i d r rs heq
      rw [heq] at h1 h2 h3
      have hd := h2 (d :: r) (by simp)
      split
      · rename_i hadj
        refine ⟨by simpa using h1, ?_, ?_⟩
        · intro x hx
          rcases List.mem_cons.1 hx with hx | hx
          · subst hx; exact ⟨by simp, hadj, hd.2⟩
          · exact h2 x (List.mem_cons_of_mem _ hx)
        · cases rs with
          | nil => trivial
          | cons r2 rs =>
            refine ⟨?_, h3.2⟩
            have := h3.1
            rw [List.getLast?_cons_cons]
            exact this
      · rename_i hadj
        refine ⟨by simpa using h1, ?_, ?_⟩
        · intro x hx
          rcases List.mem_cons.1 hx with hx | hx
          · subst hx; exact ⟨by simp, trivial⟩
          · exact h2 x hx
        · refine ⟨?_, h3⟩
          intro a ha b hb
          simp at ha hb
          subst ha; subst hb
          exact hadj
    · rename_i rs hne
      refine ⟨by simpa using h1, ?_, ?_⟩
      · intro x hx
        rcases List.mem_cons.1 hx with hx | hx
        · subst hx; exact ⟨by simp, trivial⟩
        · exact h2 x hx
      · cases hrs : maximalRuns cs with
        | nil => trivial
        | cons r2 rs2 =>
          cases r2 with
          | nil => exact absurd rfl (h2 [] (by simp [hrs])).1
          | cons d r => exact absurd hrs (hne d r rs2)

theorem http_resume (data : Bytes) (retry : Nat) (chunks : List ChunkOffset) (script : List Resp)
    (hsize : ∀ c ∈ chunks, 1 ≤ c.size)
    (hin : ∀ c ∈ chunks, c.stop ≤ data.length) :
    httpReadChunks (fun off size => slice data off size) retry script chunks =
      fetchAll data retry (maximalRuns chunks) script := by
  exact http_resume_aux data retry chunks.length chunks (Nat.le_refl _) hsize hin script

theorem requests_are_maximal_runs (data : Bytes) (retry : Nat) (chunks : List ChunkOffset)
    (script : List Resp)
    (hsize : ∀ c ∈ chunks, 1 ≤ c.size)
    (hin : ∀ c ∈ chunks, c.stop ≤ data.length)
    (hfull : ∀ r ∈ script, ∃ fr, r = Resp.full fr)
    (hlen : (maximalRuns chunks).length ≤ script.length) :
    httpReadChunks (fun off size => slice data off size) retry script chunks =
      ⟨chunks.map (fun c => Item.chunk (slice data c.offset c.size)),
       (maximalRuns chunks).map runRequest⟩ := by
  rw [http_resume data retry chunks script hsize hin,
    fetchAll_full data retry (maximalRuns chunks) script hfull hlen, (maximalRuns_spec chunks).1]
  rfl

theorem runRequest_bounds (r : List ChunkOffset) (a b : ChunkOffset)
    (hc : Contiguous r) (hsize : ∀ c ∈ r, 1 ≤ c.size)
    (ha : r.head? = some a) (hb : r.getLast? = some b) :
    (runRequest r).1 = a.offset ∧ (runRequest r).1 + (runRequest r).2 - 1 = b.stop - 1 ∧
    rangeHeader (runRequest r).1 (runRequest r).2 = s!"bytes={a.offset}-{b.stop - 1}" := by
  cases r with
  | nil => simp at ha
  | cons c r' =>
    simp only [List.head?_cons, Option.some.injEq] at ha
    subst ha
    rw [List.getLast?_eq_some_getLast (by simp), Option.some.injEq] at hb
    have hs := contiguous_getLast_stop c r' hc
    rw [hb] at hs
    rw [runRequest_cons c r' hc]
    have e : c.offset + total (c :: r') - 1 = b.stop - 1 := by rw [hs]
    refine ⟨rfl, e, ?_⟩
    simp only [rangeHeader]
    rw [e]

theorem http_items_exact_prefix (data : Bytes) (retry : Nat) (chunks : List ChunkOffset)
    (script : List Resp)
    (hsize : ∀ c ∈ chunks, 1 ≤ c.size) (hin : ∀ c ∈ chunks, c.stop ≤ data.length) :
    ∃ k tail, k ≤ chunks.length ∧
      (httpReadChunks (fun off size => slice data off size) retry script chunks).items =
        (chunks.take k).map (exactItem data) ++ tail ∧
      ((tail = [] ∧ k = chunks.length) ∨ tail = [Item.stall] ∨ tail = [Item.errHttp] ∨
        tail = [Item.errEnd]) := by
  rw [http_resume data retry chunks script hsize hin]
  have hspec := maximalRuns_spec chunks
  have := fetchAll_prefix data retry (maximalRuns chunks) script (fun r hr => (hspec.2.1 r hr).2)
  rw [hspec.1] at this
  exact this

theorem fetchRun_requests (stop pos budget : Nat) (script : List Resp) (hle : pos ≤ stop) :
    let r := fetchRun stop pos budget script
    (∀ q ∈ r.2.1, q.1 + q.2 = stop ∧ pos ≤ q.1) ∧ pos ≤ r.1 ∧ r.1 ≤ stop ∧
    (r.2.2.1 = RunEnd.done → r.1 = stop) := by
  exact fetchRun_bounds stop script pos budget hle

end Bita.Proofs
