/-
  Proofs about the local chunk reader model (C08).
-/
import Bita.Model.Readers
import Bita.Spec.Resume

namespace Bita.Proofs
open Bita Bita.Spec

theorem io_slice_append_slice (file : Bytes) (pos a m : Nat) :
    slice file pos a ++ slice file (pos + a) m = slice file pos (a + m) := by
  unfold slice
  rw [List.take_add, List.drop_drop]

theorem io_slice_length (file : Bytes) (pos a : Nat) :
    (slice file pos a).length = min a (file.length - pos) := by
  simp [slice]

theorem io_slice_length_self (file : Bytes) (pos a : Nat) :
    slice file pos (slice file pos a).length = slice file pos a := by
  unfold slice
  rw [List.take_eq_take_iff]
  simp

theorem ioFill_sound (file : Bytes) (pos need : Nat) (script : List ReadEv) :
    ∀ acc : Bytes, acc = slice file pos acc.length → acc.length < need →
      (∃ rest, ioFill file pos need acc script = .ok (slice file pos need) rest ∧
          pos + need ≤ file.length) ∨
        ioFill file pos need acc script = .fail Item.stall ∨
        ioFill file pos need acc script = .fail Item.errEof ∨
        ioFill file pos need acc script = .fail Item.errIo := by
  induction script with
  | nil => intro acc _ _; simp [ioFill]
  | cons e s ih =>
    intro acc hacc hlt
    cases e with
    | pending => simpa [ioFill] using ih acc hacc hlt
    | err => simp [ioFill]
    | bytes n =>
      simp only [ioFill]
      split
      · simp
      · have hacc' : acc ++ slice file (pos + acc.length) (min n (need - acc.length)) =
            slice file pos (acc.length + min n (need - acc.length)) := by
          have := io_slice_append_slice file pos acc.length (min n (need - acc.length))
          rwa [← hacc] at this
        have hlen := congrArg List.length hacc'
        rw [io_slice_length] at hlen
        split
        · next h =>
          left
          refine ⟨s, ?_, ?_⟩
          · rw [hacc']
            congr 2
            omega
          · omega
        · next h =>
          apply ih
          · rw [hacc', io_slice_length_self]
          · omega

theorem io_reader_sound (file : Bytes) (chunks : List ChunkOffset) (buf0 : Bytes)
    (script : List ReadEv) (hsize : ∀ c ∈ chunks, 1 ≤ c.size) :
    ∃ k tail, k ≤ chunks.length ∧
      ioReadChunks file chunks buf0 script = (chunks.take k).map (exactItem file) ++ tail ∧
      (∀ c ∈ chunks.take k, c.stop ≤ file.length) ∧
      ((tail = [] ∧ k = chunks.length) ∨ tail = [Item.stall] ∨ tail = [Item.errEof] ∨
        tail = [Item.errIo]) := by
  induction chunks generalizing buf0 script with
  | nil => exact ⟨0, [], by simp [ioReadChunks]⟩
  | cons c cs ih =>
    have hc : 1 ≤ c.size := hsize c (by simp)
    have hcs : ∀ c ∈ cs, 1 ≤ c.size := fun d hd => hsize d (by simp [hd])
    have hne : c.size ≠ 0 := by omega
    rcases ioFill_sound file c.offset c.size script [] (by simp [slice]) (by simp; omega) with
      ⟨rest, hfill, hle⟩ | hfill | hfill | hfill
    · obtain ⟨k, tail, hk, heq, hall, htail⟩ := ih (slice file c.offset c.size) rest hcs
      refine ⟨k + 1, tail, by simpa using hk, ?_, ?_, ?_⟩
      · simp [ioReadChunks, hne, hfill, heq, exactItem]
      · intro d hd
        simp only [List.take_succ_cons, List.mem_cons] at hd
        rcases hd with rfl | hd
        · exact hle
        · exact hall d hd
      · simpa using htail
    · exact ⟨0, [Item.stall], by simp, by simp [ioReadChunks, hne, hfill], by simp, by simp⟩
    · exact ⟨0, [Item.errEof], by simp, by simp [ioReadChunks, hne, hfill], by simp, by simp⟩
    · exact ⟨0, [Item.errIo], by simp, by simp [ioReadChunks, hne, hfill], by simp, by simp⟩

theorem io_cnt_pending (s : List ReadEv) :
    ((ReadEv.pending :: s).filter (· ≠ ReadEv.pending)).length =
      (s.filter (· ≠ ReadEv.pending)).length := by
  rw [List.filter_cons_of_neg (by simp)]

theorem io_cnt_bytes (n : Nat) (s : List ReadEv) :
    ((ReadEv.bytes n :: s).filter (· ≠ ReadEv.pending)).length =
      (s.filter (· ≠ ReadEv.pending)).length + 1 := by
  rw [List.filter_cons_of_pos (by simp), List.length_cons]

theorem ioFill_complete (file : Bytes) (pos need : Nat) (hin : pos + need ≤ file.length)
    (script : List ReadEv)
    (hok : ∀ e ∈ script, e = ReadEv.pending ∨ ∃ n, 1 ≤ n ∧ e = ReadEv.bytes n) :
    ∀ acc : Bytes, acc = slice file pos acc.length → acc.length < need →
      need - acc.length ≤ (script.filter (· ≠ ReadEv.pending)).length →
      ∃ rest, ioFill file pos need acc script = .ok (slice file pos need) rest ∧
        (∀ e ∈ rest, e ∈ script) ∧
        (script.filter (· ≠ ReadEv.pending)).length ≤
          (rest.filter (· ≠ ReadEv.pending)).length + (need - acc.length) := by
  induction script with
  | nil => intro acc _ hlt h; simp at h; omega
  | cons e s ih =>
    have hoks : ∀ e ∈ s, e = ReadEv.pending ∨ ∃ n, 1 ≤ n ∧ e = ReadEv.bytes n :=
      fun d hd => hok d (by simp [hd])
    intro acc hacc hlt hcnt
    rcases hok e (by simp) with rfl | ⟨n, hn, rfl⟩
    · rw [io_cnt_pending] at hcnt ⊢
      obtain ⟨rest, h1, h2, h3⟩ := ih hoks acc hacc hlt hcnt
      exact ⟨rest, by simpa [ioFill] using h1, fun d hd => by simp [h2 d hd], h3⟩
    · simp only [ioFill]
      rw [io_cnt_bytes] at hcnt ⊢
      have hacc' : acc ++ slice file (pos + acc.length) (min n (need - acc.length)) =
          slice file pos (acc.length + min n (need - acc.length)) := by
        have := io_slice_append_slice file pos acc.length (min n (need - acc.length))
        rwa [← hacc] at this
      have hlen := congrArg List.length hacc'
      rw [io_slice_length, List.length_append] at hlen
      have hgot : ¬ (slice file (pos + acc.length) (min n (need - acc.length))).isEmpty = true := by
        rw [List.isEmpty_iff]
        intro h0
        rw [h0] at hlen
        simp at hlen
        omega
      rw [if_neg hgot]
      split
      · next h =>
        refine ⟨s, ?_, fun d hd => by simp [hd], ?_⟩
        · rw [hacc']
          congr 2
          simp at h
          omega
        · omega
      · next h =>
        simp only [List.length_append, Nat.not_le] at h
        obtain ⟨rest, h1, h2, h3⟩ := ih hoks
          (acc ++ slice file (pos + acc.length) (min n (need - acc.length)))
          (by rw [hacc', io_slice_length_self])
          (by simp only [List.length_append]; omega)
          (by simp only [List.length_append]; omega)
        refine ⟨rest, h1, fun d hd => by simp [h2 d hd], ?_⟩
        simp only [List.length_append] at h3
        omega

theorem io_reader_complete (file : Bytes) (chunks : List ChunkOffset) (buf0 : Bytes)
    (script : List ReadEv) (hsize : ∀ c ∈ chunks, 1 ≤ c.size)
    (hin : ∀ c ∈ chunks, c.stop ≤ file.length)
    (hok : ∀ e ∈ script, e = ReadEv.pending ∨ ∃ n, 1 ≤ n ∧ e = ReadEv.bytes n)
    (hlen : (chunks.map (·.size)).sum ≤ (script.filter (· ≠ ReadEv.pending)).length) :
    ioReadChunks file chunks buf0 script = chunks.map (exactItem file) := by
  induction chunks generalizing buf0 script with
  | nil => simp [ioReadChunks]
  | cons c cs ih =>
    have hc : 1 ≤ c.size := hsize c (by simp)
    have hcs : ∀ c ∈ cs, 1 ≤ c.size := fun d hd => hsize d (by simp [hd])
    have hne : c.size ≠ 0 := by omega
    have hinc : c.offset + c.size ≤ file.length := hin c (by simp)
    simp only [List.map_cons, List.sum_cons] at hlen
    obtain ⟨rest, h1, h2, h3⟩ := ioFill_complete file c.offset c.size hinc script hok []
      (by simp [slice]) (by simp; omega) (by simp only [List.length_nil]; omega)
    simp only [List.length_nil, Nat.sub_zero] at h3
    have := ih (slice file c.offset c.size) rest hcs (fun d hd => hin d (by simp [hd]))
      (fun e he => hok e (h2 e he)) (by omega)
    simp [ioReadChunks, hne, h1, this, exactItem]

end Bita.Proofs
