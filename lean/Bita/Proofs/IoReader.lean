/-
  Proofs about the local chunk reader model (C08).
-/
import Bita.Model.Readers
import Bita.Spec.Resume

namespace Bita.Proofs
open Bita Bita.Spec

theorem io_reader_sound (file : Bytes) (chunks : List ChunkOffset) (buf0 : Bytes)
    (script : List ReadEv) (hsize : ∀ c ∈ chunks, 1 ≤ c.size) :
    ∃ k tail, k ≤ chunks.length ∧
      ioReadChunks file chunks buf0 script = (chunks.take k).map (exactItem file) ++ tail ∧
      (∀ c ∈ chunks.take k, c.stop ≤ file.length) ∧
      ((tail = [] ∧ k = chunks.length) ∨ tail = [Item.stall] ∨ tail = [Item.errEof] ∨
        tail = [Item.errIo]) := by
  sorry

theorem io_reader_complete (file : Bytes) (chunks : List ChunkOffset) (buf0 : Bytes)
    (script : List ReadEv) (hsize : ∀ c ∈ chunks, 1 ≤ c.size)
    (hin : ∀ c ∈ chunks, c.stop ≤ file.length)
    (hok : ∀ e ∈ script, e = ReadEv.pending ∨ ∃ n, 1 ≤ n ∧ e = ReadEv.bytes n)
    (hlen : (chunks.map (·.size)).sum ≤ (script.filter (· ≠ ReadEv.pending)).length) :
    ioReadChunks file chunks buf0 script = chunks.map (exactItem file) := by
  sorry

end Bita.Proofs
