/-
  Frame lemmas about the file-system model (`Fs.get`, `Fs.set`, `Fs.remove`, `Fs.openOut`) and
  the evaluation of the open-flag expressions read from the source.
-/
import Bita.Model.Cli

namespace Bita.Proofs
open Bita Bita.Gen

theorem fs_get_nil (p : String) : Fs.get [] p = none := rfl

theorem fs_get_cons (e : String × Node) (fs : Fs) (p : String) :
    Fs.get (e :: fs) p = if e.1 = p then some e.2 else Fs.get fs p := by
  unfold Fs.get
  by_cases h : e.1 = p <;> simp [h]

theorem fs_get_append_none (fs : Fs) (e : String × Node) (p : String) (h : Fs.get fs p = none) :
    Fs.get (fs ++ [e]) p = if e.1 = p then some e.2 else none := by
  induction fs with
  | nil => simp [fs_get_cons, fs_get_nil]
  | cons x xs ih =>
    rw [fs_get_cons] at h
    rw [List.cons_append, fs_get_cons]
    by_cases hx : x.1 = p
    · simp [hx] at h
    · simp only [hx, if_false] at h ⊢
      exact ih h

theorem fs_get_append_ne (fs : Fs) (e : String × Node) (q : String) (h : e.1 ≠ q) :
    Fs.get (fs ++ [e]) q = Fs.get fs q := by
  induction fs with
  | nil => simp [fs_get_cons, fs_get_nil, h]
  | cons x xs ih =>
    rw [List.cons_append, fs_get_cons, fs_get_cons, ih]

theorem fs_get_map_ne (fs : Fs) (p q : String) (n : Node) (h : q ≠ p) :
    Fs.get (fs.map (fun e => if e.1 = p then (p, n) else e)) q = Fs.get fs q := by
  induction fs with
  | nil => rfl
  | cons x xs ih =>
    rw [List.map_cons, fs_get_cons, fs_get_cons, ih]
    by_cases hx : x.1 = p
    · have h1 : ¬ p = q := fun hh => h hh.symm
      simp [hx, h1]
    · simp [hx]

theorem fs_get_map_same (fs : Fs) (p : String) (n : Node) (h : (Fs.get fs p).isSome) :
    Fs.get (fs.map (fun e => if e.1 = p then (p, n) else e)) p = some n := by
  induction fs with
  | nil => simp [fs_get_nil] at h
  | cons x xs ih =>
    rw [fs_get_cons] at h
    rw [List.map_cons, fs_get_cons]
    by_cases hx : x.1 = p
    · simp [hx]
    · simp only [hx, if_false] at h ⊢
      exact ih h

/-- Writing a path does not change what any other path holds. -/
theorem fs_set_get_ne (fs : Fs) (p q : String) (n : Node) (h : q ≠ p) :
    Fs.get (fs.set p n) q = Fs.get fs q := by
  unfold Fs.set
  split
  · exact fs_get_map_ne fs p q n h
  · exact fs_get_append_ne fs (p, n) q (fun hh => h hh.symm)

/-- Reading back what was written. -/
theorem fs_set_get_same (fs : Fs) (p : String) (n : Node) :
    Fs.get (fs.set p n) p = some n := by
  unfold Fs.set
  split
  · rename_i h
    exact fs_get_map_same fs p n h
  · rename_i h
    have : Fs.get fs p = none := by
      cases hg : Fs.get fs p with
      | none => rfl
      | some x => simp [hg] at h
    rw [fs_get_append_none fs (p, n) p this]
    simp

theorem fs_remove_get_ne (fs : Fs) (p q : String) (h : q ≠ p) :
    Fs.get (fs.remove p) q = Fs.get fs q := by
  unfold Fs.remove
  induction fs with
  | nil => rfl
  | cons x xs ih =>
    by_cases hx : x.1 = p
    · have h2 : ¬ x.1 = q := fun hh => h (hh.symm.trans hx)
      rw [List.filter_cons_of_neg (by simp [hx]), ih, fs_get_cons]
      simp [h2]
    · rw [List.filter_cons_of_pos (by simp [hx]), fs_get_cons, fs_get_cons, ih]

theorem fs_remove_get_same (fs : Fs) (p : String) : Fs.get (fs.remove p) p = none := by
  unfold Fs.remove
  induction fs with
  | nil => rfl
  | cons x xs ih =>
    by_cases hx : x.1 = p
    · rw [List.filter_cons_of_neg (by simp [hx]), ih]
    · rw [List.filter_cons_of_pos (by simp [hx]), fs_get_cons, ih]
      simp [hx]

/-- Opening a path for writing does not change what any other path holds. -/
theorem fs_openOut_get_ne (fs fs1 : Fs) (p q : String) (f : OpenFlags)
    (ho : fs.openOut p f = some fs1) (h : q ≠ p) : Fs.get fs1 q = Fs.get fs q := by
  unfold Fs.openOut at ho
  split at ho
  · rename_i nd _
    split at ho
    · exact absurd ho (by simp)
    · split at ho
      · cases nd with
        | regular d =>
          simp only [Option.some.injEq] at ho
          rw [← ho]
          exact fs_set_get_ne fs p q _ h
        | blockdev d =>
          simp only [Option.some.injEq] at ho
          rw [← ho]
      · simp only [Option.some.injEq] at ho
        rw [← ho]
  · split at ho
    · simp only [Option.some.injEq] at ho
      rw [← ho]
      exact fs_set_get_ne fs p q _ h
    · exact absurd ho (by simp)

/-- No entry of `fs` is stored under `p`. -/
theorem fs_map_id_of_not_mem (fs : Fs) (p : String) (n : Node) (h : p ∉ fs.map (·.1)) :
    fs.map (fun e => if e.1 = p then (p, n) else e) = fs := by
  induction fs with
  | nil => rfl
  | cons x xs ih =>
    simp only [List.map_cons, List.mem_cons, not_or] at h
    rw [List.map_cons, ih h.2]
    have : ¬ x.1 = p := fun hh => h.1 hh.symm
    simp [this]

/-- With unique paths, writing what is already stored changes nothing. -/
theorem fs_set_self (fs : Fs) (hfs : (fs.map (·.1)).Nodup) (p : String) (n : Node)
    (h : Fs.get fs p = some n) : fs.set p n = fs := by
  unfold Fs.set
  rw [h]
  simp only [Option.isSome_some, if_true]
  induction fs with
  | nil => rfl
  | cons x xs ih =>
    rw [List.map_cons, List.nodup_cons] at hfs
    rw [fs_get_cons] at h
    rw [List.map_cons]
    by_cases hx : x.1 = p
    · simp only [hx, if_true, Option.some.injEq] at h
      rw [fs_map_id_of_not_mem xs p n (hx ▸ hfs.1)]
      simp only [hx, if_true]
      congr 1
      rw [← hx, ← h]
    · simp only [hx, if_false] at h ⊢
      rw [ih hfs.2 h]

/-- The flags of the three open calls, evaluated. -/
theorem cloneOpen_flags (o : CliFlags) :
    OpenFlags.ofExprs cloneOpen o =
      some { read := o.verifyOutput || o.seedOutput, write := true, create := o.force || o.seedOutput,
             createNew := !o.force && !o.seedOutput, truncate := false } := rfl

/-- The flags `compress_cmd` opens the output with. -/
def compressFlags (o : CliFlags) : OpenFlags :=
  { read := true, write := true, create := o.force, createNew := !o.force, truncate := o.force }

/-- The flags the temp file is opened with. -/
def tempFlags : OpenFlags :=
  { read := false, write := true, create := true, createNew := false, truncate := true }

theorem compressOpen_flags (o : CliFlags) :
    OpenFlags.ofExprs compressOpen o = some (compressFlags o) := rfl

theorem tempOpen_flags (o : CliFlags) : OpenFlags.ofExprs tempOpen o = some tempFlags := rfl

end Bita.Proofs
