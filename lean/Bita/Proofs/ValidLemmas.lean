/-
  What the chunking proofs really use of a filter configuration.

  `Config.Valid` asks `FilterConfig.Valid` (with `window ≤ maxSize`) of BuzHash only; RollSum
  needs no warm-up, so it gets the weaker `FilterConfig.ValidRoll`.  The lemmas shared between
  the two rolling algorithms are stated under `FilterConfig.Sane`, the common part; the BuzHash
  warm-up bound `window ≤ maxSize` is asked separately, only where the hasher is a BuzHash.
-/
import Bita.Model.Chunker

namespace Bita

/-- The part of a valid filter configuration that both rolling algorithms share. -/
structure FilterConfig.Sane (f : FilterConfig) : Prop where
  win1 : 1 ≤ f.window
  max1 : 1 ≤ f.maxSize
  mm : f.minSize ≤ f.maxSize
  bits1 : 1 ≤ f.bits
  bits30 : f.bits ≤ 30

theorem FilterConfig.Sane_of_Valid {f : FilterConfig} (hv : f.Valid) : f.Sane := by
  obtain ⟨h1, h2, h3, h4, h5⟩ := hv
  exact ⟨h1, by omega, h3, h4, h5⟩

theorem FilterConfig.Sane_of_ValidRoll {f : FilterConfig} (hv : f.ValidRoll) : f.Sane := by
  obtain ⟨h1, h2, h3, h4, h5⟩ := hv
  exact ⟨h1, h2, h3, h4, h5⟩

theorem FilterConfig.Valid.window_le {f : FilterConfig} (hv : f.Valid) : f.window ≤ f.maxSize :=
  hv.2.1

end Bita
