/-
  Facts about `indexOf`, `dests` and `strip` on tilings.
-/
import Bita.Proofs.ExecutorTiling

namespace Bita.Proofs.Exec
open Bita Bita.Spec

variable {κ : Type} [DecidableEq κ]

/-- Offsets of `k` in a placement list, in list order. -/
def offs (P : List (κ × Nat)) (k : κ) : List Nat := (P.filter (fun e => e.1 = k)).map (·.2)

/-- The `Loc` that `indexOf` holds for `k`. -/
def locOf (c : κ → Bytes) (P : List (κ × Nat)) (k : κ) : Loc := ⟨(c k).length, offs P k⟩

theorem mem_offs (P : List (κ × Nat)) (k : κ) (o : Nat) : o ∈ offs P k ↔ (k, o) ∈ P := by
  simp only [offs, List.mem_map, List.mem_filter, decide_eq_true_eq]
  constructor
  · rintro ⟨⟨k', o'⟩, ⟨h1, h2⟩, h3⟩
    simp only at h2 h3; subst h2 h3; exact h1
  · intro h; exact ⟨(k, o), ⟨h, rfl⟩, rfl⟩

theorem offs_ne_nil (P : List (κ × Nat)) (k : κ) : offs P k ≠ [] ↔ ∃ o, (k, o) ∈ P := by
  constructor
  · intro h
    obtain ⟨o, ho⟩ := List.exists_mem_of_ne_nil _ h
    exact ⟨o, (mem_offs P k o).1 ho⟩
  · rintro ⟨o, ho⟩ h
    have := (mem_offs P k o).2 ho
    rw [h] at this; simp at this

theorem offs_append_singleton (P : List (κ × Nat)) (k k' : κ) (o : Nat) :
    offs (P ++ [(k, o)]) k' = if k' = k then offs P k' ++ [o] else offs P k' := by
  unfold offs
  rw [List.filter_append, List.map_append]
  by_cases h : k' = k
  · subst h; simp
  · have : ¬ k = k' := fun h' => h h'.symm
    simp [h, this]

theorem mem_dests (PO PN : List (κ × Nat)) (k : κ) (d : Nat) :
    d ∈ dests PO PN k ↔ (k, d) ∈ PN ∧ (k, d) ∉ PO := by
  simp only [dests, List.mem_map, List.mem_filter, Bool.and_eq_true, decide_eq_true_eq,
    Bool.not_eq_true', List.contains_eq_mem, decide_eq_false_iff_not]
  constructor
  · rintro ⟨⟨k', o'⟩, ⟨h1, h2, h3⟩, h4⟩
    simp only at h2 h4; subst h2 h4; exact ⟨h1, h3⟩
  · rintro ⟨h1, h2⟩; exact ⟨(k, d), ⟨h1, rfl, h2⟩, rfl⟩

/-- What `strip` keeps of an entry is exactly `dests`. -/
theorem kept_eq_dests (PO PN : List (κ × Nat)) (k : κ) :
    (offs PN k).filter (fun o => !(offs PO k).contains o) = dests PO PN k := by
  unfold offs dests
  rw [List.filter_map, List.filter_filter]
  congr 1
  apply List.filter_congr
  rintro ⟨k', o⟩ _
  by_cases h : k' = k
  · subst h
    have := mem_offs PO k' o
    unfold offs at this
    simp only [Function.comp, List.contains_eq_mem, decide_true, Bool.and_true, Bool.true_and]
    congr 1
    exact decide_eq_decide.2 this
  · simp [h]

/-! ### `insertSorted`, `addChunk`, `indexOf` -/

theorem insertSorted_append (o : Nat) : ∀ (l : List Nat), (∀ x ∈ l, x < o) → insertSorted o l = l ++ [o] := by
  intro l
  induction l with
  | nil => intro _; rfl
  | cons x xs ih =>
    intro h
    have hx : x < o := h x (by simp)
    have : ¬ o < x := by omega
    have : ¬ o = x := by omega
    simp [insertSorted, *]
    exact ih (fun y hy => h y (by simp [hy]))

theorem get_eq_none_iff (ix : Index κ) (k : κ) : ix.get k = none ↔ ∀ e ∈ ix, e.1 ≠ k := by
  simp [Index.get]

theorem mem_of_get_eq_some (ix : Index κ) (k : κ) (l : Loc) (h : ix.get k = some l) : (k, l) ∈ ix := by
  simp only [Index.get, Option.map_eq_some_iff] at h
  obtain ⟨e, he, hl⟩ := h
  have h1 := List.mem_of_find?_eq_some he
  have h2 := List.find?_some he
  simp only [decide_eq_true_eq] at h2
  subst hl h2; exact h1

theorem get_isSome_iff (ix : Index κ) (k : κ) : (ix.get k).isSome ↔ ∃ e ∈ ix, e.1 = k := by
  simp [Index.get, List.find?_isSome]

/-- Invariant of building an index from a placement list. -/
def IxInv (c : κ → Bytes) (P : List (κ × Nat)) (ix : Index κ) : Prop :=
  (∀ e ∈ ix, e.2 = locOf c P e.1 ∧ offs P e.1 ≠ []) ∧ (∀ k, offs P k ≠ [] → ∃ e ∈ ix, e.1 = k)

theorem ixInv_step (c : κ → Bytes) (P : List (κ × Nat)) (ix : Index κ) (k : κ) (o : Nat)
    (hinv : IxInv c P ix) (hlt : ∀ x ∈ P, x.2 < o) :
    IxInv c (P ++ [(k, o)]) (ix.addChunk k (c k).length [o]) := by
  obtain ⟨h1, h2⟩ := hinv
  unfold Index.addChunk
  cases hget : ix.get k with
  | none =>
    have hno := (get_eq_none_iff ix k).1 hget
    have hnil : offs P k = [] := by
      apply Classical.byContradiction
      intro hne
      obtain ⟨e, he, hk⟩ := h2 k hne
      exact hno e he hk
    constructor
    · intro e he
      simp only [List.mem_append, List.mem_singleton] at he
      rcases he with he | he
      · have hk := hno e he
        obtain ⟨ha, hb⟩ := h1 e he
        simp only [locOf, offs_append_singleton, if_neg hk] at *
        exact ⟨ha, hb⟩
      · subst he
        simp [locOf, offs_append_singleton, hnil, insertSorted]
    · intro k' hk'
      by_cases hkk : k' = k
      · subst hkk
        exact ⟨(k', ⟨(c k').length, insertSorted o []⟩), by simp, rfl⟩
      · rw [offs_append_singleton, if_neg hkk] at hk'
        obtain ⟨e, he, hk⟩ := h2 k' hk'
        exact ⟨e, by simp [he], hk⟩
  | some l =>
    constructor
    · intro e' he'
      simp only [List.mem_map] at he'
      obtain ⟨e, he, rfl⟩ := he'
      obtain ⟨ha, hb⟩ := h1 e he
      by_cases hk : e.1 = k
      · simp only [if_pos hk, List.foldl_cons, List.foldl_nil]
        have hall : ∀ x ∈ e.2.offsets, x < o := by
          intro x hx
          rw [ha] at hx
          simp only [locOf] at hx
          have := (mem_offs P e.1 x).1 hx
          exact hlt _ this
        rw [insertSorted_append o _ hall]
        rw [ha]
        simp [locOf, offs_append_singleton, hk]
      · simp only [if_neg hk, locOf, offs_append_singleton]
        exact ⟨ha, hb⟩
    · intro k' hk'
      have : ∃ e ∈ ix, e.1 = k' := by
        by_cases hkk : k' = k
        · subst hkk
          exact (get_isSome_iff ix k').1 (by simp [hget])
        · rw [offs_append_singleton, if_neg hkk] at hk'
          exact h2 k' hk'
      obtain ⟨e, he, hk⟩ := this
      refine ⟨_, List.mem_map_of_mem he, ?_⟩
      split <;> exact hk

theorem ixInv_foldl (c : κ → Bytes) : ∀ (P P0 : List (κ × Nat)) (ix : Index κ),
    IxInv c P0 ix → (P0 ++ P).Pairwise (fun a b => a.2 < b.2) →
    IxInv c (P0 ++ P) (P.foldl (fun ix e => ix.addChunk e.1 (c e.1).length [e.2]) ix) := by
  intro P
  induction P with
  | nil => intro P0 ix h _; simpa using h
  | cons e P ih =>
    intro P0 ix h hs
    have hs' : ((P0 ++ [e]) ++ P).Pairwise (fun a b => a.2 < b.2) := by simpa using hs
    have hlt : ∀ x ∈ P0, x.2 < e.2 := by
      intro x hx
      rw [List.pairwise_append] at hs
      exact hs.2.2 x hx e (by simp)
    have := ih (P0 ++ [e]) _ (ixInv_step c P0 ix e.1 e.2 h hlt) hs'
    simpa using this

theorem ixInv_indexOf (c : κ → Bytes) (ts : List κ) (hne : ∀ k ∈ ts, c k ≠ []) :
    IxInv c (placements c ts 0) (indexOf c ts) := by
  have := ixInv_foldl c (placements c ts 0) [] [] ⟨by simp, by simp [offs]⟩
    (by simpa using placements_sorted c ts 0 hne)
  simpa [indexOf] using this

theorem mem_indexOf (c : κ → Bytes) (ts : List κ) (hne : ∀ k ∈ ts, c k ≠ []) (e : κ × Loc)
    (he : e ∈ indexOf c ts) : e.2 = locOf c (placements c ts 0) e.1 ∧ e.1 ∈ ts := by
  obtain ⟨ha, hb⟩ := (ixInv_indexOf c ts hne).1 e he
  obtain ⟨o, ho⟩ := (offs_ne_nil _ _).1 hb
  exact ⟨ha, (mem_placements c _ _ _ ho).2.2⟩

theorem exists_mem_indexOf (c : κ → Bytes) (ts : List κ) (hne : ∀ k ∈ ts, c k ≠ []) (k : κ)
    (hk : k ∈ ts) : ∃ e ∈ indexOf c ts, e.1 = k := by
  obtain ⟨o, ho⟩ := exists_placement c ts 0 k hk
  exact (ixInv_indexOf c ts hne).2 k ((offs_ne_nil _ _).2 ⟨o, ho⟩)

theorem indexOf_get_some (c : κ → Bytes) (ts : List κ) (hne : ∀ k ∈ ts, c k ≠ []) (k : κ)
    (hk : k ∈ ts) : (indexOf c ts).get k = some (locOf c (placements c ts 0) k) := by
  have h := (get_isSome_iff _ k).2 (exists_mem_indexOf c ts hne k hk)
  obtain ⟨l, hl⟩ := Option.isSome_iff_exists.1 h
  have := mem_indexOf c ts hne _ (mem_of_get_eq_some _ _ _ hl)
  rw [hl]; exact congrArg some this.1

theorem indexOf_get_none (c : κ → Bytes) (ts : List κ) (hne : ∀ k ∈ ts, c k ≠ []) (k : κ)
    (hk : k ∉ ts) : (indexOf c ts).get k = none := by
  rw [get_eq_none_iff]
  intro e he h
  exact hk (h ▸ (mem_indexOf c ts hne e he).2)

/-! ### `strip` -/

/-- What `strip` does to one target entry. -/
def stripEntry (self : Index κ) (e : κ × Loc) : Option (κ × Loc) :=
  match self.get e.1 with
  | some l =>
    let kept := e.2.offsets.filter (fun o => !l.offsets.contains o)
    if kept.isEmpty then none else some (e.1, { e.2 with offsets := kept })
  | none => some e

theorem strip_snoc (self t : Index κ) (e : κ × Loc) :
    (self.strip (t ++ [e])).1 = (self.strip t).1 ++ (stripEntry self e).toList := by
  unfold Index.strip
  rw [List.foldl_append]
  simp only [List.foldl_cons, List.foldl_nil]
  generalize List.foldl _ _ t = acc
  obtain ⟨out, cnt, tot⟩ := acc
  simp only [stripEntry]
  cases self.get e.1 with
  | none => simp
  | some l =>
    simp only
    split <;> simp

theorem strip_fst (self target : Index κ) :
    (self.strip target).1 = target.filterMap (stripEntry self) := by
  have key : ∀ r : Index κ, (self.strip r.reverse).1 = r.reverse.filterMap (stripEntry self) := by
    intro r
    induction r with
    | nil => rfl
    | cons e t ih =>
      rw [List.reverse_cons, strip_snoc, ih, List.filterMap_append]
      cases hs : stripEntry self e <;> simp [hs]
  simpa using key target.reverse

theorem filterMap_filter_eq {α : Type} (g : α → Option α) (p q : α → Bool) : ∀ (l : List α),
    (∀ e ∈ l, (g e).filter p = if q e then some e else none) →
      (l.filterMap g).filter p = l.filter q := by
  intro l
  induction l with
  | nil => intro _; rfl
  | cons e es ih =>
    intro h
    have he := h e (by simp)
    have ih' := ih (fun x hx => h x (by simp [hx]))
    rw [List.filterMap_cons]
    cases hg : g e with
    | none =>
      rw [hg] at he
      by_cases hq : q e = true
      · rw [if_pos hq] at he; cases he
      · simp [hq, ih']
    | some b =>
      rw [hg] at he
      simp only [Option.filter] at he
      by_cases hq : q e = true
      · rw [if_pos hq] at he
        split at he
        · cases he; simp [*]
        · cases he
      · rw [if_neg hq] at he
        split at he
        · cases he
        · simp [*]

section
variable (c : κ → Bytes) (O N : List κ)
  (hne : ∀ k, k ∈ O ∨ k ∈ N → c k ≠ [])
include hne

theorem stripEntry_indexOf (e : κ × Loc) (he : e ∈ indexOf c N) :
    stripEntry (indexOf c O) e =
      if e.1 ∈ O then
        (if dests (placements c O 0) (placements c N 0) e.1 = [] then none
         else some (e.1, ⟨(c e.1).length, dests (placements c O 0) (placements c N 0) e.1⟩))
      else some e := by
  have hO : ∀ k ∈ O, c k ≠ [] := fun k hk => hne k (Or.inl hk)
  have hN : ∀ k ∈ N, c k ≠ [] := fun k hk => hne k (Or.inr hk)
  obtain ⟨h2, _⟩ := mem_indexOf c N hN e he
  unfold stripEntry
  by_cases hk : e.1 ∈ O
  · rw [indexOf_get_some c O hO e.1 hk, if_pos hk]
    simp only [h2, locOf, kept_eq_dests, List.isEmpty_iff]
  · rw [indexOf_get_none c O hO e.1 hk, if_neg hk]

/-- Removing the moved chunks from the stripped target leaves the chunks absent from `O`. -/
theorem target_filter (copies : List κ) (h1 : ∀ k ∈ copies, k ∈ O)
    (h2 : ∀ k ∈ O, dests (placements c O 0) (placements c N 0) k ≠ [] → k ∈ copies) :
    ((indexOf c O).strip (indexOf c N)).1.filter (fun e => !copies.contains e.1) =
      (indexOf c N).filter (fun e => !O.contains e.1) := by
  rw [strip_fst]
  apply filterMap_filter_eq
  intro e he
  rw [stripEntry_indexOf c O N hne e he]
  by_cases hk : e.1 ∈ O
  · simp only [if_pos hk]
    by_cases hd : dests (placements c O 0) (placements c N 0) e.1 = []
    · simp [hd, hk]
    · have := h2 e.1 hk hd
      simp [hd, hk, Option.filter, this]
  · have : e.1 ∉ copies := fun h => hk (h1 _ h)
    simp [hk, Option.filter, this]

end

end Bita.Proofs.Exec
