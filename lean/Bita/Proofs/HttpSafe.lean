/-
  The HTTP chunk reader reaches no panic branch whatever the server sends (C15 T3).
-/
import Bita.Model.Readers
import Bita.Proofs.HttpSafeRun

namespace Bita.Proofs
open Bita

/-- For *any* server behaviour (`serve` may return any bytes of any length for any range: extra
bytes, empty bodies, error pages), any failure script, any retry budget and any list of chunks
with stored size ≥ 1 (enforced when an archive is opened), the stream of the HTTP chunk reader
consists of chunks, at most one error or stall - never the panic item (no underflow of the
request size, of the adjacent-run counter, or of `offset + size - 1`). -/
theorem http_no_panic (serve : Nat → Nat → Bytes) (retry : Nat) (script : List Resp)
    (chunks : List ChunkOffset) (hsize : ∀ c ∈ chunks, 1 ≤ c.size) :
    Item.panic ∉ (httpReadChunks serve retry script chunks).items := by
  exact run_safe serve retry script _ (Good.closed chunks 0 hsize)

/-- The same for a single `read_at` (header reads), for ranges of size ≥ 1. -/
theorem http_read_at_no_panic (serve : Nat → Nat → Bytes) (retry offset size : Nat) (script : List Resp)
    (hsize : 1 ≤ size) :
    (httpReadAt serve retry offset size script).1 ≠ Item.panic := by
  induction script generalizing retry with
  | nil => simp [httpReadAt]
  | cons r s ih =>
    have hz : ¬ (offset + size = 0) := by omega
    rw [httpReadAt, if_neg hz]
    cases r with
    | refuse =>
      dsimp only
      split
      · simp
      · exact ih (retry - 1)
    | full fr =>
      dsimp only
      split <;> simp
    | part n fr cut =>
      dsimp only
      split
      · split
        · simp
        · exact ih (retry - 1)
      · split <;> simp

end Bita.Proofs
