/-
  The executor invariant and its preservation by every operation of a safe plan.
-/
import Bita.Proofs.ExecutorWrites

namespace Bita.Proofs.Exec
open Bita Bita.Spec

variable {κ : Type} [DecidableEq κ]

/-- The chunks of `O` that still have to be written somewhere. -/
def movableOf (c : κ → Bytes) (O N : List κ) : List κ :=
  O.eraseDups.filter (fun k => !(dests (placements c O 0) (placements c N 0) k).isEmpty)

theorem mem_movableOf (c : κ → Bytes) (O N : List κ) (k : κ) :
    k ∈ movableOf c O N ↔ k ∈ O ∧ dests (placements c O 0) (placements c N 0) k ≠ [] := by
  simp [movableOf, List.mem_eraseDups]

def copiesOf (ops : List (ROp κ)) : List κ := (ops.filter isCopy).map opKey

/-- Per-operation part of `safePlan`. -/
def OpOk (c : κ → Bytes) (O N : List κ) : ROp κ → Prop
  | .copy k sz src d =>
    k ∈ movableOf c O N ∧ sz = (c k).length ∧ firstOff (placements c O 0) k = some src ∧
      d = dests (placements c O 0) (placements c N 0) k
  | .store k sz src =>
    k ∈ movableOf c O N ∧ sz = (c k).length ∧ firstOff (placements c O 0) k = some src

theorem safePlan_decode (c : κ → Bytes) (O N : List κ) (ops : List (ROp κ))
    (hs : safePlan c O N ops = true) :
    (∀ op ∈ ops, OpOk c O N op) ∧ (copiesOf ops).Nodup ∧
    (∀ k ∈ movableOf c O N, k ∈ copiesOf ops) ∧
    orderedFrom c (placements c O 0) (movableOf c O N) [] ops = true := by
  unfold safePlan at hs
  simp only [Bool.and_eq_true, List.all_eq_true, decide_eq_true_eq, List.contains_eq_mem] at hs
  obtain ⟨⟨⟨h1, h2⟩, h3⟩, h4⟩ := hs
  refine ⟨?_, h2, h3, h4⟩
  intro op hop
  have := h1 op hop
  cases op with
  | copy k sz src d =>
    simp only [Bool.and_eq_true, decide_eq_true_eq] at this
    obtain ⟨⟨⟨a, b⟩, c'⟩, d'⟩ := this
    exact ⟨a, b, c', d'⟩
  | store k sz src =>
    simp only [Bool.and_eq_true, decide_eq_true_eq] at this
    obtain ⟨⟨a, b⟩, c'⟩ := this
    exact ⟨a, b, c'⟩

theorem firstOff_mem (P : List (κ × Nat)) (k : κ) (o : Nat) (h : firstOff P k = some o) :
    (k, o) ∈ P := by
  simp only [firstOff, Option.map_eq_some_iff] at h
  obtain ⟨e, he, ho⟩ := h
  have h1 := List.mem_of_find?_eq_some he
  have h2 := List.find?_some he
  simp only [decide_eq_true_eq] at h2
  subst ho h2; exact h1


section
variable (c : κ → Bytes) (O N : List κ)

/-- Invariant of the executor: after a prefix of the plan whose operations have keys `seen`
and whose copies have keys `copied`. -/
structure Inv (s : ExecSt κ) (seen copied : List κ) : Prop where
  len : (fileOf c O).length ≤ s.out.file.length
  done : ∀ e ∈ placements c N 0, (e ∈ placements c O 0 ∨ e.1 ∈ copied) →
    slice s.out.file e.2 (c e.1).length = c e.1
  mov : ∀ y ∈ movableOf c O N, y ∉ copied → ∀ fy, firstOff (placements c O 0) y = some fy →
    s.store.find? (fun e => e.1 = y) = some (y, c y) ∨
    (s.store.find? (fun e => e.1 = y) = none ∧ y ∉ seen ∧ slice s.out.file fy (c y).length = c y)

variable {c O N}

/-- The state after the writes of `copy z`. -/
theorem inv_copy
    {s : ExecSt κ} {seen copied : List κ} (hinv : Inv c O N s seen copied) (z : κ)
    (hord : ∀ d ∈ dests (placements c O 0) (placements c N 0) z, ∀ y ∈ movableOf c O N,
      y = z ∨ y ∈ seen ∨ ∀ fy, firstOff (placements c O 0) y = some fy →
        fy + (c y).length ≤ d ∨ d + (c z).length ≤ fy)
    (o : OutSt κ) (hfile : o.file = s.out.file) (store' : List (κ × Bytes))
    (hstore : ∀ y, y ≠ z → store'.find? (fun e => e.1 = y) = s.store.find? (fun e => e.1 = y))
    (ix : Index κ) (m : Nat) :
    Inv c O N ⟨{ (o.writeOffsets (dests (placements c O 0) (placements c N 0) z) (c z)) with index := ix },
      store', m⟩ (z :: seen) (z :: copied) := by
  have hds : ∀ d ∈ dests (placements c O 0) (placements c N 0) z, (z, d) ∈ placements c N 0 :=
    fun d hd => ((mem_dests _ _ _ _).1 hd).1
  obtain ⟨T1, T2⟩ := writeOffsets_tiling c N z _ hds o
  constructor
  · have := writeOffsets_length_le (c z) (dests (placements c O 0) (placements c N 0) z) o
    rw [hfile] at this
    have := hinv.len
    simp only
    omega
  · intro e he hcase
    simp only
    by_cases hc : e.1 = z ∧ e.2 ∈ dests (placements c O 0) (placements c N 0) z
    · exact T1 e he hc.1 hc.2
    · apply T2 e he hc
      rw [hfile]
      apply hinv.done e he
      rcases hcase with h | h
      · exact Or.inl h
      · simp only [List.mem_cons] at h
        rcases h with h | h
        · by_cases hpo : e ∈ placements c O 0
          · exact Or.inl hpo
          · exfalso; apply hc
            refine ⟨h, (mem_dests _ _ _ _).2 ?_⟩
            rw [← h]; exact ⟨he, hpo⟩
        · exact Or.inr h
  · intro y hy hyc fy hfy
    simp only [List.mem_cons, not_or] at hyc
    obtain ⟨hyz, hyc⟩ := hyc
    simp only
    rw [hstore y hyz]
    rcases hinv.mov y hy hyc fy hfy with h | ⟨h1, h2, h3⟩
    · exact Or.inl h
    · refine Or.inr ⟨h1, ?_, ?_⟩
      · simp only [List.mem_cons, not_or]; exact ⟨hyz, h2⟩
      · apply writeOffsets_keep (c z) fy _ _ rfl _ o (by rw [hfile]; exact h3)
        intro d hd
        rcases hord d hd y hy with h | h | h
        · exact absurd h hyz
        · exact absurd h h2
        · exact h fy hfy

theorem find?_filter_ne (st : List (κ × Bytes)) (y z : κ) (h : y ≠ z) :
    (st.filter (fun e => e.1 ≠ z)).find? (fun e => e.1 = y) = st.find? (fun e => e.1 = y) := by
  rw [List.find?_filter]
  congr 1
  funext a
  by_cases ha : a.1 = z
  · have : ¬ z = y := fun h' => h h'.symm
    simp [ha, this]
  · simp [ha]

theorem src_in_bounds {s : ExecSt κ} {seen copied : List κ} (hinv : Inv c O N s seen copied)
    (y : κ) (fy : Nat) (hfy : firstOff (placements c O 0) y = some fy) :
    fy + (c y).length ≤ s.out.file.length := by
  have := (mem_placements c O 0 _ (firstOff_mem _ _ _ hfy)).2.1
  have := hinv.len
  simp only at *
  omega

theorem step_copy {s : ExecSt κ} {seen copied : List κ} (hinv : Inv c O N s seen copied)
    (z : κ) (sz src : Nat) (dest : List Nat) (hok : OpOk c O N (.copy z sz src dest))
    (hzc : z ∉ copied)
    (hord : ∀ d ∈ dests (placements c O 0) (placements c N 0) z, ∀ y ∈ movableOf c O N,
      y = z ∨ y ∈ seen ∨ ∀ fy, firstOff (placements c O 0) y = some fy →
        fy + (c y).length ≤ d ∨ d + (c z).length ≤ fy) :
    ∃ s', s.step (.copy z sz src dest) = some s' ∧ Inv c O N s' (z :: seen) (z :: copied) ∧
      s'.out.index = s.out.index.remove z ∧
      writesOf s'.out.log = writesOf s.out.log ++
        (dests (placements c O 0) (placements c N 0) z).map (fun d => (d, c z)) := by
  obtain ⟨hm, hsz, hsrc, hd⟩ := hok
  subst hsz hd
  rcases hinv.mov z hm hzc src hsrc with h | ⟨h1, _, h3⟩
  · simp only [ExecSt.step, h]
    refine ⟨_, rfl, ?_, ?_, ?_⟩
    · exact inv_copy hinv z hord s.out rfl _ (fun y hy => find?_filter_ne s.store y z hy) _ _
    · simp [writeOffsets_index]
    · simp [writeOffsets_writes]
  · have hr : readAt s.out.file src (c z).length = some (c z) := by
      rw [readAt_eq _ _ _ (src_in_bounds hinv z src hsrc), h3]
    simp only [ExecSt.step, h1, hr]
    refine ⟨_, rfl, ?_, ?_, ?_⟩
    · exact inv_copy hinv z hord { s.out with log := s.out.log ++ [IoOp.read src (c z).length] }
        rfl _ (fun y _ => rfl) _ _
    · simp [writeOffsets_index]
    · simp [writeOffsets_writes, writesOf_append, writesOf]

theorem step_store {s : ExecSt κ} {seen copied : List κ} (hinv : Inv c O N s seen copied)
    (y : κ) (sz src : Nat) (hok : OpOk c O N (.store y sz src)) :
    ∃ s', s.step (.store y sz src) = some s' ∧ Inv c O N s' (y :: seen) copied ∧
      s'.out.index = s.out.index ∧ writesOf s'.out.log = writesOf s.out.log := by
  obtain ⟨hm, hsz, hsrc⟩ := hok
  subst hsz
  cases hf : s.store.find? (fun e => e.1 = y) with
  | some p =>
    simp only [ExecSt.step, hf, Option.isSome_some, if_true]
    refine ⟨_, rfl, ?_, rfl, rfl⟩
    refine ⟨hinv.len, hinv.done, ?_⟩
    intro y' hy' hyc fy hfy
    rcases hinv.mov y' hy' hyc fy hfy with h | ⟨h1, h2, h3⟩
    · exact Or.inl h
    · refine Or.inr ⟨h1, ?_, h3⟩
      simp only [List.mem_cons, not_or]
      refine ⟨?_, h2⟩
      intro hyy; subst hyy; rw [hf] at h1; cases h1
  | none =>
    have hr : readAt s.out.file src (c y).length = some (slice s.out.file src (c y).length) :=
      readAt_eq _ _ _ (src_in_bounds hinv y src hsrc)
    simp only [ExecSt.step, hf, hr, Option.isSome_none]
    refine ⟨_, rfl, ?_, rfl, ?_⟩
    · refine ⟨hinv.len, hinv.done, ?_⟩
      intro y' hy' hyc fy hfy
      simp only
      by_cases hyy : y' = y
      · subst hyy
        left
        rcases hinv.mov y' hy' hyc fy hfy with h | ⟨_, _, h3⟩
        · rw [hf] at h; cases h
        · have : fy = src := by rw [hsrc] at hfy; cases hfy; rfl
          subst this
          simp [List.find?_append, hf, h3]
      · have hyy' : ¬ y = y' := fun h => hyy h.symm
        have : (s.store ++ [(y, slice s.out.file src (c y).length)]).find? (fun e => e.1 = y')
            = s.store.find? (fun e => e.1 = y') := by
          simp [List.find?_append, hyy']
        rw [this]
        rcases hinv.mov y' hy' hyc fy hfy with h | ⟨h1, h2, h3⟩
        · exact Or.inl h
        · refine Or.inr ⟨h1, ?_, h3⟩
          simp only [List.mem_cons, not_or]; exact ⟨hyy, h2⟩
    · simp [writesOf_append, writesOf]

theorem ordered_copy (PO : List (κ × Nat)) (mv seen : List κ) (z : κ) (sz src : Nat)
    (dest : List Nat) (ops : List (ROp κ))
    (h : orderedFrom c PO mv seen (.copy z sz src dest :: ops) = true) :
    (∀ d ∈ dest, ∀ y ∈ mv, y = z ∨ y ∈ seen ∨ ∀ fy, firstOff PO y = some fy →
        fy + (c y).length ≤ d ∨ d + (c z).length ≤ fy) ∧
      orderedFrom c PO mv (z :: seen) ops = true := by
  simp only [orderedFrom, Bool.and_eq_true, List.all_eq_true, Bool.or_eq_true, decide_eq_true_eq,
    List.contains_eq_mem, opKey] at h
  obtain ⟨h1, h2⟩ := h
  refine ⟨?_, h2⟩
  intro d hd y hy
  rcases h1 d hd y hy with (h | h) | h
  · exact Or.inl h
  · exact Or.inr (Or.inl h)
  · refine Or.inr (Or.inr ?_)
    intro fy hfy
    rw [hfy] at h
    simp only [overlap, Bool.not_eq_true', Bool.and_eq_false_iff, decide_eq_false_iff_not] at h
    omega

theorem ordered_store (PO : List (κ × Nat)) (mv seen : List κ) (y : κ) (sz src : Nat)
    (ops : List (ROp κ))
    (h : orderedFrom c PO mv seen (.store y sz src :: ops) = true) :
    orderedFrom c PO mv (y :: seen) ops = true := by
  simpa [orderedFrom, opKey] using h

theorem filter_remove (ix : Index κ) (z : κ) (ks : List κ) :
    (ix.remove z).filter (fun e => !ks.contains e.1) = ix.filter (fun e => !(z :: ks).contains e.1) := by
  unfold Index.remove
  rw [List.filter_filter]
  apply List.filter_congr
  intro e _
  by_cases h : e.1 = z <;> simp [h]

theorem run_inv : ∀ (ops : List (ROp κ)) (s : ExecSt κ) (seen copied : List κ),
    Inv c O N s seen copied → (∀ op ∈ ops, OpOk c O N op) → (copiesOf ops).Nodup →
    (∀ k ∈ copiesOf ops, k ∉ copied) →
    orderedFrom c (placements c O 0) (movableOf c O N) seen ops = true →
    ∃ fin, s.run ops = some fin ∧
      fin.out.index = s.out.index.filter (fun e => !(copiesOf ops).contains e.1) ∧
      (∀ e ∈ placements c N 0, (e ∈ placements c O 0 ∨ e.1 ∈ copied ∨ e.1 ∈ copiesOf ops) →
        slice fin.out.file e.2 (c e.1).length = c e.1) ∧
      (fileOf c O).length ≤ fin.out.file.length ∧
      writesOf fin.out.log = writesOf s.out.log ++
        (copiesOf ops).flatMap (fun k =>
          (dests (placements c O 0) (placements c N 0) k).map (fun d => (d, c k))) := by
  intro ops
  induction ops with
  | nil =>
    intro s seen copied hinv _ _ _ _
    refine ⟨s, rfl, (List.filter_eq_self.2 (fun _ _ => rfl)).symm, ?_, hinv.len, by simp [copiesOf]⟩
    intro e he h
    apply hinv.done e he
    rcases h with h | h | h
    · exact Or.inl h
    · exact Or.inr h
    · simp [copiesOf] at h
  | cons op ops ih =>
    intro s seen copied hinv hok hnd hnc hord
    have hok' : ∀ op ∈ ops, OpOk c O N op := fun o ho => hok o (by simp [ho])
    cases op with
    | copy z sz src dest =>
      have hcop : copiesOf (ROp.copy z sz src dest :: ops) = z :: copiesOf ops := rfl
      rw [hcop] at hnd hnc ⊢
      obtain ⟨ho1, ho2⟩ := ordered_copy _ _ _ _ _ _ _ _ hord
      have hokz := hok (ROp.copy z sz src dest) (by simp)
      have hdest : dest = dests (placements c O 0) (placements c N 0) z := hokz.2.2.2
      obtain ⟨s', hs', hinv', hix, hw⟩ := step_copy hinv z sz src dest hokz (hnc z (by simp))
        (hdest ▸ ho1)
      have hnd' := (List.nodup_cons.1 hnd)
      obtain ⟨fin, hfin, h1, h2, h3, h4⟩ := ih s' (z :: seen) (z :: copied) hinv' hok' hnd'.2
        (by
          intro k hk
          simp only [List.mem_cons, not_or]
          exact ⟨fun h => hnd'.1 (h ▸ hk), hnc k (by simp [hk])⟩) ho2
      refine ⟨fin, by simp [ExecSt.run, hs', hfin], ?_, ?_, h3, ?_⟩
      · rw [h1, hix, filter_remove]
      · intro e he h
        apply h2 e he
        simp only [List.mem_cons] at h ⊢
        rcases h with h | h | h | h
        · exact Or.inl h
        · exact Or.inr (Or.inl (Or.inr h))
        · exact Or.inr (Or.inl (Or.inl h))
        · exact Or.inr (Or.inr h)
      · rw [h4, hw]; simp
    | store y sz src =>
      have hcop : copiesOf (ROp.store y sz src :: ops) = copiesOf ops := rfl
      rw [hcop] at hnd hnc ⊢
      have ho2 := ordered_store _ _ _ _ _ _ _ hord
      obtain ⟨s', hs', hinv', hix, hw⟩ := step_store hinv y sz src (hok (ROp.store y sz src) (by simp))
      obtain ⟨fin, hfin, h1, h2, h3, h4⟩ := ih s' (y :: seen) copied hinv' hok' hnd hnc ho2
      refine ⟨fin, by simp [ExecSt.run, hs', hfin], ?_, h2, h3, ?_⟩
      · rw [h1, hix]
      · rw [h4, hw]

end

end Bita.Proofs.Exec
