/-
  What the reader needs from the dictionary the writers build: the recorded options convert
  back (`configFromParams`, `compressionFromDict`), the version string is valid UTF-8, truncated
  hashes survive the reader's re-truncation, every stored chunk sits at its descriptor's range
  and decodes to its chunk.
-/
import Bita.Model.Compress
import Bita.Model.Clone
import Bita.Proofs.TryInitLemmas
import Bita.Proofs.WriterDescr

namespace Bita.Proofs.WriterOpen
open Bita Bita.Proto Bita.Spec Bita.Proofs.WriterDescr

/-! ### The version string -/

theorem byteArray_toList_loop (bs : ByteArray) :
    ∀ (k i : Nat) (r : List UInt8), bs.size - i = k → i ≤ bs.size →
      ByteArray.toList.loop bs i r = r.reverse ++ bs.data.toList.drop i := by
  have hsz : bs.size = bs.data.toList.length := rfl
  intro k
  induction k with
  | zero =>
    intro i r hk hi
    rw [ByteArray.toList.loop]
    have : ¬ i < bs.size := by omega
    simp only [this, if_false]
    rw [List.drop_eq_nil_of_le (by omega)]
    simp
  | succ k ih =>
    intro i r hk hi
    rw [ByteArray.toList.loop]
    have h : i < bs.size := by omega
    simp only [h, if_true]
    rw [ih _ _ (by omega) (by omega)]
    have h' : i < bs.data.toList.length := by omega
    rw [List.drop_eq_getElem_cons h']
    have : bs.get! i = bs.data.toList[i] := by
      simp only [ByteArray.get!, Array.getElem_toList]
      exact getElem!_pos bs.data i (by simpa using h')
    simp [this]

theorem byteArray_toList (bs : ByteArray) : bs.toList = bs.data.toList := by
  unfold ByteArray.toList
  rw [byteArray_toList_loop bs _ 0 [] rfl (Nat.zero_le _)]
  simp

/-- The recorded `application_version` is valid UTF-8 (checked on the generated constant). -/
theorem version_utf8 : utf8Valid Gen.pkgVersion.toUTF8.toList = true := by
  rw [← String.ofList_toList (s := Gen.pkgVersion), String.toUTF8, String.toByteArray_ofList,
    byteArray_toList, List.utf8Encode, List.toList_data_toByteArray]
  decide

/-! ### The recorded options convert back -/

theorem configFromParams_paramsOf (cfg : Config) (n : Nat) (h : configAccepted cfg = true) :
    configFromParams (paramsOf cfg n) = .ok cfg := by
  cases cfg with
  | buzhash f =>
    simp only [configFromParams, paramsOf, Gen.enum_ChunkingAlgorithm_BUZHASH, if_true]
    rw [if_pos h]
  | rollsum f =>
    have e : ¬ Gen.enum_ChunkingAlgorithm_ROLLSUM = Gen.enum_ChunkingAlgorithm_BUZHASH := by decide
    simp only [configFromParams, paramsOf, e, if_false, if_true]
    rw [if_pos h]
  | fixed m =>
    have e1 : ¬ Gen.enum_ChunkingAlgorithm_FIXED_SIZE = Gen.enum_ChunkingAlgorithm_BUZHASH := by decide
    have e2 : ¬ Gen.enum_ChunkingAlgorithm_FIXED_SIZE = Gen.enum_ChunkingAlgorithm_ROLLSUM := by decide
    simp only [configFromParams, paramsOf, e1, e2, if_false, if_true]
    rw [if_pos h]

theorem paramsOf_hashLen (cfg : Config) (n : Nat) : (paramsOf cfg n).chunkHashLength = n := by
  cases cfg <;> rfl

theorem paramsOf_bounds (cfg : Config) (n : Nat)
    (hu : match cfg with
      | .buzhash f | .rollsum f => f.maxSize < 2 ^ 32 ∧ f.minSize < 2 ^ 32 ∧ f.window < 2 ^ 32
      | .fixed m => m < 2 ^ 32)
    (hacc : configAccepted cfg = true) (hn : n ≤ 64) :
    (paramsOf cfg n).chunkFilterBits < 2 ^ 32 ∧ (paramsOf cfg n).minChunkSize < 2 ^ 32 ∧
    (paramsOf cfg n).maxChunkSize < 2 ^ 32 ∧ (paramsOf cfg n).rollingHashWindowSize < 2 ^ 32 ∧
    (paramsOf cfg n).chunkHashLength < 2 ^ 32 ∧ (paramsOf cfg n).chunkingAlgorithm < 2 ^ 32 := by
  cases cfg with
  | buzhash f =>
    simp only [configAccepted, decide_eq_true_eq] at hacc
    simp only [paramsOf, Gen.enum_ChunkingAlgorithm_BUZHASH]
    simp only at hu
    omega
  | rollsum f =>
    simp only [configAccepted, decide_eq_true_eq] at hacc
    simp only [paramsOf, Gen.enum_ChunkingAlgorithm_ROLLSUM]
    simp only at hu
    omega
  | fixed m =>
    simp only [paramsOf, Gen.enum_ChunkingAlgorithm_FIXED_SIZE]
    simp only at hu
    omega

theorem maxChunk_lt (cfg : Config)
    (hu : match cfg with
      | .buzhash f | .rollsum f => f.maxSize < 2 ^ 32 ∧ f.minSize < 2 ^ 32 ∧ f.window < 2 ^ 32
      | .fixed m => m < 2 ^ 32) : maxChunk cfg < 2 ^ 32 := by
  cases cfg <;> simp only [maxChunk] <;> simp only at hu <;> omega

theorem compressionFromDict_none :
    compressionFromDict [] ⟨Gen.enum_CompressionType_NONE, 0⟩ = .ok none := by
  simp [compressionFromDict]

theorem compressionFromDict_brotli (l : Nat) :
    compressionFromDict [] ⟨Gen.enum_CompressionType_BROTLI, l⟩ =
      .ok (some (Gen.enum_CompressionType_BROTLI, l)) := by
  have e : ¬ Gen.enum_CompressionType_BROTLI = Gen.enum_CompressionType_NONE := by decide
  simp [compressionFromDict, e]

/-! ### Truncated hashes -/

theorem hashTruncate_idem (h : Bytes) (n : Nat) :
    hashTruncate h (hashTruncate h n).length = hashTruncate h n := by
  unfold hashTruncate
  split
  · rename_i hn
    simp only [List.length_take]
    rw [Nat.min_eq_left (Nat.le_of_lt hn), if_pos hn]
  · simp

theorem hashTruncate_of_le (h : Bytes) (n : Nat) (hl : h.length ≤ n) : hashTruncate h n = h := by
  unfold hashTruncate
  rw [if_neg (by omega)]

theorem hashTruncate_twice (h : Bytes) (n : Nat) (hn : n ≤ 64) :
    hashTruncate (hashTruncate h n) 64 = hashTruncate h n ∨ 64 < h.length := by
  by_cases hl : h.length ≤ 64
  · left
    apply hashTruncate_of_le
    have := hashTruncate_length_le h n
    unfold hashTruncate
    split
    · simp; omega
    · exact hl
  · right; omega

theorem hashTruncate_open (h : Bytes) (n : Nat) (hl : h.length = 64) (hn : n ≤ 64) :
    hashTruncate (hashTruncate h n) 64 = hashTruncate h n := by
  rcases hashTruncate_twice h n hn with e | e
  · exact e
  · omega

/-! ### Opened descriptors -/

/-- The descriptor the reader builds from a dictionary descriptor. -/
def openDescr (hl : Nat) (cd : ChunkDescriptor) : Descr :=
  ⟨hashTruncate cd.checksum 64, cd.archiveSize, hl + cd.archiveOffset, cd.sourceSize⟩

/-- The `j`-th opened descriptor, spelled out. -/
def openAt (H : Bytes → Bytes) (hashLen : Nat) (f : Bytes → Bytes) (us : List Bytes) (hl : Nat)
    (j : Nat) (hj : j < us.length) : Descr :=
  ⟨hashTruncate (hashTruncate (H us[j]) hashLen) 64, (f us[j]).length,
   hl + ((us.take j).map (fun u => (f u).length)).sum, us[j].length⟩

theorem open_getElem? (H : Bytes → Bytes) (hashLen : Nat) (f : Bytes → Bytes) (us : List Bytes)
    (hl j : Nat) (hj : j < us.length) :
    ((descrFrom H hashLen f 0 us).map (openDescr hl))[j]? = some (openAt H hashLen f us hl j hj) := by
  have hj' : j < (descrFrom H hashLen f 0 us).length := by rw [descrFrom_length]; exact hj
  rw [List.getElem?_map, List.getElem?_eq_getElem hj', descrFrom_getElem _ _ _ _ _ _ hj]
  simp [openDescr, openAt]

theorem open_mem (H : Bytes → Bytes) (hashLen : Nat) (f : Bytes → Bytes) (us : List Bytes)
    (hl : Nat) (d : Descr) (hd : d ∈ (descrFrom H hashLen f 0 us).map (openDescr hl)) :
    ∃ j, ∃ hj : j < us.length, d = openAt H hashLen f us hl j hj := by
  obtain ⟨j, hj, rfl⟩ := List.mem_iff_getElem.mp hd
  have hj' : j < us.length := by simpa [descrFrom_length] using hj
  refine ⟨j, hj', ?_⟩
  have := open_getElem? H hashLen f us hl j hj'
  rw [List.getElem?_eq_getElem hj] at this
  exact Option.some.inj this

theorem descr_mem (H : Bytes → Bytes) (hashLen : Nat) (f : Bytes → Bytes) (us : List Bytes)
    (cd : ChunkDescriptor) (hd : cd ∈ descrFrom H hashLen f 0 us) :
    ∃ j, ∃ hj : j < us.length, cd =
      { checksum := hashTruncate (H us[j]) hashLen, archiveSize := (f us[j]).length,
        archiveOffset := ((us.take j).map (fun u => (f u).length)).sum, sourceSize := us[j].length } := by
  obtain ⟨j, hj, rfl⟩ := List.mem_iff_getElem.mp hd
  have hj' : j < us.length := by simpa [descrFrom_length] using hj
  refine ⟨j, hj', ?_⟩
  rw [descrFrom_getElem _ _ _ _ _ _ hj']
  simp

/-! ### Where the stored chunks are -/

theorem flatten_slice (ls : List Bytes) : ∀ i (hi : i < ls.length),
    ((ls.take i).map List.length).sum + ls[i].length ≤ ls.flatten.length ∧
    slice ls.flatten ((ls.take i).map List.length).sum ls[i].length = ls[i] := by
  induction ls with
  | nil => intro i hi; simp at hi
  | cons l ls ih =>
    intro i hi
    cases i with
    | zero =>
      simp only [List.take_zero, List.map_nil, List.sum_nil, List.getElem_cons_zero, List.flatten_cons,
        List.length_append, slice, List.drop_zero, List.take_left']
      exact ⟨by omega, trivial⟩
    | succ i =>
      obtain ⟨h1, h2⟩ := ih i (by simpa using hi)
      simp only [List.take_succ_cons, List.map_cons, List.sum_cons, List.getElem_cons_succ,
        List.flatten_cons, List.length_append]
      refine ⟨by omega, ?_⟩
      unfold slice at h2 ⊢
      rw [List.drop_append, List.drop_eq_nil_of_le (by omega), List.nil_append,
        Nat.add_sub_cancel_left]
      exact h2

theorem archive_slice (hdr : Bytes) (f : Bytes → Bytes) (us : List Bytes) (j : Nat) (hj : j < us.length) :
    hdr.length + ((us.take j).map (fun u => (f u).length)).sum + (f us[j]).length
      ≤ (hdr ++ (us.map f).flatten).length ∧
    slice (hdr ++ (us.map f).flatten) (hdr.length + ((us.take j).map (fun u => (f u).length)).sum)
      (f us[j]).length = f us[j] := by
  have hj' : j < (us.map f).length := by simpa using hj
  obtain ⟨h1, h2⟩ := flatten_slice (us.map f) j hj'
  have e : (((us.map f).take j).map List.length).sum = ((us.take j).map (fun u => (f u).length)).sum := by
    rw [← List.map_take, List.map_map]; rfl
  rw [e] at h1 h2
  simp only [List.getElem_map] at h1 h2
  refine ⟨by rw [List.length_append]; omega, ?_⟩
  unfold slice at h2 ⊢
  rw [List.drop_append, List.drop_eq_nil_of_le (by omega), List.nil_append, Nat.add_sub_cancel_left]
  exact h2

/-! ### Decoding a stored chunk -/

theorem decodeChunk_stored (H : Bytes → Bytes) (hH : ∀ x, (H x).length = 64)
    (comp : Bytes → Bytes) (decomp : Nat → Bytes → Nat → Option Bytes)
    (hcodec : ∀ algo x, decomp algo (comp x) x.length = some x)
    (writer : String) (compr : Compr) (c : Bytes) (n : Nat) (hn : n ≤ 64) (d : Descr)
    (hck : d.checksum = hashTruncate (hashTruncate (H c) n) 64) (hsz : d.sourceSize = c.length) :
    decodeChunk H decomp compr d (storedBytes writer (if compr.isSome then comp else id) c) = some c := by
  have hfin : (if Gen.chunkLengthChecked = true ∧ c.length ≠ d.sourceSize then none
      else if hashTruncate (H c) d.checksum.length = d.checksum then some c else none) = some c := by
    rw [if_neg (fun hh => hh.2 hsz.symm), if_pos]
    rw [hck, hashTruncate_open _ _ (hH c) hn, hashTruncate_idem]
  have hraw : ∀ a b, readerTakesRaw a b = decide (a = b) := by
    intro a b; unfold readerTakesRaw; rw [if_pos (by decide)]
  unfold decodeChunk
  simp only [hraw, decide_eq_true_eq]
  rcases storedBytes_cases writer (if compr.isSome then comp else id) c with h | ⟨h, hlt⟩
  · rw [h, if_pos hsz, Option.bind_some]; exact hfin
  · rw [h, if_neg (by omega)]
    cases compr with
    | none => simp at hlt
    | some p =>
      obtain ⟨algo, lvl⟩ := p
      simp only [Option.isSome_some, if_true]
      rw [show decomp algo (comp c) d.sourceSize = some c from hsz ▸ hcodec algo c, Option.bind_some]
      exact hfin

end Bita.Proofs.WriterOpen
