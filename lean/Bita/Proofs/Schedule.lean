/-
  Schedule / timing theorems (C01 T3, C05 T2, C12).
-/
import Bita.Model.Schedule

namespace Bita.Proofs
open Bita

/-! ### buffered -/

/-- out ++ window ++ not-yet-submitted -/
def schedInv {α : Type} (s : BufSt α) : List α := s.out ++ s.inflight.map (·.1) ++ s.input

theorem schedule_mapIdx_fst {α : Type} (l : List (α × Bool)) (i : Nat) :
    (l.mapIdx fun j e => if j = i then (e.1, true) else e).map (·.1) = l.map (·.1) := by
  apply List.ext_getElem
  · simp
  · intro j h1 h2
    simp only [List.getElem_map, List.getElem_mapIdx]
    split <;> rfl

theorem schedule_stepOrdered_inv {α : Type} (n : Nat) (s : BufSt α) (e : SchedEv) :
    schedInv (s.stepOrdered n e) = schedInv s := by
  cases e with
  | finish i =>
    simp only [BufSt.stepOrdered, schedInv, schedule_mapIdx_fst]
  | poll =>
    have key : schedInv (⟨s.input.drop (n - s.inflight.length), s.inflight ++ (s.input.take (n - s.inflight.length)).map (·, false), s.out⟩ : BufSt α) = schedInv s := by
      simp [schedInv, List.map_append, List.append_assoc, Function.comp_def]
    simp only [BufSt.stepOrdered]
    split
    · rename_i x rest heq
      rw [← key]
      simp only [schedInv] at *
      simp only [heq]
      simp
    · exact key

theorem schedule_foldl_inv {α : Type} (n : Nat) (sched : List SchedEv) (s : BufSt α) :
    schedInv (sched.foldl (fun s e => s.stepOrdered n e) s) = schedInv s := by
  induction sched generalizing s with
  | nil => rfl
  | cons e es ih => simp only [List.foldl_cons]; rw [ih, schedule_stepOrdered_inv]

/-- C01 T3a / C12: `buffered(n)` emits its inputs in submission order under every schedule: what
has been emitted so far, followed by the window, followed by what is not yet submitted, is always
the input. -/
theorem buffered_preserves_order {α : Type} (n : Nat) (xs : List α) (sched : List SchedEv) :
    let s := stageRun "buffered" n xs sched
    s.out ++ s.inflight.map (·.1) ++ s.input = xs := by
  intro s
  have h := schedule_foldl_inv n sched (⟨xs, [], []⟩ : BufSt α)
  have hs : s = sched.foldl (fun s e => s.stepOrdered n e) ⟨xs, [], []⟩ := by
    simp [s, stageRun]
  rw [hs]
  simpa [schedInv] using h

/-- ... and once everything has been emitted, the output is exactly the input. -/
theorem buffered_complete {α : Type} (n : Nat) (xs : List α) (sched : List SchedEv) :
    let s := stageRun "buffered" n xs sched
    s.inflight = [] → s.input = [] → s.out = xs := by
  intro s h1 h2
  have h := buffered_preserves_order n xs sched
  simp only at h
  change s.out ++ s.inflight.map (·.1) ++ s.input = xs at h
  simpa [h1, h2] using h

/-- Every stage of both compress pipelines and of the clone pipelines uses `buffered`. -/
theorem pipelines_use_buffered :
    (∀ c ∈ Gen.libCompressCombinators ++ Gen.cliCompressCombinators ++ Gen.cloneSeedCombinators ++
        Gen.cloneArchiveCombinators ++ Gen.cloneScanCombinators, c = "buffered") ∧
    Gen.libCompressCombinators.length = 2 ∧ Gen.cliCompressCombinators.length = 2 := by
  decide

/-! ### tokio::fs::File -/

theorem schedule_complete_of_none (fa : Option Nat) (f : TFile) (h : f.inflight = none) :
    f.complete fa = f := by
  simp [TFile.complete, h]

theorem schedule_complete_inflight (fa : Option Nat) (f : TFile) :
    (f.complete fa).inflight = none := by
  unfold TFile.complete
  split
  · assumption
  · split <;> rfl

theorem schedule_complete_none_lastErr (f : TFile) :
    (f.complete none).lastErr = f.lastErr := by
  unfold TFile.complete
  split
  · rfl
  · simp

theorem schedule_complete_none_pos (f : TFile) :
    (f.complete none).pos = f.pos := by
  unfold TFile.complete
  split
  · rfl
  · simp

theorem schedule_complete_idem (fa : Option Nat) (f : TFile) :
    (f.complete fa).complete fa = f.complete fa :=
  schedule_complete_of_none fa _ (schedule_complete_inflight fa f)

/-- The failing write `m` is in flight or among the `r` writes still to be issued, and no error is
remembered. -/
def SchedFailPending (f : TFile) (m r : Nat) : Prop :=
  f.lastErr = false ∧ f.performed ≤ m ∧ m < f.performed + (if f.inflight.isSome then 1 else 0) + r

theorem schedule_go_fail (m : Nat) (ws : List (Nat × Bytes)) (f : TFile)
    (h : SchedFailPending f m ws.length) :
    (cloneTail.go (some m) f ws).2 = true → SchedFailPending (cloneTail.go (some m) f ws).1 m 0 := by
  induction ws generalizing f with
  | nil => intro _; simpa [cloneTail.go] using h
  | cons w ws ih =>
    obtain ⟨off, b⟩ := w
    obtain ⟨h1, h2, h3⟩ := h
    cases hin : f.inflight with
    | none =>
      have hc : f.complete (some m) = f := schedule_complete_of_none _ _ hin
      have hs : (f.seek (some m) off) = { f with pos := off } := by simp [TFile.seek, hc]
      have hw : (f.seek (some m) off).write (some m) b =
          ({ f with inflight := some (off, b), pos := off + b.length }, true) := by
        rw [hs]
        simp [TFile.write, TFile.complete, hin, h1]
      simp only [cloneTail.go, hw]
      simp only [if_true]
      apply ih
      refine ⟨h1, h2, ?_⟩
      simp [hin] at h3 ⊢
      omega
    | some ob =>
      obtain ⟨o, c⟩ := ob
      by_cases hm : m = f.performed
      · intro hok
        exfalso
        revert hok
        simp [cloneTail.go, TFile.seek, TFile.write, TFile.complete, hin, hm]
      · have hw : (f.seek (some m) off).write (some m) b =
            ({ f with data := writeAt f.data o c, inflight := some (off, b), pos := off + b.length,
                      performed := f.performed + 1 }, true) := by
          simp [TFile.seek, TFile.write, TFile.complete, hin, hm, h1]
        simp only [cloneTail.go, hw]
        simp only [if_true]
        apply ih
        refine ⟨h1, ?_, ?_⟩
        · simp; omega
        · simp [hin] at h3 ⊢
          omega

/-- C05 T2: whichever write fails, the tail of `clone_archive` - with the flush that the source
has (`Gen.cloneOutputFlushedBeforeResize`) - does not report success. -/
theorem failed_write_not_success (f : TFile) (hclean : f.inflight = none ∧ f.lastErr = false)
    (writes : List (Nat × Bytes)) (total : Nat) (k : Nat) (hk : k < writes.length) :
    (cloneTail true (some (f.performed + k)) f writes total).1 = false := by
  have h0 : SchedFailPending f (f.performed + k) writes.length := by
    refine ⟨hclean.2, by omega, ?_⟩
    simp [hclean.1]; omega
  have h := schedule_go_fail (f.performed + k) writes f h0
  unfold cloneTail
  simp only
  generalize cloneTail.go (some (f.performed + k)) f writes = r at h
  obtain ⟨f1, ok⟩ := r
  cases ok with
  | false => simp
  | true =>
    obtain ⟨e1, e2, e3⟩ := h rfl
    simp only at e1 e2 e3
    cases hin : f1.inflight with
    | none => simp [hin] at e3; omega
    | some ob =>
      simp [hin] at e3
      have : f.performed + k = f1.performed := by omega
      simp [TFile.flush, TFile.complete, hin, this]

/-- One fault-free `seek; write_all`. -/
theorem schedule_seek_write_none (f : TFile) (hE : f.lastErr = false) (off : Nat) (b : Bytes) :
    ∃ f2, (f.seek none off).write none b = (f2, true) ∧ f2.lastErr = false ∧
      (f2.complete none).data = writeAt (f.complete none).data off b := by
  have hi := schedule_complete_inflight none f
  have hl := schedule_complete_none_lastErr f
  rw [hE] at hl
  simp only [TFile.seek]
  generalize f.complete none = g at hi hl
  refine ⟨{ g with inflight := some (off, b), pos := off + b.length }, ?_, ?_, ?_⟩
  · simp [TFile.write, TFile.complete, hi, hl]
  · simp [hl]
  · simp [TFile.complete]

theorem schedule_go_none (ws : List (Nat × Bytes)) (f : TFile) (hE : f.lastErr = false) :
    ∃ f1, cloneTail.go none f ws = (f1, true) ∧ f1.lastErr = false ∧
      (f1.complete none).data = ws.foldl (fun d w => writeAt d w.1 w.2) (f.complete none).data := by
  induction ws generalizing f with
  | nil => exact ⟨f, by simp [cloneTail.go], hE, rfl⟩
  | cons w ws ih =>
    obtain ⟨off, b⟩ := w
    obtain ⟨f2, hw, hE2, hd⟩ := schedule_seek_write_none f hE off b
    obtain ⟨f1, hg, hE1, hd1⟩ := ih f2 hE2
    refine ⟨f1, ?_, hE1, ?_⟩
    · simp only [cloneTail.go, hw, if_true, hg]
    · rw [hd1, hd]; rfl

/-- With no failing write the tail reports success and the file holds every write, resized. -/
theorem no_fault_success (f : TFile) (hclean : f.inflight = none ∧ f.lastErr = false)
    (writes : List (Nat × Bytes)) (total : Nat) :
    cloneTail true none f writes total =
      (true, setLen (writes.foldl (fun d w => writeAt d w.1 w.2) f.data) total) := by
  obtain ⟨f1, hg, hE1, hd1⟩ := schedule_go_none writes f hclean.2
  rw [schedule_complete_of_none none f hclean.1] at hd1
  have hl := schedule_complete_none_lastErr f1
  unfold cloneTail
  simp only [hg]
  simp only [TFile.flush, TFile.setLen, hl, hE1]
  simp [schedule_complete_idem, hd1]

/-! ### temp file -/

theorem schedule_writeAt_end (d b : Bytes) : writeAt d d.length b = d ++ b := by
  simp [writeAt]

/-- No remembered error, and the position is the end of the logical content. -/
def SchedTempInv (f : TFile) : Prop :=
  f.lastErr = false ∧ f.pos = (f.complete none).data.length

theorem schedule_temp_write (f : TFile) (h : SchedTempInv f) (b : Bytes) :
    SchedTempInv (f.write none b).1 ∧
      (((f.write none b).1).complete none).data = (f.complete none).data ++ b := by
  obtain ⟨hE, hp⟩ := h
  have hl := schedule_complete_none_lastErr f
  have hpos := schedule_complete_none_pos f
  have hw : (f.write none b).1 = { f.complete none with inflight := some ((f.complete none).pos, b), pos := (f.complete none).pos + b.length } := by
    simp [TFile.write, hl, hE]
  rw [← hpos] at hp
  rw [hw]
  generalize f.complete none = g at hp hl
  have hd : (({ g with inflight := some (g.pos, b), pos := g.pos + b.length } : TFile).complete none).data = g.data ++ b := by
    simp [TFile.complete, hp, schedule_writeAt_end]
  refine ⟨⟨?_, ?_⟩, hd⟩
  · simp [hl, hE]
  · rw [hd]; simp [hp]

theorem schedule_temp_foldl (chunks : List Bytes) (f : TFile) (h : SchedTempInv f) :
    SchedTempInv (chunks.foldl (fun f b => (f.write none b).1) f) ∧
      ((chunks.foldl (fun f b => (f.write none b).1) f).complete none).data
        = (f.complete none).data ++ chunks.flatten := by
  induction chunks generalizing f with
  | nil => simp [h]
  | cons b bs ih =>
    obtain ⟨h1, h2⟩ := schedule_temp_write f h b
    obtain ⟨h3, h4⟩ := ih _ h1
    refine ⟨h3, ?_⟩
    simp only [List.foldl_cons, List.flatten_cons]
    rw [h4, h2, List.append_assoc]

/-- C01 T3b / C11 / C12: with the flush that the source has (`Gen.cliTempFlushedBeforeReturn`),
the temp file seen by the re-open holds all stored chunks, whatever the timing of the last
background write. -/
theorem temp_file_complete (late : Bool) (chunks : List Bytes) :
    tempFileSeen true late chunks = chunks.flatten := by
  have h0 : SchedTempInv (TFile.new []) := by simp [SchedTempInv, TFile.new, TFile.complete]
  obtain ⟨⟨hE, _⟩, hd⟩ := schedule_temp_foldl chunks (TFile.new []) h0
  have hd0 : ((TFile.new []).complete none).data = [] := by simp [TFile.new, TFile.complete]
  rw [hd0, List.nil_append] at hd
  unfold tempFileSeen
  simp only [if_true, TFile.flush, schedule_complete_none_lastErr, hE, TFile.dropNow]
  cases late <;> simp [hd, schedule_complete_idem]

theorem flushes_are_in_the_source :
    Gen.cliTempFlushedBeforeReturn = true ∧ Gen.cloneOutputFlushedBeforeResize = true := by
  decide

end Bita.Proofs
