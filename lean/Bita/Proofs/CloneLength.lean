/-
  The output never shrinks while a clone feeds it: every stage of `Clone.run` before the final
  resize leaves a file at least as long as the prior output.  (Needed for `--verify-output` on a
  block device, which hashes the first `source_total_size` bytes of a device that may be longer.)
-/
import Bita.Proofs.CloneRun
import Bita.Proofs.ExecutorWrites

namespace Bita.Proofs
open Bita Bita.Spec Bita.Proofs.Exec

variable {κ : Type} [DecidableEq κ]

theorem feed_length_le (st : OutSt κ) (k : κ) (data : Bytes) :
    st.file.length ≤ (st.feed k data).1.file.length := by
  cases hg : st.index.get k with
  | none => simp only [OutSt.feed, hg]; exact Nat.le_refl _
  | some loc =>
    simp only [OutSt.feed, hg]
    exact writeOffsets_length_le data loc.offsets { st with index := st.index.remove k }

theorem execStep_length_le (s s' : ExecSt κ) (op : ROp κ) (h : s.step op = some s') :
    s.out.file.length ≤ s'.out.file.length := by
  cases op with
  | copy k size source dest =>
    cases hf : s.store.find? (fun e => e.1 = k) with
    | some e =>
      obtain ⟨k', data⟩ := e
      simp only [ExecSt.step, hf, Option.some.injEq] at h
      subst h
      exact writeOffsets_length_le data dest _
    | none =>
      cases hr : readAt s.out.file source size with
      | none => simp [ExecSt.step, hf, hr] at h
      | some data =>
        simp only [ExecSt.step, hf, hr, Option.some.injEq] at h
        subst h
        exact writeOffsets_length_le data dest { s.out with log := s.out.log ++ [IoOp.read source size] }
  | store k size source =>
    cases hf : (s.store.find? (fun e => e.1 = k)).isSome with
    | true =>
      simp only [ExecSt.step, hf, if_true, Option.some.injEq] at h
      subst h; exact Nat.le_refl _
    | false =>
      cases hr : readAt s.out.file source size with
      | none => simp [ExecSt.step, hf, hr] at h
      | some data =>
        simp only [ExecSt.step, hf, hr, Bool.false_eq_true, if_false, Option.some.injEq] at h
        subst h; exact Nat.le_refl _

theorem execRun_length_le : ∀ (ops : List (ROp κ)) (s s' : ExecSt κ), s.run ops = some s' →
    s.out.file.length ≤ s'.out.file.length := by
  intro ops
  induction ops with
  | nil => intro s s' h; cases h; exact Nat.le_refl _
  | cons op ops ih =>
    intro s s' h
    unfold ExecSt.run at h
    cases hs : s.step op with
    | none => rw [hs] at h; cases h
    | some s1 =>
      rw [hs] at h
      exact Nat.le_trans (execStep_length_le s s1 op hs) (ih s1 s' h)

theorem reorderInPlace_length_le (st : OutSt κ) (oi : Index κ) (r : OutSt κ × Nat)
    (h : st.reorderInPlace oi = some r) : st.file.length ≤ r.1.file.length := by
  unfold OutSt.reorderInPlace at h
  dsimp only at h
  split at h
  · rename_i fin hfin
    cases h
    exact execRun_length_le _ _ fin hfin
  · cases h

theorem cloneSt1_length_le (H : Bytes → Bytes) (a : Archive) (opts : CloneOpts) (prior : Bytes)
    (ix : Index Bytes) (st1 : OutSt Bytes) (h : cloneSt1 H a opts prior ix = some st1) :
    prior.length ≤ st1.file.length := by
  unfold cloneSt1 at h
  split at h
  · cases hr : (OutSt.mk prior ix []).reorderInPlace (scanIndex H a.config a.hashLength prior) with
    | none => rw [hr] at h; cases h
    | some r =>
      rw [hr] at h
      cases h
      exact reorderInPlace_length_le _ _ r hr
  · cases h; exact Nat.le_refl _

theorem feedSeed_length_le (H : Bytes → Bytes) (cfg : Config) (hl : Nat) (seed : Bytes) (st : OutSt Bytes) :
    st.file.length ≤ (feedSeed H cfg hl st seed).file.length := by
  unfold feedSeed
  generalize chunkAll cfg seed = cs
  induction cs generalizing st with
  | nil => exact Nat.le_refl _
  | cons c cs ih =>
    rw [List.foldl_cons]
    exact Nat.le_trans (feed_length_le st _ _) (ih _)

theorem cloneSt2_length_le (H : Bytes → Bytes) (a : Archive) (seeds : List Bytes) (st1 : OutSt Bytes) :
    st1.file.length ≤ (cloneSt2 H a seeds st1).file.length := by
  unfold cloneSt2
  induction seeds generalizing st1 with
  | nil => exact Nat.le_refl _
  | cons s seeds ih =>
    rw [List.foldl_cons]
    exact Nat.le_trans (feedSeed_length_le H a.config a.hashLength s st1) (ih _)

theorem feedArchive_length_le (H : Bytes → Bytes) (decomp : Nat → Bytes → Nat → Option Bytes) (a : Archive)
    (st : OutSt Bytes) (fetch : List Descr) (items : List (Option Bytes)) :
    st.file.length ≤ (feedArchive H decomp a st fetch items).1.file.length := by
  unfold feedArchive
  generalize fetch.zip items = l
  suffices hs : ∀ (acc : OutSt Bytes × Option String), st.file.length ≤ acc.1.file.length →
      st.file.length ≤ (l.foldl (fun (acc : OutSt Bytes × Option String) e =>
        match acc.2 with
        | some _ => acc
        | none =>
          match e.2 with
          | none => (acc.1, some "read archive")
          | some stored =>
            match decodeChunk H decomp a.compression e.1 stored with
            | none => (acc.1, some "decompress or verify chunk")
            | some chunk => ((acc.1.feed (hashTruncate (H chunk) a.hashLength) chunk).1, none)) acc).1.file.length from
    hs (st, none) (Nat.le_refl _)
  induction l with
  | nil => intro acc h; exact h
  | cons e l ih =>
    intro acc h
    rw [List.foldl_cons]
    apply ih
    obtain ⟨s, err⟩ := acc
    cases err with
    | some w => exact h
    | none =>
      dsimp only
      cases e.2 with
      | none => exact h
      | some stored =>
        dsimp only
        cases decodeChunk H decomp a.compression e.1 stored with
        | none => exact h
        | some chunk => exact Nat.le_trans h (feed_length_le s _ _)

theorem cloneSt3_length_le (H : Bytes → Bytes) (decomp : Nat → Bytes → Nat → Option Bytes)
    (readChunks : List (Nat × Nat) → List (Option Bytes)) (a : Archive) (st2 : OutSt Bytes) :
    st2.file.length ≤ (cloneSt3 H decomp readChunks a st2).1.file.length :=
  feedArchive_length_le H decomp a st2 _ _

/-- All stages together. -/
theorem cloneStages_length_le (H : Bytes → Bytes) (decomp : Nat → Bytes → Nat → Option Bytes)
    (readChunks : List (Nat × Nat) → List (Option Bytes)) (a : Archive) (opts : CloneOpts)
    (prior : Bytes) (seeds : List Bytes) (ix : Index Bytes) (st1 : OutSt Bytes)
    (h1 : cloneSt1 H a opts prior ix = some st1) :
    prior.length ≤ (cloneSt3 H decomp readChunks a (cloneSt2 H a seeds st1)).1.file.length :=
  Nat.le_trans (cloneSt1_length_le H a opts prior ix st1 h1)
    (Nat.le_trans (cloneSt2_length_le H a seeds st1) (cloneSt3_length_le H decomp readChunks a _))

/-- What `--verify-output` hashes is the source, once the (resized) output is: the first
`source_total_size` bytes of a regular file cut to that size, or of a device at least that long. -/
theorem cloneHashed_correct (opts : CloneOpts) (a : Archive) (st3 : OutSt Bytes) (src : Bytes)
    (ht : a.sourceTotalSize = src.length)
    (ho : setLen (cloneOutput opts a st3) src.length = src)
    (hlen : opts.blockDev = true → src.length ≤ st3.file.length) :
    cloneHashed opts a st3 = src := by
  rw [cloneHashed_eq, ht]
  have hl : src.length ≤ (cloneOutput opts a st3).length := by
    unfold cloneOutput
    by_cases hb : opts.blockDev = true
    · rw [if_pos hb]; exact hlen hb
    · rw [if_neg hb, ht]; simp [setLen]; omega
  unfold setLen at ho
  rw [Nat.sub_eq_zero_of_le hl] at ho
  simpa using ho

end Bita.Proofs
