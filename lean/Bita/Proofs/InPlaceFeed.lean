/-
  Feeding chunks to the output: every fed chunk lands at all its placements, once.
-/
import Bita.Proofs.ExecutorRun

namespace Bita.Proofs.Exec
open Bita Bita.Spec

variable {κ : Type} [DecidableEq κ]

theorem get_filter (ix : Index κ) (p : κ → Bool) (k : κ) :
    Index.get (ix.filter (fun e => p e.1)) k = if p k then ix.get k else none := by
  unfold Index.get
  rw [List.find?_filter]
  by_cases hp : p k = true
  · rw [if_pos hp]
    congr 2
    funext a
    by_cases ha : a.1 = k
    · simp [ha, hp]
    · simp [ha]
  · rw [if_neg hp]
    simp only [Option.map_eq_none_iff, List.find?_eq_none, decide_eq_true_eq, not_and]
    intro a _ hpa hak
    exact hp (hak ▸ hpa)

omit [DecidableEq κ] in
theorem nodup_offsets (c : κ → Bytes) (ts : List κ) (hne : ∀ k ∈ ts, c k ≠ []) :
    ((placements c ts 0).map (·.2)).Nodup := by
  have := placements_sorted c ts 0 hne
  rw [List.Nodup, List.pairwise_map]
  exact this.imp (fun h => Nat.ne_of_lt h)

theorem nodup_offs (c : κ → Bytes) (ts : List κ) (hne : ∀ k ∈ ts, c k ≠ []) (k : κ) :
    (offs (placements c ts 0) k).Nodup :=
  (nodup_offsets c ts hne).sublist (List.Sublist.map _ List.filter_sublist)

theorem nodup_dests (c : κ → Bytes) (ts : List κ) (hne : ∀ k ∈ ts, c k ≠ []) (PO : List (κ × Nat))
    (k : κ) : (dests PO (placements c ts 0) k).Nodup :=
  (nodup_offsets c ts hne).sublist (List.Sublist.map _ List.filter_sublist)

section
variable (c : κ → Bytes) (O N : List κ)

/-- State of the output while chunks are fed: `R` are the chunks that are in place. -/
structure FeedInv (st : OutSt κ) (R : List κ) : Prop where
  index : st.index = (indexOf c N).filter (fun e => !R.contains e.1)
  held : ∀ e ∈ placements c N 0, e.1 ∈ R → slice st.file e.2 (c e.1).length = c e.1

/-- What the write log looks like: every write puts a chunk of `R` at one of its target
placements that `O` does not already hold, and no offset is written twice. -/
structure LogOk (W : List (Nat × Bytes)) (R : List κ) : Prop where
  wr : ∀ w ∈ W, ∃ k, k ∈ R ∧ (k, w.1) ∈ placements c N 0 ∧ w.2 = c k ∧ (k, w.1) ∉ placements c O 0
  nd : (W.map (·.1)).Nodup

variable {c O N}

theorem feed_step (hN : ∀ k ∈ N, c k ≠ []) {st : OutSt κ} {R : List κ}
    (hinv : FeedInv c N st R) (k : κ) :
    FeedInv c N (st.feed k (c k)).1 (k :: R) ∧
    writesOf (st.feed k (c k)).1.log = writesOf st.log ++
      (if k ∈ N ∧ k ∉ R then (offs (placements c N 0) k).map (fun o => (o, c k)) else []) := by
  have hget : st.index.get k = if k ∈ N ∧ k ∉ R then some (locOf c (placements c N 0) k) else none := by
    rw [hinv.index, get_filter (indexOf c N) (fun k => !R.contains k) k]
    by_cases hk : k ∈ N
    · by_cases hr : k ∈ R
      · simp [hr]
      · simp [hr, hk, indexOf_get_some c N hN k hk]
    · simp [hk, indexOf_get_none c N hN k hk]
  by_cases hcase : k ∈ N ∧ k ∉ R
  · rw [if_pos hcase] at hget ⊢
    simp only [OutSt.feed, hget, locOf]
    have hds : ∀ d ∈ offs (placements c N 0) k, (k, d) ∈ placements c N 0 :=
      fun d hd => (mem_offs _ _ _).1 hd
    obtain ⟨T1, T2⟩ := writeOffsets_tiling c N k _ hds { st with index := st.index.remove k }
    refine ⟨⟨?_, ?_⟩, ?_⟩
    · rw [writeOffsets_index]
      simp only [hinv.index, Index.remove]
      rw [List.filter_filter]
      apply List.filter_congr
      intro e _
      by_cases h : e.1 = k <;> simp [h]
    · intro e he her
      by_cases hek : e.1 = k
      · apply T1 e he hek
        apply (mem_offs _ _ _).2
        rw [← hek]; exact he
      · apply T2 e he (fun h => hek h.1)
        apply hinv.held e he
        simpa [hek] using her
    · rw [writeOffsets_writes]
  · rw [if_neg hcase] at hget ⊢
    simp only [OutSt.feed, hget, List.append_nil]
    refine ⟨⟨?_, ?_⟩, trivial⟩
    · rw [hinv.index]
      apply List.filter_congr
      intro e he
      have := (mem_indexOf c N hN e he).2
      by_cases h : e.1 = k
      · have hkR : k ∈ R := Classical.byContradiction (fun hr => hcase ⟨h ▸ this, hr⟩)
        simp [h, hkR]
      · simp [h]
    · intro e he her
      apply hinv.held e he
      simp only [List.mem_cons] at her
      rcases her with h | h
      · have := (mem_placements c N 0 e he).2.2
        exact Classical.byContradiction (fun hr => hcase ⟨h ▸ this, h ▸ hr⟩)
      · exact h

omit [DecidableEq κ] in
theorem logOk_mono {W : List (Nat × Bytes)} {R R' : List κ} (h : LogOk c O N W R)
    (hsub : ∀ k ∈ R, k ∈ R') : LogOk c O N W R' := by
  refine ⟨?_, h.nd⟩
  intro w hw
  obtain ⟨k, h1, h2⟩ := h.wr w hw
  exact ⟨k, hsub k h1, h2⟩

theorem logOk_feed (hN : ∀ k ∈ N, c k ≠ []) {W : List (Nat × Bytes)} {R : List κ}
    (h : LogOk c O N W R) (hOR : ∀ k ∈ O, k ∈ R) (k : κ) (hk : k ∉ R) :
    LogOk c O N (W ++ (offs (placements c N 0) k).map (fun o => (o, c k))) (k :: R) := by
  constructor
  · intro w hw
    simp only [List.mem_append, List.mem_map] at hw
    rcases hw with hw | ⟨o, ho, rfl⟩
    · obtain ⟨k', h1, h2⟩ := h.wr w hw
      exact ⟨k', by simp [h1], h2⟩
    · refine ⟨k, by simp, (mem_offs _ _ _).1 ho, rfl, ?_⟩
      intro hpo
      exact hk (hOR k (mem_placements c O 0 _ hpo).2.2)
  · rw [List.map_append, List.nodup_append]
    refine ⟨h.nd, ?_, ?_⟩
    · simp only [List.map_map]
      have : ((fun x : Nat × Bytes => x.1) ∘ fun o => (o, c k)) = id := rfl
      rw [this, List.map_id]
      exact nodup_offs c N hN k
    · intro a ha b hb hab
      simp only [List.mem_map] at ha hb
      obtain ⟨w, hw, rfl⟩ := ha
      obtain ⟨_, ⟨o, ho, rfl⟩, rfl⟩ := hb
      obtain ⟨k', h1, h2, _⟩ := h.wr w hw
      simp only at hab
      rw [hab] at h2
      have := placements_functional c N 0 hN _ _ _ h2 ((mem_offs _ _ _).1 ho)
      exact hk (this ▸ h1)

theorem feedAll_inv (hN : ∀ k ∈ N, c k ≠ []) : ∀ (ks : List κ) (st : OutSt κ) (R : List κ),
    FeedInv c N st R →
    FeedInv c N (feedAll c st ks) (ks.reverse ++ R) ∧
      (LogOk c O N (writesOf st.log) R → (∀ k ∈ O, k ∈ R) →
        LogOk c O N (writesOf (feedAll c st ks).log) (ks.reverse ++ R)) := by
  intro ks
  induction ks with
  | nil => intro st R h1; exact ⟨h1, fun h2 _ => h2⟩
  | cons k ks ih =>
    intro st R h1
    obtain ⟨hf, hw⟩ := feed_step hN h1 k
    obtain ⟨ih1, ih2⟩ := ih (st.feed k (c k)).1 (k :: R) hf
    refine ⟨by simpa [feedAll] using ih1, ?_⟩
    intro h2 hOR
    have hlog : LogOk c O N (writesOf (st.feed k (c k)).1.log) (k :: R) := by
      rw [hw]
      by_cases hcase : k ∈ N ∧ k ∉ R
      · rw [if_pos hcase]; exact logOk_feed hN h2 hOR k hcase.2
      · rw [if_neg hcase, List.append_nil]; exact logOk_mono h2 (fun x hx => by simp [hx])
    have := ih2 hlog (fun x hx => by simp [hOR x hx])
    simpa [feedAll] using this

/-- After every chunk of the source has been fed (or was in place) the output is the source. -/
theorem feedAll_exact (hN : ∀ k ∈ N, c k ≠ []) (ks : List κ) (st : OutSt κ) (R : List κ)
    (h1 : FeedInv c N st R) (hall : ∀ k ∈ N, k ∈ R ∨ k ∈ ks) :
    resize (feedAll c st ks).file (fileOf c N).length = fileOf c N := by
  obtain ⟨hf, _⟩ := feedAll_inv (O := ([] : List κ)) hN ks st R h1
  apply resize_of_placements
  intro e he
  apply hf.held e he
  have := (mem_placements c N 0 e he).2.2
  rcases hall e.1 this with h | h <;> simp [h]

omit [DecidableEq κ] in
/-- What `LogOk` says about the writes, in the form of C13. -/
theorem logOk_final (hN : ∀ k ∈ N, c k ≠ []) {W : List (Nat × Bytes)} {R : List κ}
    (h : LogOk c O N W R) :
    (∀ w ∈ W, ∃ k, (k, w.1) ∈ placements c N 0 ∧ w.2 = c k) ∧
    (W.map (·.1)).Nodup ∧
    (∀ w ∈ W, ∀ k, (k, w.1) ∈ placements c N 0 → (k, w.1) ∉ placements c O 0) ∧
    (∀ w ∈ W, w.1 + w.2.length ≤ (fileOf c N).length) := by
  refine ⟨?_, h.nd, ?_, ?_⟩
  · intro w hw
    obtain ⟨k, _, h2, h3, _⟩ := h.wr w hw
    exact ⟨k, h2, h3⟩
  · intro w hw k hk
    obtain ⟨k', _, h2, _, h4⟩ := h.wr w hw
    have := placements_functional c N 0 hN _ _ _ hk h2
    rw [this]; exact h4
  · intro w hw
    obtain ⟨k, _, h2, h3, _⟩ := h.wr w hw
    have := (mem_placements c N 0 _ h2).2.1
    rw [h3]; simpa using this

end

end Bita.Proofs.Exec
