/-
  Helper for C09 (delivery independence): how many warm-up (`init`) bytes a hasher still wants.
-/
import Bita.Model.Chunker
namespace Bita.Proofs.CS
open Bita

/-- Number of `init` bytes a hasher still wants. -/
def need : Hasher → Nat
  | .roll _ => 0
  | .buz h => if h.full then 0 else max 1 (h.window - h.filled)

theorem need_eq_zero (g : Hasher) : need g = 0 ↔ g.initDone = true := by
  cases g with
  | roll h => simp [need, Hasher.initDone]
  | buz h =>
    simp only [need, Hasher.initDone]
    split <;> simp_all <;> omega

theorem need_init (g : Hasher) (b : UInt8) (hd : g.initDone = false) :
    need (g.init b) = need g - 1 := by
  cases g with
  | roll h => simp [Hasher.initDone] at hd
  | buz h =>
    simp only [Hasher.initDone] at hd
    simp only [need, Hasher.init, BuzHash.init, hd]
    simp
    split <;> omega

theorem buz_input_proj (h : BuzHash) (b : UInt8) :
    (h.input b).full = h.full ∧ (h.input b).window = h.window ∧ (h.input b).filled = h.filled := by
  unfold BuzHash.input
  dsimp only
  split <;> split <;> simp

theorem need_input (g : Hasher) (b : UInt8) : need (g.input b) = need g := by
  cases g with
  | roll h => simp [need, Hasher.input]
  | buz h =>
    obtain ⟨h1, h2, h3⟩ := buz_input_proj h b
    simp only [need, Hasher.input, h1, h2, h3]

theorem initDone_input (g : Hasher) (b : UInt8) : (g.input b).initDone = g.initDone := by
  have := need_input g b
  have h1 := need_eq_zero g
  have h2 := need_eq_zero (g.input b)
  cases h : g.initDone <;> cases h' : (g.input b).initDone <;> simp_all

end Bita.Proofs.CS
