/-
  The dedup table of the archive writers (`Bita.dedup`): the fold invariant behind
  `writer_dedup`, and two consequences used by the layout / conformance theorems.
-/
import Bita.Model.Compress

namespace Bita.Proofs.WriterDedup
open Bita

/-- One step of the fold in `dedup`. -/
def step (H : Bytes → Bytes) (acc : List Bytes × List Nat) (c : Bytes) : List Bytes × List Nat :=
  match acc.1.findIdx? (fun u => H u = H c) with
  | some i => (acc.1, acc.2 ++ [i])
  | none => (acc.1 ++ [c], acc.2 ++ [acc.1.length])

theorem dedup_eq (H : Bytes → Bytes) (chunks : List Bytes) :
    dedup H chunks = chunks.foldl (step H) ([], []) := rfl

/-- The invariant of the fold after the chunks `done` have been processed. -/
structure Inv (H : Bytes → Bytes) (done : List Bytes) (acc : List Bytes × List Nat) : Prop where
  nodup : (acc.1.map H).Nodup
  len : acc.2.length = done.length
  idx : ∀ i (hi : i < done.length), ∃ j u, acc.2[i]? = some j ∧ acc.1[j]? = some u ∧ H u = H done[i]
  sub : ∀ u ∈ acc.1, u ∈ done
  first : acc.2.eraseDups = List.range acc.1.length
  count : acc.1.length ≤ done.length

theorem Inv.order_lt {H : Bytes → Bytes} {done : List Bytes} {acc : List Bytes × List Nat}
    (inv : Inv H done acc) : ∀ i ∈ acc.2, i < acc.1.length := by
  intro i hi
  have : i ∈ acc.2.eraseDups := List.mem_eraseDups.mpr hi
  rw [inv.first] at this
  simpa using this

theorem inv_nil (H : Bytes → Bytes) : Inv H [] ([], []) := by
  refine ⟨by simp, rfl, ?_, ?_, by simp, by simp⟩
  · intro i hi; simp at hi
  · intro u hu; simp at hu

theorem eraseDups_snoc_mem (l : List Nat) (x : Nat) (h : x ∈ l) : (l ++ [x]).eraseDups = l.eraseDups := by
  rw [List.eraseDups_append]
  have : [x].removeAll l = [] := by simp [List.removeAll, h]
  rw [this]; simp

theorem eraseDups_snoc_not_mem (l : List Nat) (x : Nat) (h : x ∉ l) :
    (l ++ [x]).eraseDups = l.eraseDups ++ [x] := by
  rw [List.eraseDups_append]
  have : [x].removeAll l = [x] := by simp [List.removeAll, h]
  rw [this, List.eraseDups_cons]; simp

theorem idx_snoc {H : Bytes → Bytes} {done : List Bytes} {uniq uniq' : List Bytes} {order : List Nat}
    {c : Bytes} {j0 : Nat} {u0 : Bytes}
    (hlen : order.length = done.length)
    (hold : ∀ i (hi : i < done.length), ∃ j u, order[i]? = some j ∧ uniq[j]? = some u ∧ H u = H done[i])
    (hmono : ∀ (j : Nat) (u : Bytes), uniq[j]? = some u → uniq'[j]? = some u)
    (hj : uniq'[j0]? = some u0) (hu : H u0 = H c) :
    ∀ i (hi : i < (done ++ [c]).length),
      ∃ j u, (order ++ [j0])[i]? = some j ∧ uniq'[j]? = some u ∧ H u = H (done ++ [c])[i] := by
  intro i hi
  by_cases h : i < done.length
  · obtain ⟨j', u', h1, h2, h3⟩ := hold i h
    refine ⟨j', u', ?_, hmono _ _ h2, ?_⟩
    · rw [List.getElem?_append_left (by omega)]; exact h1
    · rw [List.getElem_append_left h]; exact h3
  · have hi' : i = done.length := by simp at hi; omega
    subst hi'
    refine ⟨j0, u0, ?_, hj, ?_⟩
    · rw [List.getElem?_append_right (by omega)]; simp [hlen]
    · rw [List.getElem_append_right (Nat.le_refl _)]; simpa using hu

theorem inv_step {H : Bytes → Bytes} {done : List Bytes} {acc : List Bytes × List Nat} (c : Bytes)
    (inv : Inv H done acc) : Inv H (done ++ [c]) (step H acc c) := by
  obtain ⟨uniq, order⟩ := acc
  obtain ⟨hnd, hlen, hidx, hsub, hfirst, hcount⟩ := inv
  simp only at hnd hlen hidx hsub hfirst hcount
  unfold step
  simp only
  have hlt : ∀ x ∈ order, x < uniq.length := by
    intro x hx
    have : x ∈ order.eraseDups := List.mem_eraseDups.mpr hx
    rw [hfirst] at this
    simpa using this
  split
  · rename_i i hfi
    obtain ⟨hi, hp, -⟩ := List.findIdx?_eq_some_iff_getElem.mp hfi
    have hp' : H uniq[i] = H c := by simpa using hp
    refine ⟨hnd, by simp [hlen], ?_, ?_, ?_, by simp; omega⟩
    · exact idx_snoc hlen hidx (fun _ _ h => h) (List.getElem?_eq_getElem hi) hp'
    · intro u hu; simp [hsub u hu]
    · simp only
      rw [eraseDups_snoc_mem _ _ ?_, hfirst]
      have : i ∈ order.eraseDups := by rw [hfirst]; simpa using hi
      exact List.mem_eraseDups.mp this
  · rename_i hfn
    have hne : ∀ u ∈ uniq, H u ≠ H c := by
      intro u hu
      have := List.findIdx?_eq_none_iff.mp hfn u hu
      simpa using this
    refine ⟨?_, by simp [hlen], ?_, ?_, ?_, by simp; omega⟩
    · simp only [List.map_append, List.map_cons, List.map_nil]
      rw [List.nodup_append]
      refine ⟨hnd, by simp, ?_⟩
      intro a ha b hb
      simp only [List.mem_singleton] at hb
      subst hb
      obtain ⟨u, hu, rfl⟩ := List.mem_map.mp ha
      exact hne u hu
    · refine idx_snoc hlen hidx (fun j u h => ?_) (u0 := c) ?_ rfl
      · have hj : j < uniq.length := by
          rcases Nat.lt_or_ge j uniq.length with h' | h'
          · exact h'
          · rw [List.getElem?_eq_none h'] at h; cases h
        rw [List.getElem?_append_left hj]; exact h
      · rw [List.getElem?_append_right (Nat.le_refl _)]; simp
    · intro u hu
      rcases List.mem_append.mp hu with h | h
      · simp [hsub u h]
      · simp only [List.mem_singleton] at h; simp [h]
    · simp only
      rw [eraseDups_snoc_not_mem _ _ ?_, hfirst, List.length_append, List.length_singleton,
        List.range_succ]
      intro h
      exact Nat.lt_irrefl _ (hlt _ h)

theorem inv_foldl (H : Bytes → Bytes) (rest : List Bytes) :
    ∀ (done : List Bytes) (acc : List Bytes × List Nat), Inv H done acc →
      Inv H (done ++ rest) (rest.foldl (step H) acc) := by
  induction rest with
  | nil => intro done acc h; simpa using h
  | cons c rest ih =>
    intro done acc h
    have := ih (done ++ [c]) (step H acc c) (inv_step c h)
    simpa [List.append_assoc] using this

theorem inv_dedup (H : Bytes → Bytes) (chunks : List Bytes) : Inv H chunks (dedup H chunks) := by
  rw [dedup_eq]
  simpa using inv_foldl H chunks [] ([], []) (inv_nil H)

end Bita.Proofs.WriterDedup
