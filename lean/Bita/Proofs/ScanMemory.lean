/-
  C15, memory while scanning a seed (or the prior output) with the chunker parameters an archive
  declares: the chunker never asks for more data while a whole maximum-size chunk is buffered, so
  the buffer of the streaming chunker stays below twice (maximum chunk size + REFILL_SIZE).
-/
import Bita.Model.Chunker
import Bita.Proofs.ChunkStream
import Bita.Proofs.WriterDescr

namespace Bita.Proofs
open Bita
open WriterDescr Bita.Proofs.CS

/-- Maximum chunk size a chunker works with. -/
def chunkerMax : Chunker → Nat
  | .rolling p _ => p.maxSize
  | .fixed n => n

theorem chunkerMax_ofConfig (cfg : Config) : chunkerMax (Chunker.ofConfig cfg) = maxChunk cfg := by
  cases cfg <;> rfl

/-- `Chunker::next` never changes the maximum chunk size. -/
theorem chunkerMax_next (c : Chunker) (rest : Bytes) (h : Nat) :
    chunkerMax (c.next rest h).1 = chunkerMax c := by
  cases c with
  | fixed n =>
    simp only [Chunker.next]
    split <;> rfl
  | rolling p st =>
    simp only [Chunker.next]
    rfl

theorem maxChunk_pos (cfg : Config) (hv : cfg.Valid) : 1 ≤ maxChunk cfg := by
  cases cfg with
  | fixed n => exact hv
  | rollsum f => exact hv.2.1
  | buzhash f =>
    obtain ⟨h1, h2, _⟩ := hv
    exact Nat.le_trans h1 h2

/-- **"Need more data" is only ever answered below the maximum chunk size**: when `Chunker::next`
returns `None` on a buffer of `h` bytes, `h` is smaller than the maximum chunk size (the cut at the
maximum applies as soon as that many bytes are at hand). -/
theorem next_none_lt_max (c : Chunker) (rest : Bytes) (h : Nat) (c' : Chunker) (hi : CInv c h)
    (hl : h ≤ rest.length) (hn : c.next rest h = (c', none)) : h < chunkerMax c ∧ chunkerMax c' = chunkerMax c := by
  refine ⟨?_, ?_⟩
  · cases c with
    | fixed n =>
      simp only [Chunker.next] at hn
      split at hn
      · simp at hn
      · simp only [chunkerMax]; omega
    | rolling p st =>
      obtain ⟨hp, ho, hinv⟩ := hi
      obtain ⟨g, o⟩ := st
      dsimp only at ho hinv
      simp only [Chunker.next] at hn
      rcases hr : RHState.next p ⟨g, o⟩ rest h with ⟨st', r⟩
      rw [hr] at hn
      simp at hn
      obtain ⟨rfl, rfl⟩ := hn
      rw [next_eq_mach p hp g o rest h ho hl hinv] at hr
      obtain ⟨h1, h2, _, _⟩ := mach_none p _ g _ o st' hr hinv
      simp only [List.length_drop] at h1
      simp only [chunkerMax]
      omega
  · have := chunkerMax_next c rest h
    rw [hn] at this
    exact this

/-- After the chunks at hand have been handed out, less than a maximum chunk is buffered. -/
theorem drain_have_lt_max (f : Nat) (sc : SC) (hi : SInv sc) (hf : sc.have_ + 1 ≤ f) (hpos : 1 ≤ chunkerMax sc.ch) :
    (SC.drain f sc).2.have_ < chunkerMax sc.ch ∧ chunkerMax (SC.drain f sc).2.ch = chunkerMax sc.ch ∧
    SInv (SC.drain f sc).2 := by
  induction f generalizing sc with
  | zero => omega
  | succ f ih =>
    by_cases h0 : sc.have_ = 0
    · rw [drain_have_zero _ _ h0]
      exact ⟨by dsimp only; omega, rfl, hi⟩
    · rcases hn : sc.ch.next sc.rest sc.have_ with ⟨ch', r⟩
      cases r with
      | none =>
        rw [drain_succ_none f sc ch' h0 hn]
        obtain ⟨a, b⟩ := next_none_lt_max sc.ch sc.rest sc.have_ ch' hi.2 hi.1 hn
        obtain ⟨c, _⟩ := next_none sc.ch sc.rest sc.have_ ch' hi.2 hi.1 hn
        exact ⟨a, b, ⟨hi.1, c⟩⟩
      | some n =>
        obtain ⟨h1, h2, h3⟩ := SInv_after_some sc hi ch' n hn
        have hm : chunkerMax ch' = chunkerMax sc.ch := by
          have := chunkerMax_next sc.ch sc.rest sc.have_
          rw [hn] at this
          exact this
        rw [drain_succ_some f sc ch' n h0 hn (by omega)]
        obtain ⟨a, b, c⟩ := ih _ h1 (by dsimp only; omega) (by dsimp only; omega)
        dsimp only at a b c ⊢
        rw [hm] at a b
        exact ⟨a, b, c⟩

theorem caps_nil (sc : SC) (cap : Nat) : SC.caps sc cap [] = [] := by
  rw [SC.caps]

theorem caps_pending (sc : SC) (cap : Nat) (s : List Rd) :
    SC.caps sc cap (.pending :: s) = SC.caps (SC.drain (sc.have_ + 1) sc).2 cap s := by
  rw [SC.caps]

theorem caps_bytes (sc : SC) (cap n : Nat) (s : List Rd) :
    SC.caps sc cap (.bytes n :: s) =
      (if (SC.drain (sc.have_ + 1) sc).2.have_ = (SC.drain (sc.have_ + 1) sc).2.rest.length then []
       else
        (capAfterReserve cap (SC.drain (sc.have_ + 1) sc).2.have_,
          (SC.drain (sc.have_ + 1) sc).2.have_ +
            min (min (max n 1) (capAfterReserve cap (SC.drain (sc.have_ + 1) sc).2.have_ -
                (SC.drain (sc.have_ + 1) sc).2.have_))
              ((SC.drain (sc.have_ + 1) sc).2.rest.length - (SC.drain (sc.have_ + 1) sc).2.have_)) ::
        SC.caps { (SC.drain (sc.have_ + 1) sc).2 with
            have_ := (SC.drain (sc.have_ + 1) sc).2.have_ +
              min (min (max n 1) (capAfterReserve cap (SC.drain (sc.have_ + 1) sc).2.have_ -
                  (SC.drain (sc.have_ + 1) sc).2.have_))
                ((SC.drain (sc.have_ + 1) sc).2.rest.length - (SC.drain (sc.have_ + 1) sc).2.have_) }
          (capAfterReserve cap (SC.drain (sc.have_ + 1) sc).2.have_) s) := by
  rw [SC.caps]

theorem capAfterReserve_bound (M cap len : Nat) (hc : cap < 2 * (M + Gen.refillSize)) (hl : len < M) :
    capAfterReserve cap len < 2 * (M + Gen.refillSize) ∧ len ≤ capAfterReserve cap len := by
  unfold capAfterReserve
  split <;> omega

theorem caps_bounded (M : Nat) (hM : 1 ≤ M) (script : List Rd) :
    ∀ (sc : SC) (cap : Nat), SInv sc → chunkerMax sc.ch = M → cap < 2 * (M + Gen.refillSize) →
      ∀ e ∈ SC.caps sc cap script, e.1 < 2 * (M + Gen.refillSize) ∧ e.2 ≤ e.1 := by
  induction script with
  | nil => intro sc cap _ _ _ e he; rw [caps_nil] at he; simp at he
  | cons r s ih =>
    intro sc cap hi hm hc e he
    obtain ⟨a, b, c⟩ := drain_have_lt_max (sc.have_ + 1) sc hi (Nat.le_refl _) (by omega)
    rw [hm] at a b
    cases r with
    | pending =>
      rw [caps_pending] at he
      exact ih _ cap c b hc e he
    | bytes n =>
      rw [caps_bytes] at he
      split at he
      · simp at he
      · obtain ⟨k1, k2⟩ := capAfterReserve_bound M cap _ hc a
        rcases List.mem_cons.mp he with he | he
        · subst he
          dsimp only
          exact ⟨k1, by omega⟩
        · exact ih _ _ (SInv_more _ c _) b k1 e he

/-- **The scan buffer is bounded by the declared maximum chunk size** (any valid configuration, any
data, any read behaviour): every capacity the scan asks for is below `2 * (max chunk + REFILL_SIZE)`
(or is the initial `REFILL_SIZE`), and the buffered bytes never exceed the capacity. -/
theorem scan_capacity_bounded (cfg : Config) (hv : cfg.Valid) (data : Bytes) (script : List Rd) :
    ∀ e ∈ SC.caps ⟨0, data, 0, Chunker.ofConfig cfg⟩ Gen.refillSize script,
      e.1 < 2 * (maxChunk cfg + Gen.refillSize) ∧ e.2 ≤ e.1 := by
  have hR : 0 < Gen.refillSize := by decide
  exact caps_bounded (maxChunk cfg) (maxChunk_pos cfg hv) script _ _ (SInv_init cfg hv data)
    (chunkerMax_ofConfig cfg) (by omega)

end Bita.Proofs
