/-
  C15, "never allocates without bound beyond sizes the format legitimately declares for a chunk":
  the header reads (`read_at` with a size taken from an unverified pre-header) of both readers.
  The bounds hold *because* the guards are in the source (`Gen.*` facts, read on every run).
-/
import Bita.Model.Readers
import Bita.Model.Clone

namespace Bita.Proofs
open Bita

theorem ioCapGrow_le (size len : Nat) (h : len < size) :
    ioCapGrow size len ≤ len + Gen.ioMaxPreallocate ∧ ioCapGrow size len ≤ size ∧ len < ioCapGrow size len := by
  unfold ioCapGrow
  have hfact : Gen.ioGrowBounded = true := by decide
  have hp : 0 < Gen.ioMaxPreallocate := by decide
  simp only [hfact, if_true]
  omega

theorem ioCapsLoop_bounded (file : Bytes) (offset size : Nat) :
    ∀ (script : List ReadEv) (len cap : Nat), len ≤ file.length - offset → len ≤ cap → cap ≤ size →
      cap ≤ len + Gen.ioMaxPreallocate →
      ∀ e ∈ ioCapsLoop file offset size len cap script,
        e.1 ≤ e.2 + Gen.ioMaxPreallocate ∧ e.2 ≤ file.length - offset ∧ e.1 ≤ size := by
  intro script
  induction script with
  | nil => intro len cap _ _ _ _ e he; simp [ioCapsLoop] at he
  | cons ev s ih =>
    intro len cap hlen hlc hcs hcp e he
    rw [ioCapsLoop] at he
    by_cases hdone : size ≤ len
    · simp [hdone] at he
    · rw [if_neg hdone] at he
      have hlt : len < size := by omega
      obtain ⟨hg1, hg2, hg3⟩ := ioCapGrow_le size len hlt
      dsimp only at he
      generalize hc' : (if cap = len then ioCapGrow size len else cap) = cap' at he
      generalize ha : (if cap = len then [(cap', len)] else []) = asked at he
      have hcap : len ≤ cap' ∧ cap' ≤ size ∧ cap' ≤ len + Gen.ioMaxPreallocate := by
        by_cases hfull : cap = len
        · rw [if_pos hfull] at hc'; subst hc'; omega
        · rw [if_neg hfull] at hc'; subst hc'; omega
      have hasked : ∀ e' ∈ asked,
          e'.1 ≤ e'.2 + Gen.ioMaxPreallocate ∧ e'.2 ≤ file.length - offset ∧ e'.1 ≤ size := by
        intro e' he'
        by_cases hfull : cap = len
        · rw [if_pos hfull] at ha
          subst ha
          simp only [List.mem_singleton] at he'
          subst he'
          dsimp only
          omega
        · rw [if_neg hfull] at ha; subst ha; cases he'
      obtain ⟨hc1, hc2, hc3⟩ := hcap
      cases ev with
      | pending =>
        dsimp only at he
        rcases List.mem_append.1 he with h | h
        · exact hasked e h
        · exact ih len _ hlen hc1 hc2 hc3 e h
      | err =>
        dsimp only at he
        exact hasked e he
      | bytes n =>
        dsimp only at he
        by_cases hg : min (min n (cap' - len)) (file.length - (offset + len)) = 0
        · rw [if_pos hg] at he
          exact hasked e he
        · rw [if_neg hg] at he
          rcases List.mem_append.1 he with h | h
          · exact hasked e h
          · refine ih _ _ ?_ ?_ hc2 ?_ e h
            · have := Nat.min_le_right (min n (cap' - len)) (file.length - (offset + len))
              omega
            · have := Nat.min_le_left (min n (cap' - len)) (file.length - (offset + len))
              have := Nat.min_le_right n (cap' - len)
              omega
            · omega

/-- **Local `read_at`.**  Whatever size an unverified header declares and however the reads come in,
every capacity `IoReader::read_at` asks the allocator for is at most the number of bytes the file
has actually delivered plus `MAX_PREALLOCATE` (1 MiB) - hence at most the file's length from
`offset` plus 1 MiB - and never more than `size`. -/
theorem io_read_at_allocation_bounded (file : Bytes) (offset size : Nat) (script : List ReadEv) :
    ∀ e ∈ ioReadAtCaps file offset size script,
      e.1 ≤ e.2 + Gen.ioMaxPreallocate ∧ e.2 ≤ file.length - offset ∧ e.1 ≤ size := by
  intro e he
  unfold ioReadAtCaps at he
  have hinit : ioCapInit size ≤ size ∧ ioCapInit size ≤ Gen.ioMaxPreallocate := by
    unfold ioCapInit
    have hfact : Gen.ioInitialCapacityBounded = true := by decide
    simp only [hfact, if_true]
    omega
  rcases List.mem_cons.1 he with h | h
  · subst h; dsimp only; omega
  · exact ioCapsLoop_bounded file offset size script 0 _ (Nat.zero_le _) (Nat.zero_le _) hinit.1 (by omega) e h

def maxFrame : List Nat → Nat
  | [] => 0
  | f :: fs => max f (maxFrame fs)

theorem httpSingleTake_bounded (size : Nat) : ∀ (frames : List Nat) (acc : Nat), acc < size ∨ acc = 0 →
    httpSingleTake size acc frames ≤ size + maxFrame frames := by
  intro frames
  induction frames with
  | nil => intro acc h; simp [httpSingleTake, maxFrame]; omega
  | cons f fs ih =>
    intro acc h
    rw [httpSingleTake]
    have hop : Gen.httpSingleStopIf = ">=" := by decide
    unfold httpSingleStop
    simp only [hop, if_true]
    by_cases hs : acc + f ≥ size
    · simp only [hs, decide_true, if_true, maxFrame]
      rcases h with h | h <;> omega
    · simp only [hs, decide_false]
      have := ih (acc + f) (Or.inl (by omega))
      simp only [maxFrame]
      simp at this ⊢
      omega

/-- **Remote `read_at`.**  Whatever the server sends for a header read of `size` bytes - any number of
body frames of any sizes, an endless body -, `HttpRangeRequest::single_fail` buffers less than
`size` plus one frame. -/
theorem http_read_at_take_bounded (size : Nat) (frames : List Nat) :
    httpSingleTake size 0 frames ≤ size + maxFrame frames :=
  httpSingleTake_bounded size frames 0 (Or.inr rfl)

/-- What the reader may assume of its decompressor: never more than the declared size. -/
def DecompBounded (decomp : Nat → Bytes → Nat → Option Bytes) : Prop :=
  ∀ algo stored declared out, decomp algo stored declared = some out → out.length ≤ declared

/-- The decompressor of the code meets it for *any* codec, because the output limit is in the source. -/
theorem limitedDecomp_bounded (raw : Nat → Bytes → Option Bytes) : DecompBounded (limitedDecomp raw) := by
  intro algo stored declared out h
  unfold limitedDecomp at h
  have hfact : Gen.decompressOutputLimited = true := by decide
  cases hr : raw algo stored with
  | none => rw [hr] at h; cases h
  | some o =>
    rw [hr] at h
    simp only [Option.bind_some] at h
    by_cases hlt : declared < o.length
    · rw [if_pos ⟨hfact, hlt⟩] at h; cases h
    · rw [if_neg (fun hh => hlt hh.2)] at h
      cases h
      omega

/-- **Decoded chunks follow the declared sizes.**  For any descriptor of any (untrusted) archive, any
stored bytes and any codec behind the limited decompressor: a chunk that `decodeChunk` hands on is
no longer than the larger of the descriptor's declared source size and the stored bytes
themselves - a compressed stream cannot choose how much memory the reader uses. -/
theorem decodeChunk_bounded (H : Bytes → Bytes) (decomp : Nat → Bytes → Nat → Option Bytes)
    (hb : DecompBounded decomp) (compr : Compr) (d : Descr) (stored chunk : Bytes)
    (h : decodeChunk H decomp compr d stored = some chunk) :
    chunk.length ≤ max d.sourceSize stored.length := by
  unfold decodeChunk at h
  simp only [Option.bind_eq_some_iff] at h
  obtain ⟨c, hraw, hc⟩ := h
  -- the chunk handed on is the raw one (whatever further tests it passed)
  have hcc : c = chunk := by
    split at hc
    · cases hc
    · split at hc
      · cases hc; rfl
      · cases hc
  subst hcc
  split at hraw
  · cases hraw; omega
  · cases compr with
    | none => cases hraw; omega
    | some ca =>
      obtain ⟨algo, lvl⟩ := ca
      dsimp only at hraw
      have := hb algo stored d.sourceSize _ hraw
      omega

end Bita.Proofs
