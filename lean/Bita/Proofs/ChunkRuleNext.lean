/-
  The chunker model computes the pure chunking rule (C09 T5), part 2: one call of
  `RollingHashChunker::next` at a chunk start with the whole remainder buffered computes
  `specCut`, and re-establishes the hasher invariant at the next chunk start.
-/
import Bita.Proofs.ChunkRulePhases
namespace Bita.Proofs.CR
open Bita Bita.Spec

/-- Number of warm-up bytes still to be consumed by a chunk starting at `s`. -/
def warm0 (algo : Algo) (n s : Nat) : Nat :=
  match algo with
  | .buz => n - s
  | .roll => 0

/-- Hasher state at a chunk start. -/
def Start (algo : Algo) (n : Nat) (data : Bytes) (s : Nat) (h : Hasher) : Prop :=
  HInv algo n data s h ∨ (algo = .buz ∧ s = 0 ∧ h = .buz (BuzHash.new n))

theorem warm0_le (algo : Algo) (n s : Nat) : warm0 algo n s ≤ n := by
  cases algo <;> simp [warm0]

/-- The warm-up fits in a chunk: RollSum has none, BuzHash needs `window ≤ maxSize`. -/
theorem warm0_le_max (algo : Algo) (f : FilterConfig) (s : Nat)
    (hwm : algo = .buz → f.window ≤ f.maxSize) : warm0 algo f.window s ≤ f.maxSize := by
  cases algo with
  | roll => simp [warm0]
  | buz => have := hwm rfl; simp only [warm0]; omega

theorem init_phase {algo n data s h} (hn : 1 ≤ n) (hs : s ≤ data.length)
    (st : Start algo n data s h) :
    ∃ h1, initLoop h (data.drop s) (data.length - s)
        = (h1, min (warm0 algo n s) (data.length - s)) ∧
      (warm0 algo n s ≤ data.length - s → HInv algo n data (s + warm0 algo n s) h1) := by
  rcases st with hi | ⟨rfl, rfl, rfl⟩
  · have hw : warm0 algo n s = 0 := by
      cases algo with
      | roll => rfl
      | buz => have := hi.2 rfl; simp [warm0]; omega
    rw [hw, initLoop_done _ (HWin_initDone hi.1)]
    exact ⟨h, by simp, fun _ => hi⟩
  · obtain ⟨h', e, hi⟩ := initLoop_warm (n := n) (data := data) _ 0 _ rfl
      (by simpa using BuzWarm_new n hn) (Nat.zero_le _)
    refine ⟨h', by simpa [warm0] using e, fun hl => ?_⟩
    simp only [warm0, Nat.sub_zero, Nat.zero_add] at hl ⊢
    exact hi hl

def off2Of (p : RHParams) (off1 hv : Nat) : Nat :=
  if 0 < p.limit ∧ off1 < p.limit then min (p.limit - 1) hv else off1

def h3Of (p : RHParams) (h1 : Hasher) (rest : Bytes) (off2 hv : Nat) : Hasher :=
  if 0 < p.minSize ∧ off2 < p.minSize then
    feedN h1 (rest.drop off2) (min (p.minSize - 1) hv - off2)
  else h1

def off3Of (p : RHParams) (off2 hv : Nat) : Nat :=
  if 0 < p.minSize ∧ off2 < p.minSize then min (p.minSize - 1) hv else off2

theorem next_unfold (p : RHParams) (h : Hasher) (rest : Bytes) (hv : Nat) (h1 : Hasher)
    (off1 : Nat) (e : initLoop h rest hv = (h1, off1)) :
    RHState.next p ⟨h, 0⟩ rest hv =
      (let off2 := off2Of p off1 hv
       let h3 := h3Of p h1 rest off2 hv
       let off3 := off3Of p off2 hv
       let r := scanN p.mask h3 (rest.drop off3) (min p.maxSize hv - off3)
       if r.2.2 = true ∨ p.maxSize ≤ off3 + r.2.1 then (⟨r.1, 0⟩, some (off3 + r.2.1))
       else (⟨r.1, off3 + r.2.1⟩, none)) := by
  have fst_ite : ∀ (c : Prop) [Decidable c] (a a' : Hasher) (b b' : Nat),
      (if c then (a, b) else (a', b')).1 = if c then a else a' := by intros; split <;> rfl
  have snd_ite : ∀ (c : Prop) [Decidable c] (a a' : Hasher) (b b' : Nat),
      (if c then (a, b) else (a', b')).2 = if c then b else b' := by intros; split <;> rfl
  simp only [RHState.next, List.drop_zero, Nat.sub_zero, e, Nat.zero_add, off2Of, h3Of, off3Of,
    fst_ite, snd_ite]
  split <;> rfl


theorem feed_phase {algo data s} (f : FilterConfig) (hv : f.Sane) (w0 : Nat)
    (hw0 : w0 ≤ f.window) (h1 : Hasher) (hs : s ≤ data.length)
    (hi : w0 ≤ data.length - s → HInv algo f.window data (s + w0) h1) :
    off3Of (RHParams.ofConfig f)
        (off2Of (RHParams.ofConfig f) (min w0 (data.length - s)) (data.length - s))
        (data.length - s)
      = min (max (f.minSize - 1) w0) (data.length - s) ∧
    (max (f.minSize - 1) w0 ≤ data.length - s →
      HInv algo f.window data (s + max (f.minSize - 1) w0)
        (h3Of (RHParams.ofConfig f) h1 (data.drop s)
          (off2Of (RHParams.ofConfig f) (min w0 (data.length - s)) (data.length - s))
          (data.length - s))) := by
  obtain ⟨hn, hm1, hmm, _, _⟩ := hv
  generalize hrem : data.length - s = rem
  generalize hp : RHParams.ofConfig f = p
  have hlim : p.limit = if f.minSize ≥ f.window then f.minSize - f.window else 0 := by
    rw [← hp]; rfl
  have hmin : p.minSize = f.minSize := by rw [← hp]; rfl
  constructor
  · simp only [off3Of, off2Of, hlim, hmin]
    repeat' split
    all_goals omega
  · intro hle
    have hi1 := hi (by omega)
    have e1 : min w0 rem = w0 := by omega
    rw [e1]
    by_cases c1 : 0 < p.limit ∧ w0 < p.limit
    · have hl2 : p.limit = f.minSize - f.window := by
        rw [hlim] at c1 ⊢; split at c1 <;> simp_all
      have e2 : off2Of p w0 rem = p.limit - 1 := by
        simp only [off2Of, if_pos c1]; omega
      have c2 : 0 < p.minSize ∧ p.limit - 1 < p.minSize := by omega
      rw [e2]
      simp only [h3Of, if_pos c2, List.drop_drop]
      have := HInv_feedN_skip (data := data) hn f.window (s + (p.limit - 1)) h1 _ hi1.1
        (Nat.le_refl _) (by omega)
      have ek : min (p.minSize - 1) rem - (p.limit - 1) = f.window := by omega
      have eq : s + (p.limit - 1) + f.window = s + max (f.minSize - 1) w0 := by omega
      rwa [ek, ← eq]
    · have e2 : off2Of p w0 rem = w0 := by simp only [off2Of, if_neg c1]
      rw [e2]
      by_cases c2 : 0 < p.minSize ∧ w0 < p.minSize
      · simp only [h3Of, if_pos c2, List.drop_drop]
        have := HInv_feedN hn (min (p.minSize - 1) rem - w0) (s + w0) h1 hi1 (by omega)
        have eq : s + w0 + (min (p.minSize - 1) rem - w0) = s + max (f.minSize - 1) w0 := by
          omega
        rwa [← eq]
      · simp only [h3Of, if_neg c2]
        have eq : s + w0 = s + max (f.minSize - 1) w0 := by omega
        rwa [← eq]


theorem specCut_eq (algo : Algo) (f : FilterConfig) (data : Bytes) (s : Nat) :
    specCut algo f data s =
      match firstBoundary algo f.window (filterMask f.bits) data s
          (max (f.minSize - 1) (warm0 algo f.window s) + 1)
          (min f.maxSize (data.length - s) - max (f.minSize - 1) (warm0 algo f.window s)) with
      | some L => some L
      | none => if f.maxSize ≤ data.length - s then some f.maxSize else none := by
  unfold specCut
  cases algo with
  | roll =>
    simp only [warm0]
    rw [show max (max f.minSize 1) 0 = max (f.minSize - 1) 0 + 1 by omega,
      show ∀ a b : Nat, a + 1 - (b + 1) = a - b by omega]
    generalize firstBoundary _ _ _ _ _ _ _ = fb
    cases fb <;> rfl
  | buz =>
    simp only [warm0]
    rw [show max (max f.minSize 1) (f.window + 1 - s)
        = max (f.minSize - 1) (f.window - s) + 1 by omega,
      show ∀ a b : Nat, a + 1 - (b + 1) = a - b by omega]
    generalize firstBoundary _ _ _ _ _ _ _ = fb
    cases fb <;> rfl

/-- One call of `RollingHashChunker::next` at a chunk start, everything buffered, is `specCut`. -/
theorem next_spec {algo data s h} (f : FilterConfig) (hv : f.Sane)
    (hwm : algo = .buz → f.window ≤ f.maxSize) (hs : s < data.length)
    (st : Start algo f.window data s h) :
    match specCut algo f data s with
    | some L => ∃ h', RHState.next (RHParams.ofConfig f) ⟨h, 0⟩ (data.drop s) (data.length - s)
          = (⟨h', 0⟩, some L) ∧ HInv algo f.window data (s + L) h'
    | none => ∃ st', RHState.next (RHParams.ofConfig f) ⟨h, 0⟩ (data.drop s) (data.length - s)
          = (st', none) := by
  have hv' := hv
  obtain ⟨hn, hm1, hmm, _, _⟩ := hv'
  obtain ⟨h1, e1, hi1⟩ := init_phase hn (Nat.le_of_lt hs) st
  have hw0 := warm0_le algo f.window s
  have hwm0 := warm0_le_max algo f s hwm
  obtain ⟨e3, hi3⟩ := feed_phase f hv (warm0 algo f.window s) hw0 h1 (Nat.le_of_lt hs) hi1
  rw [next_unfold _ _ _ _ _ _ e1, specCut_eq]
  simp only [e3]
  generalize h3Of _ _ _ _ _ = h3 at hi3 ⊢
  generalize hw : warm0 algo f.window s = w0 at *
  generalize hlo : max (f.minSize - 1) w0 = lom1 at *
  generalize hrem : data.length - s = rem at *
  have hmask : (RHParams.ofConfig f).mask = filterMask f.bits := rfl
  have hmax : (RHParams.ofConfig f).maxSize = f.maxSize := rfl
  rw [hmask, hmax, List.drop_drop]
  by_cases hle : lom1 ≤ rem
  · have hi3' := hi3 hle
    have e4 : min lom1 rem = lom1 := by omega
    rw [e4]
    cases hfb : firstBoundary algo f.window (filterMask f.bits) data s (lom1 + 1)
        (min f.maxSize rem - lom1) with
    | some L =>
      obtain ⟨h', esc, hi'⟩ := scanN_some hn _ _ _ _ L hi3' (by omega) (by omega) hfb
      have hb := SpecChunks.firstBoundary_bounds _ _ _ _ _ _ _ _ hfb
      refine ⟨h', ?_, hi'⟩
      simp only [esc, true_or, if_true]
      congr 3
      omega
    | none =>
      obtain ⟨h', esc, hi'⟩ := scanN_none hn _ _ _ _ hi3' (by omega) (by omega) hfb
      simp only [esc]
      have e5 : lom1 + (min f.maxSize rem - lom1) = min f.maxSize rem := by omega
      rw [e5]
      by_cases hmr : f.maxSize ≤ rem
      · have e6 : min f.maxSize rem = f.maxSize := by omega
        simp only [hmr, if_true, e6, Nat.le_refl, or_true]
        refine ⟨h', rfl, ?_⟩
        rwa [show s + lom1 + (min f.maxSize rem - lom1) = s + f.maxSize by omega] at hi'
      · have : ¬ f.maxSize ≤ min f.maxSize rem := by omega
        simp only [hmr, if_false, this, Bool.false_eq_true, or_self]
        exact ⟨_, rfl⟩
  · have e4 : min lom1 rem = rem := by omega
    have e5 : min f.maxSize rem - rem = 0 := by omega
    have e6 : min f.maxSize rem - lom1 = 0 := by omega
    have hmr : ¬ f.maxSize ≤ rem := by omega
    have e7 : ∀ (h : Hasher) (bs : Bytes), scanN (filterMask f.bits) h bs 0 = (h, 0, false) := by
      intro h bs; cases bs <;> rfl
    rw [e4, e5, e6, e7]
    simp only [firstBoundary, hmr, if_false, Nat.add_zero, Bool.false_eq_true, or_self]
    exact ⟨_, rfl⟩

end Bita.Proofs.CR
