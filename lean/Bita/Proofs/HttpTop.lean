import Bita.Proofs.HttpResume

namespace Bita.Proofs
open Bita Bita.Spec

theorem drop_headD_getLast (rest : List ChunkOffset) (r : List ChunkOffset) :
    ∀ (c dflt : ChunkOffset),
      ((c :: r ++ rest).drop r.length).headD dflt = (c :: r).getLast (by simp) := by
  induction r with
  | nil => intro c dflt; simp
  | cons d r ih =>
    intro c dflt
    have := ih d dflt
    rw [List.getLast_cons (by simp)]
    simpa using this

theorem run_congr_ensure (serve : Nat → Nat → Bytes) (retry : Nat) (script : List Resp)
    (c : ChunkOffset) (cs : List ChunkOffset) (buf : Bytes) (adj : Nat)
    (req : Option (Nat × Nat × Nat))
    (c' : ChunkOffset) (cs' : List ChunkOffset) (buf' : Bytes) (adj' : Nat)
    (req' : Option (Nat × Nat × Nat))
    (hb : buf.length < c.size) (hb' : buf'.length < c'.size)
    (he : CR.ensureReq retry ⟨c :: cs, buf, adj, req⟩ =
      CR.ensureReq retry ⟨c' :: cs', buf', adj', req'⟩) :
    CR.run serve retry script ⟨c :: cs, buf, adj, req⟩ =
      CR.run serve retry script ⟨c' :: cs', buf', adj', req'⟩ := by
  rw [CR.run.eq_1 serve retry script ⟨c :: cs, buf, adj, req⟩,
    CR.run.eq_1 serve retry script ⟨c' :: cs', buf', adj', req'⟩]
  dsimp only
  rw [drain_short c cs buf adj req hb, drain_short c' cs' buf' adj' req' hb']
  simp only [he, List.isEmpty_cons, Bool.false_eq_true, if_false]

theorem runRequest_cons (c : ChunkOffset) (r : List ChunkOffset) (hc : Contiguous (c :: r)) :
    runRequest (c :: r) = (c.offset, total (c :: r)) := by
  have h := contiguous_getLast_stop c r hc
  simp only [runRequest, List.head?_cons, List.getLast?_eq_some_getLast (l := c :: r) (by simp)]
  rw [h]; simp

theorem ensureReq_none (retry : Nat) (c : ChunkOffset) (cs : List ChunkOffset) (buf : Bytes)
    (adj : Nat) :
    CR.ensureReq retry ⟨c :: cs, buf, adj, none⟩ =
      ⟨c :: cs, [], adjacentReads (c :: cs),
        some (c.offset,
          (((c :: cs).drop (adjacentReads (c :: cs) - 1)).headD c).stop - c.offset, retry)⟩ := rfl

theorem ensureReq_some (retry : Nat) (cs : List ChunkOffset) (buf : Bytes)
    (adj : Nat) (q : Nat × Nat × Nat) :
    CR.ensureReq retry ⟨cs, buf, adj, some q⟩ = ⟨cs, buf, adj, some q⟩ := rfl

/-- Starting a run: the reader opens the request for the whole head run. -/
theorem run_start (data : Bytes) (retry : Nat) (script : List Resp) (c : ChunkOffset)
    (r rest : List ChunkOffset) (hc : Contiguous (c :: r))
    (hadj : adjacentReads (c :: (r ++ rest)) = (c :: r).length) (hsz : 1 ≤ c.size) :
    CR.run (slice data) retry script ⟨c :: (r ++ rest), [], 0, none⟩ =
      CR.run (slice data) retry script (runSt data c r rest c.offset (total (c :: r)) retry) := by
  rw [runSt_eq]
  apply run_congr_ensure
  · simp; omega
  · simp [slice_zero]; omega
  · have hl := drop_headD_getLast rest r c c
    have hs := contiguous_getLast_stop c r hc
    rw [List.cons_append] at hl
    rw [ensureReq_none, ensureReq_some, hadj, List.length_cons, Nat.add_sub_cancel, hl, hs,
      Nat.add_sub_cancel_left, Nat.sub_self, slice_zero]

theorem http_resume_aux (data : Bytes) (retry : Nat) :
    ∀ (n : Nat) (chunks : List ChunkOffset), chunks.length ≤ n →
      (∀ c ∈ chunks, 1 ≤ c.size) → (∀ c ∈ chunks, c.stop ≤ data.length) →
      ∀ script, CR.run (slice data) retry script ⟨chunks, [], 0, none⟩ =
        fetchAll data retry (maximalRuns chunks) script := by
  intro n
  induction n with
  | zero =>
    intro chunks hn _ _ script
    have : chunks = [] := List.length_eq_zero_iff.1 (by omega)
    subst this
    rw [CR.run]
    simp [CR.drain, maximalRuns, fetchAll]
  | succ n ih =>
    intro chunks hn hsize hin script
    cases chunks with
    | nil =>
      rw [CR.run]
      simp [CR.drain, maximalRuns, fetchAll]
    | cons c cs =>
      obtain ⟨r, hr⟩ := headRun_fst c cs
      have happ := headRun_append c cs
      have hcont := headRun_contiguous c cs
      have hadj := adjacentReads_eq_headRun c cs
      have hmax := maximalRuns_eq_headRun c cs
      generalize (headRun c cs).2 = rest at happ hmax
      rw [hr] at happ hcont hadj hmax
      rw [hmax, ← happ, List.cons_append]
      have hsz := hsize c (by simp)
      have hrun : ∀ x ∈ c :: r, x ∈ c :: cs := by
        intro x hx; rw [← happ]; exact List.mem_append_left _ hx
      have hrest : ∀ x ∈ rest, x ∈ c :: cs := by
        intro x hx; rw [← happ]; exact List.mem_append_right _ hx
      have hlast := contiguous_getLast_stop c r hcont
      have hlastin : ((c :: r).getLast (by simp)).stop ≤ data.length :=
        hin _ (hrun _ (List.getLast_mem _))
      rw [hlast] at hlastin
      rw [run_start data retry script c r rest hcont (by rw [← List.cons_append, happ]; exact hadj) hsz]
      rw [run_inv data retry rest (fun x hx => hsize x (hrest x hx)) script c r c.offset
        (total (c :: r)) retry hcont (fun x hx => hsize x (hrun x hx)) (Nat.le_refl _)
        (by simp only [ChunkOffset.stop]; omega) rfl hlastin]
      have hlen : rest.length ≤ n := by
        have := congrArg List.length happ
        simp at this hn; omega
      rw [fetchAll, runRequest_cons c r hcont]
      dsimp only
      generalize fetchRun (c.offset + total (c :: r)) c.offset retry script = res
      obtain ⟨pos, rq, e, s'⟩ := res
      cases e with
      | done =>
        simp only [runSpec]
        rw [ih rest hlen (fun x hx => hsize x (hrest x hx)) (fun x hx => hin x (hrest x hx)) s']
      | fail it => simp only [runSpec]

/-! ### consequences of the specification -/

theorem fetchAll_full (data : Bytes) (retry : Nat) :
    ∀ (runs : List (List ChunkOffset)) (script : List Resp),
      (∀ r ∈ script, ∃ fr, r = Resp.full fr) → runs.length ≤ script.length →
      fetchAll data retry runs script =
        ⟨runs.flatten.map (exactItem data), runs.map runRequest⟩ := by
  intro runs
  induction runs with
  | nil => intro script _ _; simp [fetchAll]
  | cons run runs ih =>
    intro script hfull hlen
    cases script with
    | nil => simp at hlen
    | cons x s =>
      obtain ⟨fr, rfl⟩ := hfull x (by simp)
      rw [fetchAll]
      dsimp only
      rw [fetchRun_full, Nat.add_sub_cancel_left]
      dsimp only
      rw [ih s (fun r hr => hfull r (List.mem_cons_of_mem _ hr)) (by simpa using hlen)]
      simp

theorem contiguous_tail (a : ChunkOffset) (l : List ChunkOffset) (h : Contiguous (a :: l)) :
    Contiguous l := by
  cases l with
  | nil => trivial
  | cons b l => exact h.2

theorem filter_prefix (pos : Nat) (l : List ChunkOffset) (hc : Contiguous l) :
    ∃ j, j ≤ l.length ∧ l.filter (fun c => c.stop ≤ pos) = l.take j := by
  induction l with
  | nil => exact ⟨0, by simp, by simp⟩
  | cons a l ih =>
    by_cases h : a.stop ≤ pos
    · obtain ⟨j, hj, he⟩ := ih (contiguous_tail a l hc)
      refine ⟨j + 1, by simp; omega, ?_⟩
      rw [List.filter_cons_of_pos (by simpa using h), he]
      simp
    · refine ⟨0, by simp, ?_⟩
      rw [filter_stuck a l pos hc (by omega)]
      simp

theorem fetchAll_prefix (data : Bytes) (retry : Nat) :
    ∀ (runs : List (List ChunkOffset)) (script : List Resp), (∀ r ∈ runs, Contiguous r) →
      ∃ k tail, k ≤ runs.flatten.length ∧
        (fetchAll data retry runs script).items =
          (runs.flatten.take k).map (exactItem data) ++ tail ∧
        ((tail = [] ∧ k = runs.flatten.length) ∨ tail = [Item.stall] ∨ tail = [Item.errHttp] ∨
          tail = [Item.errEnd]) := by
  intro runs
  induction runs with
  | nil => intro script _; exact ⟨0, [], by simp, by simp [fetchAll], by simp⟩
  | cons run runs ih =>
    intro script hc
    rw [fetchAll]
    dsimp only
    have hfail := fetchRun_fail_item ((runRequest run).1 + (runRequest run).2) script
      (runRequest run).1 retry
    generalize fetchRun ((runRequest run).1 + (runRequest run).2) (runRequest run).1 retry script
      = res at hfail
    obtain ⟨pos, rq, e, s'⟩ := res
    cases e with
    | done =>
      obtain ⟨k, tail, hk, hitems, htail⟩ := ih s' (fun r hr => hc r (List.mem_cons_of_mem _ hr))
      refine ⟨run.length + k, tail,
        by simp only [List.flatten_cons, List.length_append]; omega, ?_, ?_⟩
      · dsimp only
        rw [hitems, List.flatten_cons, List.take_append,
          List.take_of_length_le (Nat.le_add_right _ _), Nat.add_sub_cancel_left]
        simp
      · rcases htail with ⟨h1, h2⟩ | h | h | h
        · left; exact ⟨h1, by simp [h2]⟩
        · right; left; exact h
        · right; right; left; exact h
        · right; right; right; exact h
    | fail it =>
      obtain ⟨j, hj, he⟩ := filter_prefix pos run (hc run (by simp))
      refine ⟨j, [it], by simp only [List.flatten_cons, List.length_append]; omega, ?_, ?_⟩
      · dsimp only
        rw [he, List.flatten_cons, List.take_append_of_le_length hj]
      · have := hfail it rfl
        rcases this with h | h | h <;> simp [h]

end Bita.Proofs
