/-
  The concrete explicit-stack DFS (`dfsStep`/`dfsRun`) simulated by the abstract machine of
  PlannerDfsAbs: what one tree of `reorder_ops` delivers (`dfs_tree`).
-/
import Bita.Model.Planner
import Bita.Spec.InPlace
import Bita.Proofs.PlannerDfsAbs
import Bita.Proofs.PlannerOverlap

set_option linter.unusedSectionVars false
set_option linter.unusedSimpArgs false

namespace Bita.Proofs.Planner
open Bita Bita.Spec

variable {κ : Type} [DecidableEq κ]

def firstD (self : Index κ) (k : κ) : Nat := (self.firstOffset k).getD 0

def clobE (newOrder : Index κ) (lay : Layout κ) (z : κ) : List (ChunkOffset × κ) :=
  match newOrder.get z with
  | none => []
  | some loc => loc.offsets.flatMap (fun t => (lay.overlapping ⟨t, loc.size⟩).filter (fun e => e.2 ≠ z))

def destsOf (newOrder : Index κ) (z : κ) : List Nat :=
  match newOrder.get z with
  | none => []
  | some loc => loc.offsets

def mkStore (self : Index κ) (e : ChunkOffset × κ) : ROp κ := .store e.2 e.1.size (firstD self e.2)
def mkChild (self : Index κ) (e : ChunkOffset × κ) : MoveChunk κ := ⟨e.2, e.1.size, firstD self e.2⟩
def mkCopy (self newOrder : Index κ) (e : ChunkOffset × κ) : ROp κ :=
  .copy e.2 e.1.size (firstD self e.2) (destsOf newOrder e.2)

theorem expand_inner (self : Index κ) (visited : List κ) (ov : List (ChunkOffset × κ))
    (s : List (ROp κ)) (c : List (MoveChunk κ)) :
    ov.foldl (fun (a : List (ROp κ) × List (MoveChunk κ)) e =>
        let first := (self.firstOffset e.2).getD 0
        if visited.contains e.2 then (a.1 ++ [ROp.store e.2 e.1.size first], a.2)
        else (a.1, a.2 ++ [⟨e.2, e.1.size, first⟩])) (s, c)
      = (s ++ (ov.filter (fun e => visited.contains e.2)).map (mkStore self),
         c ++ (ov.filter (fun e => !visited.contains e.2)).map (mkChild self)) := by
  induction ov generalizing s c with
  | nil => simp
  | cons e es ih =>
    simp only [List.foldl_cons]
    by_cases hv : visited.contains e.2 = true
    · simp only [hv, if_true, ih, List.filter_cons, Bool.not_true, Bool.false_eq_true, if_false]
      simp [mkStore, firstD]
    · simp only [hv, if_false, ih, List.filter_cons]
      simp [mkChild, firstD, hv]

theorem foldl_triple {α β : Type} (F : Nat → List α) (G : Nat → List β) (offs : List Nat)
    (s : List α) (c : List β) (d : List Nat) :
    offs.foldl (fun (acc : List α × List β × List Nat) t =>
        (acc.1 ++ F t, acc.2.1 ++ G t, acc.2.2 ++ [t])) (s, c, d)
      = (s ++ offs.flatMap F, c ++ offs.flatMap G, d ++ offs) := by
  induction offs generalizing s c d with
  | nil => simp
  | cons t ts ih => simp [ih]

theorem expand_eq (self newOrder : Index κ) (lay : Layout κ) (visited : List κ) (chunk : MoveChunk κ) :
    expand self newOrder lay visited chunk =
      (((clobE newOrder lay chunk.k).filter (fun e => visited.contains e.2)).map (mkStore self),
       ((clobE newOrder lay chunk.k).filter (fun e => !visited.contains e.2)).map (mkChild self),
       destsOf newOrder chunk.k) := by
  unfold expand clobE destsOf
  cases hget : newOrder.get chunk.k with
  | none => simp
  | some loc =>
    simp only [expand_inner]
    rw [foldl_triple]
    simp [List.filter_flatMap, List.map_flatMap]


/-! ### `dfsStep` by cases -/

theorem dfsStep_nil (self newOrder : Index κ) (lay : Layout κ) {s : DfsState κ} (hs : s.stack = []) :
    dfsStep self newOrder lay s = none := by
  simp [dfsStep, hs]

theorem dfsStep_expand (self newOrder : Index κ) (lay : Layout κ) {s : DfsState κ}
    {chunk : MoveChunk κ} {op : Option (ROp κ)} {rest : List (MoveChunk κ × Option (ROp κ))}
    (hs : s.stack = (chunk, op) :: rest) (hv : s.visited.contains chunk.k = false) :
    dfsStep self newOrder lay s = some
      { stack := ((((clobE newOrder lay chunk.k).filter (fun e => !(chunk.k :: s.visited).contains e.2)).map
                    (mkChild self)).map (fun c => (c, none))).reverse ++
                  (chunk, some (ROp.copy chunk.k chunk.size chunk.source (destsOf newOrder chunk.k))) :: rest
        visited := chunk.k :: s.visited
        ops := s.ops ++ ((clobE newOrder lay chunk.k).filter
                  (fun e => (chunk.k :: s.visited).contains e.2)).map (mkStore self) } := by
  simp only [dfsStep, hs, hv, expand_eq]
  simp

theorem dfsStep_pop_some (self newOrder : Index κ) (lay : Layout κ) {s : DfsState κ}
    {chunk : MoveChunk κ} {o : ROp κ} {rest : List (MoveChunk κ × Option (ROp κ))}
    (hs : s.stack = (chunk, some o) :: rest) (hv : s.visited.contains chunk.k = true) :
    dfsStep self newOrder lay s = some { s with stack := rest, ops := s.ops ++ [o] } := by
  have hv' : chunk.k ∈ s.visited := by simpa using hv
  simp [dfsStep, hs, hv']

theorem dfsStep_pop_none (self newOrder : Index κ) (lay : Layout κ) {s : DfsState κ}
    {chunk : MoveChunk κ} {rest : List (MoveChunk κ × Option (ROp κ))}
    (hs : s.stack = (chunk, none) :: rest) (hv : s.visited.contains chunk.k = true) :
    dfsStep self newOrder lay s = some { s with stack := rest } := by
  have hv' : chunk.k ∈ s.visited := by simpa using hv
  simp [dfsStep, hs, hv']

/-! ### Facts about `clobE` -/

theorem mem_clobE {newOrder : Index κ} {lay : Layout κ} {z : κ} {x : ChunkOffset × κ}
    (h : x ∈ clobE newOrder lay z) : x ∈ lay ∧ x.2 ≠ z := by
  unfold clobE at h
  split at h
  · simp at h
  · simp only [List.mem_flatMap, List.mem_filter, decide_eq_true_eq] at h
    obtain ⟨t, -, hx, hne⟩ := h
    exact ⟨mem_of_mem_overlapping hx, hne⟩

theorem clobE_length_le {newOrder : Index κ} {lay : Layout κ} {z : κ} {loc : Loc}
    (hget : newOrder.get z = some loc) :
    (clobE newOrder lay z).length ≤ loc.offsets.length * lay.length := by
  unfold clobE
  rw [hget]
  simp only
  generalize loc.offsets = offs
  induction offs with
  | nil => simp
  | cons t ts ih =>
    simp only [List.flatMap_cons, List.length_append, List.length_cons]
    have h1 : ((lay.overlapping ⟨t, loc.size⟩).filter (fun e => e.2 ≠ z)).length ≤ lay.length :=
      Nat.le_trans (List.length_filter_le _ _) (overlapping_length_le _ _)
    rw [Nat.add_mul]
    omega

theorem clobE_nil {newOrder : Index κ} {lay : Layout κ} {z : κ}
    (hget : newOrder.get z = none) : clobE newOrder lay z = [] := by
  unfold clobE; rw [hget]

/-! ### Concrete payload invariant -/

structure CInv (self newOrder : Index κ) (lay : Layout κ) (s : DfsState κ) : Prop where
  c1 : ∀ e ∈ s.stack, ∃ x ∈ lay, e.1 = mkChild self x
  c2 : ∀ c o, (c, some o) ∈ s.stack → o = ROp.copy c.k c.size c.source (destsOf newOrder c.k)
  c3 : ∀ op ∈ s.ops, ∃ x ∈ lay, op = mkStore self x ∨ op = mkCopy self newOrder x

theorem step_cinv {self newOrder : Index κ} {lay : Layout κ} {s s' : DfsState κ}
    (h : dfsStep self newOrder lay s = some s') (inv : CInv self newOrder lay s) :
    CInv self newOrder lay s' := by
  cases hs : s.stack with
  | nil => rw [dfsStep_nil _ _ _ hs] at h; simp at h
  | cons top rest =>
    obtain ⟨chunk, op⟩ := top
    cases hv : s.visited.contains chunk.k with
    | false =>
      rw [dfsStep_expand _ _ _ hs hv] at h
      simp only [Option.some.injEq] at h; subst h
      constructor
      · intro e he
        dsimp only at he
        simp only [List.mem_append, List.mem_reverse, List.mem_map, List.mem_filter,
          List.mem_cons] at he
        rcases he with ⟨c, ⟨x, ⟨hx, -⟩, rfl⟩, rfl⟩ | rfl | he
        · exact ⟨x, (mem_clobE hx).1, rfl⟩
        · exact (CInv.c1 inv) (chunk, op) (by rw [hs]; simp)
        · exact (CInv.c1 inv) _ (by rw [hs]; exact List.mem_cons_of_mem _ he)
      · intro c o hco
        dsimp only at hco
        simp only [List.mem_append, List.mem_reverse, List.mem_map, List.mem_cons] at hco
        rcases hco with ⟨c', -, h1⟩ | h1 | h1
        · simp at h1
        · simp only [Prod.mk.injEq, Option.some.injEq] at h1
          obtain ⟨rfl, rfl⟩ := h1; rfl
        · exact (CInv.c2 inv) c o (by rw [hs]; exact List.mem_cons_of_mem _ h1)
      · intro o ho
        dsimp only at ho
        simp only [List.mem_append, List.mem_map, List.mem_filter] at ho
        rcases ho with ho | ⟨x, ⟨hx, -⟩, rfl⟩
        · exact (CInv.c3 inv) o ho
        · exact ⟨x, (mem_clobE hx).1, Or.inl rfl⟩
    | true =>
      cases op with
      | some o =>
        rw [dfsStep_pop_some _ _ _ hs hv] at h
        simp only [Option.some.injEq] at h; subst h
        constructor
        · intro e he; exact (CInv.c1 inv) e (by rw [hs]; exact List.mem_cons_of_mem _ he)
        · intro c o' h1; exact (CInv.c2 inv) c o' (by rw [hs]; exact List.mem_cons_of_mem _ h1)
        · intro o' ho'
          dsimp only at ho'
          simp only [List.mem_append, List.mem_singleton] at ho'
          rcases ho' with ho' | rfl
          · exact (CInv.c3 inv) o' ho'
          · obtain ⟨x, hx, hcx⟩ := (CInv.c1 inv) (chunk, some o') (by rw [hs]; simp)
            have := (CInv.c2 inv) chunk o' (by rw [hs]; simp)
            refine ⟨x, hx, Or.inr ?_⟩
            simp only at hcx
            rw [this, hcx]; rfl
      | none =>
        rw [dfsStep_pop_none _ _ _ hs hv] at h
        simp only [Option.some.injEq] at h; subst h
        constructor
        · intro e he; exact (CInv.c1 inv) e (by rw [hs]; exact List.mem_cons_of_mem _ he)
        · intro c o' h1; exact (CInv.c2 inv) c o' (by rw [hs]; exact List.mem_cons_of_mem _ h1)
        · intro o' ho'; exact (CInv.c3 inv) o' ho'

/-! ### Simulation by the abstract machine -/

def absOp : ROp κ → Abs.Ev κ
  | .copy k _ _ _ => .copy k
  | .store k _ _ => .store k

def absSt (s : DfsState κ) : Abs.St κ :=
  { stack := s.stack.map (fun e => (e.1.k, e.2.isSome)), visited := s.visited, ops := s.ops.map absOp }

def clobK (newOrder : Index κ) (lay : Layout κ) (z : κ) : List κ := (clobE newOrder lay z).map (·.2)

theorem abs_children (self : Index κ) (l : List (ChunkOffset × κ)) (vis : List κ) :
    ((((l.filter (fun e => !vis.contains e.2)).map (mkChild self)).map
        (fun c => (c, (none : Option (ROp κ))))).reverse).map (fun e => (e.1.k, e.2.isSome))
      = (((l.map (·.2)).filter (fun y => !decide (y ∈ vis))).map (fun y => (y, false))).reverse := by
  rw [List.map_reverse]
  congr 1
  induction l with
  | nil => rfl
  | cons x xs ih =>
    by_cases hx : x.2 ∈ vis <;> simp [List.filter_cons, hx, mkChild] at ih ⊢ <;> exact ih

theorem abs_stores (self : Index κ) (l : List (ChunkOffset × κ)) (vis : List κ) :
    ((l.filter (fun e => vis.contains e.2)).map (mkStore self)).map absOp
      = ((l.map (·.2)).filter (fun y => decide (y ∈ vis))).map Abs.Ev.store := by
  induction l with
  | nil => rfl
  | cons x xs ih =>
    by_cases hx : x.2 ∈ vis <;> simp [List.filter_cons, hx, mkStore, absOp] at ih ⊢ <;> exact ih

theorem sim_step {self newOrder : Index κ} {lay : Layout κ} {s : DfsState κ}
    (inv : CInv self newOrder lay s) :
    Abs.step (clobK newOrder lay) (absSt s) = (dfsStep self newOrder lay s).map absSt := by
  cases hs : s.stack with
  | nil => rw [dfsStep_nil _ _ _ hs]; simp [Abs.step, absSt, hs]
  | cons top rest =>
    obtain ⟨chunk, op⟩ := top
    cases hv : s.visited.contains chunk.k with
    | false =>
      rw [dfsStep_expand _ _ _ hs hv]
      have hv' : chunk.k ∉ s.visited := by simpa using hv
      simp only [Abs.step, absSt, hs, List.map_cons, hv', if_false, Option.map_some,
        Option.some.injEq, Abs.St.mk.injEq, List.map_append, Option.isSome_some, clobK]
      refine ⟨?_, trivial, ?_⟩
      · rw [abs_children]
      · rw [abs_stores]
    | true =>
      have hv' : chunk.k ∈ s.visited := by simpa using hv
      cases op with
      | some o =>
        rw [dfsStep_pop_some _ _ _ hs hv]
        have := (CInv.c2 inv) chunk o (by rw [hs]; simp)
        subst this
        simp [Abs.step, absSt, hs, hv', absOp]
      | none =>
        rw [dfsStep_pop_none _ _ _ hs hv]
        simp [Abs.step, absSt, hs, hv']


/-! ### Runs -/

theorem run_cinv {self newOrder : Index κ} {lay : Layout κ} (n : Nat) {s : DfsState κ}
    (inv : CInv self newOrder lay s) : CInv self newOrder lay (dfsRun self newOrder lay n s) := by
  induction n generalizing s with
  | zero => exact inv
  | succ n ih =>
    unfold dfsRun
    split
    · exact inv
    · rename_i s' h; exact ih (step_cinv h inv)

theorem sim_run {self newOrder : Index κ} {lay : Layout κ} (n : Nat) {s : DfsState κ}
    (inv : CInv self newOrder lay s) :
    absSt (dfsRun self newOrder lay n s) = Abs.run (clobK newOrder lay) n (absSt s) := by
  induction n generalizing s with
  | zero => rfl
  | succ n ih =>
    unfold dfsRun Abs.run
    rw [sim_step inv]
    cases h : dfsStep self newOrder lay s with
    | none => rfl
    | some s' => simp only [Option.map_some]; exact ih (step_cinv h inv)

/-- The ops already emitted (by earlier trees) are carried along untouched. -/
def withPre (p : List (ROp κ)) (s : DfsState κ) : DfsState κ := { s with ops := p ++ s.ops }

theorem dfsStep_withPre (self newOrder : Index κ) (lay : Layout κ) (p : List (ROp κ)) (s : DfsState κ) :
    dfsStep self newOrder lay (withPre p s) = (dfsStep self newOrder lay s).map (withPre p) := by
  cases hs : s.stack with
  | nil =>
    rw [dfsStep_nil _ _ _ hs, dfsStep_nil _ _ _ (by simpa [withPre] using hs)]; rfl
  | cons top rest =>
    obtain ⟨chunk, op⟩ := top
    have hs' : (withPre p s).stack = (chunk, op) :: rest := by simpa [withPre] using hs
    cases hv : s.visited.contains chunk.k with
    | false =>
      have hv' : (withPre p s).visited.contains chunk.k = false := by simpa [withPre] using hv
      rw [dfsStep_expand _ _ _ hs hv, dfsStep_expand _ _ _ hs' hv']
      simp [withPre]
    | true =>
      have hv' : (withPre p s).visited.contains chunk.k = true := by simpa [withPre] using hv
      cases op with
      | some o =>
        rw [dfsStep_pop_some _ _ _ hs hv, dfsStep_pop_some _ _ _ hs' hv']
        simp [withPre]
      | none =>
        rw [dfsStep_pop_none _ _ _ hs hv, dfsStep_pop_none _ _ _ hs' hv']
        simp [withPre]

theorem dfsRun_withPre (self newOrder : Index κ) (lay : Layout κ) (p : List (ROp κ)) (n : Nat)
    (s : DfsState κ) :
    dfsRun self newOrder lay n (withPre p s) = withPre p (dfsRun self newOrder lay n s) := by
  induction n generalizing s with
  | zero => rfl
  | succ n ih =>
    unfold dfsRun
    rw [dfsStep_withPre]
    cases h : dfsStep self newOrder lay s with
    | none => rfl
    | some s' => simp only [Option.map_some]; exact ih s'

/-! ### The weight function for termination -/

theorem sum_filter_mono {α : Type} (l : List α) (p p' : α → Bool) (f : α → Nat)
    (hpp : ∀ e, p' e = true → p e = true) :
    ((l.filter p').map f).sum ≤ ((l.filter p).map f).sum := by
  induction l with
  | nil => simp
  | cons x xs ih =>
    simp only [List.filter_cons]
    cases h' : p' x with
    | true => simp only [hpp x h', if_true, List.map_cons, List.sum_cons]; omega
    | false =>
      cases h : p x with
      | true => simp only [if_true, List.map_cons, List.sum_cons]; simp; omega
      | false => simpa using ih

theorem sum_filter_drop {α : Type} (l : List α) (p p' : α → Bool) (f : α → Nat)
    (hpp : ∀ e, p' e = true → p e = true) (e0 : α) (h0 : e0 ∈ l) (hp : p e0 = true)
    (hp' : p' e0 = false) :
    ((l.filter p').map f).sum + f e0 ≤ ((l.filter p).map f).sum := by
  induction l with
  | nil => simp at h0
  | cons x xs ih =>
    rcases List.mem_cons.mp h0 with rfl | h0
    · have := sum_filter_mono xs p p' f hpp
      simp only [List.filter_cons, hp, hp', if_true, List.map_cons, List.sum_cons]
      simp; omega
    · have := ih h0
      simp only [List.filter_cons]
      cases h' : p' x with
      | true => simp only [hpp x h', if_true, List.map_cons, List.sum_cons]; omega
      | false =>
        cases h : p x with
        | true => simp only [if_true, List.map_cons, List.sum_cons]; simp; omega
        | false => simpa using this

def wgt (newOrder : Index κ) (lay : Layout κ) (vis : List κ) : Nat :=
  ((lay.filter (fun e => !vis.contains e.2)).map (fun _ => 1)).sum +
  ((newOrder.filter (fun e => !vis.contains e.1)).map (fun e => e.2.offsets.length * lay.length)).sum

theorem sum_map_one {α : Type} (l : List α) : (l.map (fun _ => 1)).sum = l.length := by
  induction l with
  | nil => rfl
  | cons x xs ih => simp [ih]; omega

theorem sum_map_mul {α : Type} (l : List α) (f : α → Nat) (c : Nat) :
    (l.map (fun e => f e * c)).sum = (l.map f).sum * c := by
  induction l with
  | nil => simp
  | cons x xs ih => simp [ih, Nat.add_mul]

theorem wgt_nil (newOrder : Index κ) (lay : Layout κ) :
    wgt newOrder lay [] = lay.length + (newOrder.map (·.2.offsets.length)).sum * lay.length := by
  have h : ∀ {α : Type} (l : List α), l.filter (fun _ => true) = l :=
    fun l => List.filter_eq_self.mpr (by simp)
  simp [wgt, sum_map_one, sum_map_mul, h]

theorem get_mem {ix : Index κ} {k : κ} {l : Loc} (h : ix.get k = some l) : (k, l) ∈ ix := by
  unfold Index.get at h
  cases hf : ix.find? (fun e => e.1 = k) with
  | none => simp [hf] at h
  | some e =>
    simp [hf] at h
    have h1 := List.mem_of_find?_eq_some hf
    have h2 := List.find?_some hf
    simp at h2
    subst h; subst h2; exact h1

theorem wgt_step (newOrder : Index κ) (lay : Layout κ) (z : κ) (hz : z ∈ lay.map (·.2))
    (vis : List κ) (hv : z ∉ vis) :
    wgt newOrder lay (z :: vis) + 1 + (clobK newOrder lay z).length ≤ wgt newOrder lay vis := by
  obtain ⟨x, hx, hxz⟩ := List.mem_map.mp hz
  have h1 := sum_filter_drop lay (fun e => !vis.contains e.2) (fun e => !(z :: vis).contains e.2)
    (fun _ => 1) (by intro e; simp) x hx (by simp [hxz, hv]) (by simp [hxz])
  unfold wgt
  simp only [clobK, List.length_map]
  cases hget : newOrder.get z with
  | none =>
    have h2 := sum_filter_mono newOrder (fun e => !vis.contains e.1) (fun e => !(z :: vis).contains e.1)
      (fun e => e.2.offsets.length * lay.length) (by intro e; simp)
    rw [clobE_nil hget]
    simp only [List.length_nil]
    omega
  | some loc =>
    have h2 := sum_filter_drop newOrder (fun e => !vis.contains e.1) (fun e => !(z :: vis).contains e.1)
      (fun e => e.2.offsets.length * lay.length) (by intro e; simp)
      (z, loc) (get_mem hget) (by simp [hv]) (by simp)
    have h3 := clobE_length_le (lay := lay) hget
    simp only at h2
    omega

/-! ### What one tree delivers -/

theorem copyKeys_abs (ops : List (ROp κ)) :
    Abs.copyKeys (ops.map absOp) = (ops.filter isCopy).map opKey := by
  induction ops with
  | nil => rfl
  | cons x xs ih => cases x <;> simp [absOp, Abs.copyKeys, isCopy, opKey, List.filter_cons, ih]

theorem key_of_abs_mem {ops : List (ROp κ)} {y : κ}
    (h : Abs.Ev.store y ∈ ops.map absOp ∨ Abs.Ev.copy y ∈ ops.map absOp) :
    ∃ op ∈ ops, opKey op = y := by
  rcases h with h | h <;>
  · obtain ⟨op, hop, he⟩ := List.mem_map.mp h
    refine ⟨op, hop, ?_⟩
    cases op <;> simp [absOp, opKey] at he ⊢ <;> exact he

theorem dfs_tree (self newOrder : Index κ) (lay : Layout κ) (root : MoveChunk κ)
    (ops0 : List (ROp κ)) (n : Nat)
    (hroot : ∃ x ∈ lay, root = mkChild self x)
    (hn : 1 + 2 * (lay.length + (newOrder.map (·.2.offsets.length)).sum * lay.length) ≤ n) :
    ∃ new vis, (dfsRun self newOrder lay n ⟨[(root, none)], [], ops0⟩).ops = ops0 ++ new ∧
      (dfsRun self newOrder lay n ⟨[(root, none)], [], ops0⟩).visited = vis ∧
      ((new.filter isCopy).map opKey).Nodup ∧
      (∀ k, k ∈ (new.filter isCopy).map opKey ↔ k ∈ vis) ∧
      root.k ∈ vis ∧
      (∀ k ∈ vis, ∃ x ∈ lay, x.2 = k) ∧
      (∀ op ∈ new, ∃ x ∈ lay, op = mkStore self x ∨ op = mkCopy self newOrder x) ∧
      (∀ pre z sz src d post, new = pre ++ ROp.copy z sz src d :: post →
          ∀ x ∈ clobE newOrder lay z, ∃ op ∈ pre, opKey op = x.2) := by
  let s0 : DfsState κ := ⟨[(root, none)], [], []⟩
  have hs0 : (⟨[(root, none)], [], ops0⟩ : DfsState κ) = withPre ops0 s0 := by simp [withPre, s0]
  rw [hs0, dfsRun_withPre]
  have hc0 : CInv self newOrder lay s0 := by
    constructor
    · intro e he
      simp [s0] at he; subst he; exact hroot
    · intro c o h; simp [s0] at h
    · intro o h; simp [s0] at h
  have hcf := run_cinv n hc0
  have hsim := sim_run n hc0
  have habs0 : absSt s0 = { stack := [(root.k, false)], visited := [], ops := [] } := by
    simp [absSt, s0]
  rw [habs0] at hsim
  have hrootU : root.k ∈ lay.map (·.2) := by
    obtain ⟨x, hx, rfl⟩ := hroot
    exact List.mem_map.mpr ⟨x, hx, rfl⟩
  have hfin := Abs.run_final (clobK newOrder lay) (lay.map (·.2)) root.k (wgt newOrder lay)
    (by intro z hz
        obtain ⟨x, hx, hxz⟩ := List.mem_map.mp hz
        exact (mem_clobE hx).2 hxz)
    (by intro z y hy
        obtain ⟨x, hx, hxz⟩ := List.mem_map.mp hy
        exact List.mem_map.mpr ⟨x, (mem_clobE hx).1, hxz⟩)
    (fun z hz vis hv => wgt_step newOrder lay z hz vis hv)
    hrootU n (by rw [wgt_nil]; exact hn)
  simp only at hfin
  rw [← hsim] at hfin
  obtain ⟨-, hord, hnd, hck, hrt, hvU⟩ := hfin
  generalize dfsRun self newOrder lay n s0 = fin at *
  simp only [absSt] at hord hnd hck hrt hvU
  rw [copyKeys_abs] at hnd hck
  refine ⟨fin.ops, fin.visited, rfl, rfl, hnd, hck, hrt, ?_, (CInv.c3 hcf), ?_⟩
  · intro k hk
    obtain ⟨x, hx, hxk⟩ := List.mem_map.mp (hvU k hk)
    exact ⟨x, hx, hxk⟩
  · intro pre z sz src d post hdec x hx
    have := hord (pre.map absOp) z (post.map absOp) (by rw [hdec]; simp [absOp]) x.2
      (List.mem_map.mpr ⟨x, hx, rfl⟩)
    exact key_of_abs_mem this

end Bita.Proofs.Planner
