import Bita.Proofs.HttpSafeDrain

namespace Bita.Proofs
open Bita Bita.Spec

/-- A request is open inside the run `c :: r`: bytes buffered + bytes still requested = bytes of
the remaining run, and the adjacency counter is the number of remaining chunks of the run. -/
inductive Open : CR → Prop
  | mk (c : ChunkOffset) (r rest : List ChunkOffset) (buf : Bytes) (off size rl : Nat) :
      (∀ x ∈ c :: r, 1 ≤ x.size) → (∀ x ∈ rest, 1 ≤ x.size) →
      buf.length + size = total (c :: r) →
      Open ⟨c :: (r ++ rest), buf, r.length + 1, some (off, size, rl)⟩

/-- A body frame is clipped to what is still requested - *because* the truncation is in the
source (`Gen.httpFragmentClipped`, F8.h repair). -/
theorem clipFrag_length (size : Nat) (f : Bytes) : (clipFrag size f).length ≤ size := by
  unfold clipFrag
  have hfact : Gen.httpFragmentClipped = true := by decide
  split
  · simp; omega
  · rename_i h
    have : ¬ size < f.length := fun hlt => h ⟨hfact, hlt⟩
    omega

theorem feed_safe : ∀ (fs : List Bytes) (st : CR), Open st →
    (∃ its rest, CR.feed fs st = .runDone its ⟨rest, [], 0, none⟩ ∧ Item.panic ∉ its ∧
      ∀ x ∈ rest, 1 ≤ x.size) ∨
    (∃ its st2, CR.feed fs st = .bodyDone its st2 ∧ Item.panic ∉ its ∧ Open st2) := by
  intro fs
  induction fs with
  | nil => intro st ho; exact Or.inr ⟨[], st, by simp [CR.feed], by simp, ho⟩
  | cons f fs ih =>
    intro st ho
    cases ho with
    | mk c r rest buf off size rl hs hrest hb =>
      have hf := clipFrag_length size f
      have hlen : (buf ++ clipFrag size f).length ≤ total (c :: r) := by
        simp only [List.length_append]; omega
      have hl : (buf ++ clipFrag size f).length = buf.length + (clipFrag size f).length := by simp
      have hA : ∀ a b : Nat,
          a + total (c :: r) = b + (buf.length + (clipFrag size f).length) →
          a + (size - (clipFrag size f).length) = b := by omega
      obtain ⟨its, st', hd, hp, hcase⟩ := drain_safe rest hrest
        (off + (clipFrag size f).length, size - (clipFrag size f).length, rl) r c
        (buf ++ clipFrag size f) hs hlen
      rw [List.length_cons] at hd
      rw [CR.feed]
      dsimp only
      rw [hd]
      dsimp only
      rcases hcase with ⟨_, h2⟩ | ⟨_, c', r', buf', h2, h3, h4⟩
      · subst h2
        exact Or.inl ⟨its, rest, by simp, hp, hrest⟩
      · subst h2
        rw [hl] at h4
        have ho' : Open ⟨c' :: (r' ++ rest), buf', (c' :: r').length,
            some (off + (clipFrag size f).length, size - (clipFrag size f).length, rl)⟩ :=
          Open.mk c' r' rest buf' _ _ rl h3 hrest (hA _ _ h4)
        rcases ih _ ho' with ⟨its2, rest2, e, hp2, hr2⟩ | ⟨its2, st2, e, hp2, ho2⟩
        · refine Or.inl ⟨its ++ its2, rest2, ?_, by simp [hp, hp2], hr2⟩
          simp only [List.length_cons] at e
          simp [e]
        · refine Or.inr ⟨its ++ its2, st2, ?_, by simp [hp, hp2], ho2⟩
          simp only [List.length_cons] at e
          simp [e]

end Bita.Proofs
