/-
  C01 at the level of the command line and the file system: `bita compress` of an input file
  followed by `bita clone` of the archive it left, composed from `compress_leaves_only_archive`
  (CliFs), `createArchive_conforms` (Writer) and `clone_complete_nojunk` (CloneNoJunk).
-/
import Bita.Proofs.CliFs
import Bita.Proofs.Writer
import Bita.Proofs.CloneSound
import Bita.Proofs.CloneNoJunk

namespace Bita.Proofs
open Bita Bita.Proto Bita.Spec Bita.Gen

/-- Opening a missing path with `create` or `create_new` creates an empty regular file. -/
theorem fs_openOut_absent (fs : Fs) (p : String) (f : OpenFlags) (h : fs.get p = none)
    (hc : f.create = true ∨ f.createNew = true) :
    fs.openOut p f = some (fs.set p (.regular [])) := by
  unfold Fs.openOut
  rw [h]
  dsimp only
  rw [if_pos hc]

/-- Opening an existing path without `create_new` and without `truncate` changes nothing. -/
theorem fs_openOut_present (fs : Fs) (p : String) (f : OpenFlags) (n : Node) (h : fs.get p = some n)
    (hcn : f.createNew = false) (htr : f.truncate = false) : fs.openOut p f = some fs := by
  unfold Fs.openOut
  rw [h]
  simp [hcn, htr]

/-- `compress` of an existing input into a new archive path, the temp path being free, succeeds
(the input is looked up after the output was opened). -/
theorem compress_ok (H : Bytes → Bytes) (comp : Bytes → Bytes) (c : CompressCmd) (fs : Fs) (inode : Node)
    (hin : fs.get c.input = some inode) (hnew : fs.get c.output = none) (htmp : fs.get c.temp = none)
    (hdistinct : c.temp ≠ c.output ∧ c.input ≠ c.output ∧ c.input ≠ c.temp) :
    (Cli.compress H comp c fs).ok = true := by
  obtain ⟨hto, hio, _⟩ := hdistinct
  unfold Cli.compress
  rw [compressOpen_flags, tempOpen_flags]
  dsimp only
  have ho : fs.openOut c.output (compressFlags c.flags) = some (fs.set c.output (.regular [])) := by
    apply fs_openOut_absent fs _ _ hnew
    unfold compressFlags
    cases c.flags.force <;> simp
  rw [ho]
  dsimp only
  rw [fs_set_get_ne fs c.output c.input _ hio, hin]
  dsimp only
  have ht : (fs.set c.output (.regular [])).openOut c.temp tempFlags =
      some ((fs.set c.output (.regular [])).set c.temp (.regular [])) := by
    apply fs_openOut_absent
    · rw [fs_set_get_ne fs c.output c.temp _ hto, htmp]
    · exact .inl rfl
  rw [ht]

/-- `Cli.clone` once the output is open and is a regular file holding `d`, all seed files being
there: the result is the one of `Clone.run` over the archive bytes with prior output `d`. -/
theorem cliCloneRun_regular (H : Bytes → Bytes) (decomp : Nat → Bytes → Nat → Option Bytes) (c : CloneCmd)
    (fs1 : Fs) (archive : Bytes) (a : Archive) (ops1 : List FsOp) (d : Bytes)
    (hseeds : ∀ p ∈ c.seedPaths, (fs1.get p).isSome) :
    let r := Clone.run H decomp [] (honestReadAt archive) (honestReadChunks archive)
      { seedOutput := c.flags.seedOutput, verifyOutput := c.flags.verifyOutput, headerPin := c.pin,
        blockDev := false } d (c.seedPaths.filterMap fun p => (fs1.get p).map (·.data))
    (cliCloneRun H decomp c fs1 archive a ops1 (.regular d)).ok = decide (r.result = .ok) ∧
      (cliCloneRun H decomp c fs1 archive a ops1 (.regular d)).fs = fs1.set c.output (.regular r.output) := by
  have hany : c.seedPaths.any (fun p => (fs1.get p).isNone) = false := by
    rw [List.any_eq_false]
    intro p hp
    have := hseeds p hp
    cases hg : fs1.get p with
    | none => rw [hg] at this; cases this
    | some x => simp
  unfold cliCloneRun
  simp only [hany, Bool.false_and, Bool.false_eq_true, if_false, nodeIsDev]
  exact ⟨rfl, rfl⟩

/-- **Clone of a conforming archive, at the level of the file system.**  The archive file holds
bytes that open to `a`, describe `src` and store its chunks; the output does not exist, or is a
regular file and `--force-create` / `--seed-output` is given; every seed path exists (or is the
output path, which exists once opened); no `--verify-header`.  Then the clone succeeds and leaves
`src` in the output - or a collision of the truncated strong hash with a genuine source chunk is
exhibited (colliding junk chunks in the prior output are irrelevant: `reorderOps_keep`). -/
theorem clone_conforming_fs (H : Bytes → Bytes) (hH : ∀ x, (H x).length = 64)
    (decomp : Nat → Bytes → Nat → Option Bytes) (kc : CloneCmd) (fs1 : Fs) (an : Node)
    (a : Archive) (src : Bytes) (cks : List Bytes)
    (harch : fs1.get kc.archivePath = some an)
    (hinit : tryInit H [] (honestReadAt an.data) = .ok a) (hd : Describes H a src cks)
    (hs : Stored H decomp a an.data) (hpin : kc.pin = none)
    (hout : fs1.get kc.output = none ∨
      ((kc.flags.force = true ∨ kc.flags.seedOutput = true) ∧ ∃ d, fs1.get kc.output = some (.regular d)))
    (hseeds : ∀ p ∈ kc.seedPaths, (fs1.get p).isSome ∨ p = kc.output) :
    ((Cli.clone H decomp kc fs1).ok = true ∧
        (Cli.clone H decomp kc fs1).fs.get kc.output = some (.regular src)) ∨
      Collision H a.hashLength cks := by
  -- the open of the output
  have hopen : ∃ fs2 d, fs1.openOut kc.output (cloneFlags kc.flags) = some fs2 ∧
      fs2.get kc.output = some (.regular d) := by
    rcases hout with hnone | ⟨hflag, d, hd'⟩
    · refine ⟨fs1.set kc.output (.regular []), [], ?_, fs_set_get_same _ _ _⟩
      apply fs_openOut_absent fs1 _ _ hnone
      unfold cloneFlags
      cases kc.flags.force <;> cases kc.flags.seedOutput <;> simp
    · refine ⟨fs1, d, ?_, hd'⟩
      apply fs_openOut_present fs1 _ _ _ hd'
      · unfold cloneFlags
        rcases hflag with h | h <;> simp [h]
      · rfl
  obtain ⟨fs2, d, ho, hget⟩ := hopen
  have hseeds2 : ∀ p ∈ kc.seedPaths, (fs2.get p).isSome := by
    intro p hp
    by_cases hpo : p = kc.output
    · rw [hpo, hget]; rfl
    · rw [fs_openOut_get_ne fs1 fs2 kc.output p _ ho hpo]
      rcases hseeds p hp with h | h
      · exact h
      · exact absurd h hpo
  have hpinbad : cliPinBad kc a = false := by
    unfold cliPinBad
    rw [hpin]
  have hclone : Cli.clone H decomp kc fs1 =
      cliCloneRun H decomp kc fs2 an.data a
        ([FsOp.openRead kc.archivePath] ++ [FsOp.openWrite kc.output (cloneFlags kc.flags).describe])
        (.regular d) := by
    rw [cli_clone_eq]
    simp only [harch, hinit, hpinbad, Bool.false_eq_true, if_false]
    unfold cliCloneOpen
    simp only [ho, hget]
  obtain ⟨hrok, hrfs⟩ := cliCloneRun_regular H decomp kc fs2 an.data a
    ([FsOp.openRead kc.archivePath] ++ [FsOp.openWrite kc.output (cloneFlags kc.flags).describe]) d hseeds2
  have hcomp := clone_complete_nojunk H hH decomp [] an.data
    { seedOutput := kc.flags.seedOutput, verifyOutput := kc.flags.verifyOutput, headerPin := kc.pin,
      blockDev := false } d (kc.seedPaths.filterMap fun p => (fs2.get p).map (·.data))
    a src cks hinit hd hs
    (by intro pin hp; rw [hpin] at hp; cases hp) (by intro h; cases h)
  rcases hcomp with ⟨hok, _, hsrc⟩ | hcoll
  · left
    rw [hclone, hrok, hrfs, hsrc rfl, fs_set_get_same]
    exact ⟨by simpa using hok, rfl⟩
  · exact .inr hcoll

/-- **CLI round trip.**  In any file system where the input exists, the archive and temp paths do
not, and the clone's output does not exist (or is a regular file and `--force-create` /
`--seed-output` is given): `compress` succeeds; `clone` of the archive it left - with any seed
files that exist, any of the clone options - succeeds, leaves exactly the source in the output
and changes no other path; or a hash collision among the chunks of the source is exhibited
(chunks of a prior output that collide with no source chunk are irrelevant). -/
theorem cli_roundtrip (H : Bytes → Bytes) (hH : ∀ x, (H x).length = 64)
    (comp : Bytes → Bytes) (decomp : Nat → Bytes → Nat → Option Bytes) (hcodec : CodecOK comp decomp)
    (hne : ∀ x, x ≠ [] → comp x ≠ [])
    (cc : CompressCmd) (kc : CloneCmd) (fs : Fs) (inode : Node)
    (hfacts : FactsAsExpected) (hflush : cliTempFlushedBeforeReturn = true)
    (ho : OptsOK cc.opts)
    (hin : fs.get cc.input = some inode)
    (hnew : fs.get cc.output = none) (htmp : fs.get cc.temp = none)
    (hdistinct : cc.temp ≠ cc.output ∧ cc.input ≠ cc.output ∧ cc.input ≠ cc.temp)
    (hfit : (createArchive H "cli" comp cc.opts inode.data).length < 2 ^ 63)
    (hsrc : inode.data.length < 2 ^ 64) (hcnt : (chunkAll cc.opts.cfg inode.data).length ≤ 2 ^ 32)
    -- the clone
    (harch : kc.archivePath = cc.output) (hko : kc.output ≠ cc.output)
    (hout : fs.get kc.output = none ∨
      ((kc.flags.force = true ∨ kc.flags.seedOutput = true) ∧ ∃ d, fs.get kc.output = some (.regular d)))
    (hpin : kc.pin = none)
    (hseeds : ∀ p ∈ kc.seedPaths, (fs.get p).isSome ∨ p = cc.output) :
    let r1 := Cli.compress H comp cc fs
    let r2 := Cli.clone H decomp kc r1.fs
    r1.ok = true ∧
    ((r2.ok = true ∧ r2.fs.get kc.output = some (.regular inode.data) ∧
        (∀ p, p ≠ kc.output → p ≠ cc.output → r2.fs.get p = fs.get p)) ∨
      (∃ c1 ∈ chunkAll cc.opts.cfg inode.data, ∃ c2 ∈ chunkAll cc.opts.cfg inode.data,
        slice inode.data c1.1 c1.2 ≠ slice inode.data c2.1 c2.2 ∧
        H (slice inode.data c1.1 c1.2) = H (slice inode.data c2.1 c2.2)) ∨
      (∃ (a : Archive) (cks : List Bytes), Collision H a.hashLength cks ∧ inode.data = cks.flatten)) := by
  intro r1 r2
  obtain ⟨hto, hio, hit⟩ := hdistinct
  have hok1 : r1.ok = true := compress_ok H comp cc fs inode hin hnew htmp ⟨hto, hio, hit⟩
  refine ⟨hok1, ?_⟩
  obtain ⟨hframe, src, hsrceq, harchive⟩ :=
    compress_leaves_only_archive H comp cc fs htmp ⟨hto, hio, hit⟩ hflush hok1
  rw [hin] at hsrceq
  simp only [Option.map_some, Option.some.injEq] at hsrceq
  subst hsrceq
  have _ := hfacts  -- the facts read from the source fix the subject (step order, open calls); not needed here
  rcases createArchive_conforms H hH "cli" (.inr rfl) comp decomp hcodec hne cc.opts ho inode.data
    hfit hsrc hcnt with hc | hcol
  · obtain ⟨a, cks, hinit, hd, hs⟩ := hc
    have hout1 : r1.fs.get kc.output = fs.get kc.output := hframe kc.output hko
    have h := clone_conforming_fs H hH decomp kc r1.fs
      (.regular (createArchive H "cli" comp cc.opts inode.data)) a inode.data cks
      (by rw [harch]; exact harchive) hinit hd hs hpin
      (by rw [hout1]; exact hout)
      (by
        intro p hp
        by_cases hpa : p = cc.output
        · left; rw [hpa, harchive]; rfl
        · left
          rw [hframe p hpa]
          rcases hseeds p hp with h | h
          · exact h
          · exact absurd h hpa)
    rcases h with ⟨hok2, hget2⟩ | hcoll
    · refine .inl ⟨hok2, hget2, fun p hp1 hp2 => ?_⟩
      show (Cli.clone H decomp kc r1.fs).fs.get p = fs.get p
      rw [clone_fs_confined H decomp kc r1.fs p hp1, hframe p hp2]
    · exact .inr (.inr ⟨a, cks, hcoll, hd.tiles⟩)
  · exact .inr (.inl hcol)

end Bita.Proofs

