import Bita.Proofs.HttpTop

namespace Bita.Proofs
open Bita Bita.Spec

theorem drain_safe (rest : List ChunkOffset) (hrest : ∀ c ∈ rest, 1 ≤ c.size)
    (q : Nat × Nat × Nat) :
    ∀ (r : List ChunkOffset) (c : ChunkOffset) (buf : Bytes),
      (∀ x ∈ c :: r, 1 ≤ x.size) → buf.length ≤ total (c :: r) →
      ∃ its st', CR.drain (c :: (r ++ rest)) buf (c :: r).length (some q) = (its, st', false) ∧
        Item.panic ∉ its ∧
        ((buf.length = total (c :: r) ∧ st' = ⟨rest, [], 0, none⟩) ∨
         (buf.length < total (c :: r) ∧ ∃ c' r' buf',
            st' = ⟨c' :: (r' ++ rest), buf', (c' :: r').length, some q⟩ ∧
            (∀ x ∈ c' :: r', 1 ≤ x.size) ∧
            buf'.length + total (c :: r) = total (c' :: r') + buf.length)) := by
  intro r
  induction r with
  | nil =>
    intro c buf hs hb
    have htot : total [c] = c.size := by simp [total]
    have hc1 := hs c (by simp)
    by_cases hcb : c.size ≤ buf.length
    · refine ⟨[Item.chunk (buf.take c.size)], ⟨rest, [], 0, none⟩, ?_, by simp, Or.inl ⟨by omega, rfl⟩⟩
      rw [CR.drain, if_pos hcb]
      have hdrop : buf.drop c.size = [] := by
        apply List.drop_eq_nil_of_le; omega
      simp [hdrop, drain_nil_buf rest hrest]
    · refine ⟨[], ⟨c :: ([] ++ rest), buf, [c].length, some q⟩, ?_, by simp,
        Or.inr ⟨by omega, c, [], buf, rfl, hs, by omega⟩⟩
      rw [CR.drain, if_neg hcb]
  | cons d r ih =>
    intro c buf hs hb
    have htot : total (c :: d :: r) = c.size + total (d :: r) := rfl
    have hs2 : ∀ x ∈ d :: r, 1 ≤ x.size := fun x hx => hs x (List.mem_cons_of_mem _ hx)
    by_cases hcb : c.size ≤ buf.length
    · have hb' : (buf.drop c.size).length ≤ total (d :: r) := by simp; omega
      have hl : (buf.drop c.size).length = buf.length - c.size := by simp
      have hA : buf.length - c.size = total (d :: r) → buf.length = total (c :: d :: r) := by omega
      have hB : buf.length - c.size < total (d :: r) → buf.length < total (c :: d :: r) := by omega
      have hC : ∀ a b : Nat, a + total (d :: r) = b + (buf.length - c.size) →
          a + total (c :: d :: r) = b + buf.length := by omega
      obtain ⟨its, st', hd, hp, hcase⟩ := ih d (buf.drop c.size) hs2 hb'
      refine ⟨Item.chunk (buf.take c.size) :: its, st', ?_, by simp [hp], ?_⟩
      · rw [CR.drain, if_pos hcb]
        simp only [List.length_cons, Nat.add_sub_cancel] at hd ⊢
        rw [if_neg (by omega), if_neg (by omega)]
        simp only [List.cons_append] at hd ⊢
        rw [hd]
      · rw [hl] at hcase
        rcases hcase with ⟨h1, h2⟩ | ⟨h1, c', r', buf', h2, h3, h4⟩
        · exact Or.inl ⟨hA h1, h2⟩
        · exact Or.inr ⟨hB h1, c', r', buf', h2, h3, hC _ _ h4⟩
    · refine ⟨[], ⟨c :: ((d :: r) ++ rest), buf, (c :: d :: r).length, some q⟩, ?_, by simp,
        Or.inr ⟨by have := hs c (by simp); omega, c, d :: r, buf, rfl, hs, by omega⟩⟩
      rw [CR.drain, if_neg hcb]

end Bita.Proofs
