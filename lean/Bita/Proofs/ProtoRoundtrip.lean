/-
  prost encoding followed by prost decoding is the identity on well-formed dictionaries (C11 T2).
-/
import Bita.Model.Proto
import Bita.Spec.ArchiveSpec

namespace Bita.Proofs
open Bita Bita.Proto Bita.Spec

theorem varint_roundtrip (n : Nat) (hn : n < 2 ^ 64) (rest : Bytes) :
    decodeVarint (encodeVarint n ++ rest) = some (n, rest) := by
  sorry

theorem proto_roundtrip (d : ChunkDictionary) (hwf : DictWF d) :
    decodeDictionary (encodeDictionary d) = some d := by
  sorry

end Bita.Proofs
