/-
  prost encoding followed by prost decoding is the identity on well-formed dictionaries (C11 T2).
-/
import Bita.Model.Proto
import Bita.Spec.ArchiveSpec
import Bita.Proofs.ProtoDict

namespace Bita.Proofs
open Bita Bita.Proto Bita.Spec

theorem varint_roundtrip (n : Nat) (hn : n < 2 ^ 64) (rest : Bytes) :
    decodeVarint (encodeVarint n ++ rest) = some (n, rest) :=
  decodeVarint_encode n hn rest

/-- Merging the fields of an encoded well-formed dictionary into the default value gives the
dictionary back. -/
theorem merge_dictFields (d : ChunkDictionary) (hwf : DictWF d) (hl : ProtoLenOK d) :
    mergeDictionary (dictFields d) {} = some d := by
  obtain ⟨hver, -, hpar, hcompr, horder, hdescr, hutf, hsorted, -⟩ := hwf
  obtain ⟨-, -, -, -, -, hdl, hml⟩ := hl
  obtain ⟨ver, ck, tot, po, co, ns, cs, ms⟩ := d
  simp only at hver hpar hcompr horder hdescr hutf hsorted hdl hml
  simp only [dictFields, mergeDictionary_append]
  rw [mergeDictionary_version _ _ rfl hver, Option.bind_some,
    mergeDictionary_checksum _ _ rfl, Option.bind_some,
    mergeDictionary_total _ _ rfl, Option.bind_some,
    mergeDictionary_params _ _ rfl (fun p hp => by
      obtain ⟨h1, h2, h3, h4, h5, h6⟩ := hpar p hp; exact ⟨h1, h2, h3, h4, h5, h6⟩),
    Option.bind_some,
    mergeDictionary_compr _ _ rfl hcompr, Option.bind_some,
    mergeDictionary_order _ _ rfl horder, Option.bind_some,
    mergeDictionary_descrs _ _ (fun c hc => ⟨hdl c hc, hdescr c hc⟩), Option.bind_some,
    mergeDictionary_metas _ _ (fun e he => ⟨hml e he, hutf e he⟩) (by simpa using hsorted)]
  simp

/-- The roundtrip under explicit bounds on the length prefixes. -/
theorem proto_roundtrip_of_lenOK (d : ChunkDictionary) (hwf : DictWF d) (hl : ProtoLenOK d) :
    decodeDictionary (encodeDictionary d) = some d := by
  unfold decodeDictionary
  rw [(parsesTo_encodeDictionary d hwf.total hl).parse_eq, Option.bind_some]
  exact merge_dictFields d hwf hl

theorem proto_roundtrip (d : ChunkDictionary) (hwf : DictWF d) :
    decodeDictionary (encodeDictionary d) = some d :=
  proto_roundtrip_of_lenOK d hwf (protoLenOK_of_size d hwf.size)

end Bita.Proofs
