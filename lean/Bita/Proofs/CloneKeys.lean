/-
  Keys (truncated strong hashes) and the content function of a clone: unless a collision is
  exhibited, every key that occurs identifies one byte string.
-/
import Bita.Model.Clone
import Bita.Spec.ArchiveSpec

namespace Bita.Proofs
open Bita Bita.Spec

/-- The key of a chunk: its strong hash truncated to the archive's hash length. -/
abbrev ckey (H : Bytes → Bytes) (hl : Nat) (x : Bytes) : Bytes := hashTruncate (H x) hl

theorem length_hashTruncate (h : Bytes) (n : Nat) : (hashTruncate h n).length = min n h.length := by
  unfold hashTruncate
  split
  · rw [List.length_take]
  · omega

theorem hashTruncate_of_le (h : Bytes) (n : Nat) (hn : h.length ≤ n) : hashTruncate h n = h := by
  unfold hashTruncate
  rw [if_neg (by omega)]

theorem hashTruncate_idem (h : Bytes) (n : Nat) : hashTruncate (hashTruncate h n) n = hashTruncate h n :=
  hashTruncate_of_le _ _ (by rw [length_hashTruncate]; omega)

theorem length_ckey (H : Bytes → Bytes) (hH : ∀ x, (H x).length = 64) (hl : Nat) (h : hl ≤ 64)
    (x : Bytes) : (ckey H hl x).length = hl := by
  rw [ckey, length_hashTruncate, hH]; omega

/-- The chunks the archive's chunker cuts a byte string into. -/
def chunksOf (cfg : Config) (data : Bytes) : List Bytes :=
  (chunkAll cfg data).map fun c => slice data c.1 c.2

theorem chunkKeys_eq (H : Bytes → Bytes) (cfg : Config) (hl : Nat) (data : Bytes) :
    chunkKeys H cfg hl data = (chunksOf cfg data).map (ckey H hl) := by
  simp [chunkKeys, chunksOf, List.map_map, Function.comp_def]

/-- The byte string a key stands for: the first listed chunk with that key. -/
def contentOf (key : Bytes → Bytes) (cs : List Bytes) (k : Bytes) : Bytes :=
  (cs.find? (fun c => key c = k)).getD []

theorem contentOf_key (key : Bytes → Bytes) (cs : List Bytes)
    (hinj : ∀ c1 ∈ cs, ∀ c2 ∈ cs, key c1 = key c2 → c1 = c2) :
    ∀ c ∈ cs, contentOf key cs (key c) = c := by
  intro c hc
  unfold contentOf
  cases h : cs.find? (fun c' => key c' = key c) with
  | none =>
    have := List.find?_eq_none.1 h c hc
    simp at this
  | some c' =>
    have h1 := List.mem_of_find?_eq_some h
    have h2 := List.find?_some h
    simp only [decide_eq_true_eq] at h2
    simpa using hinj c' h1 c hc h2

/-- No collision: keys are injective on the source chunks together with the chunks of the
prior output. -/
theorem inj_of_no_collision (H : Bytes → Bytes) (hl : Nat) (cks pcs : List Bytes)
    (hc : ¬ Collision H hl cks)
    (hself : ∀ c1 ∈ pcs, ∀ c2 ∈ pcs, ckey H hl c1 = ckey H hl c2 → c1 = c2) :
    ∀ c1 ∈ cks ++ pcs, ∀ c2 ∈ cks ++ pcs, ckey H hl c1 = ckey H hl c2 → c1 = c2 := by
  intro c1 h1 c2 h2 hk
  apply Classical.byContradiction
  intro hne
  rcases List.mem_append.1 h1 with h1 | h1
  · exact hc ⟨c2, c1, h1, fun h => hne h.symm, hk.symm⟩
  · rcases List.mem_append.1 h2 with h2 | h2
    · exact hc ⟨c1, c2, h2, hne, hk⟩
    · exact hne (hself c1 h1 c2 h2 hk)

theorem self_inj_of_no_selfCollision (H : Bytes → Bytes) (hl : Nat) (cfg : Config) (data : Bytes)
    (hs : ¬ SelfCollision H hl cfg data) :
    ∀ c1 ∈ chunksOf cfg data, ∀ c2 ∈ chunksOf cfg data, ckey H hl c1 = ckey H hl c2 → c1 = c2 := by
  intro c1 h1 c2 h2 hk
  apply Classical.byContradiction
  intro hne
  obtain ⟨d1, hd1, rfl⟩ := List.mem_map.1 h1
  obtain ⟨d2, hd2, rfl⟩ := List.mem_map.1 h2
  exact hs ⟨d1, hd1, d2, hd2, hne, hk⟩

/-- No collision: any byte string with the key of a source chunk is that chunk. -/
theorem good_of_no_collision (H : Bytes → Bytes) (hl : Nat) (cks : List Bytes)
    (hc : ¬ Collision H hl cks) :
    ∀ y ∈ cks, ∀ x, ckey H hl x = ckey H hl y → x = y := by
  intro y hy x hk
  apply Classical.byContradiction
  intro hne
  exact hc ⟨x, y, hy, hne, hk⟩

end Bita.Proofs
