/-
  What the archive writers produce (C01 T1, C11 T1/T3): layout, descriptor invariants, and that the
  produced bytes are a conforming archive of the source.
-/
import Bita.Model.Compress
import Bita.Spec.ArchiveSpec
import Bita.Spec.Tiling
import Bita.Proofs.TryInit
import Bita.Proofs.ChunkRule
import Bita.Proofs.SpecChunks

namespace Bita.Proofs
open Bita Bita.Proto Bita.Spec

/-- The codec contract assumed for round trips (brotli/zstd/lzma are not modelled). -/
def CodecOK (comp : Bytes → Bytes) (decomp : Nat → Bytes → Nat → Option Bytes) : Prop :=
  ∀ algo x, decomp algo (comp x) x.length = some x

/-- Options a compress run accepts ("valid configuration" of C01). -/
structure OptsOK (o : CompressOpts) : Prop where
  valid : o.cfg.Valid
  accepted : configAccepted o.cfg = true
  u32 : match o.cfg with
    | .buzhash f | .rollsum f => f.maxSize < 2 ^ 32 ∧ f.minSize < 2 ^ 32 ∧ f.window < 2 ^ 32
    | .fixed n => n < 2 ^ 32
  hash_len : 1 ≤ o.hashLen ∧ o.hashLen ≤ 64
  compr : o.compression = none ∨ ∃ l, l < 2 ^ 32 ∧ o.compression = some (Gen.enum_CompressionType_BROTLI, l)
  meta_utf8 : ∀ e ∈ o.metadata, utf8Valid e.1 = true
  meta_sorted : o.metadata.Pairwise (fun a b => (a.1.map (·.toNat)) < (b.1.map (·.toNat)))

/-- Sum of the first `i` stored sizes. -/
def runningOffset (ds : List ChunkDescriptor) (i : Nat) : Nat := ((ds.take i).map (·.archiveSize)).sum

/-- **Layout** (C11): the archive is the header followed by the stored chunks; the header's
chunk-data offset is the header length; the file ends exactly at the end of the last stored
chunk; descriptors are back-to-back in order, stored size never exceeds source size; rebuild
indexes are valid and their chunk sizes sum to the source size; the options are recorded
verbatim.  For both writers, every source, every configuration (`hinj`: no two different source
chunks with the same full strong hash - the dedup table is keyed by the hash). -/
theorem writer_invariants (H : Bytes → Bytes) (writer : String) (hw : writer = "lib" ∨ writer = "cli")
    (comp : Bytes → Bytes) (o : CompressOpts) (hv : o.cfg.Valid) (src : Bytes)
    (hinj : ∀ c1 ∈ chunkAll o.cfg src, ∀ c2 ∈ chunkAll o.cfg src,
      H (slice src c1.1 c1.2) = H (slice src c2.1 c2.2) → slice src c1.1 c1.2 = slice src c2.1 c2.2) :
    let dict := (dictionaryOf H writer comp o src).1
    let stored := (dictionaryOf H writer comp o src).2
    let hdr := buildHeader H dict none
    createArchive H writer comp o src = hdr ++ stored.flatten ∧
    (createArchive H writer comp o src).length = hdr.length + (dict.chunkDescriptors.map (·.archiveSize)).sum ∧
    dict.chunkDescriptors.length = stored.length ∧
    (∀ i (hi : i < dict.chunkDescriptors.length),
      dict.chunkDescriptors[i].archiveOffset = runningOffset dict.chunkDescriptors i ∧
      dict.chunkDescriptors[i].archiveSize ≤ dict.chunkDescriptors[i].sourceSize ∧
      1 ≤ dict.chunkDescriptors[i].sourceSize) ∧
    (∀ i ∈ dict.rebuildOrder, i < dict.chunkDescriptors.length) ∧
    (dict.rebuildOrder.map (fun i => (dict.chunkDescriptors[i]?.map (·.sourceSize)).getD 0)).sum = src.length ∧
    dict.sourceTotalSize = src.length ∧ dict.sourceChecksum = H src ∧
    dict.chunkerParams = some (paramsOf o.cfg o.hashLen) ∧ dict.metadata = o.metadata ∧
    dict.applicationVersion = Gen.pkgVersion.toUTF8.toList := by
  sorry

/-- Descriptors are in order of first occurrence and unique by (full) hash. -/
theorem writer_dedup (H : Bytes → Bytes) (chunks : List Bytes) :
    let uniq := (dedup H chunks).1
    let order := (dedup H chunks).2
    (uniq.map H).Nodup ∧ order.length = chunks.length ∧
    (∀ i (hi : i < chunks.length), ∃ j u, order[i]? = some j ∧ uniq[j]? = some u ∧ H u = H chunks[i]) ∧
    (∀ u ∈ uniq, u ∈ chunks) ∧
    -- first-occurrence order: the indexes appear in `order` for the first time in ascending order
    (order.eraseDups = List.range uniq.length) := by
  sorry

/-- **C01 T1.**  For every source, every valid configuration, hash length, compression setting
and metadata, and for both writers, the bytes produced are a conforming archive of the source
(so that cloning them yields the source, `clone_complete`) - for *any* codec satisfying the
round-trip contract, hence also when a compressed chunk happens to be exactly as long as the
chunk - or two different chunks of the source have the same full strong hash.
Size hypotheses found necessary while proving: the source length fits u64 and the source has
at most 2^32 chunks (the writers store rebuild indexes `as u32`); the codec never compresses a
non-empty chunk to nothing. -/
theorem createArchive_conforms (H : Bytes → Bytes) (hH : ∀ x, (H x).length = 64)
    (writer : String) (hw : writer = "lib" ∨ writer = "cli")
    (comp : Bytes → Bytes) (decomp : Nat → Bytes → Nat → Option Bytes) (hcodec : CodecOK comp decomp)
    (hne : ∀ x, x ≠ [] → comp x ≠ [])
    (o : CompressOpts) (ho : OptsOK o) (src : Bytes)
    (hfit : (createArchive H writer comp o src).length < 2 ^ 63)
    (hsrc : src.length < 2 ^ 64) (hcnt : (chunkAll o.cfg src).length ≤ 2 ^ 32) :
    Conforms H decomp [] (createArchive H writer comp o src) src ∨
    (∃ c1 ∈ chunkAll o.cfg src, ∃ c2 ∈ chunkAll o.cfg src,
      slice src c1.1 c1.2 ≠ slice src c2.1 c2.2 ∧ H (slice src c1.1 c1.2) = H (slice src c2.1 c2.2)) := by
  sorry

end Bita.Proofs
