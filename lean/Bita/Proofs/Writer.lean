/-
  What the archive writers produce (C01 T1, C11 T1/T3): layout, descriptor invariants, and that the
  produced bytes are a conforming archive of the source.
-/
import Bita.Model.Compress
import Bita.Spec.ArchiveSpec
import Bita.Spec.Tiling
import Bita.Proofs.TryInit
import Bita.Proofs.ChunkRule
import Bita.Proofs.SpecChunks
import Bita.Proofs.WriterDedup
import Bita.Proofs.WriterDescr
import Bita.Proofs.WriterOpen

namespace Bita.Proofs
open Bita Bita.Proto Bita.Spec
open WriterDescr WriterOpen

/-- The codec contract assumed for round trips (brotli/zstd/lzma are not modelled). -/
def CodecOK (comp : Bytes → Bytes) (decomp : Nat → Bytes → Nat → Option Bytes) : Prop :=
  ∀ algo x, decomp algo (comp x) x.length = some x

/-- Options a compress run accepts ("valid configuration" of C01). -/
structure OptsOK (o : CompressOpts) : Prop where
  valid : o.cfg.Valid
  accepted : configAccepted o.cfg = true
  u32 : match o.cfg with
    | .buzhash f | .rollsum f => f.maxSize < 2 ^ 32 ∧ f.minSize < 2 ^ 32 ∧ f.window < 2 ^ 32
    | .fixed n => n < 2 ^ 32
  hash_len : 1 ≤ o.hashLen ∧ o.hashLen ≤ 64
  compr : o.compression = none ∨ ∃ l, l < 2 ^ 32 ∧ o.compression = some (Gen.enum_CompressionType_BROTLI, l)
  meta_utf8 : ∀ e ∈ o.metadata, utf8Valid e.1 = true
  meta_sorted : o.metadata.Pairwise (fun a b => (a.1.map (·.toNat)) < (b.1.map (·.toNat)))

/-- Sum of the first `i` stored sizes. -/
def runningOffset (ds : List ChunkDescriptor) (i : Nat) : Nat := ((ds.take i).map (·.archiveSize)).sum

/-- **Layout** (C11): the archive is the header followed by the stored chunks; the header's
chunk-data offset is the header length; the file ends exactly at the end of the last stored
chunk; descriptors are back-to-back in order, stored size never exceeds source size; rebuild
indexes are valid and their chunk sizes sum to the source size; the options are recorded
verbatim.  For both writers, every source, every configuration (`hinj`: no two different source
chunks with the same full strong hash - the dedup table is keyed by the hash). -/
theorem writer_invariants (H : Bytes → Bytes) (writer : String) (hw : writer = "lib" ∨ writer = "cli")
    (comp : Bytes → Bytes) (o : CompressOpts) (hv : o.cfg.Valid) (src : Bytes)
    (hinj : ∀ c1 ∈ chunkAll o.cfg src, ∀ c2 ∈ chunkAll o.cfg src,
      H (slice src c1.1 c1.2) = H (slice src c2.1 c2.2) → slice src c1.1 c1.2 = slice src c2.1 c2.2) :
    let dict := (dictionaryOf H writer comp o src).1
    let stored := (dictionaryOf H writer comp o src).2
    let hdr := buildHeader H dict none
    createArchive H writer comp o src = hdr ++ stored.flatten ∧
    (createArchive H writer comp o src).length = hdr.length + (dict.chunkDescriptors.map (·.archiveSize)).sum ∧
    dict.chunkDescriptors.length = stored.length ∧
    (∀ i (hi : i < dict.chunkDescriptors.length),
      dict.chunkDescriptors[i].archiveOffset = runningOffset dict.chunkDescriptors i ∧
      dict.chunkDescriptors[i].archiveSize ≤ dict.chunkDescriptors[i].sourceSize ∧
      1 ≤ dict.chunkDescriptors[i].sourceSize) ∧
    (∀ i ∈ dict.rebuildOrder, i < dict.chunkDescriptors.length) ∧
    (dict.rebuildOrder.map (fun i => (dict.chunkDescriptors[i]?.map (·.sourceSize)).getD 0)).sum = src.length ∧
    dict.sourceTotalSize = src.length ∧ dict.sourceChecksum = H src ∧
    dict.chunkerParams = some (paramsOf o.cfg o.hashLen) ∧ dict.metadata = o.metadata ∧
    dict.applicationVersion = Gen.pkgVersion.toUTF8.toList := by
  intro dict stored hdr
  have _ := hw
  have inv := WriterDedup.inv_dedup H (srcChunks o.cfg src)
  have hinj' := srcChunks_inj H o.cfg src hinj
  have hds : dict.chunkDescriptors =
      descrFrom H o.hashLen (storedBytes writer (codecOf o comp)) 0 (dedup H (srcChunks o.cfg src)).1 :=
    dict_descr H writer comp o src
  have hst : stored = (dedup H (srcChunks o.cfg src)).1.map (storedBytes writer (codecOf o comp)) :=
    dict_stored H writer comp o src
  have hord : dict.rebuildOrder = (dedup H (srcChunks o.cfg src)).2 := dict_order H writer comp o src
  have hdl : dict.chunkDescriptors.length = (dedup H (srcChunks o.cfg src)).1.length := by
    rw [hds, descrFrom_length]
  have hlt : ∀ i ∈ dict.rebuildOrder, i < (dedup H (srcChunks o.cfg src)).1.length := by
    intro i hi
    rw [hord] at hi
    have : i ∈ (dedup H (srcChunks o.cfg src)).2.eraseDups := List.mem_eraseDups.mpr hi
    rw [inv.first] at this
    simpa using this
  refine ⟨rfl, ?_, ?_, ?_, ?_, ?_, rfl, rfl, rfl, rfl, rfl⟩
  · rw [createArchive_eq, List.length_append]
    show hdr.length + stored.flatten.length = _
    rw [hds, descrFrom_archiveSize, sum_stored, hst]
  · rw [hdl, hst, List.length_map]
  · generalize dict.chunkDescriptors = ds at hds hdl
    subst hds
    intro i hi
    have hi' : i < (dedup H (srcChunks o.cfg src)).1.length := by omega
    rw [descrFrom_getElem _ _ _ _ _ _ hi']
    refine ⟨?_, storedBytes_length_le _ _ _, ?_⟩
    · simp only [runningOffset, descrFrom_running, Nat.zero_add]
    · exact (srcChunks_mem o.cfg hv src _ (inv.sub _ (List.getElem_mem hi'))).1
  · intro i hi
    rw [hdl]; exact hlt i hi
  · rw [← srcChunks_sum o.cfg hv src, hord]
    apply sum_map_pointwise _ _ _ _ inv.len
    intro i h1 h2
    obtain ⟨j, u, hj, hu, hH⟩ := inv.idx i h2
    rw [List.getElem?_eq_getElem h1] at hj
    cases hj
    obtain ⟨hjl, rfl⟩ := List.getElem?_eq_some_iff.mp hu
    have hmem : (dedup H (srcChunks o.cfg src)).1[(dedup H (srcChunks o.cfg src)).2[i]] ∈ srcChunks o.cfg src :=
      inv.sub _ (List.getElem_mem hjl)
    have heq := hinj' _ hmem _ (List.getElem_mem h2) hH
    have hjl' : (dedup H (srcChunks o.cfg src)).2[i] < dict.chunkDescriptors.length := by omega
    rw [List.getElem?_eq_getElem hjl']
    simp only [Option.map_some, Option.getD_some]
    generalize dict.chunkDescriptors = ds at hds hdl hjl'
    subst hds
    rw [descrFrom_getElem _ _ _ _ _ _ hjl]
    simp only
    exact congrArg List.length heq

/-- Descriptors are in order of first occurrence and unique by (full) hash. -/
theorem writer_dedup (H : Bytes → Bytes) (chunks : List Bytes) :
    let uniq := (dedup H chunks).1
    let order := (dedup H chunks).2
    (uniq.map H).Nodup ∧ order.length = chunks.length ∧
    (∀ i (hi : i < chunks.length), ∃ j u, order[i]? = some j ∧ uniq[j]? = some u ∧ H u = H chunks[i]) ∧
    (∀ u ∈ uniq, u ∈ chunks) ∧
    -- first-occurrence order: the indexes appear in `order` for the first time in ascending order
    (order.eraseDups = List.range uniq.length) := by
  intro uniq order
  have inv := WriterDedup.inv_dedup H chunks
  exact ⟨inv.nodup, inv.len, inv.idx, inv.sub, inv.first⟩

/-- **C01 T1.**  For every source, every valid configuration, hash length, compression setting
and metadata, and for both writers, the bytes produced are a conforming archive of the source
(so that cloning them yields the source, `clone_complete`) - for *any* codec satisfying the
round-trip contract, hence also when a compressed chunk happens to be exactly as long as the
chunk - or two different chunks of the source have the same full strong hash.
Size hypotheses found necessary while proving: the source length fits u64 and the source has
at most 2^32 chunks (the writers store rebuild indexes `as u32`); the codec never compresses a
non-empty chunk to nothing. -/
theorem createArchive_conforms (H : Bytes → Bytes) (hH : ∀ x, (H x).length = 64)
    (writer : String) (hw : writer = "lib" ∨ writer = "cli")
    (comp : Bytes → Bytes) (decomp : Nat → Bytes → Nat → Option Bytes) (hcodec : CodecOK comp decomp)
    (hne : ∀ x, x ≠ [] → comp x ≠ [])
    (o : CompressOpts) (ho : OptsOK o) (src : Bytes)
    (hfit : (createArchive H writer comp o src).length < 2 ^ 63)
    (hsrc : src.length < 2 ^ 64) (hcnt : (chunkAll o.cfg src).length ≤ 2 ^ 32) :
    Conforms H decomp [] (createArchive H writer comp o src) src ∨
    (∃ c1 ∈ chunkAll o.cfg src, ∃ c2 ∈ chunkAll o.cfg src,
      slice src c1.1 c1.2 ≠ slice src c2.1 c2.2 ∧ H (slice src c1.1 c1.2) = H (slice src c2.1 c2.2)) := by
  have _ := hw
  by_cases hcol : ∃ c1 ∈ chunkAll o.cfg src, ∃ c2 ∈ chunkAll o.cfg src,
      slice src c1.1 c1.2 ≠ slice src c2.1 c2.2 ∧ H (slice src c1.1 c1.2) = H (slice src c2.1 c2.2)
  · exact .inr hcol
  left
  have hinj : ∀ c1 ∈ chunkAll o.cfg src, ∀ c2 ∈ chunkAll o.cfg src,
      H (slice src c1.1 c1.2) = H (slice src c2.1 c2.2) → slice src c1.1 c1.2 = slice src c2.1 c2.2 := by
    intro c1 h1 c2 h2 hh
    by_cases he : slice src c1.1 c1.2 = slice src c2.1 c2.2
    · exact he
    · exact absurd ⟨c1, h1, c2, h2, he, hh⟩ hcol
  have hinj' := srcChunks_inj H o.cfg src hinj
  have hv := ho.valid
  obtain ⟨hn1, hn64⟩ := ho.hash_len
  have inv := WriterDedup.inv_dedup H (srcChunks o.cfg src)
  have hcks := srcChunks_mem o.cfg hv src
  have hmax := maxChunk_lt o.cfg ho.u32
  have hckl : (srcChunks o.cfg src).length ≤ 2 ^ 32 := by
    unfold srcChunks; rw [List.length_map]; exact hcnt
  -- the stored-bytes function
  have hfle := storedBytes_length_le writer (codecOf o comp)
  have hfne : ∀ c, c ≠ [] → storedBytes writer (codecOf o comp) c ≠ [] := by
    intro c hc
    rcases storedBytes_cases writer (codecOf o comp) c with h | ⟨h, -⟩
    · rw [h]; exact hc
    · rw [h]; unfold codecOf; split
      · exact hne c hc
      · exact hc
  have hdec : ∀ (c : Bytes) (d : Descr), d.checksum = hashTruncate (hashTruncate (H c) o.hashLen) 64 →
      d.sourceSize = c.length →
      decodeChunk H decomp o.compression d (storedBytes writer (codecOf o comp) c) = some c :=
    fun c d h1 h2 => decodeChunk_stored H hH comp decomp hcodec writer o.compression c o.hashLen hn64 d h1 h2
  -- the dictionary
  have hds := dict_descr H writer comp o src
  have hst := dict_stored H writer comp o src
  have hord := dict_order H writer comp o src
  have htot := dict_total H writer comp o src
  have hck := dict_checksum H writer comp o src
  have hpar := dict_params H writer comp o src
  have hmeta := dict_meta H writer comp o src
  have hver := dict_version H writer comp o src
  have hcc := dict_compr H writer comp o src
  have harch := createArchive_eq H writer comp o src
  -- the chunks in rebuild order add up to the source (what the reader checks since the F18 repair)
  have hsumW : ((dictionaryOf H writer comp o src).1.rebuildOrder.map (fun i =>
      ((dictionaryOf H writer comp o src).1.chunkDescriptors[i]?.map (·.sourceSize)).getD 0)).sum = src.length :=
    (writer_invariants H writer hw comp o hv src hinj).2.2.2.2.2.1
  rw [harch] at hfit ⊢
  generalize dictionaryOf H writer comp o src = DD at *
  obtain ⟨dict, stored⟩ := DD
  simp only at hds hst hord htot hck hpar hmeta hver hcc hfit hsumW ⊢
  subst hst
  generalize storedBytes writer (codecOf o comp) = f at *
  generalize hD : dedup H (srcChunks o.cfg src) = D at *
  obtain ⟨us, order⟩ := D
  simp only at hds hord hfit inv ⊢
  have hbl := buildHeader_length H hH dict
  have hum : usizeMax = 2 ^ 64 - 1 := rfl
  rw [List.length_append] at hfit
  -- facts on the unique chunks
  have hus : ∀ j (hj : j < us.length), 1 ≤ us[j].length ∧ us[j].length < 2 ^ 32 := by
    intro j hj
    have := hcks _ (inv.sub _ (List.getElem_mem hj))
    omega
  have hsl := archive_slice (buildHeader H dict none) f us
  simp only [List.length_append] at hsl
  -- compression
  obtain ⟨cc, hcc', hcb1, hcb2, hcfd⟩ : ∃ cc, dict.chunkCompression = some cc ∧ cc.compression < 2 ^ 32 ∧
      cc.compressionLevel < 2 ^ 32 ∧ compressionFromDict [] cc = .ok o.compression := by
    rcases ho.compr with hc | ⟨l, hl, hc⟩
    · rw [hc] at hcc ⊢
      exact ⟨_, hcc, by decide, by decide, compressionFromDict_none⟩
    · rw [hc] at hcc ⊢
      exact ⟨_, hcc, by show Gen.enum_CompressionType_BROTLI < 2 ^ 32; decide, hl,
        compressionFromDict_brotli l⟩
  have hwf : DictWF dict := by
    refine ⟨by rw [hver]; exact version_utf8, by rw [htot]; exact hsrc, ?_, ?_, ?_, ?_,
      by rw [hmeta]; exact ho.meta_utf8, by rw [hmeta]; exact ho.meta_sorted, by omega⟩
    · intro p hp
      rw [hpar] at hp; cases hp
      exact paramsOf_bounds o.cfg o.hashLen ho.u32 ho.accepted hn64
    · intro c hc
      rw [hcc'] at hc; cases hc
      exact ⟨hcb1, hcb2⟩
    · intro i hi
      rw [hord] at hi
      have := inv.order_lt i hi
      have := inv.count
      simp only at *
      omega
    · intro c hc
      rw [hds] at hc
      obtain ⟨j, hj, rfl⟩ := descr_mem H o.hashLen f us c hc
      have := hus j hj
      have := hfle us[j]
      have := (hsl j hj).1
      simp only
      omega
  obtain ⟨a, hopen, hacfg, hahl, hacompr, -, -, hatot, hack, haord, -, -, hachunks⟩ :=
    tryInit_buildHeader H hH [] dict hwf (us.map f).flatten (paramsOf o.cfg o.hashLen) cc o.cfg
      o.compression hpar hcc' (configFromParams_paramsOf _ _ ho.accepted) hcfd
      (by
        intro i hi
        rw [hord] at hi
        rw [hds, descrFrom_length]
        exact inv.order_lt i hi)
      (by rw [paramsOf_hashLen]; exact ⟨hn1, hn64⟩)
      (by rw [hsumW, htot])
      (by
        intro cd hcd
        rw [hds] at hcd
        obtain ⟨j, hj, rfl⟩ := descr_mem H o.hashLen f us cd hcd
        have := hfne us[j] (by intro h; have := (hus j hj).1; rw [h] at this; simp at this)
        simp only
        exact Nat.pos_of_ne_zero (fun h => this (List.eq_nil_of_length_eq_zero h)))
      (by
        intro cd hcd
        rw [hds] at hcd
        obtain ⟨j, hj, rfl⟩ := descr_mem H o.hashLen f us cd hcd
        have := (hsl j hj).1
        simp only
        omega)
      (by omega)
  have hac : a.chunks = (descrFrom H o.hashLen f 0 us).map (openDescr (buildHeader H dict none).length) := by
    rw [hachunks, hds]; rfl
  rw [paramsOf_hashLen] at hahl
  refine ⟨a, srcChunks o.cfg src, hopen, ?_, ?_⟩
  · refine ⟨(srcChunks_flatten o.cfg hv src).symm, ?_, by rw [haord, hord]; exact inv.len, ?_,
      by rw [hatot, htot], by rw [hahl]; exact ⟨hn1, hn64⟩, ?_,
      by rw [hack, hck, hashTruncate_of_le _ _ (Nat.le_of_eq (hH src))], by rw [hacfg]; exact hv⟩
    · intro c hc h
      have := (hcks c hc).1
      rw [h] at this; simp at this
    · intro i hi
      obtain ⟨j, u, hj, hu, hHu⟩ := inv.idx i hi
      obtain ⟨hjl, rfl⟩ := List.getElem?_eq_some_iff.mp hu
      have heq := hinj' _ (inv.sub _ (List.getElem_mem hjl)) _ (List.getElem_mem hi) hHu
      simp only at heq hj
      refine ⟨j, openAt H o.hashLen f us (buildHeader H dict none).length j hjl,
        by rw [haord, hord]; exact hj, by rw [hac]; exact open_getElem? _ _ _ _ _ _ _, ?_, ?_⟩
      · simp only [openAt]; rw [heq]
      · simp only [openAt]; rw [hahl, hashTruncate_open _ _ (hH _) hn64, heq]
    · intro d hd
      rw [hac] at hd
      obtain ⟨j, hj, rfl⟩ := open_mem _ _ _ _ _ _ hd
      refine ⟨us[j], inv.sub _ (List.getElem_mem hj), rfl, ?_⟩
      simp only [openAt]; rw [hahl, hashTruncate_open _ _ (hH _) hn64]
  · intro d hd
    rw [hac] at hd
    obtain ⟨j, hj, rfl⟩ := open_mem _ _ _ _ _ _ hd
    obtain ⟨h1, h2⟩ := hsl j hj
    simp only [openAt, List.length_append]
    refine ⟨h1, us[j], ?_, rfl⟩
    rw [h2, hacompr]
    exact hdec us[j] _ rfl rfl

end Bita.Proofs
