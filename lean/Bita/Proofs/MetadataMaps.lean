/-
  The two `BTreeMap<String, Vec<u8>>` models are one function: `Options.metaInsert` (the map
  `compress_cmd` builds from the command line) and `Proto.mapInsert` (the map prost's decoder
  builds from the dictionary's entries) were written separately, against different call sites.
  So the map a reader ends up with after decoding the entries of a written map, in order, is that
  map again.
-/
import Bita.Proofs.Metadata

namespace Bita.Proofs
open Bita Bita.Options

theorem compareOfLessAndEq_lt_iff (a b : List Nat) :
    compareOfLessAndEq a b = .lt ↔ a < b := by
  unfold compareOfLessAndEq
  split
  · simp [*]
  · split <;> simp [*]

theorem mapInsert_eq_metaInsert (k v : Bytes) : ∀ (m : List (Bytes × Bytes)),
    Proto.mapInsert k v m = metaInsert m k v := by
  intro m
  induction m with
  | nil => rfl
  | cons e rest ih =>
    obtain ⟨k', v'⟩ := e
    simp only [Proto.mapInsert, metaInsert, keyLt, compareOfLessAndEq_lt_iff, decide_eq_true_eq, ih]

/-- Decoding map entries one after the other (prost's `hash_map/btree_map::merge` per entry)
builds the same map as `compress_cmd` builds from the same pairs. -/
theorem decoded_entries_build_the_written_map (pairs : List (Bytes × Bytes)) :
    pairs.foldl (fun m e => Proto.mapInsert e.1 e.2 m) [] = metadataOf pairs [] := by
  unfold metadataOf
  simp only [List.append_nil, mapInsert_eq_metaInsert]

example : Proto.mapInsert [2] [9] [([1], [7]), ([3], [8])] = [([1], [7]), ([2], [9]), ([3], [8])] := by decide

end Bita.Proofs
