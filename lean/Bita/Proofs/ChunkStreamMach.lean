/-
  Helper for C09 (delivery independence): `RollingHashChunker::next` as a byte-at-a-time
  machine, and its compositionality in the number of buffered bytes.
-/
import Bita.Proofs.ChunkStreamHasher
import Bita.Proofs.ValidLemmas
namespace Bita.Proofs.CS
open Bita

/-- Byte-at-a-time presentation of `RollingHashChunker::next`: `i` is the offset in the chunk,
`bs` the bytes from there on, `k` how many of them are in the buffer. -/
def mach (p : RHParams) : Hasher → Bytes → Nat → Nat → RHState × Option Nat
  | g, [], i, _ => if p.maxSize ≤ i then (⟨g, 0⟩, some i) else (⟨g, i⟩, none)
  | g, _ :: _, i, 0 => if p.maxSize ≤ i then (⟨g, 0⟩, some i) else (⟨g, i⟩, none)
  | g, b :: bs, i, k + 1 =>
    if p.maxSize ≤ i then (⟨g, 0⟩, some i)
    else if g.initDone = false then mach p (g.init b) bs (i + 1) k
    else if i + 1 < p.limit then mach p g bs (i + 1) k
    else if i + 1 < p.minSize then mach p (g.input b) bs (i + 1) k
    else
      if (g.input b).sum ||| p.mask = (g.input b).sum then (⟨g.input b, 0⟩, some (i + 1))
      else mach p (g.input b) bs (i + 1) k

theorem mach_zero (p : RHParams) (g : Hasher) (bs : Bytes) (i : Nat) :
    mach p g bs i 0 = if p.maxSize ≤ i then (⟨g, 0⟩, some i) else (⟨g, i⟩, none) := by
  cases bs <;> simp [mach]

theorem mach_nil (p : RHParams) (g : Hasher) (i k : Nat) :
    mach p g [] i k = if p.maxSize ≤ i then (⟨g, 0⟩, some i) else (⟨g, i⟩, none) := by
  simp [mach]

theorem mach_init (p : RHParams) (g : Hasher) (bs : Bytes) (i k : Nat) (g1 : Hasher) (n1 : Nat)
    (h : initLoop g bs k = (g1, n1)) (hinv : i + need g ≤ p.maxSize) :
    mach p g bs i k = mach p g1 (bs.drop n1) (i + n1) (k - n1) ∧ n1 ≤ k ∧ n1 ≤ bs.length ∧
      (g1.initDone = true ∨ n1 = min k bs.length) ∧ i + n1 + need g1 ≤ p.maxSize := by
  induction k generalizing g bs i n1 with
  | zero =>
    cases bs <;> simp [initLoop] at h <;> obtain ⟨rfl, rfl⟩ := h <;> simp [hinv]
  | succ k ih =>
    cases bs with
    | nil => simp [initLoop] at h; obtain ⟨rfl, rfl⟩ := h; simp [hinv]
    | cons b bs =>
      simp only [initLoop] at h
      split at h
      · next hd =>
        simp at h; obtain ⟨rfl, rfl⟩ := h; simp [hinv, hd]
      · next hd =>
        simp at hd
        have hn : need g ≠ 0 := by
          intro h0; rw [need_eq_zero] at h0; simp [h0] at hd
        rcases hr : initLoop (g.init b) bs k with ⟨g', n⟩
        rw [hr] at h
        simp at h; obtain ⟨rfl, rfl⟩ := h
        have hinv' : (i + 1) + need (g.init b) ≤ p.maxSize := by
          rw [need_init g b hd]; omega
        obtain ⟨e, h1, h2, h3, h4⟩ := ih (g.init b) bs (i + 1) n hr hinv'
        refine ⟨?_, by omega, by simp; omega, ?_, by omega⟩
        · rw [mach, if_neg (by omega), if_pos hd, e]
          simp only [List.drop_succ_cons]
          congr 1 <;> omega
        · rcases h3 with h3 | h3
          · exact Or.inl h3
          · right; simp; omega

theorem mach_skip (p : RHParams) (g : Hasher) (hd : g.initDone = true) (hl : p.limit ≤ p.maxSize)
    (j : Nat) (bs : Bytes) (i k : Nat) (hjk : j ≤ k) (hjl : j ≤ bs.length)
    (hj : 0 < j → i + j < p.limit) :
    mach p g bs i k = mach p g (bs.drop j) (i + j) (k - j) := by
  induction j generalizing bs i k with
  | zero => simp
  | succ j ih =>
    cases bs with
    | nil => simp at hjl
    | cons b bs =>
      cases k with
      | zero => omega
      | succ k =>
        have := hj (by omega)
        rw [mach, if_neg (by omega), if_neg (by simp [hd]), if_pos (by omega)]
        rw [ih bs (i + 1) k (by omega) (by simpa using hjl) (by intro; omega)]
        simp only [List.drop_succ_cons]
        congr 1 <;> omega

theorem feedN_zero (g : Hasher) (bs : Bytes) : feedN g bs 0 = g := by
  cases bs <;> simp [feedN]

theorem mach_feed (p : RHParams) (hm : p.minSize ≤ p.maxSize)
    (j : Nat) (g : Hasher) (hd : g.initDone = true) (bs : Bytes) (i k : Nat) (hjk : j ≤ k) (hjl : j ≤ bs.length)
    (hj : 0 < j → p.limit ≤ i + 1 ∧ i + j < p.minSize) :
    mach p g bs i k = mach p (feedN g bs j) (bs.drop j) (i + j) (k - j) := by
  induction j generalizing g bs i k with
  | zero => simp [feedN_zero]
  | succ j ih =>
    cases bs with
    | nil => simp at hjl
    | cons b bs =>
      cases k with
      | zero => omega
      | succ k =>
        have := hj (by omega)
        rw [mach, if_neg (by omega), if_neg (by simp [hd]), if_neg (by omega), if_pos (by omega)]
        rw [ih (g.input b) (by rw [initDone_input]; exact hd) bs (i + 1) k (by omega)
          (by simpa using hjl) (by intro; omega)]
        simp only [List.drop_succ_cons, feedN]
        congr 1 <;> omega

theorem feedN_done (g : Hasher) (bs : Bytes) (j : Nat) : (feedN g bs j).initDone = g.initDone := by
  induction j generalizing g bs with
  | zero => simp [feedN_zero]
  | succ j ih =>
    cases bs with
    | nil => simp [feedN]
    | cons b bs => simp [feedN, ih, initDone_input]

theorem feedN_need (g : Hasher) (bs : Bytes) (j : Nat) : need (feedN g bs j) = need g := by
  induction j generalizing g bs with
  | zero => simp [feedN_zero]
  | succ j ih =>
    cases bs with
    | nil => simp [feedN]
    | cons b bs => simp [feedN, ih, need_input]

theorem scanN_zero (m : U32) (g : Hasher) (bs : Bytes) : scanN m g bs 0 = (g, 0, false) := by
  cases bs <;> simp [scanN]

theorem scanN_nil (m : U32) (g : Hasher) (k : Nat) : scanN m g [] k = (g, 0, false) := by
  cases k <;> simp [scanN]

theorem mach_scan (p : RHParams) (k : Nat) (g : Hasher) (hd : g.initDone = true) (bs : Bytes) (i : Nat)
    (hk : i < p.maxSize → 0 < k → p.minSize ≤ i + 1 ∧ p.limit ≤ i + 1) :
    mach p g bs i k =
      (let r := scanN p.mask g bs (min p.maxSize (i + k) - i)
       if r.2.2 = true ∨ p.maxSize ≤ i + r.2.1 then (⟨r.1, 0⟩, some (i + r.2.1))
       else (⟨r.1, i + r.2.1⟩, none)) := by
  induction k generalizing g bs i with
  | zero =>
    have : min p.maxSize (i + 0) - i = 0 := by omega
    rw [this, mach_zero, scanN_zero]; simp
  | succ k ih =>
    by_cases hmax : p.maxSize ≤ i
    · have : min p.maxSize (i + (k + 1)) - i = 0 := by omega
      rw [this, scanN_zero]
      cases bs <;> simp [mach, hmax]
    · cases bs with
      | nil => simp [mach, scanN_nil, hmax]
      | cons b bs =>
        have := hk (by omega) (by omega)
        have e : min p.maxSize (i + (k + 1)) - i = (min p.maxSize (i + 1 + k) - (i + 1)) + 1 := by omega
        rw [e, mach, if_neg hmax, if_neg (by simp [hd]), if_neg (by omega), if_neg (by omega)]
        simp only [scanN]
        split
        · simp
        · rw [ih (g.input b) (by rw [initDone_input]; exact hd) bs (i + 1) (by intro _ _; omega)]
          simp only [Nat.add_assoc, Nat.add_comm 1]


/-- Parameter facts used (all follow from `FilterConfig.Sane`). -/
structure POK (p : RHParams) : Prop where
  lim : p.limit = 0 ∨ p.limit < p.minSize
  mm : p.minSize ≤ p.maxSize
  pos : 1 ≤ p.maxSize

/-- `scan_for_boundary` and the final decision of `RHState.next`. -/
def afterFeed (p : RHParams) (g : Hasher) (rest : Bytes) (off3 have_ : Nat) : RHState × Option Nat :=
  let r := scanN p.mask g (rest.drop off3) (min p.maxSize have_ - off3)
  if r.2.2 = true ∨ p.maxSize ≤ off3 + r.2.1 then (⟨r.1, 0⟩, some (off3 + r.2.1))
  else (⟨r.1, off3 + r.2.1⟩, none)

/-- The feeding half of `skip_min_chunk`, then `afterFeed`. -/
def afterSkip (p : RHParams) (g : Hasher) (rest : Bytes) (off2 have_ : Nat) : RHState × Option Nat :=
  if 0 < p.minSize ∧ off2 < p.minSize then
    afterFeed p (feedN g (rest.drop off2) (min (p.minSize - 1) have_ - off2)) rest
      (min (p.minSize - 1) have_) have_
  else afterFeed p g rest off2 have_

/-- Everything after the warm-up loop. -/
def afterInit (p : RHParams) (g : Hasher) (rest : Bytes) (off1 have_ : Nat) : RHState × Option Nat :=
  afterSkip p g rest (if 0 < p.limit ∧ off1 < p.limit then min (p.limit - 1) have_ else off1) have_

theorem next_eq_afterInit (p : RHParams) (st : RHState) (rest : Bytes) (have_ : Nat) :
    st.next p rest have_ =
      afterInit p (initLoop st.hasher (rest.drop st.off) (have_ - st.off)).1 rest
        (st.off + (initLoop st.hasher (rest.drop st.off) (have_ - st.off)).2) have_ := by
  unfold RHState.next afterInit
  dsimp only
  generalize initLoop st.hasher (rest.drop st.off) (have_ - st.off) = r
  obtain ⟨h1, n1⟩ := r
  dsimp only
  generalize (if 0 < p.limit ∧ st.off + n1 < p.limit then min (p.limit - 1) have_ else st.off + n1) = off2
  unfold afterSkip
  by_cases hc : 0 < p.minSize ∧ off2 < p.minSize
  · simp only [if_pos hc]; rfl
  · simp only [if_neg hc]; rfl

theorem afterFeed_eq_mach (p : RHParams) (g : Hasher) (hd : g.initDone = true) (rest : Bytes)
    (off3 have_ : Nat) (ho : off3 ≤ have_)
    (hk : off3 < p.maxSize → off3 < have_ → p.minSize ≤ off3 + 1 ∧ p.limit ≤ off3 + 1) :
    afterFeed p g rest off3 have_ = mach p g (rest.drop off3) off3 (have_ - off3) := by
  rw [mach_scan p (have_ - off3) g hd (rest.drop off3) off3 (by intro h1 h2; exact hk h1 (by omega))]
  have : off3 + (have_ - off3) = have_ := by omega
  rw [this]; rfl

theorem afterSkip_eq_mach (p : RHParams) (hp : POK p) (g : Hasher) (hd : g.initDone = true) (rest : Bytes)
    (off2 have_ : Nat) (ho : off2 ≤ have_) (hl : have_ ≤ rest.length)
    (hk : off2 < have_ → p.limit ≤ off2 + 1) :
    afterSkip p g rest off2 have_ = mach p g (rest.drop off2) off2 (have_ - off2) := by
  have ⟨h1, h2, h3⟩ := hp
  unfold afterSkip
  split
  · next hc =>
    rw [afterFeed_eq_mach p _ (by rw [feedN_done]; exact hd) rest _ have_ (by omega) (by omega)]
    rw [mach_feed p h2 (min (p.minSize - 1) have_ - off2) g hd (rest.drop off2) off2 (have_ - off2)
      (by omega) (by simp; omega) (by omega)]
    have e1 : off2 + (min (p.minSize - 1) have_ - off2) = min (p.minSize - 1) have_ := by omega
    have e2 : have_ - off2 - (min (p.minSize - 1) have_ - off2) = have_ - min (p.minSize - 1) have_ := by omega
    rw [List.drop_drop, e1, e2]
  · next hc =>
    exact afterFeed_eq_mach p g hd rest off2 have_ ho (by omega)

theorem afterInit_eq_mach (p : RHParams) (hp : POK p) (g : Hasher) (hd : g.initDone = true) (rest : Bytes)
    (off1 have_ : Nat) (ho : off1 ≤ have_) (hl : have_ ≤ rest.length) :
    afterInit p g rest off1 have_ = mach p g (rest.drop off1) off1 (have_ - off1) := by
  have ⟨h1, h2, h3⟩ := hp
  unfold afterInit
  split
  · next hc =>
    rw [afterSkip_eq_mach p hp g hd rest _ have_ (by omega) hl (by omega)]
    rw [mach_skip p g hd (by omega) (min (p.limit - 1) have_ - off1) (rest.drop off1) off1 (have_ - off1)
      (by omega) (by simp; omega) (by omega)]
    have e1 : off1 + (min (p.limit - 1) have_ - off1) = min (p.limit - 1) have_ := by omega
    have e2 : have_ - off1 - (min (p.limit - 1) have_ - off1) = have_ - min (p.limit - 1) have_ := by omega
    rw [List.drop_drop, e1, e2]
  · next hc =>
    exact afterSkip_eq_mach p hp g hd rest off1 have_ ho hl (by omega)

/-- Warm-up not finished: nothing else happens. -/
theorem afterInit_notDone (p : RHParams) (g : Hasher) (rest : Bytes) (have_ : Nat)
    (hlt : have_ < p.maxSize) :
    afterInit p g rest have_ have_ = (⟨g, have_⟩, none) := by
  have e1 : (if 0 < p.limit ∧ have_ < p.limit then min (p.limit - 1) have_ else have_) = have_ := by
    split <;> omega
  unfold afterInit afterSkip
  rw [e1]
  have e2 : min (p.minSize - 1) have_ - have_ = 0 := by omega
  have e3 : min p.maxSize have_ - have_ = 0 := by omega
  split
  · next hc =>
    have e4 : min (p.minSize - 1) have_ = have_ := by omega
    rw [e2, feedN_zero, e4]
    simp [afterFeed, e3, scanN_zero]; omega
  · simp [afterFeed, e3, scanN_zero]; omega

theorem next_eq_mach (p : RHParams) (hp : POK p) (g : Hasher) (o : Nat) (rest : Bytes) (have_ : Nat)
    (ho : o ≤ have_) (hl : have_ ≤ rest.length) (hinv : o + need g ≤ p.maxSize) :
    RHState.next p ⟨g, o⟩ rest have_ = mach p g (rest.drop o) o (have_ - o) := by
  rw [next_eq_afterInit]
  dsimp only
  rcases hr : initLoop g (rest.drop o) (have_ - o) with ⟨g1, n1⟩
  obtain ⟨e, h1, h2, h3, h4⟩ := mach_init p g (rest.drop o) o (have_ - o) g1 n1 hr hinv
  rw [e]
  dsimp only
  simp only [List.length_drop] at h2 h3
  by_cases hd : g1.initDone = true
  · rw [afterInit_eq_mach p hp g1 hd rest (o + n1) have_ (by omega) hl, List.drop_drop]
    congr 1 <;> omega
  · have hn : need g1 ≠ 0 := by
      intro h0; rw [need_eq_zero] at h0; exact hd h0
    have hn1 : n1 = have_ - o := by
      rcases h3 with h3 | h3
      · exact absurd h3 hd
      · omega
    have e1 : o + n1 = have_ := by omega
    rw [e1, afterInit_notDone p g1 rest have_ (by omega)]
    have e2 : have_ - o - n1 = 0 := by omega
    rw [e2, mach_zero, if_neg (by omega)]


/-! ### Compositionality of `mach` in the number of buffered bytes -/

/-- What one byte does to the hasher, and whether it is a boundary. -/
def stepG (p : RHParams) (g : Hasher) (b : UInt8) (i : Nat) : Hasher × Bool :=
  if g.initDone = false then (g.init b, false)
  else if i + 1 < p.limit then (g, false)
  else if i + 1 < p.minSize then (g.input b, false)
  else (g.input b, decide ((g.input b).sum ||| p.mask = (g.input b).sum))

theorem mach_max (p : RHParams) (g : Hasher) (bs : Bytes) (i k : Nat) (h : p.maxSize ≤ i) :
    mach p g bs i k = (⟨g, 0⟩, some i) := by
  cases bs <;> cases k <;> simp [mach, h]

theorem mach_cons (p : RHParams) (g : Hasher) (b : UInt8) (bs : Bytes) (i k : Nat) (h : ¬ p.maxSize ≤ i) :
    mach p g (b :: bs) i (k + 1) =
      if (stepG p g b i).2 = true then (⟨(stepG p g b i).1, 0⟩, some (i + 1))
      else mach p (stepG p g b i).1 bs (i + 1) k := by
  rw [mach, if_neg h]
  unfold stepG
  split
  · simp
  · split
    · simp
    · split
      · simp
      · split <;> simp_all

theorem stepG_inv (p : RHParams) (g : Hasher) (b : UInt8) (i : Nat) (hinv : i + need g ≤ p.maxSize)
    (h : ¬ p.maxSize ≤ i) :
    (i + 1) + need (stepG p g b i).1 ≤ p.maxSize ∧ need (stepG p g b i).1 ≤ need g := by
  unfold stepG
  split
  · next hd =>
    have hn : need g ≠ 0 := by
      intro h0; rw [need_eq_zero] at h0; simp [h0] at hd
    dsimp only; rw [need_init g b hd]; omega
  · next hd =>
    have hn : need g = 0 := by rw [need_eq_zero]; simpa using hd
    split
    · dsimp only; omega
    · split <;> (dsimp only; rw [need_input]; omega)

theorem mach_none (p : RHParams) (k : Nat) (g : Hasher) (bs : Bytes) (i : Nat) (st' : RHState)
    (h : mach p g bs i k = (st', none)) (hinv : i + need g ≤ p.maxSize) :
    st'.off = i + min k bs.length ∧ st'.off < p.maxSize ∧ st'.off + need st'.hasher ≤ p.maxSize ∧
    ∀ k', k ≤ k' →
      mach p g bs i k' = mach p st'.hasher (bs.drop (st'.off - i)) st'.off (k' - (st'.off - i)) := by
  induction k generalizing g bs i with
  | zero =>
    rw [mach_zero] at h
    split at h
    · simp at h
    · simp at h; subst h; simp; omega
  | succ k ih =>
    cases bs with
    | nil =>
      rw [mach_nil] at h
      split at h
      · simp at h
      · simp at h; subst h; simp [mach_nil]; omega
    | cons b bs =>
      by_cases hmax : p.maxSize ≤ i
      · rw [mach_max p g _ i _ hmax] at h; simp at h
      · rw [mach_cons p g b bs i k hmax] at h
        split at h
        · simp at h
        · next hf =>
          obtain ⟨hi1, _⟩ := stepG_inv p g b i hinv hmax
          obtain ⟨h1, h2, h3, h4⟩ := ih _ bs (i + 1) h hi1
          refine ⟨by simp; omega, h2, h3, ?_⟩
          intro k' hk'
          obtain ⟨k'', rfl⟩ : ∃ k'', k' = k'' + 1 := ⟨k' - 1, by omega⟩
          rw [mach_cons p g b bs i k'' hmax, if_neg hf, h4 k'' (by omega)]
          have e : st'.off - i = (st'.off - (i + 1)) + 1 := by omega
          rw [e, List.drop_succ_cons]
          congr 1; omega

theorem mach_some (p : RHParams) (hpos : 1 ≤ p.maxSize) (k : Nat) (g : Hasher) (bs : Bytes) (i : Nat)
    (st' : RHState) (n : Nat)
    (h : mach p g bs i k = (st', some n)) (hinv : i + need g ≤ p.maxSize) :
    st'.off = 0 ∧ need st'.hasher ≤ need g ∧ 1 ≤ n ∧ i ≤ n ∧ n ≤ i + min k bs.length ∧
    ∀ k', k ≤ k' → mach p g bs i k' = (st', some n) := by
  induction k generalizing g bs i with
  | zero =>
    rw [mach_zero] at h
    split at h
    · next hmax =>
      simp at h; obtain ⟨rfl, rfl⟩ := h
      refine ⟨rfl, Nat.le_refl _, by omega, by omega, by omega, ?_⟩
      intro k' _; exact mach_max p g bs _ k' hmax
    · simp at h
  | succ k ih =>
    by_cases hmax : p.maxSize ≤ i
    · rw [mach_max p g _ i _ hmax] at h
      simp at h; obtain ⟨rfl, rfl⟩ := h
      refine ⟨rfl, Nat.le_refl _, by omega, by omega, by omega, ?_⟩
      intro k' _; exact mach_max p g bs _ k' hmax
    · cases bs with
      | nil => rw [mach_nil, if_neg hmax] at h; simp at h
      | cons b bs =>
        rw [mach_cons p g b bs i k hmax] at h
        obtain ⟨hi1, hi2⟩ := stepG_inv p g b i hinv hmax
        split at h
        · next hf =>
          simp at h; obtain ⟨rfl, rfl⟩ := h
          refine ⟨rfl, hi2, by omega, by omega, by simp, ?_⟩
          intro k' hk'
          obtain ⟨k'', rfl⟩ : ∃ k'', k' = k'' + 1 := ⟨k' - 1, by omega⟩
          rw [mach_cons p g b bs i k'' hmax, if_pos hf]
        · next hf =>
          obtain ⟨h1, h2, h3, h4, h5, h6⟩ := ih _ bs (i + 1) h hi1
          refine ⟨h1, by omega, h3, by omega, by simp; omega, ?_⟩
          intro k' hk'
          obtain ⟨k'', rfl⟩ : ∃ k'', k' = k'' + 1 := ⟨k' - 1, by omega⟩
          rw [mach_cons p g b bs i k'' hmax, if_neg hf, h6 k'' (by omega)]

/-! ### The chunker level -/

/-- Invariant of a chunker in a streaming chunker whose buffer holds `have_` bytes. -/
def CInv : Chunker → Nat → Prop
  | .rolling p st, have_ => POK p ∧ st.off ≤ have_ ∧ st.off + need st.hasher ≤ p.maxSize
  | .fixed n, _ => 1 ≤ n

theorem CInv_mono (c : Chunker) (h h' : Nat) (hh : h ≤ h') (hi : CInv c h) : CInv c h' := by
  cases c with
  | rolling p st => obtain ⟨a, b, c⟩ := hi; exact ⟨a, by omega, c⟩
  | fixed n => exact hi

/-- "Need more data" followed by a poll on a longer buffer is the poll on the longer buffer. -/
theorem next_none (c : Chunker) (rest : Bytes) (h : Nat) (c' : Chunker) (hi : CInv c h)
    (hl : h ≤ rest.length) (hn : c.next rest h = (c', none)) :
    CInv c' h ∧ ∀ h', h ≤ h' → h' ≤ rest.length → c'.next rest h' = c.next rest h' := by
  cases c with
  | fixed n =>
    simp only [Chunker.next] at hn
    split at hn <;> simp at hn
    subst hn
    exact ⟨hi, fun _ _ _ => rfl⟩
  | rolling p st =>
    obtain ⟨hp, ho, hinv⟩ := hi
    obtain ⟨g, o⟩ := st
    dsimp only at ho hinv
    simp only [Chunker.next] at hn
    rcases hr : RHState.next p ⟨g, o⟩ rest h with ⟨st', r⟩
    rw [hr] at hn
    simp at hn
    obtain ⟨rfl, rfl⟩ := hn
    rw [next_eq_mach p hp g o rest h ho hl hinv] at hr
    obtain ⟨h1, h2, h3, h4⟩ := mach_none p _ g _ o st' hr hinv
    simp only [List.length_drop] at h1
    have hoff : st'.off = h := by omega
    refine ⟨⟨hp, by omega, h3⟩, ?_⟩
    intro h' hh' hl'
    simp only [Chunker.next]
    obtain ⟨g', o'⟩ := st'
    dsimp only at hoff h3 h4
    subst hoff
    rw [next_eq_mach p hp g' o' rest h' hh' hl' h3, next_eq_mach p hp g o rest h' (by omega) hl' hinv,
      h4 (h' - o) (by omega), List.drop_drop]
    have e1 : o + (o' - o) = o' := by omega
    have e2 : h' - o - (o' - o) = h' - o' := by omega
    rw [e1, e2]

/-- A chunk cut on a buffer is cut identically on every longer buffer. -/
theorem next_some (c : Chunker) (rest : Bytes) (h : Nat) (c' : Chunker) (n : Nat) (hi : CInv c h)
    (hl : h ≤ rest.length) (hn : c.next rest h = (c', some n)) :
    CInv c' 0 ∧ 1 ≤ n ∧ n ≤ h ∧ ∀ h', h ≤ h' → h' ≤ rest.length → c.next rest h' = (c', some n) := by
  cases c with
  | fixed m =>
    simp only [Chunker.next] at hn
    split at hn <;> simp at hn
    obtain ⟨rfl, rfl⟩ := hn
    refine ⟨hi, hi, by assumption, ?_⟩
    intro h' hh' _
    simp only [Chunker.next]
    rw [if_pos (by omega)]
  | rolling p st =>
    obtain ⟨hp, ho, hinv⟩ := hi
    obtain ⟨g, o⟩ := st
    dsimp only at ho hinv
    simp only [Chunker.next] at hn
    rcases hr : RHState.next p ⟨g, o⟩ rest h with ⟨st', r⟩
    rw [hr] at hn
    simp at hn
    obtain ⟨rfl, rfl⟩ := hn
    rw [next_eq_mach p hp g o rest h ho hl hinv] at hr
    obtain ⟨h1, h2, h3, h4, h5, h6⟩ := mach_some p hp.pos _ g _ o st' n hr hinv
    simp only [List.length_drop] at h5
    refine ⟨⟨hp, by omega, by omega⟩, h3, by omega, ?_⟩
    intro h' hh' hl'
    simp only [Chunker.next]
    rw [next_eq_mach p hp g o rest h' (by omega) hl' hinv, h6 (h' - o) (by omega)]

theorem POK_ofConfig (f : FilterConfig) (hv : f.Sane) : POK (RHParams.ofConfig f) := by
  obtain ⟨h1, h2, h3, h4, h5⟩ := hv
  constructor
  · simp only [RHParams.ofConfig]; split <;> omega
  · exact h3
  · exact h2

theorem CInv_ofConfig (cfg : Config) (hv : cfg.Valid) : CInv (Chunker.ofConfig cfg) 0 := by
  cases cfg with
  | fixed n => exact hv
  | rollsum f =>
    refine ⟨POK_ofConfig f (FilterConfig.Sane_of_ValidRoll hv), Nat.le_refl _, ?_⟩
    simp [need]
  | buzhash f =>
    refine ⟨POK_ofConfig f (FilterConfig.Sane_of_Valid hv), Nat.le_refl _, ?_⟩
    obtain ⟨h1, h2, h3, h4, h5⟩ := hv
    simp [need, BuzHash.new, RHParams.ofConfig]
    omega

end Bita.Proofs.CS
