/-
  The indexes a clone builds (`Archive.sourceIndex` from the dictionary, `scanIndex` from the
  prior output) are the tiling-level `indexOf` of the key lists.
-/
import Bita.Proofs.CloneKeys
import Bita.Spec.InPlace
import Bita.Spec.Tiling
import Bita.Proofs.ExecutorTiling
import Bita.Proofs.SpecChunks
import Bita.Proofs.ChunkRule

namespace Bita.Proofs
open Bita Bita.Spec

section
variable (key content : Bytes → Bytes)

theorem fileOf_map_key (cs : List Bytes) (hc : ∀ c ∈ cs, content (key c) = c) :
    fileOf content (cs.map key) = cs.flatten := by
  unfold fileOf
  rw [List.map_map]
  congr 1
  conv => rhs; rw [← List.map_id cs]
  apply List.map_congr_left
  intro c h
  exact hc c h

/-- `indexOf` through the triples `(key, size, offset)` it adds. -/
theorem indexOf_eq_foldl (ts : List Bytes) :
    indexOf content ts =
      ((placements content ts 0).map (fun e => (e.1, (content e.1).length, e.2))).foldl
        (fun (ix : Index Bytes) (t : Bytes × Nat × Nat) => ix.addChunk t.1 t.2.1 [t.2.2]) [] := by
  unfold indexOf
  rw [List.foldl_map]

/-- Two lists related element by element. -/
inductive CloneRel {α β : Type} (R : α → β → Prop) : List α → List β → Prop
  | nil : CloneRel R [] []
  | cons {a b l1 l2} : R a b → CloneRel R l1 l2 → CloneRel R (a :: l1) (b :: l2)

theorem forall₂_of_getElem {α β : Type} (R : α → β → Prop) : ∀ (l1 : List α) (l2 : List β),
    l1.length = l2.length → (∀ i (h1 : i < l1.length) (h2 : i < l2.length), R l1[i] l2[i]) →
    CloneRel R l1 l2 := by
  intro l1
  induction l1 with
  | nil =>
    intro l2 hl _
    cases l2 with
    | nil => exact .nil
    | cons => simp at hl
  | cons a l1 ih =>
    intro l2 hl h
    cases l2 with
    | nil => simp at hl
    | cons b l2 =>
      refine .cons (h 0 (by simp) (by simp)) (ih l2 (by simpa using hl) ?_)
      intro i h1 h2
      exact h (i + 1) (by simp; omega) (by simp; omega)

/-- The fold of `Archive.sourceChunks`, for a rebuild order that names, chunk by chunk, a
descriptor with that chunk's size and key. -/
theorem sourceChunks_fold (chunks : List Descr) (hl : Nat) :
    ∀ (order : List Nat) (cks : List Bytes),
      CloneRel (fun j c => ∃ d, chunks[j]? = some d ∧ d.sourceSize = c.length ∧
        hashTruncate d.checksum hl = key c) order cks →
      (∀ c ∈ cks, content (key c) = c) →
      ∀ (acc : List (Nat × Descr)) (off : Nat),
        ∃ L off', order.foldlM (fun (acc : List (Nat × Descr) × Nat) i =>
            match chunks[i]? with
            | none => none
            | some cd => some (acc.1 ++ [(acc.2, cd)], acc.2 + cd.sourceSize)) (acc, off)
              = some (acc ++ L, off') ∧
          L.map (fun e => (hashTruncate e.2.checksum hl, e.2.sourceSize, e.1)) =
            (placements content (cks.map key) off).map (fun e => (e.1, (content e.1).length, e.2)) := by
  intro order cks h
  induction h with
  | nil =>
    intro _ acc off
    exact ⟨[], off, by simp, by simp [placements]⟩
  | @cons j c order cks hjc _ ih =>
    intro hc acc off
    obtain ⟨d, hd, hsz, hk⟩ := hjc
    obtain ⟨L, off', h1, h2⟩ := ih (fun c' h' => hc c' (List.mem_cons_of_mem _ h'))
      (acc ++ [(off, d)]) (off + d.sourceSize)
    refine ⟨(off, d) :: L, off', ?_, ?_⟩
    · rw [List.foldlM_cons]
      simp only [hd]
      rw [show (some (acc ++ [(off, d)], off + d.sourceSize) : Option _) = pure (acc ++ [(off, d)], off + d.sourceSize) from rfl, pure_bind, h1]
      simp
    · have hcc := hc c (List.mem_cons_self ..)
      simp only [List.map_cons, placements, hcc]
      rw [hsz] at h2 ⊢
      rw [h2, hk]

end

/-- From `Describes`: the rebuild order names descriptors with the chunks' sizes and keys. -/
theorem describes_forall₂ (H : Bytes → Bytes) (a : Archive) (src : Bytes) (cks : List Bytes)
    (hd : Describes H a src cks) :
    CloneRel (fun j c => ∃ d, a.chunks[j]? = some d ∧ d.sourceSize = c.length ∧
      hashTruncate d.checksum a.hashLength = ckey H a.hashLength c) a.sourceOrder cks := by
  apply forall₂_of_getElem _ _ _ hd.order_len
  intro i h1 h2
  obtain ⟨j, d, hj, hdj, hsz, hk⟩ := hd.descr i h2
  rw [List.getElem?_eq_getElem h1] at hj
  cases hj
  refine ⟨d, hdj, hsz, ?_⟩
  rw [hk]
  exact hashTruncate_idem _ _

/-- The clone index built from the dictionary is the tiling index of the source chunks' keys. -/
theorem sourceIndex_eq (H : Bytes → Bytes) (a : Archive) (src : Bytes) (cks : List Bytes)
    (hd : Describes H a src cks) (content : Bytes → Bytes)
    (hc : ∀ c ∈ cks, content (ckey H a.hashLength c) = c) :
    a.sourceIndex = some (indexOf content (cks.map (ckey H a.hashLength))) := by
  obtain ⟨L, off', h1, h2⟩ := sourceChunks_fold (ckey H a.hashLength) content a.chunks a.hashLength
    a.sourceOrder cks (describes_forall₂ H a src cks hd) hc [] 0
  unfold Archive.sourceIndex Archive.sourceChunks
  erw [h1]
  simp only [Option.map_some, List.nil_append, Option.some.injEq]
  rw [indexOf_eq_foldl, ← h2, List.foldl_map]

theorem tiles_le : ∀ (cs : List (Nat × Nat)) (s e : Nat), Tiles cs s e → s ≤ e := by
  intro cs
  induction cs with
  | nil => intro s e h; simp only [Tiles] at h; omega
  | cons c cs ih =>
    intro s e h
    obtain ⟨o, l⟩ := c
    simp only [Tiles] at h
    have := ih _ _ h.2.2
    omega

/-- Each chunk of a tiling lies within the data and is non-empty. -/
theorem tiles_mem : ∀ (cs : List (Nat × Nat)) (s e : Nat), Tiles cs s e →
    ∀ c ∈ cs, 1 ≤ c.2 ∧ c.1 + c.2 ≤ e := by
  intro cs
  induction cs with
  | nil => intro s e _ c hc; cases hc
  | cons c0 cs ih =>
    intro s e h c hc
    obtain ⟨o, l⟩ := c0
    simp only [Tiles] at h
    rcases List.mem_cons.1 hc with rfl | hc
    · have := tiles_le _ _ _ h.2.2
      simp only
      omega
    · exact ih _ _ h.2.2 c hc

theorem placements_tiles (key content : Bytes → Bytes) (data : Bytes) :
    ∀ (cs : List (Nat × Nat)) (s : Nat), Tiles cs s data.length →
      (∀ c ∈ cs, content (key (slice data c.1 c.2)) = slice data c.1 c.2) →
      (placements content (cs.map (fun c => key (slice data c.1 c.2))) s).map
          (fun e => (e.1, (content e.1).length, e.2)) =
        cs.map (fun c => (key (slice data c.1 c.2), c.2, c.1)) := by
  intro cs
  induction cs with
  | nil => intro s _ _; simp [placements]
  | cons c cs ih =>
    intro s h hc
    obtain ⟨o, l⟩ := c
    have hm := tiles_mem _ _ _ h (o, l) (List.mem_cons_self ..)
    simp only [Tiles] at h
    obtain ⟨rfl, hl, ht⟩ := h
    have hcc := hc (o, l) (List.mem_cons_self ..)
    simp only at hcc hm
    have hlen : (slice data o l).length = l := by
      simp only [slice, List.length_take, List.length_drop]; omega
    simp only [List.map_cons, placements, hcc, hlen]
    rw [ih (o + l) ht (fun c' h' => hc c' (List.mem_cons_of_mem _ h'))]

theorem chunkAll_tiles (cfg : Config) (hv : cfg.Valid) (data : Bytes) :
    Tiles (chunkAll cfg data) 0 data.length := by
  rw [chunkAll_eq_specChunks cfg hv]; exact specChunks_tile cfg hv data

theorem chunksOf_flatten (cfg : Config) (hv : cfg.Valid) (data : Bytes) :
    (chunksOf cfg data).flatten = data := by
  have := tiles_concat data (chunkAll cfg data) 0 (chunkAll_tiles cfg hv data)
  simpa [chunksOf] using this

theorem chunksOf_ne_nil (cfg : Config) (hv : cfg.Valid) (data : Bytes) :
    ∀ c ∈ chunksOf cfg data, c ≠ [] := by
  intro c hc
  obtain ⟨d, hd, rfl⟩ := List.mem_map.1 hc
  have := tiles_mem _ _ _ (chunkAll_tiles cfg hv data) d hd
  intro h
  have hl := congrArg List.length h
  simp only [slice, List.length_take, List.length_drop, List.length_nil] at hl
  omega

/-- The index a scan builds is the tiling index of the scanned chunks' keys. -/
theorem scanIndex_eq (H : Bytes → Bytes) (cfg : Config) (hv : cfg.Valid) (hl : Nat) (data : Bytes)
    (content : Bytes → Bytes)
    (hc : ∀ c ∈ chunksOf cfg data, content (ckey H hl c) = c) :
    scanIndex H cfg hl data = indexOf content ((chunksOf cfg data).map (ckey H hl)) := by
  have h := placements_tiles (ckey H hl) content data (chunkAll cfg data) 0
    (chunkAll_tiles cfg hv data)
    (fun c h' => hc _ (List.mem_map.2 ⟨c, h', rfl⟩))
  rw [indexOf_eq_foldl]
  unfold chunksOf
  rw [List.map_map]
  simp only [Function.comp_def]
  rw [h, List.foldl_map]
  rfl

end Bita.Proofs
