/-
  Composition of the reader models (C08) with opening and cloning (C01, C04, C15, C17): the
  abstract reader functions of `tryInit` / `Clone.run` instantiated with the models of
  `HttpReader` and `IoReader` under any transport behaviour.
-/
import Bita.Model.ReaderEnv
import Bita.Spec.Resume
import Bita.Proofs.CloneSound
import Bita.Proofs.CloneNoJunk
import Bita.Proofs.HttpTop
import Bita.Proofs.HttpSafe
import Bita.Proofs.IoReader
import Bita.Proofs.Http
import Bita.Proofs.ReaderEnvLemmas

namespace Bita.Proofs
open Bita Bita.Proto Bita.Spec

/-- For *any* server and transport behaviour the HTTP `read_at` keeps the reader contract
(exactly `size` bytes or an error), so `tryInit_total` applies to every remote archive. -/
theorem http_env_exact (e : HttpEnv) : ExactReader e.readAt := by
  intro off size b h
  unfold HttpEnv.readAt at h
  cases hit : (httpReadAt e.serve e.retry off size (e.atScript off size)).1 with
  | chunk d =>
    rw [hit] at h
    cases h
    exact httpReadAt_chunk_length e.serve off size _ e.retry b hit
  | _ => rw [hit] at h; cases h

theorem io_env_exact (e : IoEnv) : ExactReader e.readAt := by
  intro off size b h
  unfold IoEnv.readAt at h
  cases hit : ioReadAt e.file off size (e.atScript off size) with
  | chunk d =>
    rw [hit] at h
    cases h
    exact ioReadAt_chunk_length e.file off size _ b hit
  | _ => rw [hit] at h; cases h

/-- One entry per requested range, whatever the stream delivered (`padItems` pads to at least
`n` entries and keeps `n`; no hypothesis on the number of items is needed). -/
theorem padItems_length (n : Nat) (items : List Item) :
    (padItems n items).length = n :=
  padItems_length' n items

/-- Opening any remote archive, whatever the server sends and the transport does: success, a
reported format error or a reported reader error - no panic, no abort (C15 over HTTP). -/
theorem tryInit_http_total (H : Bytes → Bytes) (features : List Nat) (e : HttpEnv) :
    (∃ a, tryInit H features e.readAt = .ok a) ∨ (∃ w, tryInit H features e.readAt = .invalid w) ∨
      tryInit H features e.readAt = .readerErr :=
  tryInit_total H features e.readAt (http_env_exact e)

/-- **Soundness over HTTP** (C04 for servers): the header that was opened describes `src`; the
server may answer the chunk requests with anything, the transport may fail anywhere.  A clone
that reports success has produced the source, or a collision of the truncated strong hash with
a genuine source chunk is exhibited (colliding junk chunks in the prior output are irrelevant). -/
theorem clone_http_sound (H : Bytes → Bytes) (hH : ∀ x, (H x).length = 64)
    (decomp : Nat → Bytes → Nat → Option Bytes) (features : List Nat) (e : HttpEnv)
    (opts : CloneOpts) (prior : Bytes) (seeds : List Bytes)
    (a : Archive) (src : Bytes) (cks : List Bytes)
    (hinit : tryInit H features e.readAt = .ok a) (hd : Describes H a src cks) :
    let r := Clone.run H decomp features e.readAt e.readChunks opts prior seeds
    r.result = .ok →
      (setLen r.output src.length = src ∧ (opts.blockDev = false → r.output = src)) ∨
      Collision H a.hashLength cks :=
  clone_sound_nojunk H hH decomp features e.readAt e.readChunks opts prior seeds a src cks hinit hd
    (fun _ => padItems_length _ _)

/-- A transport script under which the run-level specification of C08 delivers every chunk of
the list (e.g. every response complete however fragmented; or failures within the retry
budget of each run). -/
def FetchCompletes (data : Bytes) (retry : Nat) (chunks : List ChunkOffset) (script : List Resp) : Prop :=
  (fetchAll data retry (maximalRuns chunks) script).items = chunks.map (exactItem data)

/-- Sufficient: every response arrives completely (any fragmentation) and there is one per run. -/
theorem fetchCompletes_of_full (data : Bytes) (retry : Nat) (chunks : List ChunkOffset) (script : List Resp)
    (hfull : ∀ r ∈ script, ∃ frags, r = Resp.full frags)
    (hlen : (maximalRuns chunks).length ≤ script.length) :
    FetchCompletes data retry chunks script := by
  unfold FetchCompletes
  rw [fetchAll_full data retry (maximalRuns chunks) script hfull hlen, (maximalRuns_spec chunks).1]

/-- Sufficient: at most `retry` responses of the whole script are not complete ones, and after
dropping those there is still one complete response per run. -/
theorem fetchCompletes_of_budget (data : Bytes) (retry : Nat) (chunks : List ChunkOffset) (script : List Resp)
    (hbad : (script.filter (fun r => match r with | .full _ => false | .part _ _ cut => cut | .refuse => true)).length ≤ retry)
    (hnoend : ∀ r ∈ script, ∀ n frags, r ≠ Resp.part n frags false)
    (hlen : (maximalRuns chunks).length ≤
      (script.filter (fun r => match r with | .full _ => true | _ => false)).length) :
    FetchCompletes data retry chunks script := by
  have hb : (fun r : Resp => match r with | .full _ => false | .part _ _ cut => cut | .refuse => true) =
      respBad := by
    funext r; cases r <;> rfl
  have hf : (fun r : Resp => match r with | .full _ => true | _ => false) = respFull := by
    funext r; cases r <;> rfl
  rw [hb] at hbad
  rw [hf] at hlen
  unfold FetchCompletes
  rw [fetchAll_budget data retry (maximalRuns chunks) script hbad hnoend hlen,
    (maximalRuns_spec chunks).1]

/-- No finite script delivers *every* in-range chunk list (a list may have more runs than the
script has responses): a hypothesis quantified over all in-range chunk lists is
never met for non-empty archive bytes (an earlier, vacuous statement of completeness was
quantified that way).  `clone_http_complete` asks only for the lists a clone can request. -/
theorem fetchCompletes_all_lists_unsatisfiable (data : Bytes) (retry : Nat) (script : List Resp)
    (hne : 1 ≤ data.length) :
    ¬ ∀ chunks : List ChunkOffset, (∀ c ∈ chunks, 1 ≤ c.size ∧ c.stop ≤ data.length) →
      FetchCompletes data retry chunks script := by
  intro h
  have hk := h (List.replicate (script.length + 1) ⟨0, 1⟩) (by
    intro c hc
    rw [List.eq_of_mem_replicate hc]
    exact ⟨Nat.le_refl _, by simpa [ChunkOffset.stop] using hne⟩)
  unfold FetchCompletes at hk
  have := fetchAll_chunks_only data retry _ script (by
    rw [hk]
    intro it hit
    obtain ⟨c, -, rfl⟩ := List.mem_map.1 hit
    exact ⟨_, rfl⟩)
  rw [maximalRuns_replicate, List.length_replicate] at this
  omega

/-- **Completeness over HTTP** (C01 / C17 "locally and over HTTP"): an honest server over archive
bytes that conform, header reads that get an answer, and a transport script under which the
C08 specification delivers the chunk lists a clone of `a` can request - sublists of the
archive's descriptor ranges (`archiveRanges a`): the clone succeeds and yields the source. -/
theorem clone_http_complete (H : Bytes → Bytes) (hH : ∀ x, (H x).length = 64)
    (decomp : Nat → Bytes → Nat → Option Bytes) (features : List Nat)
    (archive : Bytes) (e : HttpEnv) (opts : CloneOpts) (prior : Bytes) (seeds : List Bytes)
    (a : Archive) (src : Bytes) (cks : List Bytes)
    (hserve : e.serve = honestServe archive)
    (hat : ∀ off size, ∃ frags rest, e.atScript off size = Resp.full frags :: rest)
    (hinit : tryInit H features (honestReadAt archive) = .ok a) (hd : Describes H a src cks)
    (hs : Stored H decomp a archive)
    (hpin : ∀ pin, opts.headerPin = some pin → pin = a.headerChecksum)
    (hdev : opts.blockDev = true → src.length ≤ prior.length)
    (hscript : ∀ chunks : List ChunkOffset, chunks.Sublist (archiveRanges a) →
      FetchCompletes archive e.retry chunks e.chunksScript) :
    let r := Clone.run H decomp features e.readAt e.readChunks opts prior seeds
    (r.result = .ok ∧ setLen r.output src.length = src ∧ (opts.blockDev = false → r.output = src)) ∨
      Collision H a.hashLength cks := by
  dsimp only
  have hrd : ∀ off size, 1 ≤ size → honestReadAt archive off size = e.readAt off size := by
    intro off size hsz
    obtain ⟨fr, rest, hsc⟩ := hat off size
    unfold HttpEnv.readAt
    rw [hsc, hserve, httpReadAt_honest archive e.retry off size fr rest hsz]
  have hinit' : tryInit H features e.readAt = .ok a := by
    rw [← tryInit_congr H features (honestReadAt archive) e.readAt hrd]; exact hinit
  have hch : ∀ st2, e.readChunks (cloneRanges a st2) = honestReadChunks archive (cloneRanges a st2) := by
    intro st2
    exact http_readChunks_honest archive e hserve _
      (cloneRanges_in_range H decomp features _ a archive hinit hs st2)
      (hscript _ (cloneRanges_sublist a st2))
  rw [run_congr H decomp features e.readAt (honestReadAt archive) e.readChunks
    (honestReadChunks archive) opts prior seeds a hinit' hinit hch]
  exact clone_complete_nojunk H hH decomp features archive opts prior seeds a src cks hinit hd hs hpin hdev

/-- Instance: every response of the chunk stream arrives completely (however fragmented) and
there are at least as many as the archive has descriptors. -/
theorem clone_http_complete_full (H : Bytes → Bytes) (hH : ∀ x, (H x).length = 64)
    (decomp : Nat → Bytes → Nat → Option Bytes) (features : List Nat)
    (archive : Bytes) (e : HttpEnv) (opts : CloneOpts) (prior : Bytes) (seeds : List Bytes)
    (a : Archive) (src : Bytes) (cks : List Bytes)
    (hserve : e.serve = honestServe archive)
    (hat : ∀ off size, ∃ frags rest, e.atScript off size = Resp.full frags :: rest)
    (hinit : tryInit H features (honestReadAt archive) = .ok a) (hd : Describes H a src cks)
    (hs : Stored H decomp a archive)
    (hpin : ∀ pin, opts.headerPin = some pin → pin = a.headerChecksum)
    (hdev : opts.blockDev = true → src.length ≤ prior.length)
    (hfull : ∀ r ∈ e.chunksScript, ∃ frags, r = Resp.full frags)
    (hlen : a.chunks.length ≤ e.chunksScript.length) :
    let r := Clone.run H decomp features e.readAt e.readChunks opts prior seeds
    (r.result = .ok ∧ setLen r.output src.length = src ∧ (opts.blockDev = false → r.output = src)) ∨
      Collision H a.hashLength cks :=
  clone_http_complete H hH decomp features archive e opts prior seeds a src cks hserve hat hinit hd
    hs hpin hdev (fun chunks hsub => fetchCompletes_of_full archive e.retry chunks e.chunksScript hfull
      (Nat.le_trans (maximalRuns_length_le chunks) (Nat.le_trans hsub.length_le
        (by simpa [archiveRanges] using hlen))))

/-- Instance: at most `--http-retry-count` failing responses in the whole chunk stream, no body
that ends early without an error, and at least as many complete responses as the archive has
descriptors. -/
theorem clone_http_complete_budget (H : Bytes → Bytes) (hH : ∀ x, (H x).length = 64)
    (decomp : Nat → Bytes → Nat → Option Bytes) (features : List Nat)
    (archive : Bytes) (e : HttpEnv) (opts : CloneOpts) (prior : Bytes) (seeds : List Bytes)
    (a : Archive) (src : Bytes) (cks : List Bytes)
    (hserve : e.serve = honestServe archive)
    (hat : ∀ off size, ∃ frags rest, e.atScript off size = Resp.full frags :: rest)
    (hinit : tryInit H features (honestReadAt archive) = .ok a) (hd : Describes H a src cks)
    (hs : Stored H decomp a archive)
    (hpin : ∀ pin, opts.headerPin = some pin → pin = a.headerChecksum)
    (hdev : opts.blockDev = true → src.length ≤ prior.length)
    (hbad : (e.chunksScript.filter (fun r => match r with | .full _ => false | .part _ _ cut => cut | .refuse => true)).length ≤ e.retry)
    (hnoend : ∀ r ∈ e.chunksScript, ∀ n frags, r ≠ Resp.part n frags false)
    (hlen : a.chunks.length ≤
      (e.chunksScript.filter (fun r => match r with | .full _ => true | _ => false)).length) :
    let r := Clone.run H decomp features e.readAt e.readChunks opts prior seeds
    (r.result = .ok ∧ setLen r.output src.length = src ∧ (opts.blockDev = false → r.output = src)) ∨
      Collision H a.hashLength cks :=
  clone_http_complete H hH decomp features archive e opts prior seeds a src cks hserve hat hinit hd
    hs hpin hdev (fun chunks hsub => fetchCompletes_of_budget archive e.retry chunks e.chunksScript
      hbad hnoend (Nat.le_trans (maximalRuns_length_le chunks) (Nat.le_trans hsub.length_le
        (by simpa [archiveRanges] using hlen))))

/-- **Completeness through the local reader** under any short-read / `Pending` behaviour that
eventually delivers. -/
theorem clone_io_complete (H : Bytes → Bytes) (hH : ∀ x, (H x).length = 64)
    (decomp : Nat → Bytes → Nat → Option Bytes) (features : List Nat)
    (e : IoEnv) (opts : CloneOpts) (prior : Bytes) (seeds : List Bytes)
    (a : Archive) (src : Bytes) (cks : List Bytes)
    (hat : ∀ off size, (∀ ev ∈ e.atScript off size, ev = ReadEv.pending ∨ ∃ n, 1 ≤ n ∧ ev = ReadEv.bytes n) ∧
      size ≤ ((e.atScript off size).filter (· ≠ ReadEv.pending)).length)
    (hcs : (∀ ev ∈ e.chunksScript, ev = ReadEv.pending ∨ ∃ n, 1 ≤ n ∧ ev = ReadEv.bytes n) ∧
      (a.chunks.map (·.archiveSize)).sum ≤ (e.chunksScript.filter (· ≠ ReadEv.pending)).length)
    (hinit : tryInit H features (honestReadAt e.file) = .ok a) (hd : Describes H a src cks)
    (hs : Stored H decomp a e.file)
    (hpin : ∀ pin, opts.headerPin = some pin → pin = a.headerChecksum)
    (hdev : opts.blockDev = true → src.length ≤ prior.length) :
    let r := Clone.run H decomp features e.readAt e.readChunks opts prior seeds
    (r.result = .ok ∧ setLen r.output src.length = src ∧ (opts.blockDev = false → r.output = src)) ∨
      Collision H a.hashLength cks := by
  dsimp only
  have hrd : ∀ off size, 1 ≤ size → honestReadAt e.file off size = e.readAt off size := by
    intro off size hsz
    unfold IoEnv.readAt
    rw [ioReadAt_honest e.file off size _ hsz (hat off size).1 (hat off size).2]
  have hinit' : tryInit H features e.readAt = .ok a := by
    rw [← tryInit_congr H features (honestReadAt e.file) e.readAt hrd]; exact hinit
  have hch : ∀ st2, e.readChunks (cloneRanges a st2) = honestReadChunks e.file (cloneRanges a st2) := by
    intro st2
    exact io_readChunks_honest e _ (cloneRanges_in_range H decomp features _ a e.file hinit hs st2)
      hcs.1 (Nat.le_trans (cloneRanges_sum_le a st2) hcs.2)
  rw [run_congr H decomp features e.readAt (honestReadAt e.file) e.readChunks
    (honestReadChunks e.file) opts prior seeds a hinit' hinit hch]
  exact clone_complete_nojunk H hH decomp features e.file opts prior seeds a src cks hinit hd hs hpin hdev

end Bita.Proofs
