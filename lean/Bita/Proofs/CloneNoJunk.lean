/-
  "Junk insensitivity": the headline theorems of the clone model without the escape clause for
  two different chunks of the *prior output* sharing a truncated hash.  If the shared key is the
  key of a source chunk, one of the two differs from that source chunk and `Collision` holds;
  if it is the key of no source chunk, the clone never looks at those chunks: `strip` and
  `reorderOps` consult the scanned index only under keys of the target index
  (`Planner.reorderOps_keep`).  The proof re-keys the junk chunks of the prior output (those
  whose truncated hash is no source key) by byte strings longer than any hash (which encode the
  chunk's offset), so that the re-keyed prior output is a genuine tiling, and shows that the
  run cannot tell the scanned index from the index of the re-keyed tiling.
-/
import Bita.Proofs.CloneWrites
import Bita.Proofs.CloneLength
import Bita.Proofs.PlannerFilter

namespace Bita.Proofs
open Bita Bita.Proto Bita.Spec Bita.Proofs.Exec

/-! ### `reorder_in_place` ignores scanned chunks the clone index does not name -/

theorem reorderInPlace_keep {κ : Type} [DecidableEq κ] (p : κ → Bool) (st : OutSt κ) (ixO : Index κ)
    (h : ∀ e ∈ st.index, p e.1 = true) :
    st.reorderInPlace (Planner.keep p ixO) = st.reorderInPlace ixO := by
  obtain ⟨f, ix, lg⟩ := st
  have htgt : ∀ k, (ixO.strip ix).1.contains k = true → p k = true := by
    intro k hk
    rw [Index.contains, get_isSome_iff] at hk
    obtain ⟨e, he, rfl⟩ := hk
    rw [Planner.strip_fst_eq_filterMap] at he
    obtain ⟨e0, he0, hs⟩ := List.mem_filterMap.1 he
    rw [Planner.stripEntry_key hs]
    exact h e0 he0
  rw [reorderInPlace_eq, reorderInPlace_eq, Planner.strip_keep p ixO ix h,
    Planner.reorderOps_keep p ixO _ htgt]

/-! ### Tilings keyed per chunk position -/

theorem placements_tiles_kf (content : Bytes → Bytes) (data : Bytes) (kf : Nat × Nat → Bytes) :
    ∀ (cs : List (Nat × Nat)) (s : Nat), Tiles cs s data.length →
      (∀ c ∈ cs, content (kf c) = slice data c.1 c.2) →
      (placements content (cs.map kf) s).map (fun e => (e.1, (content e.1).length, e.2)) =
        cs.map (fun c => (kf c, c.2, c.1)) := by
  intro cs
  induction cs with
  | nil => intro s _ _; simp [placements]
  | cons c cs ih =>
    intro s h hc
    obtain ⟨o, l⟩ := c
    have hm := tiles_mem _ _ _ h (o, l) (List.mem_cons_self ..)
    simp only [Tiles] at h
    obtain ⟨rfl, hl, ht⟩ := h
    have hcc := hc (o, l) (List.mem_cons_self ..)
    simp only at hcc hm
    have hlen : (slice data o l).length = l := by
      simp only [slice, List.length_take, List.length_drop]; omega
    simp only [List.map_cons, placements, hcc, hlen]
    rw [ih (o + l) ht (fun c' h' => hc c' (List.mem_cons_of_mem _ h'))]

theorem tiles_ge : ∀ (cs : List (Nat × Nat)) (s e : Nat), Tiles cs s e → ∀ c ∈ cs, s ≤ c.1 := by
  intro cs
  induction cs with
  | nil => intro s e _ c hc; cases hc
  | cons c0 cs ih =>
    intro s e h c hc
    obtain ⟨o, l⟩ := c0
    simp only [Tiles] at h
    rcases List.mem_cons.1 hc with rfl | hc
    · simp only; omega
    · have := ih _ _ h.2.2 c hc
      omega

/-- A chunk of a tiling is found by its offset. -/
theorem tiles_find : ∀ (cs : List (Nat × Nat)) (s e : Nat), Tiles cs s e →
    ∀ c ∈ cs, cs.find? (fun c' => c'.1 = c.1) = some c := by
  intro cs
  induction cs with
  | nil => intro s e _ c hc; cases hc
  | cons c0 cs ih =>
    intro s e h c hc
    obtain ⟨o, l⟩ := c0
    simp only [Tiles] at h
    rcases List.mem_cons.1 hc with rfl | hc
    · simp
    · have hge := tiles_ge _ _ _ h.2.2 c hc
      have hne : ¬ o = c.1 := by omega
      rw [List.find?_cons]
      simp only [hne, decide_false]
      exact ih _ _ h.2.2 c hc

/-! ### The re-keyed prior output -/

section
variable (H : Bytes → Bytes) (hl : Nat) (cfg : Config) (prior : Bytes) (cks : List Bytes)

/-- Key of the chunk `(offset, length)` of the prior output in the re-keyed tiling: its truncated
hash if that is the key of a source chunk, else a string no hash is as long as. -/
def njKey (c : Nat × Nat) : Bytes :=
  if ckey H hl (slice prior c.1 c.2) ∈ cks.map (ckey H hl) then ckey H hl (slice prior c.1 c.2)
  else List.replicate (65 + c.1) 0

/-- The content function of the re-keyed world. -/
def njContent (k : Bytes) : Bytes :=
  if k.length ≤ 64 then contentOf (ckey H hl) cks k
  else match (chunkAll cfg prior).find? (fun c => c.1 = k.length - 65) with
    | some c => slice prior c.1 c.2
    | none => []

theorem length_ckey_le (hhl : hl ≤ 64) (x : Bytes) : (ckey H hl x).length ≤ 64 := by
  rw [ckey, length_hashTruncate]; omega

theorem srcKey_length (hhl : hl ≤ 64) : ∀ k ∈ cks.map (ckey H hl), k.length ≤ 64 := by
  intro k hk
  obtain ⟨c, _, rfl⟩ := List.mem_map.1 hk
  exact length_ckey_le H hl hhl c

theorem njContent_src (hhl : hl ≤ 64) (hc : ¬ Collision H hl cks) :
    ∀ c ∈ cks, njContent H hl cfg prior cks (ckey H hl c) = c := by
  intro c hcm
  have hg := good_of_no_collision H hl cks hc
  unfold njContent
  rw [if_pos (length_ckey_le H hl hhl c)]
  exact contentOf_key (ckey H hl) cks (fun c1 _ c2 h2 hk => hg c2 h2 c1 hk) c hcm

theorem njContent_prior (hv : cfg.Valid) (hhl : hl ≤ 64) (hc : ¬ Collision H hl cks) :
    ∀ c ∈ chunkAll cfg prior,
      njContent H hl cfg prior cks (njKey H hl prior cks c) = slice prior c.1 c.2 := by
  intro c hcm
  unfold njKey
  split
  · rename_i hk
    obtain ⟨y, hy, hky⟩ := List.mem_map.1 hk
    have := good_of_no_collision H hl cks hc y hy (slice prior c.1 c.2) hky.symm
    rw [this]
    exact njContent_src H hl cfg prior cks hhl hc y hy
  · unfold njContent
    rw [if_neg (by rw [List.length_replicate]; omega), List.length_replicate]
    have : 65 + c.1 - 65 = c.1 := by omega
    rw [this, tiles_find _ _ _ (chunkAll_tiles cfg hv prior) c hcm]

theorem njKey_mem (hhl : hl ≤ 64) (k : Bytes) (hk : k ∈ cks.map (ckey H hl)) :
    k ∈ (chunkAll cfg prior).map (njKey H hl prior cks) ↔ k ∈ chunkKeys H cfg hl prior := by
  unfold chunkKeys
  simp only [List.mem_map]
  constructor
  · rintro ⟨c, hc, rfl⟩
    refine ⟨c, hc, ?_⟩
    unfold njKey at hk ⊢
    split
    · rfl
    · rename_i hn
      rw [if_neg hn] at hk
      have := srcKey_length H hl cks hhl _ hk
      rw [List.length_replicate] at this
      omega
  · rintro ⟨c, hc, rfl⟩
    refine ⟨c, hc, ?_⟩
    unfold njKey
    rw [if_pos hk]

/-- The scanned index and the index of the re-keyed tiling agree on the source keys. -/
theorem scanIndex_keep (hv : cfg.Valid) (hhl : hl ≤ 64) (hc : ¬ Collision H hl cks) :
    Planner.keep (fun k => decide (k ∈ cks.map (ckey H hl))) (scanIndex H cfg hl prior) =
      Planner.keep (fun k => decide (k ∈ cks.map (ckey H hl)))
        (indexOf (njContent H hl cfg prior cks) ((chunkAll cfg prior).map (njKey H hl prior cks))) := by
  have h := placements_tiles_kf (njContent H hl cfg prior cks) prior (njKey H hl prior cks)
    (chunkAll cfg prior) 0 (chunkAll_tiles cfg hv prior) (njContent_prior H hl cfg prior cks hv hhl hc)
  rw [indexOf_eq_foldl, h]
  have hscan : scanIndex H cfg hl prior =
      ((chunkAll cfg prior).map (fun c => (ckey H hl (slice prior c.1 c.2), c.2, c.1))).foldl
        (fun (ix : Index Bytes) (t : Bytes × Nat × Nat) => ix.addChunk t.1 t.2.1 [t.2.2]) [] := by
    rw [List.foldl_map]; rfl
  rw [hscan, Planner.foldl_addChunk_keep, Planner.foldl_addChunk_keep]
  congr 1
  generalize chunkAll cfg prior = cs
  induction cs with
  | nil => rfl
  | cons c cs ih =>
    simp only [List.map_cons, List.filter_cons]
    by_cases hk : ckey H hl (slice prior c.1 c.2) ∈ cks.map (ckey H hl)
    · have : njKey H hl prior cks c = ckey H hl (slice prior c.1 c.2) := by
        unfold njKey; rw [if_pos hk]
      rw [this]
      simp only [hk, decide_true, if_true]
      rw [ih]
    · have hnj : njKey H hl prior cks c = List.replicate (65 + c.1) 0 := by
        unfold njKey; rw [if_neg hk]
      have hk' : njKey H hl prior cks c ∉ cks.map (ckey H hl) := by
        intro hm
        have := srcKey_length H hl cks hhl _ hm
        rw [hnj, List.length_replicate] at this
        omega
      simp only [hk, hk', decide_false, Bool.false_eq_true, if_false]
      exact ih

end

/-! ### The state before the seeds, without assuming anything about junk chunks -/

/-- Options with `seedOutput = false`, under which `CloneSetup` asks nothing about the prior
output. -/
abbrev plainOpts : CloneOpts := {}

/-- What the four theorems need about the state before the seeds. -/
structure Phase1NJ (H : Bytes → Bytes) (a : Archive) (opts : CloneOpts) (prior src : Bytes)
    (cks : List Bytes) (content : Bytes → Bytes) (st1 : OutSt Bytes) : Prop where
  setup : CloneSetup H a plainOpts prior cks content
  hix : a.sourceIndex = some (indexOf content (cks.map (ckey H a.hashLength)))
  hst1 : cloneSt1 H a opts prior (indexOf content (cks.map (ckey H a.hashLength))) = some st1
  keys : ∀ k, k ∈ st1.index.keys ↔ (k ∈ cks.map (ckey H a.hashLength) ∧ k ∉ priorKeys H a opts prior)
  feed : ∀ ks, (∀ k ∈ st1.index.keys, k ∈ ks) → resize (feedAll content st1 ks).file src.length = src
  writes : ∀ ks,
    (∀ w ∈ writesOf (feedAll content st1 ks).log, w ∈ chunkPlacements cks 0) ∧
    ((writesOf (feedAll content st1 ks).log).map (·.1)).Nodup ∧
    (∀ w ∈ writesOf (feedAll content st1 ks).log, w.1 + w.2.length ≤ src.length) ∧
    (opts.seedOutput = true → ∀ w ∈ writesOf (feedAll content st1 ks).log,
      ∀ c ∈ chunkAll a.config prior, c.1 = w.1 → slice prior c.1 c.2 ≠ w.2)

theorem phase1_nojunk (H : Bytes → Bytes) (a : Archive) (opts : CloneOpts) (prior src : Bytes)
    (cks : List Bytes) (hd : Describes H a src cks) (hc : ¬ Collision H a.hashLength cks) :
    ∃ content st1, Phase1NJ H a opts prior src cks content st1 := by
  by_cases hso : opts.seedOutput = true
  · -- in place: the re-keyed world
    have hhl := hd.hash_len.2
    have hscan := scanIndex_keep H a.hashLength a.config prior cks hd.valid hhl hc
    have hsrc := njContent_src H a.hashLength a.config prior cks hhl hc
    have hpri := njContent_prior H a.hashLength a.config prior cks hd.valid hhl hc
    generalize njContent H a.hashLength a.config prior cks = content at hscan hsrc hpri
    obtain ⟨O', hO'⟩ : ∃ O', O' = (chunkAll a.config prior).map (njKey H a.hashLength prior cks) := ⟨_, rfl⟩
    rw [← hO'] at hscan
    have hset : CloneSetup H a plainOpts prior cks content :=
      ⟨hsrc, good_of_no_collision H a.hashLength cks hc, fun h => absurd h (by decide)⟩
    have hN := srcKeys_ne_nil H a plainOpts prior src cks content hd hset
    have hfile := fileOf_srcKeys H a plainOpts prior src cks content hd hset
    have hprior : fileOf content O' = prior := by
      have : (O'.map content) = chunksOf a.config prior := by
        simp only [hO', chunksOf, List.map_map]
        apply List.map_congr_left
        intro c hcm
        exact hpri c hcm
      unfold fileOf
      rw [this, chunksOf_flatten a.config hd.valid]
    have hne : ∀ k, k ∈ O' ∨ k ∈ cks.map (ckey H a.hashLength) → content k ≠ [] := by
      rintro k (hk | hk)
      · rw [hO'] at hk
        obtain ⟨c, hcm, rfl⟩ := List.mem_map.1 hk
        rw [hpri c hcm]
        exact chunksOf_ne_nil a.config hd.valid prior _ (List.mem_map.2 ⟨c, hcm, rfl⟩)
      · exact hN k hk
    obtain ⟨st1, ret, hre, hkeys, hfeed⟩ := inplace_exact content O' (cks.map (ckey H a.hashLength)) hne
    have hwl := fun ks => write_log_exact content O' (cks.map (ckey H a.hashLength)) hne ks st1 ret hre
    have hixN : ∀ e ∈ (OutSt.mk prior (indexOf content (cks.map (ckey H a.hashLength))) []).index,
        (fun k => decide (k ∈ cks.map (ckey H a.hashLength))) e.1 = true := by
      intro e he
      simp only [decide_eq_true_eq]
      exact (mem_indexOf content _ hN e he).2
    have hre' : (OutSt.mk prior (indexOf content (cks.map (ckey H a.hashLength))) []).reorderInPlace
        (scanIndex H a.config a.hashLength prior) = some (st1, ret) := by
      rw [← reorderInPlace_keep (fun k => decide (k ∈ cks.map (ckey H a.hashLength))) _ _ hixN,
        hscan,
        reorderInPlace_keep (fun k => decide (k ∈ cks.map (ckey H a.hashLength))) _ _ hixN]
      rw [hprior] at hre
      exact hre
    refine ⟨content, st1, hset, sourceIndex_eq H a src cks hd content hsrc, ?_, ?_, ?_, ?_⟩
    · simp only [cloneSt1, hso, if_true, hre', Option.map_some]
    · intro k
      rw [hkeys k, priorKeys, if_pos hso, hO']
      constructor
      · rintro ⟨h1, h2⟩
        exact ⟨h1, fun h => h2 ((njKey_mem H a.hashLength a.config prior cks hhl k h1).2 h)⟩
      · rintro ⟨h1, h2⟩
        exact ⟨h1, fun h => h2 ((njKey_mem H a.hashLength a.config prior cks hhl k h1).1 h)⟩
    · intro ks hks
      have := hfeed ks hks
      rwa [hfile] at this
    · intro ks
      obtain ⟨t1, t2, t3, t4⟩ := hwl ks
      rw [hfile] at t4
      refine ⟨?_, t2, t4, ?_⟩
      · intro w hw
        obtain ⟨k, hk, hwk⟩ := t1 w hw
        have := chunkPlacements_of_placements (ckey H a.hashLength) content cks 0 hsrc k w.1 hk
        rw [← hwk] at this
        exact this
      · intro _ w hw c hcm hoff heq
        obtain ⟨k, hk, hwk⟩ := t1 w hw
        apply t3 w hw k hk
        have hkm : k ∈ cks.map (ckey H a.hashLength) := (mem_placements content _ 0 (k, w.1) hk).2.2
        obtain ⟨y, hy, rfl⟩ := List.mem_map.1 hkm
        -- the prior chunk at that offset is the source chunk `y`, hence keeps its key
        have hsl : slice prior c.1 c.2 = y := by rw [heq, hwk, hsrc y hy]
        have hkey : njKey H a.hashLength prior cks c = ckey H a.hashLength y := by
          unfold njKey
          rw [hsl, if_pos hkm]
        have hpl := placements_tiles_kf content prior (njKey H a.hashLength prior cks)
          (chunkAll a.config prior) 0 (chunkAll_tiles a.config hd.valid prior) hpri
        have hm : (njKey H a.hashLength prior cks c, c.2, c.1) ∈
            (chunkAll a.config prior).map (fun c => (njKey H a.hashLength prior cks c, c.2, c.1)) :=
          List.mem_map.2 ⟨c, hcm, rfl⟩
        rw [← hpl, ← hO'] at hm
        obtain ⟨e, he, heq'⟩ := List.mem_map.1 hm
        simp only [Prod.mk.injEq] at heq'
        have : e = (ckey H a.hashLength y, w.1) := by
          apply Prod.ext
          · rw [heq'.1, hkey]
          · rw [heq'.2.2, hoff]
        rw [← this]
        exact he
  · -- plain: nothing is asked of the prior output anyway
    obtain ⟨content, hset⟩ := cloneSetup_exists H a opts prior cks hc (fun h => hso h.1)
    obtain ⟨hix, st1, hst1, hkeys, hfeed⟩ := clone_phase1 H a opts prior src cks content hd hset
    refine ⟨content, st1, ⟨hset.src_content, hset.good, fun h => absurd h (by decide)⟩, hix, hst1,
      hkeys, hfeed, ?_⟩
    intro ks
    obtain ⟨t1, t2, _, t4⟩ := clone_writes_tiling H a opts prior src cks content hd hset st1 hst1 ks
    refine ⟨?_, t2, t4, fun h => absurd h hso⟩
    intro w hw
    obtain ⟨k, hk, hwk⟩ := t1 w hw
    have := chunkPlacements_of_placements (ckey H a.hashLength) content cks 0 hset.src_content k w.1 hk
    rw [← hwk] at this
    exact this

/-- `fetchList_eq` with the keys of the state before the seeds described for `opts`, the content
function being right on the source only. -/
theorem fetchList_eq_nojunk (H : Bytes → Bytes) (a : Archive) (opts : CloneOpts) (prior src : Bytes)
    (cks : List Bytes) (content : Bytes → Bytes) (seeds : List Bytes) (st1 : OutSt Bytes)
    (hH : ∀ x, (H x).length = 64) (hd : Describes H a src cks)
    (hset : CloneSetup H a plainOpts prior cks content)
    (hkeys : ∀ k, k ∈ st1.index.keys ↔ (k ∈ cks.map (ckey H a.hashLength) ∧ k ∉ priorKeys H a opts prior)) :
    a.fetchList (cloneSt2 H a seeds st1).index =
      a.chunks.filter (fun d => !(priorKeys H a opts prior ++
        seeds.flatMap (chunkKeys H a.config a.hashLength)).contains (hashTruncate d.checksum a.hashLength)) := by
  rw [clone_phase2 H a plainOpts prior cks content seeds st1 hset (fun k hk => ((hkeys k).1 hk).1)]
  unfold Archive.fetchList
  apply List.filter_congr
  intro d hdm
  obtain ⟨_, h2, h3⟩ := descr_key H a src cks hH hd d hdm
  rw [h2]
  rw [Bool.eq_iff_iff, contains_iff_mem_keys, keys_feedAll, hkeys]
  simp only [Bool.not_eq_true', List.contains_eq_mem, List.mem_append, decide_eq_false_iff_not, not_or]
  constructor
  · rintro ⟨⟨_, h⟩, h'⟩; exact ⟨h, h'⟩
  · rintro ⟨h, h'⟩; exact ⟨⟨h3, h⟩, h'⟩

/-! ### The theorems -/

/-- **Soundness**, the only escape being a collision with a source chunk. -/
theorem clone_sound_nojunk (H : Bytes → Bytes) (hH : ∀ x, (H x).length = 64)
    (decomp : Nat → Bytes → Nat → Option Bytes) (features : List Nat)
    (readAt : Nat → Nat → Option Bytes) (readChunks : List (Nat × Nat) → List (Option Bytes))
    (opts : CloneOpts) (prior : Bytes) (seeds : List Bytes)
    (a : Archive) (src : Bytes) (cks : List Bytes)
    (hinit : tryInit H features readAt = .ok a) (hd : Describes H a src cks)
    (hitems : ∀ ranges, (readChunks ranges).length = ranges.length) :
    let r := Clone.run H decomp features readAt readChunks opts prior seeds
    r.result = .ok →
      (setLen r.output src.length = src ∧ (opts.blockDev = false → r.output = src)) ∨
      Collision H a.hashLength cks := by
  dsimp only
  intro hr
  by_cases hc : Collision H a.hashLength cks
  · exact Or.inr hc
  left
  obtain ⟨content, st1, P⟩ := phase1_nojunk H a opts prior src cks hd hc
  obtain ⟨ix, st1', st3, hix', hst1', h3, ho, _, _⟩ :=
    run_ok_inv H decomp features readAt readChunks opts prior seeds a hinit hr
  rw [P.hix] at hix'
  cases hix'
  rw [P.hst1] at hst1'
  have hst11 := Option.some.inj hst1'
  subst hst11
  obtain ⟨ks, hks, hcov⟩ := clone_phase3 H a plainOpts prior src cks content seeds st1 hH hd P.setup
    (fun k hk => ((P.keys k).1 hk).1) decomp readChunks hitems st3 h3
  rw [ho]
  apply cloneOutput_correct opts a st3 src hd.total
  rw [hks]
  exact P.feed ks hcov

/-- **Completeness**, the only escape being a collision with a source chunk. -/
theorem clone_complete_nojunk (H : Bytes → Bytes) (hH : ∀ x, (H x).length = 64)
    (decomp : Nat → Bytes → Nat → Option Bytes) (features : List Nat)
    (archive : Bytes) (opts : CloneOpts) (prior : Bytes) (seeds : List Bytes)
    (a : Archive) (src : Bytes) (cks : List Bytes)
    (hinit : tryInit H features (honestReadAt archive) = .ok a) (hd : Describes H a src cks)
    (hs : Stored H decomp a archive)
    (hpin : ∀ pin, opts.headerPin = some pin → pin = a.headerChecksum)
    (hdev : opts.blockDev = true → src.length ≤ prior.length) :
    let r := Clone.run H decomp features (honestReadAt archive) (honestReadChunks archive) opts prior seeds
    (r.result = .ok ∧ setLen r.output src.length = src ∧ (opts.blockDev = false → r.output = src)) ∨
      Collision H a.hashLength cks := by
  dsimp only
  by_cases hc : Collision H a.hashLength cks
  · exact Or.inr hc
  left
  obtain ⟨content, st1, P⟩ := phase1_nojunk H a opts prior src cks hd hc
  have hitems : ∀ ranges, (honestReadChunks archive ranges).length = ranges.length :=
    fun ranges => List.length_map _
  have hnone : (cloneSt3 H decomp (honestReadChunks archive) a (cloneSt2 H a seeds st1)).2 = none :=
    feedArchive_honest H decomp a archive hs _ _ (fun d h => (List.mem_filter.1 h).1)
  have h3 : cloneSt3 H decomp (honestReadChunks archive) a (cloneSt2 H a seeds st1) =
      ((cloneSt3 H decomp (honestReadChunks archive) a (cloneSt2 H a seeds st1)).1, none) :=
    Prod.ext rfl hnone
  obtain ⟨ks, hks, hcov⟩ := clone_phase3 H a plainOpts prior src cks content seeds st1 hH hd P.setup
    (fun k hk => ((P.keys k).1 hk).1) decomp (honestReadChunks archive) hitems _ h3
  have hres : resize (cloneSt3 H decomp (honestReadChunks archive) a (cloneSt2 H a seeds st1)).1.file
      src.length = src := by
    rw [hks]; exact P.feed ks hcov
  obtain ⟨ho1, ho2⟩ := cloneOutput_correct opts a _ src hd.total hres
  have hpin' : clonePinBad opts a = false := by
    unfold clonePinBad
    cases hp : opts.headerPin with
    | none => rfl
    | some pin => simp [hpin pin hp]
  have hdev' : ¬ (opts.blockDev ∧ prior.length < a.sourceTotalSize) := by
    rintro ⟨h1, h2⟩
    have := hdev h1
    rw [hd.total] at h2
    omega
  obtain ⟨hr, ho⟩ := run_ok_intro H decomp features (honestReadAt archive) (honestReadChunks archive)
    opts prior seeds a hinit _ st1 _ P.hix (banner_no_panic a hd.valid) hpin' hdev' P.hst1 h3
    (by
      intro _
      rw [cloneHashed_correct opts a _ src hd.total ho1 (fun hb => Nat.le_trans (hdev hb)
        (cloneStages_length_le H decomp (honestReadChunks archive) a opts prior seeds _ st1 P.hst1)),
        hd.checksum]
      exact hashTruncate_of_le _ _ (Nat.le_refl _))
  rw [ho]
  exact ⟨hr, ho1, ho2⟩

set_option linter.unusedVariables false in
/-- **Fetch exactness**, the only escape being a collision with a source chunk. -/
theorem fetch_exact_nojunk (H : Bytes → Bytes) (hH : ∀ x, (H x).length = 64)
    (decomp : Nat → Bytes → Nat → Option Bytes) (features : List Nat)
    (readAt : Nat → Nat → Option Bytes) (readChunks : List (Nat × Nat) → List (Option Bytes))
    (opts : CloneOpts) (prior : Bytes) (seeds : List Bytes)
    (a : Archive) (src : Bytes) (cks : List Bytes)
    (hinit : tryInit H features readAt = .ok a) (hd : Describes H a src cks)
    (hitems : ∀ ranges, (readChunks ranges).length = ranges.length) :
    let r := Clone.run H decomp features readAt readChunks opts prior seeds
    r.result = .ok →
      r.requests = [ArchReq.readAt 0 Gen.preHeaderSize,
                    ArchReq.readAt Gen.preHeaderSize (a.headerSize - Gen.preHeaderSize),
                    ArchReq.readChunks ((a.chunks.filter (fun d =>
                      !(foundKeys H a opts prior seeds).contains (hashTruncate d.checksum a.hashLength))).map
                      (fun d => (d.archiveOffset, d.archiveSize)))] ∨
      Collision H a.hashLength cks := by
  dsimp only
  intro hr
  by_cases hc : Collision H a.hashLength cks
  · exact Or.inr hc
  left
  obtain ⟨content, st1, P⟩ := phase1_nojunk H a opts prior src cks hd hc
  obtain ⟨ix, st1', st3, hix', hst1', _, _, hq, _⟩ :=
    run_ok_inv H decomp features readAt readChunks opts prior seeds a hinit hr
  rw [P.hix] at hix'
  cases hix'
  rw [P.hst1] at hst1'
  have hst11 := Option.some.inj hst1'
  subst hst11
  have hge := tryInit_headerSize_ge H features readAt a hinit
  rw [hq, cloneRanges, fetchList_eq_nojunk H a opts prior src cks content seeds st1 hH hd P.setup P.keys,
    foundKeys_eq, cloneHdrReqs]
  have : a.headerSize - Gen.preHeaderSize - 72 + 72 = a.headerSize - Gen.preHeaderSize := by omega
  rw [this]
  rfl

set_option linter.unusedVariables false in
/-- **Write log of a clone**, the only escape being a collision with a source chunk. -/
theorem clone_write_log_exact_nojunk (H : Bytes → Bytes) (hH : ∀ x, (H x).length = 64)
    (decomp : Nat → Bytes → Nat → Option Bytes) (features : List Nat)
    (readAt : Nat → Nat → Option Bytes) (readChunks : List (Nat × Nat) → List (Option Bytes))
    (opts : CloneOpts) (prior : Bytes) (seeds : List Bytes)
    (a : Archive) (src : Bytes) (cks : List Bytes)
    (hinit : tryInit H features readAt = .ok a) (hd : Describes H a src cks) :
    let W := writesOf (Clone.run H decomp features readAt readChunks opts prior seeds).log
    ((∀ w ∈ W, w ∈ chunkPlacements cks 0) ∧
     (W.map (·.1)).Nodup ∧
     (∀ w ∈ W, w.1 + w.2.length ≤ src.length) ∧
     (opts.seedOutput = true → ∀ w ∈ W, ∀ c ∈ chunkAll a.config prior,
        c.1 = w.1 → slice prior c.1 c.2 ≠ w.2)) ∨
    Collision H a.hashLength cks := by
  dsimp only
  by_cases hc : Collision H a.hashLength cks
  · exact Or.inr hc
  left
  rcases run_log H decomp features readAt readChunks opts prior seeds a hinit with hlog | hlog
  · rw [hlog]
    simp [writesOf]
  obtain ⟨ix, st1', hix', hst1', hlog⟩ := hlog
  obtain ⟨content, st1, P⟩ := phase1_nojunk H a opts prior src cks hd hc
  rw [P.hix] at hix'
  cases hix'
  rw [P.hst1] at hst1'
  have hst11 := Option.some.inj hst1'
  subst hst11
  have hsub : ∀ k ∈ st1.index.keys, k ∈ cks.map (ckey H a.hashLength) := fun k hk => ((P.keys k).1 hk).1
  have h2 := clone_phase2 H a plainOpts prior cks content seeds st1 P.setup hsub
  have hg1 := goodSt_of_keys H a plainOpts prior cks content st1 P.setup hsub
  have hg2 : GoodSt (ckey H a.hashLength) content (cloneSt2 H a seeds st1) := by
    rw [h2]; exact goodSt_feedAll _ _ st1 hg1 _
  obtain ⟨ks3, hks3⟩ := feedArchive_feeds H decomp a content
    (a.fetchList (cloneSt2 H a seeds st1).index)
    (readChunks (cloneRanges a (cloneSt2 H a seeds st1))) (cloneSt2 H a seeds st1) hg2
  have hst3 : (cloneSt3 H decomp readChunks a (cloneSt2 H a seeds st1)).1 =
      feedAll content st1 (seeds.flatMap (chunkKeys H a.config a.hashLength) ++ ks3) := by
    unfold cloneSt3
    rw [hks3, feedAll_append, ← h2]
  rw [hlog, hst3]
  exact P.writes _

end Bita.Proofs
