/-
  Control flow of `Clone.run`: the run written with named stages, an inversion lemma for a
  successful run and an introduction lemma.
-/
import Bita.Model.Clone

namespace Bita.Proofs
open Bita

/-- The output state before the seeds are read (`none`: the in-place reordering failed). -/
def cloneSt1 (H : Bytes → Bytes) (a : Archive) (opts : CloneOpts) (prior : Bytes) (ix : Index Bytes) :
    Option (OutSt Bytes) :=
  if opts.seedOutput then
    ((OutSt.mk prior ix []).reorderInPlace (scanIndex H a.config a.hashLength prior)).map (·.1)
  else some ⟨prior, ix, []⟩

/-- The output state after the seeds. -/
def cloneSt2 (H : Bytes → Bytes) (a : Archive) (seeds : List Bytes) (st1 : OutSt Bytes) : OutSt Bytes :=
  seeds.foldl (feedSeed H a.config a.hashLength) st1

def cloneRanges (a : Archive) (st2 : OutSt Bytes) : List (Nat × Nat) :=
  (a.fetchList st2.index).map fun d => (d.archiveOffset, d.archiveSize)

def cloneOutput (opts : CloneOpts) (a : Archive) (st3 : OutSt Bytes) : Bytes :=
  if opts.blockDev then st3.file else setLen st3.file a.sourceTotalSize

/-- What `--verify-output` hashes: the first `source_total_size` bytes of the output (F17 repair,
`Gen.verifyHashesSourceSizeOnly`). -/
def cloneHashed (opts : CloneOpts) (a : Archive) (st3 : OutSt Bytes) : Bytes :=
  if Gen.verifyHashesSourceSizeOnly then (cloneOutput opts a st3).take a.sourceTotalSize
  else cloneOutput opts a st3

theorem cloneHashed_eq (opts : CloneOpts) (a : Archive) (st3 : OutSt Bytes) :
    cloneHashed opts a st3 = (cloneOutput opts a st3).take a.sourceTotalSize := by
  have hfact : Gen.verifyHashesSourceSizeOnly = true := by decide
  unfold cloneHashed
  rw [if_pos hfact]

def cloneHdrReqs (a : Archive) : List ArchReq :=
  [ArchReq.readAt 0 Gen.preHeaderSize,
   ArchReq.readAt Gen.preHeaderSize (a.headerSize - Gen.preHeaderSize - 72 + 72)]

def clonePinBad (opts : CloneOpts) (a : Archive) : Bool :=
  match opts.headerPin with | some pin => decide (pin ≠ a.headerChecksum) | none => false

/-- What the archive phase returns. -/
def cloneSt3 (H : Bytes → Bytes) (decomp : Nat → Bytes → Nat → Option Bytes)
    (readChunks : List (Nat × Nat) → List (Option Bytes)) (a : Archive) (st2 : OutSt Bytes) :
    OutSt Bytes × Option String :=
  feedArchive H decomp a st2 (a.fetchList st2.index) (readChunks (cloneRanges a st2))

/-- The run from the seeds on. -/
def cloneTail (H : Bytes → Bytes) (decomp : Nat → Bytes → Nat → Option Bytes)
    (readChunks : List (Nat × Nat) → List (Option Bytes))
    (opts : CloneOpts) (seeds : List Bytes) (a : Archive) (st1 : OutSt Bytes) : CloneOut :=
  let st2 := cloneSt2 H a seeds st1
  let r := cloneSt3 H decomp readChunks a st2
  let reqs := cloneHdrReqs a ++ [ArchReq.readChunks (cloneRanges a st2)]
  match r.2 with
  | some w => ⟨.err w, r.1.file, r.1.log, reqs⟩
  | none =>
    if opts.verifyOutput ∧ hashTruncate (H (cloneHashed opts a r.1)) a.sourceChecksum.length ≠ a.sourceChecksum then
      ⟨.err "checksum mismatch", cloneOutput opts a r.1, r.1.log, reqs⟩
    else ⟨.ok, cloneOutput opts a r.1, r.1.log, reqs⟩

theorem run_eq (H : Bytes → Bytes) (decomp : Nat → Bytes → Nat → Option Bytes) (features : List Nat)
    (readAt : Nat → Nat → Option Bytes) (readChunks : List (Nat × Nat) → List (Option Bytes))
    (opts : CloneOpts) (prior : Bytes) (seeds : List Bytes) (a : Archive)
    (hinit : tryInit H features readAt = .ok a) :
    Clone.run H decomp features readAt readChunks opts prior seeds =
      match a.sourceIndex, a.banner with
      | none, _ => ⟨.panic "rebuild order index", prior, [], cloneHdrReqs a⟩
      | _, .panic s => ⟨.panic s, prior, [], cloneHdrReqs a⟩
      | some ix, _ =>
        if clonePinBad opts a then ⟨.err "header checksum mismatch", prior, [], cloneHdrReqs a⟩
        else if opts.blockDev ∧ prior.length < a.sourceTotalSize then
          ⟨.err "output device too small", prior, [], cloneHdrReqs a⟩
        else match cloneSt1 H a opts prior ix with
          | none => ⟨.err "failed to clone in place", prior, [], cloneHdrReqs a⟩
          | some st1 => cloneTail H decomp readChunks opts seeds a st1 := by
  unfold Clone.run
  simp only [hinit]
  rfl

theorem cloneTail_ok_inv (H : Bytes → Bytes) (decomp : Nat → Bytes → Nat → Option Bytes)
    (readChunks : List (Nat × Nat) → List (Option Bytes))
    (opts : CloneOpts) (seeds : List Bytes) (a : Archive) (st1 : OutSt Bytes)
    (hr : (cloneTail H decomp readChunks opts seeds a st1).result = .ok) :
    ∃ st3, cloneSt3 H decomp readChunks a (cloneSt2 H a seeds st1) = (st3, none) ∧
      (cloneTail H decomp readChunks opts seeds a st1).output = cloneOutput opts a st3 ∧
      (cloneTail H decomp readChunks opts seeds a st1).requests =
        cloneHdrReqs a ++ [ArchReq.readChunks (cloneRanges a (cloneSt2 H a seeds st1))] ∧
      (opts.verifyOutput = true →
        hashTruncate (H (cloneHashed opts a st3)) a.sourceChecksum.length = a.sourceChecksum) := by
  revert hr
  unfold cloneTail
  dsimp only
  generalize cloneSt3 H decomp readChunks a (cloneSt2 H a seeds st1) = r
  obtain ⟨st3, e⟩ := r
  cases e with
  | some w => simp
  | none =>
    dsimp only
    split
    · simp
    · rename_i hv
      intro _
      refine ⟨st3, rfl, rfl, rfl, ?_⟩
      intro hvo
      simpa [hvo] using hv

theorem cloneTail_ok_intro (H : Bytes → Bytes) (decomp : Nat → Bytes → Nat → Option Bytes)
    (readChunks : List (Nat × Nat) → List (Option Bytes))
    (opts : CloneOpts) (seeds : List Bytes) (a : Archive) (st1 st3 : OutSt Bytes)
    (h3 : cloneSt3 H decomp readChunks a (cloneSt2 H a seeds st1) = (st3, none))
    (hv : opts.verifyOutput = true →
        hashTruncate (H (cloneHashed opts a st3)) a.sourceChecksum.length = a.sourceChecksum) :
    (cloneTail H decomp readChunks opts seeds a st1).result = .ok ∧
      (cloneTail H decomp readChunks opts seeds a st1).output = cloneOutput opts a st3 := by
  unfold cloneTail
  dsimp only
  rw [h3]
  dsimp only
  split
  · rename_i h
    exact absurd (hv h.1) h.2
  · exact ⟨rfl, rfl⟩

/-- A successful run went through every stage. -/
theorem run_ok_inv (H : Bytes → Bytes) (decomp : Nat → Bytes → Nat → Option Bytes) (features : List Nat)
    (readAt : Nat → Nat → Option Bytes) (readChunks : List (Nat × Nat) → List (Option Bytes))
    (opts : CloneOpts) (prior : Bytes) (seeds : List Bytes) (a : Archive)
    (hinit : tryInit H features readAt = .ok a)
    (hr : (Clone.run H decomp features readAt readChunks opts prior seeds).result = .ok) :
    ∃ ix st1 st3, a.sourceIndex = some ix ∧ cloneSt1 H a opts prior ix = some st1 ∧
      cloneSt3 H decomp readChunks a (cloneSt2 H a seeds st1) = (st3, none) ∧
      (Clone.run H decomp features readAt readChunks opts prior seeds).output = cloneOutput opts a st3 ∧
      (Clone.run H decomp features readAt readChunks opts prior seeds).requests =
        cloneHdrReqs a ++ [ArchReq.readChunks (cloneRanges a (cloneSt2 H a seeds st1))] ∧
      (opts.verifyOutput = true →
        hashTruncate (H (cloneHashed opts a st3)) a.sourceChecksum.length = a.sourceChecksum) := by
  rw [run_eq H decomp features readAt readChunks opts prior seeds a hinit] at hr ⊢
  revert hr
  split
  · simp
  · simp
  · rename_i ix hix _
    split
    · simp
    · split
      · simp
      · split
        · simp
        · rename_i st1 hst1
          intro hr
          obtain ⟨st3, h3, ho, hq, hv⟩ := cloneTail_ok_inv H decomp readChunks opts seeds a st1 hr
          exact ⟨ix, st1, st3, hix, hst1, h3, ho, hq, hv⟩

/-- Every stage passes: the run succeeds. -/
theorem run_ok_intro (H : Bytes → Bytes) (decomp : Nat → Bytes → Nat → Option Bytes) (features : List Nat)
    (readAt : Nat → Nat → Option Bytes) (readChunks : List (Nat × Nat) → List (Option Bytes))
    (opts : CloneOpts) (prior : Bytes) (seeds : List Bytes) (a : Archive)
    (hinit : tryInit H features readAt = .ok a)
    (ix : Index Bytes) (st1 st3 : OutSt Bytes)
    (hix : a.sourceIndex = some ix) (hb : ∀ s, a.banner ≠ .panic s)
    (hpin : clonePinBad opts a = false)
    (hdev : ¬ (opts.blockDev ∧ prior.length < a.sourceTotalSize))
    (h1 : cloneSt1 H a opts prior ix = some st1)
    (h3 : cloneSt3 H decomp readChunks a (cloneSt2 H a seeds st1) = (st3, none))
    (hv : opts.verifyOutput = true →
        hashTruncate (H (cloneHashed opts a st3)) a.sourceChecksum.length = a.sourceChecksum) :
    (Clone.run H decomp features readAt readChunks opts prior seeds).result = .ok ∧
      (Clone.run H decomp features readAt readChunks opts prior seeds).output = cloneOutput opts a st3 := by
  rw [run_eq H decomp features readAt readChunks opts prior seeds a hinit]
  split
  · rename_i h; rw [hix] at h; cases h
  · rename_i h _; exact absurd h (hb _)
  · rename_i ix' hix' _
    rw [hix] at hix'
    cases hix'
    rw [hpin, if_neg (by simp), if_neg hdev, h1]
    exact cloneTail_ok_intro H decomp readChunks opts seeds a st1 st3 h3 hv

end Bita.Proofs
