/-
  Helper lemmas for `Bita.Proofs.TryInit`: little-endian fields, the outcome shapes of the two
  dictionary converters, and the inversion / construction lemmas of `tryInit`.
-/
import Bita.Model.Archive
import Bita.Model.Clone
import Bita.Spec.ArchiveSpec

namespace Bita.Proofs
open Bita Bita.Proto Bita.Spec

theorem le64_length (n : Nat) : (le64 n).length = 8 := by simp [le64]

theorem fromLe_le64_mod (n : Nat) : fromLe (le64 n) = n % 2 ^ 64 := by
  simp [le64, fromLe, List.range, List.range.loop]
  omega

theorem fromLe_le64 (n : Nat) (h : n < 2 ^ 64) : fromLe (le64 n) = n := by
  rw [fromLe_le64_mod]; exact Nat.mod_eq_of_lt h

theorem magicBytes_length : magicBytes.length = 6 := by decide

theorem hashTruncate_length_le (h : Bytes) (n : Nat) : (hashTruncate h n).length ≤ n := by
  unfold hashTruncate; split
  · simp; omega
  · omega

theorem compressionFromDict_cases (features : List Nat) (c : ChunkCompression) :
    (∃ r, compressionFromDict features c = .ok r) ∨ (∃ w, compressionFromDict features c = .invalid w) := by
  unfold compressionFromDict
  repeat' split
  all_goals simp

theorem configFromParams_cases (p : ChunkerParameters) :
    (∃ r, configFromParams p = .ok r) ∨ (∃ w, configFromParams p = .invalid w) := by
  unfold configFromParams
  dsimp only
  repeat' split
  all_goals simp

theorem configFromParams_ok {p : ChunkerParameters} {cfg : Config} (h : configFromParams p = .ok cfg) :
    configAccepted cfg = true := by
  unfold configFromParams at h
  dsimp only at h
  split at h
  · simp at h
  · split at h
    · simp at h; subst h; assumption
    · simp at h

/-- The dictionary size a pre-header declares. -/
def tiDictSize (pre : Bytes) : Nat := fromLe ((pre.drop magicBytes.length).take 8)

/-- The chunk data offset a header declares. -/
def tiCdo (pre rest : Bytes) : Nat :=
  fromLe (((pre ++ rest).drop (Gen.preHeaderSize + tiDictSize pre)).take 8)

/-- The record `tryInit` builds on success. -/
def tiArchive (pre rest : Bytes) (dict : ChunkDictionary) (params : ChunkerParameters)
    (compr : Compr) (cfg : Config) : Archive :=
  { chunks := dict.chunkDescriptors.map fun d =>
      (⟨hashTruncate d.checksum Gen.hashMaxLen, d.archiveSize, tiCdo pre rest + d.archiveOffset, d.sourceSize⟩ : Descr)
    sourceOrder := dict.rebuildOrder, headerSize := (pre ++ rest).length
    headerChecksum := ((pre ++ rest).drop (Gen.preHeaderSize + tiDictSize pre + 8)).take 64
    compression := compr, version := dict.applicationVersion
    chunkDataOffset := tiCdo pre rest, sourceTotalSize := dict.sourceTotalSize
    sourceChecksum := hashTruncate dict.sourceChecksum Gen.hashMaxLen
    config := cfg, hashLength := params.chunkHashLength, metadata := dict.metadata }

/-- The guards a successful `tryInit` has passed. -/
structure TiOk (H : Bytes → Bytes) (features : List Nat) (read : Nat → Nat → Option Bytes)
    (pre rest : Bytes) (dict : ChunkDictionary) (params : ChunkerParameters) (cc : ChunkCompression)
    (compr : Compr) (cfg : Config) : Prop where
  hpre : read 0 Gen.preHeaderSize = some pre
  hmagic : pre.take magicBytes.length = magicBytes ∨ pre.take magicBytes.length = legacyMagicBytes
  hprelen : Gen.preHeaderSize ≤ pre.length
  hds : tiDictSize pre + 72 ≤ usizeMax
  /-- the header ENDS within 64 bits (F14 repair: `Gen.headerEndChecked`) -/
  hend : Gen.preHeaderSize + tiDictSize pre + 72 ≤ usizeMax
  hrest : read Gen.preHeaderSize (tiDictSize pre + 72) = some rest
  hhl : Gen.preHeaderSize + tiDictSize pre + 8 + 64 ≤ (pre ++ rest).length
  hck : ((pre ++ rest).drop (Gen.preHeaderSize + tiDictSize pre + 8)).take 64 =
    H ((pre ++ rest).take (Gen.preHeaderSize + tiDictSize pre + 8))
  hdict : decodeDictionary (((pre ++ rest).drop Gen.preHeaderSize).take (tiDictSize pre)) = some dict
  /-- the END of every stored chunk fits 64 bits (F12 repair: `Gen.chunkEndOffsetChecked`) -/
  hoff : ∀ d ∈ dict.chunkDescriptors, tiCdo pre rest + d.archiveOffset + d.archiveSize ≤ usizeMax
  hsz : ∀ d ∈ dict.chunkDescriptors, d.archiveSize ≠ 0
  hparams : dict.chunkerParams = some params
  /-- hash length 1..=64 (F20 repair: `Gen.hashLengthChecked`) -/
  hhash : 1 ≤ params.chunkHashLength ∧ params.chunkHashLength ≤ 64
  hord : ∀ i ∈ dict.rebuildOrder, i < dict.chunkDescriptors.length
  /-- the chunks in rebuild order add up to the declared source size (F18 repair:
  `Gen.sourceSizeSumChecked`) -/
  hsum : (dict.rebuildOrder.map fun i => ((dict.chunkDescriptors[i]?).map (·.sourceSize)).getD 0).sum =
    dict.sourceTotalSize
  hcc : dict.chunkCompression = some cc
  hcompr : compressionFromDict features cc = .ok compr
  hcfg : configFromParams params = .ok cfg

/-- The size sum over the converted descriptors is the size sum over the dictionary's. -/
theorem tiSum_map (ds : List ChunkDescriptor) (f : ChunkDescriptor → Descr)
    (hf : ∀ d, (f d).sourceSize = d.sourceSize) (order : List Nat) :
    (order.map fun i => (((ds.map f)[i]?).map (·.sourceSize)).getD 0) =
      (order.map fun i => ((ds[i]?).map (·.sourceSize)).getD 0) := by
  apply List.map_congr_left
  intro i _
  rw [List.getElem?_map]
  cases ds[i]? with
  | none => rfl
  | some d => simp [hf]

theorem ite_eq_cases {α : Type} {c : Prop} [Decidable c] {a b out : α}
    (h : (if c then a else b) = out) : (c ∧ a = out) ∨ (¬c ∧ b = out) := by
  by_cases hc : c
  · rw [if_pos hc] at h; exact Or.inl ⟨hc, h⟩
  · rw [if_neg hc] at h; exact Or.inr ⟨hc, h⟩

/-- Every way `tryInit` can end: success with all guards passed, a reported error, or one of the
two slice panics (which need a reader that hands out fewer bytes than asked for). -/
theorem tryInit_cases {H : Bytes → Bytes} {features : List Nat} {read : Nat → Nat → Option Bytes}
    {out : Outcome Archive} (h : tryInit H features read = out) :
    (∃ pre rest dict params cc compr cfg,
      TiOk H features read pre rest dict params cc compr cfg ∧
      out = .ok (tiArchive pre rest dict params compr cfg)) ∨
    (∃ w, out = .invalid w) ∨ out = .readerErr ∨
    (∃ pre s, read 0 Gen.preHeaderSize = some pre ∧ pre.length < Gen.preHeaderSize ∧ out = .panic s) ∨
    (∃ pre rest s, read 0 Gen.preHeaderSize = some pre ∧
      read Gen.preHeaderSize (tiDictSize pre + 72) = some rest ∧
      (pre ++ rest).length < Gen.preHeaderSize + tiDictSize pre + 8 + 64 ∧ out = .panic s) := by
  have hf1 : Gen.chunkEndOffsetChecked = true := by decide
  have hf2 : Gen.headerEndChecked = true := by decide
  have hf3 : Gen.hashLengthChecked = true := by decide
  have hf4 : Gen.sourceSizeSumChecked = true := by decide
  have hps : Gen.preHeaderSize = 14 := rfl
  have hml : Gen.hashMaxLen = 64 := rfl
  unfold tryInit at h
  cases hpre : read 0 Gen.preHeaderSize with
  | none => rw [hpre] at h; exact Or.inr (Or.inr (Or.inl h.symm))
  | some pre =>
  rw [hpre] at h
  dsimp only at h
  replace h := ite_eq_cases h
  rcases h with ⟨c1, h⟩ | ⟨c1, h⟩
  · exact Or.inr (Or.inl ⟨_, h.symm⟩)
  replace h := ite_eq_cases h
  rcases h with ⟨c2, h⟩ | ⟨c2, h⟩
  · exact Or.inr (Or.inl ⟨_, h.symm⟩)
  replace h := ite_eq_cases h
  rcases h with ⟨c3, h⟩ | ⟨c3, h⟩
  · exact Or.inr (Or.inr (Or.inr (Or.inl ⟨pre, _, rfl, c3, h.symm⟩)))
  replace h := ite_eq_cases h
  rcases h with ⟨c4, h⟩ | ⟨c4, h⟩
  · exact Or.inr (Or.inl ⟨_, h.symm⟩)
  cases hrest : read Gen.preHeaderSize (fromLe ((pre.drop magicBytes.length).take 8) + 72) with
  | none => rw [hrest] at h; exact Or.inr (Or.inr (Or.inl h.symm))
  | some rest =>
  rw [hrest] at h
  dsimp only at h
  replace h := ite_eq_cases h
  rcases h with ⟨c5, h⟩ | ⟨c5, h⟩
  · exact Or.inr (Or.inr (Or.inr (Or.inr ⟨pre, rest, _, rfl, hrest, c5, h.symm⟩)))
  replace h := ite_eq_cases h
  rcases h with ⟨c6, h⟩ | ⟨c6, h⟩
  · exact Or.inr (Or.inl ⟨_, h.symm⟩)
  generalize hdict : decodeDictionary _ = r at h
  cases r with
  | none => exact Or.inr (Or.inl ⟨_, h.symm⟩)
  | some dict =>
  dsimp only at h
  replace h := ite_eq_cases h
  rcases h with ⟨c7, h⟩ | ⟨c7, h⟩
  · exact Or.inr (Or.inl ⟨_, h.symm⟩)
  replace h := ite_eq_cases h
  rcases h with ⟨c8, h⟩ | ⟨c8, h⟩
  · exact Or.inr (Or.inl ⟨_, h.symm⟩)
  generalize hparams : dict.chunkerParams = r at h
  cases r with
  | none => exact Or.inr (Or.inl ⟨_, h.symm⟩)
  | some params =>
  dsimp only at h
  replace h := ite_eq_cases h
  rcases h with ⟨c9, h⟩ | ⟨c9, h⟩
  · exact Or.inr (Or.inl ⟨_, h.symm⟩)
  replace h := ite_eq_cases h
  rcases h with ⟨c10, h⟩ | ⟨c10, h⟩
  · exact Or.inr (Or.inl ⟨_, h.symm⟩)
  replace h := ite_eq_cases h
  rcases h with ⟨c11, h⟩ | ⟨c11, h⟩
  · exact Or.inr (Or.inl ⟨_, h.symm⟩)
  generalize hcc : dict.chunkCompression = r at h
  cases r with
  | none => exact Or.inr (Or.inl ⟨_, h.symm⟩)
  | some cc =>
  dsimp only at h
  rcases (compressionFromDict_cases features cc).symm with ⟨w, hcw⟩ | ⟨compr, hcompr⟩
  · rw [hcw] at h; exact Or.inr (Or.inl ⟨_, h.symm⟩)
  rw [hcompr] at h
  dsimp only at h
  rcases (configFromParams_cases params).symm with ⟨w, hfw⟩ | ⟨cfg, hcfg⟩
  · rw [hfw] at h; exact Or.inr (Or.inl ⟨_, h.symm⟩)
  rw [hcfg] at h
  refine Or.inl ⟨pre, rest, dict, params, cc, compr, cfg, ?_, h.symm⟩
  have c4' := not_or.mp c4
  refine ⟨hpre, ?_, by omega, by unfold tiDictSize; omega, ?_, hrest, Nat.le_of_not_lt c5,
    Decidable.of_not_not c6, hdict, ?_, ?_, hparams, ?_, ?_, ?_, hcc, hcompr, hcfg⟩
  · by_cases hm : List.take (List.length magicBytes) pre = magicBytes
    · exact Or.inl hm
    · by_cases hm' : List.take (List.length magicBytes) pre = legacyMagicBytes
      · exact Or.inr hm'
      · exact absurd ⟨hm, hm'⟩ c2
  · exact Nat.le_of_not_gt fun hgt => c4'.2 ⟨hf2, hgt⟩
  · intro d hd
    simp only [Bool.not_eq_true, List.any_eq_false] at c7
    have := c7 d hd
    simp only [hf1, ↓reduceIte, decide_eq_false_iff_not] at this
    exact Nat.le_of_not_gt this
  · intro d hd
    simp only [Bool.not_eq_true, List.any_eq_false] at c8
    have := c8 d hd
    simpa using this
  · have : ¬(params.chunkHashLength = 0 ∨ params.chunkHashLength > Gen.hashMaxLen) := fun x => c9 ⟨hf3, x⟩
    rw [hml] at this
    omega
  · intro i hi
    simp only [Bool.not_eq_true, List.any_eq_false] at c10
    have := c10 i hi
    simpa using this
  · have := Decidable.of_not_not fun hne => c11 ⟨hf4, hne⟩
    rw [tiSum_map _ _ (fun _ => rfl)] at this
    exact this

theorem tryInit_ok_inv {H : Bytes → Bytes} {features : List Nat} {read : Nat → Nat → Option Bytes}
    {a : Archive} (h : tryInit H features read = .ok a) :
    ∃ pre rest dict params cc compr cfg,
      TiOk H features read pre rest dict params cc compr cfg ∧
      a = tiArchive pre rest dict params compr cfg := by
  rcases tryInit_cases h with ⟨pre, rest, dict, params, cc, compr, cfg, w, he⟩ | ⟨w, he⟩ | he | hp | hp
  · exact ⟨pre, rest, dict, params, cc, compr, cfg, w, Outcome.ok.inj he⟩
  · cases he
  · cases he
  · obtain ⟨_, _, _, _, he⟩ := hp; cases he
  · obtain ⟨_, _, _, _, _, _, he⟩ := hp; cases he

theorem tryInit_ok_of {H : Bytes → Bytes} {features : List Nat} {read : Nat → Nat → Option Bytes}
    {pre rest dict params cc compr cfg}
    (w : TiOk H features read pre rest dict params cc compr cfg) :
    tryInit H features read = .ok (tiArchive pre rest dict params compr cfg) := by
  obtain ⟨hpre, hmagic, hprelen, hds, hend, hrest, hhl, hck, hdict, hoff, hsz, hparams, hhash, hord, hsum,
    hcc, hcompr, hcfg⟩ := w
  have hml' : Gen.hashMaxLen = 64 := rfl
  unfold tiDictSize at *
  unfold tiCdo at *
  unfold tiDictSize at *
  unfold tryInit
  rw [hpre]
  dsimp only
  have hml : magicBytes.length = 6 := by decide
  have hps : Gen.preHeaderSize = 14 := rfl
  rw [if_neg (by omega), if_neg (by intro hh; cases hmagic <;> simp_all), if_neg (by omega), if_neg (by omega), hrest]
  dsimp only
  rw [if_neg (by omega), if_neg (by simpa using hck), hdict]
  dsimp only
  rw [if_neg, if_neg, hparams]
  · dsimp only
    rw [if_neg (by rw [hml']; omega), if_neg, if_neg, hcc]
    · dsimp only
      rw [hcompr, hcfg]
      rfl
    · rw [tiSum_map _ _ (fun _ => rfl), hsum]
      simp
    · simp only [Bool.not_eq_true, List.any_eq_false]
      intro i hi
      have := hord i hi
      simpa using this
  · simp only [Bool.not_eq_true, List.any_eq_false]
    intro d hd
    simpa using hsz d hd
  · simp only [Bool.not_eq_true, List.any_eq_false]
    intro d hd
    have hfact : Gen.chunkEndOffsetChecked = true := by decide
    simpa [hfact] using hoff d hd

/-! ### No panic / abort outcome under the reader contract -/

theorem tryInit_total_aux (H : Bytes → Bytes) (features : List Nat) (read : Nat → Nat → Option Bytes)
    (hr : ∀ off size b, read off size = some b → b.length = size) (out : Outcome Archive)
    (h : tryInit H features read = out) :
    (∃ a, out = .ok a) ∨ (∃ w, out = .invalid w) ∨ out = .readerErr := by
  have hps : Gen.preHeaderSize = 14 := rfl
  rcases tryInit_cases h with ⟨pre, rest, dict, params, cc, compr, cfg, -, he⟩ | he | he | hp | hp
  · exact Or.inl ⟨_, he⟩
  · exact Or.inr (Or.inl he)
  · exact Or.inr (Or.inr he)
  · obtain ⟨pre, _, hpre, hlt, -⟩ := hp
    have := hr _ _ _ hpre
    omega
  · obtain ⟨pre, rest, _, hpre, hrest, hlt, -⟩ := hp
    have h1 := hr _ _ _ hpre
    have h2 := hr _ _ _ hrest
    simp only [List.length_append] at hlt
    omega

/-! ### The source-order fold -/

theorem sourceChunks_some (a : Archive) (h : ∀ i ∈ a.sourceOrder, i < a.chunks.length) :
    ∃ cs, a.sourceChunks = some cs := by
  unfold Archive.sourceChunks
  generalize (([], 0) : List (Nat × Descr) × Nat) = acc
  revert h
  generalize a.sourceOrder = order
  intro h
  induction order generalizing acc with
  | nil => exact ⟨_, rfl⟩
  | cons i is ih =>
    simp only [List.foldlM_cons, List.getElem?_eq_getElem (h i (by simp))]
    exact ih _ (fun j hj => h j (by simp [hj]))

/-! ### Honest reader -/

theorem honestReadAt_some {bytes : Bytes} {off size : Nat} {b : Bytes}
    (h : honestReadAt bytes off size = some b) :
    off + size ≤ bytes.length ∧ b = (bytes.drop off).take size := by
  unfold honestReadAt at h
  split at h
  · simp only [Option.some.injEq] at h
    exact ⟨by assumption, h.symm⟩
  · simp at h

theorem tiOk_honest {H : Bytes → Bytes} {features : List Nat} {bytes : Bytes}
    {pre rest dict params cc compr cfg}
    (w : TiOk H features (honestReadAt bytes) pre rest dict params cc compr cfg) :
    tiDictSize pre = fromLe ((bytes.drop magicBytes.length).take 8) ∧
    Gen.preHeaderSize + tiDictSize pre + 72 ≤ bytes.length ∧
    pre ++ rest = bytes.take (Gen.preHeaderSize + tiDictSize pre + 72) := by
  obtain ⟨h1, hpre⟩ := honestReadAt_some w.hpre
  obtain ⟨h2, hrest⟩ := honestReadAt_some w.hrest
  have hps : Gen.preHeaderSize = 14 := rfl
  have hml : magicBytes.length = 6 := by decide
  simp only [List.drop_zero] at hpre
  refine ⟨?_, by omega, ?_⟩
  · unfold tiDictSize
    rw [hpre, hml, hps, List.drop_take, List.take_take]
    rfl
  · rw [Nat.add_assoc, List.take_add, ← hpre, ← hrest]

theorem take_header_split (b : Bytes) (n : Nat) :
    b.take (n + 72) = b.take (n + 8) ++ (b.drop (n + 8)).take 64 := by
  rw [← List.take_add]

/-! ### Layout of `buildHeader` -/

/-- The first 14 bytes `buildHeader` writes. -/
def bhPre (d : ChunkDictionary) : Bytes := magicBytes ++ le64 (encodeDictionary d).length

/-- Everything before the checksum. -/
def bhBody (d : ChunkDictionary) : Bytes :=
  bhPre d ++ (encodeDictionary d ++ le64 ((encodeDictionary d).length + 86))

/-- What `buildHeader` writes after the pre-header. -/
def bhRest (H : Bytes → Bytes) (d : ChunkDictionary) : Bytes :=
  (encodeDictionary d ++ le64 ((encodeDictionary d).length + 86)) ++ H (bhBody d)

theorem bhPre_length (d : ChunkDictionary) : (bhPre d).length = 14 := by
  simp [bhPre, magicBytes_length, le64_length]

theorem bhBody_length (d : ChunkDictionary) : (bhBody d).length = 14 + (encodeDictionary d).length + 8 := by
  simp [bhBody, bhPre_length, le64_length]; omega

theorem buildHeader_eq (H : Bytes → Bytes) (d : ChunkDictionary) :
    buildHeader H d none = bhPre d ++ bhRest H d := by
  have hl : (magicBytes ++ (le64 (encodeDictionary d).length ++ encodeDictionary d)).length + 8 + 64 =
      (encodeDictionary d).length + 86 := by
    simp [magicBytes_length, le64_length]; omega
  simp only [buildHeader, Option.getD_none, bhPre, bhRest, bhBody, List.append_assoc, hl]

theorem buildHeader_eq_body (H : Bytes → Bytes) (d : ChunkDictionary) :
    bhPre d ++ bhRest H d = bhBody d ++ H (bhBody d) := by
  simp only [bhRest, bhBody, List.append_assoc]

theorem buildHeader_length (H : Bytes → Bytes) (hH : ∀ x, (H x).length = 64) (d : ChunkDictionary) :
    (buildHeader H d none).length = (encodeDictionary d).length + 86 := by
  rw [buildHeader_eq, buildHeader_eq_body, List.length_append, bhBody_length, hH]; omega

theorem bh_dictSize (d : ChunkDictionary) (h : (encodeDictionary d).length < 2 ^ 64) :
    tiDictSize (bhPre d) = (encodeDictionary d).length := by
  unfold tiDictSize bhPre
  rw [List.drop_left, List.take_of_length_le (by simp [le64_length]), fromLe_le64 _ h]

theorem bh_cdo (H : Bytes → Bytes) (d : ChunkDictionary) (h : (encodeDictionary d).length + 86 < 2 ^ 64) :
    tiCdo (bhPre d) (bhRest H d) = (encodeDictionary d).length + 86 := by
  unfold tiCdo
  rw [bh_dictSize d (by omega)]
  have : bhPre d ++ bhRest H d = (bhPre d ++ encodeDictionary d) ++
      (le64 ((encodeDictionary d).length + 86) ++ H (bhBody d)) := by
    simp only [bhRest, List.append_assoc]
  rw [this, List.drop_left' (by simp [bhPre_length]; rfl), List.take_left' (le64_length _), fromLe_le64 _ h]


end Bita.Proofs
