/-
  End-to-end statements about the output of a clone at the level of tilings (C02, C03, C13).
-/
import Bita.Proofs.PlannerSound
import Bita.Proofs.ExecutorSound
import Bita.Proofs.InPlaceFeed

namespace Bita.Proofs
open Bita Bita.Spec

variable {κ : Type} [DecidableEq κ]

namespace Exec

theorem reorderInPlace_eq (f : Bytes) (ixN : Index κ) (lg : List IoOp) (ixO : Index κ) :
    (OutSt.mk f ixN lg).reorderInPlace ixO =
      (ExecSt.run ⟨⟨f, (ixO.strip ixN).1, lg⟩, [], 0⟩ (reorderOps ixO (ixO.strip ixN).1)).map
        (fun fin => (fin.out, fin.moved + (ixO.strip ixN).2.2)) := by
  unfold OutSt.reorderInPlace
  generalize ixO.strip ixN = t
  obtain ⟨a, b, d⟩ := t
  simp only
  cases h : ExecSt.run (κ := κ) ⟨⟨f, a, lg⟩, [], 0⟩ (reorderOps ixO a) <;> simp

theorem feedInv_nil (c : κ → Bytes) (N : List κ) (p : Bytes) (lg : List IoOp) :
    FeedInv c N ⟨p, indexOf c N, lg⟩ [] :=
  ⟨(List.filter_eq_self.2 (fun _ _ => rfl)).symm, fun _ _ h => by simp at h⟩

theorem nodup_flatMap_dests (c : κ → Bytes) (N : List κ) (hN : ∀ k ∈ N, c k ≠ [])
    (PO : List (κ × Nat)) : ∀ (ks : List κ), ks.Nodup →
      (ks.flatMap (dests PO (placements c N 0))).Nodup := by
  intro ks
  induction ks with
  | nil => intro _; simp
  | cons k ks ih =>
    intro h
    obtain ⟨h1, h2⟩ := List.nodup_cons.1 h
    rw [List.flatMap_cons, List.nodup_append]
    refine ⟨nodup_dests c N hN PO k, ih h2, ?_⟩
    intro a ha b hb hab
    subst hab
    simp only [List.mem_flatMap] at hb
    obtain ⟨k', hk', hb⟩ := hb
    have e1 := ((mem_dests _ _ _ _).1 ha).1
    have e2 := ((mem_dests _ _ _ _).1 hb).1
    have := placements_functional c N 0 hN _ _ _ e1 e2
    exact h1 (this ▸ hk')

/-- The state reached by the executor is a feed state with `R = O`, with a good write log. -/
theorem after_exec (c : κ → Bytes) (O N : List κ) (hne : ∀ k, k ∈ O ∨ k ∈ N → c k ≠ [])
    (ops : List (ROp κ)) (hs : safePlan c O N ops = true) :
    ∃ fin, ExecSt.run ⟨⟨fileOf c O, ((indexOf c O).strip (indexOf c N)).1, []⟩, [], 0⟩ ops = some fin ∧
      FeedInv c N fin.out O ∧ LogOk c O N (writesOf fin.out.log) O := by
  obtain ⟨fin, hfin, h1, h2, _, h4⟩ := executor_sound c O N hne ops hs
  have hN : ∀ k ∈ N, c k ≠ [] := fun k hk => hne k (Or.inr hk)
  obtain ⟨hok, hnd, _, _⟩ := safePlan_decode c O N ops hs
  have hsub := copiesOf_sub_movable c O N ops hok
  refine ⟨fin, hfin, ⟨h1, h2⟩, ?_⟩
  rw [h4]
  constructor
  · intro w hw
    obtain ⟨k, hk, hw⟩ := List.mem_flatMap.1 hw
    obtain ⟨d, hd, rfl⟩ := List.mem_map.1 hw
    have hm := (mem_dests _ _ _ _).1 hd
    exact ⟨k, ((mem_movableOf c O N k).1 (hsub k hk)).1, hm.1, rfl, hm.2⟩
  · have : (List.flatMap (fun k => List.map (fun d => (d, c k))
          (dests (placements c O 0) (placements c N 0) k))
          (List.map opKey (List.filter isCopy ops))).map (·.1) =
        (copiesOf ops).flatMap (dests (placements c O 0) (placements c N 0)) := by
      rw [List.map_flatMap]
      simp only [List.map_map]
      have : ∀ k, ((fun x : Nat × Bytes => x.1) ∘ fun d => (d, c k)) = id := fun _ => rfl
      simp only [this, List.map_id]
      rfl
    rw [this]
    exact nodup_flatMap_dests c N hN _ _ hnd

end Exec

open Exec

/-- Plain clone (no in-place seed): whatever the output held before (`p`, any bytes, any
length), feeding any sequence of chunks that contains every source chunk - seeds first, in any
order, related or not, then what the archive delivers - and resizing yields the source. -/
theorem clone_exact (content : κ → Bytes) (N : List κ) (p : Bytes)
    (hne : ∀ k, k ∈ N → content k ≠ [])
    (ks : List κ) (hall : ∀ k ∈ N, k ∈ ks) :
    resize (feedAll content ⟨p, indexOf content N, []⟩ ks).file (fileOf content N).length
      = fileOf content N :=
  feedAll_exact hne ks _ [] (feedInv_nil content N p []) (fun k hk => Or.inr (hall k hk))

/-- In-place update: for every prior tiling `O` and target `N`, `reorder_in_place` succeeds, what
remains to be fetched are exactly target chunks absent from `O`, and feeding any chunk sequence
that contains them (seeds, then the archive) and resizing yields the source. -/
theorem inplace_exact (content : κ → Bytes) (O N : List κ)
    (hne : ∀ k, k ∈ O ∨ k ∈ N → content k ≠ []) :
    ∃ st1 ret, (OutSt.mk (fileOf content O) (indexOf content N) []).reorderInPlace (indexOf content O)
        = some (st1, ret) ∧
      (∀ k, k ∈ st1.index.keys ↔ (k ∈ N ∧ k ∉ O)) ∧
      ∀ ks, (∀ k ∈ st1.index.keys, k ∈ ks) →
        resize (feedAll content st1 ks).file (fileOf content N).length = fileOf content N := by
  have hN : ∀ k ∈ N, content k ≠ [] := fun k hk => hne k (Or.inr hk)
  obtain ⟨fin, hfin, hf, _⟩ := after_exec content O N hne _ (planner_sound content O N hne)
  have hkeys : ∀ k, k ∈ fin.out.index.keys ↔ (k ∈ N ∧ k ∉ O) := by
    intro k
    rw [hf.index]
    simp only [Index.keys, List.mem_map, List.mem_filter, Bool.not_eq_true',
      List.contains_eq_mem, decide_eq_false_iff_not]
    constructor
    · rintro ⟨e, ⟨he, hO⟩, rfl⟩
      exact ⟨(mem_indexOf content N hN e he).2, hO⟩
    · rintro ⟨hk, hO⟩
      obtain ⟨e, he, rfl⟩ := exists_mem_indexOf content N hN k hk
      exact ⟨e, ⟨he, hO⟩, rfl⟩
  refine ⟨fin.out, fin.moved + ((indexOf content O).strip (indexOf content N)).2.2, ?_, hkeys, ?_⟩
  · rw [reorderInPlace_eq, hfin]; rfl
  · intro ks hks
    apply feedAll_exact hN ks _ O hf
    intro k hk
    by_cases hO : k ∈ O
    · exact Or.inl hO
    · exact Or.inr (hks k ((hkeys k).2 ⟨hk, hO⟩))

/-- Every write of an in-place clone (reordering, then any feeds): is one source chunk's bytes
at one of its source offsets; no location is written twice; a location that already held the
right chunk is not written; nothing is written at or beyond the source length. -/
theorem write_log_exact (content : κ → Bytes) (O N : List κ)
    (hne : ∀ k, k ∈ O ∨ k ∈ N → content k ≠ []) (ks : List κ) :
    ∀ st1 ret, (OutSt.mk (fileOf content O) (indexOf content N) []).reorderInPlace (indexOf content O)
        = some (st1, ret) →
      let W := writesOf (feedAll content st1 ks).log
      (∀ w ∈ W, ∃ k, (k, w.1) ∈ placements content N 0 ∧ w.2 = content k) ∧
      (W.map (·.1)).Nodup ∧
      (∀ w ∈ W, ∀ k, (k, w.1) ∈ placements content N 0 → (k, w.1) ∉ placements content O 0) ∧
      (∀ w ∈ W, w.1 + w.2.length ≤ (fileOf content N).length) := by
  intro st1 ret hrun
  have hN : ∀ k ∈ N, content k ≠ [] := fun k hk => hne k (Or.inr hk)
  obtain ⟨fin, hfin, hf, hl⟩ := after_exec content O N hne _ (planner_sound content O N hne)
  rw [reorderInPlace_eq, hfin] at hrun
  have hst : st1 = fin.out := by
    simp only [Option.map_some, Option.some.injEq, Prod.mk.injEq] at hrun
    exact hrun.1.symm
  subst hst
  obtain ⟨_, h2⟩ := feedAll_inv (O := O) hN ks fin.out O hf
  exact logOk_final hN (h2 hl (fun _ h => h))

/-- The same for a plain clone into an output with arbitrary prior bytes. -/
theorem write_log_exact_plain (content : κ → Bytes) (N : List κ) (p : Bytes)
    (hne : ∀ k, k ∈ N → content k ≠ []) (ks : List κ) :
    let W := writesOf (feedAll content ⟨p, indexOf content N, []⟩ ks).log
    (∀ w ∈ W, ∃ k, (k, w.1) ∈ placements content N 0 ∧ w.2 = content k) ∧
    (W.map (·.1)).Nodup ∧
    (∀ w ∈ W, w.1 + w.2.length ≤ (fileOf content N).length) := by
  obtain ⟨_, h2⟩ := feedAll_inv (O := ([] : List κ)) hne ks _ [] (feedInv_nil content N p [])
  have h0 : LogOk content ([] : List κ) N (writesOf ([] : List IoOp)) [] :=
    ⟨by simp [writesOf], by simp [writesOf]⟩
  obtain ⟨a, b, _, d⟩ := logOk_final hne (h2 h0 (by simp))
  exact ⟨a, b, d⟩

end Bita.Proofs
