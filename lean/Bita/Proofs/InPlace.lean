/-
  End-to-end statements about the output of a clone at the level of tilings (C02, C03, C13).
-/
import Bita.Proofs.PlannerSound
import Bita.Proofs.ExecutorSound

namespace Bita.Proofs
open Bita Bita.Spec

variable {κ : Type} [DecidableEq κ]

/-- Plain clone (no in-place seed): whatever the output held before (`p`, any bytes, any
length), feeding any sequence of chunks that contains every source chunk - seeds first, in any
order, related or not, then what the archive delivers - and resizing yields the source. -/
theorem clone_exact (content : κ → Bytes) (N : List κ) (p : Bytes)
    (hne : ∀ k, k ∈ N → content k ≠ [])
    (ks : List κ) (hall : ∀ k ∈ N, k ∈ ks) :
    resize (feedAll content ⟨p, indexOf content N, []⟩ ks).file (fileOf content N).length
      = fileOf content N := by
  sorry

/-- In-place update: for every prior tiling `O` and target `N`, `reorder_in_place` succeeds, what
remains to be fetched are exactly target chunks absent from `O`, and feeding any chunk sequence
that contains them (seeds, then the archive) and resizing yields the source. -/
theorem inplace_exact (content : κ → Bytes) (O N : List κ)
    (hne : ∀ k, k ∈ O ∨ k ∈ N → content k ≠ []) :
    ∃ st1 ret, (OutSt.mk (fileOf content O) (indexOf content N) []).reorderInPlace (indexOf content O)
        = some (st1, ret) ∧
      (∀ k, k ∈ st1.index.keys ↔ (k ∈ N ∧ k ∉ O)) ∧
      ∀ ks, (∀ k ∈ st1.index.keys, k ∈ ks) →
        resize (feedAll content st1 ks).file (fileOf content N).length = fileOf content N := by
  sorry

/-- Every write of an in-place clone (reordering, then any feeds): is one source chunk's bytes
at one of its source offsets; no location is written twice; a location that already held the
right chunk is not written; nothing is written at or beyond the source length. -/
theorem write_log_exact (content : κ → Bytes) (O N : List κ)
    (hne : ∀ k, k ∈ O ∨ k ∈ N → content k ≠ []) (ks : List κ) :
    ∀ st1 ret, (OutSt.mk (fileOf content O) (indexOf content N) []).reorderInPlace (indexOf content O)
        = some (st1, ret) →
      let W := writesOf (feedAll content st1 ks).log
      (∀ w ∈ W, ∃ k, (k, w.1) ∈ placements content N 0 ∧ w.2 = content k) ∧
      (W.map (·.1)).Nodup ∧
      (∀ w ∈ W, ∀ k, (k, w.1) ∈ placements content N 0 → (k, w.1) ∉ placements content O 0) ∧
      (∀ w ∈ W, w.1 + w.2.length ≤ (fileOf content N).length) := by
  sorry

/-- The same for a plain clone into an output with arbitrary prior bytes. -/
theorem write_log_exact_plain (content : κ → Bytes) (N : List κ) (p : Bytes)
    (hne : ∀ k, k ∈ N → content k ≠ []) (ks : List κ) :
    let W := writesOf (feedAll content ⟨p, indexOf content N, []⟩ ks).log
    (∀ w ∈ W, ∃ k, (k, w.1) ∈ placements content N 0 ∧ w.2 = content k) ∧
    (W.map (·.1)).Nodup ∧
    (∀ w ∈ W, w.1 + w.2.length ≤ (fileOf content N).length) := by
  sorry

end Bita.Proofs
