/-
  Facts about `indexOf`, `strip`, `placements` used by the planner soundness proof.
-/
import Bita.Model.Planner
import Bita.Spec.InPlace

namespace Bita.Proofs.Planner
open Bita Bita.Spec

set_option linter.unusedSectionVars false

variable {κ : Type} [DecidableEq κ]

/-- Offsets of `k` in a placement list, in list order. -/
def offsOf (P : List (κ × Nat)) (k : κ) : List Nat := (P.filter (fun e => e.1 = k)).map (·.2)

/-! ## placements -/

theorem placements_ge {content : κ → Bytes} {ts : List κ} {off : Nat} {e : κ × Nat} :
    e ∈ placements content ts off → off ≤ e.2 := by
  induction ts generalizing off with
  | nil => simp [placements]
  | cons k ks ih =>
    simp only [placements, List.mem_cons]
    rintro (rfl | h)
    · exact Nat.le_refl _
    · have := ih h; omega

theorem placements_pairwise (content : κ → Bytes) (ts : List κ) (off : Nat) :
    (placements content ts off).Pairwise (fun a b => a.2 + (content a.1).length ≤ b.2) := by
  induction ts generalizing off with
  | nil => simp [placements]
  | cons k ks ih =>
    simp only [placements, List.pairwise_cons]
    exact ⟨fun b hb => placements_ge hb, ih _⟩

theorem mem_placements_key {content : κ → Bytes} {ts : List κ} {off : Nat} {k : κ} {o : Nat} :
    (k, o) ∈ placements content ts off → k ∈ ts := by
  induction ts generalizing off with
  | nil => simp [placements]
  | cons a ks ih =>
    simp only [placements, List.mem_cons, Prod.mk.injEq]
    rintro (⟨rfl, _⟩ | h)
    · exact Or.inl rfl
    · exact Or.inr (ih h)

theorem exists_mem_placements {content : κ → Bytes} {ts : List κ} {off : Nat} {k : κ} :
    k ∈ ts → ∃ o, (k, o) ∈ placements content ts off := by
  induction ts generalizing off with
  | nil => simp
  | cons a ks ih =>
    simp only [placements, List.mem_cons]
    rintro (rfl | h)
    · exact ⟨off, Or.inl rfl⟩
    · obtain ⟨o, ho⟩ := ih (off := off + (content a).length) h
      exact ⟨o, Or.inr ho⟩

theorem mem_offsOf {P : List (κ × Nat)} {k : κ} {o : Nat} : o ∈ offsOf P k ↔ (k, o) ∈ P := by
  simp only [offsOf, List.mem_map, List.mem_filter, decide_eq_true_eq]
  constructor
  · rintro ⟨⟨a, b⟩, ⟨h, rfl⟩, rfl⟩; exact h
  · intro h; exact ⟨(k, o), ⟨h, rfl⟩, rfl⟩

theorem offsOf_ne_nil {content : κ → Bytes} {ts : List κ} {off : Nat} {k : κ} :
    k ∈ ts → offsOf (placements content ts off) k ≠ [] := by
  intro h
  obtain ⟨o, ho⟩ := exists_mem_placements (content := content) (off := off) h
  exact List.ne_nil_of_mem (mem_offsOf.2 ho)

theorem offsOf_eq_nil {content : κ → Bytes} {ts : List κ} {off : Nat} {k : κ} :
    k ∉ ts → offsOf (placements content ts off) k = [] := by
  intro h
  apply List.eq_nil_iff_forall_not_mem.2
  intro o ho
  exact h (mem_placements_key (mem_offsOf.1 ho))

theorem firstOff_eq_head? (P : List (κ × Nat)) (k : κ) : firstOff P k = (offsOf P k).head? := by
  simp [firstOff, offsOf, List.head?_map, List.head?_filter]

theorem firstOff_mem {P : List (κ × Nat)} {k : κ} {o : Nat} : firstOff P k = some o → (k, o) ∈ P := by
  intro h
  rw [firstOff_eq_head?] at h
  exact mem_offsOf.1 (List.mem_of_head? h)

/-! ## Generic association-list facts. -/

theorem get_of_mem {ix : Index κ} (hnd : (ix.map (·.1)).Nodup) {k : κ} {l : Loc} :
    (k, l) ∈ ix → ix.get k = some l := by
  induction ix with
  | nil => simp
  | cons e rest ih =>
    simp only [List.map_cons, List.nodup_cons, List.mem_map, not_exists, not_and] at hnd
    simp only [List.mem_cons]
    rintro (rfl | h)
    · simp [Index.get]
    · have hne : e.1 ≠ k := fun heq => hnd.1 (k, l) h heq.symm
      have := ih hnd.2 h
      simpa [Index.get, List.find?_cons, hne] using this

theorem mem_of_get {ix : Index κ} {k : κ} {l : Loc} : ix.get k = some l → (k, l) ∈ ix := by
  simp only [Index.get, Option.map_eq_some_iff]
  rintro ⟨⟨a, b⟩, h, rfl⟩
  have h1 := List.mem_of_find?_eq_some h
  have h2 := List.find?_some h
  simp at h2
  subst h2
  exact h1

theorem get_eq_none_iff {ix : Index κ} {k : κ} : ix.get k = none ↔ k ∉ ix.map (·.1) := by
  simp [Index.get, List.find?_eq_none]
  constructor
  · intro h l hm; exact h _ _ hm rfl
  · intro h a b hm hab; subst hab; exact h _ hm


/-! ## insertSorted / addChunk -/

theorem insertSorted_eq_append {o : Nat} {acc : List Nat} (h : ∀ x ∈ acc, x < o) :
    insertSorted o acc = acc ++ [o] := by
  induction acc with
  | nil => rfl
  | cons x xs ih =>
    have hx : x < o := h x (List.mem_cons_self ..)
    have : ¬ o < x := by omega
    have : ¬ o = x := by omega
    simp [insertSorted, *]
    exact ih (fun y hy => h y (List.mem_cons_of_mem _ hy))

theorem offsOf_append (P Q : List (κ × Nat)) (k : κ) : offsOf (P ++ Q) k = offsOf P k ++ offsOf Q k := by
  simp [offsOf]

theorem offsOf_singleton (e : κ × Nat) (k : κ) : offsOf [e] k = if e.1 = k then [e.2] else [] := by
  by_cases h : e.1 = k <;> simp [offsOf, h]

theorem addChunk_keys_nodup {ix : Index κ} (h : (ix.map (·.1)).Nodup) (k : κ) (sz : Nat) (offs : List Nat) :
    ((ix.addChunk k sz offs).map (·.1)).Nodup := by
  unfold Index.addChunk
  split
  · have : (List.map (fun e : κ × Loc => e.1) (List.map (fun e : κ × Loc => if e.1 = k then (e.1, { e.2 with offsets := offs.foldl (fun acc o => insertSorted o acc) e.2.offsets }) else e) ix)) = List.map (fun e => e.1) ix := by
      rw [List.map_map]
      apply List.map_congr_left
      intro e _
      simp only [Function.comp]
      split <;> rfl
    rw [this]; exact h
  · rename_i hnone
    rw [get_eq_none_iff] at hnone
    simp only [List.map_append, List.map_cons, List.map_nil]
    rw [List.nodup_append]
    refine ⟨h, by simp, ?_⟩
    intro a ha b hb
    simp at hb
    subst hb
    intro hab; subst hab; exact hnone ha

theorem addChunk_get (ix : Index κ) (k : κ) (sz : Nat) (offs : List Nat) (k' : κ) :
    (ix.addChunk k sz offs).get k' =
      if k' = k then
        (match ix.get k with
         | some l => some { l with offsets := offs.foldl (fun acc o => insertSorted o acc) l.offsets }
         | none => some { size := sz, offsets := offs.foldl (fun acc o => insertSorted o acc) [] })
      else ix.get k' := by
  unfold Index.addChunk
  split
  · rename_i l hl
    have hfind : ∀ (f : κ × Loc → κ × Loc), (∀ e, (f e).1 = e.1) →
        Index.get (ix.map f) k' = ((ix.find? (fun e => e.1 = k')).map f).map (·.2) := by
      intro f hf
      simp only [Index.get, List.find?_map]
      congr 3
      funext e
      simp [Function.comp, hf]
    rw [hfind _ (by intro e; split <;> rfl)]
    by_cases hk : k' = k
    · subst hk
      simp only [if_true]
      simp only [Index.get, Option.map_eq_some_iff] at hl
      obtain ⟨e, he, rfl⟩ := hl
      have h2 := List.find?_some he
      simp at h2
      have hg : ix.get k' = some e.2 := by simp [Index.get, he]
      simp [he, h2, hg]
    · simp only [if_neg hk]
      cases he : ix.find? (fun e => e.1 = k') with
      | none => simp [Index.get, he]
      | some e =>
        have h2 := List.find?_some he
        simp at h2
        have : ¬ e.1 = k := by rw [h2]; exact hk
        simp [Index.get, he, this]
  · rename_i hnone
    by_cases hk : k' = k
    · subst hk
      simp only [if_true]
      simp only [Index.get] at hnone ⊢
      simp only [Option.map_eq_none_iff] at hnone
      simp [List.find?_append, hnone]
    · simp only [if_neg hk]
      have : ¬ k = k' := fun h => hk h.symm
      simp only [Index.get, List.find?_append]
      cases he : ix.find? (fun e => e.1 = k') with
      | none => simp [this]
      | some e => simp


/-! ## indexOf -/

/-- `ix` represents the placement list `P`. -/
structure IxRep (content : κ → Bytes) (ix : Index κ) (P : List (κ × Nat)) : Prop where
  nodup : (ix.map (·.1)).Nodup
  get : ∀ k, ix.get k =
    if offsOf P k = [] then none else some ⟨(content k).length, offsOf P k⟩

theorem IxRep.step {content : κ → Bytes} {ix : Index κ} {P : List (κ × Nat)} {e : κ × Nat}
    (h : IxRep content ix P) (hlt : ∀ a ∈ P, a.2 < e.2) :
    IxRep content (ix.addChunk e.1 (content e.1).length [e.2]) (P ++ [e]) := by
  refine ⟨addChunk_keys_nodup h.nodup _ _ _, ?_⟩
  intro k
  rw [addChunk_get, offsOf_append, offsOf_singleton]
  by_cases hk : k = e.1
  · subst hk
    simp only [if_true, h.get]
    by_cases hnil : offsOf P e.1 = []
    · simp [hnil, insertSorted]
    · have : insertSorted e.2 (offsOf P e.1) = offsOf P e.1 ++ [e.2] := by
        apply insertSorted_eq_append
        intro x hx
        exact hlt _ (mem_offsOf.1 hx)
      simp [hnil, this]
  · have : ¬ e.1 = k := fun h => hk h.symm
    simp [hk, this, h.get]

theorem IxRep.foldl {content : κ → Bytes} (P2 : List (κ × Nat)) (ix : Index κ) (P1 : List (κ × Nat))
    (h : IxRep content ix P1) (hp : (P1 ++ P2).Pairwise (fun a b => a.2 < b.2)) :
    IxRep content (P2.foldl (fun ix e => ix.addChunk e.1 (content e.1).length [e.2]) ix) (P1 ++ P2) := by
  induction P2 generalizing ix P1 with
  | nil => simpa using h
  | cons e rest ih =>
    have heq : P1 ++ e :: rest = (P1 ++ [e]) ++ rest := by simp
    rw [heq] at hp ⊢
    simp only [List.foldl_cons]
    apply ih _ _ _ hp
    apply h.step
    intro a ha
    have := (List.pairwise_append.1 hp).1
    exact (List.pairwise_append.1 this).2.2 a ha e (by simp)

theorem placements_strict {content : κ → Bytes} {ts : List κ} (hne : ∀ k ∈ ts, content k ≠ []) (off : Nat) :
    (placements content ts off).Pairwise (fun a b => a.2 < b.2) := by
  refine List.Pairwise.imp_of_mem ?_ (placements_pairwise content ts off)
  intro a b ha _ hab
  have : 0 < (content a.1).length :=
    List.length_pos_iff.2 (hne a.1 (mem_placements_key (o := a.2) ha))
  omega

theorem indexOf_rep (content : κ → Bytes) (ts : List κ) (hne : ∀ k ∈ ts, content k ≠ []) :
    IxRep content (indexOf content ts) (placements content ts 0) := by
  have := IxRep.foldl (content := content) (placements content ts 0) [] []
    ⟨by simp, by intro k; simp [Index.get, offsOf]⟩ (by simpa using placements_strict hne 0)
  simpa [indexOf] using this

theorem indexOf_keys_nodup (content : κ → Bytes) (ts : List κ) :
    ((indexOf content ts).map (·.1)).Nodup := by
  unfold indexOf
  suffices ∀ (P : List (κ × Nat)) (ix : Index κ), (ix.map (·.1)).Nodup →
      ((P.foldl (fun ix e => ix.addChunk e.1 (content e.1).length [e.2]) ix).map (·.1)).Nodup from
    this _ [] (by simp)
  intro P
  induction P with
  | nil => intro ix h; exact h
  | cons e rest ih =>
    intro ix h
    exact ih _ (addChunk_keys_nodup h _ _ _)

theorem indexOf_get (content : κ → Bytes) (ts : List κ) (hne : ∀ k ∈ ts, content k ≠ []) (k : κ) :
    (indexOf content ts).get k =
      if k ∈ ts then some ⟨(content k).length, offsOf (placements content ts 0) k⟩ else none := by
  rw [(indexOf_rep content ts hne).get]
  by_cases hk : k ∈ ts
  · simp [hk, offsOf_ne_nil hk]
  · simp [hk, offsOf_eq_nil hk]

theorem indexOf_firstOffset (content : κ → Bytes) (ts : List κ) (hne : ∀ k ∈ ts, content k ≠ []) (k : κ) :
    (indexOf content ts).firstOffset k = firstOff (placements content ts 0) k := by
  rw [Index.firstOffset, indexOf_get content ts hne, firstOff_eq_head?]
  by_cases hk : k ∈ ts
  · simp [hk]
  · simp [hk, offsOf_eq_nil hk]


/-! ## strip -/

/-- What `strip` does to one target entry. -/
def stripEntry (self : Index κ) (e : κ × Loc) : Option (κ × Loc) :=
  match self.get e.1 with
  | some l =>
    let kept := e.2.offsets.filter (fun o => !l.offsets.contains o)
    if kept.isEmpty then none else some (e.1, { e.2 with offsets := kept })
  | none => some e

theorem strip_fst_eq_filterMap (self target : Index κ) :
    (self.strip target).1 = target.filterMap (stripEntry self) := by
  unfold Index.strip
  suffices ∀ (acc : Index κ × Nat × Nat),
      (target.foldl (fun (acc : Index κ × Nat × Nat) e =>
        let (out, cnt, tot) := acc
        match self.get e.1 with
        | some l =>
          let kept := e.2.offsets.filter (fun o => !l.offsets.contains o)
          let removed := e.2.offsets.length - kept.length
          let out' := if kept.isEmpty then out else out ++ [(e.1, { e.2 with offsets := kept })]
          (out', cnt + removed, tot + l.size * removed)
        | none => (out ++ [e], cnt, tot)) acc).1 = acc.1 ++ target.filterMap (stripEntry self) by
    have h := this ([], 0, 0)
    simp only [List.nil_append] at h
    exact h
  induction target with
  | nil => intro acc; simp
  | cons e rest ih =>
    intro acc
    obtain ⟨out, cnt, tot⟩ := acc
    rw [List.foldl_cons, ih]
    simp only [List.filterMap_cons, stripEntry]
    cases hg : self.get e.1 with
    | none => simp
    | some l =>
      dsimp only
      split <;> simp

theorem filterMap_get {f : κ × Loc → Option (κ × Loc)} (hf : ∀ e e', f e = some e' → e'.1 = e.1)
    {target : Index κ} (hnd : (target.map (·.1)).Nodup) (k : κ) :
    Index.get (target.filterMap f) k = (target.get k).bind (fun l => (f (k, l)).map (·.2)) := by
  induction target with
  | nil => simp [Index.get]
  | cons e rest ih =>
    simp only [List.map_cons, List.nodup_cons] at hnd
    have ih := ih hnd.2
    by_cases hk : e.1 = k
    · have hget : Index.get (e :: rest) k = some e.2 := by simp [Index.get, hk]
      have hrest : Index.get rest k = none := get_eq_none_iff.2 (hk ▸ hnd.1)
      have he : (k, e.2) = e := by rw [← hk]
      rw [hget, Option.bind_some, he, List.filterMap_cons]
      cases hfe : f e with
      | none => simp [ih, hrest]
      | some e' =>
        have := hf _ _ hfe
        simp [Index.get, this, hk]
    · have hget : Index.get (e :: rest) k = Index.get rest k := by simp [Index.get, hk]
      rw [hget, List.filterMap_cons]
      cases hfe : f e with
      | none => simpa using ih
      | some e' =>
        have := hf _ _ hfe
        have hk' : ¬ e'.1 = k := by rw [this]; exact hk
        simpa [Index.get, hk'] using ih

theorem stripEntry_key {self : Index κ} {e e' : κ × Loc} : stripEntry self e = some e' → e'.1 = e.1 := by
  unfold stripEntry
  split
  · dsimp only
    split
    · simp
    · intro h; simp at h; rw [← h]
  · intro h; simp at h; rw [h]

theorem contains_placement (PO : List (κ × Nat)) (k : κ) (o : Nat) :
    PO.contains (k, o) = (offsOf PO k).contains o := by
  rw [Bool.eq_iff_iff]
  simp only [List.contains_iff_mem, mem_offsOf]

theorem dests_eq_filter (PO PN : List (κ × Nat)) (k : κ) :
    dests PO PN k = (offsOf PN k).filter (fun o => !(offsOf PO k).contains o) := by
  unfold dests offsOf
  rw [List.filter_map, List.filter_filter]
  congr 1
  apply List.filter_congr
  intro e _
  by_cases hk : e.1 = k
  · have : e = (k, e.2) := by rw [← hk]
    simp only [hk, decide_true, Bool.true_and, Bool.and_true, Function.comp]
    rw [this, contains_placement]
    rfl
  · simp [hk]

theorem strip_get (content : κ → Bytes) (O N : List κ)
    (hO : ∀ k ∈ O, content k ≠ []) (hN : ∀ k ∈ N, content k ≠ []) (k : κ) :
    ((indexOf content O).strip (indexOf content N)).1.get k =
      if dests (placements content O 0) (placements content N 0) k = [] then none
      else some ⟨(content k).length, dests (placements content O 0) (placements content N 0) k⟩ := by
  rw [strip_fst_eq_filterMap, filterMap_get (fun _ _ => stripEntry_key) (indexOf_keys_nodup content N),
    indexOf_get content N hN, dests_eq_filter]
  by_cases hkN : k ∈ N
  · simp only [hkN, if_true, Option.bind_some, stripEntry, indexOf_get content O hO]
    by_cases hkO : k ∈ O
    · simp only [hkO, if_true]
      split <;> simp_all
    · have h1 := offsOf_ne_nil (content := content) (off := 0) hkN
      have h2 : ∀ L : List Nat, L.filter (fun o => !([] : List Nat).contains o) = L := by
        intro L; simp
      rw [offsOf_eq_nil hkO, h2]
      simp only [hkO, if_false, if_neg h1]
      rfl
  · simp [hkN, offsOf_eq_nil hkN]

end Bita.Proofs.Planner
