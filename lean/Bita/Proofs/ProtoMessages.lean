/-
  Roundtrip of the sub-messages (descriptor, chunker parameters, compression, map entry) and of
  the packed rebuild order (helper for ProtoRoundtrip).
-/
import Bita.Proofs.ProtoFields

namespace Bita.Proofs
open Bita Bita.Proto

theorem foldlM_fUint {α : Type} (f : α → Field → Option α) (t v : Nat) (d : α) :
    (fUint t v).foldlM f d = if v = 0 then some d else f d (t, some (.varint v)) := by
  unfold fUint; split <;> simp

theorem foldlM_fBytes {α : Type} (f : α → Field → Option α) (t : Nat) (b : Bytes) (d : α) :
    (fBytes t b).foldlM f d = if b = [] then some d else f d (t, some (.len b)) := by
  unfold fBytes; cases b <;> simp

theorem sext32_eq_zero (v : Nat) : sext32 v = 0 ↔ v = 0 := by
  unfold sext32; split <;> omega

theorem encVarint_total_length (l : List Nat) : l.length ≤ (l.map encodeVarint).flatten.length := by
  induction l with
  | nil => simp
  | cons a l ih =>
    have := encodeVarint_length_pos a
    simp only [List.map_cons, List.flatten_cons, List.length_append, List.length_cons]
    omega

/-! ## ChunkDescriptor -/

def descrFields (c : ChunkDescriptor) : List Field :=
  fBytes Gen.tag_ChunkDescriptor_checksum c.checksum ++
  fUint Gen.tag_ChunkDescriptor_archive_size c.archiveSize ++
  fUint Gen.tag_ChunkDescriptor_archive_offset c.archiveOffset ++
  fUint Gen.tag_ChunkDescriptor_source_size c.sourceSize

theorem mergeDescriptor_append (fs1 fs2 : List Field) (d : ChunkDescriptor) :
    mergeDescriptor (fs1 ++ fs2) d = (mergeDescriptor fs1 d).bind (mergeDescriptor fs2) := by
  unfold mergeDescriptor; rw [List.foldlM_append]; rfl

theorem mergeDescriptor_checksum (v : Bytes) (d : ChunkDescriptor) (h0 : d.checksum = []) :
    mergeDescriptor (fBytes Gen.tag_ChunkDescriptor_checksum v) d = some { d with checksum := v } := by
  unfold mergeDescriptor; rw [foldlM_fBytes]
  split
  · subst_vars; cases d; simp_all
  · simp [asBytes]

theorem mergeDescriptor_archiveSize (v : Nat) (d : ChunkDescriptor) (h0 : d.archiveSize = 0)
    (hv : v < 2 ^ 32) :
    mergeDescriptor (fUint Gen.tag_ChunkDescriptor_archive_size v) d
      = some { d with archiveSize := v } := by
  unfold mergeDescriptor; rw [foldlM_fUint]
  split
  · subst_vars; cases d; simp_all
  · simp [asU32, u32_of_lt v hv, Gen.tag_ChunkDescriptor_archive_size,
      Gen.tag_ChunkDescriptor_checksum]

theorem mergeDescriptor_archiveOffset (v : Nat) (d : ChunkDescriptor) (h0 : d.archiveOffset = 0) :
    mergeDescriptor (fUint Gen.tag_ChunkDescriptor_archive_offset v) d
      = some { d with archiveOffset := v } := by
  unfold mergeDescriptor; rw [foldlM_fUint]
  split
  · subst_vars; cases d; simp_all
  · simp [asU64, Gen.tag_ChunkDescriptor_archive_size, Gen.tag_ChunkDescriptor_archive_offset,
      Gen.tag_ChunkDescriptor_checksum]

theorem mergeDescriptor_sourceSize (v : Nat) (d : ChunkDescriptor) (h0 : d.sourceSize = 0)
    (hv : v < 2 ^ 32) :
    mergeDescriptor (fUint Gen.tag_ChunkDescriptor_source_size v) d
      = some { d with sourceSize := v } := by
  unfold mergeDescriptor; rw [foldlM_fUint]
  split
  · subst_vars; cases d; simp_all
  · simp [asU32, u32_of_lt v hv, Gen.tag_ChunkDescriptor_archive_size,
      Gen.tag_ChunkDescriptor_archive_offset, Gen.tag_ChunkDescriptor_source_size,
      Gen.tag_ChunkDescriptor_checksum]

theorem merge_descrFields (c : ChunkDescriptor) (h1 : c.archiveSize < 2 ^ 32)
    (h3 : c.sourceSize < 2 ^ 32) : mergeDescriptor (descrFields c) {} = some c := by
  obtain ⟨ck, a, o, s⟩ := c
  simp only [descrFields, mergeDescriptor_append]
  rw [mergeDescriptor_checksum _ _ rfl, Option.bind_some,
    mergeDescriptor_archiveSize _ _ rfl h1, Option.bind_some,
    mergeDescriptor_archiveOffset _ _ rfl, Option.bind_some,
    mergeDescriptor_sourceSize _ _ rfl h3]

theorem encBytes_length_le (t : Nat) (b : Bytes) : b.length ≤ (encBytes t b).length := by
  unfold encBytes; cases b <;> simp <;> omega

theorem parsesTo_encodeDescriptor (c : ChunkDescriptor) (h0 : (encodeDescriptor c).length < 2 ^ 64)
    (h1 : c.archiveSize < 2 ^ 32) (h2 : c.archiveOffset < 2 ^ 64) (h3 : c.sourceSize < 2 ^ 32) :
    ParsesTo [] (encodeDescriptor c) (descrFields c) := by
  have hp : (2:Nat) ^ 32 < 2 ^ 64 := by decide
  have hck : c.checksum.length < 2 ^ 64 := by
    have := encBytes_length_le Gen.tag_ChunkDescriptor_checksum c.checksum
    unfold encodeDescriptor at h0
    simp only [List.length_append] at h0
    omega
  unfold encodeDescriptor descrFields
  refine (((parsesTo_encBytes _ _ _ (by decide) (by decide) hck).append
    (parsesTo_encUint _ _ _ (by decide) (by decide) (by decide) (by omega))).append
    (parsesTo_encUint _ _ _ (by decide) (by decide) (by decide) h2)).append
    (parsesTo_encUint _ _ _ (by decide) (by decide) (by decide) (by omega))

theorem parse_encodeDescriptor (c : ChunkDescriptor) (h0 : (encodeDescriptor c).length < 2 ^ 64)
    (h1 : c.archiveSize < 2 ^ 32) (h2 : c.archiveOffset < 2 ^ 64) (h3 : c.sourceSize < 2 ^ 32) :
    parse (encodeDescriptor c) = some (descrFields c) :=
  (parsesTo_encodeDescriptor c h0 h1 h2 h3).parse_eq

/-! ## ChunkerParameters -/

def paramsFields (p : ChunkerParameters) : List Field :=
  fUint Gen.tag_ChunkerParameters_chunk_filter_bits p.chunkFilterBits ++
  fUint Gen.tag_ChunkerParameters_min_chunk_size p.minChunkSize ++
  fUint Gen.tag_ChunkerParameters_max_chunk_size p.maxChunkSize ++
  fUint Gen.tag_ChunkerParameters_rolling_hash_window_size p.rollingHashWindowSize ++
  fUint Gen.tag_ChunkerParameters_chunk_hash_length p.chunkHashLength ++
  fUint Gen.tag_ChunkerParameters_chunking_algorithm (sext32 p.chunkingAlgorithm)

theorem mergeParams_append (fs1 fs2 : List Field) (d : ChunkerParameters) :
    mergeParams (fs1 ++ fs2) d = (mergeParams fs1 d).bind (mergeParams fs2) := by
  unfold mergeParams; rw [List.foldlM_append]; rfl

theorem mergeParams_1 (v : Nat) (d : ChunkerParameters) (h0 : d.chunkFilterBits = 0)
    (hv : v < 2 ^ 32) :
    mergeParams (fUint Gen.tag_ChunkerParameters_chunk_filter_bits v) d
      = some { d with chunkFilterBits := v } := by
  unfold mergeParams; rw [foldlM_fUint]
  split
  · subst_vars; cases d; simp_all
  · simp [asU32, u32_of_lt v hv]

theorem mergeParams_2 (v : Nat) (d : ChunkerParameters) (h0 : d.minChunkSize = 0)
    (hv : v < 2 ^ 32) :
    mergeParams (fUint Gen.tag_ChunkerParameters_min_chunk_size v) d
      = some { d with minChunkSize := v } := by
  unfold mergeParams; rw [foldlM_fUint]
  split
  · subst_vars; cases d; simp_all
  · simp [asU32, u32_of_lt v hv, Gen.tag_ChunkerParameters_chunk_filter_bits,
      Gen.tag_ChunkerParameters_min_chunk_size]

theorem mergeParams_3 (v : Nat) (d : ChunkerParameters) (h0 : d.maxChunkSize = 0)
    (hv : v < 2 ^ 32) :
    mergeParams (fUint Gen.tag_ChunkerParameters_max_chunk_size v) d
      = some { d with maxChunkSize := v } := by
  unfold mergeParams; rw [foldlM_fUint]
  split
  · subst_vars; cases d; simp_all
  · simp [asU32, u32_of_lt v hv, Gen.tag_ChunkerParameters_chunk_filter_bits,
      Gen.tag_ChunkerParameters_min_chunk_size, Gen.tag_ChunkerParameters_max_chunk_size]

theorem mergeParams_4 (v : Nat) (d : ChunkerParameters) (h0 : d.rollingHashWindowSize = 0)
    (hv : v < 2 ^ 32) :
    mergeParams (fUint Gen.tag_ChunkerParameters_rolling_hash_window_size v) d
      = some { d with rollingHashWindowSize := v } := by
  unfold mergeParams; rw [foldlM_fUint]
  split
  · subst_vars; cases d; simp_all
  · simp [asU32, u32_of_lt v hv, Gen.tag_ChunkerParameters_chunk_filter_bits,
      Gen.tag_ChunkerParameters_min_chunk_size, Gen.tag_ChunkerParameters_max_chunk_size,
      Gen.tag_ChunkerParameters_rolling_hash_window_size]

theorem mergeParams_5 (v : Nat) (d : ChunkerParameters) (h0 : d.chunkHashLength = 0)
    (hv : v < 2 ^ 32) :
    mergeParams (fUint Gen.tag_ChunkerParameters_chunk_hash_length v) d
      = some { d with chunkHashLength := v } := by
  unfold mergeParams; rw [foldlM_fUint]
  split
  · subst_vars; cases d; simp_all
  · simp [asU32, u32_of_lt v hv, Gen.tag_ChunkerParameters_chunk_filter_bits,
      Gen.tag_ChunkerParameters_min_chunk_size, Gen.tag_ChunkerParameters_max_chunk_size,
      Gen.tag_ChunkerParameters_rolling_hash_window_size,
      Gen.tag_ChunkerParameters_chunk_hash_length]

theorem mergeParams_6 (v : Nat) (d : ChunkerParameters) (h0 : d.chunkingAlgorithm = 0)
    (hv : v < 2 ^ 32) :
    mergeParams (fUint Gen.tag_ChunkerParameters_chunking_algorithm (sext32 v)) d
      = some { d with chunkingAlgorithm := v } := by
  unfold mergeParams; rw [foldlM_fUint]
  split
  · rename_i h; rw [sext32_eq_zero] at h; subst_vars; cases d; simp_all
  · simp [asU32, u32_sext32 v hv, Gen.tag_ChunkerParameters_chunk_filter_bits,
      Gen.tag_ChunkerParameters_min_chunk_size, Gen.tag_ChunkerParameters_max_chunk_size,
      Gen.tag_ChunkerParameters_rolling_hash_window_size,
      Gen.tag_ChunkerParameters_chunk_hash_length, Gen.tag_ChunkerParameters_chunking_algorithm]

structure ParamsOK (p : ChunkerParameters) : Prop where
  h1 : p.chunkFilterBits < 2 ^ 32
  h2 : p.minChunkSize < 2 ^ 32
  h3 : p.maxChunkSize < 2 ^ 32
  h4 : p.rollingHashWindowSize < 2 ^ 32
  h5 : p.chunkHashLength < 2 ^ 32
  h6 : p.chunkingAlgorithm < 2 ^ 32

theorem merge_paramsFields (p : ChunkerParameters) (h : ParamsOK p) :
    mergeParams (paramsFields p) {} = some p := by
  obtain ⟨h1, h2, h3, h4, h5, h6⟩ := h
  obtain ⟨a1, a2, a3, a4, a5, a6⟩ := p
  simp only [paramsFields, mergeParams_append]
  rw [mergeParams_1 _ _ rfl h1, Option.bind_some, mergeParams_2 _ _ rfl h2, Option.bind_some,
    mergeParams_3 _ _ rfl h3, Option.bind_some, mergeParams_4 _ _ rfl h4, Option.bind_some,
    mergeParams_5 _ _ rfl h5, Option.bind_some, mergeParams_6 _ _ rfl h6]

theorem parsesTo_encodeParams (p : ChunkerParameters) (h : ParamsOK p) :
    ParsesTo [] (encodeParams p) (paramsFields p) := by
  have hp : (2:Nat) ^ 32 < 2 ^ 64 := by decide
  obtain ⟨h1, h2, h3, h4, h5, h6⟩ := h
  unfold encodeParams paramsFields
  refine (((((parsesTo_encUint _ _ _ (by decide) (by decide) (by decide) (by omega)).append
    (parsesTo_encUint _ _ _ (by decide) (by decide) (by decide) (by omega))).append
    (parsesTo_encUint _ _ _ (by decide) (by decide) (by decide) (by omega))).append
    (parsesTo_encUint _ _ _ (by decide) (by decide) (by decide) (by omega))).append
    (parsesTo_encUint _ _ _ (by decide) (by decide) (by decide) (by omega))).append
    (parsesTo_encInt32 _ _ _ (by decide) (by decide) (by decide) h6)

theorem parse_encodeParams (p : ChunkerParameters) (h : ParamsOK p) :
    parse (encodeParams p) = some (paramsFields p) :=
  (parsesTo_encodeParams p h).parse_eq

/-! ## ChunkCompression -/

def comprFields (c : ChunkCompression) : List Field :=
  fUint Gen.tag_ChunkCompression_compression (sext32 c.compression) ++
  fUint Gen.tag_ChunkCompression_compression_level c.compressionLevel

theorem mergeCompression_append (fs1 fs2 : List Field) (d : ChunkCompression) :
    mergeCompression (fs1 ++ fs2) d = (mergeCompression fs1 d).bind (mergeCompression fs2) := by
  unfold mergeCompression; rw [List.foldlM_append]; rfl

theorem mergeCompression_1 (v : Nat) (d : ChunkCompression) (h0 : d.compression = 0)
    (hv : v < 2 ^ 32) :
    mergeCompression (fUint Gen.tag_ChunkCompression_compression (sext32 v)) d
      = some { d with compression := v } := by
  unfold mergeCompression; rw [foldlM_fUint]
  split
  · rename_i h; rw [sext32_eq_zero] at h; subst_vars; cases d; simp_all
  · simp [asU32, u32_sext32 v hv]

theorem mergeCompression_2 (v : Nat) (d : ChunkCompression) (h0 : d.compressionLevel = 0)
    (hv : v < 2 ^ 32) :
    mergeCompression (fUint Gen.tag_ChunkCompression_compression_level v) d
      = some { d with compressionLevel := v } := by
  unfold mergeCompression; rw [foldlM_fUint]
  split
  · subst_vars; cases d; simp_all
  · simp [asU32, u32_of_lt v hv, Gen.tag_ChunkCompression_compression,
      Gen.tag_ChunkCompression_compression_level]

theorem merge_comprFields (c : ChunkCompression) (h1 : c.compression < 2 ^ 32)
    (h2 : c.compressionLevel < 2 ^ 32) : mergeCompression (comprFields c) {} = some c := by
  obtain ⟨a1, a2⟩ := c
  simp only [comprFields, mergeCompression_append]
  rw [mergeCompression_1 _ _ rfl h1, Option.bind_some, mergeCompression_2 _ _ rfl h2]

theorem parsesTo_encodeCompression (c : ChunkCompression) (h1 : c.compression < 2 ^ 32)
    (h2 : c.compressionLevel < 2 ^ 32) :
    ParsesTo [] (encodeCompression c) (comprFields c) := by
  have hp : (2:Nat) ^ 32 < 2 ^ 64 := by decide
  unfold encodeCompression comprFields
  exact (parsesTo_encInt32 _ _ _ (by decide) (by decide) (by decide) h1).append
    (parsesTo_encUint _ _ _ (by decide) (by decide) (by decide) (by omega))

theorem parse_encodeCompression (c : ChunkCompression) (h1 : c.compression < 2 ^ 32)
    (h2 : c.compressionLevel < 2 ^ 32) :
    parse (encodeCompression c) = some (comprFields c) :=
  (parsesTo_encodeCompression c h1 h2).parse_eq

/-! ## map entries -/

def entryFields (k v : Bytes) : List Field := fBytes 1 k ++ fBytes 2 v

theorem merge_entryFields (k v : Bytes) (hk : utf8Valid k = true) :
    mergeMapEntry (entryFields k v) = some (k, v) := by
  unfold mergeMapEntry entryFields
  rw [List.foldlM_append, foldlM_fBytes]
  by_cases h1 : k = []
  · subst h1
    simp only [if_true]
    show List.foldlM _ _ (fBytes 2 v) = _
    rw [foldlM_fBytes]
    by_cases h2 : v = []
    · subst h2; simp
    · simp [h2, asBytes]
  · simp only [h1, if_false, if_true, asString, hk, Option.map_some]
    show List.foldlM _ _ (fBytes 2 v) = _
    rw [foldlM_fBytes]
    by_cases h2 : v = []
    · subst h2; simp
    · simp [h2, asBytes]

theorem parsesTo_encodeMapEntry (k v : Bytes) (h0 : (encodeMapEntry k v).length < 2 ^ 64) :
    ParsesTo [] (encodeMapEntry k v) (entryFields k v) := by
  have hk := encBytes_length_le 1 k
  have hv := encBytes_length_le 2 v
  unfold encodeMapEntry at h0 ⊢
  simp only [List.length_append] at h0
  unfold entryFields
  exact (parsesTo_encBytes _ _ _ (by decide) (by decide) (by omega)).append
    (parsesTo_encBytes _ _ _ (by decide) (by decide) (by omega))

theorem parse_encodeMapEntry (k v : Bytes) (h0 : (encodeMapEntry k v).length < 2 ^ 64) :
    parse (encodeMapEntry k v) = some (entryFields k v) :=
  (parsesTo_encodeMapEntry k v h0).parse_eq

/-! ## packed rebuild order -/

theorem decodePacked_encode : ∀ (ns : List Nat) (fuel : Nat), (∀ n ∈ ns, n < 2 ^ 32) →
    ns.length < fuel → decodePacked fuel (ns.map encodeVarint).flatten = some ns
  | [], fuel, _, hf => by
    obtain ⟨f, rfl⟩ : ∃ f, fuel = f + 1 := ⟨fuel - 1, by simp at hf; omega⟩
    simp [decodePacked]
  | n :: ns, fuel, hb, hf => by
    obtain ⟨f, rfl⟩ : ∃ f, fuel = f + 1 := ⟨fuel - 1, by simp at hf; omega⟩
    have hn : n < 2 ^ 32 := hb n (by simp)
    have hp : (2:Nat) ^ 32 < 2 ^ 64 := by decide
    have ih := decodePacked_encode ns f (fun m hm => hb m (by simp [hm])) (by simp at hf; omega)
    have hdec := decodeVarint_encode n (by omega) (ns.map encodeVarint).flatten
    obtain ⟨c, x, hx⟩ := List.exists_cons_of_ne_nil (encodeVarint_ne_nil n)
    simp only [List.map_cons, List.flatten_cons]
    rw [hx] at hdec ⊢
    simp only [List.cons_append] at hdec ⊢
    simp only [decodePacked, hdec, ih, Option.map_some, u32_of_lt n hn]

theorem decodePacked_body (ns : List Nat) (hb : ∀ n ∈ ns, n < 2 ^ 32) :
    decodePacked ((ns.map encodeVarint).flatten.length + 1) (ns.map encodeVarint).flatten
      = some ns :=
  decodePacked_encode ns _ hb (by have := encVarint_total_length ns; omega)

end Bita.Proofs
