/-
  Delivery independence of the streaming chunker model (C09).

  `ChunkStreamHasher`: how many warm-up bytes a hasher still wants (`need`).
  `ChunkStreamMach`: `RHState.next` is a byte-at-a-time machine (`mach`), hence compositional in
  the number of buffered bytes (`next_none`, `next_some`).
  Here: `SC.drain` / `SC.run` under any read script against "everything in one read".
-/
import Bita.Model.Chunker
import Bita.Spec.Tiling
import Bita.Proofs.ChunkStreamMach

namespace Bita.Proofs.CS
open Bita Bita.Spec

/-- Invariant of the streaming chunker. -/
def SInv (sc : SC) : Prop := sc.have_ ≤ sc.rest.length ∧ CInv sc.ch sc.have_

theorem drain_have_zero (f : Nat) (sc : SC) (h : sc.have_ = 0) : SC.drain f sc = ([], sc) := by
  cases f <;> simp [SC.drain, h]

theorem drain_succ_none (f : Nat) (sc : SC) (ch' : Chunker) (h : sc.have_ ≠ 0)
    (hn : sc.ch.next sc.rest sc.have_ = (ch', none)) :
    SC.drain (f + 1) sc = ([], { sc with ch := ch' }) := by
  rw [SC.drain, if_neg h, hn]

theorem drain_succ_some (f : Nat) (sc : SC) (ch' : Chunker) (n : Nat) (h : sc.have_ ≠ 0)
    (hn : sc.ch.next sc.rest sc.have_ = (ch', some n)) (hn0 : n ≠ 0) :
    SC.drain (f + 1) sc =
      ((sc.start, n) :: (SC.drain f ⟨sc.start + n, sc.rest.drop n, sc.have_ - n, ch'⟩).1,
       (SC.drain f ⟨sc.start + n, sc.rest.drop n, sc.have_ - n, ch'⟩).2) := by
  rw [SC.drain, if_neg h, hn]
  simp only [if_neg hn0]

theorem SInv_after_some (sc : SC) (hi : SInv sc) (ch' : Chunker) (n : Nat)
    (hn : sc.ch.next sc.rest sc.have_ = (ch', some n)) :
    SInv ⟨sc.start + n, sc.rest.drop n, sc.have_ - n, ch'⟩ ∧ 1 ≤ n ∧ n ≤ sc.have_ := by
  obtain ⟨h1, h2, h3, _⟩ := next_some sc.ch sc.rest sc.have_ ch' n hi.2 hi.1 hn
  refine ⟨⟨?_, CInv_mono _ _ _ (Nat.zero_le _) h1⟩, h2, h3⟩
  have := hi.1
  simp only [List.length_drop]; omega

theorem drain_inv (f : Nat) (sc : SC) (hi : SInv sc) :
    SInv (SC.drain f sc).2 ∧
      (SC.drain f sc).2.rest.length - (SC.drain f sc).2.have_ = sc.rest.length - sc.have_ := by
  induction f generalizing sc with
  | zero => simp [SC.drain, hi]
  | succ f ih =>
    by_cases h0 : sc.have_ = 0
    · rw [drain_have_zero _ _ h0]; exact ⟨hi, rfl⟩
    · rcases hn : sc.ch.next sc.rest sc.have_ with ⟨ch', r⟩
      cases r with
      | none =>
        rw [drain_succ_none f sc ch' h0 hn]
        obtain ⟨h1, _⟩ := next_none sc.ch sc.rest sc.have_ ch' hi.2 hi.1 hn
        exact ⟨⟨hi.1, h1⟩, rfl⟩
      | some n =>
        obtain ⟨h1, h2, h3⟩ := SInv_after_some sc hi ch' n hn
        rw [drain_succ_some f sc ch' n h0 hn (by omega)]
        obtain ⟨a, b⟩ := ih _ h1
        refine ⟨a, ?_⟩
        dsimp only at b ⊢
        rw [b]
        have := hi.1
        simp only [List.length_drop]; omega

theorem drain_fuel (f1 f2 : Nat) (sc : SC) (hi : SInv sc) (h1 : sc.have_ + 1 ≤ f1)
    (h2 : sc.have_ + 1 ≤ f2) : SC.drain f1 sc = SC.drain f2 sc := by
  induction f1 generalizing f2 sc with
  | zero => omega
  | succ f1 ih =>
    obtain ⟨f2, rfl⟩ : ∃ k, f2 = k + 1 := ⟨f2 - 1, by omega⟩
    by_cases h0 : sc.have_ = 0
    · rw [drain_have_zero _ _ h0, drain_have_zero _ _ h0]
    · rcases hn : sc.ch.next sc.rest sc.have_ with ⟨ch', r⟩
      cases r with
      | none => rw [drain_succ_none f1 sc ch' h0 hn, drain_succ_none f2 sc ch' h0 hn]
      | some n =>
        obtain ⟨a, b, c⟩ := SInv_after_some sc hi ch' n hn
        rw [drain_succ_some f1 sc ch' n h0 hn (by omega), drain_succ_some f2 sc ch' n h0 hn (by omega)]
        rw [ih f2 _ a (by dsimp only; omega) (by dsimp only; omega)]

/-- The tail emitted at the end of the source. -/
def tailOf (sc : SC) : List (Nat × Nat) := if sc.have_ = 0 then [] else [(sc.start, sc.have_)]

/-- What is emitted once the whole source is in the buffer. -/
def fin (sc : SC) : List (Nat × Nat) :=
  (SC.drain (sc.have_ + 1) sc).1 ++ tailOf (SC.drain (sc.have_ + 1) sc).2

/-- The same chunker with the whole source in the buffer. -/
def full (sc : SC) : SC := { sc with have_ := sc.rest.length }

theorem SInv_full (sc : SC) (hi : SInv sc) : SInv (full sc) :=
  ⟨Nat.le_refl _, CInv_mono _ _ _ hi.1 hi.2⟩

theorem fin_full_none (sc : SC) (hi : SInv sc) (ch' : Chunker) (h0 : sc.have_ ≠ 0)
    (hn : sc.ch.next sc.rest sc.have_ = (ch', none)) :
    fin (full { sc with ch := ch' }) = fin (full sc) := by
  obtain ⟨_, h2⟩ := next_none sc.ch sc.rest sc.have_ ch' hi.2 hi.1 hn
  have e := h2 sc.rest.length hi.1 (Nat.le_refl _)
  have hl : sc.rest.length ≠ 0 := by have := hi.1; omega
  unfold fin full
  dsimp only
  rcases hr : sc.ch.next sc.rest sc.rest.length with ⟨c2, r⟩
  rw [hr] at e
  cases r with
  | none =>
    rw [drain_succ_none _ _ c2 hl e, drain_succ_none _ _ c2 hl hr]
  | some n =>
    by_cases hn0 : n = 0
    · subst hn0
      simp only [SC.drain, if_neg hl, e, hr]
    · rw [drain_succ_some _ _ c2 n hl e hn0, drain_succ_some _ _ c2 n hl hr hn0]

theorem fin_full_some (sc : SC) (hi : SInv sc) (ch' : Chunker) (n : Nat)
    (hn : sc.ch.next sc.rest sc.have_ = (ch', some n)) :
    fin (full sc) = (sc.start, n) :: fin (full ⟨sc.start + n, sc.rest.drop n, sc.have_ - n, ch'⟩) := by
  obtain ⟨h1, h2, h3, h4⟩ := next_some sc.ch sc.rest sc.have_ ch' n hi.2 hi.1 hn
  have e := h4 sc.rest.length hi.1 (Nat.le_refl _)
  have hl : sc.rest.length ≠ 0 := by have := hi.1; omega
  have hl' := hi.1
  unfold fin full
  dsimp only
  rw [drain_succ_some _ _ ch' n hl e (by omega)]
  dsimp only
  have e2 : (sc.rest.drop n).length = sc.rest.length - n := by simp
  rw [e2]
  rw [drain_fuel sc.rest.length (sc.rest.length - n + 1) _
    ⟨by dsimp only; omega, CInv_mono _ _ _ (Nat.zero_le _) h1⟩ (by dsimp only; omega) (by dsimp only; omega)]
  rfl

/-- Draining first and completing the buffer afterwards changes nothing. -/
theorem fin_full_drain (f : Nat) (sc : SC) (hi : SInv sc) (hf : sc.have_ + 1 ≤ f) :
    fin (full sc) = (SC.drain f sc).1 ++ fin (full (SC.drain f sc).2) := by
  induction f generalizing sc with
  | zero => omega
  | succ f ih =>
    by_cases h0 : sc.have_ = 0
    · rw [drain_have_zero _ _ h0]; rfl
    · rcases hn : sc.ch.next sc.rest sc.have_ with ⟨ch', r⟩
      cases r with
      | none =>
        rw [drain_succ_none f sc ch' h0 hn]
        dsimp only
        rw [fin_full_none sc hi ch' h0 hn]; rfl
      | some n =>
        obtain ⟨a, b, c⟩ := SInv_after_some sc hi ch' n hn
        rw [drain_succ_some f sc ch' n h0 hn (by omega), fin_full_some sc hi ch' n hn]
        dsimp only
        rw [ih _ a (by dsimp only; omega)]
        rfl

theorem run_nil (sc : SC) : SC.run sc [] = (SC.drain (sc.have_ + 1) sc).1 := by
  rw [SC.run]

theorem run_pending (sc : SC) (s : List Rd) :
    SC.run sc (.pending :: s) =
      (SC.drain (sc.have_ + 1) sc).1 ++ SC.run (SC.drain (sc.have_ + 1) sc).2 s := by
  rw [SC.run]

theorem run_bytes (sc : SC) (n : Nat) (s : List Rd) :
    SC.run sc (.bytes n :: s) =
      (SC.drain (sc.have_ + 1) sc).1 ++
        (if (SC.drain (sc.have_ + 1) sc).2.have_ = (SC.drain (sc.have_ + 1) sc).2.rest.length then
          tailOf (SC.drain (sc.have_ + 1) sc).2
        else
          SC.run { (SC.drain (sc.have_ + 1) sc).2 with
            have_ := (SC.drain (sc.have_ + 1) sc).2.have_ +
              min (max n 1) ((SC.drain (sc.have_ + 1) sc).2.rest.length - (SC.drain (sc.have_ + 1) sc).2.have_) } s) := by
  rw [SC.run]
  dsimp only [tailOf]
  split <;> simp_all


theorem full_eq_self (sc : SC) (h : sc.have_ = sc.rest.length) : full sc = sc := by
  obtain ⟨a, b, c, d⟩ := sc
  dsimp only at h
  simp [full, h]

theorem SInv_more (sc : SC) (hi : SInv sc) (m : Nat) :
    SInv { sc with have_ := sc.have_ + min m (sc.rest.length - sc.have_) } :=
  ⟨by have := hi.1; dsimp only; omega, CInv_mono _ _ _ (by dsimp only; omega) hi.2⟩

/-- A complete script yields what a single full read yields. -/
theorem run_complete (script : List Rd) (sc : SC) (hi : SInv sc)
    (hc : Complete script (sc.rest.length - sc.have_) = true) : SC.run sc script = fin (full sc) := by
  induction script generalizing sc with
  | nil => simp [Complete] at hc
  | cons r s ih =>
    obtain ⟨a, b⟩ := drain_inv (sc.have_ + 1) sc hi
    cases r with
    | pending =>
      simp only [Complete] at hc
      rw [run_pending, ih _ a (by rw [b]; exact hc), ← fin_full_drain _ sc hi (Nat.le_refl _)]
    | bytes n =>
      rw [run_bytes]
      split
      · next he =>
        have : sc.have_ = sc.rest.length := by have := hi.1; omega
        rw [full_eq_self sc this]; rfl
      · next he =>
        have hr : sc.rest.length - sc.have_ ≠ 0 := by have := a.1; omega
        simp only [Complete, if_neg hr] at hc
        rw [ih _ (SInv_more _ a _)]
        · exact (fin_full_drain _ sc hi (Nat.le_refl _)).symm
        · dsimp only
          have e : (SC.drain (sc.have_ + 1) sc).2.rest.length -
              ((SC.drain (sc.have_ + 1) sc).2.have_ + min (max n 1)
                ((SC.drain (sc.have_ + 1) sc).2.rest.length - (SC.drain (sc.have_ + 1) sc).2.have_)) =
              sc.rest.length - sc.have_ - min (max n 1) (sc.rest.length - sc.have_) := by
            rw [b]; omega
          rw [e]; exact hc

/-- Any script yields a prefix of that. -/
theorem run_prefix (script : List Rd) (sc : SC) (hi : SInv sc) :
    ∃ r, fin (full sc) = SC.run sc script ++ r := by
  induction script generalizing sc with
  | nil =>
    rw [run_nil]
    exact ⟨_, fin_full_drain _ sc hi (Nat.le_refl _)⟩
  | cons r s ih =>
    obtain ⟨a, b⟩ := drain_inv (sc.have_ + 1) sc hi
    cases r with
    | pending =>
      obtain ⟨r, hr⟩ := ih _ a
      refine ⟨r, ?_⟩
      rw [run_pending, fin_full_drain _ sc hi (Nat.le_refl _), hr, List.append_assoc]
    | bytes n =>
      rw [run_bytes]
      split
      · next he =>
        have : sc.have_ = sc.rest.length := by have := hi.1; omega
        rw [full_eq_self sc this]
        exact ⟨[], by simp [fin]⟩
      · next he =>
        obtain ⟨r, hr⟩ := ih _ (SInv_more _ a (max n 1))
        refine ⟨r, ?_⟩
        rw [fin_full_drain _ sc hi (Nat.le_refl _), List.append_assoc, ← hr]
        rfl

theorem complete_ref (n : Nat) : Complete [.bytes n, .bytes 1] n = true := by
  simp only [Complete]
  split
  · rfl
  · have : n - min (max n 1) n = 0 := by omega
    simp [this]

theorem SInv_init (cfg : Config) (hv : cfg.Valid) (data : Bytes) :
    SInv ⟨0, data, 0, Chunker.ofConfig cfg⟩ :=
  ⟨Nat.zero_le _, CInv_ofConfig cfg hv⟩

end Bita.Proofs.CS

namespace Bita.Proofs
open Bita Bita.Spec Bita.Proofs.CS

theorem stream_independent_of_delivery (cfg : Config) (hv : cfg.Valid) (data : Bytes)
    (script : List Rd) (hc : Complete script data.length = true) :
    chunkStream cfg data script = chunkAll cfg data := by
  unfold chunkAll chunkStream
  rw [run_complete script _ (SInv_init cfg hv data) hc,
    run_complete _ _ (SInv_init cfg hv data) (complete_ref data.length)]

theorem stream_prefix (cfg : Config) (hv : cfg.Valid) (data : Bytes) (script : List Rd) :
    ∃ rest, chunkAll cfg data = chunkStream cfg data script ++ rest := by
  unfold chunkAll chunkStream
  rw [run_complete _ _ (SInv_init cfg hv data) (complete_ref data.length)]
  exact run_prefix script _ (SInv_init cfg hv data)

end Bita.Proofs
