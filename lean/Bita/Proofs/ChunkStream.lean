/-
  Delivery independence of the streaming chunker model (C09).
-/
import Bita.Model.Chunker
import Bita.Spec.Tiling

namespace Bita.Proofs
open Bita Bita.Spec

theorem stream_independent_of_delivery (cfg : Config) (hv : cfg.Valid) (data : Bytes)
    (script : List Rd) (hc : Complete script data.length = true) :
    chunkStream cfg data script = chunkAll cfg data := by
  sorry

theorem stream_prefix (cfg : Config) (hv : cfg.Valid) (data : Bytes) (script : List Rd) :
    ∃ rest, chunkAll cfg data = chunkStream cfg data script ++ rest := by
  sorry

end Bita.Proofs
