/-
  Abstract explicit-stack DFS of `build_reorder_ops` over a clobber relation `clob`:
  invariant (a),(b),(d), ordering of the emitted copies, uniqueness of copies, termination.
  (Generalisation of the prototype recorded in DESIGN.md, Appendix A.)
-/
set_option linter.unusedSectionVars false
set_option linter.unusedVariables false

namespace Bita.Proofs.Planner.Abs
variable {κ : Type} [DecidableEq κ]
inductive Ev (κ : Type) | copy (z : κ) | store (z : κ) deriving DecidableEq

structure St (κ : Type) where
  stack : List (κ × Bool)     -- head = top; Bool = expanded (op = Some)
  visited : List κ
  ops : List (Ev κ)

variable (clob : κ → List κ)

def step (s : St κ) : Option (St κ) :=
  match s.stack with
  | [] => none
  | (z, e) :: rest =>
    if z ∈ s.visited then
      if e then some { s with stack := rest, ops := s.ops ++ [Ev.copy z] }
      else some { s with stack := rest }
    else
      let vis := z :: s.visited
      let stores := (clob z).filter (fun y => decide (y ∈ vis))
      let childs := (clob z).filter (fun y => !decide (y ∈ vis))
      some { stack := (childs.map (fun y => (y, false))).reverse ++ (z, true) :: rest,
             visited := vis, ops := s.ops ++ stores.map Ev.store }

structure Inv (s : St κ) : Prop where
  i0 : ∀ z, (z, true) ∈ s.stack → z ∈ s.visited
  a : ∀ above z below, s.stack = above ++ (z, true) :: below →
        ∀ y ∈ clob z, Ev.store y ∈ s.ops ∨ Ev.copy y ∈ s.ops ∨ ∃ e ∈ above, e.1 = y
  b : ∀ z ∈ s.visited, Ev.copy z ∈ s.ops ∨ (z, true) ∈ s.stack
  d : ∀ above z mid y below, s.stack = above ++ (z, true) :: (mid ++ (y, true) :: below) →
        y ∈ clob z → Ev.store y ∈ s.ops

/-- ordering property of emitted copies -/
def Ordered (ops : List (Ev κ)) : Prop :=
  ∀ pre z post, ops = pre ++ Ev.copy z :: post → ∀ y ∈ clob z, Ev.store y ∈ pre ∨ Ev.copy y ∈ pre

theorem append_cons_eq_cons {α} {a b : α} {above below rest : List α}
    (h : b :: rest = above ++ a :: below) :
    (above = [] ∧ b = a ∧ rest = below) ∨ (∃ above', above = b :: above' ∧ rest = above' ++ a :: below) := by
  cases above with
  | nil => simp at h; exact Or.inl ⟨rfl, h.1, h.2⟩
  | cons x xs => simp at h; exact Or.inr ⟨xs, by rw [h.1], h.2⟩


theorem step_pop_true {s : St κ} {z rest} (hs : s.stack = (z, true) :: rest) (hv : z ∈ s.visited)
    (inv : Inv clob s) : Inv clob { s with stack := rest, ops := s.ops ++ [Ev.copy z] } := by
  constructor
  · intro w hw; exact inv.i0 w (by rw [hs]; exact List.mem_cons_of_mem _ hw)
  · intro above w below h y hy
    dsimp only at h ⊢
    have := inv.a ((z, true) :: above) w below (by rw [hs, h]; rfl) y hy
    rcases this with h1 | h1 | ⟨e, he, rfl⟩
    · left; simp [h1]
    · right; left; simp [h1]
    · simp at he
      rcases he with rfl | he
      · right; left; simp
      · right; right; exact ⟨e, he, rfl⟩
  · intro w hw
    rcases inv.b w hw with h1 | h1
    · left; simp [h1]
    · rw [hs] at h1; simp at h1
      rcases h1 with rfl | h1
      · left; simp
      · right; exact h1
  · intro above w mid y below h hy
    dsimp only at h ⊢
    have := inv.d ((z, true) :: above) w mid y below (by rw [hs, h]; rfl) hy
    simp [this]

theorem step_pop_false (hself : ∀ z, z ∉ clob z) {s : St κ} {y rest} (hs : s.stack = (y, false) :: rest) (hv : y ∈ s.visited)
    (inv : Inv clob s) : Inv clob { s with stack := rest } := by
  constructor
  · intro w hw; exact inv.i0 w (by rw [hs]; exact List.mem_cons_of_mem _ hw)
  · intro above w below h x hx
    dsimp only at h ⊢
    have := inv.a ((y, false) :: above) w below (by rw [hs, h]; rfl) x hx
    rcases this with h1 | h1 | ⟨e, he, rfl⟩
    · exact Or.inl h1
    · exact Or.inr (Or.inl h1)
    · simp at he
      rcases he with rfl | he
      · -- witness was the popped placeholder for y (= e.1)
        simp only at hx
        rcases inv.b y hv with h2 | h2
        · exact Or.inr (Or.inl h2)
        · rw [hs] at h2; simp at h2
          -- (y,true) ∈ rest = above ++ (w,true) :: below
          rw [h] at h2
          rcases List.mem_append.mp h2 with h3 | h3
          · exact Or.inr (Or.inr ⟨(y, true), h3, rfl⟩)
          · simp at h3
            rcases h3 with ⟨rfl, -⟩ | h3
            · exact absurd hx (hself _)
            · obtain ⟨mid, below', hb⟩ := List.append_of_mem h3
              left
              exact inv.d ((y, false) :: above) w mid y below' (by rw [hs, h, hb]; simp) hx
      · exact Or.inr (Or.inr ⟨e, he, rfl⟩)
  · intro w hw
    rcases inv.b w hw with h1 | h1
    · exact Or.inl h1
    · rw [hs] at h1; simp at h1; exact Or.inr h1
  · intro above w mid x below h hx
    dsimp only at h
    exact inv.d ((y, false) :: above) w mid x below (by rw [hs, h]; rfl) hx


theorem split_lemma {α} {l1 l2 above below : List α} {a b : α}
    (h : l1 ++ a :: l2 = above ++ b :: below) :
    (∃ m, l1 = above ++ b :: m ∧ below = m ++ a :: l2) ∨
    (above = l1 ∧ a = b ∧ l2 = below) ∨
    (∃ m, above = l1 ++ a :: m ∧ l2 = m ++ b :: below) := by
  rcases List.append_eq_append_iff.mp h with ⟨m, h1, h2⟩ | ⟨m, h1, h2⟩
  · -- above = l1 ++ m, a :: l2 = m ++ b :: below
    cases m with
    | nil => simp at h1 h2; right; left; exact ⟨h1, h2.1, h2.2⟩
    | cons x xs => simp at h2; right; right; exact ⟨xs, by rw [h1, h2.1], h2.2⟩
  · -- l1 = above ++ m, b :: below = m ++ a :: l2
    cases m with
    | nil => simp at h1 h2; right; left; exact ⟨h1.symm, h2.1.symm, h2.2.symm⟩
    | cons x xs => simp at h2; left; exact ⟨xs, by rw [h1, h2.1], h2.2⟩

theorem step_expand {s : St κ} {z e rest} (hs : s.stack = (z, e) :: rest) (hv : z ∉ s.visited)
    (inv : Inv clob s) :
    Inv clob { stack := (((clob z).filter (fun y => !decide (y ∈ z :: s.visited))).map (fun y => (y, false))).reverse ++ (z, true) :: rest,
               visited := z :: s.visited,
               ops := s.ops ++ ((clob z).filter (fun y => decide (y ∈ z :: s.visited))).map Ev.store } := by
  have hfalse : ∀ w, (w, true) ∉ (((clob z).filter (fun y => !decide (y ∈ z :: s.visited))).map (fun y => (y, false))).reverse := by
    intro w hw; simp at hw
  have he : e = false := by
    cases e with
    | false => rfl
    | true => exact absurd (inv.i0 z (by rw [hs]; simp)) hv
  subst he
  constructor
  · intro w hw
    dsimp only at hw ⊢
    rcases List.mem_append.mp hw with h1 | h1
    · exact absurd h1 (hfalse w)
    · simp at h1
      rcases h1 with rfl | h1
      · simp
      · exact List.mem_cons_of_mem _ (inv.i0 w (by rw [hs]; exact List.mem_cons_of_mem _ h1))
  · intro above w below h y hy
    dsimp only at h ⊢
    rcases split_lemma h with ⟨m, h1, -⟩ | ⟨h1, h2, h3⟩ | ⟨m, h1, h2⟩
    · exact absurd (by rw [h1]; simp) (hfalse w)
    · -- the new expanded entry
      simp at h2; subst h2
      by_cases hyv : y ∈ z :: s.visited
      · left; simp; right; exact ⟨hy, by simpa using hyv⟩
      · right; right; refine ⟨(y, false), ?_, rfl⟩
        rw [h1]; simp; exact ⟨hy, by simpa using hyv⟩
    · -- an older entry in rest
      have := inv.a ((z, false) :: m) w below (by rw [hs, h2]; rfl) y hy
      rcases this with h3 | h3 | ⟨e', he', rfl⟩
      · left; simp [h3]
      · right; left; simp [h3]
      · right; right
        simp at he'
        rcases he' with rfl | he'
        · exact ⟨(z, true), by rw [h1]; simp, rfl⟩
        · exact ⟨e', by rw [h1]; simp [he'], rfl⟩
  · intro w hw
    dsimp only at hw ⊢
    simp at hw
    rcases hw with rfl | hw
    · right; simp
    · rcases inv.b w hw with h1 | h1
      · left; simp [h1]
      · right; rw [hs] at h1
        rcases List.mem_cons.mp h1 with h1 | h1
        · simp at h1
        · exact List.mem_append_right _ (List.mem_cons_of_mem _ h1)
  · intro above w mid y below h hy
    dsimp only at h ⊢
    rcases split_lemma h with ⟨m, h1, -⟩ | ⟨h1, h2, h3⟩ | ⟨m, h1, h2⟩
    · exact absurd (by rw [h1]; simp) (hfalse w)
    · simp at h2; subst h2
      -- y expanded below z in rest → y visited → store y appended
      have hyv : y ∈ s.visited := inv.i0 y (by rw [hs, h3]; simp)
      simp; right; exact ⟨hy, Or.inr hyv⟩
    · have := inv.d ((z, false) :: m) w mid y below (by rw [hs, h2]; simp) hy
      simp [this]

/-- Ordered is preserved by appending stores, and by appending a copy whose clobbered set is covered -/
theorem ordered_append_stores {ops : List (Ev κ)} (h : Ordered clob ops) (ys : List κ) :
    Ordered clob (ops ++ ys.map Ev.store) := by
  intro pre z post hdec y hy
  rcases List.append_eq_append_iff.mp hdec with ⟨m, h1, h2⟩ | ⟨m, h1, h2⟩
  · -- pre = ops ++ m, stores = m ++ copy z :: post : impossible
    have : Ev.copy z ∈ ys.map Ev.store := by rw [h2]; simp
    simp at this
  · cases m with
    | nil => simp at h2; have : Ev.copy z ∈ ys.map Ev.store := by rw [← h2]; simp
             simp at this
    | cons x xs =>
      simp at h2
      exact h pre z xs (by rw [h1, h2.1]) y hy

theorem ordered_append_copy {ops : List (Ev κ)} (h : Ordered clob ops) (z : κ)
    (hz : ∀ y ∈ clob z, Ev.store y ∈ ops ∨ Ev.copy y ∈ ops) :
    Ordered clob (ops ++ [Ev.copy z]) := by
  intro pre w post hdec y hy
  rcases List.append_eq_append_iff.mp hdec with ⟨m, h1, h2⟩ | ⟨m, h1, h2⟩
  · cases m with
    | nil => simp at h1 h2; obtain ⟨rfl, -⟩ := h2; subst h1; exact hz y hy
    | cons x xs => simp at h2
  · cases m with
    | nil => simp at h1 h2; obtain ⟨rfl, -⟩ := h2; subst h1; exact hz y hy
    | cons x xs => simp at h2; exact h pre w xs (by rw [h1, h2.1]) y hy


/-- fuel-driven run -/
def run : Nat → St κ → St κ
  | 0, s => s
  | n+1, s => match step clob s with
    | none => s
    | some s' => run n s'

theorem step_inv (hself : ∀ z, z ∉ clob z) {s s' : St κ} (h : step clob s = some s')
    (inv : Inv clob s) (ord : Ordered clob s.ops) : Inv clob s' ∧ Ordered clob s'.ops := by
  unfold step at h
  split at h
  · simp at h
  · rename_i z e rest hs
    split at h
    · rename_i hv
      split at h
      · rename_i he; subst he
        simp at h; subst h
        refine ⟨step_pop_true clob hs hv inv, ?_⟩
        apply ordered_append_copy clob ord
        intro y hy
        rcases inv.a [] z rest (by rw [hs]; rfl) y hy with h1 | h1 | ⟨e, he, -⟩
        · exact Or.inl h1
        · exact Or.inr h1
        · simp at he
      · rename_i he
        have : e = false := by cases e <;> simp_all
        subst this
        simp at h; subst h
        exact ⟨step_pop_false clob hself hs hv inv, ord⟩
    · rename_i hv
      simp only [Option.some.injEq] at h; subst h
      exact ⟨step_expand clob hs hv inv, ordered_append_stores clob ord _⟩

theorem run_inv (hself : ∀ z, z ∉ clob z) (n : Nat) (s : St κ)
    (inv : Inv clob s) (ord : Ordered clob s.ops) :
    Inv clob (run clob n s) ∧ Ordered clob (run clob n s).ops := by
  induction n generalizing s with
  | zero => exact ⟨inv, ord⟩
  | succ n ih =>
    unfold run
    split
    · exact ⟨inv, ord⟩
    · rename_i s' h
      obtain ⟨i', o'⟩ := step_inv clob hself h inv ord
      exact ih s' i' o'

theorem init_inv (root : κ) (ops : List (Ev κ)) : Inv clob { stack := [(root, false)], visited := [], ops := ops } := by
  constructor
  · intro z hz; simp at hz
  · intro above z below h; cases above <;> simp at h
  · intro z hz; simp at hz
  · intro above z mid y below h; cases above <;> simp at h


/-! ### Uniqueness of copies, reachability bookkeeping -/

def copyKeys : List (Ev κ) → List κ
  | [] => []
  | Ev.copy z :: r => z :: copyKeys r
  | Ev.store _ :: r => copyKeys r

def expKeys : List (κ × Bool) → List κ
  | [] => []
  | (z, true) :: r => z :: expKeys r
  | (_, false) :: r => expKeys r

theorem copyKeys_append (a b : List (Ev κ)) : copyKeys (a ++ b) = copyKeys a ++ copyKeys b := by
  induction a with
  | nil => rfl
  | cons x xs ih => cases x <;> simp [copyKeys, ih]

theorem copyKeys_stores (ys : List κ) : copyKeys (ys.map Ev.store) = [] := by
  induction ys with
  | nil => rfl
  | cons x xs ih => simp [copyKeys, ih]

theorem mem_copyKeys {z : κ} {ops : List (Ev κ)} : z ∈ copyKeys ops ↔ Ev.copy z ∈ ops := by
  induction ops with
  | nil => simp [copyKeys]
  | cons x xs ih => cases x <;> simp [copyKeys, ih]

theorem expKeys_append (a b : List (κ × Bool)) : expKeys (a ++ b) = expKeys a ++ expKeys b := by
  induction a with
  | nil => rfl
  | cons x xs ih =>
    obtain ⟨z, e⟩ := x
    cases e <;> simp [expKeys, ih]

theorem expKeys_false (ys : List κ) : expKeys ((ys.map (fun y => (y, false))).reverse) = [] := by
  induction ys with
  | nil => rfl
  | cons x xs ih => simp [expKeys_append, expKeys] at ih ⊢; exact ih

theorem mem_expKeys {z : κ} {st : List (κ × Bool)} : z ∈ expKeys st ↔ (z, true) ∈ st := by
  induction st with
  | nil => simp [expKeys]
  | cons x xs ih =>
    obtain ⟨w, e⟩ := x
    cases e <;> simp [expKeys, ih]

variable (U : List κ) (root : κ)

structure Inv2 (s : St κ) : Prop where
  nd : (copyKeys s.ops ++ expKeys s.stack).Nodup
  sub : ∀ k, k ∈ copyKeys s.ops ++ expKeys s.stack → k ∈ s.visited
  rt : root ∈ s.visited ∨ (root, false) ∈ s.stack
  stU : ∀ e ∈ s.stack, e.1 ∈ U
  visU : ∀ k ∈ s.visited, k ∈ U

theorem init_inv2 (hroot : root ∈ U) :
    Inv2 U root { stack := [(root, false)], visited := [], ops := [] } := by
  constructor
  · simp [copyKeys, expKeys]
  · simp [copyKeys, expKeys]
  · right; simp
  · intro e he; simp at he; subst he; exact hroot
  · intro k hk; simp at hk

theorem step_inv2 (hU : ∀ z y, y ∈ clob z → y ∈ U) {s s' : St κ} (h : step clob s = some s')
    (inv : Inv clob s) (inv2 : Inv2 U root s) : Inv2 U root s' := by
  unfold step at h
  split at h
  · simp at h
  · rename_i z e rest hs
    have hnd := inv2.nd
    have hsub := inv2.sub
    split at h
    · rename_i hv
      split at h
      · rename_i he; subst he
        simp only [Option.some.injEq] at h; subst h
        rw [hs] at hnd hsub
        constructor
        · dsimp only
          simp only [copyKeys_append, copyKeys, expKeys] at hnd ⊢
          simpa using hnd
        · dsimp only
          intro k hk
          apply hsub
          simp only [copyKeys_append, copyKeys, expKeys] at hk ⊢
          simpa using hk
        · dsimp only
          rcases inv2.rt with h1 | h1
          · exact Or.inl h1
          · rw [hs] at h1; simp at h1; exact Or.inr h1
        · intro e he; exact inv2.stU e (by rw [hs]; exact List.mem_cons_of_mem _ he)
        · exact inv2.visU
      · rename_i he
        have : e = false := by cases e <;> simp_all
        subst this
        simp only [Option.some.injEq] at h; subst h
        rw [hs] at hnd hsub
        constructor
        · simpa [expKeys] using hnd
        · simpa [expKeys] using hsub
        · dsimp only
          rcases inv2.rt with h1 | h1
          · exact Or.inl h1
          · rw [hs] at h1; simp at h1
            rcases h1 with rfl | h1
            · exact Or.inl hv
            · exact Or.inr h1
        · intro e he; exact inv2.stU e (by rw [hs]; exact List.mem_cons_of_mem _ he)
        · exact inv2.visU
    · rename_i hv
      simp only [Option.some.injEq] at h; subst h
      have he : e = false := by
        cases e with
        | false => rfl
        | true => exact absurd (inv.i0 z (by rw [hs]; simp)) hv
      subst he
      rw [hs] at hnd hsub
      have hzU : z ∈ U := inv2.stU (z, false) (by rw [hs]; simp)
      constructor
      · dsimp only
        simp only [copyKeys_append, copyKeys_stores, expKeys_append, expKeys_false, expKeys,
          List.append_nil, List.nil_append] at hnd hsub ⊢
        have hz : z ∉ copyKeys s.ops ++ expKeys rest := fun hz => hv (hsub z hz)
        rw [List.nodup_append] at hnd ⊢
        simp only [List.mem_append, not_or] at hz
        refine ⟨hnd.1, ?_, ?_⟩
        · rw [List.nodup_cons]; exact ⟨hz.2, hnd.2.1⟩
        · intro a ha b hb
          rcases List.mem_cons.mp hb with rfl | hb
          · intro hab; subst hab; exact hz.1 ha
          · exact hnd.2.2 a ha b hb
      · dsimp only
        simp only [copyKeys_append, copyKeys_stores, expKeys_append, expKeys_false, expKeys,
          List.append_nil, List.nil_append] at hsub ⊢
        intro k hk
        simp only [List.mem_append, List.mem_cons] at hk
        rcases hk with hk | rfl | hk
        · exact List.mem_cons_of_mem _ (hsub k (List.mem_append_left _ hk))
        · simp
        · exact List.mem_cons_of_mem _ (hsub k (List.mem_append_right _ hk))
      · dsimp only
        rcases inv2.rt with h1 | h1
        · exact Or.inl (List.mem_cons_of_mem _ h1)
        · rw [hs] at h1; simp at h1
          rcases h1 with rfl | h1
          · left; simp
          · right; simp [h1]
      · dsimp only
        intro e he
        simp only [List.mem_append, List.mem_reverse, List.mem_map, List.mem_filter,
          List.mem_cons] at he
        rcases he with ⟨y, ⟨hy, -⟩, rfl⟩ | rfl | he
        · exact hU z y hy
        · exact hzU
        · exact inv2.stU e (by rw [hs]; exact List.mem_cons_of_mem _ he)
      · dsimp only
        intro k hk
        rcases List.mem_cons.mp hk with rfl | hk
        · exact hzU
        · exact inv2.visU k hk

/-! ### Termination -/

variable (W : List κ → Nat)

def pot (s : St κ) : Nat := s.stack.length + 2 * W s.visited

theorem step_pot (hW : ∀ z ∈ U, ∀ vis, z ∉ vis → W (z :: vis) + 1 + (clob z).length ≤ W vis)
    {s s' : St κ} (h : step clob s = some s') (hst : ∀ e ∈ s.stack, e.1 ∈ U) :
    pot W s' < pot W s := by
  unfold step at h
  split at h
  · simp at h
  · rename_i z e rest hs
    split at h
    · split at h
      · simp only [Option.some.injEq] at h; subst h
        simp [pot, hs]
      · simp only [Option.some.injEq] at h; subst h
        simp [pot, hs]
    · rename_i hv
      simp only [Option.some.injEq] at h; subst h
      have hzU : z ∈ U := hst (z, e) (by rw [hs]; simp)
      have h1 := hW z hzU s.visited hv
      have h2 : ((clob z).filter (fun y => !decide (y ∈ z :: s.visited))).length ≤ (clob z).length :=
        List.length_filter_le _ _
      simp only [pot, hs, List.length_append, List.length_reverse, List.length_map,
        List.length_cons]
      omega

theorem step_none {s : St κ} : step clob s = none ↔ s.stack = [] := by
  unfold step
  split
  · rename_i h; simp [h]
  · rename_i z e rest hs
    simp only [hs]
    split
    · split <;> simp
    · simp

theorem run_all (hself : ∀ z, z ∉ clob z) (hU : ∀ z y, y ∈ clob z → y ∈ U)
    (hW : ∀ z ∈ U, ∀ vis, z ∉ vis → W (z :: vis) + 1 + (clob z).length ≤ W vis)
    (n : Nat) (s : St κ) (hn : pot W s ≤ n)
    (inv : Inv clob s) (ord : Ordered clob s.ops) (inv2 : Inv2 U root s) :
    Inv clob (run clob n s) ∧ Ordered clob (run clob n s).ops ∧ Inv2 U root (run clob n s) ∧
      (run clob n s).stack = [] := by
  induction n generalizing s with
  | zero =>
    refine ⟨inv, ord, inv2, ?_⟩
    simp only [run]
    simp only [pot] at hn
    exact List.eq_nil_of_length_eq_zero (by omega)
  | succ n ih =>
    unfold run
    split
    · rename_i h
      exact ⟨inv, ord, inv2, (step_none clob).mp h⟩
    · rename_i s' h
      obtain ⟨i', o'⟩ := step_inv clob hself h inv ord
      have := step_pot clob U W hW h inv2.stU
      exact ih s' (by omega) i' o' (step_inv2 clob U root hU h inv inv2)

/-- Everything the concrete development needs about one tree. -/
theorem run_final (hself : ∀ z, z ∉ clob z) (hU : ∀ z y, y ∈ clob z → y ∈ U)
    (hW : ∀ z ∈ U, ∀ vis, z ∉ vis → W (z :: vis) + 1 + (clob z).length ≤ W vis)
    (hroot : root ∈ U) (n : Nat) (hn : 1 + 2 * W [] ≤ n) :
    let fin := run clob n { stack := [(root, false)], visited := [], ops := [] }
    fin.stack = [] ∧ Ordered clob fin.ops ∧ (copyKeys fin.ops).Nodup ∧
      (∀ k, k ∈ copyKeys fin.ops ↔ k ∈ fin.visited) ∧ root ∈ fin.visited ∧
      (∀ k ∈ fin.visited, k ∈ U) := by
  intro fin
  have hord : Ordered clob ([] : List (Ev κ)) := by
    intro pre z post h; simp at h
  obtain ⟨inv, ord, inv2, hnil⟩ := run_all clob U root W hself hU hW n
    { stack := [(root, false)], visited := [], ops := [] } (by simpa [pot] using hn)
    (init_inv clob root []) hord (init_inv2 U root hroot)
  have hnd := inv2.nd
  have hsub := inv2.sub
  have hrt := inv2.rt
  rw [hnil] at hnd hsub hrt
  simp only [expKeys, List.append_nil] at hnd hsub
  refine ⟨hnil, ord, hnd, ?_, ?_, inv2.visU⟩
  · intro k
    refine ⟨hsub k, fun hk => ?_⟩
    rcases inv.b k hk with h1 | h1
    · exact mem_copyKeys.mpr h1
    · rw [hnil] at h1; simp at h1
  · simpa using hrt

end Bita.Proofs.Planner.Abs
